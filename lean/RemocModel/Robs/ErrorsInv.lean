import RemocModel.Robs.Errors

/-!
Invariant of the subscriber/mirror LTS of `Errors.lean` and its preservation (helper lemmas for C14).
-/

namespace Remoc.Robs

variable {S : Sys}

/-! ### list facts -/

theorem drop_cons_succ {α : Type} : ∀ (l : List α) (n : Nat) (h : α) (t : List α),
    l.drop n = h :: t → l.drop (n + 1) = t := by
  intro l
  induction l with
  | nil => intro n h t e; simp at e
  | cons a l ih =>
    intro n h t e
    cases n with
    | zero => simp at e; simp [e.2]
    | succ n => simp at e ⊢; exact ih n h t e

theorem take_succ_of_drop {α : Type} : ∀ (l : List α) (n : Nat) (h : α) (t : List α),
    l.drop n = h :: t → l.take (n + 1) = l.take n ++ [h] := by
  intro l
  induction l with
  | nil => intro n h t e; simp at e
  | cons a l ih =>
    intro n h t e
    cases n with
    | zero => simp at e; simp [e.1]
    | succ n => simp at e ⊢; exact ih n h t e

theorem getElem?_of_drop {α : Type} : ∀ (l : List α) (n : Nat) (h : α) (t : List α),
    l.drop n = h :: t → l[n]? = some h := by
  intro l
  induction l with
  | nil => intro n h t e; simp at e
  | cons a l ih =>
    intro n h t e
    cases n with
    | zero => simp at e; simp [e.1]
    | succ n => simp at e ⊢; exact ih n h t e

theorem hasDone_append {Ev : Type} (a b : List (Event Ev)) : hasDone (a ++ b) = (hasDone a || hasDone b) := by
  simp [hasDone, List.any_append]

theorem hasDone_false_getElem {Ev : Type} (l : List (Event Ev)) (h : hasDone l = false) (i : Nat) :
    l[i]? ≠ some Event.done := by
  intro hi
  have hm : Event.done ∈ l := List.mem_of_getElem? hi
  have : hasDone l = true := by
    simp only [hasDone, List.any_eq_true]
    exact ⟨Event.done, hm, rfl⟩
  rw [h] at this; cases this

theorem prefixState_append (M : Nat) (c : S.C) (a b : List (Event S.Ev)) :
    prefixState S M c (a ++ b) = prefixState S M (prefixState S M c a) b := by
  simp [prefixState, List.foldl_append]

/-! ### what one iteration of the mirror task does -/

theorem taskStep_maxSize (var : Variant) (t : Task S.C) (r : Recv (Event S.Ev)) :
    (S.taskStep var t r).m.maxSize = t.m.maxSize := by
  unfold Sys.taskStep
  split
  · cases r with
    | ev e =>
      cases e with
      | change x =>
        simp only [Sys.handle]
        cases h : (S.applyEv t.m.maxSize t.m.v x).2 <;> simp [h]
      | done => simp [Sys.handle]
      | initialComplete => simp [Sys.handle]
    | err x => rfl
    | eof => rfl
  · rfl

/-- A task that is not running never changes. -/
theorem taskStep_stopped (var : Variant) (t : Task S.C) (r : Recv (Event S.Ev)) (h : t.running = false) :
    S.taskStep var t r = t := by
  simp [Sys.taskStep, h]

/-- An error result ends the task with that error and the contents untouched. -/
theorem taskStep_err (t : Task S.C) (x : Err) (h : t.running = true) :
    S.taskStep .pinned t (.err x) = { m := { t.m with error := some x }, running := false } := by
  simp [Sys.taskStep, h]

/-- Handling an event: the contents advance by that event; the task keeps running iff there was no
error and the event was not `Done`. -/
theorem taskStep_ev (t : Task S.C) (e : Event S.Ev) (h : t.running = true) (hd : t.m.done = false)
    (he : t.m.error = none) :
    (S.taskStep .pinned t (.ev e)).m.v = prefixState S t.m.maxSize t.m.v [e] ∧
    ((S.taskStep .pinned t (.ev e)).running = true →
        (S.taskStep .pinned t (.ev e)).m.error = none ∧ (S.taskStep .pinned t (.ev e)).m.done = false ∧
        e ≠ Event.done) ∧
    ((S.taskStep .pinned t (.ev e)).running = false → (S.taskStep .pinned t (.ev e)).m.error = none →
        (S.taskStep .pinned t (.ev e)).m.done = true ∧ e = Event.done) ∧
    ((S.taskStep .pinned t (.ev e)).m.error ≠ none → (S.taskStep .pinned t (.ev e)).running = false) := by
  cases e with
  | change x =>
    cases hx : (S.applyEv t.m.maxSize t.m.v x).2 with
    | none => simp [Sys.taskStep, h, Sys.handle, hx, breakNow, hd, he, prefixState]
    | some err => simp [Sys.taskStep, h, Sys.handle, hx, prefixState]
  | done => simp [Sys.taskStep, h, Sys.handle, breakNow, he, prefixState]
  | initialComplete => simp [Sys.taskStep, h, Sys.handle, breakNow, hd, he, prefixState]

/-! ### the invariant -/

/-- Shape of the queue in front of a running mirror: first the events that directly follow the ones
already applied, then — if anything was skipped — a `Lagged` marker before anything else. -/
def QueueOk (s : MSt S) : Prop :=
  ∃ (k : Nat) (rest : List (Item (Event S.Ev))),
    s.queue = ((s.hist.drop s.applied).take k).map Item.value ++ rest ∧
    s.applied + k ≤ s.hist.length ∧
    (rest = [] ∨ ∃ r, rest = Item.lagged :: r) ∧
    (rest = [] → s.armed = true → s.applied + k = s.hist.length) ∧
    (rest = [] → s.armed = false → s.lagPending = true)

structure MInv (s : MSt S) : Prop where
  capPos : 0 < s.cap
  le : s.applied ≤ s.hist.length
  contents : s.task.m.v = prefixState S s.task.m.maxSize s.c0 (s.hist.take s.applied)
  errStop : s.task.m.error ≠ none → s.task.running = false
  doneLast : ∀ i, s.hist[i]? = some Event.done → i + 1 = s.hist.length
  lagArm : s.lagPending = true → s.armed = false
  runQ : s.task.running = true → s.task.m.error = none ∧ s.task.m.done = false ∧ QueueOk s
  stopOk : s.task.running = false → s.task.m.error = none →
    s.task.m.done = true ∧ s.applied = s.hist.length ∧ hasDone s.hist = true

theorem MInv.init (c0 : S.C) (cap M : Nat) (h : 0 < cap) : MInv (MSt.init S c0 cap M) where
  capPos := h
  le := Nat.le_refl _
  contents := rfl
  errStop := by intro h; simp [MSt.init] at h
  doneLast := by intro i h; simp [MSt.init] at h
  lagArm := by intro h; simp [MSt.init] at h
  runQ := by
    intro _
    refine ⟨rfl, rfl, 0, [], ?_, ?_, Or.inl rfl, ?_, ?_⟩ <;> simp [MSt.init]
  stopOk := by intro h; simp [MSt.init] at h

end Remoc.Robs

namespace Remoc.Robs

variable {S : Sys}

/-- Appending to the history does not disturb the part in front of a position inside it. -/
theorem take_drop_append {α : Type} (l : List α) (e : α) (n k : Nat) (h : n + k ≤ l.length) :
    ((l ++ [e]).drop n).take k = (l.drop n).take k := by
  rw [List.drop_append_of_le_length (by omega)]
  rw [List.take_append_of_le_length (by simp; omega)]

theorem take_append_le {α : Type} (l : List α) (e : α) (n : Nat) (h : n ≤ l.length) :
    (l ++ [e]).take n = l.take n := by
  rw [List.take_append_of_le_length h]

theorem MInv.emit {s s' : MSt S} {e : Event S.Ev} (hi : MInv s) (h : s.step (.emit e) = some s') : MInv s' := by
  simp only [MSt.step] at h
  split at h
  · cases h
  rename_i hguard
  simp only [Bool.or_eq_true, not_or, Bool.not_eq_true] at hguard
  obtain ⟨hcl, hnd⟩ := hguard
  -- facts that hold for every branch: the history grows by `e`
  have hle' : s.applied ≤ (s.hist ++ [e]).length := by have := hi.le; simp; omega
  have htake : (s.hist ++ [e]).take s.applied = s.hist.take s.applied := take_append_le _ _ _ hi.le
  have hdl : ∀ i, (s.hist ++ [e])[i]? = some Event.done → i + 1 = (s.hist ++ [e]).length := by
    intro i hiq
    by_cases hlt : i < s.hist.length
    · rw [List.getElem?_append_left hlt] at hiq
      exact absurd hiq (hasDone_false_getElem _ hnd i)
    · have : i = s.hist.length := by
        rcases Nat.lt_or_ge i (s.hist ++ [e]).length with h1 | h1
        · simp at h1; omega
        · rw [List.getElem?_eq_none (by simpa using h1)] at hiq; cases hiq
      simp [this]
  have hstop : s.task.running = false → s.task.m.error = none → False := by
    intro hr he
    have := (hi.stopOk hr he).2.2
    rw [hnd] at this; cases this
  split at h
  · rename_i harmed
    split at h
    · -- armed, room in the queue
      rename_i hroom
      cases h
      refine ⟨hi.capPos, hle', by simpa [htake] using hi.contents, hi.errStop, hdl, hi.lagArm, ?_, ?_⟩
      · intro hr
        obtain ⟨he, hd, k, rest, hq, hk, hrest, ha, hb⟩ := hi.runQ hr
        refine ⟨he, hd, ?_⟩
        rcases hrest with hrest | ⟨r, hrest⟩
        · subst hrest
          have hk' := ha rfl harmed
          refine ⟨k + 1, [], ?_, by simp; omega, Or.inl rfl, fun _ _ => by simp; omega, fun _ h2 => ?_⟩
          · simp only [List.append_nil] at hq ⊢
            rw [hq]
            rw [List.drop_append_of_le_length hi.le]
            have hlen : (s.hist.drop s.applied).length = k := by simp; omega
            rw [List.take_of_length_le (by omega), List.take_of_length_le (by simp; omega)]
            simp
          · simp [harmed] at h2
        · subst hrest
          refine ⟨k, Item.lagged :: (r ++ [Item.value e]), ?_, by simp; omega, Or.inr ⟨_, rfl⟩,
            fun h1 => (by cases h1), fun h1 => (by cases h1)⟩
          rw [take_drop_append _ _ _ _ hk, hq]; simp
      · intro hr he; exact absurd (hstop hr he) id
    · -- armed, queue full: shed
      cases h
      refine ⟨hi.capPos, hle', by simpa [htake] using hi.contents, hi.errStop, hdl, fun _ => rfl, ?_, ?_⟩
      · intro hr
        obtain ⟨he, hd, k, rest, hq, hk, hrest, ha, hb⟩ := hi.runQ hr
        refine ⟨he, hd, k, rest, ?_, by simp; omega, hrest, fun _ h2 => (by cases h2), fun _ _ => rfl⟩
        rw [take_drop_append _ _ _ _ hk]; exact hq
      · intro hr he; exact absurd (hstop hr he) id
  · -- not armed: the event is lost for this subscriber
    rename_i hna
    cases h
    refine ⟨hi.capPos, hle', by simpa [htake] using hi.contents, hi.errStop, hdl, hi.lagArm, ?_, ?_⟩
    · intro hr
      obtain ⟨he, hd, k, rest, hq, hk, hrest, ha, hb⟩ := hi.runQ hr
      refine ⟨he, hd, k, rest, ?_, by simp; omega, hrest, fun _ h2 => absurd h2 hna, hb⟩
      rw [take_drop_append _ _ _ _ hk]; exact hq
    · intro hr he; exact absurd (hstop hr he) id

end Remoc.Robs

namespace Remoc.Robs

variable {S : Sys}

theorem MInv.shed {s s' : MSt S} (hi : MInv s) (h : s.step .shed = some s') : MInv s' := by
  simp only [MSt.step] at h
  split at h
  · rename_i hg
    simp only [Bool.and_eq_true, decide_eq_true_eq] at hg
    cases h
    refine ⟨hi.capPos, hi.le, hi.contents, hi.errStop, hi.doneLast, fun h1 => (by cases h1), ?_, hi.stopOk⟩
    intro hr
    obtain ⟨he, hd, k, rest, hq, hk, hrest, ha, hb⟩ := hi.runQ hr
    refine ⟨he, hd, k, rest ++ [Item.lagged], by simp [hq], hk, ?_, fun h1 => (by simp at h1), fun h1 => (by simp at h1)⟩
    rcases hrest with hrest | ⟨r, hrest⟩
    · subst hrest; exact Or.inr ⟨[], rfl⟩
    · subst hrest; exact Or.inr ⟨r ++ [Item.lagged], rfl⟩
  · cases h

theorem MInv.rearm {s s' : MSt S} (hi : MInv s) (h : s.step .rearm = some s') : MInv s' := by
  simp only [MSt.step] at h
  split at h
  · rename_i hg
    simp only [Bool.and_eq_true, Bool.not_eq_true', decide_eq_true_eq] at hg
    obtain ⟨⟨⟨hna, hnl⟩, hroom⟩, hncl⟩ := hg
    cases h
    refine ⟨hi.capPos, hi.le, hi.contents, hi.errStop, hi.doneLast, fun h1 => (by simp [hnl] at h1), ?_, hi.stopOk⟩
    intro hr
    obtain ⟨he, hd, k, rest, hq, hk, hrest, ha, hb⟩ := hi.runQ hr
    refine ⟨he, hd, k, rest, hq, hk, hrest, fun h1 _ => ?_, fun _ h2 => (by cases h2)⟩
    have := hb h1 hna
    rw [hnl] at this; cases this
  · cases h

theorem MInv.drop {s s' : MSt S} (hi : MInv s) (h : s.step .drop = some s') : MInv s' := by
  simp only [MSt.step] at h
  split at h
  · cases h
  · cases h
    exact ⟨hi.capPos, hi.le, hi.contents, hi.errStop, hi.doneLast, hi.lagArm, hi.runQ, hi.stopOk⟩

theorem MInv.cut {s s' : MSt S} (hi : MInv s) (h : s.step .cut = some s') : MInv s' := by
  simp only [MSt.step] at h
  cases h
  exact ⟨hi.capPos, hi.le, hi.contents, hi.errStop, hi.doneLast, hi.lagArm, hi.runQ, hi.stopOk⟩

/-- The task ends with an error: nothing else changes. -/
theorem MInv.fail {s : MSt S} (hi : MInv s) (hr : s.task.running = true) (x : Err) (q : List (Item (Event S.Ev))) :
    MInv { s with queue := q, task := S.taskStep .pinned s.task (.err x) } := by
  rw [taskStep_err s.task x hr]
  refine ⟨hi.capPos, hi.le, hi.contents, fun _ => rfl, hi.doneLast, hi.lagArm, fun h1 => (by cases h1),
    fun _ h2 => (by simp at h2)⟩

theorem MInv.consumeCut {s s' : MSt S} {x : Err} (hi : MInv s) (h : s.step (.consumeCut x) = some s') : MInv s' := by
  simp only [MSt.step] at h
  split at h
  · rename_i hg
    simp only [Bool.and_eq_true] at hg
    cases h
    exact MInv.fail hi hg.2 x s.queue
  · cases h

theorem MInv.consume {s s' : MSt S} (hi : MInv s) (h : s.step .consume = some s') : MInv s' := by
  simp only [MSt.step] at h
  split at h
  case isFalse => cases h
  rename_i hr
  obtain ⟨he, hd, k, rest, hq, hk, hrest, ha, hb⟩ := hi.runQ hr
  split at h
  · -- a value
    rename_i e q hqe
    cases h
    -- the value is the event that follows the applied ones
    have hfront : ∃ t, s.hist.drop s.applied = e :: t ∧ 0 < k ∧
        q = ((s.hist.drop (s.applied + 1)).take (k - 1)).map Item.value ++ rest := by
      rw [hqe] at hq
      cases hdrop : s.hist.drop s.applied with
      | nil =>
        rw [hdrop] at hq
        simp at hq
        rcases hrest with hrest | ⟨r, hrest⟩
        · rw [hrest] at hq; cases hq
        · rw [hrest] at hq; cases hq
      | cons h0 t =>
        rw [hdrop] at hq
        cases k with
        | zero =>
          simp at hq
          rcases hrest with hrest | ⟨r, hrest⟩
          · rw [hrest] at hq; cases hq
          · rw [hrest] at hq; cases hq
        | succ k =>
          simp at hq
          refine ⟨t, by rw [hq.1.symm], by omega, ?_⟩
          rw [drop_cons_succ _ _ _ _ hdrop]
          simpa using hq.2
    obtain ⟨t, hdrop, hkpos, hq'⟩ := hfront
    have hlt : s.applied < s.hist.length := by
      rcases Nat.lt_or_ge s.applied s.hist.length with h1 | h1
      · exact h1
      · rw [List.drop_eq_nil_of_le h1] at hdrop; cases hdrop
    have htake := take_succ_of_drop _ _ _ _ hdrop
    have hget := getElem?_of_drop _ _ _ _ hdrop
    obtain ⟨hv, hrun, hstop, herr⟩ := taskStep_ev s.task e hr hd he
    have hms := taskStep_maxSize (S := S) .pinned s.task (.ev e)
    refine ⟨hi.capPos, (by show s.applied + 1 ≤ s.hist.length; omega), ?_, herr, hi.doneLast, hi.lagArm, ?_, ?_⟩
    · show (S.taskStep .pinned s.task (.ev e)).m.v = _
      rw [hv, hms, htake, prefixState_append, ← hi.contents]
    · intro hr'
      obtain ⟨h1, h2, _⟩ := hrun hr'
      refine ⟨h1, h2, k - 1, rest, hq', by simp; omega, hrest, fun h3 h4 => ?_, hb⟩
      have := ha h3 h4
      simp; omega
    · intro hr' he'
      obtain ⟨h1, h2⟩ := hstop hr' he'
      subst h2
      have hlast := hi.doneLast s.applied hget
      refine ⟨h1, by simpa using hlast, ?_⟩
      simp only [hasDone, List.any_eq_true]
      exact ⟨Event.done, List.mem_of_getElem? hget, rfl⟩
  · -- the Lagged marker
    rename_i q hqe
    cases h
    exact MInv.fail hi hr .lagged q
  · -- end of the queue after the collection was dropped
    rename_i hqe
    split at h
    · cases h
      have := MInv.fail hi hr .closed s.queue
      simpa using this
    · cases h

/-- The invariant is preserved by every transition. -/
theorem MInv.step {s s' : MSt S} (hi : MInv s) (l : MLabel S) (h : s.step l = some s') : MInv s' := by
  cases l with
  | emit e => exact hi.emit h
  | shed => exact hi.shed h
  | rearm => exact hi.rearm h
  | drop => exact hi.drop h
  | cut => exact hi.cut h
  | consume => exact hi.consume h
  | consumeCut x => exact hi.consumeCut h

theorem MInv.run {s s' : MSt S} (hi : MInv s) (ls : List (MLabel S)) (h : s.run ls = some s') : MInv s' := by
  induction ls generalizing s with
  | nil => simp [MSt.run] at h; subst h; exact hi
  | cons l ls ih =>
    simp only [MSt.run] at h
    cases hs : s.step l with
    | none => rw [hs] at h; cases h
    | some s1 => rw [hs] at h; exact ih (hi.step l hs) h

end Remoc.Robs
