/-
Hash containers as canonical association lists: keys strictly ascending, so that two maps are
equal as maps iff they are equal as lists (iteration order of the real `HashMap`/`HashSet` is not part of
their value; the correspondence check sorts what comes out of them).  Keys are `Nat`.
-/

set_option linter.unusedSimpArgs false

namespace Remoc.Robs

variable {β : Type}

/-- `HashMap::insert(k, v)` on the canonical form. -/
def ains (k : Nat) (v : β) : List (Nat × β) → List (Nat × β)
  | [] => [(k, v)]
  | (k', v') :: t =>
    if k < k' then (k, v) :: (k', v') :: t
    else if k = k' then (k, v) :: t
    else (k', v') :: ains k v t

/-- `HashMap::remove(k)`. -/
def adel (k : Nat) (m : List (Nat × β)) : List (Nat × β) := m.filter (fun p => p.1 != k)

/-- `contains_key`. -/
def ahas (k : Nat) (m : List (Nat × β)) : Bool := m.any (fun p => p.1 == k)

/-- `get`. -/
def aget (k : Nat) (m : List (Nat × β)) : Option β := (m.find? (fun p => p.1 == k)).map (·.2)

/-- `HashMap::from_iter`. -/
def aofList (l : List (Nat × β)) : List (Nat × β) := l.foldl (fun m p => ains p.1 p.2 m) []

/-- strictly ascending keys -/
def ASorted (m : List (Nat × β)) : Prop := m.Pairwise (fun a b => a.1 < b.1)

theorem ains_keys (k : Nat) (v : β) (m : List (Nat × β)) (x : Nat × β) (hx : x ∈ ains k v m) :
    x = (k, v) ∨ x ∈ m := by
  induction m with
  | nil => simp [ains] at hx; exact Or.inl hx
  | cons a t ih =>
    obtain ⟨k', v'⟩ := a
    simp only [ains] at hx
    split at hx
    · simp at hx ⊢; rcases hx with h | h | h <;> simp [h]
    · split at hx
      · simp at hx ⊢; rcases hx with h | h <;> simp [h]
      · simp at hx ⊢
        rcases hx with h | h
        · simp [h]
        · rcases ih h with h | h <;> simp [h]

theorem ains_sorted (k : Nat) (v : β) (m : List (Nat × β)) (h : ASorted m) : ASorted (ains k v m) := by
  induction m with
  | nil => simp [ains, ASorted]
  | cons a t ih =>
    obtain ⟨k', v'⟩ := a
    have ht : ASorted t := (List.pairwise_cons.1 h).2
    have ha : ∀ b ∈ t, k' < b.1 := (List.pairwise_cons.1 h).1
    simp only [ains]
    split
    · rename_i hlt
      refine List.pairwise_cons.2 ⟨?_, h⟩
      intro b hb
      simp at hb
      rcases hb with hb | hb
      · simp [hb, hlt]
      · have := ha b hb; simp; omega
    · split
      · rename_i _ heq
        refine List.pairwise_cons.2 ⟨?_, ht⟩
        intro b hb; have := ha b hb; simp; omega
      · rename_i hnlt hne
        refine List.pairwise_cons.2 ⟨?_, ih ht⟩
        intro b hb
        rcases ains_keys k v t b hb with hb | hb
        · simp [hb]; omega
        · exact ha b hb

theorem adel_sorted (k : Nat) (m : List (Nat × β)) (h : ASorted m) : ASorted (adel k m) :=
  List.Pairwise.filter _ h

theorem aofList_sorted (l : List (Nat × β)) : ASorted (aofList l) := by
  have : ∀ (acc : List (Nat × β)), ASorted acc → ASorted (l.foldl (fun m p => ains p.1 p.2 m) acc) := by
    induction l with
    | nil => intro acc h; exact h
    | cons a t ih => intro acc h; exact ih _ (ains_sorted _ _ _ h)
  exact this [] List.Pairwise.nil

theorem ains_length_le (k : Nat) (v : β) (m : List (Nat × β)) : (ains k v m).length ≤ m.length + 1 := by
  induction m with
  | nil => simp [ains]
  | cons a t ih =>
    obtain ⟨k', v'⟩ := a
    simp only [ains]
    split
    · simp
    · split
      · simp
      · simp; omega

/-- Insertions under different keys commute. -/
theorem ains_comm (k1 k2 : Nat) (v1 v2 : β) (hne : k1 ≠ k2) (m : List (Nat × β)) :
    ains k1 v1 (ains k2 v2 m) = ains k2 v2 (ains k1 v1 m) := by
  induction m with
  | nil =>
    simp only [ains]
    by_cases h : k1 < k2
    · have h2 : ¬ k2 < k1 := by omega
      have h3 : ¬ k2 = k1 := by omega
      simp [h, h2, h3]
    · have h2 : k2 < k1 := by omega
      have h3 : ¬ k1 = k2 := by omega
      simp [h, h2, h3]
  | cons a t ih =>
    obtain ⟨k', v'⟩ := a
    simp only [ains]
    by_cases a1 : k1 < k' <;> by_cases a2 : k2 < k' <;> by_cases b1 : k1 = k' <;> by_cases b2 : k2 = k'
      <;> by_cases c : k1 < k2 <;> by_cases d : k2 < k1
      <;> first
        | omega
        | (have a1' : ¬ k' < k1 := by omega
           have a2' : ¬ k' < k2 := by omega
           have b1' : ¬ k' = k1 := by omega
           have b2' : ¬ k' = k2 := by omega
           have e : ¬ k2 = k1 := by omega
           simp [ains, a1, a2, b1, b2, c, d, ih, hne, e, a1', a2', b1', b2']; done)
        | (have a2' : ¬ k' < k2 := by omega
           have e : ¬ k2 = k1 := by omega
           subst b1
           simp [ains, a1, a2, b2, c, d, ih, hne, e,  a2']; done)
        | (have a1' : ¬ k' < k1 := by omega
           have e : ¬ k2 = k1 := by omega
           subst b2
           simp [ains, a1, a2, b1, c, d, ih, hne, e,  a1']; done)
        | (have e : ¬ k2 = k1 := by omega
           simp [ains, a1, a2, b1, b2, c, d, ih, hne, e]; done)
        | (have e : ¬ k2 = k1 := by omega
           simp [ains, a1, a2, b1, b2, c, d, ih, hne, e]; omega)

/-- Appending a key above all others. -/
theorem ains_append_gt (k : Nat) (v : β) (acc : List (Nat × β)) (h : ∀ a ∈ acc, a.1 < k) :
    ains k v acc = acc ++ [(k, v)] := by
  induction acc with
  | nil => rfl
  | cons a t ih =>
    obtain ⟨k', v'⟩ := a
    have h1 : k' < k := h (k', v') (by simp)
    have h2 : ¬ k < k' := by omega
    have h3 : ¬ k = k' := by omega
    simp [ains, h2, h3]
    exact ih (fun a ha => h a (by simp [ha]))

/-- Re-inserting the entries of a canonical list in its own order rebuilds it. -/
theorem foldl_ains_sorted (m : List (Nat × β)) : ∀ (acc : List (Nat × β)), ASorted m →
    (∀ a ∈ acc, ∀ b ∈ m, a.1 < b.1) →
    m.foldl (fun acc p => ains p.1 p.2 acc) acc = acc ++ m := by
  induction m with
  | nil => intro acc _ _; simp
  | cons b t ih =>
    intro acc hs hlt
    rw [List.foldl_cons, ains_append_gt b.1 b.2 acc (fun a ha => hlt a ha b (by simp))]
    have ht : ASorted t := (List.pairwise_cons.1 hs).2
    have hb : ∀ c ∈ t, b.1 < c.1 := (List.pairwise_cons.1 hs).1
    rw [ih (acc ++ [(b.1, b.2)]) ht]
    · simp
    · intro a ha c hc
      simp at ha
      rcases ha with ha | ha
      · exact hlt a ha c (by simp [hc])
      · rw [ha]; exact hb c hc

/-- In a canonical list the key determines the entry. -/
theorem asorted_key_inj (m : List (Nat × β)) (hs : ASorted m) (x y : Nat × β) (hx : x ∈ m) (hy : y ∈ m)
    (hk : x.1 = y.1) : x = y := by
  induction m with
  | nil => cases hx
  | cons a t ih =>
    have ht : ASorted t := (List.pairwise_cons.1 hs).2
    have ha : ∀ b ∈ t, a.1 < b.1 := (List.pairwise_cons.1 hs).1
    simp at hx hy
    rcases hx with hx | hx <;> rcases hy with hy | hy
    · rw [hx, hy]
    · have := ha y hy; rw [hx] at hk; omega
    · have := ha x hx; rw [hy] at hk; omega
    · exact ih ht hx hy

/-- Inserting the entries of a canonical list in **any** order into the empty map rebuilds it. -/
theorem foldl_ains_perm (m p : List (Nat × β)) (hs : ASorted m) (hp : p.Perm m) :
    p.foldl (fun acc e => ains e.1 e.2 acc) [] = m := by
  have hcomm : ∀ x ∈ m, ∀ y ∈ m, ∀ z : List (Nat × β),
      ains y.1 y.2 (ains x.1 x.2 z) = ains x.1 x.2 (ains y.1 y.2 z) := by
    intro x hx y hy z
    by_cases hk : x.1 = y.1
    · have hxy : x = y := asorted_key_inj m hs x y hx hy hk
      rw [hxy]
    · exact ains_comm y.1 x.1 y.2 x.2 (fun h => hk h.symm) z
  rw [List.Perm.foldl_eq' hp.symm (fun x hx y hy z => hcomm x hx y hy z) [] |>.symm]
  simpa using foldl_ains_sorted m [] hs (by simp)

end Remoc.Robs
