/-
The `std` operations on `Vec` / `VecDeque` that `remoc::robs` relies on, as functions on `List`
(trusted definitions; the correspondence check compares the real contents after every call with
what these functions compute).
-/

namespace Remoc.Robs

variable {α : Type}

/-- `Vec::swap_remove(i)` / `VecDeque::swap_remove_back(i)` for `i < len`: the last element takes the
place of element `i`. -/
def swapRemove (l : List α) (i : Nat) : List α :=
  match l.getLast? with
  | none => l
  | some x => (l.set i x).dropLast

/-- `VecDeque::swap_remove_front(i)` for `i < len`: the first element takes the place of element `i`. -/
def swapRemoveFront (l : List α) (i : Nat) : List α :=
  match l.head? with
  | none => l
  | some x => (l.set i x).tail

/-- `resize(n, x)`: truncate or pad with `x`. -/
def resize (l : List α) (n : Nat) (x : α) : List α :=
  l.take n ++ List.replicate (n - l.length) x

theorem swapRemove_length_le (l : List α) (i : Nat) : (swapRemove l i).length ≤ l.length := by
  unfold swapRemove; split <;> simp

theorem swapRemoveFront_length_le (l : List α) (i : Nat) : (swapRemoveFront l i).length ≤ l.length := by
  unfold swapRemoveFront; split <;> simp

theorem resize_length (l : List α) (n : Nat) (x : α) : (resize l n x).length = n := by
  simp [resize]; omega

/-- `retain` with a predicate that is asked once per element, in order: keep the element at position
`p` iff `f p` (positions counted from `p₀`). -/
def retainFrom (f : Nat → Bool) : Nat → List α → List α
  | _, [] => []
  | p, x :: xs => if f p then x :: retainFrom f (p + 1) xs else retainFrom f (p + 1) xs

/-- Answer of a retain predicate at its `p`-th invocation (`mask` lists the answers; it is padded with
`true`). -/
def keepAt (mask : List Bool) (p : Nat) : Bool := mask.getD p true

/-- positions kept / removed among the first `n` -/
def keepIdx (mask : List Bool) (n : Nat) : List Nat := (List.range n).filter (keepAt mask)
def removeIdx (mask : List Bool) (n : Nat) : List Nat := (List.range n).filter (fun p => !keepAt mask p)

theorem retainFrom_congr (f g : Nat → Bool) : ∀ (l : List α) (p : Nat),
    (∀ q, p ≤ q → q < p + l.length → f q = g q) → retainFrom f p l = retainFrom g p l := by
  intro l
  induction l with
  | nil => intros; rfl
  | cons x xs ih =>
    intro p h
    have h0 : f p = g p := h p (Nat.le_refl _) (by simp)
    have ht := ih (p + 1) (fun q h1 h2 => h q (by omega) (by simp at h2 ⊢; omega))
    simp [retainFrom, h0, ht]

theorem retainFrom_all (f : Nat → Bool) : ∀ (l : List α) (p : Nat),
    (∀ q, p ≤ q → q < p + l.length → f q = true) → retainFrom f p l = l := by
  intro l
  induction l with
  | nil => intros; rfl
  | cons x xs ih =>
    intro p h
    have h0 : f p = true := h p (Nat.le_refl _) (by simp)
    have ht := ih (p + 1) (fun q h1 h2 => h q (by omega) (by simp at h2 ⊢; omega))
    simp [retainFrom, h0, ht]

theorem retainFrom_length_le (f : Nat → Bool) : ∀ (l : List α) (p : Nat), (retainFrom f p l).length ≤ l.length := by
  intro l
  induction l with
  | nil => intro p; simp [retainFrom]
  | cons x xs ih =>
    intro p
    have := ih (p + 1)
    simp only [retainFrom]; split <;> simp <;> omega

theorem mem_keepIdx {mask : List Bool} {n q : Nat} : q ∈ keepIdx mask n ↔ q < n ∧ keepAt mask q = true := by
  simp [keepIdx]

theorem mem_removeIdx {mask : List Bool} {n q : Nat} : q ∈ removeIdx mask n ↔ q < n ∧ keepAt mask q = false := by
  simp [removeIdx]

/-- If nothing is removed, `retain` changes nothing. -/
theorem retain_noop (mask : List Bool) (l : List α) (h : removeIdx mask l.length = []) :
    retainFrom (keepAt mask) 0 l = l := by
  apply retainFrom_all
  intro q _ hq
  cases hk : keepAt mask q with
  | true => rfl
  | false =>
    have : q ∈ removeIdx mask l.length := mem_removeIdx.2 ⟨by omega, hk⟩
    rw [h] at this; cases this

/-- The mirror's way of applying `Retain(keep)` gives the same list. -/
theorem retain_by_keep (mask : List Bool) (l : List α) :
    retainFrom (fun p => (keepIdx mask l.length).contains p) 0 l = retainFrom (keepAt mask) 0 l := by
  apply retainFrom_congr
  intro q _ hq
  cases hk : keepAt mask q with
  | true =>
    have : q ∈ keepIdx mask l.length := mem_keepIdx.2 ⟨by omega, hk⟩
    simpa using this
  | false =>
    have : ¬ q ∈ keepIdx mask l.length := fun h => by have := (mem_keepIdx.1 h).2; simp [hk] at this
    simpa using this

/-- The mirror's way of applying `RetainNot(remove)` gives the same list. -/
theorem retain_by_remove (mask : List Bool) (l : List α) :
    retainFrom (fun p => !(removeIdx mask l.length).contains p) 0 l = retainFrom (keepAt mask) 0 l := by
  apply retainFrom_congr
  intro q _ hq
  cases hk : keepAt mask q with
  | true =>
    have : ¬ q ∈ removeIdx mask l.length := fun h => by have := (mem_removeIdx.1 h).2; simp [hk] at this
    simpa using this
  | false =>
    have : q ∈ removeIdx mask l.length := mem_removeIdx.2 ⟨by omega, hk⟩
    simpa using this

end Remoc.Robs
