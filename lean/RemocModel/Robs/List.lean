import RemocModel.Robs.Generic
set_option linter.unusedSimpArgs false

/-!
M_robs / append-only list: `robs/list.rs` (`ObservableList`, `ListEvent`, `ListSubscription::recv`,
`MirroredListInner::handle_event`), as seen by one subscriber once the dispatcher task has sent
everything it can (the dispatcher itself, with per-subscriber positions and back-pressure, is the
LTS of `Robs/Errors.lean`, property C14).

A list subscription is always incremental: every subscriber is served from position 0; `initial_len`
is the length at subscription time and `InitialComplete` is made up by `recv` when that many elements
have been received.  The mirror starts with `done: false`.
-/

namespace Remoc.Robs.OList

/-- The mutating API of `ObservableList` (without `done`). -/
inductive Op where
  | push (x : Nat)
  | extend (xs : List Nat)
deriving Repr, DecidableEq

/-- Change variant of `ListEvent`. -/
inductive Ev where
  | push (x : Nat)
deriving Repr, DecidableEq

def apply (v : List Nat) : Op → List Nat × List Ev
  | .push x => (v ++ [x], [.push x])
  | .extend xs => (v ++ xs, xs.map .push)

def panics (_ : List Nat) (_ : Op) : Bool := false

/-- `MirroredListInner::handle_event` on `Push`. -/
def applyEv (M : Nat) (v : List Nat) : Ev → List Nat × Option Err
  | .push x => (v ++ [x], if M < (v ++ [x]).length then some (.maxSizeExceeded M) else none)

@[reducible] def sys : Sys where
  C := List Nat
  Op := Op
  Ev := Ev
  empty := []
  size := List.length
  wf := fun _ => True
  apply := apply
  panics := panics
  applyEv := applyEv
  incr := fun c es => es = c.map Ev.push
  inheritDone := false
  good := fun _ => True
  idle := fun | .extend [] => true | _ => false

theorem feed_pushes (M : Nat) (xs : List Nat) : ∀ (v : List Nat), (v ++ xs).length ≤ M →
    feedWith (applyEv M) v (xs.map Ev.push) = (v ++ xs, none) := by
  induction xs with
  | nil => intro v _; simp [feedWith]
  | cons x xs ih =>
    intro v h
    rw [List.map_cons, feedWith_cons_ok (applyEv M) v (v ++ [x]) (Ev.push x)]
    · have := ih (v ++ [x]) (by simpa using h)
      simpa using this
    · have : ¬ M < v.length + 1 := by simp at h; omega
      simp [applyEv, this]

theorem apply_ok' (M : Nat) (c : List Nat) (op : Op) (hs' : (apply c op).1.length ≤ M) :
    feedWith (applyEv M) c (apply c op).2 = ((apply c op).1, none) := by
  cases op with
  | push x =>
    have : ¬ M < c.length + 1 := by simp [apply] at hs'; omega
    simp [apply, feedWith, applyEv, this]
  | extend xs => exact feed_pushes M xs c (by simpa [apply] using hs')

theorem incr_ok' (M : Nat) (c : List Nat) (hs : c.length ≤ M) :
    feedWith (applyEv M) [] (c.map Ev.push) = (c, none) := by
  have := feed_pushes M c [] (by simpa using hs)
  simpa using this

theorem lawful : sys.Lawful where
  apply_wf := fun _ _ _ => trivial
  incr_ok := fun M c es _ hi hs => by
    have hi : es = List.map Ev.push c := hi
    subst hi
    exact incr_ok' M c hs
  apply_ok := fun M c op _ _ _ hs' => apply_ok' M c op hs'

end Remoc.Robs.OList
