import RemocModel.Robs.Generic
import RemocModel.Robs.ListOps
set_option linter.unusedSimpArgs false

/-!
M_robs / deque: `robs/vec_deque.rs` (`ObservableVecDeque`, `VecDequeEvent`,
`MirroredVecDequeInner::handle_event`).  Elements are `Nat`; index 0 is the front.
-/

namespace Remoc.Robs.VecDeque

/-- The mutating API of `ObservableVecDeque` (without `done`); see `Vec.Op` for `getMut`, `iterMut`,
`retain`.  Unlike the vector, `remove`/`swap_remove_*` return `None` for an index out of bounds instead
of panicking; `insert` panics for `i > len`. -/
inductive Op where
  | pushBack (x : Nat)
  | pushFront (x : Nat)
  | popBack
  | popFront
  | getMut (i : Nat) (w : Option Nat)
  | iterMut (ws : List (Nat × Nat))
  | insert (i x : Nat)
  | remove (i : Nat)
  | swapRemoveBack (i : Nat)
  | swapRemoveFront (i : Nat)
  | resize (n x : Nat)
  | truncate (n : Nat)
  | clear
  | retain (mask : List Bool)
  | shrinkToFit
  | extend (xs : List Nat)
deriving Repr, DecidableEq

/-- Change variants of `VecDequeEvent`. -/
inductive Ev where
  | pushBack (x : Nat)
  | pushFront (x : Nat)
  | popBack
  | popFront
  | insert (i x : Nat)
  | set (i x : Nat)
  | remove (i : Nat)
  | swapRemoveBack (i : Nat)
  | swapRemoveFront (i : Nat)
  | resize (n x : Nat)
  | truncate (n : Nat)
  | retain (keep : List Nat)
  | retainNot (rm : List Nat)
  | clear
  | shrinkToFit
deriving Repr, DecidableEq

def setStep (acc : List Nat × List Ev) (w : Nat × Nat) : List Nat × List Ev :=
  if w.1 < acc.1.length then (acc.1.set w.1 w.2, acc.2 ++ [Ev.set w.1 w.2]) else acc

/-- One call on a deque that is not done: new contents and the events sent. -/
def apply (v : List Nat) : Op → List Nat × List Ev
  | .pushBack x => (v ++ [x], [.pushBack x])
  | .pushFront x => (x :: v, [.pushFront x])
  | .popBack => if v = [] then (v, []) else (v.dropLast, [.popBack])
  | .popFront => if v = [] then (v, []) else (v.tail, [.popFront])
  | .getMut i w =>
    match w with
    | none => (v, [])
    | some x => if i < v.length then (v.set i x, [.set i x]) else (v, [])
  | .iterMut ws => ws.foldl setStep (v, [])
  | .insert i x => if i ≤ v.length then (v.insertIdx i x, [.insert i x]) else (v, [])
  | .remove i => if i < v.length then (v.eraseIdx i, [.remove i]) else (v, [])
  | .swapRemoveBack i => if i < v.length then (swapRemove v i, [.swapRemoveBack i]) else (v, [])
  | .swapRemoveFront i => if i < v.length then (swapRemoveFront v i, [.swapRemoveFront i]) else (v, [])
  | .resize n x => if n ≠ v.length then (resize v n x, [.resize n x]) else (v, [])
  | .truncate n => if n < v.length then (v.take n, [.truncate n]) else (v, [])
  | .clear => if v = [] then (v, []) else ([], [.clear])
  | .retain mask =>
    if removeIdx mask v.length = [] then (v, [])
    else if (keepIdx mask v.length).length < (removeIdx mask v.length).length then
      (retainFrom (keepAt mask) 0 v, [.retain (keepIdx mask v.length)])
    else (retainFrom (keepAt mask) 0 v, [.retainNot (removeIdx mask v.length)])
  | .shrinkToFit => (v, [.shrinkToFit])
  | .extend xs => (v ++ xs, xs.map .pushBack)

/-- Only `VecDeque::insert` panics on its index. -/
def panics (v : List Nat) : Op → Bool
  | .insert i _ => decide (v.length < i)
  | _ => false

/-- `MirroredVecDequeInner::handle_event` on a change event. -/
def applyEv (M : Nat) (v : List Nat) : Ev → List Nat × Option Err
  | .pushBack x => (v ++ [x], if M < (v ++ [x]).length then some (.maxSizeExceeded M) else none)
  | .pushFront x => (x :: v, if M < (x :: v).length then some (.maxSizeExceeded M) else none)
  | .popBack => (v.dropLast, none)
  | .popFront => (v.tail, none)
  | .insert i x =>
    if v.length < i then (v, some (.invalidIndex i))
    else (v.insertIdx i x, if M < (v.insertIdx i x).length then some (.maxSizeExceeded M) else none)
  | .set i x => if v.length ≤ i then (v, some (.invalidIndex i)) else (v.set i x, none)
  | .remove i => if v.length ≤ i then (v, some (.invalidIndex i)) else (v.eraseIdx i, none)
  | .swapRemoveBack i => if v.length ≤ i then (v, some (.invalidIndex i)) else (swapRemove v i, none)
  | .swapRemoveFront i => if v.length ≤ i then (v, some (.invalidIndex i)) else (swapRemoveFront v i, none)
  | .resize n x => if v.length < n ∧ M < n then (v, some (.maxSizeExceeded M)) else (resize v n x, none)
  | .truncate n => (v.take n, none)
  | .retain keep => (retainFrom (fun p => keep.contains p) 0 v, none)
  | .retainNot rm => (retainFrom (fun p => !rm.contains p) 0 v, none)
  | .clear => ([], none)
  | .shrinkToFit => (v, none)

@[reducible] def sys : Sys where
  C := List Nat
  Op := Op
  Ev := Ev
  empty := []
  size := List.length
  wf := fun _ => True
  apply := apply
  panics := panics
  applyEv := applyEv
  incr := fun c es => es = c.map Ev.pushBack
  inheritDone := true
  good := fun _ => True
  idle := fun | .extend [] => true | _ => false

/-! ### laws -/

theorem feed_pushes (M : Nat) (xs : List Nat) : ∀ (v : List Nat), (v ++ xs).length ≤ M →
    feedWith (applyEv M) v (xs.map Ev.pushBack) = (v ++ xs, none) := by
  induction xs with
  | nil => intro v _; simp [feedWith]
  | cons x xs ih =>
    intro v h
    rw [List.map_cons, feedWith_cons_ok (applyEv M) v (v ++ [x]) (Ev.pushBack x)]
    · have := ih (v ++ [x]) (by simpa using h)
      simpa using this
    · have : ¬ M < v.length + 1 := by simp at h; omega
      simp [applyEv, this]

theorem feed_sets (M : Nat) (ws : List (Nat × Nat)) : ∀ (v : List Nat) (pre : List Ev) (v0 : List Nat),
    feedWith (applyEv M) v0 pre = (v, none) →
    feedWith (applyEv M) v0 (ws.foldl setStep (v, pre)).2 = ((ws.foldl setStep (v, pre)).1, none) := by
  induction ws with
  | nil => intro v pre v0 h; simpa using h
  | cons w ws ih =>
    intro v pre v0 h
    rw [List.foldl_cons]
    unfold setStep
    split
    · rename_i hlt
      apply ih
      rw [feedWith_append (applyEv M) pre _ v0 v h]
      have : ¬ v.length ≤ w.1 := by simp at hlt; omega
      rw [feedWith_cons_ok (applyEv M) v (v.set w.1 w.2)]
      · rfl
      · simp [applyEv, this]
    · exact ih v pre v0 h

theorem apply_ok' (M : Nat) (c : List Nat) (op : Op) (_hs : c.length ≤ M) (hs' : (apply c op).1.length ≤ M) :
    feedWith (applyEv M) c (apply c op).2 = ((apply c op).1, none) := by
  cases op with
  | pushBack x =>
    have : ¬ M < c.length + 1 := by simp [apply] at hs'; omega
    simp [apply, feedWith, applyEv, this]
  | pushFront x =>
    have : ¬ M < c.length + 1 := by simp [apply] at hs'; omega
    simp [apply, feedWith, applyEv, this]
  | popBack =>
    by_cases h : c = [] <;> simp [apply, h, feedWith, applyEv]
  | popFront =>
    by_cases h : c = [] <;> simp [apply, h, feedWith, applyEv]
  | getMut i w =>
    cases w with
    | none => simp [apply, feedWith]
    | some x =>
      by_cases h : i < c.length
      · have : ¬ c.length ≤ i := by omega
        simp [apply, h, feedWith, applyEv, this]
      · simp [apply, h, feedWith]
  | iterMut ws =>
    exact feed_sets M ws c [] c rfl
  | insert i x =>
    by_cases h : i ≤ c.length
    · have : ¬ c.length < i := by omega
      have hlen : ¬ M < (c.insertIdx i x).length := by simp [apply, h] at hs'; omega
      simp [apply, h, feedWith, applyEv, this, hlen]
    · simp [apply, h, feedWith]
  | remove i =>
    by_cases h : i < c.length
    · have : ¬ c.length ≤ i := by omega
      simp [apply, h, feedWith, applyEv, this]
    · simp [apply, h, feedWith]
  | swapRemoveBack i =>
    by_cases h : i < c.length
    · have : ¬ c.length ≤ i := by omega
      simp [apply, h, feedWith, applyEv, this]
    · simp [apply, h, feedWith]
  | swapRemoveFront i =>
    by_cases h : i < c.length
    · have : ¬ c.length ≤ i := by omega
      simp [apply, h, feedWith, applyEv, this]
    · simp [apply, h, feedWith]
  | resize n x =>
    by_cases h : n = c.length
    · simp [apply, h, feedWith, applyEv]
    · have hlen : ¬ (c.length < n ∧ M < n) := by
        simp [apply, h, resize_length] at hs'; omega
      simp [apply, h, feedWith, applyEv, hlen]
  | truncate n =>
    by_cases h : n < c.length <;> simp [apply, h, feedWith, applyEv]
  | clear =>
    by_cases h : c = [] <;> simp [apply, h, feedWith, applyEv]
  | retain mask =>
    by_cases h : removeIdx mask c.length = []
    · simp [apply, h, feedWith]
    · by_cases h2 : (keepIdx mask c.length).length < (removeIdx mask c.length).length
      · simp only [apply, h, h2, if_true, if_false, feedWith, applyEv]
        rw [retain_by_keep]
      · simp only [apply, h, h2, if_true, if_false, feedWith, applyEv]
        rw [retain_by_remove]
  | shrinkToFit => simp [apply, feedWith, applyEv]
  | extend xs =>
    exact feed_pushes M xs c (by simpa [apply] using hs')

theorem incr_ok' (M : Nat) (c : List Nat) (hs : c.length ≤ M) :
    feedWith (applyEv M) [] (c.map Ev.pushBack) = (c, none) := by
  have := feed_pushes M c [] (by simpa using hs)
  simpa using this

theorem lawful : sys.Lawful where
  apply_wf := fun _ _ _ => trivial
  incr_ok := fun M c es _ hi hs => by
    have hi : es = List.map Ev.pushBack c := hi
    subst hi
    exact incr_ok' M c hs
  apply_ok := fun M c op _ _ hs hs' => apply_ok' M c op hs hs'

end Remoc.Robs.VecDeque
