import RemocModel.Robs.List

/-!
M_robs / list dispatcher (property C14, second clause): the task spawned by `ObservableList::from`
(`robs/list.rs`, `ObservableList::task`) as a labelled transition system.

`push`/`done` only put a request into an unbounded queue; the task appends pushed elements to a buffer
it never shrinks, keeps one position per subscriber and sends `buffer[pos]` to a subscriber only after
it has obtained a send permit for that subscriber's bounded channel (`reserve()`), advancing `pos` in
the same step.  There is no shedding: a slow subscriber only delays itself.

Ghost fields: `pushed` (all elements ever pushed through the API, in order), per subscriber
`received` (what it has taken out of its channel, in order).
-/

namespace Remoc.Robs.OList

inductive Req where
  | push (x : Nat)
  | done
deriving Repr, DecidableEq

/-- One subscriber: `SubState` of the task plus the channel to the subscriber and the subscriber's
ghost history. -/
structure SubSt where
  /-- `DistReq::Subscribe` has been processed -/
  registered : Bool
  /-- the task has dropped the `SubState` (retain after the list was dropped, or send error) -/
  retired : Bool
  pos : Nat
  sentDone : Bool
  /-- items in the subscriber's channel, oldest first -/
  chan : List (Event Ev)
  received : List (Event Ev)
  /-- the subscriber still holds its receiver -/
  alive : Bool
deriving Repr, DecidableEq

structure DSt where
  /-- capacity of a subscriber channel (`rch::mpsc::channel(1)`) -/
  cap : Nat
  buffer : List Nat
  reqs : List Req
  done : Bool
  doneCalled : Bool
  dropped : Bool
  subs : List SubSt
  pushed : List Nat
deriving Repr, DecidableEq

inductive DLabel where
  /-- `ObservableList::push` -/
  | push (x : Nat)
  /-- `ObservableList::done` -/
  | markDone
  /-- the `ObservableList` is dropped -/
  | dropList
  /-- `subscribe()` (on the list or a distributor) -/
  | subscribe
  /-- the task takes one request -/
  | procReq
  /-- the task takes the `Subscribe` request of subscriber `i` -/
  | register (i : Nat)
  /-- the task obtained a permit for subscriber `i` and sends the next item -/
  | send (i : Nat)
  /-- subscriber `i` takes an item out of its channel -/
  | recv (i : Nat)
  /-- subscriber `i` drops its receiver -/
  | unsubscribe (i : Nat)
  /-- the task drops subscriber `i` (list dropped and nothing more to send, or the subscriber is gone) -/
  | retire (i : Nat)
deriving Repr, DecidableEq

def DSt.init (cap : Nat) (initial : List Nat) : DSt :=
  { cap, buffer := initial, reqs := [], done := false, doneCalled := false, dropped := false, subs := [], pushed := initial }

/-- `subs.retain(..)` once no more requests can arrive, or removal after a failed `reserve()` -/
def canRetire (s : DSt) (u : SubSt) : Bool :=
  u.registered && !u.retired &&
    (!u.alive || (s.dropped && s.reqs.isEmpty && (if s.done then u.sentDone else decide (s.buffer.length ≤ u.pos))))

def DSt.step (s : DSt) : DLabel → Option DSt
  | .push x =>
    if s.doneCalled || s.dropped then none
    else some { s with reqs := s.reqs ++ [.push x], pushed := s.pushed ++ [x] }
  | .markDone =>
    if s.doneCalled || s.dropped then none
    else some { s with reqs := s.reqs ++ [.done], doneCalled := true }
  | .dropList => if s.dropped then none else some { s with dropped := true }
  | .subscribe =>
    some { s with subs := s.subs ++ [{ registered := false, retired := false, pos := 0, sentDone := false,
                                       chan := [], received := [], alive := true }] }
  | .procReq =>
    match s.reqs with
    | [] => none
    | .push x :: rest => some { s with reqs := rest, buffer := s.buffer ++ [x] }
    | .done :: rest => some { s with reqs := rest, done := true }
  | .register i =>
    match s.subs[i]? with
    | some u => if u.registered || u.retired then none else some { s with subs := s.subs.set i { u with registered := true } }
    | none => none
  | .send i =>
    match s.subs[i]? with
    | some u =>
      if u.registered && !u.retired && u.alive && decide (u.chan.length < s.cap) then
        match s.buffer[u.pos]? with
        | some x => some { s with subs := s.subs.set i { u with chan := u.chan ++ [.change (.push x)], pos := u.pos + 1 } }
        | none =>
          if s.done && !u.sentDone then some { s with subs := s.subs.set i { u with chan := u.chan ++ [.done], sentDone := true } }
          else none
      else none
    | none => none
  | .recv i =>
    match s.subs[i]? with
    | some u =>
      if u.alive then
        match u.chan with
        | e :: rest => some { s with subs := s.subs.set i { u with chan := rest, received := u.received ++ [e] } }
        | [] => none
      else none
    | none => none
  | .unsubscribe i =>
    match s.subs[i]? with
    | some u => if u.alive then some { s with subs := s.subs.set i { u with alive := false } } else none
    | none => none
  | .retire i =>
    match s.subs[i]? with
    | some u =>
      if canRetire s u then
        some { s with subs := s.subs.set i { u with retired := true } }
      else none
    | none => none

def DSt.run (s : DSt) : List DLabel → Option DSt
  | [] => some s
  | l :: ls => (s.step l).bind (fun s' => s'.run ls)

/-- The elements a subscriber has been sent so far, as events. -/
def expected (buffer : List Nat) (u : SubSt) : List (Event Ev) :=
  (buffer.take u.pos).map (fun x => Event.change (Ev.push x)) ++ (if u.sentDone then [Event.done] else [])

/-- Per subscriber: what it has received plus what is in its channel is exactly the first `pos` elements
of the buffer, each once, in order, followed by `Done` only after all of them. -/
def SubOk (s : DSt) (u : SubSt) : Prop :=
  u.received ++ u.chan = expected s.buffer u ∧ u.pos ≤ s.buffer.length ∧
  (u.sentDone = true → u.pos = s.buffer.length ∧ s.done = true) ∧
  u.chan.length ≤ s.cap

/-- requests still in the queue: elements not yet in the buffer -/
def pendingPushes : List Req → List Nat
  | [] => []
  | .push x :: r => x :: pendingPushes r
  | .done :: r => pendingPushes r

/-- a `Done` request is queued -/
def pendingDone (reqs : List Req) : Bool := reqs.any (fun r => r == Req.done)

/-- `Done` can only be the last request (`push` after `done()` panics, `done()` is idempotent) -/
def tailOk : List Req → Prop
  | [] => True
  | .push _ :: r => tailOk r
  | .done :: r => r = []

structure DInv (s : DSt) : Prop where
  subs : ∀ u ∈ s.subs, SubOk s u
  /-- the buffer plus the queued pushes is what was pushed through the API -/
  pushedEq : s.pushed = s.buffer ++ pendingPushes s.reqs
  doneCalledEq : s.doneCalled = (s.done || pendingDone s.reqs)
  reqsOk : tailOk s.reqs
  /-- once the task has seen `Done` nothing is queued any more -/
  doneFinal : s.done = true → s.reqs = []

theorem pendingPushes_append (a b : List Req) : pendingPushes (a ++ b) = pendingPushes a ++ pendingPushes b := by
  induction a with
  | nil => rfl
  | cons r a ih => cases r <;> simp [pendingPushes, ih]

theorem tailOk_append (a : List Req) (r : Req) (h : pendingDone a = false) : tailOk (a ++ [r]) := by
  induction a with
  | nil => cases r <;> simp [tailOk]
  | cons x a ih =>
    cases x with
    | push y => simp [pendingDone] at h; simpa [tailOk] using ih (by simpa [pendingDone] using h)
    | done => simp [pendingDone] at h

theorem DInv.init (cap : Nat) (initial : List Nat) : DInv (DSt.init cap initial) where
  subs := by intro u hu; simp [DSt.init] at hu
  pushedEq := by simp [DSt.init, pendingPushes]
  doneCalledEq := by simp [DSt.init, pendingDone]
  reqsOk := trivial
  doneFinal := by intro h; simp [DSt.init] at h

/-- Changing one subscriber: the others are untouched. -/
theorem subs_set {s : DSt} {i : Nat} {u' : SubSt} {P : SubSt → Prop}
    (hall : ∀ u ∈ s.subs, P u) (hnew : P u') : ∀ u ∈ s.subs.set i u', P u := by
  intro u hu
  rcases List.mem_or_eq_of_mem_set hu with h | h
  · exact hall u h
  · rw [h]; exact hnew

theorem SubOk.mono_fields {s s' : DSt} {u : SubSt} (h : SubOk s u) (hb : s'.buffer = s.buffer) (hd : s'.done = s.done)
    (hc : s'.cap = s.cap) : SubOk s' u := by
  unfold SubOk expected at *
  rw [hb, hd, hc]; exact h

theorem DInv.step {s s' : DSt} (hi : DInv s) (l : DLabel) (h : s.step l = some s') : DInv s' := by
  cases l with
  | push x =>
    simp only [DSt.step] at h
    split at h
    · cases h
    · rename_i hg
      simp only [Bool.or_eq_true, not_or, Bool.not_eq_true] at hg
      cases h
      have hnd : s.done = false ∧ pendingDone s.reqs = false := by
        have := hi.doneCalledEq; rw [hg.1] at this
        cases h1 : s.done <;> cases h2 : pendingDone s.reqs <;> simp [h1, h2] at this ⊢
      refine ⟨fun u hu => (hi.subs u hu).mono_fields rfl rfl rfl, ?_, ?_, tailOk_append _ _ hnd.2, ?_⟩
      · simp [pendingPushes_append, pendingPushes, hi.pushedEq]
      · simp [pendingDone, List.any_append, hg.1, hnd.1]; simpa [pendingDone] using hnd.2
      · intro hd; simp [hnd.1] at hd
  | markDone =>
    simp only [DSt.step] at h
    split at h
    · cases h
    · rename_i hg
      simp only [Bool.or_eq_true, not_or, Bool.not_eq_true] at hg
      cases h
      have hnd : s.done = false ∧ pendingDone s.reqs = false := by
        have := hi.doneCalledEq; rw [hg.1] at this
        cases h1 : s.done <;> cases h2 : pendingDone s.reqs <;> simp [h1, h2] at this ⊢
      refine ⟨fun u hu => (hi.subs u hu).mono_fields rfl rfl rfl, ?_, ?_, tailOk_append _ _ hnd.2, ?_⟩
      · simp [pendingPushes_append, pendingPushes, hi.pushedEq]
      · simp [pendingDone, List.any_append]
      · intro hd; simp [hnd.1] at hd
  | dropList =>
    simp only [DSt.step] at h
    split at h
    · cases h
    · cases h
      exact ⟨fun u hu => (hi.subs u hu).mono_fields rfl rfl rfl, hi.pushedEq, hi.doneCalledEq, hi.reqsOk, hi.doneFinal⟩
  | subscribe =>
    simp only [DSt.step] at h
    cases h
    refine ⟨?_, hi.pushedEq, hi.doneCalledEq, hi.reqsOk, hi.doneFinal⟩
    intro u hu
    simp at hu
    rcases hu with hu | hu
    · exact (hi.subs u hu).mono_fields rfl rfl rfl
    · subst hu; simp [SubOk, expected]
  | procReq =>
    simp only [DSt.step] at h
    split at h
    · cases h
    · rename_i x rest hreq
      cases h
      have hnd : s.done = false := by
        cases hd : s.done with
        | false => rfl
        | true => have := hi.doneFinal hd; rw [hreq] at this; cases this
      refine ⟨?_, ?_, ?_, ?_, ?_⟩
      · intro u hu
        obtain ⟨h1, h2, h3, h4⟩ := hi.subs u hu
        have hsd : u.sentDone = false := by
          cases hs : u.sentDone with
          | false => rfl
          | true => have := (h3 hs).2; rw [hnd] at this; cases this
        refine ⟨?_, by simp; omega, fun h5 => (by rw [hsd] at h5; cases h5), h4⟩
        simp only [expected] at h1 ⊢
        rw [List.take_append_of_le_length h2]; exact h1
      · have := hi.pushedEq; rw [hreq] at this; simp [pendingPushes] at this; simp [this]
      · have hpd : (Req.push x == Req.done) = false := by simp
        have := hi.doneCalledEq; rw [hreq] at this; simpa [pendingDone, hpd] using this
      · have := hi.reqsOk; rw [hreq] at this; exact this
      · intro hd; rw [hnd] at hd; cases hd
    · rename_i rest hreq
      cases h
      have hrest : rest = [] := by have := hi.reqsOk; rw [hreq] at this; exact this
      subst hrest
      refine ⟨?_, ?_, ?_, trivial, fun _ => rfl⟩
      · intro u hu
        obtain ⟨h1, h2, h3, h4⟩ := hi.subs u hu
        exact ⟨h1, h2, fun h5 => ⟨(h3 h5).1, rfl⟩, h4⟩
      · have := hi.pushedEq; rw [hreq] at this; simpa [pendingPushes] using this
      · have := hi.doneCalledEq; rw [hreq] at this; simp [pendingDone] at this; simp [pendingDone, this]
  | register i =>
    simp only [DSt.step] at h
    split at h
    · rename_i u hu
      split at h
      · cases h
      · cases h
        refine ⟨?_, hi.pushedEq, hi.doneCalledEq, hi.reqsOk, hi.doneFinal⟩
        have hmem : u ∈ s.subs := List.mem_of_getElem? hu
        exact subs_set (P := SubOk _) (fun v hv => (hi.subs v hv).mono_fields rfl rfl rfl)
          ((hi.subs u hmem).mono_fields rfl rfl rfl)
    · cases h
  | send i =>
    simp only [DSt.step] at h
    split at h
    · rename_i u hu
      have hmem : u ∈ s.subs := List.mem_of_getElem? hu
      obtain ⟨h1, h2, h3, h4⟩ := hi.subs u hmem
      split at h
      · rename_i hg
        simp only [Bool.and_eq_true, Bool.not_eq_true', decide_eq_true_eq] at hg
        split at h
        · rename_i x hx
          cases h
          refine ⟨?_, hi.pushedEq, hi.doneCalledEq, hi.reqsOk, hi.doneFinal⟩
          apply subs_set (P := SubOk _) (fun v hv => (hi.subs v hv).mono_fields rfl rfl rfl)
          have hlt : u.pos < s.buffer.length := by
            rcases Nat.lt_or_ge u.pos s.buffer.length with h5 | h5
            · exact h5
            · rw [List.getElem?_eq_none h5] at hx; cases hx
          have hsd : u.sentDone = false := by
            cases hs : u.sentDone with
            | false => rfl
            | true => have := (h3 hs).1; omega
          refine ⟨?_, by simp; omega, fun h5 => by simp [hsd] at h5, by simp; omega⟩
          simp only [expected, hsd] at h1 ⊢
          have hx' : s.buffer[u.pos] = x := by
            have := List.getElem?_eq_getElem hlt; rw [this] at hx; exact Option.some.inj hx
          rw [← List.append_assoc, h1, List.take_succ_eq_append_getElem hlt, hx']
          simp
        · rename_i hx
          split at h
          · rename_i hg2
            simp only [Bool.and_eq_true, Bool.not_eq_true'] at hg2
            cases h
            refine ⟨?_, hi.pushedEq, hi.doneCalledEq, hi.reqsOk, hi.doneFinal⟩
            apply subs_set (P := SubOk _) (fun v hv => (hi.subs v hv).mono_fields rfl rfl rfl)
            have hge : s.buffer.length ≤ u.pos := by
              rcases Nat.lt_or_ge u.pos s.buffer.length with h5 | h5
              · rw [List.getElem?_eq_getElem h5] at hx; cases hx
              · exact h5
            refine ⟨?_, h2, fun _ => ⟨(by show u.pos = s.buffer.length; omega), hg2.1⟩, by simp; omega⟩
            simp only [expected, hg2.2] at h1 ⊢
            rw [← List.append_assoc, h1]; simp
          · cases h
      · cases h
    · cases h
  | recv i =>
    simp only [DSt.step] at h
    split at h
    · rename_i u hu
      have hmem : u ∈ s.subs := List.mem_of_getElem? hu
      obtain ⟨h1, h2, h3, h4⟩ := hi.subs u hmem
      split at h
      · split at h
        · rename_i e rest hc
          cases h
          refine ⟨?_, hi.pushedEq, hi.doneCalledEq, hi.reqsOk, hi.doneFinal⟩
          apply subs_set (P := SubOk _) (fun v hv => (hi.subs v hv).mono_fields rfl rfl rfl)
          refine ⟨?_, h2, h3, by rw [hc] at h4; simp at h4 ⊢; omega⟩
          simp only [expected] at h1 ⊢
          rw [hc] at h1; simpa using h1
        · cases h
      · cases h
    · cases h
  | unsubscribe i =>
    simp only [DSt.step] at h
    split at h
    · rename_i u hu
      have hmem : u ∈ s.subs := List.mem_of_getElem? hu
      split at h
      · cases h
        refine ⟨?_, hi.pushedEq, hi.doneCalledEq, hi.reqsOk, hi.doneFinal⟩
        exact subs_set (P := SubOk _) (fun v hv => (hi.subs v hv).mono_fields rfl rfl rfl)
          ((hi.subs u hmem).mono_fields rfl rfl rfl)
      · cases h
    · cases h
  | retire i =>
    simp only [DSt.step] at h
    split at h
    · rename_i u hu
      have hmem : u ∈ s.subs := List.mem_of_getElem? hu
      split at h
      · cases h
        refine ⟨?_, hi.pushedEq, hi.doneCalledEq, hi.reqsOk, hi.doneFinal⟩
        exact subs_set (P := SubOk _) (fun v hv => (hi.subs v hv).mono_fields rfl rfl rfl)
          ((hi.subs u hmem).mono_fields rfl rfl rfl)
      · cases h
    · cases h

theorem DInv.run {s s' : DSt} (hi : DInv s) (ls : List DLabel) (h : s.run ls = some s') : DInv s' := by
  induction ls generalizing s with
  | nil => simp [DSt.run] at h; subst h; exact hi
  | cons l ls ih =>
    simp only [DSt.run] at h
    cases hs : s.step l with
    | none => rw [hs] at h; cases h
    | some s1 => rw [hs] at h; exact ih (hi.step l hs) h

end Remoc.Robs.OList
