import RemocModel.Robs.Basic

/-!
Generic part of the C13 proof: for every lawful `Sys`, a mirror (or a hand-written fold) fed by a
subscription taken at any point reaches exactly the collection's final state.
-/

namespace Remoc.Robs

variable {S : Sys}

theorem breakNow_setV {C : Type} (var : Variant) (m : Inner C) (x : C) :
    breakNow var { m with v := x } = breakNow var m := by
  cases var <;> rfl

theorem breakNow_not_done {C : Type} (var : Variant) (m : Inner C) (h : m.done = false) :
    breakNow var m = false := by
  cases var <;> simp [breakNow, h]

theorem Sys.run_nil (o : Obs S.C) : S.run o [] = (o, []) := rfl

theorem Sys.run_cons (o : Obs S.C) (c : Call S.Op) (cs : List (Call S.Op)) :
    S.run o (c :: cs) = ((S.run (S.step o c).1 cs).1, (S.step o c).2 ++ (S.run (S.step o c).1 cs).2) := rfl

/-- After `done()` nothing changes and nothing is sent. -/
theorem Sys.run_done (o : Obs S.C) (h : o.done = true) (cs : List (Call S.Op)) : S.run o cs = (o, []) := by
  induction cs with
  | nil => rfl
  | cons c cs ih =>
    have hs : S.step o c = (o, []) := by cases c <;> simp [Sys.step, h]
    rw [Sys.run_cons, hs]; simp [ih]

theorem Sys.run_append (o : Obs S.C) (a b : List (Call S.Op)) :
    S.run o (a ++ b) = ((S.run (S.run o a).1 b).1, (S.run o a).2 ++ (S.run (S.run o a).1 b).2) := by
  induction a generalizing o with
  | nil => simp [Sys.run_nil]
  | cons c cs ih => simp [Sys.run_cons, ih, List.append_assoc]

theorem Sys.step_wf (hL : S.Lawful) (o : Obs S.C) (c : Call S.Op) (h : S.wf o.v) : S.wf (S.step o c).1.v := by
  cases c with
  | op c =>
    cases hd : o.done
    · simp [Sys.step, hd]; exact hL.apply_wf _ _ h
    · simp [Sys.step, hd]; exact h
  | done =>
    cases hd : o.done <;> simp [Sys.step, hd] <;> exact h

theorem Sys.run_wf (hL : S.Lawful) (o : Obs S.C) (cs : List (Call S.Op)) (h : S.wf o.v) : S.wf (S.run o cs).1.v := by
  induction cs generalizing o with
  | nil => exact h
  | cons c cs ih => rw [Sys.run_cons]; exact ih _ (Sys.step_wf hL o c h)

theorem Sys.Bounded.size {M : Nat} {o : Obs S.C} {cs : List (Call S.Op)} (h : S.Bounded M o cs) : S.size o.v ≤ M := by
  cases cs with
  | nil => exact h
  | cons c cs => exact h.1

theorem Sys.taskRun_append (var : Variant) (t : Task S.C) (a b : List (Recv (Event S.Ev))) :
    S.taskRun var t (a ++ b) = S.taskRun var (S.taskRun var t a) b := by
  simp [Sys.taskRun, List.foldl_append]

theorem Sys.taskRun_cons (var : Variant) (t : Task S.C) (a : Recv (Event S.Ev)) (b : List (Recv (Event S.Ev))) :
    S.taskRun var t (a :: b) = S.taskRun var (S.taskStep var t a) b := rfl

theorem Sys.taskRun_nil (var : Variant) (t : Task S.C) : S.taskRun var t [] = t := rfl

/-- A task that has left its loop ignores everything. -/
theorem Sys.taskRun_stopped (var : Variant) (t : Task S.C) (h : t.running = false) (rs : List (Recv (Event S.Ev))) :
    S.taskRun var t rs = t := by
  induction rs with
  | nil => rfl
  | cons r rs ih => rw [Sys.taskRun_cons]; simp [Sys.taskStep, h, ih]

/-- A block of change events that `handle_event` accepts only changes the contents. -/
theorem Sys.taskRun_changes (var : Variant) (es : List S.Ev) : ∀ (t : Task S.C) (c' : S.C),
    t.running = true → breakNow var t.m = false →
    S.feed t.m.maxSize t.m.v es = (c', none) →
    S.taskRun var t (es.map (fun e => Recv.ev (Event.change e))) = { t with m := { t.m with v := c' } } := by
  induction es with
  | nil =>
    intro t c' _ _ hf
    simp [Sys.feed, feedWith] at hf
    subst hf; rfl
  | cons e es ih =>
    intro t c' hr hb hf
    rw [List.map_cons, Sys.taskRun_cons]
    unfold Sys.feed feedWith at hf
    split at hf
    · rename_i c1 he
      have hstep : S.taskStep var t (Recv.ev (Event.change e))
          = { t with m := { t.m with v := c1 } } := by
        simp [Sys.taskStep, hr, Sys.handle, he, breakNow_setV, hb]
      rw [hstep]
      have := ih { t with m := { t.m with v := c1 } } c' hr (by simpa [breakNow_setV] using hb) hf
      simpa using this
    · simp at hf

/-- Core induction: a running, complete, error-free mirror that holds the collection's contents
follows it through any further calls. -/
theorem Sys.taskRun_run (hL : S.Lawful) (var : Variant) (M : Nat) :
    ∀ (cs : List (Call S.Op)) (o : Obs S.C) (t : Task S.C),
    o.done = false → S.wf o.v → t.running = true → t.m.done = false → t.m.complete = true →
    t.m.error = none → t.m.v = o.v → t.m.maxSize = M → S.Bounded M o cs → S.AllGood cs →
    (S.taskRun var t ((S.run o cs).2.map Recv.ev)).m.v = (S.run o cs).1.v ∧
    (S.taskRun var t ((S.run o cs).2.map Recv.ev)).m.done = (S.run o cs).1.done ∧
    (S.taskRun var t ((S.run o cs).2.map Recv.ev)).m.error = none ∧
    (S.taskRun var t ((S.run o cs).2.map Recv.ev)).m.complete = true := by
  intro cs
  induction cs with
  | nil =>
    intro o t hd _ _ htd htc hte htv _ _ _
    simp [Sys.run_nil, Sys.taskRun_nil, htv, htd, hd, htc, hte]
  | cons c cs ih =>
    intro o t hd hwf hr htd htc hte htv hM hB hG
    rw [Sys.run_cons]
    cases c with
    | op c =>
      have hgood : S.good c := hG c (by simp)
      have hs : S.step o (Call.op c) = ({ o with v := (S.apply o.v c).1 }, (S.apply o.v c).2.map Event.change) := by
        simp [Sys.step, hd]
      rw [hs]
      simp only [List.map_append, List.map_map]
      rw [Sys.taskRun_append]
      have hB' : S.Bounded M ({ o with v := (S.apply o.v c).1 } : Obs S.C) cs := by
        have := hB.2; rw [hs] at this; exact this
      have hfeed : S.feed t.m.maxSize t.m.v (S.apply o.v c).2 = ((S.apply o.v c).1, none) := by
        rw [hM, htv]
        exact hL.apply_ok M o.v c hgood hwf hB.1 hB'.size
      have hblock := Sys.taskRun_changes var (S.apply o.v c).2 t (S.apply o.v c).1 hr
        (breakNow_not_done var t.m htd) hfeed
      have hcomp : (Recv.ev ∘ Event.change : S.Ev → Recv (Event S.Ev)) = (fun e => Recv.ev (Event.change e)) := rfl
      rw [hcomp, hblock]
      exact ih ({ o with v := (S.apply o.v c).1 } : Obs S.C) { t with m := { t.m with v := (S.apply o.v c).1 } }
        hd (hL.apply_wf _ _ hwf) hr htd htc hte rfl hM hB' (fun o' ho' => hG o' (by simp [ho']))
    | done =>
      have hs : S.step o (Call.done : Call S.Op) = ({ o with done := true }, [Event.done]) := by
        simp [Sys.step, hd]
      rw [hs]
      have hrest : S.run ({ o with done := true } : Obs S.C) cs = ({ o with done := true }, []) :=
        Sys.run_done _ rfl cs
      rw [hrest]
      simp [Sys.taskRun, Sys.taskStep, hr, Sys.handle, htv, hte, htc]

/-- **Generic mirror theorem.**  The subscription is taken after the calls `pre`, the collection then
executes `post`.  Whoever consumes the `recv` results of the subscription (mirror task as coded, mirror
task with the F13 repair, or a fold by hand) ends with the collection's final contents and done flag, no
error, and `complete` set. -/
theorem Sys.mirror_generic (hL : S.Lawful) (var : Variant) (M : Nat) (init : Obs S.C)
    (pre post : List (Call S.Op)) (mode : Mode) (ies : List S.Ev)
    (hwf : S.wf init.v)
    (hincr : mode = .incremental → S.incr (S.run init pre).1.v ies)
    (hB : S.Bounded M (S.run init pre).1 post) (hG : S.AllGood post)
    (hF13 : var = .pinned → mode = .incremental → (S.run init pre).1.done = true → S.inheritDone = false) :
    (S.taskRun var (Sub.mirrorInit ⟨mode, (S.run init pre).1.v, ies, (S.run init pre).1.done⟩ M)
        (Sub.stream ⟨mode, (S.run init pre).1.v, ies, (S.run init pre).1.done⟩ (S.run (S.run init pre).1 post).2)).m.v
      = (S.run (S.run init pre).1 post).1.v ∧
    (S.taskRun var (Sub.mirrorInit ⟨mode, (S.run init pre).1.v, ies, (S.run init pre).1.done⟩ M)
        (Sub.stream ⟨mode, (S.run init pre).1.v, ies, (S.run init pre).1.done⟩ (S.run (S.run init pre).1 post).2)).m.done
      = (S.run (S.run init pre).1 post).1.done ∧
    (S.taskRun var (Sub.mirrorInit ⟨mode, (S.run init pre).1.v, ies, (S.run init pre).1.done⟩ M)
        (Sub.stream ⟨mode, (S.run init pre).1.v, ies, (S.run init pre).1.done⟩ (S.run (S.run init pre).1 post).2)).m.error
      = none ∧
    (S.taskRun var (Sub.mirrorInit ⟨mode, (S.run init pre).1.v, ies, (S.run init pre).1.done⟩ M)
        (Sub.stream ⟨mode, (S.run init pre).1.v, ies, (S.run init pre).1.done⟩ (S.run (S.run init pre).1 post).2)).m.complete
      = true := by
  generalize hok : (S.run init pre).1 = ok at *
  have hwfk : S.wf ok.v := by rw [← hok]; exact Sys.run_wf hL init pre hwf
  have hsize : S.size ok.v ≤ M := hB.size
  cases hd : ok.done with
  | true =>
    rw [Sys.run_done ok hd post]
    cases mode with
    | snapshot =>
      simp [Sub.stream, Sub.mirrorInit, Sub.initial, Sys.taskRun, Sys.taskStep, Sys.handle, hd]
    | incremental =>
      have hi := hincr rfl
      have hfeed := hL.incr_ok M ok.v ies hwfk hi hsize
      simp only [Sub.stream, if_true, List.append_assoc]
      rw [Sys.taskRun_append]
      have hb0 : breakNow var (Sub.mirrorInit (S := S) ⟨Mode.incremental, ok.v, ies, true⟩ M).m = false := by
        cases var with
        | pinned => simp [breakNow, Sub.mirrorInit, hF13 rfl rfl hd]
        | fixed => simp [breakNow, Sub.mirrorInit]
        | hand => rfl
      have hblock := Sys.taskRun_changes var ies (Sub.mirrorInit (S := S) ⟨Mode.incremental, ok.v, ies, true⟩ M) ok.v rfl hb0
        (by simpa [Sub.mirrorInit, Sub.initial] using hfeed)
      rw [hblock]
      cases var with
      | pinned =>
        have := hF13 rfl rfl hd
        simp [Sub.mirrorInit, Sub.initial, Sys.taskRun, Sys.taskStep, Sys.handle, breakNow, this, hd]
      | fixed =>
        cases hI : S.inheritDone <;>
          simp [Sub.mirrorInit, Sub.initial, Sys.taskRun, Sys.taskStep, Sys.handle, breakNow, hI, hd]
      | hand =>
        simp [Sub.mirrorInit, Sub.initial, Sys.taskRun, Sys.taskStep, Sys.handle, breakNow, hd]
  | false =>
    cases mode with
    | snapshot =>
      simp only [Sub.stream, List.nil_append]
      exact Sys.taskRun_run hL var M post ok _ hd hwfk rfl (by simp [Sub.mirrorInit]) rfl rfl rfl rfl hB hG
    | incremental =>
      have hi := hincr rfl
      have hfeed := hL.incr_ok M ok.v ies hwfk hi hsize
      simp only [Sub.stream, List.append_assoc]
      rw [Sys.taskRun_append]
      have hb0 : breakNow var (Sub.mirrorInit (S := S) ⟨Mode.incremental, ok.v, ies, false⟩ M).m = false :=
        breakNow_not_done _ _ (by simp [Sub.mirrorInit])
      have hblock := Sys.taskRun_changes var ies (Sub.mirrorInit (S := S) ⟨Mode.incremental, ok.v, ies, false⟩ M) ok.v rfl hb0
        (by simpa [Sub.mirrorInit, Sub.initial] using hfeed)
      rw [hblock]
      simp only [Bool.false_eq_true, if_false, List.singleton_append, Sys.taskRun_cons]
      have hstep : S.taskStep var
          { (Sub.mirrorInit (S := S) ⟨Mode.incremental, ok.v, ies, false⟩ M) with
            m := { (Sub.mirrorInit (S := S) ⟨Mode.incremental, ok.v, ies, false⟩ M).m with v := ok.v } }
          (Recv.ev Event.initialComplete)
          = { m := { v := ok.v, complete := true, done := false, error := none, maxSize := M }, running := true } := by
        cases var <;> simp [Sys.taskStep, Sub.mirrorInit, Sys.handle, breakNow]
      rw [hstep]
      exact Sys.taskRun_run hL var M post ok _ hd hwfk rfl rfl rfl rfl rfl rfl hB hG

end Remoc.Robs

namespace Remoc.Robs

variable {S : Sys}

/-! ### the scenario of property C13 in one place -/

/-- The collection after the calls `ops`. -/
def Sys.after (S : Sys) (init : Obs S.C) (ops : List (Call S.Op)) : Obs S.C := (S.run init ops).1

/-- The subscription taken after the first `k` calls (`ies`: element stream used in incremental mode). -/
def Sys.subAt (S : Sys) (init : Obs S.C) (ops : List (Call S.Op)) (k : Nat) (mode : Mode) (ies : List S.Ev) : Sub S :=
  ⟨mode, (S.after init (ops.take k)).v, ies, (S.after init (ops.take k)).done⟩

/-- Everything the collection sends after the first `k` calls. -/
def Sys.laterEvents (S : Sys) (init : Obs S.C) (ops : List (Call S.Op)) (k : Nat) : List (Event S.Ev) :=
  (S.run (S.after init (ops.take k)) (ops.drop k)).2

/-- The consumer (`var`: mirror task as coded / repaired / fold by hand) of the subscription taken after
`k` of the calls `ops`, after it has processed everything the subscription yields. -/
def Sys.consume (S : Sys) (var : Variant) (M : Nat) (init : Obs S.C) (ops : List (Call S.Op)) (k : Nat)
    (mode : Mode) (ies : List S.Ev) : Task S.C :=
  S.taskRun var ((S.subAt init ops k mode ies).mirrorInit M)
    ((S.subAt init ops k mode ies).stream (S.laterEvents init ops k))

/-- `Bounded` is decidable (used by the concrete examples next to the theorems). -/
instance Sys.decBounded (S : Sys) (M : Nat) : (o : Obs S.C) → (ops : List (Call S.Op)) → Decidable (S.Bounded M o ops)
  | o, [] => inferInstanceAs (Decidable (S.size o.v ≤ M))
  | o, c :: cs =>
    have := Sys.decBounded S M (S.step o c).1 cs
    inferInstanceAs (Decidable (S.size o.v ≤ M ∧ S.Bounded M (S.step o c).1 cs))

theorem Sys.after_split (init : Obs S.C) (ops : List (Call S.Op)) (k : Nat) :
    S.after init ops = (S.run (S.after init (ops.take k)) (ops.drop k)).1 := by
  have := Sys.run_append init (ops.take k) (ops.drop k)
  rw [List.take_append_drop] at this
  simp [Sys.after, this]

/-- `mirror_generic` in terms of `consume`. -/
theorem Sys.consume_eq (hL : S.Lawful) (var : Variant) (M : Nat) (init : Obs S.C) (ops : List (Call S.Op))
    (k : Nat) (mode : Mode) (ies : List S.Ev)
    (hwf : S.wf init.v)
    (hincr : mode = .incremental → S.incr (S.after init (ops.take k)).v ies)
    (hB : S.Bounded M (S.after init (ops.take k)) (ops.drop k))
    (hG : S.AllGood (ops.drop k))
    (hF13 : var = .pinned → mode = .incremental → (S.after init (ops.take k)).done = true → S.inheritDone = false) :
    (S.consume var M init ops k mode ies).m.v = (S.after init ops).v ∧
    (S.consume var M init ops k mode ies).m.done = (S.after init ops).done ∧
    (S.consume var M init ops k mode ies).m.error = none ∧
    (S.consume var M init ops k mode ies).m.complete = true := by
  rw [Sys.after_split init ops k]
  exact Sys.mirror_generic hL var M init (ops.take k) (ops.drop k) mode ies hwf hincr hB hG hF13

end Remoc.Robs
