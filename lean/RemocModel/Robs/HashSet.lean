import RemocModel.Robs.Generic
import RemocModel.Robs.Assoc
set_option linter.unusedSimpArgs false

/-!
M_robs / hash set: `robs/hash_set.rs` (`ObservableHashSet`, `HashSetEvent`,
`MirroredHashSetInner::handle_event`).  Elements are `Nat`; contents are strictly ascending lists
(canonical association lists with unit values, so that the lemmas of `Assoc.lean` apply).
-/

namespace Remoc.Robs.HashSet

abbrev Set := List (Nat × Unit)

/-- The elements, ascending and without duplicates. -/
def elems (s : Set) : List Nat := s.map (·.1)

/-- `HashSet::from_iter`. -/
def ofList (l : List Nat) : Set := aofList (l.map (fun x => (x, ())))

/-- The mutating API of `ObservableHashSet` (without `done`).  `retain visits`: the elements in the
order in which the predicate is asked, with its answers (`true` = keep). -/
inductive Op where
  | insert (x : Nat)
  | replace (x : Nat)
  | remove (x : Nat)
  | take (x : Nat)
  | clear
  | retain (visits : List (Nat × Bool))
  | shrinkToFit
  | extend (xs : List Nat)
deriving Repr, DecidableEq

/-- Change variants of `HashSetEvent`. -/
inductive Ev where
  | set (x : Nat)
  | remove (x : Nat)
  | clear
  | shrinkToFit
deriving Repr, DecidableEq

def retainStep (acc : Set × List Ev) (vis : Nat × Bool) : Set × List Ev :=
  if ahas vis.1 acc.1 then
    if vis.2 then acc else (adel vis.1 acc.1, acc.2 ++ [Ev.remove vis.1])
  else acc

def insStep (acc : Set × List Ev) (x : Nat) : Set × List Ev :=
  (ains x () acc.1, acc.2 ++ [Ev.set x])

/-- One call on a set that is not done.  `insert` and `replace` send `Set` even if the element is
already present. -/
def apply (s : Set) : Op → Set × List Ev
  | .insert x => (ains x () s, [.set x])
  | .replace x => (ains x () s, [.set x])
  | .remove x => if ahas x s then (adel x s, [.remove x]) else (s, [])
  | .take x => if ahas x s then (adel x s, [.remove x]) else (s, [])
  | .clear => if s = [] then (s, []) else ([], [.clear])
  | .retain visits => visits.foldl retainStep (s, [])
  | .shrinkToFit => (s, [.shrinkToFit])
  | .extend xs => xs.foldl insStep (s, [])

def panics (_ : Set) (_ : Op) : Bool := false

/-- `MirroredHashSetInner::handle_event` on a change event. -/
def applyEv (M : Nat) (s : Set) : Ev → Set × Option Err
  | .set x => (ains x () s, if M < (ains x () s).length then some (.maxSizeExceeded M) else none)
  | .remove x => (adel x s, none)
  | .clear => ([], none)
  | .shrinkToFit => (s, none)

@[reducible] def sys : Sys where
  C := Set
  Op := Op
  Ev := Ev
  empty := []
  size := List.length
  wf := ASorted
  apply := apply
  panics := panics
  applyEv := applyEv
  incr := fun c es => ∃ p : List (Nat × Unit), p.Perm c ∧ es = p.map (fun kv => Ev.set kv.1)
  inheritDone := true
  good := fun _ => True
  idle := fun | .extend [] => true | _ => false

theorem foldl_sorted {α : Type} (step : Set × List Ev → α → Set × List Ev)
    (hstep : ∀ acc x, ASorted acc.1 → ASorted (step acc x).1) (xs : List α) :
    ∀ acc, ASorted acc.1 → ASorted (xs.foldl step acc).1 := by
  induction xs with
  | nil => intro acc h; exact h
  | cons x xs ih => intro acc h; exact ih _ (hstep acc x h)

theorem apply_wf' (s : Set) (op : Op) (h : ASorted s) : ASorted (apply s op).1 := by
  cases op with
  | insert x => exact ains_sorted _ _ _ h
  | replace x => exact ains_sorted _ _ _ h
  | remove x => simp only [apply]; split; exact adel_sorted _ _ h; exact h
  | take x => simp only [apply]; split; exact adel_sorted _ _ h; exact h
  | clear => simp only [apply]; split; exact h; exact List.Pairwise.nil
  | retain visits =>
    apply foldl_sorted retainStep _ visits (s, []) h
    intro acc vis ha
    unfold retainStep
    split
    · split
      · exact ha
      · exact adel_sorted _ _ ha
    · exact ha
  | shrinkToFit => exact h
  | extend xs =>
    apply foldl_sorted insStep _ xs (s, []) h
    intro acc x ha
    exact ains_sorted _ _ _ ha

theorem ains_length_ge (k : Nat) (s : Set) : s.length ≤ (ains k () s).length := by
  induction s with
  | nil => simp [ains]
  | cons a t ih =>
    obtain ⟨k', v'⟩ := a
    simp only [ains]
    split
    · simp
    · split
      · simp
      · simp; omega

theorem feed_set (M : Nat) (s : Set) (x : Nat) (h : (ains x () s).length ≤ M) :
    applyEv M s (Ev.set x) = (ains x () s, none) := by
  have : ¬ M < (ains x () s).length := by omega
  simp [applyEv, this]

theorem foldl_insStep_length_ge (xs : List Nat) : ∀ acc : Set × List Ev,
    acc.1.length ≤ (xs.foldl insStep acc).1.length := by
  induction xs with
  | nil => intro acc; exact Nat.le_refl _
  | cons x xs ih =>
    intro acc
    rw [List.foldl_cons]
    exact Nat.le_trans (ains_length_ge _ _) (ih (insStep acc x))

theorem feed_extend (M : Nat) (xs : List Nat) : ∀ (s : Set) (pre : List Ev) (s0 : Set),
    feedWith (applyEv M) s0 pre = (s, none) → (xs.foldl insStep (s, pre)).1.length ≤ M →
    feedWith (applyEv M) s0 (xs.foldl insStep (s, pre)).2 = ((xs.foldl insStep (s, pre)).1, none) := by
  induction xs with
  | nil => intro s pre s0 h _; simpa using h
  | cons x xs ih =>
    intro s pre s0 h hlen
    rw [List.foldl_cons] at hlen ⊢
    apply ih _ _ _ _ hlen
    simp only [insStep]
    rw [feedWith_append (applyEv M) pre _ s0 s h, feedWith_cons_ok (applyEv M) s (ains x () s)]
    · rfl
    · apply feed_set
      have := foldl_insStep_length_ge xs (insStep (s, pre) x)
      simp only [insStep] at this
      exact Nat.le_trans this hlen

theorem feed_retain (M : Nat) (visits : List (Nat × Bool)) :
    ∀ (s : Set) (pre : List Ev) (s0 : Set), feedWith (applyEv M) s0 pre = (s, none) →
    feedWith (applyEv M) s0 (visits.foldl retainStep (s, pre)).2 = ((visits.foldl retainStep (s, pre)).1, none) := by
  induction visits with
  | nil => intro s pre s0 h; simpa using h
  | cons vis visits ih =>
    intro s pre s0 h
    rw [List.foldl_cons]
    unfold retainStep
    split
    · split
      · exact ih s pre s0 h
      · apply ih
        rw [feedWith_append (applyEv M) pre _ s0 s h, feedWith_cons_ok (applyEv M) s (adel vis.1 s)]
        · rfl
        · simp [applyEv]
    · exact ih s pre s0 h

theorem apply_ok' (M : Nat) (s : Set) (op : Op) (hlen' : (apply s op).1.length ≤ M) :
    feedWith (applyEv M) s (apply s op).2 = ((apply s op).1, none) := by
  cases op with
  | insert x =>
    simp only [apply] at hlen' ⊢
    rw [feedWith_cons_ok (applyEv M) s (ains x () s) _ _ (feed_set M s x hlen')]; rfl
  | replace x =>
    simp only [apply] at hlen' ⊢
    rw [feedWith_cons_ok (applyEv M) s (ains x () s) _ _ (feed_set M s x hlen')]; rfl
  | remove x => simp only [apply]; split <;> simp [feedWith, applyEv]
  | take x => simp only [apply]; split <;> simp [feedWith, applyEv]
  | clear => simp only [apply]; split <;> simp [feedWith, applyEv]
  | retain visits => exact feed_retain M visits s [] s rfl
  | shrinkToFit => simp [apply, feedWith, applyEv]
  | extend xs => exact feed_extend M xs s [] s rfl hlen'

theorem feed_incr (M : Nat) (p : List (Nat × Unit)) : ∀ (acc : Set), acc.length + p.length ≤ M →
    feedWith (applyEv M) acc (p.map (fun kv => Ev.set kv.1))
      = (p.foldl (fun acc e => ains e.1 e.2 acc) acc, none) := by
  induction p with
  | nil => intro acc _; rfl
  | cons e p ih =>
    intro acc h
    have h1 := ains_length_le e.1 () acc
    simp at h
    rw [List.map_cons, feedWith_cons_ok (applyEv M) acc (ains e.1 () acc) _ _ (feed_set M acc _ (by omega))]
    rw [List.foldl_cons]
    exact ih _ (by omega)

theorem incr_ok' (M : Nat) (c : Set) (p : List (Nat × Unit)) (hs : ASorted c) (hp : p.Perm c) (hlen : c.length ≤ M) :
    feedWith (applyEv M) [] (p.map (fun kv => Ev.set kv.1)) = (c, none) := by
  rw [feed_incr M p [] (by simp [hp.length_eq]; exact hlen), foldl_ains_perm c p hs hp]

theorem lawful : sys.Lawful where
  apply_wf := fun c op h => apply_wf' c op h
  incr_ok := fun M c es hs hi hlen => by
    obtain ⟨p, hp, he⟩ := hi
    subst he
    exact incr_ok' M c p hs hp hlen
  apply_ok := fun M c op _ _ _ hlen' => apply_ok' M c op hlen'

end Remoc.Robs.HashSet
