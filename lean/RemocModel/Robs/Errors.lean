import RemocModel.Robs.Generic

/-!
M_robs / faults (property C14): one subscriber of an observable collection together with the mirror
built from its subscription, as a labelled transition system.

The four broadcast based collections send their events through `rch::broadcast`
(`rch/broadcast/sender.rs`): every subscriber owns a bounded queue (`send_buf` items).  `Sender::send`
does `try_send` for every *armed* subscriber; when a queue is full the subscriber is taken out of the
list (`not_ready`), a task is spawned that first delivers a `Lagged` marker as soon as there is room
and then waits for one more free slot before the subscriber is armed again; events sent in between
are not delivered to it.  `*Subscription::recv` turns the marker into `RecvError::Lagged`, the end of
the queue after the sender is gone into `RecvError::Closed`, a failure of the connection into
`RecvError::Remote*`; the mirror task (`*Subscription::mirror`) stores the first error and stops.

State: what the collection has sent since the subscription (`hist`), the queue, the armed / lag flags,
whether the collection was dropped (`closed`) or the connection cut, the mirror task, and the ghost
counter `applied` (number of events of `hist` the mirror has taken out of the queue).
-/

namespace Remoc.Robs

variable {S : Sys}

/-- item of a subscriber queue: `BroadcastMsg::Value` or `BroadcastMsg::Lagged` -/
inductive Item (E : Type) where
  | value (e : E)
  | lagged
deriving Repr, DecidableEq

structure MSt (S : Sys) where
  /-- contents the subscription started from -/
  c0 : S.C
  /-- `send_buf` -/
  cap : Nat
  hist : List (Event S.Ev)
  queue : List (Item (Event S.Ev))
  /-- the subscriber is in `SenderInner.subs` -/
  armed : Bool
  /-- the shedding task has not yet delivered its `Lagged` marker -/
  lagPending : Bool
  /-- the observable collection was dropped -/
  closed : Bool
  /-- the connection carrying the subscription failed -/
  cut : Bool
  task : Task S.C
  /-- ghost: number of events of `hist` taken out of the queue by the mirror task -/
  applied : Nat

inductive MLabel (S : Sys) where
  /-- the collection sends an event (`send_event`) -/
  | emit (e : Event S.Ev)
  /-- the shedding task gets the `Lagged` marker into the queue -/
  | shed
  /-- the shedding task got its permit: the subscriber is armed again -/
  | rearm
  /-- the collection is dropped -/
  | drop
  /-- the connection fails -/
  | cut
  /-- the mirror task takes the next `recv` result from the queue (or `Closed` at its end) -/
  | consume
  /-- the mirror task's `recv` fails because of the connection (`RemoteReceive/Connect/Listen`) -/
  | consumeCut (x : Err)

/-- Contents after applying events with `handle_event` (`max_size = M`), whatever it answers. -/
def prefixState (S : Sys) (M : Nat) (c : S.C) (evs : List (Event S.Ev)) : S.C :=
  evs.foldl (fun c e => match e with
    | .change x => (S.applyEv M c x).1
    | _ => c) c

/-- `Done` has been sent -/
def hasDone {Ev : Type} (l : List (Event Ev)) : Bool :=
  l.any (fun e => match e with | .done => true | _ => false)

def MSt.step (s : MSt S) : MLabel S → Option (MSt S)
  | .emit e =>
    if s.closed || hasDone s.hist then none
    else if s.armed then
      if s.queue.length < s.cap then some { s with hist := s.hist ++ [e], queue := s.queue ++ [.value e] }
      else some { s with hist := s.hist ++ [e], armed := false, lagPending := true }
    else some { s with hist := s.hist ++ [e] }
  | .shed =>
    if s.lagPending && decide (s.queue.length < s.cap) then
      some { s with queue := s.queue ++ [.lagged], lagPending := false }
    else none
  | .rearm =>
    if !s.armed && !s.lagPending && decide (s.queue.length < s.cap) && !s.closed then some { s with armed := true }
    else none
  | .drop => if s.closed then none else some { s with closed := true }
  | .cut => some { s with cut := true }
  | .consume =>
    if s.task.running then
      match s.queue with
      | .value e :: q => some { s with queue := q, task := S.taskStep .pinned s.task (.ev e), applied := s.applied + 1 }
      | .lagged :: q => some { s with queue := q, task := S.taskStep .pinned s.task (.err .lagged) }
      | [] =>
        if s.closed && !s.lagPending then some { s with task := S.taskStep .pinned s.task (.err .closed) }
        else none
    else none
  | .consumeCut x =>
    if s.cut && s.task.running then some { s with task := S.taskStep .pinned s.task (.err x) } else none

def MSt.run (s : MSt S) : List (MLabel S) → Option (MSt S)
  | [] => some s
  | l :: ls => (s.step l).bind (fun s' => s'.run ls)

/-- A fresh subscription (snapshot `c0`, buffer `cap`) with the mirror built from it. -/
def MSt.init (S : Sys) (c0 : S.C) (cap M : Nat) : MSt S :=
  { c0, cap, hist := [], queue := [], armed := true, lagPending := false, closed := false, cut := false,
    task := { m := { v := c0, complete := true, done := false, error := none, maxSize := M }, running := true },
    applied := 0 }

/-- Nothing can happen without the environment (a call on the collection, its drop, a failure). -/
def MSt.Quiescent (s : MSt S) : Prop :=
  s.step .shed = none ∧ s.step .rearm = none ∧ s.step .consume = none ∧ ∀ x, s.step (.consumeCut x) = none

end Remoc.Robs
