import RemocModel.Watch.Link
/-
The global invariant of M_watch and its preservation by every label.
-/
namespace Remoc.Watch

def rootDepth (s : State) : Int := (s.cells[s.root]?.map (·.depth)).getD 0

structure Inv (s : State) : Prop where
  rootOk : ∃ rc, s.cells[s.root]? = some rc ∧ rc.parent = none ∧ rc.closed = !s.senderAlive
  parentNone : ∀ (c : Nat) (cell : Cell), s.cells[c]? = some cell → cell.parent = none → c = s.root
  parentSome : ∀ (c : Nat) (cell : Cell) (p : Nat), s.cells[c]? = some cell → cell.parent = some p →
      ∃ pc, s.cells[p]? = some pc ∧ pc.depth + 1 = cell.depth ∧ Link pc.val pc.ver pc.closed cell
  leRoot : ∀ (c : Nat) (cell : Cell), s.cells[c]? = some cell → cell.val ≤ lastSent s ∧ rootDepth s ≤ cell.depth
  rcvOk : ∀ (r : Nat) (rc : Rcv), s.rcvs[r]? = some rc → rc.obs.Pairwise (· ≤ ·) ∧ (∀ o ∈ rc.obs, o ≤ lastSent s) ∧
      (rc.alive = true → ∃ cell, s.cells[rc.cell]? = some cell ∧ rc.seen ≤ cell.ver ∧ ∀ o ∈ rc.obs, o ≤ cell.val)

theorem inv_init : Inv init := by
  refine ⟨⟨{}, rfl, rfl, rfl⟩, ?_, ?_, ?_, ?_⟩
  · intro c cell hc _
    cases c with
    | zero => rfl
    | succ n => simp [init] at hc
  · intro c cell p hc hp
    cases c with
    | zero => simp [init] at hc; subst hc; simp at hp
    | succ n => simp [init] at hc
  · intro c cell hc
    cases c with
    | zero => simp [init] at hc; subst hc; simp [lastSent, rootDepth, init]
    | succ n => simp [init] at hc
  · intro r rc hr
    cases r with
    | zero =>
      simp [init] at hr; subst hr
      exact ⟨by simp, by simp, fun _ => ⟨{}, rfl, by simp, by simp⟩⟩
    | succ n => simp [init] at hr

/-- Replace one cell by a newer version of itself. -/
theorem inv_setCell {s : State} (h : Inv s) {c : Nat} {old new : Cell} {sa' : Bool}
    (hc : s.cells[c]? = some old)
    (hpar : new.parent = old.parent) (hdep : new.depth = old.depth)
    (hval : old.val ≤ new.val) (hver : old.ver ≤ new.ver)
    (hchild : ∀ p pc, old.parent = some p → s.cells[p]? = some pc →
        Link pc.val pc.ver pc.closed old → Link pc.val pc.ver pc.closed new)
    (hparent : ∀ d, Link old.val old.ver old.closed d → Link new.val new.ver new.closed d)
    (hle : c ≠ s.root → new.val ≤ lastSent s)
    (hroot : c = s.root → new.closed = !sa')
    (hsa : c ≠ s.root → sa' = s.senderAlive) :
    Inv { s with cells := s.cells.set c new, senderAlive := sa' } := by
  have hcl : c < s.cells.length := (List.getElem?_eq_some_iff.mp hc).1
  have hself : (s.cells.set c new)[c]? = some new := by simp [hcl]
  have hne : ∀ i, i ≠ c → (s.cells.set c new)[i]? = s.cells[i]? := fun i hi => by
    simp [List.getElem?_set, Ne.symm hi]
  obtain ⟨rc, hrc, hrp, hrcl⟩ := h.rootOk
  have hls : lastSent s ≤ lastSent { s with cells := s.cells.set c new, senderAlive := sa' } ∧
      rootDepth { s with cells := s.cells.set c new, senderAlive := sa' } = rootDepth s ∧
      (c = s.root → lastSent { s with cells := s.cells.set c new, senderAlive := sa' } = new.val) := by
    by_cases hcr : c = s.root
    · subst hcr
      rw [hc] at hrc; cases hrc
      simp [lastSent, rootDepth, hself, hc, hval, hdep]
    · simp [lastSent, rootDepth, hne _ (Ne.symm hcr), hcr]
  obtain ⟨hls1, hls2, hls3⟩ := hls
  refine ⟨?_, ?_, ?_, ?_, ?_⟩
  · by_cases hcr : c = s.root
    · subst hcr
      rw [hc] at hrc; cases hrc
      exact ⟨new, hself, by rw [hpar, hrp], hroot rfl⟩
    · exact ⟨rc, by simpa [hne _ (Ne.symm hcr)] using hrc, hrp, by simpa [hsa hcr] using hrcl⟩
  · intro i cell hi hp
    by_cases hic : i = c
    · subst hic
      simp only [hself, Option.some.injEq] at hi; subst hi
      exact h.parentNone _ old hc (by rw [← hpar]; exact hp)
    · simp only [hne i hic] at hi
      exact h.parentNone i cell hi hp
  · intro i cell p hi hp
    by_cases hic : i = c
    · subst hic
      simp only [hself, Option.some.injEq] at hi; subst hi
      rw [hpar] at hp
      obtain ⟨pc, hpc, hd, hl⟩ := h.parentSome _ old p hc hp
      have hpi : p ≠ i := by
        intro hpi; subst hpi
        rw [hc] at hpc; cases hpc; omega
      exact ⟨pc, by simpa [hne p hpi] using hpc, by omega, hchild p pc hp hpc hl⟩
    · simp only [hne i hic] at hi
      obtain ⟨pc, hpc, hd, hl⟩ := h.parentSome i cell p hi hp
      by_cases hpc' : p = c
      · subst hpc'
        rw [hc] at hpc; cases hpc
        exact ⟨new, hself, by omega, hparent cell hl⟩
      · exact ⟨pc, by simpa [hne p hpc'] using hpc, hd, hl⟩
  · intro i cell hi
    rw [hls2]
    by_cases hic : i = c
    · subst hic
      simp only [hself, Option.some.injEq] at hi; subst hi
      have := h.leRoot _ old hc
      refine ⟨?_, by omega⟩
      by_cases hcr : i = s.root
      · rw [hls3 hcr]; exact Nat.le_refl _
      · exact Nat.le_trans (hle hcr) hls1
    · simp only [hne i hic] at hi
      have := h.leRoot i cell hi
      exact ⟨Nat.le_trans this.1 hls1, this.2⟩
  · intro r rcv hr
    obtain ⟨h1, h2, h3⟩ := h.rcvOk r rcv hr
    refine ⟨h1, fun o ho => Nat.le_trans (h2 o ho) hls1, ?_⟩
    intro ha
    obtain ⟨cell, hcell, hs, ho⟩ := h3 ha
    by_cases hrc' : rcv.cell = c
    · rw [hrc', hc] at hcell; cases hcell
      exact ⟨new, by rw [hrc']; exact hself, by omega, fun o hoo => Nat.le_trans (ho o hoo) hval⟩
    · exact ⟨cell, by simpa [hne _ hrc'] using hcell, hs, ho⟩

theorem updCell_eq {s : State} {c : Nat} {old : Cell} (hc : s.cells[c]? = some old) (f : Cell → Cell) :
    updCell s c f = { s with cells := s.cells.set c (f old), senderAlive := s.senderAlive } := by
  simp [updCell, hc]

theorem updRcv_eq {s : State} {r : Nat} {old : Rcv} (hr : s.rcvs[r]? = some old) (f : Rcv → Rcv) :
    updRcv s r f = { s with rcvs := s.rcvs.set r (f old) } := by
  simp [updRcv, hr]

/-- Replace one receiver. -/
theorem inv_setRcv {s : State} (h : Inv s) (r : Nat) {new : Rcv}
    (hnew : new.obs.Pairwise (· ≤ ·) ∧ (∀ o ∈ new.obs, o ≤ lastSent s) ∧
      (new.alive = true → ∃ cell, s.cells[new.cell]? = some cell ∧ new.seen ≤ cell.ver ∧ ∀ o ∈ new.obs, o ≤ cell.val)) :
    Inv { s with rcvs := s.rcvs.set r new } := by
  refine ⟨h.rootOk, h.parentNone, h.parentSome, h.leRoot, ?_⟩
  intro i rc hi
  by_cases hir : i = r
  · subst hir
    have : rc = new := by
      simp only [List.getElem?_set] at hi
      split at hi <;> simp_all
    subst this
    exact hnew
  · have : s.rcvs[i]? = some rc := by simpa [List.getElem?_set, Ne.symm hir] using hi
    exact h.rcvOk i rc this

/-- Add one receiver. -/
theorem inv_pushRcv {s : State} (h : Inv s) {new : Rcv}
    (hnew : new.obs.Pairwise (· ≤ ·) ∧ (∀ o ∈ new.obs, o ≤ lastSent s) ∧
      (new.alive = true → ∃ cell, s.cells[new.cell]? = some cell ∧ new.seen ≤ cell.ver ∧ ∀ o ∈ new.obs, o ≤ cell.val)) :
    Inv { s with rcvs := s.rcvs ++ [new] } := by
  refine ⟨h.rootOk, h.parentNone, h.parentSome, h.leRoot, ?_⟩
  intro i rc hi
  simp only [List.getElem?_append] at hi
  split at hi
  · exact h.rcvOk i rc hi
  · have : rc = new := by
      cases hk : i - s.rcvs.length with
      | zero => simp [hk] at hi; exact hi.symm
      | succ n => simp [hk] at hi
    subst this
    exact hnew

theorem getElem?_append_some {α} {l : List α} {i : Nat} {a : α} (x : α) (h : l[i]? = some a) :
    (l ++ [x])[i]? = some a := by
  obtain ⟨hlt, heq⟩ := List.getElem?_eq_some_iff.mp h
  simp [List.getElem?_append, hlt, heq]

theorem inv_transfer {s : State} (h : Inv s) {r : Nat} {rc : Rcv} {cell : Cell}
    (hr : s.rcvs[r]? = some rc) (hcell : s.cells[rc.cell]? = some cell) (ha : rc.alive = true) :
    Inv { s with cells := s.cells ++ [{ val := cell.val, parent := some rc.cell, depth := cell.depth + 1, fseen := cell.ver }],
                 rcvs := s.rcvs.set r { rc with cell := s.cells.length, seen := 0 } } := by
  obtain ⟨root, hroot, hrp, hrcl⟩ := h.rootOk
  have hrl : s.root < s.cells.length := (List.getElem?_eq_some_iff.mp hroot).1
  have hLS : ∀ (nc : Cell) (rs : List Rcv), lastSent { s with cells := s.cells ++ [nc], rcvs := rs } = lastSent s ∧
      rootDepth { s with cells := s.cells ++ [nc], rcvs := rs } = rootDepth s := by
    intro nc rs; simp [lastSent, rootDepth, List.getElem?_append, hrl]
  -- lookups in the extended list
  have hlook : ∀ (nc : Cell) (i : Nat) (x : Cell), (s.cells ++ [nc])[i]? = some x →
      (i < s.cells.length ∧ s.cells[i]? = some x) ∨ (i = s.cells.length ∧ x = nc) := by
    intro nc i x hx
    simp only [List.getElem?_append] at hx
    split at hx
    · exact Or.inl ⟨by assumption, hx⟩
    · right
      cases hk : i - s.cells.length with
      | zero => simp [hk] at hx; exact ⟨by omega, hx.symm⟩
      | succ n => simp [hk] at hx
  refine ⟨⟨root, getElem?_append_some _ hroot, hrp, hrcl⟩, ?_, ?_, ?_, ?_⟩
  · intro i x hi hp
    rcases hlook _ i x hi with ⟨_, hx⟩ | ⟨_, rfl⟩
    · exact h.parentNone i x hx hp
    · simp at hp
  · intro i x p hi hp
    rcases hlook _ i x hi with ⟨_, hx⟩ | ⟨_, rfl⟩
    · obtain ⟨pc, hpc, hd, hl⟩ := h.parentSome i x p hx hp
      exact ⟨pc, getElem?_append_some _ hpc, hd, hl⟩
    · simp only [Option.some.injEq] at hp; subst hp
      exact ⟨cell, getElem?_append_some _ hcell, rfl, link_new _ _ _ _ _⟩
  · intro i x hi
    rw [(hLS _ _).1, (hLS _ _).2]
    rcases hlook _ i x hi with ⟨_, hx⟩ | ⟨_, rfl⟩
    · exact h.leRoot i x hx
    · have := h.leRoot _ cell hcell
      exact ⟨this.1, by simp; omega⟩
  · intro i x hi
    rw [(hLS _ _).1]
    obtain ⟨h1, h2, h3⟩ := h.rcvOk r rc hr
    by_cases hir : i = r
    · subst hir
      have : x = { rc with cell := s.cells.length, seen := 0 } := by
        simp only [List.getElem?_set] at hi
        split at hi <;> simp_all
      subst this
      refine ⟨h1, h2, fun _ => ⟨{ val := cell.val, parent := some rc.cell, depth := cell.depth + 1, fseen := cell.ver },
        by simp, by simp, ?_⟩⟩
      obtain ⟨c2, hc2, _, ho⟩ := h3 ha
      rw [hcell] at hc2; cases hc2
      exact ho
    · have hx : s.rcvs[i]? = some x := by simpa [List.getElem?_set, Ne.symm hir] using hi
      obtain ⟨g1, g2, g3⟩ := h.rcvOk i x hx
      refine ⟨g1, g2, fun hxa => ?_⟩
      obtain ⟨c2, hc2, hs, ho⟩ := g3 hxa
      exact ⟨c2, getElem?_append_some _ hc2, hs, ho⟩

theorem inv_transferSender {s : State} (h : Inv s) {rc : Cell}
    (hroot : s.cells[s.root]? = some rc) (hsa : s.senderAlive = true) :
    Inv { s with cells := (s.cells.set s.root { rc with parent := some s.cells.length, fseen := 0, hold := none,
                                                          wire := [], fdone := false }) ++ [{ val := rc.val, depth := rc.depth - 1 }],
                 root := s.cells.length } := by
  obtain ⟨root, hroot', hrp, hrcl⟩ := h.rootOk
  rw [hroot] at hroot'; cases hroot'
  have hrcl : rc.closed = false := by simpa [hsa] using hrcl
  have hrl : s.root < s.cells.length := (List.getElem?_eq_some_iff.mp hroot).1
  let rc' : Cell := { rc with parent := some s.cells.length, fseen := 0, hold := none, wire := [], fdone := false }
  let nc : Cell := { val := rc.val, depth := rc.depth - 1 }
  have hlen : (s.cells.set s.root rc').length = s.cells.length := by simp
  have hnew : ((s.cells.set s.root rc') ++ [nc])[s.cells.length]? = some nc := by
    simp [List.getElem?_append]
  have hold : ((s.cells.set s.root rc') ++ [nc])[s.root]? = some rc' := by
    simp [List.getElem?_append, hrl]
  have hother : ∀ i x, i ≠ s.root → s.cells[i]? = some x → ((s.cells.set s.root rc') ++ [nc])[i]? = some x := by
    intro i x hi hx
    obtain ⟨hlt, heq⟩ := List.getElem?_eq_some_iff.mp hx
    simp [List.getElem?_append, hlt, List.getElem?_set, Ne.symm hi, heq]
  have hlook : ∀ (i : Nat) (x : Cell), ((s.cells.set s.root rc') ++ [nc])[i]? = some x →
      (i = s.cells.length ∧ x = nc) ∨ (i = s.root ∧ x = rc') ∨ (i ≠ s.root ∧ i < s.cells.length ∧ s.cells[i]? = some x) := by
    intro i x hx
    simp only [List.getElem?_append, hlen] at hx
    split at hx
    · rename_i hil
      right
      by_cases hir : i = s.root
      · subst hir; left; simp [hil] at hx; exact ⟨rfl, hx.symm⟩
      · right; exact ⟨hir, hil, by simpa [List.getElem?_set, Ne.symm hir] using hx⟩
    · left
      cases hk : i - s.cells.length with
      | zero => simp [hk] at hx; exact ⟨by omega, hx.symm⟩
      | succ n => simp [hk] at hx
  have hLS : lastSent { s with cells := (s.cells.set s.root rc') ++ [nc], root := s.cells.length } = lastSent s ∧
      rootDepth { s with cells := (s.cells.set s.root rc') ++ [nc], root := s.cells.length } = rootDepth s - 1 := by
    simp only [lastSent, rootDepth, hnew, hroot]; simp [nc]
  refine ⟨⟨nc, hnew, rfl, by simp [nc, hsa]⟩, ?_, ?_, ?_, ?_⟩
  · intro i x hi hp
    rcases hlook i x hi with ⟨hil, _⟩ | ⟨_, rfl⟩ | ⟨hir, _, hx⟩
    · exact hil
    · simp [rc'] at hp
    · exact absurd (h.parentNone i x hx hp) hir
  · intro i x p hi hp
    rcases hlook i x hi with ⟨_, rfl⟩ | ⟨_, rfl⟩ | ⟨hir, _, hx⟩
    · simp [nc] at hp
    · simp only [rc', Option.some.injEq] at hp; subst hp
      refine ⟨nc, hnew, by show rc.depth - 1 + 1 = rc.depth; omega, ?_⟩
      refine ⟨by simp [Cell.chain, rc'], by simp [Cell.chain, rc', nc], by simp [rc', nc], fun _ => by simp [Cell.newest, rc', nc], ?_, ?_⟩
      · simp [rc']
      · simp [rc', hrcl]
    · obtain ⟨pc, hpc, hd, hl⟩ := h.parentSome i x p hx hp
      by_cases hpr : p = s.root
      · subst hpr
        rw [hroot] at hpc; cases hpc
        exact ⟨rc', hold, hd, hl⟩
      · exact ⟨pc, hother p pc hpr hpc, hd, hl⟩
  · intro i x hi
    rw [hLS.1, hLS.2]
    rcases hlook i x hi with ⟨_, rfl⟩ | ⟨_, rfl⟩ | ⟨hir, _, hx⟩
    · simp [nc, lastSent, rootDepth, hroot]
    · have := h.leRoot _ rc hroot
      have hd : rc'.depth = rc.depth := rfl
      exact ⟨this.1, by omega⟩
    · have := h.leRoot i x hx
      exact ⟨this.1, by omega⟩
  · intro i x hi
    rw [hLS.1]
    obtain ⟨g1, g2, g3⟩ := h.rcvOk i x hi
    refine ⟨g1, g2, fun hxa => ?_⟩
    obtain ⟨c2, hc2, hs, ho⟩ := g3 hxa
    by_cases hcr : x.cell = s.root
    · rw [hcr, hroot] at hc2; cases hc2
      exact ⟨rc', by rw [hcr]; exact hold, hs, ho⟩
    · exact ⟨c2, hother _ _ hcr hc2, hs, ho⟩

theorem lastSent_eq {s : State} {rc : Cell} (h : s.cells[s.root]? = some rc) : lastSent s = rc.val := by
  simp [lastSent, h]

theorem inv_step {s s' : State} {l : Label} (h : Inv s) (hs : step s l = some s') : Inv s' := by
  cases l with
  | send =>
    simp only [step] at hs
    split at hs
    · rename_i rc hrc
      split at hs
      · rename_i hsa
        simp only [Option.some.injEq] at hs; subst hs
        rw [updCell_eq hrc]
        obtain ⟨rc0, hrc0, hpar, hcl⟩ := h.rootOk
        rw [hrc] at hrc0; cases hrc0
        have hcl : rc.closed = false := by simpa [hsa] using hcl
        refine inv_setCell h hrc ?_ ?_ ?_ ?_ ?_ ?_ ?_ ?_ ?_
        · rfl
        · rfl
        · simp
        · simp
        · intro p pc hp; simp [hpar] at hp
        · intro d hd
          rw [hcl] at hd
          simp only [hcl]
          exact link_bump hd (by simp)
        · intro hne; exact absurd rfl hne
        · intro _; simp [hcl, hsa]
        · intro hne; exact absurd rfl hne
      · simp at hs
    · simp at hs
  | dropSender =>
    simp only [step] at hs
    split at hs
    · rename_i rc hrc
      split at hs
      · rename_i hsa
        simp only [Option.some.injEq] at hs; subst hs
        rw [updCell_eq hrc]
        obtain ⟨rc0, hrc0, hpar, hcl⟩ := h.rootOk
        rw [hrc] at hrc0; cases hrc0
        have hcl : rc.closed = false := by simpa [hsa] using hcl
        show Inv { s with cells := s.cells.set s.root { rc with closed := true }, senderAlive := false }
        refine inv_setCell h hrc ?_ ?_ ?_ ?_ ?_ ?_ ?_ ?_ ?_
        · rfl
        · rfl
        · exact Nat.le_refl _
        · exact Nat.le_refl _
        · intro p pc hp; simp [hpar] at hp
        · intro d hd
          rw [hcl] at hd
          exact link_close hd
        · intro hne; exact absurd rfl hne
        · intro _; rfl
        · intro hne; exact absurd rfl hne
      · simp at hs
    · simp at hs
  | fwdTake c =>
    simp only [step] at hs
    split at hs
    · rename_i cell hc
      split at hs
      · rename_i p hp
        split at hs
        · rename_i pc hpc
          split at hs
          · rename_i hcond
            simp only [Option.some.injEq] at hs; subst hs
            rw [updCell_eq hc]
            have hcr : c ≠ s.root := by
              intro hcr; subst hcr
              obtain ⟨rc0, hrc0, hpar, _⟩ := h.rootOk
              rw [hc] at hrc0; cases hrc0; simp [hpar] at hp
            refine inv_setCell h hc ?_ ?_ ?_ ?_ ?_ ?_ ?_ ?_ ?_
            · rfl
            · rfl
            · exact Nat.le_refl _
            · exact Nat.le_refl _
            · intro p' pc' hp' hpc' hl
              rw [hp] at hp'; cases hp'
              rw [hpc] at hpc'; cases hpc'
              exact link_take hl (by simpa using hcond.1) hcond.2.1
            · intro d hd; exact hd
            · intro _; exact (h.leRoot c cell hc).1
            · intro hcr'; exact absurd hcr' hcr
            · intro _; rfl
          · simp at hs
        · simp at hs
      · simp at hs
    · simp at hs
  | fwdSend c =>
    simp only [step] at hs
    split at hs
    · rename_i cell hc
      split at hs
      · rename_i v hv
        simp only [Option.some.injEq] at hs; subst hs
        rw [updCell_eq hc]
        refine inv_setCell h hc ?_ ?_ ?_ ?_ ?_ ?_ ?_ ?_ ?_
        · rfl
        · rfl
        · exact Nat.le_refl _
        · exact Nat.le_refl _
        · intro p' pc' hp' hpc' hl; exact link_send hl hv
        · intro d hd; exact hd
        · intro _; exact (h.leRoot c cell hc).1
        · intro hcr
          obtain ⟨rc0, hrc0, _, hcl⟩ := h.rootOk
          rw [← hcr, hc] at hrc0; cases hrc0
          exact hcl
        · intro _; rfl
      · simp at hs
    · simp at hs
  | fwdExit c =>
    simp only [step] at hs
    split at hs
    · rename_i cell hc
      split at hs
      · rename_i p hp
        split at hs
        · rename_i pc hpc
          split at hs
          · rename_i hcond
            simp only [Option.some.injEq] at hs; subst hs
            rw [updCell_eq hc]
            have hcr : c ≠ s.root := by
              intro hcr; subst hcr
              obtain ⟨rc0, hrc0, hpar, _⟩ := h.rootOk
              rw [hc] at hrc0; cases hrc0; simp [hpar] at hp
            refine inv_setCell h hc ?_ ?_ ?_ ?_ ?_ ?_ ?_ ?_ ?_
            · rfl
            · rfl
            · exact Nat.le_refl _
            · exact Nat.le_refl _
            · intro p' pc' hp' hpc' hl
              rw [hp] at hp'; cases hp'
              rw [hpc] at hpc'; cases hpc'
              rw [hcond.2.2.2] at hl ⊢
              exact link_exit hl hcond.2.1 hcond.2.2.1
            · intro d hd; exact hd
            · intro _; exact (h.leRoot c cell hc).1
            · intro hcr'; exact absurd hcr' hcr
            · intro _; rfl
          · simp at hs
        · simp at hs
      · simp at hs
    · simp at hs
  | store c =>
    simp only [step] at hs
    split at hs
    · rename_i cell hc
      split at hs
      · rename_i p v rest hp hw
        simp only [Option.some.injEq] at hs; subst hs
        rw [updCell_eq hc]
        obtain ⟨pc, hpc, hd, hl⟩ := h.parentSome c cell p hc hp
        have hcr : c ≠ s.root := by
          intro hcr; subst hcr
          obtain ⟨rc0, hrc0, hpar, _⟩ := h.rootOk
          rw [hc] at hrc0; cases hrc0; simp [hpar] at hp
        obtain ⟨hl', hle1, hle2⟩ := link_store hl hw
        have hcl : cell.closed = false := by
          cases hcc : cell.closed with
          | false => rfl
          | true => have := (hl.closed hcc).2; simp [hw] at this
        refine inv_setCell h hc ?_ ?_ ?_ ?_ ?_ ?_ ?_ ?_ ?_
        · rfl
        · rfl
        · exact hle1
        · simp
        · intro p' pc' hp' hpc' hl2
          exact (link_store hl2 hw).1
        · intro d hd
          rw [hcl] at hd
          simp only [hcl]
          exact link_bump hd hle1
        · intro _; exact Nat.le_trans hle2 (h.leRoot p pc hpc).1
        · intro hcr'; exact absurd hcr' hcr
        · intro _; rfl
      · simp at hs
    · simp at hs
  | storeEof c =>
    simp only [step] at hs
    split at hs
    · rename_i cell hc
      split at hs
      · rename_i hcond
        simp only [Option.some.injEq] at hs; subst hs
        rw [updCell_eq hc]
        have hcr : c ≠ s.root := by
          intro hcr; subst hcr
          obtain ⟨rc0, hrc0, hpar, _⟩ := h.rootOk
          rw [hc] at hrc0; cases hrc0; exact hcond.2.2.2 hpar
        have hcl : cell.closed = false := by simpa using hcond.2.2.1
        refine inv_setCell h hc ?_ ?_ ?_ ?_ ?_ ?_ ?_ ?_ ?_
        · rfl
        · rfl
        · exact Nat.le_refl _
        · exact Nat.le_refl _
        · intro p' pc' hp' hpc' hl; exact link_eof hl hcond.1 hcond.2.1
        · intro d hd
          rw [hcl] at hd
          exact link_close hd
        · intro _; exact (h.leRoot c cell hc).1
        · intro hcr'; exact absurd hcr' hcr
        · intro _; rfl
      · simp at hs
    · simp at hs
  | observe r upd =>
    simp only [step] at hs
    split at hs
    · rename_i rc hr
      split at hs
      · rename_i cell hc
        split at hs
        · rename_i ha
          simp only [Option.some.injEq] at hs; subst hs
          rw [updRcv_eq hr]
          obtain ⟨h1, h2, h3⟩ := h.rcvOk r rc hr
          obtain ⟨c2, hc2, hs2, ho2⟩ := h3 ha
          rw [hc] at hc2; cases hc2
          apply inv_setRcv h
          refine ⟨?_, ?_, fun _ => ⟨cell, hc, ?_, ?_⟩⟩
          · rw [List.pairwise_append]
            exact ⟨h1, by simp, fun a ha' b hb => by simp at hb; subst hb; exact ho2 a ha'⟩
          · intro o ho
            simp only [List.mem_append, List.mem_singleton] at ho
            rcases ho with ho | rfl
            · exact h2 o ho
            · exact (h.leRoot _ cell hc).1
          · show (if upd = true then cell.ver else rc.seen) ≤ cell.ver
            split
            · exact Nat.le_refl _
            · exact hs2
          · intro o ho
            simp only [List.mem_append, List.mem_singleton] at ho
            rcases ho with ho | rfl
            · exact ho2 o ho
            · exact Nat.le_refl _
        · simp at hs
      · simp at hs
    · simp at hs
  | changedOk r =>
    simp only [step] at hs
    split at hs
    · rename_i rc hr
      split at hs
      · rename_i cell hc
        split at hs
        · rename_i hcond
          simp only [Option.some.injEq] at hs; subst hs
          rw [updRcv_eq hr]
          obtain ⟨h1, h2, h3⟩ := h.rcvOk r rc hr
          obtain ⟨c2, hc2, hs2, ho2⟩ := h3 hcond.1
          rw [hc] at hc2; cases hc2
          apply inv_setRcv h
          exact ⟨h1, h2, fun _ => ⟨cell, hc, Nat.le_refl _, ho2⟩⟩
        · simp at hs
      · simp at hs
    · simp at hs
  | changedErr r =>
    simp only [step] at hs
    split at hs
    · split at hs
      · split at hs
        · simp only [Option.some.injEq] at hs; subst hs; exact h
        · simp at hs
      · simp at hs
    · simp at hs
  | clone r =>
    simp only [step] at hs
    split at hs
    · rename_i rc hr
      split at hs
      · simp only [Option.some.injEq] at hs; subst hs
        exact inv_pushRcv h (h.rcvOk r rc hr)
      · simp at hs
    · simp at hs
  | subscribe =>
    simp only [step] at hs
    split at hs
    · rename_i rc hrc
      split at hs
      · simp only [Option.some.injEq] at hs; subst hs
        apply inv_pushRcv h
        exact ⟨by simp, by simp, fun _ => ⟨rc, hrc, Nat.le_refl _, by simp⟩⟩
      · simp at hs
    · simp at hs
  | transfer r =>
    simp only [step] at hs
    split at hs
    · rename_i rc hr
      split at hs
      · rename_i cell hc
        split at hs
        · rename_i ha
          simp only [Option.some.injEq] at hs; subst hs
          exact inv_transfer h hr hc ha
        · simp at hs
      · simp at hs
    · simp at hs
  | transferSender =>
    simp only [step] at hs
    split at hs
    · rename_i rc hrc
      split at hs
      · rename_i hsa
        simp only [Option.some.injEq] at hs; subst hs
        exact inv_transferSender h hrc hsa
      · simp at hs
    · simp at hs
  | dropRcv r =>
    simp only [step] at hs
    split at hs
    · rename_i rc hr
      split at hs
      · simp only [Option.some.injEq] at hs; subst hs
        rw [updRcv_eq hr]
        obtain ⟨h1, h2, _⟩ := h.rcvOk r rc hr
        apply inv_setRcv h
        exact ⟨h1, h2, fun ha => by simp at ha⟩
      · simp at hs
    · simp at hs

theorem inv_run {s : State} (h : Inv s) (ls : List Label) : Inv (run s ls) := by
  induction ls generalizing s with
  | nil => exact h
  | cons l ls ih =>
    simp only [run]
    split
    · rename_i s' hs; exact ih (inv_step h hs)
    · exact ih h

theorem inv_reachable {s : State} (h : Reachable s) : Inv s := by
  obtain ⟨ls, rfl⟩ := h
  exact inv_run inv_init ls

/-- In a quiescent state every cell, at any depth, holds the root's value and closed flag (induction on depth). -/
theorem quiescent_cell {s : State} (hinv : Inv s) (hq : Quiescent s) :
    ∀ (k : Nat) (c : Nat) (cell : Cell), s.cells[c]? = some cell → (cell.depth - rootDepth s).toNat = k →
      cell.val = lastSent s ∧ cell.closed = !s.senderAlive := by
  intro k
  induction k using Nat.strongRecOn with
  | ind k ih =>
    intro c cell hc hk
    obtain ⟨rc, hrc, hrp, hrcl⟩ := hinv.rootOk
    cases hp : cell.parent with
    | none =>
      have := hinv.parentNone c cell hc hp
      subst this
      rw [hc] at hrc; cases hrc
      exact ⟨(lastSent_eq hc).symm, hrcl⟩
    | some p =>
      obtain ⟨pc, hpc, hd, hl⟩ := hinv.parentSome c cell p hc hp
      have hdp := (hinv.leRoot p pc hpc).2
      have ihp := ih (pc.depth - rootDepth s).toNat (by omega) p pc hpc rfl
      -- what quiescence says about this hop
      have q1 := hq (.fwdSend c) rfl
      have q2 := hq (.store c) rfl
      have q3 := hq (.fwdTake c) rfl
      have q4 := hq (.fwdExit c) rfl
      have q5 := hq (.storeEof c) rfl
      simp only [step, hc, hp, hpc] at q1 q2 q3 q4 q5
      have hh : cell.hold = none := by
        cases hh : cell.hold with
        | none => rfl
        | some v => simp [hh] at q1
      have hw : cell.wire = [] := by
        cases hw : cell.wire with
        | nil => rfl
        | cons v rest => simp [hw] at q2
      simp only [hh, hw] at q3 q4 q5
      have hlq := link_quiescent hl hh hw
        (by
          cases hfd : cell.fdone with
          | true => exact Or.inl rfl
          | false =>
            right
            by_cases hv : pc.ver = cell.fseen
            · exact hv
            · simp [hfd, hv] at q3)
        (by
          rintro ⟨hfd, hv, hcl⟩
          simp [hfd, hv, hcl] at q4)
        (by
          intro hfd
          cases hcl : cell.closed with
          | true => rfl
          | false => simp [hfd, hcl] at q5)
      exact ⟨hlq.1.trans ihp.1, hlq.2.trans ihp.2⟩


end Remoc.Watch
