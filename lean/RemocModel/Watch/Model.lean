/-
M_watch — model of `remoc::rch::watch` (mod.rs, sender.rs, receiver.rs at the pinned commit).

Real code, in short.  A watch channel is a `tokio::sync::watch` cell: a value, a version counter that
is bumped by every store, a `closed` flag (the Tokio sender is gone); every receiver keeps the version
it has `seen`.  `changed()` returns `Ok` as soon as `version ≠ seen` (and marks it seen), and only if
the version is unchanged does it look at `closed` (`Err`): *version before closed*.

Sending a `Receiver` to another endpoint (`Serialize for Receiver`): a clone of the Tokio receiver is
taken and `borrow_and_update()` on it yields the snapshot `data` that travels with the port number
(mark seen + read value in one block).  The remote side (`Deserialize`) creates a *new* cell
initialised with `data` and spawns `recv_impl`; the local side spawns `send_impl` with the clone:
    loop { rx.changed().await?;                        -- wait for change
           let v = rx.borrow_and_update().clone();     -- mark seen + read, same block
           remote_tx.send(v).await }                   -- over the port (may wait for credits)
`recv_impl`: `remote_rx.recv().await` → `tx.send(value)` into the new cell; at end of stream the Tokio
sender is dropped (cell closed).  When `changed()` returns `Err` (upstream closed and everything seen)
`send_impl` exits, which closes the port after the data already queued.
Sending the `Sender` to another endpoint is the mirror image: a new cell is created *there*,
initialised with the current value, and becomes the upstream of the old cell.

Model.  A forest position is a `Cell`; every non-root cell has a `parent` (its upstream cell) and owns
the forwarder state of its hop (`fseen`, `hold`, `wire`, `fdone`).  Values are modelled by their send
index (0 = initial value, k = k-th successful `send`); the root cell's value is therefore the index of
the last value sent.  One label per await-free block.  A `send` that fails (Tokio refuses to store
when no receiver exists) changes nothing and is not a label.  No Mathlib.
-/
namespace Remoc.Watch

structure Cell where
  val : Nat := 0                -- send index of the value held
  ver : Nat := 0                -- Tokio version counter
  closed : Bool := false        -- the Tokio sender of this cell has been dropped
  parent : Option Nat := none   -- upstream cell; `none` for the cell the remoc `Sender` writes to
  depth : Int := 0              -- ghost: hops to the root (relative)
  -- the hop from `parent` to this cell
  fseen : Nat := 0              -- version of the parent seen by the forwarder's receiver
  hold : Option Nat := none     -- value read by `send_impl`, `remote_tx.send(value).await` in progress
  wire : List Nat := []         -- values in the port (sent, not yet stored), oldest first
  fdone : Bool := false         -- `send_impl` has exited (upstream closed), the port is closed behind `wire`
  deriving DecidableEq, Repr, Inhabited

structure Rcv where
  cell : Nat
  seen : Nat
  alive : Bool := true
  obs : List Nat := []          -- ghost: every value this receiver (and those it was cloned from) observed
  deriving DecidableEq, Repr, Inhabited

structure State where
  cells : List Cell := [{}]
  root : Nat := 0               -- index of the cell the `Sender` writes to
  senderAlive : Bool := true
  rcvs : List Rcv := [{ cell := 0, seen := 0 }]   -- `watch::channel(init)` returns one receiver
  deriving DecidableEq, Repr, Inhabited

def init : State := {}

inductive Label where
  | send                      -- `Sender::send` returning Ok / `send_replace` / `send_modify`
  | dropSender                -- the `Sender` is dropped (without having been transferred)
  | fwdTake (c : Nat)         -- forwarder of cell c: `changed()` = Ok, `borrow_and_update()` (mark seen + read)
  | fwdSend (c : Nat)         -- forwarder of cell c: `remote_tx.send(value).await` completes
  | fwdExit (c : Nat)         -- forwarder of cell c: `changed()` = Err (upstream closed, nothing unseen): exits
  | store (c : Nat)           -- `recv_impl` of cell c: next value of the port stored into the cell
  | storeEof (c : Nat)        -- `recv_impl` of cell c: end of stream, the cell's Tokio sender is dropped
  | observe (r : Nat) (upd : Bool)  -- `borrow` (upd = false) / `borrow_and_update`, `wait_for` hit, stream item (upd = true)
  | changedOk (r : Nat)       -- `changed()` = Ok on receiver r (marks seen)
  | changedErr (r : Nat)      -- `changed()` = Err(Closed) on receiver r
  | clone (r : Nat)           -- `Receiver::clone`
  | subscribe                 -- `Sender::subscribe`
  | transfer (r : Nat)        -- receiver r is serialized and deserialized at another endpoint (one more hop)
  | transferSender            -- the `Sender` is serialized and deserialized at another endpoint
  | dropRcv (r : Nat)
  deriving DecidableEq, Repr

/-- labels the runtime performs on its own (spawned tasks) -/
def Label.internal : Label → Bool
  | .fwdTake _ | .fwdSend _ | .fwdExit _ | .store _ | .storeEof _ => true
  | _ => false

def updCell (s : State) (c : Nat) (f : Cell → Cell) : State :=
  match s.cells[c]? with
  | some cell => { s with cells := s.cells.set c (f cell) }
  | none => s

def updRcv (s : State) (r : Nat) (f : Rcv → Rcv) : State :=
  match s.rcvs[r]? with
  | some rc => { s with rcvs := s.rcvs.set r (f rc) }
  | none => s

def step (s : State) : Label → Option State
  | .send =>
    match s.cells[s.root]? with
    | some rc =>
      if s.senderAlive then some (updCell s s.root fun _ => { rc with val := rc.val + 1, ver := rc.ver + 1 }) else none
    | none => none
  | .dropSender =>
    match s.cells[s.root]? with
    | some rc =>
      if s.senderAlive then some { updCell s s.root (fun _ => { rc with closed := true }) with senderAlive := false } else none
    | none => none
  | .fwdTake c =>
    match s.cells[c]? with
    | some cell =>
      match cell.parent with
      | some p =>
        match s.cells[p]? with
        | some pc =>
          if !cell.fdone ∧ cell.hold = none ∧ pc.ver ≠ cell.fseen then
            some (updCell s c fun _ => { cell with fseen := pc.ver, hold := some pc.val })
          else none
        | none => none
      | none => none
    | none => none
  | .fwdSend c =>
    match s.cells[c]? with
    | some cell =>
      match cell.hold with
      | some v => some (updCell s c fun _ => { cell with hold := none, wire := cell.wire ++ [v] })
      | none => none
    | none => none
  | .fwdExit c =>
    match s.cells[c]? with
    | some cell =>
      match cell.parent with
      | some p =>
        match s.cells[p]? with
        | some pc =>
          -- version first, then the closed flag
          if !cell.fdone ∧ cell.hold = none ∧ pc.ver = cell.fseen ∧ pc.closed then
            some (updCell s c fun _ => { cell with fdone := true })
          else none
        | none => none
      | none => none
    | none => none
  | .store c =>
    match s.cells[c]? with
    | some cell =>
      match cell.parent, cell.wire with
      | some _, v :: rest => some (updCell s c fun _ => { cell with val := v, ver := cell.ver + 1, wire := rest })
      | _, _ => none
    | none => none
  | .storeEof c =>
    match s.cells[c]? with
    | some cell =>
      if cell.fdone ∧ cell.wire = [] ∧ !cell.closed ∧ cell.parent ≠ none then
        some (updCell s c fun _ => { cell with closed := true })
      else none
    | none => none
  | .observe r upd =>
    match s.rcvs[r]? with
    | some rc =>
      match s.cells[rc.cell]? with
      | some cell =>
        if rc.alive then
          some (updRcv s r fun _ => { rc with obs := rc.obs ++ [cell.val], seen := if upd then cell.ver else rc.seen })
        else none
      | none => none
    | none => none
  | .changedOk r =>
    match s.rcvs[r]? with
    | some rc =>
      match s.cells[rc.cell]? with
      | some cell => if rc.alive ∧ cell.ver ≠ rc.seen then some (updRcv s r fun _ => { rc with seen := cell.ver }) else none
      | none => none
    | none => none
  | .changedErr r =>
    match s.rcvs[r]? with
    | some rc =>
      match s.cells[rc.cell]? with
      | some cell => if rc.alive ∧ cell.ver = rc.seen ∧ cell.closed then some s else none
      | none => none
    | none => none
  | .clone r =>
    match s.rcvs[r]? with
    | some rc => if rc.alive then some { s with rcvs := s.rcvs ++ [rc] } else none
    | none => none
  | .subscribe =>
    match s.cells[s.root]? with
    | some rc =>
      if s.senderAlive then some { s with rcvs := s.rcvs ++ [{ cell := s.root, seen := rc.ver }] } else none
    | none => none
  | .transfer r =>
    match s.rcvs[r]? with
    | some rc =>
      match s.cells[rc.cell]? with
      | some cell =>
        if rc.alive then
          -- snapshot with mark-seen on a clone: the new cell starts at the current value, its forwarder has
          -- seen the current version; the receiver at the other endpoint is a fresh one on the new cell
          let nc : Cell := { val := cell.val, parent := some rc.cell, depth := cell.depth + 1, fseen := cell.ver }
          some { s with cells := s.cells ++ [nc],
                        rcvs := s.rcvs.set r { rc with cell := s.cells.length, seen := 0 } }
        else none
      | none => none
    | none => none
  | .transferSender =>
    match s.cells[s.root]? with
    | some rc =>
      if s.senderAlive then
        -- a new upstream cell at the other endpoint, initialised with the current value; the old root
        -- becomes its downstream (forwarder receiver created together with the cell: has seen version 0)
        let nc : Cell := { val := rc.val, depth := rc.depth - 1 }
        some { s with cells := (s.cells.set s.root { rc with parent := some s.cells.length, fseen := 0, hold := none,
                                                              wire := [], fdone := false }) ++ [nc],
                      root := s.cells.length }
      else none
    | none => none
  | .dropRcv r =>
    match s.rcvs[r]? with
    | some rc => if rc.alive then some (updRcv s r fun _ => { rc with alive := false }) else none
    | none => none

def run (s : State) : List Label → State
  | [] => s
  | l :: ls => match step s l with
    | some s' => run s' ls
    | none => run s ls

def Reachable (s : State) : Prop := ∃ ls, run init ls = s

/-- no spawned task can make progress -/
def Quiescent (s : State) : Prop := ∀ l, l.internal = true → step s l = none

/-- index of the last value sent -/
def lastSent (s : State) : Nat := (s.cells[s.root]?.map (·.val)).getD 0

end Remoc.Watch
