import RemocModel.Watch.Model
/-
The invariant of one hop of M_watch (upstream cell → forwarder → port → downstream cell) and its
preservation by the blocks of the forwarder, of `recv_impl`, and by changes of the upstream cell.
-/
namespace Remoc.Watch

/-- the pipeline of a hop, oldest first: value in the cell, values in the port, value held by the forwarder -/
def Cell.chain (c : Cell) : List Nat := c.val :: (c.wire ++ c.hold.toList)

/-- the newest value that has entered the hop -/
def Cell.newest (c : Cell) : Nat :=
  match c.hold with
  | some v => v
  | none => c.wire.getLast?.getD c.val

/-- Hop invariant, relative to the upstream cell's value `pv`, version `pver`, closed flag `pcl`. -/
structure Link (pv pver : Nat) (pcl : Bool) (c : Cell) : Prop where
  sorted : c.chain.Pairwise (· ≤ ·)
  le : ∀ v ∈ c.chain, v ≤ pv
  seenLe : c.fseen ≤ pver
  upToDate : c.fseen = pver → c.newest = pv
  done : c.fdone = true → c.fseen = pver ∧ pcl = true ∧ c.hold = none
  closed : c.closed = true → c.fdone = true ∧ c.wire = []

/-- a freshly created downstream cell: snapshot value, forwarder has seen the snapshot's version -/
theorem link_new (pv pver : Nat) (pcl : Bool) (d : Int) (par : Option Nat) :
    Link pv pver pcl { val := pv, parent := par, depth := d, fseen := pver } := by
  refine ⟨by simp [Cell.chain], by simp [Cell.chain], Nat.le_refl _, fun _ => by simp [Cell.newest], ?_, ?_⟩ <;> simp

/-- `changed()` = Ok; `borrow_and_update()`: mark seen and read in one block -/
theorem link_take {pv pver : Nat} {pcl : Bool} {c : Cell} (h : Link pv pver pcl c)
    (hd : c.fdone = false) (hh : c.hold = none) :
    Link pv pver pcl { c with fseen := pver, hold := some pv } := by
  obtain ⟨h1, h2, h3, h4, h5, h6⟩ := h
  refine ⟨?_, ?_, Nat.le_refl _, fun _ => by simp [Cell.newest], by simp [hd], ?_⟩
  · simp only [Cell.chain, hh, Option.toList_none, List.append_nil] at h1 h2
    simp only [Cell.chain, Option.toList_some]
    rw [← List.cons_append, List.pairwise_append]
    refine ⟨h1, by simp, ?_⟩
    intro a ha b hb
    simp only [List.mem_singleton] at hb; subst hb
    exact h2 a ha
  · simp only [Cell.chain, hh, Option.toList_none, List.append_nil] at h2
    intro v hv
    simp only [Cell.chain, Option.toList_some, List.mem_cons, List.mem_append, List.mem_singleton,
      List.not_mem_nil, or_false] at hv
    rcases hv with rfl | hv | rfl
    · exact h2 _ (by simp)
    · exact h2 _ (by simp [hv])
    · exact Nat.le_refl _
  · intro hc; have := h6 hc; simp [hd] at this

/-- `remote_tx.send(value).await` completes: the held value enters the port -/
theorem link_send {pv pver : Nat} {pcl : Bool} {c : Cell} {v : Nat} (h : Link pv pver pcl c)
    (hh : c.hold = some v) :
    Link pv pver pcl { c with hold := none, wire := c.wire ++ [v] } := by
  obtain ⟨h1, h2, h3, h4, h5, h6⟩ := h
  have hch : ({ c with hold := none, wire := c.wire ++ [v] } : Cell).chain = c.chain := by
    simp [Cell.chain, hh]
  refine ⟨by rw [hch]; exact h1, by rw [hch]; exact h2, h3, ?_, ?_, ?_⟩
  · intro hs; have := h4 hs; simpa [Cell.newest, hh] using this
  · intro hd; have := h5 hd; simp [hh] at this
  · intro hc; have := (h5 (h6 hc).1).2.2; simp [hh] at this

/-- `changed()` = Err: upstream closed and its current version already seen -/
theorem link_exit {pv pver : Nat} {c : Cell} (h : Link pv pver true c)
    (hh : c.hold = none) (hs : pver = c.fseen) :
    Link pv pver true { c with fdone := true } := by
  obtain ⟨h1, h2, h3, h4, h5, h6⟩ := h
  exact ⟨h1, h2, h3, h4, fun _ => ⟨hs.symm, rfl, hh⟩, fun hc => ⟨rfl, (h6 hc).2⟩⟩

/-- `recv_impl` stores the next value of the port -/
theorem link_store {pv pver : Nat} {pcl : Bool} {c : Cell} {v : Nat} {rest : List Nat} (h : Link pv pver pcl c)
    (hw : c.wire = v :: rest) :
    Link pv pver pcl { c with val := v, ver := c.ver + 1, wire := rest } ∧ c.val ≤ v ∧ v ≤ pv := by
  obtain ⟨h1, h2, h3, h4, h5, h6⟩ := h
  simp only [Cell.chain, hw, List.cons_append, List.pairwise_cons] at h1
  have hle : v ≤ pv := h2 v (by simp [Cell.chain, hw])
  refine ⟨⟨?_, ?_, h3, ?_, h5, ?_⟩, h1.1 v (by simp), hle⟩
  · simpa [Cell.chain] using h1.2
  · intro x hx
    apply h2 x
    simp only [Cell.chain, List.mem_cons, List.mem_append] at hx ⊢
    rcases hx with rfl | hx | hx
    · right; left; simp [hw]
    · right; left; simp [hw, hx]
    · right; right; exact hx
  · intro hs
    have := h4 hs
    simp only [Cell.newest, hw] at this ⊢
    cases hh : c.hold with
    | some x => simpa [hh] using this
    | none =>
      simp only [hh] at this ⊢
      cases rest with
      | nil => simpa using this
      | cons y ys =>
        simp only [List.getLast?_cons_cons] at this
        cases hl : (y :: ys).getLast? with
        | none => simp at hl
        | some z => simpa [hl] using this
  · intro hc; have := (h6 hc).2; simp [hw] at this

/-- `recv_impl` sees the end of the stream -/
theorem link_eof {pv pver : Nat} {pcl : Bool} {c : Cell} (h : Link pv pver pcl c)
    (hd : c.fdone = true) (hw : c.wire = []) :
    Link pv pver pcl { c with closed := true } := by
  obtain ⟨h1, h2, h3, h4, h5, h6⟩ := h
  exact ⟨h1, h2, h3, h4, h5, fun _ => ⟨hd, hw⟩⟩

/-- the upstream cell gets a newer value (send at the root, store further down) -/
theorem link_bump {pv pv' pver : Nat} {c : Cell} (h : Link pv pver false c) (hle : pv ≤ pv') :
    Link pv' (pver + 1) false c := by
  obtain ⟨h1, h2, h3, h4, h5, h6⟩ := h
  refine ⟨h1, fun v hv => Nat.le_trans (h2 v hv) hle, by omega, fun hs => by omega, ?_, h6⟩
  intro hd; have := (h5 hd).2.1; simp at this

/-- the upstream cell is closed -/
theorem link_close {pv pver : Nat} {c : Cell} (h : Link pv pver false c) : Link pv pver true c := by
  obtain ⟨h1, h2, h3, h4, h5, h6⟩ := h
  refine ⟨h1, h2, h3, h4, ?_, h6⟩
  intro hd; have := (h5 hd).2.1; simp at this

/-- nothing left to do on a hop: the downstream cell holds the upstream value and mirrors its closed flag -/
theorem link_quiescent {pv pver : Nat} {pcl : Bool} {c : Cell} (h : Link pv pver pcl c)
    (hh : c.hold = none) (hw : c.wire = [])
    (htake : c.fdone = true ∨ pver = c.fseen)
    (hexit : ¬ (c.fdone = false ∧ pver = c.fseen ∧ pcl = true))
    (heof : c.fdone = true → c.closed = true) :
    c.val = pv ∧ c.closed = pcl := by
  obtain ⟨h1, h2, h3, h4, h5, h6⟩ := h
  have hs : c.fseen = pver := by
    rcases htake with hd | hs
    · exact (h5 hd).1
    · exact hs.symm
  have hv := h4 hs
  simp only [Cell.newest, hh, hw, List.getLast?_nil, Option.getD_none] at hv
  refine ⟨hv, ?_⟩
  cases hd : c.fdone with
  | true => rw [heof hd, (h5 hd).2.1]
  | false =>
    cases hcl : c.closed with
    | true => have := (h6 hcl).1; simp [hd] at this
    | false =>
      cases pcl with
      | false => rfl
      | true => exact absurd ⟨hd, hs.symm, rfl⟩ hexit

end Remoc.Watch
