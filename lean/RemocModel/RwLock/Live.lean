import RemocModel.RwLock.Safe

/-!
Progress invariants of M_rwlock: who is responsible for the next step of every waiting task.
`w_empty` is the one fact that holds only for the repaired code (`variant = fixed`): a fetch
that holds the cache's write half while it waits for the owner does not keep a `Value` alive.
-/

namespace Remoc.RwLock

def ROp.fetched : ROp → Bool
  | .held .. | .done | .lost => true
  | _ => false

def WOp.inCommitPhase : WOp → Bool
  | .granted .. | .held .. | .commitSent .. | .dropped | .lost => true
  | _ => false

def WOp.inDropPhase : WOp → Bool
  | .queued .. | .lost => true
  | _ => false

structure Live (s : State) : Prop where
  mon_alive : ∀ c cp, s.cache c = some cp → s.mon cp.src = .watching c ∨ s.mon cp.src = .wantW c
  want_seen : ∀ k c, s.mon k = .wantW c → s.invSeen k = true
  copy_vgen : ∀ c cp, s.cache c = some cp → s.vgen cp.src = some cp.gen
  flight_vgen : ∀ k c cp, s.rop k = .reply c cp → s.vgen k = some cp.gen
  copy_fetched : ∀ c cp, s.cache c = some cp → (s.rop cp.src).fetched = true
  phase_commit : ∀ k, s.phase = .waitCommit k → (s.wop k).inCommitPhase = true
  phase_drop : ∀ k, s.phase = .waitDrop k → (s.wop k).inDropPhase = true
  wq_state : ∀ k, k ∈ s.wq → (s.wop k).inDropPhase = true
  wq_nodup : s.wq.Nodup
  phase_notin : ∀ k, (s.phase = .waitDrop k ∨ s.phase = .waitCommit k) → k ∉ s.wq
  wq_mem : ∀ k e, s.wop k = .queued e → k ∈ s.wq ∨ s.phase = .waitDrop k
  rq_mem : ∀ k c, s.rop k = .queued c → k ∈ s.rq
  w_empty : s.variant = .fixed → ∀ k c, (s.rop k).holdsW c = true → s.cache c = none

theorem live_init (cfg : Cfg) : Live (init cfg) := by
  constructor <;> simp [init, ROp.holdsW]

theorem loseR_fetched {cep : Nat → Nat} {e : Nat} {r : ROp} (h : r.fetched = true) : (loseR cep e r).fetched = true := by
  rcases loseR_cases cep e r with ⟨h1, _⟩ | ⟨h1, _⟩ <;> rw [h1] <;> first | exact h | simp [ROp.fetched]

theorem loseW_inCommit {e : Nat} {w : WOp} (h : w.inCommitPhase = true) : (loseW e w).inCommitPhase = true := by
  rcases loseW_cases e w with ⟨h1, _⟩ | ⟨h1, _⟩ <;> rw [h1] <;> first | exact h | simp [WOp.inCommitPhase]

theorem loseW_inDrop {e : Nat} {w : WOp} (h : w.inDropPhase = true) : (loseW e w).inDropPhase = true := by
  rcases loseW_cases e w with ⟨h1, _⟩ | ⟨h1, _⟩ <;> rw [h1] <;> first | exact h | simp [WOp.inDropPhase]

section
variable {s s' : State} {l : Label}

theorem live_mon_alive (hs : Safe s) (hl : Live s) (h : Step s l s') :
    ∀ c cp, s'.cache c = some cp → s'.mon cp.src = .watching c ∨ s'.mon cp.src = .wantW c := by
  obtain ⟨l1, l2, l3, l4, l5, l6, l7, l8, l9, l10, l11, l12, l13⟩ := hl
  obtain ⟨s1, s2, s3, s4, s5, s6, s7, s8⟩ := hs
  cases h <;> dsimp only <;> try assumption
  case lose e he hle =>
    intro c cp hc
    by_cases hce : s.cep c = e
    · simp [hce] at hc
    · simp [hce] at hc
      have := l1 c cp hc
      rcases loseM_cases s.cep e (s.mon cp.src) with ⟨h1, _⟩ | ⟨_, c', h2, h3⟩
      · rw [h1]; exact this
      · rcases this with h | h <;> rw [h] at h2 <;> simp [Mon.cacheOf] at h2 <;> subst h2 <;> exact absurd h3 hce
  all_goals grind [upd, copyValid, ROp.fetched]

theorem live_want_seen (hl : Live s) (h : Step s l s') :
    ∀ k c, s'.mon k = .wantW c → s'.invSeen k = true := by
  obtain ⟨l1, l2, l3, l4, l5, l6, l7, l8, l9, l10, l11, l12, l13⟩ := hl
  cases h <;> dsimp only <;> try assumption
  case lose e he hle =>
    intro k c hk
    exact l2 k c (loseM_eq hk (by simp)).1
  all_goals grind [upd]

theorem live_copy_vgen (hs : Safe s) (hl : Live s) (h : Step s l s') :
    ∀ c cp, s'.cache c = some cp → s'.vgen cp.src = some cp.gen := by
  obtain ⟨l1, l2, l3, l4, l5, l6, l7, l8, l9, l10, l11, l12, l13⟩ := hl
  obtain ⟨s1, s2, s3, s4, s5, s6, s7, s8⟩ := hs
  cases h <;> dsimp only <;> try assumption
  all_goals grind [upd, ROp.fetched]

theorem live_flight_vgen (hl : Live s) (h : Step s l s') :
    ∀ k c cp, s'.rop k = .reply c cp → s'.vgen k = some cp.gen := by
  obtain ⟨l1, l2, l3, l4, l5, l6, l7, l8, l9, l10, l11, l12, l13⟩ := hl
  cases h <;> dsimp only <;> try assumption
  case lose e he hle =>
    intro k c cp hk
    exact l4 k c cp (loseR_eq hk (by simp)).1
  all_goals grind [upd]

theorem live_copy_fetched (hs : Safe s) (hl : Live s) (h : Step s l s') :
    ∀ c cp, s'.cache c = some cp → (s'.rop cp.src).fetched = true := by
  obtain ⟨l1, l2, l3, l4, l5, l6, l7, l8, l9, l10, l11, l12, l13⟩ := hl
  obtain ⟨s1, s2, s3, s4, s5, s6, s7, s8⟩ := hs
  cases h <;> dsimp only <;> try assumption
  case lose e he hle =>
    intro c cp hc
    by_cases hce : s.cep c = e
    · simp [hce] at hc
    · simp [hce] at hc; exact loseR_fetched (l5 c cp hc)
  all_goals grind [upd, ROp.fetched]

theorem live_phase_commit (hs : Safe s) (hl : Live s) (h : Step s l s') :
    ∀ k, s'.phase = .waitCommit k → (s'.wop k).inCommitPhase = true := by
  obtain ⟨l1, l2, l3, l4, l5, l6, l7, l8, l9, l10, l11, l12, l13⟩ := hl
  obtain ⟨s1, s2, s3, s4, s5, s6, s7, s8⟩ := hs
  cases h <;> dsimp only <;> try assumption
  case lose e he hle =>
    intro k hk; exact loseW_inCommit (l6 k hk)
  case oAllDroppedGone k hp hn hq =>
    intro k' hk'; cases hk'
    have h7 := l7 k hp
    cases hw : s.wop k with
    | queued e => exact absurd hw (hq e)
    | lost => rfl
    | _ => rw [hw] at h7; simp [WOp.inDropPhase] at h7
  all_goals grind [upd, WOp.inCommitPhase, WOp.inDropPhase, WOp.hasValue]

theorem live_phase_drop (hs : Safe s) (hl : Live s) (h : Step s l s') :
    ∀ k, s'.phase = .waitDrop k → (s'.wop k).inDropPhase = true := by
  obtain ⟨l1, l2, l3, l4, l5, l6, l7, l8, l9, l10, l11, l12, l13⟩ := hl
  obtain ⟨s1, s2, s3, s4, s5, s6, s7, s8⟩ := hs
  cases h <;> dsimp only <;> try assumption
  case lose e he hle =>
    intro k hk; exact loseW_inDrop (l7 k hk)
  all_goals grind [upd, WOp.inCommitPhase, WOp.inDropPhase, WOp.hasValue]

theorem live_wq_state (hs : Safe s) (hl : Live s) (h : Step s l s') :
    ∀ k, k ∈ s'.wq → (s'.wop k).inDropPhase = true := by
  obtain ⟨l1, l2, l3, l4, l5, l6, l7, l8, l9, l10, l11, l12, l13⟩ := hl
  obtain ⟨s1, s2, s3, s4, s5, s6, s7, s8⟩ := hs
  cases h <;> dsimp only <;> try assumption
  case lose e he hle =>
    intro k hk; exact loseW_inDrop (l8 k hk)
  all_goals grind [upd, WOp.inCommitPhase, WOp.inDropPhase, WOp.hasValue]

theorem live_wq_nodup (hl : Live s) (h : Step s l s') : s'.wq.Nodup := by
  obtain ⟨l1, l2, l3, l4, l5, l6, l7, l8, l9, l10, l11, l12, l13⟩ := hl
  cases h <;> dsimp only <;> try assumption
  all_goals grind [upd, WOp.inCommitPhase, WOp.inDropPhase, WOp.hasValue, List.nodup_append, List.nodup_cons]

theorem live_phase_notin (hl : Live s) (h : Step s l s') :
    ∀ k, (s'.phase = .waitDrop k ∨ s'.phase = .waitCommit k) → k ∉ s'.wq := by
  obtain ⟨l1, l2, l3, l4, l5, l6, l7, l8, l9, l10, l11, l12, l13⟩ := hl
  cases h <;> dsimp only <;> try assumption
  all_goals grind [upd, WOp.inCommitPhase, WOp.inDropPhase, WOp.hasValue, List.nodup_cons]

theorem live_wq_mem (hl : Live s) (h : Step s l s') :
    ∀ k e, s'.wop k = .queued e → k ∈ s'.wq ∨ s'.phase = .waitDrop k := by
  obtain ⟨l1, l2, l3, l4, l5, l6, l7, l8, l9, l10, l11, l12, l13⟩ := hl
  cases h <;> dsimp only <;> try assumption
  case lose e he hle =>
    intro k e' hk
    exact l11 k e' (loseW_eq hk (by simp)).1
  all_goals grind [upd, WOp.inCommitPhase, WOp.inDropPhase, WOp.hasValue]

theorem live_rq_mem (hl : Live s) (h : Step s l s') :
    ∀ k c, s'.rop k = .queued c → k ∈ s'.rq := by
  obtain ⟨l1, l2, l3, l4, l5, l6, l7, l8, l9, l10, l11, l12, l13⟩ := hl
  cases h <;> dsimp only <;> try assumption
  case lose e he hle =>
    intro k c hk
    exact l12 k c (loseR_eq hk (by simp)).1
  all_goals grind [upd]

theorem live_w_empty (hb : Bnd s) (hs : Safe s) (hl : Live s) (h : Step s l s') :
    s'.variant = .fixed → ∀ k c, (s'.rop k).holdsW c = true → s'.cache c = none := by
  obtain ⟨l1, l2, l3, l4, l5, l6, l7, l8, l9, l10, l11, l12, l13⟩ := hl
  obtain ⟨s1, s2, s3, s4, s5, s6, s7, s8⟩ := hs
  have hwf := wfree_iff hb
  cases h <;> dsimp only <;> try assumption
  case lose e he hle =>
    intro hv k c hk
    obtain ⟨hk', hc⟩ := loseR_holdsW hk
    simp [hc]; exact l13 hv k c hk'
  all_goals grind [upd, ROp.holdsW]

theorem live_step (hb : Bnd s) (hs : Safe s) (hl : Live s) (h : Step s l s') : Live s' :=
  ⟨live_mon_alive hs hl h, live_want_seen hl h, live_copy_vgen hs hl h, live_flight_vgen hl h,
   live_copy_fetched hs hl h, live_phase_commit hs hl h, live_phase_drop hs hl h, live_wq_state hs hl h,
   live_wq_nodup hl h, live_phase_notin hl h, live_wq_mem hl h, live_rq_mem hl h, live_w_empty hb hs hl h⟩

end

theorem live_reach {cfg : Cfg} {s : State} (h : Reachable cfg s) : Live s :=
  reach_induction (live_init cfg) (fun _ _ _ hr hl hst => live_step (bnd_reach hr) (safe_reach hr) hl hst) s h

end Remoc.RwLock
