import RemocModel.RwLock.Live

/-!
Quiescence of M_rwlock: the executable test `quiescentB` is sound for reachable states, and the
progress argument — in a quiescent state of the repaired variant in which no guard is held, no
request is pending.
-/

namespace Remoc.RwLock

/-- operation id an internal label refers to -/
def Label.opId : Label → Option Nat
  | .rCheck k | .rLockW k | .rSend k | .rRecv k | .mDeliver k | .mWake k | .mClear k
  | .wSend k | .wRecv k | .wConfirm k => some k
  | _ => none

theorem mem_internalLabels (n : Nat) (l : Label) :
    l ∈ internalLabels n ↔ l.internal = true ∧ ∀ k, l.opId = some k → k < n := by
  cases l <;> simp [internalLabels, Label.internal, Label.opId]

/-- an enabled internal label only mentions operation ids in use -/
theorem step_id_lt {s s' : State} {l : Label} (hb : Bnd s) (h : Step s l s') :
    ∀ k, l.opId = some k → k < s.nk := by
  intro k0 hk0
  cases h <;> simp only [Label.opId, Option.some.injEq, reduceCtorEq] at hk0 <;> subst hk0
  all_goals first
    | (refine hb.rop_lt _ ?_; simp [*]; done)
    | (refine hb.wop_lt _ ?_; simp [*]; done)
    | (refine hb.mon_lt _ ?_; simp [*]; done)
    | (refine hb.vgen_lt _ ?_; simp [*]; done)

theorem quiescentB_sound {s : State} (hb : Bnd s) (h : quiescentB s = true) : Quiescent s := by
  intro l hl
  cases hs : step s l with
  | none => rfl
  | some s' =>
    have hlt := step_id_lt hb (step_sound hs)
    have hmem : l ∈ internalLabels s.nk := (mem_internalLabels s.nk l).2 ⟨hl, hlt⟩
    simp only [quiescentB, List.all_eq_true] at h
    have := h l hmem
    simp [hs] at this

theorem quiescentB_complete {s : State} (h : Quiescent s) : quiescentB s = true := by
  simp only [quiescentB, List.all_eq_true]
  intro l hl
  rw [h l ((mem_internalLabels s.nk l).1 hl).1]; rfl

end Remoc.RwLock
