/-
M_rwlock: the remote read/write lock of `remoc/src/robj/rw_lock/{owner,rw_lock,msg}.rs`.

A labelled transition system `step : State → Label → Option State`; one label = one await-free
block of the real code (`Owner::owner_task`, `ReadLock::fetch`, the cache monitor task spawned by
`fetch`, `RwLock::write`, `WriteGuard::commit` / drop) or one environment action (start of a
read / write, release of a guard, commit, drop, loss of an endpoint's connection).
A schedule is a `List Label`; "all interleavings, task schedules and delivery schedules" is
`∀ ls : List Label`.

What is modelled, by code location:

* owner (`owner_task`): the authoritative value `val`, the generation `gen` (index of the current
  pair of `dropped_tx/rx` + `invalid_tx/rx` channels), the two request queues and the phase of the
  write branch: `waitDrop w` (value invalidated, `dropped_rx.recv()` loop waiting until every clone
  of `dropped_tx`, i.e. every outstanding copy of the current generation, is gone) and
  `waitCommit w` (fresh channels created, value handed to the writer, `new_value_rx.await`).
  The outstanding copies are *computed* from where `Value`s live (caches and replies in flight);
  this is what the closing of the `dropped` channel measures.
* a lock's cache (`ReadLock.cache : Arc<tokio::sync::RwLock<Option<Value>>>`, shared by local
  clones, fresh for every lock received from a remote endpoint): `cache c : Option Copy`.  The
  state of the tokio `RwLock` is computed from the program counters of the tasks that hold it:
  read half = read guards (`ROp.held`), write half = a `fetch` between `cache.write()` and the
  downgrade (`holdW`, `queued`, `reply`).  The monitor holds the write half only inside one
  await-free block.  Acquisition order among waiters is left open (superset of tokio's FIFO).
* `Value.is_valid`: the local view of the invalidation flag, `invSeen k` for the `Value`
  obtained by fetch `k` (the watch receiver of a remote copy learns about `invalid_tx.send(true)`
  later than the owner sets it: label `mDeliver`).
* `variant`: the one place where the repaired code differs from the pinned code (finding F5):
  what `fetch` does right after `self.cache.write().await` (label `rLockW`).
  `pinned`: nothing – the stale `Value` stays in the cache while the fetch waits for the owner.
  `fixed` : re-check validity (return the cached value if valid), otherwise clear the cache.

Ghost: `hist` (newest event first) records begin/acquire/release of guards with observed values
and the instants at which the owner stores a committed value.

No Mathlib imports: the driver links as an executable.
-/

namespace Remoc.RwLock

inductive Variant where
  | pinned | fixed
deriving DecidableEq, Repr

/-- A `Value<T>` (msg.rs): the data plus the channels of its generation. `src` = the fetch that
obtained it (identifies its invalidation receiver and the monitor task spawned for it). -/
structure Copy where
  gen : Nat
  val : Nat
  src : Nat
deriving DecidableEq, Repr

/-- program counter of one `read()` call (`ReadLock::fetch`) -/
inductive ROp where
  | idle
  | start  (c : Nat)              -- called; next block: `cache.read()`, validity check
  | wantW  (c : Nat)              -- waiting in `cache.write().await`
  | holdW  (c : Nat)              -- cache write half held; `req_tx.send(..)` not yet done
  | queued (c : Nat)              -- request in the owner's read queue; waiting in `value_rx.await`
  | reply  (c : Nat) (cp : Copy)  -- the owner has answered; the `Value` is in flight
  | held   (c : Nat) (v : Nat)    -- read guard held by the caller
  | done                          -- guard released
  | lost                          -- the endpoint's connection was lost
deriving DecidableEq, Repr

/-- program counter of one `write()` … `commit()`/drop sequence -/
inductive WOp where
  | idle
  | start (e : Nat)                 -- called; `req_tx.send(..)` not yet done
  | queued (e : Nat)                -- request in the owner's write queue / being processed
  | granted (e : Nat) (v : Nat)     -- owner sent the value (`value_tx.send`), in flight
  | held (e : Nat) (v : Nat)        -- write guard held by the caller
  | commitSent (e : Nat) (nv : Nat) -- `commit()` called, new value on its way to the owner
  | stored (e : Nat) (nv : Nat)     -- owner stored it, confirmation in flight
  | done (nv : Nat)                 -- `commit()` returned `Ok`
  | dropped                         -- guard dropped without commit
  | lost
deriving DecidableEq, Repr

/-- the monitor task spawned by fetch `k` -/
inductive Mon where
  | none
  | watching (c : Nat)   -- `invalid_rx.changed().await`
  | wantW (c : Nat)      -- `cache_lock.write().await`
deriving DecidableEq, Repr

inductive Phase where
  | idle
  | waitDrop (w : Nat)
  | waitCommit (w : Nat)
deriving DecidableEq, Repr

inductive Ev where
  | rBegin (k : Nat)
  | rAcq (k v : Nat)
  | rRel (k : Nat)
  | wBegin (k : Nat)
  | wAcq (k v : Nat)
  | wRel (k : Nat)          -- `commit()` called or guard dropped
  | commit (k nv : Nat)     -- the owner stored `nv`
  | confirmed (k nv : Nat)  -- `commit()` returned `Ok`
  | lose (e : Nat)
deriving DecidableEq, Repr

structure State where
  variant : Variant
  /-- number of operation ids / cache ids in use (static) -/
  nk : Nat
  nc : Nat
  /-- endpoint on which a cache lives (static); endpoint 0 is the owner's -/
  cep : Nat → Nat
  /-- initial value (static) -/
  val0 : Nat
  val : Nat
  gen : Nat
  phase : Phase
  wq : List Nat
  rq : List Nat
  cache : Nat → Option Copy
  rop : Nat → ROp
  wop : Nat → WOp
  mon : Nat → Mon
  /-- generation of the `Value` created for read request `k` -/
  vgen : Nat → Option Nat
  /-- the invalidation has reached the `Value` fetched by `k` (its `invalid_rx` shows `true`) -/
  invSeen : Nat → Bool
  lostEp : Nat → Bool
  hist : List Ev

inductive Label where
  -- environment
  | rStart (k c : Nat)
  | rRelease (k : Nat)
  | wStart (k e : Nat)
  | wCommit (k nv : Nat)
  | wDrop (k : Nat)
  | lose (e : Nat)
  -- ReadLock::fetch
  | rCheck (k : Nat)
  | rLockW (k : Nat)
  | rSend (k : Nat)
  | rRecv (k : Nat)
  -- invalidation delivery and the monitor task
  | mDeliver (k : Nat)
  | mWake (k : Nat)
  | mClear (k : Nat)
  -- RwLock::write / WriteGuard::commit
  | wSend (k : Nat)
  | wRecv (k : Nat)
  | wConfirm (k : Nat)
  -- owner_task
  | oRead
  | oWrite
  | oAllDropped
  | oStore
  | oAbort
deriving DecidableEq, Repr

def Label.internal : Label → Bool
  | .rStart .. | .rRelease .. | .wStart .. | .wCommit .. | .wDrop .. | .lose .. => false
  | _ => true

def upd {α : Type} (f : Nat → α) (i : Nat) (v : α) : Nat → α := fun j => if j = i then v else f j

@[simp] theorem upd_same {α : Type} (f : Nat → α) (i : Nat) (v : α) : upd f i v i = v := by simp [upd]
@[simp] theorem upd_other {α : Type} (f : Nat → α) (i j : Nat) (v : α) (h : j ≠ i) : upd f i v j = f j := by
  simp [upd, h]

/-- cache on which a read operation currently acts -/
def ROp.cacheOf : ROp → Option Nat
  | .start c | .wantW c | .holdW c | .queued c | .reply c _ | .held c _ => some c
  | _ => none

def ROp.holdsW (c : Nat) : ROp → Bool
  | .holdW c' | .queued c' | .reply c' _ => c' == c
  | _ => false

def ROp.holdsR (c : Nat) : ROp → Bool
  | .held c' _ => c' == c
  | _ => false

/-- the `Value` a read operation carries in flight -/
def ROp.flight : ROp → Option Copy
  | .reply _ cp => some cp
  | _ => none

def WOp.epOf : WOp → Option Nat
  | .start e | .queued e | .granted e _ | .held e _ | .commitSent e _ | .stored e _ => some e
  | _ => none

def Mon.cacheOf : Mon → Option Nat
  | .watching c | .wantW c => some c
  | .none => Option.none

/-- nobody holds the write half of cache `c`'s tokio lock -/
def wfree (s : State) (c : Nat) : Bool := (List.range s.nk).all fun k => !(s.rop k).holdsW c

/-- nobody holds a read guard on cache `c` -/
def noReaders (s : State) (c : Nat) : Bool := (List.range s.nk).all fun k => !(s.rop k).holdsR c

/-- every clone of the current generation's `dropped_tx` is gone: no cache holds a copy of the
current generation and none is in flight (`dropped_rx.recv()` returns `None`) -/
def noCopies (s : State) : Bool :=
  ((List.range s.nc).all fun c => match s.cache c with
    | some cp => cp.gen != s.gen
    | none => true) &&
  ((List.range s.nk).all fun k => match (s.rop k).flight with
    | some cp => cp.gen != s.gen
    | none => true)

/-- the owner has invalidated generation `g` (`invalid_tx.send(true)` or channel replaced) -/
def srcInvalid (s : State) (g : Nat) : Bool :=
  g < s.gen || (g == s.gen && match s.phase with | .waitDrop _ => true | _ => false)

def copyValid (s : State) (cp : Copy) : Bool := !s.invSeen cp.src

def loseR (cep : Nat → Nat) (e : Nat) (r : ROp) : ROp :=
  match r.cacheOf with
  | some c => if cep c = e then .lost else r
  | none => r

def loseW (e : Nat) (w : WOp) : WOp :=
  match w.epOf with
  | some e' => if e' = e then .lost else w
  | none => w

def loseM (cep : Nat → Nat) (e : Nat) (m : Mon) : Mon :=
  match m.cacheOf with
  | some c => if cep c = e then .none else m
  | none => m

def step (s : State) : Label → Option State
  -- ---------------------------------------------------------------- environment
  | .rStart k c =>
    if k < s.nk ∧ c < s.nc ∧ s.rop k = .idle ∧ s.wop k = .idle ∧ s.lostEp (s.cep c) = false then
      some { s with rop := upd s.rop k (.start c), hist := .rBegin k :: s.hist }
    else none
  | .rRelease k =>
    match s.rop k with
    | .held _ _ => some { s with rop := upd s.rop k .done, hist := .rRel k :: s.hist }
    | _ => none
  | .wStart k e =>
    if k < s.nk ∧ s.wop k = .idle ∧ s.rop k = .idle ∧ s.lostEp e = false then
      some { s with wop := upd s.wop k (.start e), hist := .wBegin k :: s.hist }
    else none
  | .wCommit k nv =>
    match s.wop k with
    | .held e _ => some { s with wop := upd s.wop k (.commitSent e nv), hist := .wRel k :: s.hist }
    | _ => none
  | .wDrop k =>
    match s.wop k with
    | .held _ _ => some { s with wop := upd s.wop k .dropped, hist := .wRel k :: s.hist }
    | _ => none
  | .lose e =>
    if e ≠ 0 ∧ s.lostEp e = false then
      some { s with
        lostEp := upd s.lostEp e true
        cache := fun c => if s.cep c = e then none else s.cache c
        rop := fun k => loseR s.cep e (s.rop k)
        wop := fun k => loseW e (s.wop k)
        mon := fun k => loseM s.cep e (s.mon k)
        hist := .lose e :: s.hist }
    else none
  -- ---------------------------------------------------------------- ReadLock::fetch
  -- `cache.read().await`; valid cached value ⇒ read guard, otherwise go for the write half
  | .rCheck k =>
    match s.rop k with
    | .start c =>
      if wfree s c then
        match s.cache c with
        | some cp =>
          if copyValid s cp then
            some { s with rop := upd s.rop k (.held c cp.val), hist := .rAcq k cp.val :: s.hist }
          else some { s with rop := upd s.rop k (.wantW c) }
        | none => some { s with rop := upd s.rop k (.wantW c) }
      else none
    | _ => none
  -- `cache.write().await` returns.  THE DIVERGENT STEP (finding F5).
  | .rLockW k =>
    match s.rop k with
    | .wantW c =>
      if wfree s c ∧ noReaders s c then
        match s.variant with
        | .pinned => some { s with rop := upd s.rop k (.holdW c) }
        | .fixed =>
          match s.cache c with
          | some cp =>
            if copyValid s cp then
              some { s with rop := upd s.rop k (.held c cp.val), hist := .rAcq k cp.val :: s.hist }
            else some { s with rop := upd s.rop k (.holdW c), cache := upd s.cache c none }
          | none => some { s with rop := upd s.rop k (.holdW c), cache := upd s.cache c none }
      else none
    | _ => none
  -- `req_tx.send(ReadRequest { value_tx }).await` completes
  | .rSend k =>
    match s.rop k with
    | .holdW c => some { s with rop := upd s.rop k (.queued c), rq := s.rq ++ [k] }
    | _ => none
  -- `value_rx.await` returns: spawn the monitor, store the value, downgrade to a read guard
  | .rRecv k =>
    match s.rop k with
    | .reply c cp =>
      some { s with
        rop := upd s.rop k (.held c cp.val)
        cache := upd s.cache c (some cp)
        mon := upd s.mon k (.watching c)
        hist := .rAcq k cp.val :: s.hist }
    | _ => none
  -- ---------------------------------------------------------------- invalidation, monitor
  -- the invalidation of its generation reaches the `Value` fetched by `k`
  | .mDeliver k =>
    match s.vgen k with
    | some g =>
      if srcInvalid s g ∧ s.invSeen k = false then some { s with invSeen := upd s.invSeen k true } else none
    | none => none
  | .mWake k =>
    match s.mon k with
    | .watching c => if s.invSeen k then some { s with mon := upd s.mon k (.wantW c) } else none
    | _ => none
  -- `cache_lock.write().await` returns; remove the cached value if it is invalid; task ends
  | .mClear k =>
    match s.mon k with
    | .wantW c =>
      if wfree s c ∧ noReaders s c then
        match s.cache c with
        | some cp =>
          if copyValid s cp then some { s with mon := upd s.mon k .none }
          else some { s with mon := upd s.mon k .none, cache := upd s.cache c none }
        | none => some { s with mon := upd s.mon k .none }
      else none
    | _ => none
  -- ---------------------------------------------------------------- RwLock::write, commit
  | .wSend k =>
    match s.wop k with
    | .start e => some { s with wop := upd s.wop k (.queued e), wq := s.wq ++ [k] }
    | _ => none
  | .wRecv k =>
    match s.wop k with
    | .granted e v => some { s with wop := upd s.wop k (.held e v), hist := .wAcq k v :: s.hist }
    | _ => none
  | .wConfirm k =>
    match s.wop k with
    | .stored _ nv => some { s with wop := upd s.wop k (.done nv), hist := .confirmed k nv :: s.hist }
    | _ => none
  -- ---------------------------------------------------------------- owner_task
  -- read branch of the select: answer with the current value and the generation's channels
  | .oRead =>
    match s.phase, s.rq with
    | .idle, k :: rest =>
      match s.rop k with
      | .queued c =>
        some { s with rq := rest, rop := upd s.rop k (.reply c ⟨s.gen, s.val, k⟩), vgen := upd s.vgen k (some s.gen) }
      | _ => some { s with rq := rest }
    | _, _ => none
  -- write branch: take the request, `invalid_tx.send(true)`, `drop(dropped_tx)`
  | .oWrite =>
    match s.phase, s.wq with
    | .idle, k :: rest => some { s with wq := rest, phase := .waitDrop k }
    | _, _ => none
  -- `dropped_rx.recv()` returned `None`: new channels, `value_tx.send(value.clone())`
  | .oAllDropped =>
    match s.phase with
    | .waitDrop k =>
      if noCopies s then
        match s.wop k with
        | .queued e =>
          some { s with gen := s.gen + 1, phase := .waitCommit k, wop := upd s.wop k (.granted e s.val) }
        | _ => some { s with gen := s.gen + 1, phase := .waitCommit k }
      else none
    | _ => none
  -- `new_value_rx.await` = `Ok(nv)`: store, confirm
  | .oStore =>
    match s.phase with
    | .waitCommit k =>
      match s.wop k with
      | .commitSent e nv =>
        some { s with val := nv, phase := .idle, wop := upd s.wop k (.stored e nv), hist := .commit k nv :: s.hist }
      | _ => none
    | _ => none
  -- `new_value_rx.await` = `Err`: the guard (or its endpoint) is gone, the value stays
  | .oAbort =>
    match s.phase with
    | .waitCommit k =>
      match s.wop k with
      | .dropped | .lost => some { s with phase := .idle }
      | _ => none
    | _ => none

def run (s : State) : List Label → Option State
  | [] => some s
  | l :: ls => match step s l with
    | some s' => run s' ls
    | none => none

structure Cfg where
  variant : Variant
  nk : Nat
  nc : Nat
  cep : Nat → Nat
  val0 : Nat

def init (cfg : Cfg) : State :=
  { variant := cfg.variant, nk := cfg.nk, nc := cfg.nc, cep := cfg.cep, val0 := cfg.val0, val := cfg.val0
    gen := 0, phase := .idle, wq := [], rq := []
    cache := fun _ => none, rop := fun _ => .idle, wop := fun _ => .idle, mon := fun _ => .none
    vgen := fun _ => none, invSeen := fun _ => false, lostEp := fun _ => false, hist := [] }

def Reachable (cfg : Cfg) (s : State) : Prop := ∃ ls, run (init cfg) ls = some s

/-- nothing the runtime would do on its own is enabled -/
def Quiescent (s : State) : Prop := ∀ l, l.internal = true → step s l = none

/-- value stored by the most recent commit (history is newest first) -/
def lastCommit (v0 : Nat) : List Ev → Nat
  | [] => v0
  | .commit _ nv :: _ => nv
  | _ :: rest => lastCommit v0 rest

/-- a read request that has been started and has neither returned nor been lost -/
def ROp.pending : ROp → Bool
  | .start _ | .wantW _ | .holdW _ | .queued _ | .reply _ _ => true
  | _ => false

/-- a write request / commit that has been started and has neither returned nor been lost -/
def WOp.pending : WOp → Bool
  | .start _ | .queued _ | .granted _ _ | .commitSent _ _ | .stored _ _ => true
  | _ => false

def ROp.isHeld : ROp → Bool
  | .held _ _ => true
  | _ => false

def WOp.isHeld : WOp → Bool
  | .held _ _ => true
  | _ => false

/-- all internal labels over operation ids below `n` -/
def internalLabels (n : Nat) : List Label :=
  [.oRead, .oWrite, .oAllDropped, .oStore, .oAbort] ++
  (List.range n).flatMap fun k =>
    [.rCheck k, .rLockW k, .rSend k, .rRecv k, .mDeliver k, .mWake k, .mClear k, .wSend k, .wRecv k, .wConfirm k]

/-- executable quiescence test (sound for reachable states: `quiescentB_sound`) -/
def quiescentB (s : State) : Bool := (internalLabels s.nk).all fun l => (step s l).isNone

end Remoc.RwLock
