import RemocModel.RwLock.Bounds

/-!
Safety invariant of M_rwlock (both variants): outstanding copies always belong to the current
generation and carry the owner's value; none exists while a writer has the value; a read guard
pins the copy in its cache; the cache's write half excludes guards; at most one writer.
-/

namespace Remoc.RwLock

/-- the write operation has been handed the value and the owner is waiting for it -/
def WOp.hasValue : WOp → Bool
  | .granted .. | .held .. | .commitSent .. => true
  | _ => false

structure Safe (s : State) : Prop where
  copy_cur : ∀ c cp, s.cache c = some cp → cp.gen = s.gen ∧ cp.val = s.val ∧ ∀ w, s.phase ≠ .waitCommit w
  flight_cur : ∀ k c cp, s.rop k = .reply c cp →
    cp.gen = s.gen ∧ cp.val = s.val ∧ (∀ w, s.phase ≠ .waitCommit w) ∧ cp.src = k
  held_copy : ∀ k c v, s.rop k = .held c v → ∃ cp, s.cache c = some cp ∧ cp.val = v
  w_noR : ∀ k k' c, (s.rop k).holdsW c = true → (s.rop k').holdsR c = false
  w_uniq : ∀ k k' c, (s.rop k).holdsW c = true → (s.rop k').holdsW c = true → k = k'
  writer_phase : ∀ k, (s.wop k).hasValue = true → s.phase = .waitCommit k
  writer_val : ∀ k e v, (s.wop k = .granted e v ∨ s.wop k = .held e v) → v = s.val
  val_hist : lastCommit s.val0 s.hist = s.val

theorem safe_init (cfg : Cfg) : Safe (init cfg) := by
  constructor <;> simp [init, ROp.holdsW, WOp.hasValue, lastCommit]

theorem safe_copy_cur {s s' : State} {l : Label} (hb : Bnd s) (hs : Safe s) (h : Step s l s') :
    ∀ c cp, s'.cache c = some cp → cp.gen = s'.gen ∧ cp.val = s'.val ∧ ∀ w, s'.phase ≠ .waitCommit w := by
  obtain ⟨s1, s2, s3, s4, s5, s6, s7, s8⟩ := hs
  have hnc := noCopies_iff hb
  cases h <;> dsimp only <;> try assumption
  all_goals grind [upd]

theorem safe_flight_cur {s s' : State} {l : Label} (hb : Bnd s) (hs : Safe s) (h : Step s l s') :
    ∀ k c cp, s'.rop k = .reply c cp →
      cp.gen = s'.gen ∧ cp.val = s'.val ∧ (∀ w, s'.phase ≠ .waitCommit w) ∧ cp.src = k := by
  obtain ⟨s1, s2, s3, s4, s5, s6, s7, s8⟩ := hs
  have hnc := noCopies_iff hb
  cases h <;> dsimp only <;> try assumption
  case lose e he hl =>
    intro k c cp hk
    obtain ⟨hk', _⟩ := loseR_eq hk (by simp)
    exact s2 k c cp hk'
  all_goals grind [upd]

theorem safe_held_copy {s s' : State} {l : Label} (hb : Bnd s) (hs : Safe s) (h : Step s l s') :
    ∀ k c v, s'.rop k = .held c v → ∃ cp, s'.cache c = some cp ∧ cp.val = v := by
  obtain ⟨s1, s2, s3, s4, s5, s6, s7, s8⟩ := hs
  have hnr := noReaders_iff hb
  have hwf := wfree_iff hb
  cases h <;> dsimp only <;> try assumption
  case lose e he hl =>
    intro k c v hk
    obtain ⟨hk', hc⟩ := loseR_eq hk (by simp)
    have := hc c (by simp [ROp.cacheOf])
    simp [this]; exact s3 k c v hk'
  all_goals grind [upd, ROp.holdsR, ROp.holdsW]

theorem safe_w_noR {s s' : State} {l : Label} (hb : Bnd s) (hs : Safe s) (h : Step s l s') :
    ∀ k k' c, (s'.rop k).holdsW c = true → (s'.rop k').holdsR c = false := by
  obtain ⟨s1, s2, s3, s4, s5, s6, s7, s8⟩ := hs
  have hnr := noReaders_iff hb
  have hwf := wfree_iff hb
  cases h <;> dsimp only <;> try assumption
  case lose e he hl =>
    intro k k' c hk
    obtain ⟨hk', hc⟩ := loseR_holdsW hk
    cases hr : (loseR s.cep e (s.rop k')).holdsR c with
    | false => rfl
    | true => obtain ⟨hr', _⟩ := loseR_holdsR hr; rw [s4 k k' c hk'] at hr'; cases hr'
  all_goals grind [upd, ROp.holdsR, ROp.holdsW]

theorem safe_w_uniq {s s' : State} {l : Label} (hb : Bnd s) (hs : Safe s) (h : Step s l s') :
    ∀ k k' c, (s'.rop k).holdsW c = true → (s'.rop k').holdsW c = true → k = k' := by
  obtain ⟨s1, s2, s3, s4, s5, s6, s7, s8⟩ := hs
  have hwf := wfree_iff hb
  cases h <;> dsimp only <;> try assumption
  case lose e he hl =>
    intro k k' c hk hk'
    exact s5 k k' c (loseR_holdsW hk).1 (loseR_holdsW hk').1
  all_goals grind [upd, ROp.holdsR, ROp.holdsW]

theorem safe_writer_phase {s s' : State} {l : Label} (hs : Safe s) (h : Step s l s') :
    ∀ k, (s'.wop k).hasValue = true → s'.phase = .waitCommit k := by
  obtain ⟨s1, s2, s3, s4, s5, s6, s7, s8⟩ := hs
  cases h <;> dsimp only <;> try assumption
  case lose e he hl =>
    intro k hk
    rcases loseW_cases e (s.wop k) with ⟨h1, _⟩ | ⟨h1, _⟩
    · rw [h1] at hk; exact s6 k hk
    · rw [h1] at hk; simp [WOp.hasValue] at hk
  all_goals grind [upd, WOp.hasValue]

theorem safe_writer_val {s s' : State} {l : Label} (hs : Safe s) (h : Step s l s') :
    ∀ k e v, (s'.wop k = .granted e v ∨ s'.wop k = .held e v) → v = s'.val := by
  obtain ⟨s1, s2, s3, s4, s5, s6, s7, s8⟩ := hs
  cases h <;> dsimp only <;> try assumption
  case lose e he hl =>
    intro k e' v hk
    rcases hk with hk | hk
    · exact s7 k e' v (Or.inl (loseW_eq hk (by simp)).1)
    · exact s7 k e' v (Or.inr (loseW_eq hk (by simp)).1)
  all_goals grind [upd, WOp.hasValue]

theorem safe_val_hist {s s' : State} {l : Label} (hs : Safe s) (h : Step s l s') :
    lastCommit s'.val0 s'.hist = s'.val := by
  have s8 := hs.val_hist
  cases h <;> simp [lastCommit] <;> exact s8

theorem safe_step {s s' : State} {l : Label} (hb : Bnd s) (hs : Safe s) (h : Step s l s') : Safe s' :=
  ⟨safe_copy_cur hb hs h, safe_flight_cur hb hs h, safe_held_copy hb hs h, safe_w_noR hb hs h,
   safe_w_uniq hb hs h, safe_writer_phase hs h, safe_writer_val hs h, safe_val_hist hs h⟩

theorem safe_reach {cfg : Cfg} {s : State} (h : Reachable cfg s) : Safe s :=
  reach_induction (safe_init cfg) (fun _ _ _ hr hs hst => safe_step (bnd_reach hr) hs hst) s h

end Remoc.RwLock
