import RemocModel.RwLock.Safe

/-!
History invariants of M_rwlock: every acquisition recorded in the ghost history observed the
value of the most recent commit recorded before it; commit events correspond to stored writes.
-/

namespace Remoc.RwLock

/-- every guard acquisition in the history (newest first) observed the value committed last
before it, and its request had begun before -/
def FreshHist (v0 : Nat) : List Ev → Prop
  | [] => True
  | .rAcq k v :: pre => lastCommit v0 pre = v ∧ .rBegin k ∈ pre ∧ FreshHist v0 pre
  | .wAcq k v :: pre => lastCommit v0 pre = v ∧ .wBegin k ∈ pre ∧ FreshHist v0 pre
  | .rBegin _ :: pre | .rRel _ :: pre | .wBegin _ :: pre | .wRel _ :: pre | .commit _ _ :: pre
  | .confirmed _ _ :: pre | .lose _ :: pre => FreshHist v0 pre

structure HistInv (s : State) : Prop where
  fresh : FreshHist s.val0 s.hist
  r_begun : ∀ k, s.rop k ≠ .idle → .rBegin k ∈ s.hist
  w_begun : ∀ k, s.wop k ≠ .idle → .wBegin k ∈ s.hist
  commit_state : ∀ k nv, .commit k nv ∈ s.hist → (∃ e, s.wop k = .stored e nv) ∨ s.wop k = .done nv ∨ s.wop k = .lost
  stored_commit : ∀ k nv, ((∃ e, s.wop k = .stored e nv) ∨ s.wop k = .done nv) → .commit k nv ∈ s.hist

theorem hist_init (cfg : Cfg) : HistInv (init cfg) := by
  constructor <;> simp [init, FreshHist]

theorem hist_fresh {s s' : State} {l : Label} (hs : Safe s) (hh : HistInv s) (h : Step s l s') :
    FreshHist s'.val0 s'.hist := by
  obtain ⟨h1, h2, h3, h4, h5⟩ := hh
  obtain ⟨s1, s2, s3, s4, s5, s6, s7, s8⟩ := hs
  cases h <;> simp only [FreshHist] <;> try assumption
  all_goals grind

theorem hist_r_begun {s s' : State} {l : Label} (hh : HistInv s) (h : Step s l s') :
    ∀ k, s'.rop k ≠ .idle → .rBegin k ∈ s'.hist := by
  obtain ⟨h1, h2, h3, h4, h5⟩ := hh
  cases h <;> dsimp only <;> try assumption
  case lose e he hl =>
    intro k hk
    rcases loseR_cases s.cep e (s.rop k) with ⟨hc, _⟩ | ⟨_, c, hc, _⟩
    · rw [hc] at hk; simp [h2 k hk]
    · simp; apply h2 k; intro hi; simp [hi, ROp.cacheOf] at hc
  all_goals grind [upd]

theorem hist_w_begun {s s' : State} {l : Label} (hh : HistInv s) (h : Step s l s') :
    ∀ k, s'.wop k ≠ .idle → .wBegin k ∈ s'.hist := by
  obtain ⟨h1, h2, h3, h4, h5⟩ := hh
  cases h <;> dsimp only <;> try assumption
  case lose e he hl =>
    intro k hk
    rcases loseW_cases e (s.wop k) with ⟨hc, _⟩ | ⟨_, hc⟩
    · rw [hc] at hk; simp [h3 k hk]
    · simp; apply h3 k; intro hi; simp [hi, WOp.epOf] at hc
  all_goals grind [upd]

theorem hist_commit_state {s s' : State} {l : Label} (hh : HistInv s) (h : Step s l s') :
    ∀ k nv, .commit k nv ∈ s'.hist →
      (∃ e, s'.wop k = .stored e nv) ∨ s'.wop k = .done nv ∨ s'.wop k = .lost := by
  obtain ⟨h1, h2, h3, h4, h5⟩ := hh
  cases h <;> dsimp only <;> try assumption
  case lose e he hl =>
    intro k nv hk
    simp at hk
    rcases loseW_cases e (s.wop k) with ⟨hc, _⟩ | ⟨hc, _⟩
    · rw [hc]; exact h4 k nv hk
    · rw [hc]; simp
  all_goals grind [upd]

theorem hist_stored_commit {s s' : State} {l : Label} (hh : HistInv s) (h : Step s l s') :
    ∀ k nv, ((∃ e, s'.wop k = .stored e nv) ∨ s'.wop k = .done nv) → .commit k nv ∈ s'.hist := by
  obtain ⟨h1, h2, h3, h4, h5⟩ := hh
  cases h <;> dsimp only <;> try assumption
  case lose e he hl =>
    intro k nv hk
    simp
    apply h5 k nv
    rcases hk with ⟨e', hk⟩ | hk
    · exact Or.inl ⟨e', (loseW_eq hk (by simp)).1⟩
    · exact Or.inr (loseW_eq hk (by simp)).1
  all_goals grind [upd]

theorem hist_step {s s' : State} {l : Label} (hs : Safe s) (hh : HistInv s) (h : Step s l s') : HistInv s' :=
  ⟨hist_fresh hs hh h, hist_r_begun hh h, hist_w_begun hh h, hist_commit_state hh h, hist_stored_commit hh h⟩

theorem hist_reach {cfg : Cfg} {s : State} (h : Reachable cfg s) : HistInv s :=
  reach_induction (hist_init cfg) (fun _ _ _ hr hh hst => hist_step (safe_reach hr) hh hst) s h

end Remoc.RwLock
