import RemocModel.RwLock.Hist
import RemocModel.RwLock.Progress

/-!
Auxiliary lemmas for the C17 theorems: static fields, history surgery, absorbing states.
-/

namespace Remoc.RwLock

theorem step_static {s s' : State} {l : Label} (h : Step s l s') :
    s'.variant = s.variant ∧ s'.nk = s.nk ∧ s'.nc = s.nc ∧ s'.cep = s.cep ∧ s'.val0 = s.val0 := by
  cases h <;> simp

theorem reach_static {cfg : Cfg} {s : State} (h : Reachable cfg s) :
    s.variant = cfg.variant ∧ s.nk = cfg.nk ∧ s.nc = cfg.nc ∧ s.cep = cfg.cep ∧ s.val0 = cfg.val0 :=
  reach_induction (P := fun s => s.variant = cfg.variant ∧ s.nk = cfg.nk ∧ s.nc = cfg.nc ∧ s.cep = cfg.cep ∧ s.val0 = cfg.val0)
    (by simp [init]) (fun _ _ _ _ hp hst => by
      obtain ⟨a, b, c, d, e⟩ := step_static hst
      obtain ⟨a', b', c', d', e'⟩ := hp
      exact ⟨a.trans a', b.trans b', c.trans c', d.trans d', e.trans e'⟩) s h

theorem freshHist_tail (v0 : Nat) (e : Ev) (pre : List Ev) (h : FreshHist v0 (e :: pre)) : FreshHist v0 pre := by
  cases e <;> simp only [FreshHist] at h <;> first | exact h | exact h.2.2

theorem freshHist_suffix (v0 : Nat) (post pre : List Ev) (h : FreshHist v0 (post ++ pre)) : FreshHist v0 pre := by
  induction post with
  | nil => exact h
  | cons e t ih => exact ih (freshHist_tail v0 e _ h)

def Ev.isCommit : Ev → Bool
  | .commit .. => true
  | _ => false

theorem lastCommit_append (v0 : Nat) (post pre : List Ev) (h : ∀ e ∈ post, e.isCommit = false) :
    lastCommit v0 (post ++ pre) = lastCommit v0 pre := by
  induction post with
  | nil => rfl
  | cons e t ih =>
    have he := h e (by simp)
    have ht : ∀ e' ∈ t, e'.isCommit = false := fun e' h' => h e' (by simp [h'])
    cases e <;> simp [Ev.isCommit] at he <;> simp [lastCommit, ih ht]

/-- `dropped`, `done` are final -/
theorem step_dropped {s s' : State} {l : Label} (h : Step s l s') (k : Nat) (hk : s.wop k = .dropped) :
    s'.wop k = .dropped := by
  cases h <;> dsimp only <;> try assumption
  case lose e _ _ =>
    rcases loseW_cases e (s.wop k) with ⟨h1, _⟩ | ⟨_, h2⟩
    · rw [h1]; exact hk
    · rw [hk] at h2; simp [WOp.epOf] at h2
  all_goals grind [upd]

theorem run_dropped {s s' : State} {ls : List Label} (h : run s ls = some s') (k : Nat) (hk : s.wop k = .dropped) :
    s'.wop k = .dropped := by
  induction ls generalizing s with
  | nil => rw [run_nil] at h; cases h; exact hk
  | cons l t ih =>
    rw [run_cons] at h
    cases hs : step s l with
    | none => simp [hs] at h
    | some s1 => simp only [hs] at h; exact ih h (step_dropped (step_sound hs) k hk)

def noGuardsB (s : State) : Bool :=
  (List.range s.nk).all fun k => !(s.rop k).isHeld && !(s.wop k).isHeld

theorem noGuardsB_sound {s : State} (hb : Bnd s) (h : noGuardsB s = true) :
    (∀ k, (s.rop k).isHeld = false) ∧ (∀ k, (s.wop k).isHeld = false) := by
  simp only [noGuardsB, List.all_eq_true, List.mem_range, Bool.and_eq_true, Bool.not_eq_true'] at h
  constructor
  · intro k
    by_cases hk : k < s.nk
    · exact (h k hk).1
    · have : s.rop k = .idle := Classical.byContradiction fun hne => hk (hb.rop_lt k hne)
      simp [this, ROp.isHeld]
  · intro k
    by_cases hk : k < s.nk
    · exact (h k hk).2
    · have : s.wop k = .idle := Classical.byContradiction fun hne => hk (hb.wop_lt k hne)
      simp [this, WOp.isHeld]

end Remoc.RwLock
