import RemocModel.RwLock.Step

/-!
Operation and cache ids in use stay below the static bounds `nk`, `nc`; hence the executable
guards of `step` (`wfree`, `noReaders`, `noCopies`, all ranging over `List.range`) mean what they
say for all ids.
-/

namespace Remoc.RwLock

theorem step_complete {s s' : State} {l : Label} (h : Step s l s') : step s l = some s' := by
  cases h <;> simp_all [step]
  · rename_i k c h1 h2 h3
    cases hc : s.cache c <;> simp_all
  · rename_i k c h1 h2 h3 h4 h5
    cases hc : s.cache c <;> simp_all
  · rename_i k c h1 h2 h3 h4
    cases hc : s.cache c <;> simp_all
  · rename_i k h1 h2
    cases h2 <;> simp_all

theorem step_iff {s s' : State} {l : Label} : step s l = some s' ↔ Step s l s' :=
  ⟨step_sound, step_complete⟩

structure Bnd (s : State) : Prop where
  rop_lt : ∀ k, s.rop k ≠ .idle → k < s.nk
  wop_lt : ∀ k, s.wop k ≠ .idle → k < s.nk
  mon_lt : ∀ k, s.mon k ≠ .none → k < s.nk
  vgen_lt : ∀ k, s.vgen k ≠ none → k < s.nk
  rcache_lt : ∀ k c, (s.rop k).cacheOf = some c → c < s.nc
  cache_lt : ∀ c, s.cache c ≠ none → c < s.nc

theorem loseR_cases (cep : Nat → Nat) (e : Nat) (r : ROp) :
    (loseR cep e r = r ∧ ∀ c, r.cacheOf = some c → cep c ≠ e) ∨
    (loseR cep e r = .lost ∧ ∃ c, r.cacheOf = some c ∧ cep c = e) := by
  unfold loseR
  cases hc : r.cacheOf with
  | none => simp
  | some c => by_cases h : cep c = e <;> simp [h]

theorem loseW_cases (e : Nat) (w : WOp) :
    (loseW e w = w ∧ w.epOf ≠ some e) ∨ (loseW e w = .lost ∧ w.epOf = some e) := by
  unfold loseW
  cases hc : w.epOf with
  | none => simp
  | some e' => by_cases h : e' = e <;> simp [h]

theorem loseM_cases (cep : Nat → Nat) (e : Nat) (m : Mon) :
    (loseM cep e m = m ∧ ∀ c, m.cacheOf = some c → cep c ≠ e) ∨
    (loseM cep e m = .none ∧ ∃ c, m.cacheOf = some c ∧ cep c = e) := by
  unfold loseM
  cases hc : m.cacheOf with
  | none => simp
  | some c => by_cases h : cep c = e <;> simp [h]

theorem loseR_eq {cep : Nat → Nat} {e : Nat} {r r' : ROp} (h : loseR cep e r = r') (hne : r' ≠ .lost) :
    r = r' ∧ ∀ c, r'.cacheOf = some c → cep c ≠ e := by
  rcases loseR_cases cep e r with ⟨h1, h2⟩ | ⟨h1, _⟩
  · rw [h1] at h; subst h; exact ⟨rfl, h2⟩
  · rw [h1] at h; exact absurd h.symm hne

theorem loseW_eq {e : Nat} {w w' : WOp} (h : loseW e w = w') (hne : w' ≠ .lost) :
    w = w' ∧ w'.epOf ≠ some e := by
  rcases loseW_cases e w with ⟨h1, h2⟩ | ⟨h1, _⟩
  · rw [h1] at h; subst h; exact ⟨rfl, h2⟩
  · rw [h1] at h; exact absurd h.symm hne

theorem loseM_eq {cep : Nat → Nat} {e : Nat} {m m' : Mon} (h : loseM cep e m = m') (hne : m' ≠ .none) :
    m = m' ∧ ∀ c, m'.cacheOf = some c → cep c ≠ e := by
  rcases loseM_cases cep e m with ⟨h1, h2⟩ | ⟨h1, _⟩
  · rw [h1] at h; subst h; exact ⟨rfl, h2⟩
  · rw [h1] at h; exact absurd h.symm hne

theorem loseR_holdsW {cep : Nat → Nat} {e c : Nat} {r : ROp} (h : (loseR cep e r).holdsW c = true) :
    r.holdsW c = true ∧ cep c ≠ e := by
  rcases loseR_cases cep e r with ⟨h1, h2⟩ | ⟨h1, _⟩
  · rw [h1] at h; refine ⟨h, ?_⟩
    cases r <;> simp [ROp.holdsW, ROp.cacheOf] at h h2 <;> subst h <;> exact h2
  · rw [h1] at h; simp [ROp.holdsW] at h

theorem loseR_holdsR {cep : Nat → Nat} {e c : Nat} {r : ROp} (h : (loseR cep e r).holdsR c = true) :
    r.holdsR c = true ∧ cep c ≠ e := by
  rcases loseR_cases cep e r with ⟨h1, h2⟩ | ⟨h1, _⟩
  · rw [h1] at h; refine ⟨h, ?_⟩
    cases r <;> simp [ROp.holdsR, ROp.cacheOf] at h h2 <;> subst h <;> exact h2
  · rw [h1] at h; simp [ROp.holdsR] at h

theorem bnd_init (cfg : Cfg) : Bnd (init cfg) := by
  constructor <;> simp [init, ROp.cacheOf]

theorem bnd_step {s s' : State} {l : Label} (hb : Bnd s) (h : Step s l s') : Bnd s' := by
  obtain ⟨h1, h2, h3, h4, h5, h6⟩ := hb
  cases h <;> refine ⟨?_, ?_, ?_, ?_, ?_, ?_⟩ <;> dsimp only <;> try assumption
  all_goals try grind [upd, ROp.cacheOf, loseR, loseW, loseM]
  · intro k hk
    rename_i e _ _
    rcases loseW_cases e (s.wop k) with ⟨h, _⟩ | ⟨h, h'⟩
    · rw [h] at hk; exact h2 k hk
    · apply h2 k; intro hh; rw [hh] at h'; simp [WOp.epOf] at h'
  · intro c hc
    rename_i k c0 cp hr
    by_cases hcc : c = c0
    · subst hcc; exact h5 k c (by simp [hr, ROp.cacheOf])
    · simp [upd, hcc] at hc; exact h6 c hc

theorem run_nil (s : State) : run s [] = some s := rfl

theorem run_cons (s : State) (l : Label) (ls : List Label) :
    run s (l :: ls) = match step s l with | some s' => run s' ls | none => none := rfl

theorem run_snoc {s0 s1 s2 : State} {ls : List Label} {l : Label}
    (h1 : run s0 ls = some s1) (h2 : step s1 l = some s2) : run s0 (ls ++ [l]) = some s2 := by
  induction ls generalizing s0 with
  | nil =>
    rw [run_nil] at h1; cases h1
    simp [run_cons, h2, run_nil]
  | cons a t ih =>
    rw [run_cons] at h1
    simp only [List.cons_append, run_cons]
    cases hs : step s0 a with
    | none => simp [hs] at h1
    | some s' => simp only [hs] at h1 ⊢; exact ih h1

theorem reach_init (cfg : Cfg) : Reachable cfg (init cfg) := ⟨[], rfl⟩

theorem reach_step {cfg : Cfg} {s s' : State} {l : Label} (hr : Reachable cfg s) (h : step s l = some s') :
    Reachable cfg s' := by
  obtain ⟨ls, hr⟩ := hr
  exact ⟨ls ++ [l], run_snoc hr h⟩

/-- Induction principle for reachable states. -/
theorem reach_induction {cfg : Cfg} {P : State → Prop} (h0 : P (init cfg))
    (hstep : ∀ s s' l, Reachable cfg s → P s → Step s l s' → P s') :
    ∀ s, Reachable cfg s → P s := by
  intro s ⟨ls, h⟩
  suffices ∀ (ls : List Label) s0, Reachable cfg s0 → P s0 → run s0 ls = some s → P s from
    this ls _ (reach_init cfg) h0 h
  clear h ls
  intro ls
  induction ls with
  | nil => intro s0 _ hp h; rw [run_nil] at h; cases h; exact hp
  | cons l ls ih =>
    intro s0 hr hp h
    rw [run_cons] at h
    cases hs : step s0 l with
    | none => simp [hs] at h
    | some s1 =>
      simp only [hs] at h
      exact ih s1 (reach_step hr hs) (hstep s0 s1 l hr hp (step_sound hs)) h

theorem bnd_reach {cfg : Cfg} {s : State} (h : Reachable cfg s) : Bnd s :=
  reach_induction (bnd_init cfg) (fun _ _ _ _ hb hs => bnd_step hb hs) s h

theorem wfree_iff {s : State} (hb : Bnd s) (c : Nat) :
    wfree s c = true ↔ ∀ k, (s.rop k).holdsW c = false := by
  simp only [wfree, List.all_eq_true, List.mem_range, Bool.not_eq_true']
  constructor
  · intro h k
    by_cases hk : k < s.nk
    · exact h k hk
    · have : s.rop k = .idle := Classical.byContradiction fun hne => hk (hb.rop_lt k hne)
      simp [this, ROp.holdsW]
  · intro h k _; exact h k

theorem noReaders_iff {s : State} (hb : Bnd s) (c : Nat) :
    noReaders s c = true ↔ ∀ k, (s.rop k).holdsR c = false := by
  simp only [noReaders, List.all_eq_true, List.mem_range, Bool.not_eq_true']
  constructor
  · intro h k
    by_cases hk : k < s.nk
    · exact h k hk
    · have : s.rop k = .idle := Classical.byContradiction fun hne => hk (hb.rop_lt k hne)
      simp [this, ROp.holdsR]
  · intro h k _; exact h k

theorem noCopies_iff {s : State} (hb : Bnd s) :
    noCopies s = true ↔
      (∀ c cp, s.cache c = some cp → cp.gen ≠ s.gen) ∧ (∀ k c cp, s.rop k = .reply c cp → cp.gen ≠ s.gen) := by
  simp only [noCopies, Bool.and_eq_true, List.all_eq_true, List.mem_range]
  constructor
  · rintro ⟨h1, h2⟩
    constructor
    · intro c cp hc
      have hlt : c < s.nc := hb.cache_lt c (by simp [hc])
      have := h1 c hlt
      simp [hc] at this; exact this
    · intro k c cp hr
      have hlt : k < s.nk := hb.rop_lt k (by simp [hr])
      have := h2 k hlt
      simp [hr, ROp.flight] at this; exact this
  · rintro ⟨h1, h2⟩
    constructor
    · intro c _
      cases hc : s.cache c with
      | none => simp
      | some cp => simp; exact h1 c cp hc
    · intro k _
      cases hr : s.rop k <;> simp [ROp.flight]
      rename_i c cp; exact h2 k c cp hr

end Remoc.RwLock
