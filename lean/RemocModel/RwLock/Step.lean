import RemocModel.RwLock.Model

/-!
Relational form of `step`: one constructor per branch, so that invariant proofs do a cheap
`cases` instead of re-splitting the definition of `step` each time.
-/

namespace Remoc.RwLock

inductive Step (s : State) : Label → State → Prop
  | rStart (k c : Nat) : k < s.nk → c < s.nc → s.rop k = .idle → s.wop k = .idle → s.lostEp (s.cep c) = false →
      Step s (.rStart k c) { s with rop := upd s.rop k (.start c), hist := .rBegin k :: s.hist }
  | rRelease (k c v : Nat) : s.rop k = .held c v →
      Step s (.rRelease k) { s with rop := upd s.rop k .done, hist := .rRel k :: s.hist }
  | wStart (k e : Nat) : k < s.nk → s.wop k = .idle → s.rop k = .idle → s.lostEp e = false →
      Step s (.wStart k e) { s with wop := upd s.wop k (.start e), hist := .wBegin k :: s.hist }
  | wCommit (k nv e v : Nat) : s.wop k = .held e v →
      Step s (.wCommit k nv) { s with wop := upd s.wop k (.commitSent e nv), hist := .wRel k :: s.hist }
  | wDrop (k e v : Nat) : s.wop k = .held e v →
      Step s (.wDrop k) { s with wop := upd s.wop k .dropped, hist := .wRel k :: s.hist }
  | lose (e : Nat) : e ≠ 0 → s.lostEp e = false →
      Step s (.lose e) { s with
        lostEp := upd s.lostEp e true
        cache := fun c => if s.cep c = e then none else s.cache c
        rop := fun k => loseR s.cep e (s.rop k)
        wop := fun k => loseW e (s.wop k)
        mon := fun k => loseM s.cep e (s.mon k)
        hist := .lose e :: s.hist }
  | rCheckHit (k c : Nat) (cp : Copy) : s.rop k = .start c → wfree s c = true → s.cache c = some cp →
      copyValid s cp = true →
      Step s (.rCheck k) { s with rop := upd s.rop k (.held c cp.val), hist := .rAcq k cp.val :: s.hist }
  | rCheckNo (k c : Nat) : s.rop k = .start c → wfree s c = true →
      (∀ cp, s.cache c = some cp → copyValid s cp = false) →
      Step s (.rCheck k) { s with rop := upd s.rop k (.wantW c) }
  | rLockWPinned (k c : Nat) : s.rop k = .wantW c → wfree s c = true → noReaders s c = true →
      s.variant = .pinned →
      Step s (.rLockW k) { s with rop := upd s.rop k (.holdW c) }
  | rLockWHit (k c : Nat) (cp : Copy) : s.rop k = .wantW c → wfree s c = true → noReaders s c = true →
      s.variant = .fixed → s.cache c = some cp → copyValid s cp = true →
      Step s (.rLockW k) { s with rop := upd s.rop k (.held c cp.val), hist := .rAcq k cp.val :: s.hist }
  | rLockWClear (k c : Nat) : s.rop k = .wantW c → wfree s c = true → noReaders s c = true →
      s.variant = .fixed → (∀ cp, s.cache c = some cp → copyValid s cp = false) →
      Step s (.rLockW k) { s with rop := upd s.rop k (.holdW c), cache := upd s.cache c none }
  | rSend (k c : Nat) : s.rop k = .holdW c →
      Step s (.rSend k) { s with rop := upd s.rop k (.queued c), rq := s.rq ++ [k] }
  | rRecv (k c : Nat) (cp : Copy) : s.rop k = .reply c cp →
      Step s (.rRecv k) { s with
        rop := upd s.rop k (.held c cp.val)
        cache := upd s.cache c (some cp)
        mon := upd s.mon k (.watching c)
        hist := .rAcq k cp.val :: s.hist }
  | mDeliver (k g : Nat) : s.vgen k = some g → srcInvalid s g = true → s.invSeen k = false →
      Step s (.mDeliver k) { s with invSeen := upd s.invSeen k true }
  | mWake (k c : Nat) : s.mon k = .watching c → s.invSeen k = true →
      Step s (.mWake k) { s with mon := upd s.mon k (.wantW c) }
  | mClearStale (k c : Nat) (cp : Copy) : s.mon k = .wantW c → wfree s c = true → noReaders s c = true →
      s.cache c = some cp → copyValid s cp = false →
      Step s (.mClear k) { s with mon := upd s.mon k .none, cache := upd s.cache c none }
  | mClearKeep (k c : Nat) : s.mon k = .wantW c → wfree s c = true → noReaders s c = true →
      (∀ cp, s.cache c = some cp → copyValid s cp = true) →
      Step s (.mClear k) { s with mon := upd s.mon k .none }
  | wSend (k e : Nat) : s.wop k = .start e →
      Step s (.wSend k) { s with wop := upd s.wop k (.queued e), wq := s.wq ++ [k] }
  | wRecv (k e v : Nat) : s.wop k = .granted e v →
      Step s (.wRecv k) { s with wop := upd s.wop k (.held e v), hist := .wAcq k v :: s.hist }
  | wConfirm (k e nv : Nat) : s.wop k = .stored e nv →
      Step s (.wConfirm k) { s with wop := upd s.wop k (.done nv), hist := .confirmed k nv :: s.hist }
  | oReadServe (k c : Nat) (rest : List Nat) : s.phase = .idle → s.rq = k :: rest → s.rop k = .queued c →
      Step s .oRead { s with rq := rest, rop := upd s.rop k (.reply c ⟨s.gen, s.val, k⟩), vgen := upd s.vgen k (some s.gen) }
  | oReadSkip (k : Nat) (rest : List Nat) : s.phase = .idle → s.rq = k :: rest → (∀ c, s.rop k ≠ .queued c) →
      Step s .oRead { s with rq := rest }
  | oWrite (k : Nat) (rest : List Nat) : s.phase = .idle → s.wq = k :: rest →
      Step s .oWrite { s with wq := rest, phase := .waitDrop k }
  | oAllDroppedGrant (k e : Nat) : s.phase = .waitDrop k → noCopies s = true → s.wop k = .queued e →
      Step s .oAllDropped { s with gen := s.gen + 1, phase := .waitCommit k, wop := upd s.wop k (.granted e s.val) }
  | oAllDroppedGone (k : Nat) : s.phase = .waitDrop k → noCopies s = true → (∀ e, s.wop k ≠ .queued e) →
      Step s .oAllDropped { s with gen := s.gen + 1, phase := .waitCommit k }
  | oStore (k e nv : Nat) : s.phase = .waitCommit k → s.wop k = .commitSent e nv →
      Step s .oStore { s with val := nv, phase := .idle, wop := upd s.wop k (.stored e nv), hist := .commit k nv :: s.hist }
  | oAbort (k : Nat) : s.phase = .waitCommit k → (s.wop k = .dropped ∨ s.wop k = .lost) →
      Step s .oAbort { s with phase := .idle }

theorem step_sound {s s' : State} {l : Label} (h : step s l = some s') : Step s l s' := by
  cases l <;> simp only [step] at h <;> (repeat' split at h) <;>
    simp only [Option.some.injEq, reduceCtorEq] at h <;> subst h
  all_goals first
    | (constructor <;> first | assumption | simp_all | omega)
    | skip

end Remoc.RwLock
