import RemocModel.RwLock.Quiescent

/-!
The progress argument for the repaired variant: in a quiescent state in which no guard is held,
no read or write request (and no commit) is pending.
-/

namespace Remoc.RwLock

theorem Quiescent.not_step {s s' : State} {l : Label} (hq : Quiescent s) (hi : l.internal = true)
    (h : Step s l s') : False := by
  have := step_complete h
  rw [hq l hi] at this
  cases this

theorem no_pending_of_quiescent {s : State} (hb : Bnd s) (hs : Safe s) (hl : Live s)
    (hv : s.variant = .fixed) (hq : Quiescent s)
    (hr : ∀ k, (s.rop k).isHeld = false) (hw : ∀ k, (s.wop k).isHeld = false) :
    ∀ k, (s.rop k).pending = false ∧ (s.wop k).pending = false := by
  obtain ⟨l1, l2, l3, l4, l5, l6, l7, l8, l9, l10, l11, l12, l13⟩ := hl
  obtain ⟨s1, s2, s3, s4, s5, s6, s7, s8⟩ := hs
  -- A: every task whose next block needs nobody else has already run
  have hA1 : ∀ k e, s.wop k ≠ .start e := fun k e h => hq.not_step rfl (Step.wSend k e h)
  have hA2 : ∀ k e v, s.wop k ≠ .granted e v := fun k e v h => hq.not_step rfl (Step.wRecv k e v h)
  have hA3 : ∀ k e v, s.wop k ≠ .stored e v := fun k e v h => hq.not_step rfl (Step.wConfirm k e v h)
  have hA4 : ∀ k c, s.rop k ≠ .holdW c := fun k c h => hq.not_step rfl (Step.rSend k c h)
  have hA5 : ∀ k c cp, s.rop k ≠ .reply c cp := fun k c cp h => hq.not_step rfl (Step.rRecv k c cp h)
  have hnr : ∀ c, noReaders s c = true := fun c => (noReaders_iff hb c).2 (fun k' => by
    have := hr k'
    cases h : s.rop k' <;> simp [ROp.holdsR]
    simp [h, ROp.isHeld] at this)
  -- B: the owner is not waiting for a writer
  have hB : ∀ k, s.phase ≠ .waitCommit k := by
    intro k hp
    have h6 := l6 k hp
    cases hwk : s.wop k with
    | granted e v => exact hA2 k e v hwk
    | held e v => have := hw k; simp [hwk, WOp.isHeld] at this
    | commitSent e nv => exact hq.not_step rfl (Step.oStore k e nv hp hwk)
    | dropped => exact hq.not_step rfl (Step.oAbort k hp (Or.inl hwk))
    | lost => exact hq.not_step rfl (Step.oAbort k hp (Or.inr hwk))
    | _ => rw [hwk] at h6; simp [WOp.inCommitPhase] at h6
  -- C: the owner is not waiting for copies to be dropped (this is where `fixed` is needed)
  have hC : ∀ k, s.phase ≠ .waitDrop k := by
    intro k hp
    have hnc : noCopies s = true := by
      refine (noCopies_iff hb).2 ⟨?_, fun k' c cp h => absurd h (hA5 k' c cp)⟩
      intro c cp hc _
      have hvg := l3 c cp hc
      have hg := (s1 c cp hc).1
      have hinv : srcInvalid s cp.gen = true := by simp [srcInvalid, hg, hp]
      have hseen : s.invSeen cp.src = true := by
        cases h : s.invSeen cp.src with
        | false => exact (hq.not_step rfl (Step.mDeliver cp.src cp.gen hvg hinv h)).elim
        | true => rfl
      rcases l1 c cp hc with hm | hm
      · exact hq.not_step rfl (Step.mWake _ c hm hseen)
      · have hwf : wfree s c = true := (wfree_iff hb c).2 (fun k' => by
          cases hh : (s.rop k').holdsW c with
          | false => rfl
          | true => have := l13 hv k' c hh; rw [hc] at this; cases this)
        have hcv : copyValid s cp = false := by simp [copyValid, hseen]
        exact hq.not_step rfl (Step.mClearStale cp.src c cp hm hwf (hnr c) hc hcv)
    by_cases hqe : ∃ e, s.wop k = .queued e
    · obtain ⟨e, he⟩ := hqe
      exact hq.not_step rfl (Step.oAllDroppedGrant k e hp hnc he)
    · exact hq.not_step rfl (Step.oAllDroppedGone k hp hnc (fun e he => hqe ⟨e, he⟩))
  -- D: the owner is in its select loop with both queues empty
  have hD : s.phase = .idle := by
    cases hp : s.phase with
    | idle => rfl
    | waitDrop k => exact absurd hp (hC k)
    | waitCommit k => exact absurd hp (hB k)
  have hwq : s.wq = [] := by
    cases h : s.wq with
    | nil => rfl
    | cons k rest => exact (hq.not_step rfl (Step.oWrite k rest hD h)).elim
  have hrq : s.rq = [] := by
    cases h : s.rq with
    | nil => rfl
    | cons k rest =>
      by_cases hqc : ∃ c, s.rop k = .queued c
      · obtain ⟨c, hc⟩ := hqc
        exact (hq.not_step rfl (Step.oReadServe k c rest hD h hc)).elim
      · exact (hq.not_step rfl (Step.oReadSkip k rest hD h (fun c hc => hqc ⟨c, hc⟩))).elim
  have hQ : ∀ k c, s.rop k ≠ .queued c := fun k c h => by
    have := l12 k c h; rw [hrq] at this; cases this
  have hwf : ∀ c, wfree s c = true := fun c => (wfree_iff hb c).2 (fun k' => by
    cases h : s.rop k' <;> simp [ROp.holdsW]
    · intro _; exact hA4 k' _ h
    · intro _; exact hQ k' _ h
    · intro _; exact hA5 k' _ _ h)
  intro k
  constructor
  · cases hrk : s.rop k with
    | start c =>
      exfalso
      cases hc : s.cache c with
      | none => exact hq.not_step rfl (Step.rCheckNo k c hrk (hwf c) (fun cp h => by rw [hc] at h; cases h))
      | some cp =>
        cases hcv : copyValid s cp with
        | true => exact hq.not_step rfl (Step.rCheckHit k c cp hrk (hwf c) hc hcv)
        | false =>
          exact hq.not_step rfl (Step.rCheckNo k c hrk (hwf c) (fun cp' h => by
            rw [hc] at h; cases h; exact hcv))
    | wantW c =>
      exfalso
      cases hc : s.cache c with
      | none =>
        exact hq.not_step rfl (Step.rLockWClear k c hrk (hwf c) (hnr c) hv (fun cp h => by rw [hc] at h; cases h))
      | some cp =>
        cases hcv : copyValid s cp with
        | true => exact hq.not_step rfl (Step.rLockWHit k c cp hrk (hwf c) (hnr c) hv hc hcv)
        | false =>
          exact hq.not_step rfl (Step.rLockWClear k c hrk (hwf c) (hnr c) hv (fun cp' h => by
            rw [hc] at h; cases h; exact hcv))
    | holdW c => exact absurd hrk (hA4 k c)
    | queued c => exact absurd hrk (hQ k c)
    | reply c cp => exact absurd hrk (hA5 k c cp)
    | _ => rfl
  · cases hwk : s.wop k with
    | start e => exact absurd hwk (hA1 k e)
    | queued e =>
      rcases l11 k e hwk with h | h
      · rw [hwq] at h; cases h
      · rw [hD] at h; cases h
    | granted e v => exact absurd hwk (hA2 k e v)
    | commitSent e nv =>
      have := s6 k (by simp [hwk, WOp.hasValue])
      rw [hD] at this; cases this
    | stored e nv => exact absurd hwk (hA3 k e nv)
    | _ => rfl

end Remoc.RwLock
