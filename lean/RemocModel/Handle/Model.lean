/-!
# M_handle — handles to local values (`remoc/src/robj/handle.rs`, `chmux/any_storage.rs`)

What the code does, and what is modelled here:

* `Handle::new / provided` puts the value into an `Arc<RwLock<Option<Box<dyn Any>>>>` (an *object
  cell*, `Obj`) owned by the handle (`State::LocalCreated`).  Clones share the cell.
* Serializing a `LocalCreated` handle for a port of connection `c` inserts the cell into the
  `AnyStorage` of *that connection* under a fresh random UUID, creates the "dropped" notification
  channel and spawns a task that removes the storage entry again when every remote copy of the
  notification sender is gone, when the provider is dropped (not `keep`-ed) or when the connection
  fails.  Only `(id, dropped_tx)` travel.  Every serialization of a `LocalCreated` handle makes a
  new id.  A `LocalReceived` / `Remote` handle is serialized as the `(id, dropped_tx)` it carries.
* Deserializing on a port of connection `c` at endpoint `e` does `storage(e,c).remove(id)`:
  found → `LocalReceived` (holds the cell again, entry is *removed*), not found → `Remote`.
* `into_inner / as_ref / as_mut` work on the cell of a `LocalCreated` / `LocalReceived` handle:
  `Remote` → `Unknown`; cell empty → `Unknown`; `!is::<T>()` → `MismatchedType`; `into_inner` takes the
  box out *before* the downcast, so at a wrong type the value is destroyed and an error returned.
* The value is dropped when the last `Arc` goes away: the `Arc` holders are the attached handles
  (`LocalCreated`, `LocalReceived`) and the storage entries.

UUIDs are modelled by a global counter (`nextId`); `log` is the ghost list of all registrations
ever made (position = id).  `origin` (ghost) names the object a handle was derived from by
create / clone / send / deliver; `links` (ghost) lists the connections the handle's dropped
notification channel passes on its way back to the creator (most recent hop first).

One label per await-free block: `send` = `Serialize for Handle` (runs inside `base::Sender::send`
before the first await), `deliver` = `Deserialize for Handle` (inside `base::Receiver::recv`),
`release` = the tail of the task spawned in `serialize` (`handle_storage.remove(id)`) once its wait
condition is met, the rest are API calls / drops made by the user.
-/

namespace Remoc.Handle

/-- state of the provider of an object (`Handle::new` = `kept`, `Handle::provided` = `held`) -/
inductive Prov | kept | held | dropped
  deriving DecidableEq, Repr

/-- an object cell: the `Arc<RwLock<Option<AnyBox>>>` created by `Handle::provided` -/
structure Obj where
  ep : Nat          -- creating endpoint
  tag : Nat         -- `TypeId` of the stored value
  val : Nat         -- the value (a unique nonce in the harness)
  taken : Bool      -- the `Option` is `None` (after `into_inner`)
  prov : Prov
  deriving DecidableEq, Repr

/-- `handle.rs State` -/
inductive HSt
  | created (obj : Nat)                 -- LocalCreated { entry }
  | received (obj : Nat) (id : Nat)     -- LocalReceived { entry, id, dropped_tx }
  | remote (id : Nat)                   -- Remote { id, dropped_tx }
  deriving DecidableEq, Repr

structure Handle where
  ep : Nat              -- endpoint (process) the handle lives on
  st : HSt
  alive : Bool          -- not yet dropped / consumed
  links : List Nat      -- ghost: connections of the dropped-notification chain, newest first
  origin : Nat          -- ghost: object this handle was derived from
  deriving DecidableEq, Repr

/-- one entry of the `AnyStorage` of connection `conn` at endpoint `ep` -/
structure Entry where
  id : Nat
  ep : Nat
  conn : Nat
  obj : Nat
  deriving DecidableEq, Repr

inductive MSt | flying | delivered | lost
  deriving DecidableEq, Repr

/-- a serialized handle in flight over connection `conn` towards endpoint `dst` -/
structure Msg where
  conn : Nat
  dst : Nat
  id : Nat
  links : List Nat
  origin : Nat
  st : MSt
  deriving DecidableEq, Repr

/-- `Result<T, HandleError>` of an access, value reduced to its nonce -/
inductive Res | value (v : Nat) | unknown | mismatch
  deriving DecidableEq, Repr

inductive Kind | intoInner | asRef | asMut
  deriving DecidableEq, Repr

structure State where
  topo : List (Nat × Nat)    -- connection `c` joins endpoints `topo[c]`
  cut : List Nat             -- failed connections
  objs : List Obj
  handles : List Handle
  entries : List Entry       -- union of the storages of all (endpoint, connection) pairs
  msgs : List Msg
  nextId : Nat
  log : List Entry           -- ghost: every registration ever made, position = id
  deriving Repr

def init (topo : List (Nat × Nat)) : State :=
  { topo := topo, cut := [], objs := [], handles := [], entries := [], msgs := [], nextId := 0, log := [] }

inductive Label
  | create (ep tag val : Nat) (provided : Bool)
  | clone (h : Nat)
  | send (h c : Nat)
  | deliver (m : Nat)
  | lose (m : Nat)
  | access (k : Kind) (h : Nat) (tag : Nat)
  | dropHandle (h : Nat)
  | dropProvider (o : Nat)
  | keepProvider (o : Nat)
  | cut (c : Nat)
  | release (ep conn id : Nat)      -- internal
  deriving DecidableEq, Repr

/-! ### storages -/

def Entry.key (e : Entry) (ep conn id : Nat) : Bool := e.ep == ep && e.conn == conn && e.id == id

/-- `AnyStorage::get` on the storage of `(ep, conn)` -/
def findEntry (es : List Entry) (ep conn id : Nat) : Option Entry := es.find? (·.key ep conn id)

/-- `AnyStorage::remove` on the storage of `(ep, conn)` -/
def removeEntry (es : List Entry) (ep conn id : Nat) : List Entry := es.filter (fun e => !e.key ep conn id)

/-! ### who keeps a storage entry alive -/

def HSt.id? : HSt → Option Nat
  | .created _ => none
  | .received _ i => some i
  | .remote i => some i

def HSt.obj? : HSt → Option Nat
  | .created o => some o
  | .received o _ => some o
  | .remote _ => none

/-- every connection of a notification chain is still up -/
def linksOk (cut : List Nat) (links : List Nat) : Bool := links.all (fun c => !cut.contains c)

/-- A handle that holds a clone of the dropped-notification sender of `id` whose chain back to
the creator is intact.  (A sender whose chain is broken delivers a *final* error to the
notification receiver; `rch::mpsc::Receiver::recv` holds final errors back until every other
sender is gone, so a broken sender counts exactly like a dropped one.) -/
def Handle.holds (cut : List Nat) (id : Nat) (h : Handle) : Bool :=
  h.alive && h.st.id? == some id && linksOk cut h.links

def Msg.holds (cut : List Nat) (id : Nat) (m : Msg) : Bool :=
  m.st == .flying && m.id == id && linksOk cut m.links

/-- number of intact notification senders of `id` (handles anywhere + messages in flight) -/
def holders (s : State) (id : Nat) : Nat :=
  (s.handles.filter (·.holds s.cut id)).length + (s.msgs.filter (·.holds s.cut id)).length

/-- a handle that holds the `Arc` of object `o` -/
def Handle.attached (o : Nat) (h : Handle) : Bool := h.alive && h.st.obj? == some o

/-- `Arc` strong count of the cell of object `o` -/
def refs (s : State) (o : Nat) : Nat :=
  (s.handles.filter (·.attached o)).length + (s.entries.filter (·.obj == o)).length

/-- the value of object `o` no longer exists inside remoc: it was taken out or its cell was freed -/
def valueGone (s : State) (o : Nat) : Prop :=
  (∃ ob, s.objs[o]? = some ob ∧ ob.taken = true) ∨ refs s o = 0

/-! ### the operations -/

def otherEnd (topo : List (Nat × Nat)) (c ep : Nat) : Option Nat :=
  match topo[c]? with
  | some (a, b) => if ep = a then some b else if ep = b then some a else none
  | none => none

def create (s : State) (ep tag val : Nat) (provided : Bool) : State :=
  { s with
    objs := s.objs ++ [⟨ep, tag, val, false, if provided then .held else .kept⟩],
    handles := s.handles ++ [⟨ep, .created s.objs.length, true, [], s.objs.length⟩] }

def clone (s : State) (h : Nat) : Option State :=
  match s.handles[h]? with
  | some hd => if hd.alive then some { s with handles := s.handles ++ [hd] } else none
  | none => none

/-- `Serialize for Handle` on a port of connection `c` -/
def send (s : State) (h c : Nat) : Option State :=
  match s.handles[h]? with
  | none => none
  | some hd =>
    if hd.alive = true ∧ ¬ c ∈ s.cut then
      match otherEnd s.topo c hd.ep with
      | none => none
      | some dst =>
        match hd.st with
        | .created o =>
          let e : Entry := ⟨s.nextId, hd.ep, c, o⟩
          some { s with
            entries := s.entries ++ [e], log := s.log ++ [e], nextId := s.nextId + 1,
            msgs := s.msgs ++ [⟨c, dst, s.nextId, [c], hd.origin, .flying⟩] }
        | .received _ id => some { s with msgs := s.msgs ++ [⟨c, dst, id, c :: hd.links, hd.origin, .flying⟩] }
        | .remote id => some { s with msgs := s.msgs ++ [⟨c, dst, id, c :: hd.links, hd.origin, .flying⟩] }
    else none

/-- `Deserialize for Handle` at the destination of message `m` -/
def deliver (s : State) (m : Nat) : Option State :=
  match s.msgs[m]? with
  | none => none
  | some mg =>
    if mg.st = .flying ∧ ¬ mg.conn ∈ s.cut then
      let msgs := s.msgs.set m { mg with st := .delivered }
      match findEntry s.entries mg.dst mg.conn mg.id with
      | some e => some { s with
          msgs := msgs, entries := removeEntry s.entries mg.dst mg.conn mg.id,
          handles := s.handles ++ [⟨mg.dst, .received e.obj mg.id, true, mg.links, mg.origin⟩] }
      | none => some { s with
          msgs := msgs, handles := s.handles ++ [⟨mg.dst, .remote mg.id, true, mg.links, mg.origin⟩] }
    else none

/-- The message is discarded without being deserialized (its receiver is dropped).  The port
request of the notification sender inside it is rejected; the sending side reports
`Err(RemoteConnect)` — a final error, held back by the notification receiver — and drops that
sender: one holder less. -/
def lose (s : State) (m : Nat) : Option State :=
  match s.msgs[m]? with
  | none => none
  | some mg => if mg.st = .flying then some { s with msgs := s.msgs.set m { mg with st := .lost } } else none

def killHandle (s : State) (h : Nat) (hd : Handle) : State :=
  { s with handles := s.handles.set h { hd with alive := false } }

/-- `into_inner` consumes the handle, `as_ref` / `as_mut` borrow it -/
def consume (s : State) (k : Kind) (h : Nat) (hd : Handle) : State :=
  if k = .intoInner then killHandle s h hd else s

/-- `into_inner` does `entry.take()` *before* the downcast: the cell is emptied at any type -/
def takeObj (s : State) (k : Kind) (o : Nat) (ob : Obj) : State :=
  if k = .intoInner then { s with objs := s.objs.set o { ob with taken := true } } else s

/-- `into_inner` / `as_ref` / `as_mut` of `handle.cast::<tag>()` -/
def access (s : State) (k : Kind) (h tag : Nat) : Option (Res × State) :=
  match s.handles[h]? with
  | none => none
  | some hd =>
    if hd.alive then
      match hd.st.obj? with
      | none => some (.unknown, consume s k h hd)              -- `Remote`: `HandleError::Unknown`
      | some o =>
        match s.objs[o]? with
        | none => none
        | some ob =>
          if ob.taken then some (.unknown, consume s k h hd)    -- cell is `None`
          else some (if ob.tag = tag then Res.value ob.val else Res.mismatch,
                     takeObj (consume s k h hd) k o ob)
    else none

def dropHandle (s : State) (h : Nat) : Option State :=
  match s.handles[h]? with
  | some hd => if hd.alive then some (killHandle s h hd) else none
  | none => none

def setProv (s : State) (o : Nat) (p : Prov) : Option State :=
  match s.objs[o]? with
  | some ob => if ob.prov = .held then some { s with objs := s.objs.set o { ob with prov := p } } else none
  | none => none

def loseOn (c : Nat) (m : Msg) : Msg := if m.conn = c ∧ m.st = .flying then { m with st := .lost } else m

/-- Connection `c` fails: messages in flight on it are lost; notification chains that pass it are
broken (`linksOk`). -/
def cutConn (s : State) (c : Nat) : Option State :=
  if c < s.topo.length ∧ ¬ c ∈ s.cut then
    some { s with cut := c :: s.cut, msgs := s.msgs.map (loseOn c) }
  else none

/-- The wait condition of the task spawned in `serialize` is met: no intact notification sender
left, provider dropped, or the connection of the storage failed (which breaks every chain). -/
def releasable (s : State) (e : Entry) : Bool :=
  holders s e.id == 0 || (match s.objs[e.obj]? with | some ob => ob.prov == .dropped | none => false)
    || s.cut.contains e.conn

/-- `handle_storage.remove(id)` at the end of that task -/
def release (s : State) (ep conn id : Nat) : Option State :=
  match findEntry s.entries ep conn id with
  | some e => if releasable s e then some { s with entries := removeEntry s.entries ep conn id } else none
  | none => none

def step (s : State) : Label → Option State
  | .create ep tag val p => some (create s ep tag val p)
  | .clone h => clone s h
  | .send h c => send s h c
  | .deliver m => deliver s m
  | .lose m => lose s m
  | .access k h tag => (access s k h tag).map (·.2)
  | .dropHandle h => dropHandle s h
  | .dropProvider o => setProv s o .dropped
  | .keepProvider o => setProv s o .kept
  | .cut c => cutConn s c
  | .release ep conn id => release s ep conn id

def run (s : State) : List Label → State
  | [] => s
  | l :: ls => match step s l with
    | some s' => run s' ls
    | none => run s ls

def Reachable (s : State) : Prop := ∃ topo ls, run (init topo) ls = s

/-- nothing internal is left to do: no spawned removal task has its wait condition met -/
def Quiescent (s : State) : Prop := ∀ ep conn id, release s ep conn id = none

/-- run the internal `release` steps to the fixpoint (what a settle of the real system does): one
attempt per storage entry is enough, because a removal does not change the wait condition of
another entry -/
def settle (s : State) : State := run s (s.entries.map (fun e => Label.release e.ep e.conn e.id))

end Remoc.Handle
