import RemocModel.Handle.Lazy

/-!
# M_lazy: message atomicity of a chunked transfer, and what a fetch can return
-/

namespace Remoc.Lazy

/-- a frame sequence is complete for a connection failing at `c` -/
def passes (len : Nat) : Option Nat → Bool
  | none => true
  | some k => decide (len ≤ k)

theorem chunkAux_ne_nil (n fuel : Nat) (first : Bool) (d : Bytes) : chunkAux n fuel first d ≠ [] := by
  cases fuel with
  | zero => simp [chunkAux]
  | succ f => simp only [chunkAux]; split <;> simp

theorem chunk_ne_nil (n : Nat) (first : Bool) (d : Bytes) : chunk n first d ≠ [] :=
  chunkAux_ne_nil n d.length first d

theorem chunk_length_pos (n : Nat) (first : Bool) (d : Bytes) : 0 < (chunk n first d).length := by
  cases h : chunk n first d with
  | nil => exact absurd h (chunk_ne_nil n first d)
  | cons a l => simp

/-- continuation frames: the message comes out exactly when all of them arrived -/
theorem rxRun_part_chunkAux (n : Nat) : ∀ (fuel : Nat) (d acc : Bytes) (k : Nat),
    rxRun (.part acc) ((chunkAux n fuel false d).take k) =
      if (chunkAux n fuel false d).length ≤ k then [acc ++ d] else [] := by
  intro fuel
  induction fuel with
  | zero =>
    intro d acc k
    cases k with
    | zero => simp [chunkAux, rxRun]
    | succ k => simp [chunkAux, rxRun, rxStep]
  | succ f ih =>
    intro d acc k
    simp only [chunkAux]
    split
    · cases k with
      | zero => simp [rxRun]
      | succ k => simp [rxRun, rxStep]
    · cases k with
      | zero => simp [rxRun]
      | succ k =>
        simp only [List.take_succ_cons, rxRun, rxStep, List.length_cons, Nat.add_le_add_iff_right]
        simp only [Bool.false_eq_true, if_false]
        rw [ih (d.drop n) (acc ++ d.take n) k]
        simp [List.append_assoc]

theorem rxRun_idle_chunkAux (n fuel : Nat) (d : Bytes) (k : Nat) :
    rxRun .idle ((chunkAux n fuel true d).take k) = if (chunkAux n fuel true d).length ≤ k then [d] else [] := by
  cases fuel with
  | zero =>
    cases k with
    | zero => simp [chunkAux, rxRun]
    | succ k => simp [chunkAux, rxRun, rxStep]
  | succ f =>
    simp only [chunkAux]
    split
    · cases k with
      | zero => simp [rxRun]
      | succ k => simp [rxRun, rxStep]
    · cases k with
      | zero => simp [rxRun]
      | succ k =>
        simp only [List.take_succ_cons, rxRun, rxStep, List.length_cons, Nat.add_le_add_iff_right]
        simp only [if_true, Bool.false_eq_true, if_false]
        rw [rxRun_part_chunkAux]
        simp

/-- **Message atomicity** (the C01 fact, on this transport abstraction): of the frames of one
message, a prefix yields the whole message if it is the whole frame sequence and nothing otherwise. -/
theorem rxRun_idle_chunk (n : Nat) (d : Bytes) (k : Nat) :
    rxRun .idle ((chunk n true d).take k) = if (chunk n true d).length ≤ k then [d] else [] :=
  rxRun_idle_chunkAux n d.length d k

/-- the chunker is a chunker: the bodies concatenate to the data ... -/
theorem chunkAux_bodies (n : Nat) : ∀ (fuel : Nat) (first : Bool) (d : Bytes),
    ((chunkAux n fuel first d).map (·.body)).flatten = d := by
  intro fuel
  induction fuel with
  | zero => intro first d; simp [chunkAux]
  | succ f ih =>
    intro first d
    simp only [chunkAux]
    split
    · simp
    · simp [ih]

/-- ... and with enough fuel no body exceeds the chunk size -/
theorem chunkAux_le (n : Nat) (hn : 0 < n) : ∀ (fuel : Nat) (first : Bool) (d : Bytes), d.length ≤ fuel + n →
    ∀ f ∈ chunkAux n fuel first d, f.body.length ≤ n := by
  intro fuel
  induction fuel with
  | zero => intro first d hd f hf; simp [chunkAux] at hf; subst hf; simpa using hd
  | succ k ih =>
    intro first d hd f hf
    simp only [chunkAux] at hf
    split at hf
    · rename_i h
      simp at hf; subst hf
      rcases h with h | h
      · exact h
      · omega
    · rcases List.mem_cons.mp hf with h | h
      · subst h; simp; omega
      · exact ih false (d.drop n) (by simp; omega) f h

theorem chunk_bodies (n : Nat) (first : Bool) (d : Bytes) : ((chunk n first d).map (·.body)).flatten = d :=
  chunkAux_bodies n d.length first d

theorem chunk_le (n : Nat) (hn : 0 < n) (first : Bool) (d : Bytes) : ∀ f ∈ chunk n first d, f.body.length ≤ n :=
  chunkAux_le n hn d.length first d (by omega)

theorem recvOne_take (n : Nat) (d : Bytes) (k : Nat) :
    recvOne ((chunk n true d).take k) = if (chunk n true d).length ≤ k then some d else none := by
  unfold recvOne
  rw [rxRun_idle_chunk]
  split <;> rfl

theorem recvOne_cut (n : Nat) (d : Bytes) (c : Option Nat) :
    recvOne (cutAt c (chunk n true d)) = if passes (chunk n true d).length c then some d else none := by
  cases c with
  | none =>
    have := recvOne_take n d (chunk n true d).length
    simp only [List.take_length, Nat.le_refl, if_true] at this
    simp [cutAt, passes, this]
  | some k => simp [cutAt, passes, recvOne_take]

/-- the shortest prefix left by a sequence of cuts -/
def minCut : Nat → List (Option Nat) → Nat
  | j, [] => j
  | j, none :: cs => minCut j cs
  | j, some k :: cs => minCut (min j k) cs

theorem foldl_cut {α : Type} (fs : List α) : ∀ (cuts : List (Option Nat)) (j : Nat),
    cuts.foldl (fun fs c => cutAt c fs) (fs.take j) = fs.take (minCut j cuts) := by
  intro cuts
  induction cuts with
  | nil => intro j; rfl
  | cons c cs ih =>
    intro j
    cases c with
    | none => simp only [List.foldl_cons, cutAt, minCut]; exact ih j
    | some k =>
      simp only [List.foldl_cons, cutAt, minCut, List.take_take]
      rw [Nat.min_comm]; exact ih (min j k)

theorem minCut_le (cuts : List (Option Nat)) : ∀ j, minCut j cuts ≤ j := by
  induction cuts with
  | nil => intro j; exact Nat.le_refl _
  | cons c cs ih =>
    intro j
    cases c with
    | none => exact ih j
    | some k => exact Nat.le_trans (ih _) (Nat.min_le_left _ _)

theorem minCut_all (cuts : List (Option Nat)) : ∀ j, (∀ c ∈ cuts, passes j c = true) → minCut j cuts = j := by
  induction cuts with
  | nil => intro j _; rfl
  | cons c cs ih =>
    intro j h
    cases c with
    | none => exact ih j (fun c hc => h c (List.mem_cons_of_mem _ hc))
    | some k =>
      have hk : j ≤ k := by simpa [passes] using h (some k) (List.mem_cons_self ..)
      simp only [minCut, Nat.min_eq_left hk]
      exact ih j (fun c hc => h c (List.mem_cons_of_mem _ hc))

theorem minCut_some (cuts : List (Option Nat)) : ∀ j, (∃ c ∈ cuts, passes j c = false) → minCut j cuts < j := by
  induction cuts with
  | nil => intro j h; obtain ⟨c, hc, _⟩ := h; cases hc
  | cons c cs ih =>
    intro j h
    obtain ⟨c', hc', hp⟩ := h
    rcases List.mem_cons.mp hc' with h1 | h1
    · subst h1
      cases c' with
      | none => simp [passes] at hp
      | some k =>
        have hk : k < j := by simpa [passes] using hp
        simp only [minCut]
        have := minCut_le cs (min j k)
        have : min j k ≤ k := Nat.min_le_right _ _
        omega
    · cases c with
      | none => exact ih j ⟨c', h1, hp⟩
      | some k =>
        simp only [minCut]
        by_cases hk : j ≤ k
        · rw [Nat.min_eq_left hk]; exact ih j ⟨c', h1, hp⟩
        · have := minCut_le cs (min j k)
          have : min j k ≤ k := Nat.min_le_right _ _
          omega

theorem blobFrames_eq (n : Nat) (data : Bytes) (cuts : List (Option Nat)) :
    blobFrames n data cuts = (chunk n true data).take (minCut (chunk n true data).length cuts) := by
  unfold blobFrames
  have := foldl_cut (chunk n true data) cuts (chunk n true data).length
  rw [List.take_length] at this
  exact this

theorem fetchBlob_eq (n : Nat) (data : Bytes) (adv : Nat) (cuts : List (Option Nat)) :
    fetchBlob n data adv cuts =
      if (chunk n true data).length ≤ minCut (chunk n true data).length cuts ∧ data.length ≤ adv
      then .ok data else .err := by
  unfold fetchBlob recvLimited
  rw [blobFrames_eq, recvOne_take]
  by_cases h1 : (chunk n true data).length ≤ minCut (chunk n true data).length cuts
  · by_cases h2 : data.length ≤ adv <;> simp [h1, h2]
  · simp [h1]

theorem itemTransfer_eq (n : Nat) (data : Bytes) : ∀ (cuts : List (Option Nat)),
    itemTransfer n data cuts =
      if (∀ c ∈ cuts, passes (chunk n true data).length c = true) then some data else none := by
  intro cuts
  induction cuts with
  | nil => simp [itemTransfer]
  | cons c cs ih =>
    simp only [itemTransfer, recvOne_cut]
    by_cases hc : passes (chunk n true data).length c = true
    · simp only [hc, if_true, ih]
      by_cases hall : ∀ c ∈ cs, passes (chunk n true data).length c = true
      · rw [if_pos hall, if_pos]
        intro c' hc'
        rcases List.mem_cons.mp hc' with h | h
        · subst h; exact hc
        · exact hall c' h
      · rw [if_neg hall, if_neg]
        intro h; exact hall (fun c' hc' => h c' (List.mem_cons_of_mem _ hc'))
    · rw [if_neg hc, if_neg]
      intro h; exact hc (h c (List.mem_cons_self ..))

/-! ### invariant of the provider / consumer state machine -/

def Good (data : Bytes) (r : Fetched) : Prop := r = .ok data ∨ r = .err

structure LInv (blob : Bool) (data : Bytes) (chunkSz : Nat) (s : LState) : Prop where
  blobEq : s.blob = blob
  dataEq : s.data = data
  lenEq : s.advLen = data.length
  chunkEq : s.chunkSz = chunkSz
  cacheOk : ∀ r, s.cache = some r → Good data r
  resOk : ∀ r ∈ s.results, Good data r

theorem fetchBlob_good (n : Nat) (data : Bytes) (adv : Nat) (cuts : List (Option Nat)) :
    Good data (fetchBlob n data adv cuts) := by
  rw [fetchBlob_eq]; unfold Good; split <;> simp

theorem fetchItem_good (n : Nat) (data : Bytes) (cuts : List (Option Nat)) :
    Good data (fetchItem n data cuts) := by
  unfold fetchItem; rw [itemTransfer_eq]; unfold Good
  by_cases h : ∀ c ∈ cuts, passes (chunk n true data).length c = true
  · rw [if_pos h]; simp
  · rw [if_neg h]; simp

theorem linv_provide (blob : Bool) (data : Bytes) (chunkSz : Nat) :
    LInv blob data chunkSz (provide blob data chunkSz) := by
  constructor <;> simp [provide]

theorem lstep_inv {blob : Bool} {data : Bytes} {chunkSz : Nat} {s : LState} (i : LInv blob data chunkSz s)
    (o : LOp) : LInv blob data chunkSz (lstep s o) := by
  obtain ⟨h1, h2, h3, h4, h5, h6⟩ := i
  cases o with
  | forward => exact ⟨h1, h2, h3, h4, by simp [lstep], h6⟩
  | dropProvider => exact ⟨h1, h2, h3, h4, h5, h6⟩
  | fetch cuts =>
    have app : ∀ r, Good data r → ∀ x ∈ s.results ++ [r], Good data x := by
      intro r hr x hx
      rcases List.mem_append.mp hx with hx | hx
      · exact h6 x hx
      · simp at hx; subst hx; exact hr
    have gerr : Good data .err := Or.inr rfl
    unfold lstep
    cases hc : s.cache with
    | some r => exact ⟨h1, h2, h3, h4, by simpa [hc] using h5, app r (h5 r hc)⟩
    | none =>
      cases hp : s.prov with
      | dropped => exact ⟨h1, h2, h3, h4, by intro r hr; simp at hr; subst hr; exact gerr, app _ gerr⟩
      | served => exact ⟨h1, h2, h3, h4, by intro r hr; simp at hr; subst hr; exact gerr, app _ gerr⟩
      | waiting =>
        have g : Good data (if s.blob = true then
              (if s.hops = 0 then .err else fetchBlob s.chunkSz s.data s.advLen (pathCuts s.hops cuts))
            else fetchItem s.chunkSz s.data (pathCuts s.hops cuts)) := by
          split
          · split
            · exact gerr
            · rw [h2]; exact fetchBlob_good ..
          · rw [h2]; exact fetchItem_good ..
        exact ⟨h1, h2, h3, h4, by intro r hr; simp at hr; subst hr; exact g, app _ g⟩

theorem lrun_inv {blob : Bool} {data : Bytes} {chunkSz : Nat} {s : LState} (i : LInv blob data chunkSz s)
    (os : List LOp) : LInv blob data chunkSz (lrun s os) := by
  induction os generalizing s with
  | nil => exact i
  | cons o os ih => exact ih (lstep_inv i o)

end Remoc.Lazy
