import RemocModel.Handle.Model

/-!
# Invariant of M_handle

`Inv` ties the ghost registration log to the id counter (ids are fresh), the storages to the log,
and every handle / message in flight to the registration of the id it carries.
-/

namespace Remoc.Handle

def epOf (objs : List Obj) (o : Nat) : Option Nat := (objs[o]?).map (·.ep)

/-- what a handle's state says about the object it was derived from -/
def HOk (log : List Entry) (objs : List Obj) (hd : Handle) : Prop :=
  match hd.st with
  | .created o => o = hd.origin ∧ epOf objs o = some hd.ep
  | .received o i => o = hd.origin ∧ epOf objs o = some hd.ep ∧
      ∃ e, log[i]? = some e ∧ e.obj = o ∧ e.ep = hd.ep ∧ hd.links.head? = some e.conn
  | .remote i => ∃ e, log[i]? = some e ∧ e.obj = hd.origin

def MOk (log : List Entry) (m : Msg) : Prop :=
  ∃ e, log[m.id]? = some e ∧ e.obj = m.origin ∧ m.links.head? = some m.conn

structure Inv (s : State) : Prop where
  logIdx : ∀ (i : Nat) (e : Entry), s.log[i]? = some e → e.id = i
  logLen : s.log.length = s.nextId
  entSub : ∀ e ∈ s.entries, s.log[e.id]? = some e
  logObj : ∀ e ∈ s.log, epOf s.objs e.obj = some e.ep
  hOk : ∀ hd ∈ s.handles, HOk s.log s.objs hd
  mOk : ∀ m ∈ s.msgs, MOk s.log m

/-! ### monotone parts -/

def LogMono (l l' : List Entry) : Prop := ∀ (i : Nat) (e : Entry), l[i]? = some e → l'[i]? = some e
def EpMono (o o' : List Obj) : Prop := ∀ (i : Nat) (x : Nat), epOf o i = some x → epOf o' i = some x

theorem LogMono.refl (l : List Entry) : LogMono l l := fun _ _ h => h
theorem EpMono.refl (o : List Obj) : EpMono o o := fun _ _ h => h

theorem LogMono.append (l : List Entry) (x : List Entry) : LogMono l (l ++ x) := by
  intro i e h
  have hi : i < l.length := by
    rcases Nat.lt_or_ge i l.length with h1 | h1
    · exact h1
    · rw [List.getElem?_eq_none h1] at h; cases h
  rw [List.getElem?_append_left hi]; exact h

theorem EpMono.append (o : List Obj) (x : List Obj) : EpMono o (o ++ x) := by
  intro i e h
  unfold epOf at *
  have hi : i < o.length := by
    rcases Nat.lt_or_ge i o.length with h1 | h1
    · exact h1
    · rw [List.getElem?_eq_none h1] at h; cases h
  rw [List.getElem?_append_left hi]; exact h

theorem epOf_set (objs : List Obj) (o : Nat) (ob ob' : Obj) (h : objs[o]? = some ob) (hep : ob'.ep = ob.ep)
    (i : Nat) : epOf (objs.set o ob') i = epOf objs i := by
  unfold epOf
  rw [List.getElem?_set]
  by_cases hoi : o = i
  · subst hoi
    have hlt : o < objs.length := by
      rcases Nat.lt_or_ge o objs.length with h1 | h1
      · exact h1
      · rw [List.getElem?_eq_none h1] at h; cases h
    have h2 : objs[o]? = some objs[o] := List.getElem?_eq_getElem hlt
    rw [h] at h2; injection h2 with h2
    simp [hlt, hep, ← h2]
  · simp [hoi]

theorem EpMono.set (objs : List Obj) (o : Nat) (ob ob' : Obj) (h : objs[o]? = some ob) (hep : ob'.ep = ob.ep) :
    EpMono objs (objs.set o ob') := by
  intro i x hx
  rw [epOf_set objs o ob ob' h hep]; exact hx

theorem HOk.mono {l l' : List Entry} {o o' : List Obj} {hd : Handle}
    (hl : LogMono l l') (ho : EpMono o o') (h : HOk l o hd) : HOk l' o' hd := by
  unfold HOk at *
  cases hst : hd.st with
  | created ob =>
    rw [hst] at h
    exact ⟨h.1, ho _ _ h.2⟩
  | received ob i =>
    rw [hst] at h
    obtain ⟨h1, h2, e, h3, h4⟩ := h
    exact ⟨h1, ho _ _ h2, e, hl _ _ h3, h4⟩
  | remote i =>
    rw [hst] at h
    obtain ⟨e, h3, h4⟩ := h
    exact ⟨e, hl _ _ h3, h4⟩

theorem MOk.mono {l l' : List Entry} {m : Msg} (hl : LogMono l l') (h : MOk l m) : MOk l' m := by
  obtain ⟨e, h1, h2⟩ := h
  exact ⟨e, hl _ _ h1, h2⟩

/-- an `Inv` for a state that differs from `s` only monotonically in `log`/`objs` and by new
handles / messages that are individually OK, with the same storage part -/
theorem Inv.of_mono {s s' : State} (i : Inv s)
    (hl : LogMono s.log s'.log) (ho : EpMono s.objs s'.objs)
    (hlog : s'.log = s.log) (hnext : s'.nextId = s.nextId)
    (hent : ∀ e ∈ s'.entries, e ∈ s.entries)
    (hh : ∀ hd ∈ s'.handles, hd ∈ s.handles ∨ HOk s'.log s'.objs hd)
    (hm : ∀ m ∈ s'.msgs, m ∈ s.msgs ∨ MOk s'.log m) : Inv s' where
  logIdx := by rw [hlog]; exact i.logIdx
  logLen := by rw [hlog, hnext]; exact i.logLen
  entSub := fun e he => by rw [hlog]; exact i.entSub e (hent e he)
  logObj := fun e he => by rw [hlog] at he; exact ho _ _ (i.logObj e he)
  hOk := fun hd h => by
    rcases hh hd h with h1 | h1
    · exact (i.hOk hd h1).mono hl ho
    · exact h1
  mOk := fun m h => by
    rcases hm m h with h1 | h1
    · exact (i.mOk m h1).mono hl
    · exact h1

theorem inv_init (topo : List (Nat × Nat)) : Inv (init topo) := by
  constructor <;> simp [init]

theorem getElem?_lt {α} {l : List α} {i : Nat} {a : α} (h : l[i]? = some a) : i < l.length := by
  rcases Nat.lt_or_ge i l.length with h1 | h1
  · exact h1
  · rw [List.getElem?_eq_none h1] at h; cases h

theorem mem_of_getElem?' {α} {l : List α} {i : Nat} {a : α} (h : l[i]? = some a) : a ∈ l :=
  List.mem_of_getElem? h

/-- a handle with only `alive` changed is still OK -/
theorem HOk.kill {l : List Entry} {o : List Obj} {hd : Handle} (h : HOk l o hd) :
    HOk l o { hd with alive := false } := by
  unfold HOk at *
  exact h

theorem mem_removeEntry {es : List Entry} {ep conn id : Nat} {e : Entry}
    (h : e ∈ removeEntry es ep conn id) : e ∈ es := by
  unfold removeEntry at h
  exact (List.mem_filter.mp h).1

theorem findEntry_mem {es : List Entry} {ep conn id : Nat} {e : Entry}
    (h : findEntry es ep conn id = some e) : e ∈ es ∧ e.ep = ep ∧ e.conn = conn ∧ e.id = id := by
  unfold findEntry at h
  have h1 := List.mem_of_find?_eq_some h
  have h2 := List.find?_some h
  simp [Entry.key] at h2
  exact ⟨h1, h2.1.1, h2.1.2, h2.2⟩

/-! ### preservation, one lemma per operation -/

theorem create_inv {s : State} (i : Inv s) (ep tag val : Nat) (p : Bool) : Inv (create s ep tag val p) := by
  refine Inv.of_mono i (LogMono.refl _) (EpMono.append _ _) rfl rfl ?_ ?_ ?_
  · intro e he; exact he
  · intro hd hh
    simp only [create, List.mem_append, List.mem_singleton] at hh
    rcases hh with h | h
    · exact Or.inl h
    · right
      subst h
      simp [HOk, create, epOf]
  · intro m hm; exact Or.inl hm

theorem clone_inv {s s' : State} (i : Inv s) (h : Nat) (hs : clone s h = some s') : Inv s' := by
  unfold clone at hs
  split at hs
  · rename_i hd hget
    split at hs
    · injection hs with hs; subst hs
      refine Inv.of_mono i (LogMono.refl _) (EpMono.refl _) rfl rfl ?_ ?_ ?_
      · intro e he; exact he
      · intro x hx
        simp only [List.mem_append, List.mem_singleton] at hx
        rcases hx with hx | hx
        · exact Or.inl hx
        · subst hx; exact Or.inl (List.mem_of_getElem? hget)
      · intro m hm; exact Or.inl hm
    · cases hs
  · cases hs

theorem send_inv {s s' : State} (i : Inv s) (h c : Nat) (hs : send s h c = some s') : Inv s' := by
  unfold send at hs
  split at hs
  · cases hs
  · rename_i hd hget
    have hmem : hd ∈ s.handles := List.mem_of_getElem? hget
    have hok := i.hOk hd hmem
    split at hs
    · split at hs
      · cases hs
      · rename_i dst hdst
        split at hs
        · -- created: a new registration
          rename_i o hst
          injection hs with hs; subst hs
          unfold HOk at hok; rw [hst] at hok
          have hnew : (s.log ++ [(⟨s.nextId, hd.ep, c, o⟩ : Entry)])[s.nextId]? = some ⟨s.nextId, hd.ep, c, o⟩ := by
            rw [← i.logLen]; simp
          constructor
          · -- logIdx
            intro j e hj
            simp only at hj
            by_cases hlt : j < s.log.length
            · rw [List.getElem?_append_left hlt] at hj; exact i.logIdx j e hj
            · have hge : s.log.length ≤ j := Nat.le_of_not_lt hlt
              rw [List.getElem?_append_right hge] at hj
              have : j - s.log.length = 0 := by
                rcases Nat.eq_zero_or_pos (j - s.log.length) with h0 | h0
                · exact h0
                · rw [List.getElem?_eq_none (by simp; omega)] at hj; cases hj
              rw [this] at hj
              simp at hj; subst hj
              simp only
              have := i.logLen; omega
          · simp [i.logLen]
          · intro e he
            simp only [List.mem_append, List.mem_singleton] at he
            rcases he with he | he
            · exact LogMono.append _ _ _ _ (i.entSub e he)
            · subst he; exact hnew
          · intro e he
            simp only [List.mem_append, List.mem_singleton] at he
            rcases he with he | he
            · exact i.logObj e he
            · subst he; exact hok.2
          · intro x hx
            exact (i.hOk x hx).mono (LogMono.append _ _) (EpMono.refl _)
          · intro m hm
            simp only [List.mem_append, List.mem_singleton] at hm
            rcases hm with hm | hm
            · exact (i.mOk m hm).mono (LogMono.append _ _)
            · subst hm
              exact ⟨_, hnew, hok.1, rfl⟩
        · -- received: forwards (id, dropped_tx)
          rename_i o id hst
          injection hs with hs; subst hs
          unfold HOk at hok; rw [hst] at hok
          obtain ⟨h1, _, e, h3, h4, _⟩ := hok
          refine Inv.of_mono i (LogMono.refl _) (EpMono.refl _) rfl rfl ?_ ?_ ?_
          · intro e he; exact he
          · intro x hx; exact Or.inl hx
          · intro m hm
            simp only [List.mem_append, List.mem_singleton] at hm
            rcases hm with hm | hm
            · exact Or.inl hm
            · right; subst hm
              exact ⟨e, h3, by rw [h4, h1], rfl⟩
        · rename_i id hst
          injection hs with hs; subst hs
          unfold HOk at hok; rw [hst] at hok
          obtain ⟨e, h3, h4⟩ := hok
          refine Inv.of_mono i (LogMono.refl _) (EpMono.refl _) rfl rfl ?_ ?_ ?_
          · intro e he; exact he
          · intro x hx; exact Or.inl hx
          · intro m hm
            simp only [List.mem_append, List.mem_singleton] at hm
            rcases hm with hm | hm
            · exact Or.inl hm
            · right; subst hm
              exact ⟨e, h3, h4, rfl⟩
    · cases hs

theorem MOk.setSt {l : List Entry} {m : Msg} (st : MSt) (h : MOk l m) : MOk l { m with st := st } := h

theorem deliver_inv {s s' : State} (i : Inv s) (m : Nat) (hs : deliver s m = some s') : Inv s' := by
  unfold deliver at hs
  split at hs
  · cases hs
  · rename_i mg hget
    have hmem : mg ∈ s.msgs := List.mem_of_getElem? hget
    obtain ⟨le, hle1, hle2, hle3⟩ := i.mOk mg hmem
    have hmsgs : ∀ x ∈ s.msgs.set m { mg with st := .delivered }, x ∈ s.msgs ∨ MOk s.log x := by
      intro x hx
      rcases List.mem_or_eq_of_mem_set hx with hx | hx
      · exact Or.inl hx
      · right; subst hx; exact ⟨le, hle1, hle2, hle3⟩
    split at hs
    · split at hs
      · rename_i e hfind
        injection hs with hs; subst hs
        obtain ⟨he1, he2, he3, he4⟩ := findEntry_mem hfind
        have hlog := i.entSub e he1
        rw [he4, hle1] at hlog
        injection hlog with hlog; subst hlog
        refine Inv.of_mono i (LogMono.refl _) (EpMono.refl _) rfl rfl ?_ ?_ ?_
        · intro x hx; exact mem_removeEntry hx
        · intro x hx
          simp only [List.mem_append, List.mem_singleton] at hx
          rcases hx with hx | hx
          · exact Or.inl hx
          · right; subst hx
            have hobj := i.logObj le (List.mem_of_getElem? hle1)
            simp only [HOk]
            refine ⟨hle2, ?_, le, hle1, rfl, he2, ?_⟩
            · rw [hobj, he2]
            · rw [hle3, he3]
        · exact hmsgs
      · injection hs with hs; subst hs
        refine Inv.of_mono i (LogMono.refl _) (EpMono.refl _) rfl rfl ?_ ?_ ?_
        · intro x hx; exact hx
        · intro x hx
          simp only [List.mem_append, List.mem_singleton] at hx
          rcases hx with hx | hx
          · exact Or.inl hx
          · right; subst hx
            exact ⟨le, hle1, hle2⟩
        · exact hmsgs
    · cases hs

theorem lose_inv {s s' : State} (i : Inv s) (m : Nat) (hs : lose s m = some s') : Inv s' := by
  unfold lose at hs
  split at hs
  · cases hs
  · rename_i mg hget
    have hmem : mg ∈ s.msgs := List.mem_of_getElem? hget
    split at hs
    · injection hs with hs; subst hs
      refine Inv.of_mono i (LogMono.refl _) (EpMono.refl _) rfl rfl ?_ ?_ ?_
      · intro x hx; exact hx
      · intro x hx; exact Or.inl hx
      · intro x hx
        rcases List.mem_or_eq_of_mem_set hx with hx | hx
        · exact Or.inl hx
        · right; subst hx; exact (i.mOk mg hmem).setSt _
    · cases hs

theorem killHandle_inv {s : State} (i : Inv s) (h : Nat) (hd : Handle) (hget : s.handles[h]? = some hd) :
    Inv (killHandle s h hd) := by
  refine Inv.of_mono i (LogMono.refl _) (EpMono.refl _) rfl rfl ?_ ?_ ?_
  · intro x hx; exact hx
  · intro x hx
    rcases List.mem_or_eq_of_mem_set hx with hx | hx
    · exact Or.inl hx
    · right; subst hx; exact (i.hOk hd (List.mem_of_getElem? hget)).kill
  · intro x hx; exact Or.inl hx

theorem setObj_inv {s : State} (i : Inv s) (o : Nat) (ob ob' : Obj) (hget : s.objs[o]? = some ob)
    (hep : ob'.ep = ob.ep) : Inv { s with objs := s.objs.set o ob' } := by
  refine Inv.of_mono i (LogMono.refl _) (EpMono.set _ _ _ _ hget hep) rfl rfl ?_ ?_ ?_
  · intro x hx; exact hx
  · intro x hx; exact Or.inl hx
  · intro x hx; exact Or.inl hx

theorem consume_inv {s : State} (i : Inv s) (k : Kind) (h : Nat) (hd : Handle) (hget : s.handles[h]? = some hd) :
    Inv (consume s k h hd) := by
  unfold consume
  split
  · exact killHandle_inv i h hd hget
  · exact i

theorem takeObj_inv {s : State} (i : Inv s) (k : Kind) (o : Nat) (ob : Obj) (hget : s.objs[o]? = some ob) :
    Inv (takeObj s k o ob) := by
  unfold takeObj
  split
  · exact setObj_inv i o ob _ hget rfl
  · exact i

theorem consume_objs (s : State) (k : Kind) (h : Nat) (hd : Handle) : (consume s k h hd).objs = s.objs := by
  unfold consume killHandle; split <;> rfl

theorem access_inv {s s' : State} {r : Res} (i : Inv s) (k : Kind) (h tag : Nat)
    (hs : access s k h tag = some (r, s')) : Inv s' := by
  unfold access at hs
  split at hs
  · cases hs
  · rename_i hd hget
    have i1 := consume_inv i k h hd hget
    split at hs
    · split at hs
      · injection hs with hs; injection hs with _ hs; subst hs; exact i1
      · split at hs
        · cases hs
        · rename_i ob hob
          split at hs
          · injection hs with hs; injection hs with _ hs; subst hs; exact i1
          · injection hs with hs; injection hs with _ hs; subst hs
            exact takeObj_inv i1 k _ ob (by rw [consume_objs]; exact hob)
    · cases hs

theorem dropHandle_inv {s s' : State} (i : Inv s) (h : Nat) (hs : dropHandle s h = some s') : Inv s' := by
  unfold dropHandle at hs
  split at hs
  · rename_i hd hget
    split at hs
    · injection hs with hs; subst hs; exact killHandle_inv i h hd hget
    · cases hs
  · cases hs

theorem setProv_inv {s s' : State} (i : Inv s) (o : Nat) (p : Prov) (hs : setProv s o p = some s') : Inv s' := by
  unfold setProv at hs
  split at hs
  · rename_i ob hget
    split at hs
    · injection hs with hs; subst hs; exact setObj_inv i o ob _ hget rfl
    · cases hs
  · cases hs

theorem cutConn_inv {s s' : State} (i : Inv s) (c : Nat) (hs : cutConn s c = some s') : Inv s' := by
  unfold cutConn at hs
  split at hs
  · injection hs with hs; subst hs
    refine Inv.of_mono i (LogMono.refl _) (EpMono.refl _) rfl rfl ?_ ?_ ?_
    · intro x hx; exact hx
    · intro x hx; exact Or.inl hx
    · intro x hx
      right
      simp only [List.mem_map] at hx
      obtain ⟨m0, hm0, rfl⟩ := hx
      unfold loseOn
      split
      · exact (i.mOk m0 hm0).setSt _
      · exact i.mOk m0 hm0
  · cases hs

theorem release_inv {s s' : State} (i : Inv s) (ep conn id : Nat) (hs : release s ep conn id = some s') : Inv s' := by
  unfold release at hs
  split at hs
  · split at hs
    · injection hs with hs; subst hs
      refine Inv.of_mono i (LogMono.refl _) (EpMono.refl _) rfl rfl ?_ ?_ ?_
      · intro x hx; exact mem_removeEntry hx
      · intro x hx; exact Or.inl hx
      · intro x hx; exact Or.inl hx
    · cases hs
  · cases hs

theorem step_inv {s s' : State} (i : Inv s) (l : Label) (hs : step s l = some s') : Inv s' := by
  cases l with
  | create ep tag val p => simp only [step] at hs; injection hs with hs; subst hs; exact create_inv i ..
  | clone h => exact clone_inv i h hs
  | send h c => exact send_inv i h c hs
  | deliver m => exact deliver_inv i m hs
  | lose m => exact lose_inv i m hs
  | access k h tag =>
    simp only [step] at hs
    cases ha : access s k h tag with
    | none => rw [ha] at hs; cases hs
    | some p =>
      rw [ha] at hs; simp at hs; subst hs
      exact access_inv i k h tag (r := p.1) (by rw [ha])
  | dropHandle h => exact dropHandle_inv i h hs
  | dropProvider o => exact setProv_inv i o _ hs
  | keepProvider o => exact setProv_inv i o _ hs
  | cut c => exact cutConn_inv i c hs
  | release ep conn id => exact release_inv i ep conn id hs

theorem run_inv {s : State} (i : Inv s) (ls : List Label) : Inv (run s ls) := by
  induction ls generalizing s with
  | nil => exact i
  | cons l ls ih =>
    simp only [run]
    cases hs : step s l with
    | none => exact ih i
    | some s' => exact ih (step_inv i l hs)

theorem inv_reachable {s : State} (h : Reachable s) : Inv s := by
  obtain ⟨topo, ls, rfl⟩ := h
  exact run_inv (inv_init topo) ls

theorem reachable_step {s s' : State} (h : Reachable s) (l : Label) (hs : step s l = some s') : Reachable s' := by
  obtain ⟨topo, ls, rfl⟩ := h
  refine ⟨topo, ls ++ [l], ?_⟩
  have : ∀ (s0 : State) (ls : List Label), run s0 (ls ++ [l]) = (match step (run s0 ls) l with | some x => x | none => run s0 ls) := by
    intro s0 ls
    induction ls generalizing s0 with
    | nil => simp [run]; cases step s0 l <;> rfl
    | cons a ls ih =>
      simp only [List.cons_append, run]
      cases step s0 a <;> exact ih _
  rw [this, hs]

theorem run_append (s : State) (a b : List Label) : run s (a ++ b) = run (run s a) b := by
  induction a generalizing s with
  | nil => rfl
  | cons l a ih =>
    simp only [List.cons_append, run]
    cases step s l <;> exact ih _

theorem reachable_run {s : State} (h : Reachable s) (ls : List Label) : Reachable (run s ls) := by
  obtain ⟨topo, l0, rfl⟩ := h
  exact ⟨topo, l0 ++ ls, run_append _ _ _⟩

end Remoc.Handle
