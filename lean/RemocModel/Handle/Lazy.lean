/-!
# M_lazy — lazily transferred values and blobs (`robj/lazy.rs`, `robj/lazy_blob/{mod,fw_bin}.rs`)

What the code does:

* `Lazy::provided(v)` spawns a provider task that waits for *one* request (an `rch::oneshot::Sender<T>`
  arriving over an `rch::mpsc` channel of capacity 1) and answers it with the value, or ends when the
  provider is dropped.  `Lazy<T>` serializes as the request sender only; every forward over a
  connection makes the request channel one hop longer, and every hop receives the request item
  (and later the value item) *as a whole item* and re-sends it (item level store-and-forward).
  `Lazy::get` creates the fetch future once and caches its result (value **or error**) for the
  lifetime of this `Lazy` object.
* `LazyBlob::provided(data)` spawns a provider task that answers every request with the data as a
  single chmux message over a binary channel; `LazyBlob` serializes as the request sender and
  `len`.  Hops forward the binary channel with `chmux::Receiver::forward`, i.e. frame by frame, and
  emit the final frame only after having received the final frame.  The fetching side sets
  `max_data_size = len` and calls `Receiver::recv`, which returns a message only when it is complete.

The transport abstraction used here is the one established for ports by C01 (M_link): a port carries
frames `first/last/body`; the receiver hands out a message only when its last frame has arrived;
when the port closes or the connection fails before that, the partial message is discarded.
A connection cut is a prefix of the frame sequence.
-/

namespace Remoc.Lazy

abbrev Bytes := List UInt8

structure Frame where
  first : Bool
  last : Bool
  body : Bytes
  deriving DecidableEq, Repr

/-- the sender's chunker: frames of at most `n` bytes, the last one flagged (`n = 0` is not a valid
configuration and is treated as "no chunking").  `fuel` makes the recursion structural; `chunk`
supplies enough of it. -/
def chunkAux (n : Nat) : Nat → Bool → Bytes → List Frame
  | 0, first, d => [⟨first, true, d⟩]
  | fuel + 1, first, d =>
    if d.length ≤ n ∨ n = 0 then [⟨first, true, d⟩]
    else ⟨first, false, d.take n⟩ :: chunkAux n fuel false (d.drop n)

def chunk (n : Nat) (first : Bool) (d : Bytes) : List Frame := chunkAux n d.length first d

/-- reassembly state of `chmux::Receiver` -/
inductive Rx
  | idle
  | part (acc : Bytes)
  deriving DecidableEq, Repr

/-- one received frame: new state and the message completed by it -/
def rxStep : Rx → Frame → Rx × Option Bytes
  | .idle, f =>
    if f.first then (if f.last then (.idle, some f.body) else (.part f.body, none))
    else (.idle, none)                                   -- continuation without a start: ignored
  | .part acc, f =>
    if f.first then (if f.last then (.idle, some f.body) else (.part f.body, none))  -- previous one was cancelled
    else if f.last then (.idle, some (acc ++ f.body))
    else (.part (acc ++ f.body), none)

/-- messages handed out for a frame sequence that then ends (port closed or connection failed):
a partial message at the end is discarded -/
def rxRun : Rx → List Frame → List Bytes
  | _, [] => []
  | st, f :: fs =>
    match rxStep st f with
    | (st', some m) => m :: rxRun st' fs
    | (st', none) => rxRun st' fs

/-- `Receiver::recv`: the first complete message, `none` = closed / failed before one was complete -/
def recvOne (fs : List Frame) : Option Bytes := (rxRun .idle fs).head?

/-- a connection that fails after having delivered `k` frames (`none`: it does not fail) -/
def cutAt {α : Type} : Option Nat → List α → List α
  | none, l => l
  | some k, l => l.take k

inductive Fetched
  | ok (d : Bytes)
  | err
  deriving DecidableEq, Repr

/-- `rx.set_max_data_size(len); rx.recv()` of `LazyBlob::fetch` -/
def recvLimited (maxSize : Nat) (fs : List Frame) : Fetched :=
  match recvOne fs with
  | some d => if d.length ≤ maxSize then .ok d else .err
  | none => .err

/-- frames arriving at the fetching endpoint of a blob after the hops (provider side first); each
hop forwards frame by frame and is cut as given -/
def blobFrames (n : Nat) (data : Bytes) (cuts : List (Option Nat)) : List Frame :=
  cuts.foldl (fun fs c => cutAt c fs) (chunk n true data)

def fetchBlob (n : Nat) (data : Bytes) (advertised : Nat) (cuts : List (Option Nat)) : Fetched :=
  recvLimited advertised (blobFrames n data cuts)

/-- a `Lazy<T>` value item travelling over the hops: every hop receives the whole item and sends it on -/
def itemTransfer (n : Nat) (data : Bytes) : List (Option Nat) → Option Bytes
  | [] => some data
  | c :: cs =>
    match recvOne (cutAt c (chunk n true data)) with
    | some d => itemTransfer n d cs
    | none => none

def fetchItem (n : Nat) (data : Bytes) (cuts : List (Option Nat)) : Fetched :=
  match itemTransfer n data cuts with
  | some d => .ok d
  | none => .err

/-! ### the provider / consumer state machine -/

inductive ProvSt | waiting | served | dropped
  deriving DecidableEq, Repr

structure LState where
  blob : Bool                 -- `LazyBlob` (serves every request) or `Lazy<T>` (serves one request)
  data : Bytes                -- what was provided
  advLen : Nat                -- the `len` field travelling with a `LazyBlob`
  chunkSz : Nat
  prov : ProvSt
  hops : Nat                  -- connections between the current consumer object and the provider
  cache : Option Fetched      -- `fetch_task` of the current consumer object
  results : List Fetched      -- ghost: every result `get` has returned
  deriving Repr

def provide (blob : Bool) (data : Bytes) (chunkSz : Nat) : LState :=
  { blob, data, advLen := data.length, chunkSz, prov := .waiting, hops := 0, cache := none, results := [] }

inductive LOp
  | forward                          -- send the consumer object over one more connection
  | fetch (cuts : List (Option Nat)) -- `get()`, with the failure points of the connections on the path
  | dropProvider
  deriving Repr

/-- one failure point per hop: missing ones mean "no failure", surplus ones are ignored -/
def pathCuts (hops : Nat) (cuts : List (Option Nat)) : List (Option Nat) :=
  (List.range hops).map (fun i => (cuts[i]?).getD none)

def lstep (s : LState) : LOp → LState
  | .forward => { s with hops := s.hops + 1, cache := none }      -- `fetch_task` is `#[serde(skip)]`
  | .dropProvider => { s with prov := .dropped }
  | .fetch cuts =>
    match s.cache with
    | some r => { s with results := s.results ++ [r] }             -- cached result (value or error)
    | none =>
      match s.prov with
      | .dropped => { s with cache := some .err, results := s.results ++ [.err] }
      | .served => { s with cache := some .err, results := s.results ++ [.err] }
      | .waiting =>
        -- A `LazyBlob` that was never sent cannot be fetched: its request carries a `fw_bin::Sender`
        -- that was not serialized, `fw_bin::Sender::into_inner` yields `None`, the transfer task
        -- returns and the fetch ends with `FetchError::Dropped`.
        let r := if s.blob then (if s.hops = 0 then .err else fetchBlob s.chunkSz s.data s.advLen (pathCuts s.hops cuts))
                 else fetchItem s.chunkSz s.data (pathCuts s.hops cuts)
        { s with cache := some r, results := s.results ++ [r],
                 prov := if s.blob then .waiting else .served }

def lrun (s : LState) : List LOp → LState
  | [] => s
  | o :: os => lrun (lstep s o) os

end Remoc.Lazy
