import RemocModel.Handle.Inv

/-!
# M_handle: reference counting, release at quiescence, `settle`

Helper lemmas for the `released` clauses of C20.
-/

namespace Remoc.Handle

/-- propositional form of `refs s o = 0` -/
def NoRefs (s : State) (o : Nat) : Prop :=
  (∀ hd ∈ s.handles, hd.attached o = false) ∧ (∀ e ∈ s.entries, e.obj ≠ o)

theorem refs_zero_iff (s : State) (o : Nat) : refs s o = 0 ↔ NoRefs s o := by
  unfold refs NoRefs
  rw [Nat.add_eq_zero_iff, List.length_eq_zero_iff, List.length_eq_zero_iff,
    List.filter_eq_nil_iff, List.filter_eq_nil_iff]
  constructor
  · rintro ⟨h1, h2⟩
    refine ⟨fun hd hh => ?_, fun e he => ?_⟩
    · have := h1 hd hh; simpa using this
    · have := h2 e he; simpa using this
  · rintro ⟨h1, h2⟩
    refine ⟨fun hd hh => ?_, fun e he => ?_⟩
    · simp [h1 hd hh]
    · simpa using h2 e he

theorem holders_zero_iff (s : State) (id : Nat) :
    holders s id = 0 ↔ (∀ hd ∈ s.handles, hd.holds s.cut id = false) ∧ (∀ m ∈ s.msgs, m.holds s.cut id = false) := by
  unfold holders
  rw [Nat.add_eq_zero_iff, List.length_eq_zero_iff, List.length_eq_zero_iff,
    List.filter_eq_nil_iff, List.filter_eq_nil_iff]
  constructor
  · rintro ⟨h1, h2⟩
    exact ⟨fun hd hh => by simpa using h1 hd hh, fun m hm => by simpa using h2 m hm⟩
  · rintro ⟨h1, h2⟩
    exact ⟨fun hd hh => by simp [h1 hd hh], fun m hm => by simp [h2 m hm]⟩

/-- ids are unique in the storages (consequence of the counter invariant) -/
theorem entries_id_unique {s : State} (i : Inv s) {e₁ e₂ : Entry} (h₁ : e₁ ∈ s.entries) (h₂ : e₂ ∈ s.entries)
    (hid : e₁.id = e₂.id) : e₁ = e₂ := by
  have a := i.entSub e₁ h₁
  have b := i.entSub e₂ h₂
  rw [hid, b] at a
  injection a with a; exact a.symm

/-- a lookup with the key of a stored entry finds exactly that entry -/
theorem findEntry_self {s : State} (i : Inv s) {e : Entry} (he : e ∈ s.entries) :
    findEntry s.entries e.ep e.conn e.id = some e := by
  cases hf : findEntry s.entries e.ep e.conn e.id with
  | none =>
    unfold findEntry at hf
    rw [List.find?_eq_none] at hf
    have := hf e he
    simp [Entry.key] at this
  | some e' =>
    obtain ⟨h1, _, _, h4⟩ := findEntry_mem hf
    rw [entries_id_unique i h1 he h4]

/-- the object named by the id a live handle carries is the handle's origin -/
theorem handle_id_origin {s : State} (i : Inv s) {hd : Handle} (hh : hd ∈ s.handles) {id : Nat}
    (hid : hd.st.id? = some id) : ∃ e, s.log[id]? = some e ∧ e.obj = hd.origin := by
  have hok := i.hOk hd hh
  unfold HOk at hok
  cases hst : hd.st with
  | created o => rw [hst] at hid; simp [HSt.id?] at hid
  | received o j =>
    rw [hst] at hid hok; simp [HSt.id?] at hid; subst hid
    obtain ⟨h1, _, e, h3, h4, _⟩ := hok
    exact ⟨e, h3, by rw [h4, h1]⟩
  | remote j =>
    rw [hst] at hid hok; simp [HSt.id?] at hid; subst hid
    exact hok

/-- an attached handle sits on the creating endpoint of its origin object -/
theorem attached_origin {s : State} (i : Inv s) {hd : Handle} (hh : hd ∈ s.handles) {o : Nat}
    (ho : hd.st.obj? = some o) : o = hd.origin ∧ epOf s.objs o = some hd.ep := by
  have hok := i.hOk hd hh
  unfold HOk at hok
  cases hst : hd.st with
  | created o' => rw [hst] at ho hok; simp [HSt.obj?] at ho; subst ho; exact hok
  | received o' j => rw [hst] at ho hok; simp [HSt.obj?] at ho; subst ho; exact ⟨hok.1, hok.2.1⟩
  | remote j => rw [hst] at ho; simp [HSt.obj?] at ho

def AllGone (s : State) (o : Nat) : Prop :=
  (∀ hd ∈ s.handles, hd.origin = o → hd.alive = false) ∧ (∀ m ∈ s.msgs, m.origin = o → m.st ≠ .flying)

theorem holders_zero_of_allGone {s : State} (i : Inv s) {o : Nat} (hg : AllGone s o) {e : Entry}
    (he : e ∈ s.entries) (ho : e.obj = o) : holders s e.id = 0 := by
  rw [holders_zero_iff]
  have hlog := i.entSub e he
  constructor
  · intro hd hh
    cases hal : hd.alive with
    | false => simp [Handle.holds, hal]
    | true =>
      cases hid : (hd.st.id? == some e.id) with
      | false => simp [Handle.holds, hid]
      | true =>
        exfalso
        have hid' : hd.st.id? = some e.id := by simpa using hid
        obtain ⟨e', h1, h2⟩ := handle_id_origin i hh hid'
        rw [hlog] at h1; injection h1 with h1; subst h1
        have := hg.1 hd hh (by rw [← h2, ho])
        rw [hal] at this; cases this
  · intro m hm
    cases hst : (m.st == MSt.flying) with
    | false => simp [Msg.holds, hst]
    | true =>
      cases hid : (m.id == e.id) with
      | false => simp [Msg.holds, hid]
      | true =>
        exfalso
        have hid' : m.id = e.id := by simpa using hid
        obtain ⟨e', h1, h2, _⟩ := i.mOk m hm
        rw [hid', hlog] at h1; injection h1 with h1; subst h1
        exact hg.2 m hm (by rw [← h2, ho]) (by simpa using hst)

/-- in a quiescent state no stored entry has its removal condition met -/
theorem quiescent_not_releasable {s : State} (i : Inv s) (hq : Quiescent s) {e : Entry} (he : e ∈ s.entries) :
    releasable s e = false := by
  have h := hq e.ep e.conn e.id
  unfold release at h
  rw [findEntry_self i he] at h
  simp only at h
  cases hr : releasable s e with
  | false => rfl
  | true => rw [hr] at h; simp at h

/-! ### stability of "no reference left" -/

theorem noRefs_of_handles_entries {s s' : State} {o : Nat} (h : NoRefs s o)
    (hh : ∀ hd ∈ s'.handles, hd ∈ s.handles ∨ hd.attached o = false)
    (he : ∀ e ∈ s'.entries, e ∈ s.entries ∨ e.obj ≠ o) : NoRefs s' o := by
  refine ⟨fun hd hm => ?_, fun e hm => ?_⟩
  · rcases hh hd hm with h1 | h1
    · exact h.1 hd h1
    · exact h1
  · rcases he e hm with h1 | h1
    · exact h.2 e h1
    · exact h1

theorem attached_kill (hd : Handle) (o : Nat) : ({ hd with alive := false } : Handle).attached o = false := by
  simp [Handle.attached]

theorem killHandle_noRefs {s : State} {o : Nat} (h : NoRefs s o) (n : Nat) (hd : Handle) :
    NoRefs (killHandle s n hd) o := by
  apply noRefs_of_handles_entries h
  · intro x hx
    rcases List.mem_or_eq_of_mem_set hx with hx | hx
    · exact Or.inl hx
    · right; subst hx; exact attached_kill _ _
  · intro e he; exact Or.inl he

theorem consume_noRefs {s : State} {o : Nat} (h : NoRefs s o) (k : Kind) (n : Nat) (hd : Handle) :
    NoRefs (consume s k n hd) o := by
  unfold consume; split
  · exact killHandle_noRefs h n hd
  · exact h

theorem takeObj_noRefs {s : State} {o : Nat} (h : NoRefs s o) (k : Kind) (o' : Nat) (ob : Obj) :
    NoRefs (takeObj s k o' ob) o := by
  unfold takeObj; split
  · exact h
  · exact h

/-- once the last `Arc` of an existing object is gone, no operation brings one back -/
theorem step_noRefs {s s' : State} {o : Nat} (ho : o < s.objs.length) (h : NoRefs s o)
    (l : Label) (hs : step s l = some s') : NoRefs s' o := by
  cases l with
  | create ep tag val p =>
    simp only [step] at hs; injection hs with hs; subst hs
    apply noRefs_of_handles_entries h
    · intro hd hh
      simp only [create, List.mem_append, List.mem_singleton] at hh
      rcases hh with hh | hh
      · exact Or.inl hh
      · right; subst hh
        simp only [Handle.attached, HSt.obj?]
        have : ¬ s.objs.length = o := by omega
        simp [this]
    · intro e he; exact Or.inl he
  | clone n =>
    simp only [step, clone] at hs
    split at hs
    · rename_i hd hget
      split at hs
      · injection hs with hs; subst hs
        apply noRefs_of_handles_entries h
        · intro x hx
          simp only [List.mem_append, List.mem_singleton] at hx
          rcases hx with hx | hx
          · exact Or.inl hx
          · subst hx; exact Or.inl (List.mem_of_getElem? hget)
        · intro e he; exact Or.inl he
      · cases hs
    · cases hs
  | send n c =>
    simp only [step, send] at hs
    split at hs
    · cases hs
    · rename_i hd hget
      have hmem : hd ∈ s.handles := List.mem_of_getElem? hget
      split at hs
      · rename_i hal
        split at hs
        · cases hs
        · split at hs
          · rename_i o' hst
            injection hs with hs; subst hs
            apply noRefs_of_handles_entries h
            · intro x hx; exact Or.inl hx
            · intro e he
              simp only [List.mem_append, List.mem_singleton] at he
              rcases he with he | he
              · exact Or.inl he
              · right; subst he
                simp only
                intro heq
                have := h.1 hd hmem
                simp [Handle.attached, hal.1, hst, HSt.obj?, heq] at this
          · injection hs with hs; subst hs; exact ⟨h.1, h.2⟩
          · injection hs with hs; subst hs; exact ⟨h.1, h.2⟩
      · cases hs
  | deliver m =>
    simp only [step, deliver] at hs
    split at hs
    · cases hs
    · rename_i mg hget
      split at hs
      · split at hs
        · rename_i e hfind
          injection hs with hs; subst hs
          obtain ⟨he1, _⟩ := findEntry_mem hfind
          apply noRefs_of_handles_entries h
          · intro x hx
            simp only [List.mem_append, List.mem_singleton] at hx
            rcases hx with hx | hx
            · exact Or.inl hx
            · right; subst hx
              have := h.2 e he1
              simp [Handle.attached, HSt.obj?, this]
          · intro x hx; exact Or.inl (mem_removeEntry hx)
        · injection hs with hs; subst hs
          apply noRefs_of_handles_entries h
          · intro x hx
            simp only [List.mem_append, List.mem_singleton] at hx
            rcases hx with hx | hx
            · exact Or.inl hx
            · right; subst hx; simp [Handle.attached, HSt.obj?]
          · intro x hx; exact Or.inl hx
      · cases hs
  | lose m =>
    simp only [step, lose] at hs
    split at hs
    · cases hs
    · split at hs
      · injection hs with hs; subst hs; exact ⟨h.1, h.2⟩
      · cases hs
  | access k n tag =>
    simp only [step] at hs
    cases ha : access s k n tag with
    | none => rw [ha] at hs; cases hs
    | some p =>
      rw [ha] at hs; simp at hs; subst hs
      unfold access at ha
      split at ha
      · cases ha
      · rename_i hd hget
        have h1 := consume_noRefs h k n hd
        split at ha
        · split at ha
          · injection ha with ha; subst ha; exact h1
          · split at ha
            · cases ha
            · split at ha
              · injection ha with ha; subst ha; exact h1
              · injection ha with ha; subst ha; exact takeObj_noRefs h1 ..
        · cases ha
  | dropHandle n =>
    simp only [step, dropHandle] at hs
    split at hs
    · split at hs
      · injection hs with hs; subst hs; exact killHandle_noRefs h ..
      · cases hs
    · cases hs
  | dropProvider o' =>
    simp only [step, setProv] at hs
    split at hs
    · split at hs
      · injection hs with hs; subst hs; exact ⟨h.1, h.2⟩
      · cases hs
    · cases hs
  | keepProvider o' =>
    simp only [step, setProv] at hs
    split at hs
    · split at hs
      · injection hs with hs; subst hs; exact ⟨h.1, h.2⟩
      · cases hs
    · cases hs
  | cut c =>
    simp only [step, cutConn] at hs
    split at hs
    · injection hs with hs; subst hs; exact ⟨h.1, h.2⟩
    · cases hs
  | release ep conn id =>
    simp only [step, release] at hs
    split at hs
    · split at hs
      · injection hs with hs; subst hs
        exact ⟨h.1, fun e he => h.2 e (mem_removeEntry he)⟩
      · cases hs
    · cases hs

/-- no operation removes an object or clears its `taken` flag -/
theorem step_taken {s s' : State} {o : Nat} {ob : Obj} (hob : s.objs[o]? = some ob) (ht : ob.taken = true)
    (l : Label) (hs : step s l = some s') : ∃ ob', s'.objs[o]? = some ob' ∧ ob'.taken = true := by
  have setCase : ∀ (o' : Nat) (ob1 ob2 : Obj), s.objs[o']? = some ob1 → (ob1.taken = true → ob2.taken = true) →
      ∃ ob', (s.objs.set o' ob2)[o]? = some ob' ∧ ob'.taken = true := by
    intro o' ob1 ob2 h1 h2
    rw [List.getElem?_set]
    by_cases hoo : o' = o
    · subst hoo
      rw [hob] at h1; injection h1 with h1; subst h1
      simp [getElem?_lt hob, h2 ht]
    · simp [hoo, hob, ht]
  cases l with
  | create ep tag val p =>
    simp only [step] at hs; injection hs with hs; subst hs
    refine ⟨ob, ?_, ht⟩
    simp only [create]
    rw [List.getElem?_append_left (getElem?_lt hob)]; exact hob
  | clone n =>
    simp only [step, clone] at hs
    split at hs
    · split at hs
      · injection hs with hs; subst hs; exact ⟨ob, hob, ht⟩
      · cases hs
    · cases hs
  | send n c =>
    simp only [step, send] at hs
    split at hs
    · cases hs
    · split at hs
      · split at hs
        · cases hs
        · split at hs <;> (injection hs with hs; subst hs; exact ⟨ob, hob, ht⟩)
      · cases hs
  | deliver m =>
    simp only [step, deliver] at hs
    split at hs
    · cases hs
    · split at hs
      · split at hs <;> (injection hs with hs; subst hs; exact ⟨ob, hob, ht⟩)
      · cases hs
  | lose m =>
    simp only [step, lose] at hs
    split at hs
    · cases hs
    · split at hs
      · injection hs with hs; subst hs; exact ⟨ob, hob, ht⟩
      · cases hs
  | access k n tag =>
    simp only [step] at hs
    cases ha : access s k n tag with
    | none => rw [ha] at hs; cases hs
    | some p =>
      rw [ha] at hs; simp at hs; subst hs
      unfold access at ha
      split at ha
      · cases ha
      · rename_i hd hget
        split at ha
        · split at ha
          · injection ha with ha; subst ha; rw [consume_objs]; exact ⟨ob, hob, ht⟩
          · split at ha
            · cases ha
            · rename_i ob1 hob1
              split at ha
              · injection ha with ha; subst ha; rw [consume_objs]; exact ⟨ob, hob, ht⟩
              · injection ha with ha; subst ha
                simp only [takeObj]
                split
                · simp only [consume_objs]
                  exact setCase _ ob1 _ hob1 (fun _ => rfl)
                · rw [consume_objs]; exact ⟨ob, hob, ht⟩
        · cases ha
  | dropHandle n =>
    simp only [step, dropHandle] at hs
    split at hs
    · split at hs
      · injection hs with hs; subst hs; exact ⟨ob, hob, ht⟩
      · cases hs
    · cases hs
  | dropProvider o' =>
    simp only [step, setProv] at hs
    split at hs
    · rename_i ob1 hob1
      split at hs
      · injection hs with hs; subst hs; exact setCase _ ob1 _ hob1 (fun h => h)
      · cases hs
    · cases hs
  | keepProvider o' =>
    simp only [step, setProv] at hs
    split at hs
    · rename_i ob1 hob1
      split at hs
      · injection hs with hs; subst hs; exact setCase _ ob1 _ hob1 (fun h => h)
      · cases hs
    · cases hs
  | cut c =>
    simp only [step, cutConn] at hs
    split at hs
    · injection hs with hs; subst hs; exact ⟨ob, hob, ht⟩
    · cases hs
  | release ep conn id =>
    simp only [step, release] at hs
    split at hs
    · split at hs
      · injection hs with hs; subst hs; exact ⟨ob, hob, ht⟩
      · cases hs
    · cases hs

/-- objects are never removed -/
theorem step_objs_length {s s' : State} (l : Label) (hs : step s l = some s') : s.objs.length ≤ s'.objs.length := by
  cases l with
  | create ep tag val p =>
    simp only [step] at hs; injection hs with hs; subst hs; simp [create]
  | clone n =>
    simp only [step, clone] at hs
    split at hs
    · split at hs
      · injection hs with hs; subst hs; exact Nat.le_refl _
      · cases hs
    · cases hs
  | send n c =>
    simp only [step, send] at hs
    split at hs
    · cases hs
    · split at hs
      · split at hs
        · cases hs
        · split at hs <;> (injection hs with hs; subst hs; exact Nat.le_refl _)
      · cases hs
  | deliver m =>
    simp only [step, deliver] at hs
    split at hs
    · cases hs
    · split at hs
      · split at hs <;> (injection hs with hs; subst hs; exact Nat.le_refl _)
      · cases hs
  | lose m =>
    simp only [step, lose] at hs
    split at hs
    · cases hs
    · split at hs
      · injection hs with hs; subst hs; exact Nat.le_refl _
      · cases hs
  | access k n tag =>
    simp only [step] at hs
    cases ha : access s k n tag with
    | none => rw [ha] at hs; cases hs
    | some p =>
      rw [ha] at hs; simp at hs; subst hs
      unfold access at ha
      split at ha
      · cases ha
      · split at ha
        · split at ha
          · injection ha with ha; subst ha; rw [consume_objs]; exact Nat.le_refl _
          · split at ha
            · cases ha
            · split at ha
              · injection ha with ha; subst ha; rw [consume_objs]; exact Nat.le_refl _
              · injection ha with ha; subst ha
                simp only [takeObj]
                split
                · simp [consume_objs]
                · rw [consume_objs]; exact Nat.le_refl _
        · cases ha
  | dropHandle n =>
    simp only [step, dropHandle] at hs
    split at hs
    · split at hs
      · injection hs with hs; subst hs; exact Nat.le_refl _
      · cases hs
    · cases hs
  | dropProvider o' =>
    simp only [step, setProv] at hs
    split at hs
    · split at hs
      · injection hs with hs; subst hs; simp
      · cases hs
    · cases hs
  | keepProvider o' =>
    simp only [step, setProv] at hs
    split at hs
    · split at hs
      · injection hs with hs; subst hs; simp
      · cases hs
    · cases hs
  | cut c =>
    simp only [step, cutConn] at hs
    split at hs
    · injection hs with hs; subst hs; exact Nat.le_refl _
    · cases hs
  | release ep conn id =>
    simp only [step, release] at hs
    split at hs
    · split at hs
      · injection hs with hs; subst hs; exact Nat.le_refl _
      · cases hs
    · cases hs

/-! ### `settle` reaches a quiescent state -/

/-- the parts of the state the removal condition reads, plus the ghost log -/
def SameEnv (s t : State) : Prop :=
  t.objs = s.objs ∧ t.handles = s.handles ∧ t.msgs = s.msgs ∧ t.cut = s.cut

theorem releasable_congr {s t : State} (h : SameEnv s t) (e : Entry) : releasable t e = releasable s e := by
  obtain ⟨h1, h2, h3, h4⟩ := h
  unfold releasable holders
  rw [h1, h2, h3, h4]

def relLabel (e : Entry) : Label := .release e.ep e.conn e.id

theorem settle_loop (s : State) (i : Inv s) : ∀ (L : List Entry) (t : State),
    SameEnv s t → (∀ e ∈ L, e ∈ s.entries) → (∀ e ∈ t.entries, e ∈ s.entries) →
    (∀ e ∈ t.entries, releasable s e = true → e ∈ L) →
    SameEnv s (run t (L.map relLabel)) ∧ (∀ e ∈ (run t (L.map relLabel)).entries, e ∈ s.entries) ∧
      (∀ e ∈ (run t (L.map relLabel)).entries, releasable s e = false) := by
  intro L
  induction L with
  | nil =>
    intro t hse _ hsub hrel
    simp only [List.map_nil, run]
    refine ⟨hse, hsub, fun e he => ?_⟩
    cases hr : releasable s e with
    | false => rfl
    | true => exact absurd (hrel e he hr) (by simp)
  | cons e rest ih =>
    intro t hse hL hsub hrel
    simp only [List.map_cons, run]
    have hLrest : ∀ x ∈ rest, x ∈ s.entries := fun x hx => hL x (List.mem_cons_of_mem _ hx)
    have hes : e ∈ s.entries := hL e (List.mem_cons_self ..)
    cases hstep : step t (relLabel e) with
    | some t' =>
      simp only [relLabel, step, release] at hstep
      split at hstep
      · rename_i e' hfind
        split at hstep
        · injection hstep with hstep; subst hstep
          apply ih
          · exact hse
          · exact hLrest
          · intro x hx; exact hsub x (mem_removeEntry hx)
          · intro x hx hr
            have hx' := mem_removeEntry hx
            have := hrel x hx' hr
            rcases List.mem_cons.mp this with h1 | h1
            · exfalso
              subst h1
              unfold removeEntry at hx
              have := (List.mem_filter.mp hx).2
              simp [Entry.key] at this
            · exact h1
        · cases hstep
      · cases hstep
    | none =>
      apply ih t hse hLrest hsub
      intro x hx hr
      rcases List.mem_cons.mp (hrel x hx hr) with h1 | h1
      · exfalso
        subst h1
        simp only [relLabel, step, release] at hstep
        cases hfind : findEntry t.entries x.ep x.conn x.id with
        | none =>
          unfold findEntry at hfind
          rw [List.find?_eq_none] at hfind
          have := hfind x hx
          simp [Entry.key] at this
        | some e' =>
          rw [hfind] at hstep
          obtain ⟨h1, _, _, h4⟩ := findEntry_mem hfind
          have : e' = x := entries_id_unique i (hsub e' h1) hes h4
          subst this
          simp only [releasable_congr hse, hr] at hstep
          simp at hstep
      · exact h1

/-- `settle` is a run of internal `release` steps that ends in a quiescent state with the same
objects, handles, messages and connections. -/
theorem settle_quiescent {s : State} (i : Inv s) : Quiescent (settle s) ∧ SameEnv s (settle s) := by
  obtain ⟨hse, hsub, hnr⟩ := settle_loop s i s.entries s ⟨rfl, rfl, rfl, rfl⟩ (fun _ h => h) (fun _ h => h)
    (fun e he _ => he)
  refine ⟨?_, hse⟩
  intro ep conn id
  show release (run s (s.entries.map relLabel)) ep conn id = none
  unfold release
  split
  · rename_i e hfind
    obtain ⟨h1, _⟩ := findEntry_mem hfind
    rw [releasable_congr hse, hnr e h1]; simp
  · rfl

end Remoc.Handle
