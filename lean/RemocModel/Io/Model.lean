/-
M_io: the I/O channel of `rch/io/{mod,sender,receiver}.rs` over the abstract port.

The sender (`AsyncWrite`) hands every accepted write as ONE message to a binary channel
(`rch::bin`, a chmux port); the receiver (`AsyncRead`) takes whole messages from it, in order, and
sees end-of-stream after the last message once the sending port is dropped.  That abstraction of
the port (whole messages, in order, end-of-stream after the data) is what property C01
establishes for chmux; here it is a FIFO `Chan.data` plus an end marker.  The final size of an
unsized channel travels separately through a oneshot channel (`Chan.size`).

A labelled transition system: one label = one poll of an `AsyncWrite`/`AsyncRead` method (the
code is await-free between two polls), a drop of a half, or a fault of the environment.  Ghost
fields (`accepted`, `received`, …) record monotone history.  No Mathlib: the driver links as an
executable.
-/

namespace Remoc.Io

abbrev Bytes := List UInt8

/-- `std::io::ErrorKind`s produced by the channel. -/
inductive Err where
  | writeZero       -- write past the fixed size
  | brokenPipe      -- write after shutdown
  | unexpectedEof   -- size mismatch / size never announced
  | connReset       -- the port failed or the receiving half is gone
deriving Repr, DecidableEq

/-- Static parameters: chunk size of the port (a write accepts at most that much) and the size
fixed at creation (`sized n`) or `none` (`channel()`). -/
structure Cfg where
  chunk : Nat
  fixed : Option Nat
deriving Repr, DecidableEq

/-! ### sender half (`io/sender.rs`) -/

/-- `SizeMode`: `Known(n)` or `Unknown(oneshot sender)`. -/
inductive SizeMode where
  | known (n : Nat)
  | unknown
deriving Repr, DecidableEq

structure Tx where
  /-- the `Sender` object exists -/
  alive : Bool := true
  /-- the `bin::Sender` exists (in its slot or inside the `sending` future) -/
  binOpen : Bool := true
  mode : SizeMode
  bytesWritten : Nat := 0
  /-- the `sending` future: a chunk accepted by `poll_write` and not yet handed to the port -/
  sending : Option Bytes := none
  /-- an internal future completed with an error and stays in place; polling again would resume a
  completed `async fn` (the real code panics), so no further operation is enabled -/
  failed : Bool := false
deriving Repr, DecidableEq

/-! ### the two channels between the halves -/

inductive DataEnd where
  | open      -- the sending port exists
  | closed    -- the sending port was dropped: end-of-stream follows the queued messages
  | broken    -- the connection failed: an error follows the queued messages
deriving Repr, DecidableEq

/-- The oneshot channel that carries the final size of an unsized channel. -/
inductive SizeChan where
  | pending
  | sent (n : Nat)
  | dropped   -- oneshot sender dropped without sending
  | broken    -- connection failed before the size got through
deriving Repr, DecidableEq

structure Chan where
  /-- messages handed to the port and not yet taken by the receiver -/
  data : List Bytes := []
  dataEnd : DataEnd := .open
  size : SizeChan := .pending
  /-- the receiving `io::Receiver` was dropped -/
  rxGone : Bool := false
  /-- the sending port has learnt that the receiver is gone / the connection is lost -/
  txNoticed : Bool := false
deriving Repr, DecidableEq

/-! ### receiver half (`io/receiver.rs`) -/

/-- `Option<SizeInfo>`: `Some(Determined n)`, `Some(Undetermined rx)`, or `None` (taken). -/
inductive SizeInfo where
  | determined (n : Nat)
  | undetermined
  | taken
deriving Repr, DecidableEq

/-- `ReceiverState`. -/
inductive Phase where
  | idle
  | receiving
  | verifying
deriving Repr, DecidableEq

structure Rx where
  alive : Bool := true
  /-- `bin_receiver` slot is `Some` -/
  binRx : Bool := true
  sizeInfo : SizeInfo
  bytesRead : Nat := 0
  /-- `current_buf`: the unread rest of the message being consumed -/
  buf : Option Bytes := none
  phase : Phase := .idle
  eofVerified : Bool := false
  /-- an internal future completed with an error and stays in place (see `Tx.failed`) -/
  poisoned : Bool := false
deriving Repr, DecidableEq

/-! ### state, labels, outputs -/

structure State where
  tx : Tx
  ch : Chan
  rx : Rx
  /-- ghost: concatenation of the accepted part of every write (`Ok(n)` ⇒ first `n` bytes) -/
  accepted : Bytes := []
  /-- ghost: concatenation of the bytes returned by successful reads -/
  received : Bytes := []
  /-- ghost: size announced by `shutdown` of an unsized sender -/
  announced : Option Nat := none
  /-- ghost: a read with a non-empty buffer returned `Ok` with zero bytes (end-of-file) -/
  eofSeen : Bool := false
  /-- ghost: a read returned an error -/
  readErr : Bool := false
  /-- ghost: the connection was cut -/
  cutDone : Bool := false
  /-- ghost: the data port was severed (see `Label.sever`) -/
  severed : Bool := false
  /-- ghost: no accepted byte has been lost so far (no drop with a chunk in flight, no failed or
  swallowed hand-over, nothing lost in transit) -/
  lossless : Bool := true
deriving Repr, DecidableEq

inductive Label where
  /-- `poll_write(bs)` returning `Ready` -/
  | write (bs : Bytes)
  | flush
  | shutdown
  | dropTx
  /-- The `Sender` is shipped to another endpoint in mid-stream (`Serialize`): the size mode and the
  byte counter travel along; the `bin::Sender` travels along only if it is in its slot.  While a
  chunk is in flight the slot is empty (the `sending` future owns the port): the shipped sender
  then has no port, and the future, dropped with the original object, takes chunk and port with it. -/
  | moveTx
  /-- `poll_read` with `n` bytes of buffer space; `seg` is the length of the contiguous slice the
  current `DataBuf` offers (`0` = the whole rest; a message that travelled in several frames is
  handed out slice by slice) -/
  | read (n seg : Nat)
  | dropRx
  /-- the connection fails -/
  | cut
  /-- the sending port learns that the receiver is gone or the connection is lost -/
  | notice
  /-- after a cut: the last element in transit on the data port (a message, or the end-of-stream
  marker) did not get through -/
  | lose
  /-- after a cut: the announced size did not get through -/
  | loseSize
  /-- the data port alone fails, and fails *cleanly*: everything in transit is lost and the
  receiver is shown an ordinary end-of-stream.  (This is what happens on the pinned tree when both
  halves of a locally created channel are shipped away: the two remote halves get connected to
  the dropped local halves.)  The size channel is not affected. -/
  | sever
deriving Repr, DecidableEq

inductive Out where
  | none
  | wrote (n : Nat)
  | done
  | txErr (e : Err)
  | data (bs : Bytes)
  | rxErr (e : Err)
  | pending
deriving Repr, DecidableEq

def modeOf : Option Nat → SizeMode
  | some n => .known n
  | none => .unknown

def infoOf : Option Nat → SizeInfo
  | some n => .determined n
  | none => .undetermined

def init (cfg : Cfg) : State :=
  { tx := { mode := modeOf cfg.fixed }, ch := {}, rx := { sizeInfo := infoOf cfg.fixed } }

/-! ### sender operations -/

def closeData (c : Chan) : Chan :=
  match c.dataEnd with
  | .open => { c with dataEnd := .closed }
  | _ => c

/-- `Sender::poll_complete`: drive the `sending` future, i.e. hand the chunk in flight to the port.
(The `connecting` future only delays; it has no effect on the state.)  A port that is no longer
open towards the receiver (connection cut or severed, not yet noticed) swallows the message. -/
def txComplete (t : Tx) (c : Chan) : Option Err × Tx × Chan :=
  match t.sending with
  | none => (none, t, c)
  | some m =>
    if c.txNoticed then
      -- the future resolves to an error and drops the `bin::Sender` it owns
      (some .connReset, { t with sending := none, failed := true, binOpen := false }, closeData c)
    else
      match c.dataEnd with
      | .open => (none, { t with sending := none }, { c with data := c.data ++ [m] })
      | _ => (none, { t with sending := none }, c)

/-- The hand-over done by `txComplete` loses nothing. -/
def handOverOk (t : Tx) (c : Chan) : Bool :=
  t.sending.isNone || (c.dataEnd == .open && !c.txNoticed)

/-- Result of `poll_write`. -/
inductive WRes where
  | ok (n : Nat)
  | err (e : Err)
deriving Repr, DecidableEq

/-- `poll_write` after `poll_complete` succeeded (the channel is not touched). -/
def writeCore (chunk : Nat) (bs : Bytes) (t : Tx) : WRes × Tx :=
  if !t.binOpen then (.err .brokenPipe, t)
  else if bs.isEmpty then (.ok 0, t)
  else
    match t.mode with
    | .known e =>
      if t.bytesWritten ≥ e then (.err .writeZero, t)
      else
        let n := min (min bs.length (e - t.bytesWritten)) chunk
        (.ok n, { t with bytesWritten := t.bytesWritten + n, sending := some (bs.take n) })
    | .unknown =>
      let n := min bs.length chunk
      (.ok n, { t with bytesWritten := t.bytesWritten + n, sending := some (bs.take n) })

/-- `poll_write`. -/
def pollWrite (chunk : Nat) (bs : Bytes) (t : Tx) (c : Chan) : WRes × Tx × Chan :=
  match txComplete t c with
  | (some e, t', c') => (.err e, t', c')
  | (none, t', c') => ((writeCore chunk bs t').1, (writeCore chunk bs t').2, c')

/-- `poll_flush`. -/
def pollFlush (t : Tx) (c : Chan) : Option Err × Tx × Chan := txComplete t c

/-- `poll_shutdown` after `poll_complete` succeeded: drop the `bin::Sender`, then verify (sized) or
announce (unsized) the total; the mode becomes `Known(bytes_written)` in every case. -/
def shutdownCore (t : Tx) (c : Chan) : Option Err × Tx × Chan :=
  let c1 := closeData c
  let t1 := { t with binOpen := false, mode := .known t.bytesWritten }
  match t.mode with
  | .known e => if t.bytesWritten = e then (none, t1, c1) else (some .unexpectedEof, t1, c1)
  | .unknown =>
    (none, t1, match c1.size with
               | .pending => { c1 with size := .sent t.bytesWritten }
               | _ => c1)

/-- `poll_shutdown`. -/
def pollShutdown (t : Tx) (c : Chan) : Option Err × Tx × Chan :=
  match txComplete t c with
  | (some e, t', c') => (some e, t', c')
  | (none, t', c') => shutdownCore t' c'

/-- Dropping the `Sender`: the chunk in flight (its future was never polled) is discarded, the
port and, in unsized mode, the size oneshot are dropped. -/
def dropTxChan (t : Tx) (c : Chan) : Chan :=
  let c1 := closeData c
  match t.mode with
  | .known _ => c1
  | .unknown =>
    match c1.size with
    | .pending => { c1 with size := .dropped }
    | _ => c1

/-! ### receiver operations -/

inductive Complete where
  | cont
  | pend
  | fail (e : Err)
deriving Repr, DecidableEq

/-- `Receiver::poll_complete`. -/
def rxComplete (r : Rx) (c : Chan) : Complete × Rx × Chan :=
  match r.phase with
  | .idle => (.cont, r, c)
  | .receiving =>
    match c.data with
    | m :: rest => (.cont, { r with buf := some m, binRx := true, phase := .idle }, { c with data := rest })
    | [] =>
      match c.dataEnd with
      | .open => (.pend, r, c)
      | .closed => (.cont, { r with buf := none, phase := .idle }, c)
      | .broken => (.fail .connReset, { r with poisoned := true }, c)
  | .verifying =>
    match c.size with
    | .pending => (.pend, r, c)
    | .sent m =>
      if r.bytesRead ≠ m then
        (.fail .unexpectedEof, { r with phase := .idle, sizeInfo := .determined m }, c)
      else
        (.cont, { r with phase := .idle, sizeInfo := .determined m, eofVerified := true }, c)
    | .dropped => (.fail .unexpectedEof, { r with poisoned := true }, c)
    | .broken => (.fail .unexpectedEof, { r with poisoned := true }, c)

inductive Iter where
  | ret (o : Out)
  | again
deriving Repr, DecidableEq

/-- `start_eof_verification` (reached when the data port reported end-of-stream). -/
def startEof (r : Rx) : Iter × Rx :=
  match r.sizeInfo with
  | .determined e =>
    if r.bytesRead ≠ e then (.ret (.rxErr .unexpectedEof), r) else (.again, { r with eofVerified := true })
  | .undetermined => (.again, { r with sizeInfo := .taken, phase := .verifying })
  | .taken => (.again, { r with eofVerified := true })

/-- "Take bin_receiver to receive more data, or handle EOF if already consumed". -/
def rxNext (r : Rx) : Iter × Rx :=
  if r.binRx then (.again, { r with binRx := false, phase := .receiving }) else startEof r

/-- Bytes to copy out of the current buffer `b`. -/
def copyLen (n seg : Nat) (remaining : Option Nat) (b : Bytes) : Nat :=
  let contiguous := if seg = 0 then b.length else min seg b.length
  let k := min contiguous n
  match remaining with
  | some rem => min k rem
  | none => k

def remainingAllowed (r : Rx) : Option Nat :=
  match r.sizeInfo with
  | .determined e => some (e - r.bytesRead)
  | _ => none

/-- The body of the `poll_read` loop after `poll_complete` succeeded. -/
def rxIter (n seg : Nat) (r : Rx) : Iter × Rx :=
  if r.eofVerified then (.ret (.data []), r)
  else if remainingAllowed r = some 0 then (.ret (.data []), { r with eofVerified := true })
  else
    match r.buf with
    | some b =>
      if b.isEmpty then rxNext { r with buf := none }
      else
        let k := copyLen n seg (remainingAllowed r) b
        (.ret (.data (b.take k)), { r with buf := some (b.drop k), bytesRead := r.bytesRead + k })
    | none => rxNext r

/-- `poll_read`: the loop.  `fuel` bounds the iterations (every iteration but the last one either
starts a receive, takes a message off the port, or starts the size verification, so
`data.length + 4` always suffices; running out of fuel is reported as `pending`). -/
def pollRead (n seg : Nat) : Nat → Rx → Chan → Out × Rx × Chan
  | 0, r, c => (.pending, r, c)
  | fuel + 1, r, c =>
    match rxComplete r c with
    | (.pend, r', c') => (.pending, r', c')
    | (.fail e, r', c') => (.rxErr e, r', c')
    | (.cont, r', c') =>
      match rxIter n seg r' with
      | (.ret o, r'') => (o, r'', c')
      | (.again, r'') => pollRead n seg fuel r'' c'

def readFuel (c : Chan) : Nat := c.data.length + 4

/-! ### the transition function -/

def txUsable (t : Tx) : Bool := t.alive && !t.failed
def rxUsable (r : Rx) : Bool := r.alive && !r.poisoned

def outBytes : Out → Bytes
  | .data bs => bs
  | _ => []

def isRxErr : Out → Bool
  | .rxErr _ => true
  | _ => false

/-- One step with its observable output; `none` = the label is not enabled. -/
def stepOut (cfg : Cfg) (s : State) : Label → Option (Out × State)
  | .write bs =>
    if txUsable s.tx then
      match pollWrite cfg.chunk bs s.tx s.ch with
      | (.ok n, t, c) =>
        some (.wrote n, { s with tx := t, ch := c, accepted := s.accepted ++ bs.take n,
                                 lossless := s.lossless && handOverOk s.tx s.ch })
      | (.err e, t, c) => some (.txErr e, { s with tx := t, ch := c, lossless := s.lossless && handOverOk s.tx s.ch })
    else none
  | .flush =>
    if txUsable s.tx then
      match pollFlush s.tx s.ch with
      | (none, t, c) => some (.done, { s with tx := t, ch := c, lossless := s.lossless && handOverOk s.tx s.ch })
      | (some e, t, c) => some (.txErr e, { s with tx := t, ch := c, lossless := s.lossless && handOverOk s.tx s.ch })
    else none
  | .shutdown =>
    if txUsable s.tx then
      match pollShutdown s.tx s.ch with
      | (none, t, c) =>
        some (.done, { s with tx := t, ch := c, lossless := s.lossless && handOverOk s.tx s.ch,
                              announced := match s.tx.mode with
                                           | .unknown => some t.bytesWritten
                                           | .known _ => s.announced })
      | (some e, t, c) => some (.txErr e, { s with tx := t, ch := c, lossless := s.lossless && handOverOk s.tx s.ch })
    else none
  | .dropTx =>
    if s.tx.alive then
      some (.none, { s with tx := { s.tx with alive := false, binOpen := false, sending := none },
                            ch := dropTxChan s.tx s.ch,
                            lossless := s.lossless && s.tx.sending.isNone })
    else none
  | .moveTx =>
    if txUsable s.tx then
      match s.tx.sending with
      | none => some (.none, s)
      | some _ =>
        some (.none, { s with tx := { s.tx with sending := none, binOpen := false }, ch := closeData s.ch,
                              lossless := false })
    else none
  | .read n seg =>
    if rxUsable s.rx then
      match pollRead n seg (readFuel s.ch) s.rx s.ch with
      | (o, r, c) =>
        some (o, { s with rx := r, ch := c, received := s.received ++ outBytes o,
                          eofSeen := s.eofSeen || (o == .data [] && decide (0 < n)),
                          readErr := s.readErr || isRxErr o })
    else none
  | .dropRx =>
    if s.rx.alive then
      some (.none, { s with rx := { s.rx with alive := false }, ch := { s.ch with rxGone := true } })
    else none
  | .cut =>
    if s.cutDone then none
    else
      some (.none, { s with cutDone := true,
                            ch := { s.ch with dataEnd := match s.ch.dataEnd with
                                                         | .open => .broken
                                                         | x => x,
                                              size := match s.ch.size with
                                                      | .pending => .broken
                                                      | x => x } })
  | .notice =>
    if (s.ch.rxGone || s.cutDone || s.severed) && !s.ch.txNoticed then
      some (.none, { s with ch := { s.ch with txNoticed := true } })
    else none
  | .lose =>
    if s.cutDone then
      match s.ch.dataEnd with
      | .closed => some (.none, { s with ch := { s.ch with dataEnd := .broken } })
      | .broken =>
        if s.ch.data.isEmpty then none
        else some (.none, { s with lossless := false, ch := { s.ch with data := s.ch.data.dropLast } })
      | .open => none
    else none
  | .loseSize =>
    if s.cutDone then
      match s.ch.size with
      | .sent _ => some (.none, { s with ch := { s.ch with size := .broken } })
      | _ => none
    else none
  | .sever =>
    if s.severed then none
    else
      some (.none, { s with severed := true, lossless := false,
                            ch := { s.ch with data := [], dataEnd := match s.ch.dataEnd with
                                                                     | .open => .closed
                                                                     | x => x } })

def step (cfg : Cfg) (s : State) (l : Label) : Option State := (stepOut cfg s l).map (·.2)

/-- A schedule is a label list; labels that are not enabled are skipped. -/
def run (cfg : Cfg) (s : State) : List Label → State
  | [] => s
  | l :: ls =>
    match step cfg s l with
    | some s' => run cfg s' ls
    | none => run cfg s ls

def Reachable (cfg : Cfg) (s : State) : Prop := ∃ ls, run cfg (init cfg) ls = s

/-- The outputs of a run, in order (one per enabled label). -/
def outputs (cfg : Cfg) (s : State) : List Label → List (Label × Out)
  | [] => []
  | l :: ls =>
    match stepOut cfg s l with
    | some (o, s') => (l, o) :: outputs cfg s' ls
    | none => outputs cfg s ls

/-- Bytes of the message part the receiver is still holding. -/
def Rx.held (r : Rx) : Bytes := r.buf.getD []

/-- Bytes of the chunk the sender has accepted but not yet handed to the port. -/
def Tx.inFlight (t : Tx) : Bytes := t.sending.getD []

end Remoc.Io
