import RemocModel.Io.Shape

/-!
What `poll_read` returns once the stream has ended: computed from the model by case analysis on
the receiver's state.  Used by the progress statements of C18.
-/

namespace Remoc.Io

/-- Facts about the receiver that hold in every reachable state (collected from `Inv` and `Shape`). -/
structure RxFacts (r : Rx) : Prop where
  shape : RxShape r
  taken : r.sizeInfo = .taken → r.phase = .verifying
  verTaken : r.phase = .verifying → r.sizeInfo = .taken
  recvBuf : r.phase = .receiving → r.buf = none

theorem rxFacts_of {cfg : Cfg} {s : State} (hi : Inv cfg s) (hs : Shape cfg s) : RxFacts s.rx :=
  ⟨hs.rx, hi.rx.taken, hi.rx.verTaken, hi.rx.recvBuf⟩

/-- Sized: once the fixed size has been read, a read reports end-of-file. -/
theorem pollRead_eof_sized (r : Rx) (c : Chan) (n seg N k : Nat) (hf : RxFacts r)
    (hs : r.sizeInfo = .determined N) (hbr : r.bytesRead = N) :
    (pollRead n seg (k + 1) r c).1 = .data [] := by
  obtain ⟨⟨recvBin, recvRoom, eofIdle⟩, taken, verTaken, recvBuf⟩ := hf
  have hidle : r.phase = .idle := by
    cases hp : r.phase with
    | idle => rfl
    | receiving => have := recvRoom hp N hs; omega
    | verifying => have := verTaken hp; rw [hs] at this; cases this
  cases hv : r.eofVerified <;> simp [pollRead, rxComplete, rxIter, remainingAllowed, hidle, hv, hs, hbr]

/-- Unsized: the sender has shut down announcing `m`, the stream has been read completely. -/
theorem pollRead_eof_unsized (r : Rx) (c : Chan) (n seg m k : Nat) (hf : RxFacts r)
    (hd : c.data = []) (he : c.dataEnd = .closed) (hz : c.size = .sent m) (hbr : r.bytesRead = m)
    (hheld : r.buf.getD [] = []) (hdet : ∀ e, r.sizeInfo = .determined e → e = m) :
    (pollRead n seg (k + 4) r c).1 = .data [] := by
  obtain ⟨⟨recvBin, recvRoom, eofIdle⟩, taken, verTaken, recvBuf⟩ := hf
  obtain ⟨alive, binRx, sizeInfo, bytesRead, buf, phase, eofVerified, poisoned⟩ := r
  obtain ⟨data, dataEnd, size, rxGone, txNoticed⟩ := c
  simp only at hd he hz hbr hheld hdet recvBin recvRoom eofIdle taken verTaken recvBuf
  subst hd he hz hbr
  cases eofVerified with
  | true =>
    have := eofIdle rfl; subst this
    simp [pollRead, rxComplete, rxIter]
  | false =>
    cases phase with
    | idle =>
      cases sizeInfo with
      | determined e =>
        have := hdet e rfl; subst this
        simp [pollRead, rxComplete, rxIter, remainingAllowed]
      | undetermined =>
        cases buf with
        | none => cases binRx <;> simp [pollRead, rxComplete, rxIter, rxNext, startEof, remainingAllowed]
        | some b =>
          simp at hheld; subst hheld
          cases binRx <;> simp [pollRead, rxComplete, rxIter, rxNext, startEof, remainingAllowed]
      | taken => have := taken rfl; cases this
    | receiving =>
      have := recvBin rfl; subst this
      have := recvBuf rfl; subst this
      cases sizeInfo with
      | determined e =>
        have := recvRoom rfl e rfl
        have := hdet e rfl
        omega
      | undetermined => simp [pollRead, rxComplete, rxIter, rxNext, startEof, remainingAllowed]
      | taken => have := taken rfl; cases this
    | verifying =>
      have := verTaken rfl; subst this
      simp [pollRead, rxComplete, rxIter]

/-- The stream ended (port closed or broken, nothing left to read) without a usable size
announcement: an unsized receiver reports an error. -/
theorem pollRead_err_unsized (r : Rx) (c : Chan) (n seg k : Nat) (hf : RxFacts r)
    (hd : c.data = []) (he : c.dataEnd ≠ .open) (hz : c.size = .dropped ∨ c.size = .broken)
    (hheld : r.buf.getD [] = []) (hnv : r.eofVerified = false) (hdet : ∀ e, r.sizeInfo ≠ .determined e) :
    isRxErr (pollRead n seg (k + 4) r c).1 = true := by
  obtain ⟨⟨recvBin, recvRoom, eofIdle⟩, taken, verTaken, recvBuf⟩ := hf
  obtain ⟨alive, binRx, sizeInfo, bytesRead, buf, phase, eofVerified, poisoned⟩ := r
  obtain ⟨data, dataEnd, size, rxGone, txNoticed⟩ := c
  simp only at hd he hz hheld hnv hdet recvBin recvRoom eofIdle taken verTaken recvBuf
  subst hd hnv
  have hsz : ∀ x, size ≠ .sent x := by intro x hx; rcases hz with h | h <;> (rw [hx] at h; cases h)
  cases phase with
  | idle =>
    cases sizeInfo with
    | determined e => exact absurd rfl (hdet e)
    | taken => have := taken rfl; cases this
    | undetermined =>
      have hbuf : buf = none ∨ buf = some [] := by
        cases buf with
        | none => exact Or.inl rfl
        | some b => simp at hheld; subst hheld; exact Or.inr rfl
      rcases hbuf with rfl | rfl <;> cases binRx <;> cases dataEnd <;> rcases hz with rfl | rfl <;>
        simp_all [pollRead, rxComplete, rxIter, rxNext, startEof, remainingAllowed, isRxErr]
  | receiving =>
    have := recvBin rfl; subst this
    have := recvBuf rfl; subst this
    cases sizeInfo with
    | determined e => exact absurd rfl (hdet e)
    | taken => have := taken rfl; cases this
    | undetermined =>
      cases dataEnd <;> rcases hz with rfl | rfl <;>
        simp_all [pollRead, rxComplete, rxIter, rxNext, startEof, remainingAllowed, isRxErr]
  | verifying =>
    rcases hz with rfl | rfl <;> simp [pollRead, rxComplete, isRxErr]

/-- The stream ended before the fixed size was reached: a sized receiver reports an error. -/
theorem pollRead_err_sized (r : Rx) (c : Chan) (n seg N k : Nat) (hf : RxFacts r)
    (hd : c.data = []) (he : c.dataEnd ≠ .open) (hs : r.sizeInfo = .determined N) (hlt : r.bytesRead < N)
    (hheld : r.buf.getD [] = []) (hnv : r.eofVerified = false) :
    isRxErr (pollRead n seg (k + 4) r c).1 = true := by
  obtain ⟨⟨recvBin, recvRoom, eofIdle⟩, taken, verTaken, recvBuf⟩ := hf
  obtain ⟨alive, binRx, sizeInfo, bytesRead, buf, phase, eofVerified, poisoned⟩ := r
  obtain ⟨data, dataEnd, size, rxGone, txNoticed⟩ := c
  simp only at hd he hs hlt hheld hnv recvBin recvRoom eofIdle taken verTaken recvBuf
  subst hd hnv hs
  have hne : N - bytesRead ≠ 0 := by omega
  have hne2 : bytesRead ≠ N := by omega
  cases phase with
  | idle =>
    have hbuf : buf = none ∨ buf = some [] := by
      cases buf with
      | none => exact Or.inl rfl
      | some b => simp at hheld; subst hheld; exact Or.inr rfl
    rcases hbuf with rfl | rfl <;> cases binRx <;> cases dataEnd <;>
      simp_all [pollRead, rxComplete, rxIter, rxNext, startEof, remainingAllowed, isRxErr]
  | receiving =>
    have := recvBin rfl; subst this
    have := recvBuf rfl; subst this
    cases dataEnd <;> simp_all [pollRead, rxComplete, rxIter, rxNext, startEof, remainingAllowed, isRxErr]
  | verifying => have := verTaken rfl; cases this

end Remoc.Io
