import RemocModel.Io.Lemmas

/-!
The invariant of M_io and its preservation by every label.  The invariant is split into three
groups, each a predicate over just the components it mentions, so that a step which does not touch
a group carries it over by definitional unfolding.
-/

namespace Remoc.Io

/-- Sender side: counters, mode, announced size. -/
structure TxInv (cfg : Cfg) (tx : Tx) (size : SizeChan) (accepted : Bytes) (announced : Option Nat) : Prop where
  /-- the sender's counter is the number of bytes accepted -/
  bw : tx.bytesWritten = accepted.length
  /-- until shutdown the sender's mode is the one fixed at creation -/
  modeOpen : tx.binOpen = true → tx.mode = modeOf cfg.fixed
  /-- never more accepted than the fixed size -/
  fixedBound : ∀ N, cfg.fixed = some N → accepted.length ≤ N
  /-- an announced size is the final number of accepted bytes -/
  ann : ∀ m, announced = some m → m = accepted.length ∧ tx.binOpen = false ∧ cfg.fixed = none
  sizeSent : ∀ m, size = .sent m → announced = some m
  unknownFresh : tx.mode = .unknown → announced = none ∧ ∀ m, size ≠ .sent m
  unknownCfg : tx.mode = .unknown → cfg.fixed = none
  /-- on an unsized channel the mode becomes `Known` only by a shutdown, which announces -/
  knownAnn : cfg.fixed = none → ∀ e, tx.mode = .known e → ∃ m, announced = some m

/-- Accounting of the accepted bytes. -/
structure Acct (accepted received held : Bytes) (data : List Bytes) (inFlight : Bytes)
    (lossless : Bool) (dataEnd : DataEnd) : Prop where
  /-- what was read, what the receiver holds and what is in the port is a prefix of what was accepted -/
  pre : ∃ rest, accepted = received ++ held ++ data.flatten ++ rest
  /-- as long as nothing was lost every accepted byte is in exactly one place -/
  exact : lossless = true → accepted = received ++ held ++ data.flatten ++ inFlight
  /-- nothing can have been lost while the port is open -/
  openLossless : dataEnd = .open → lossless = true

/-- Receiver side. -/
structure RxInv (cfg : Cfg) (rx : Rx) (received : Bytes) (announced : Option Nat) (eofSeen : Bool) : Prop where
  /-- the receiver's counter is the number of bytes handed out -/
  br : rx.bytesRead = received.length
  infoSized : ∀ N, cfg.fixed = some N → rx.sizeInfo = .determined N
  infoUnsized : cfg.fixed = none → ∀ m, rx.sizeInfo = .determined m → announced = some m
  /-- end-of-file is verified only against the fixed or the announced size -/
  eofV : rx.eofVerified = true →
    (∃ N, cfg.fixed = some N ∧ received.length = N) ∨ (cfg.fixed = none ∧ announced = some received.length)
  eofS : eofSeen = true → rx.eofVerified = true
  taken : rx.sizeInfo = .taken → rx.phase = .verifying
  verTaken : rx.phase = .verifying → rx.sizeInfo = .taken
  recvBuf : rx.phase = .receiving → rx.buf = none

structure Inv (cfg : Cfg) (s : State) : Prop where
  tx : TxInv cfg s.tx s.ch.size s.accepted s.announced
  acct : Acct s.accepted s.received s.rx.held s.ch.data s.tx.inFlight s.lossless s.ch.dataEnd
  rx : RxInv cfg s.rx s.received s.announced s.eofSeen

theorem inv_init (cfg : Cfg) : Inv cfg (init cfg) := by
  refine ⟨⟨?_, ?_, ?_, ?_, ?_, ?_, ?_, ?_⟩, ⟨?_, ?_, ?_⟩, ⟨?_, ?_, ?_, ?_, ?_, ?_, ?_, ?_⟩⟩ <;>
    simp [init, Rx.held, Tx.inFlight]
  · cases hf : cfg.fixed <;> simp [modeOf]
  · intro hf; simp [hf, modeOf]
  · intro N h; simp [h, infoOf]
  · intro h; simp [h, infoOf]
  · cases hf : cfg.fixed <;> simp [infoOf]

/-! ### the sender's `poll_complete` -/

/-- The state after the sender's `poll_complete`. -/
def State.handOver (s : State) (t : Tx) (c : Chan) : State :=
  { s with tx := t, ch := c, lossless := s.lossless && handOverOk s.tx s.ch }

/-- What `txComplete` leaves alone. -/
theorem txComplete_frame {t t' : Tx} {c c' : Chan} {e : Option Err} (hc : txComplete t c = (e, t', c')) :
    t'.alive = t.alive ∧ t'.mode = t.mode ∧ t'.bytesWritten = t.bytesWritten ∧ t'.sending = none ∧
    c'.size = c.size ∧ c'.rxGone = c.rxGone ∧ c'.txNoticed = c.txNoticed ∧
    (t'.binOpen = true → t.binOpen = true) ∧
    (e = none → t'.binOpen = t.binOpen ∧ t'.failed = t.failed) ∧
    (∀ x, e = some x → t'.failed = true ∧ t'.binOpen = false ∧ x = .connReset) := by
  rcases txComplete_cases t c with ⟨hs, hr⟩ | ⟨m, hs, hn, hr⟩ | ⟨m, hs, hn, hd, hr⟩ | ⟨m, hs, hn, hd, hr⟩
  all_goals (rw [hr] at hc; simp only [Prod.mk.injEq] at hc; obtain ⟨rfl, rfl, rfl⟩ := hc; simp [hs])

theorem handOver_inv {cfg : Cfg} {s : State} {e : Option Err} {t : Tx} {c : Chan}
    (h : Inv cfg s) (hc : txComplete s.tx s.ch = (e, t, c)) : Inv cfg (s.handOver t c) := by
  obtain ⟨⟨bw, modeOpen, fixedBound, ann, sizeSent, unknownFresh, unknownCfg, knownAnn⟩, ⟨pre, exact, openLossless⟩, hrx⟩ := h
  obtain ⟨_, hmode, hbw, hsend, hsize, _, _, hopen, _, _⟩ := txComplete_frame hc
  refine ⟨⟨?_, ?_, fixedBound, ?_, ?_, ?_, ?_, ?_⟩, ?_, hrx⟩
  · simpa [State.handOver, hbw] using bw
  · intro hb; simpa [State.handOver, hmode] using modeOpen (hopen hb)
  · intro m hm
    obtain ⟨h1, h2, h3⟩ := ann m hm
    refine ⟨h1, ?_, h3⟩
    cases hb : t.binOpen with
    | false => exact hb
    | true => rw [hopen hb] at h2; cases h2
  · simpa [State.handOver, hsize] using sizeSent
  · simpa [State.handOver, hsize, hmode] using unknownFresh
  · simpa [State.handOver, hmode] using unknownCfg
  · simpa [State.handOver, hmode] using knownAnn
  · -- accounting
    rcases txComplete_cases s.tx s.ch with ⟨hs, hr⟩ | ⟨m, hs, hn, hr⟩ | ⟨m, hs, hn, hd, hr⟩ | ⟨m, hs, hn, hd, hr⟩
    all_goals (rw [hr] at hc; simp only [Prod.mk.injEq] at hc; obtain ⟨rfl, rfl, rfl⟩ := hc)
    · have ho := handOverOk_none (c := s.ch) hs
      exact ⟨pre, by simpa [State.handOver, ho] using exact, by simpa [State.handOver, ho] using openLossless⟩
    · have ho := handOverOk_lost (c := s.ch) hs (Or.inl hn)
      have hne := closeData_dataEnd_ne_open s.ch
      exact ⟨by simpa [State.handOver] using pre, by simp [State.handOver, ho],
        by intro h; exact absurd h hne⟩
    · have ho := handOverOk_open (t := s.tx) hn hd
      have hl := openLossless hd
      have hex := exact hl
      simp only [Tx.inFlight, hs, Option.getD_some] at hex
      refine ⟨⟨[], ?_⟩, ?_, ?_⟩
      · simp [State.handOver, hex]
      · intro _; simp [State.handOver, hex, Tx.inFlight]
      · intro _; simp [State.handOver, ho, hl]
    · have ho := handOverOk_lost (c := s.ch) hs (Or.inr hd)
      exact ⟨by simpa [State.handOver] using pre, by simp [State.handOver, ho],
        by intro h; exact absurd h hd⟩

theorem handOver_sending {s : State} {e : Option Err} {t : Tx} {c : Chan}
    (hc : txComplete s.tx s.ch = (e, t, c)) : (s.handOver t c).tx.sending = none :=
  (txComplete_frame hc).2.2.2.1

/-! ### `poll_write` after the hand-over -/

theorem writeCore_cases (chunk : Nat) (bs : Bytes) (t : Tx) :
    (t.binOpen = false ∧ writeCore chunk bs t = (.err .brokenPipe, t)) ∨
    (t.binOpen = true ∧ bs = [] ∧ writeCore chunk bs t = (.ok 0, t)) ∨
    (∃ e, t.binOpen = true ∧ bs ≠ [] ∧ t.mode = .known e ∧ e ≤ t.bytesWritten ∧
      writeCore chunk bs t = (.err .writeZero, t)) ∨
    (∃ e n, t.binOpen = true ∧ bs ≠ [] ∧ t.mode = .known e ∧ t.bytesWritten < e ∧
      n = min (min bs.length (e - t.bytesWritten)) chunk ∧
      writeCore chunk bs t = (.ok n, { t with bytesWritten := t.bytesWritten + n, sending := some (bs.take n) })) ∨
    (∃ n, t.binOpen = true ∧ bs ≠ [] ∧ t.mode = .unknown ∧ n = min bs.length chunk ∧
      writeCore chunk bs t = (.ok n, { t with bytesWritten := t.bytesWritten + n, sending := some (bs.take n) })) := by
  unfold writeCore
  cases hb : t.binOpen with
  | false => simp
  | true =>
    cases bs with
    | nil => simp
    | cons x xs =>
      cases hm : t.mode with
      | unknown => simp
      | known e =>
        by_cases he : e ≤ t.bytesWritten
        · simp [he]
        · simp [he]; omega

/-- Bytes accepted by a write result. -/
def acceptedOf (bs : Bytes) : WRes → Bytes
  | .ok n => bs.take n
  | .err _ => []

theorem writeCore_inv {cfg : Cfg} {s : State} {bs : Bytes} {res : WRes} {t : Tx}
    (h : Inv cfg s) (hs : s.tx.sending = none) (hw : writeCore cfg.chunk bs s.tx = (res, t)) :
    Inv cfg { s with tx := t, accepted := s.accepted ++ acceptedOf bs res } := by
  obtain ⟨⟨bw, modeOpen, fixedBound, ann, sizeSent, unknownFresh, unknownCfg, knownAnn⟩, ⟨pre, exact, openLossless⟩, hrx⟩ := h
  have hin : s.tx.inFlight = [] := by simp [Tx.inFlight, hs]
  have same : Inv cfg { s with tx := s.tx, accepted := s.accepted ++ [] } := by
    refine ⟨⟨?_, modeOpen, ?_, ?_, sizeSent, unknownFresh, unknownCfg, knownAnn⟩, ⟨?_, ?_, openLossless⟩, hrx⟩
    · simpa using bw
    · simpa using fixedBound
    · simpa using ann
    · simpa using pre
    · simpa using exact
  rcases writeCore_cases cfg.chunk bs s.tx with ⟨hb, hr⟩ | ⟨hb, hbs, hr⟩ | ⟨e, hb, hbs, hm, hle, hr⟩ |
      ⟨e, n, hb, hbs, hm, hlt, hn, hr⟩ | ⟨n, hb, hbs, hm, hn, hr⟩
  all_goals (rw [hr] at hw; simp only [Prod.mk.injEq] at hw; obtain ⟨rfl, rfl⟩ := hw)
  · exact same
  · simpa [acceptedOf] using same
  · exact same
  · -- sized, accepted
    have hmo := modeOpen hb
    rw [hm] at hmo
    have hfix : cfg.fixed = some e := by
      cases hf : cfg.fixed with
      | none => rw [hf] at hmo; simp [modeOf] at hmo
      | some N => rw [hf] at hmo; simp [modeOf] at hmo; rw [hmo]
    have hnle : n ≤ bs.length := by omega
    have hlen : (bs.take n).length = n := by simp [List.length_take]; omega
    refine ⟨⟨?_, ?_, ?_, ?_, sizeSent, ?_, ?_, ?_⟩, ⟨?_, ?_, openLossless⟩, hrx⟩
    · simp [acceptedOf, hlen, bw]
    · intro _; simpa [hm] using hmo
    · intro N hN
      rw [hfix] at hN; cases hN
      simp [acceptedOf, hlen]; omega
    · intro m hmm
      have := (ann m hmm).2.2
      rw [hfix] at this; cases this
    · intro hu; simp [hm] at hu
    · intro hu; simp [hm] at hu
    · intro hf; rw [hfix] at hf; cases hf
    · obtain ⟨rest, hrest⟩ := pre
      refine ⟨rest ++ bs.take n, ?_⟩
      show s.accepted ++ bs.take n = s.received ++ s.rx.held ++ s.ch.data.flatten ++ (rest ++ bs.take n)
      rw [hrest]; simp
    · intro hl
      have := exact hl
      rw [hin] at this
      show s.accepted ++ bs.take n = s.received ++ s.rx.held ++ s.ch.data.flatten ++ bs.take n
      rw [this]; simp
  · -- unsized, accepted
    have hmo := modeOpen hb
    rw [hm] at hmo
    have hfix : cfg.fixed = none := by
      cases hf : cfg.fixed with
      | none => rfl
      | some N => rw [hf] at hmo; simp [modeOf] at hmo
    have hlen : (bs.take n).length = n := by simp [List.length_take]; omega
    refine ⟨⟨?_, ?_, ?_, ?_, sizeSent, ?_, ?_, ?_⟩, ⟨?_, ?_, openLossless⟩, hrx⟩
    · simp [acceptedOf, hlen, bw]
    · intro _; simpa [hm] using hmo
    · intro N hN; rw [hfix] at hN; cases hN
    · intro m hmm
      have := (unknownFresh hm).1
      rw [this] at hmm; cases hmm
    · intro _; exact unknownFresh hm
    · intro _; exact hfix
    · intro _ e he; simp [hm] at he
    · obtain ⟨rest, hrest⟩ := pre
      refine ⟨rest ++ bs.take n, ?_⟩
      show s.accepted ++ bs.take n = s.received ++ s.rx.held ++ s.ch.data.flatten ++ (rest ++ bs.take n)
      rw [hrest]; simp
    · intro hl
      have := exact hl
      rw [hin] at this
      show s.accepted ++ bs.take n = s.received ++ s.rx.held ++ s.ch.data.flatten ++ bs.take n
      rw [this]; simp

/-! ### `poll_shutdown` after the hand-over -/

theorem shutdownCore_cases (t : Tx) (c : Chan) :
    (∃ e, t.mode = .known e ∧ t.bytesWritten = e ∧
      shutdownCore t c = (none, { t with binOpen := false, mode := .known t.bytesWritten }, closeData c)) ∨
    (∃ e, t.mode = .known e ∧ t.bytesWritten ≠ e ∧
      shutdownCore t c = (some .unexpectedEof, { t with binOpen := false, mode := .known t.bytesWritten }, closeData c)) ∨
    (t.mode = .unknown ∧ c.size = .pending ∧
      shutdownCore t c = (none, { t with binOpen := false, mode := .known t.bytesWritten },
        { closeData c with size := .sent t.bytesWritten })) ∨
    (t.mode = .unknown ∧ c.size ≠ .pending ∧
      shutdownCore t c = (none, { t with binOpen := false, mode := .known t.bytesWritten }, closeData c)) := by
  unfold shutdownCore
  cases hm : t.mode with
  | known e => by_cases he : t.bytesWritten = e <;> simp [he]
  | unknown =>
    cases hs : c.size <;> simp [hs]

/-- The announcement made by a shutdown. -/
def announcedBy (s : State) : Option Nat :=
  match s.tx.mode with
  | .unknown => some s.tx.bytesWritten
  | .known _ => s.announced

theorem shutdownCore_inv {cfg : Cfg} {s : State} {e : Option Err} {t : Tx} {c : Chan}
    (h : Inv cfg s) (hs : s.tx.sending = none) (hw : shutdownCore s.tx s.ch = (e, t, c)) :
    Inv cfg { s with tx := t, ch := c, announced := announcedBy s } := by
  obtain ⟨⟨bw, modeOpen, fixedBound, ann, sizeSent, unknownFresh, unknownCfg, knownAnn⟩, ⟨pre, exact, openLossless⟩,
    ⟨br, infoSized, infoUnsized, eofV, eofS, taken, verTaken, recvBuf⟩⟩ := h
  have hne := closeData_dataEnd_ne_open s.ch
  -- the parts that do not depend on the case
  have hacct : ∀ c' : Chan, c'.data = s.ch.data → c'.dataEnd ≠ .open → ∀ t' : Tx, t'.sending = none →
      Acct s.accepted s.received s.rx.held c'.data t'.inFlight s.lossless c'.dataEnd := by
    intro c' hd hne' t' ht'
    refine ⟨by simpa [hd] using pre, ?_, fun h => absurd h hne'⟩
    intro hl
    have := exact hl
    simpa [hd, Tx.inFlight, ht', hs] using this
  rcases shutdownCore_cases s.tx s.ch with ⟨x, hm, hx, hr⟩ | ⟨x, hm, hx, hr⟩ | ⟨hm, hp, hr⟩ | ⟨hm, hp, hr⟩
  all_goals (rw [hr] at hw; simp only [Prod.mk.injEq] at hw; obtain ⟨rfl, rfl, rfl⟩ := hw)
  · have ha : announcedBy s = s.announced := by simp [announcedBy, hm]
    rw [ha]
    refine ⟨⟨bw, by simp, fixedBound, ?_, by simpa using sizeSent, by simp, by simp, ?_⟩,
      hacct _ (by simp) hne _ (by simp [hs]), ⟨br, infoSized, infoUnsized, eofV, eofS, taken, verTaken, recvBuf⟩⟩
    · intro m hmm; obtain ⟨h1, _, h3⟩ := ann m hmm; exact ⟨h1, rfl, h3⟩
    · intro hf _ _; exact knownAnn hf x hm
  · have ha : announcedBy s = s.announced := by simp [announcedBy, hm]
    rw [ha]
    refine ⟨⟨bw, by simp, fixedBound, ?_, by simpa using sizeSent, by simp, by simp, ?_⟩,
      hacct _ (by simp) hne _ (by simp [hs]), ⟨br, infoSized, infoUnsized, eofV, eofS, taken, verTaken, recvBuf⟩⟩
    · intro m hmm; obtain ⟨h1, _, h3⟩ := ann m hmm; exact ⟨h1, rfl, h3⟩
    · intro hf _ _; exact knownAnn hf x hm
  · have ha : announcedBy s = some s.tx.bytesWritten := by simp [announcedBy, hm]
    have hfix := unknownCfg hm
    have hnone := (unknownFresh hm).1
    rw [ha]
    refine ⟨⟨bw, by simp, fixedBound, ?_, ?_, by simp, by simp, (fun _ _ _ => ⟨_, rfl⟩)⟩,
      hacct _ (by simp) (by simpa using hne) _ (by simp [hs]), ⟨br, infoSized, ?_, ?_, eofS, taken, verTaken, recvBuf⟩⟩
    · intro m hmm; simp at hmm; exact ⟨by show m = s.accepted.length; rw [← hmm]; exact bw, rfl, hfix⟩
    · intro m hmm; simp at hmm; simp [hmm]
    · intro _ m hmm; have := infoUnsized hfix m hmm; rw [hnone] at this; cases this
    · intro hv
      rcases eofV hv with ⟨N, hN, _⟩ | ⟨_, h2⟩
      · rw [hfix] at hN; cases hN
      · rw [hnone] at h2; cases h2
  · have ha : announcedBy s = some s.tx.bytesWritten := by simp [announcedBy, hm]
    have hfix := unknownCfg hm
    have hnone := (unknownFresh hm).1
    rw [ha]
    refine ⟨⟨bw, by simp, fixedBound, ?_, ?_, by simp, by simp, (fun _ _ _ => ⟨_, rfl⟩)⟩,
      hacct _ (by simp) hne _ (by simp [hs]), ⟨br, infoSized, ?_, ?_, eofS, taken, verTaken, recvBuf⟩⟩
    · intro m hmm; simp at hmm; exact ⟨by show m = s.accepted.length; rw [← hmm]; exact bw, rfl, hfix⟩
    · intro m hmm; simp at hmm; exact absurd hmm ((unknownFresh hm).2 m)
    · intro _ m hmm; have := infoUnsized hfix m hmm; rw [hnone] at this; cases this
    · intro hv
      rcases eofV hv with ⟨N, hN, _⟩ | ⟨_, h2⟩
      · rw [hfix] at hN; cases hN
      · rw [hnone] at h2; cases h2

/-! ### the receiver -/

theorem flatten_length_le_of_prefix {accepted received held : Bytes} {data : List Bytes}
    (h : ∃ rest, accepted = received ++ held ++ data.flatten ++ rest) : received.length ≤ accepted.length := by
  obtain ⟨rest, h⟩ := h
  rw [h]; simp

/-- `poll_complete` of the receiver preserves the invariant, whatever its outcome. -/
theorem rxComplete_inv {cfg : Cfg} {s : State} {k : Complete} {r : Rx} {c : Chan}
    (h : Inv cfg s) (hc : rxComplete s.rx s.ch = (k, r, c)) :
    Inv cfg { s with rx := r, ch := c } ∧ (s.rx.eofVerified = true → r.eofVerified = true) ∧
    (k = .cont → r.phase = .idle) ∧ r.alive = s.rx.alive := by
  obtain ⟨⟨bw, modeOpen, fixedBound, ann, sizeSent, unknownFresh, unknownCfg, knownAnn⟩, ⟨pre, exact, openLossless⟩,
    ⟨br, infoSized, infoUnsized, eofV, eofS, taken, verTaken, recvBuf⟩⟩ := h
  have htx : TxInv cfg s.tx s.ch.size s.accepted s.announced :=
    ⟨bw, modeOpen, fixedBound, ann, sizeSent, unknownFresh, unknownCfg, knownAnn⟩
  rcases rxComplete_cases s.rx s.ch with ⟨hp, hr⟩ | ⟨m, rest, hp, hd, hr⟩ | ⟨hp, hd, he, hr⟩ | ⟨hp, hd, he, hr⟩ |
    ⟨hp, hd, he, hr⟩ | ⟨hp, hz, hr⟩ | ⟨m, hp, hz, hne, hr⟩ | ⟨m, hp, hz, heq, hr⟩ | ⟨hp, hz, hr⟩
  all_goals (rw [hr] at hc; simp only [Prod.mk.injEq] at hc; obtain ⟨rfl, rfl, rfl⟩ := hc)
  · exact ⟨⟨htx, ⟨pre, exact, openLossless⟩, ⟨br, infoSized, infoUnsized, eofV, eofS, taken, verTaken, recvBuf⟩⟩,
      id, fun _ => hp, rfl⟩
  · -- a message is taken off the port
    have hb := recvBuf hp
    have hheld : s.rx.held = [] := by simp [Rx.held, hb]
    have hnt : s.rx.sizeInfo ≠ .taken := by
      intro ht; have := taken ht; rw [hp] at this; cases this
    refine ⟨⟨htx, ⟨?_, ?_, openLossless⟩, ⟨br, infoSized, infoUnsized, eofV, eofS, ?_, ?_, ?_⟩⟩, id, fun _ => rfl, rfl⟩
    · obtain ⟨x, hx⟩ := pre
      refine ⟨x, ?_⟩
      show s.accepted = s.received ++ m ++ rest.flatten ++ x
      rw [hx, hheld, hd]; simp
    · intro hl
      have := exact hl
      show s.accepted = s.received ++ m ++ rest.flatten ++ s.tx.inFlight
      rw [this, hheld, hd]; simp
    · intro ht; exact absurd ht hnt
    · intro hv; simp at hv
    · intro hv; simp at hv
  · exact ⟨⟨htx, ⟨pre, exact, openLossless⟩, ⟨br, infoSized, infoUnsized, eofV, eofS, taken, verTaken, recvBuf⟩⟩,
      id, (fun h => by cases h), rfl⟩
  · -- end of stream
    have hb := recvBuf hp
    have hnt : s.rx.sizeInfo ≠ .taken := by
      intro ht; have := taken ht; rw [hp] at this; cases this
    refine ⟨⟨htx, ⟨?_, ?_, openLossless⟩, ⟨br, infoSized, infoUnsized, eofV, eofS, ?_, ?_, ?_⟩⟩, id, fun _ => rfl, rfl⟩
    · simpa [Rx.held, hb] using pre
    · simpa [Rx.held, hb] using exact
    · intro ht; exact absurd ht hnt
    · intro hv; simp at hv
    · intro hv; simp at hv
  · exact ⟨⟨htx, ⟨pre, exact, openLossless⟩, ⟨br, infoSized, infoUnsized, eofV, eofS, taken, verTaken, recvBuf⟩⟩,
      id, (fun h => by cases h), rfl⟩
  · exact ⟨⟨htx, ⟨pre, exact, openLossless⟩, ⟨br, infoSized, infoUnsized, eofV, eofS, taken, verTaken, recvBuf⟩⟩,
      id, (fun h => by cases h), rfl⟩
  · -- size arrived, mismatch
    have hann := sizeSent m hz
    have hfix := (ann m hann).2.2
    refine ⟨⟨htx, ⟨pre, exact, openLossless⟩, ⟨br, ?_, ?_, eofV, eofS, ?_, ?_, ?_⟩⟩, id, (fun h => by cases h), rfl⟩
    · intro N hN; rw [hfix] at hN; cases hN
    · intro _ m' hm'; simp at hm'; rw [← hm']; exact hann
    · intro ht; simp at ht
    · intro hv; simp at hv
    · intro hv; simp at hv
  · -- size arrived, match
    have hann := sizeSent m hz
    have hfix := (ann m hann).2.2
    refine ⟨⟨htx, ⟨pre, exact, openLossless⟩, ⟨br, ?_, ?_, ?_, ?_, ?_, ?_, ?_⟩⟩, fun _ => rfl, fun _ => rfl, rfl⟩
    · intro N hN; rw [hfix] at hN; cases hN
    · intro _ m' hm'; simp at hm'; rw [← hm']; exact hann
    · intro _; right; refine ⟨hfix, ?_⟩; rw [← br, heq]; exact hann
    · intro _; rfl
    · intro ht; simp at ht
    · intro hv; simp at hv
    · intro hv; simp at hv
  · exact ⟨⟨htx, ⟨pre, exact, openLossless⟩, ⟨br, infoSized, infoUnsized, eofV, eofS, taken, verTaken, recvBuf⟩⟩,
      id, (fun h => by cases h), rfl⟩

def iterBytes : Iter → Bytes
  | .ret o => outBytes o
  | .again => []

/-- Reaching the expected size verifies the end of file soundly. -/
theorem eof_sound {cfg : Cfg} {s : State} (h : Inv cfg s) {e : Nat}
    (hs : s.rx.sizeInfo = .determined e) (hle : e ≤ s.rx.bytesRead) :
    (∃ N, cfg.fixed = some N ∧ s.received.length = N) ∨
    (cfg.fixed = none ∧ s.announced = some s.received.length) := by
  have hlen := flatten_length_le_of_prefix h.acct.pre
  have hbr := h.rx.br
  cases hf : cfg.fixed with
  | some N =>
    left
    have := h.rx.infoSized N hf
    rw [hs] at this; cases this
    have := h.tx.fixedBound _ hf
    exact ⟨_, rfl, by omega⟩
  | none =>
    right
    have hann := h.rx.infoUnsized hf e hs
    have := (h.tx.ann e hann).1
    refine ⟨rfl, ?_⟩
    rw [hann]; congr 1; omega

/-- The body of the read loop preserves the invariant; the bytes it returns are appended to `received`. -/
theorem rxIter_inv {cfg : Cfg} {s : State} {n seg : Nat} {it : Iter} {r : Rx} {rcv : Bytes}
    (h : Inv cfg s) (hidle : s.rx.phase = .idle) (hi : rxIter n seg s.rx = (it, r))
    (hrcv : rcv = s.received ++ iterBytes it) :
    Inv cfg { s with rx := r, received := rcv } ∧
    (s.rx.eofVerified = true → r.eofVerified = true) ∧
    (it = .ret (.data []) → 0 < n → r.eofVerified = true) ∧ r.alive = s.rx.alive := by
  have hsound := @eof_sound cfg s h
  obtain ⟨htx, ⟨pre, exact, openLossless⟩, ⟨br, infoSized, infoUnsized, eofV, eofS, taken, verTaken, recvBuf⟩⟩ := h
  have hnt : s.rx.sizeInfo ≠ .taken := by
    intro ht; have := taken ht; rw [hidle] at this; cases this
  -- the tail shared by the last two cases: `rxNext` on a receiver without buffered bytes
  have next : ∀ r0 : Rx, r0 = { s.rx with buf := none } → s.rx.buf.getD [] = [] → s.rx.eofVerified = false →
      rxNext r0 = (it, r) →
      Inv cfg { s with rx := r, received := rcv } ∧
      (s.rx.eofVerified = true → r.eofVerified = true) ∧
      (it = .ret (.data []) → 0 < n → r.eofVerified = true) ∧ r.alive = s.rx.alive := by
    intro r0 hr0 hheld hv hn
    subst hr0
    rcases rxNext_cases { s.rx with buf := none } with ⟨hb, hr⟩ | ⟨hb, hr⟩
    · rw [hr] at hn; simp only [Prod.mk.injEq] at hn; obtain ⟨rfl, rfl⟩ := hn
      have : rcv = s.received := by rw [hrcv]; simp [iterBytes]
      subst this
      refine ⟨⟨htx, ⟨?_, ?_, openLossless⟩, ⟨br, infoSized, infoUnsized, eofV, eofS, ?_, ?_, ?_⟩⟩, id,
        (fun h => by cases h), rfl⟩
      · simpa [Rx.held, hheld] using pre
      · simpa [Rx.held, hheld] using exact
      · intro ht; exact absurd ht hnt
      · intro hp; simp at hp
      · intro _; rfl
    · rw [hr] at hn
      rcases startEof_cases { s.rx with buf := none } with ⟨e, hs, hne, hq⟩ | ⟨e, hs, heq, hq⟩ | ⟨hs, hq⟩ | ⟨hs, hq⟩
      all_goals (rw [hq] at hn; simp only [Prod.mk.injEq] at hn; obtain ⟨rfl, rfl⟩ := hn)
      all_goals (have hrcv' : rcv = s.received := by rw [hrcv]; simp [iterBytes, outBytes])
      all_goals (subst hrcv')
      · refine ⟨⟨htx, ⟨?_, ?_, openLossless⟩, ⟨br, infoSized, infoUnsized, eofV, eofS, taken, verTaken, ?_⟩⟩, id,
          (fun h => by simp at h), rfl⟩
        · simpa [Rx.held, hheld] using pre
        · simpa [Rx.held, hheld] using exact
        · intro _; rfl
      · have hs' : s.rx.sizeInfo = .determined e := hs
        have heq' : s.rx.bytesRead = e := heq
        refine ⟨⟨htx, ⟨?_, ?_, openLossless⟩, ⟨br, infoSized, infoUnsized, ?_, ?_, taken, verTaken, ?_⟩⟩,
          (fun _ => rfl), (fun h => by cases h), rfl⟩
        · simpa [Rx.held, hheld] using pre
        · simpa [Rx.held, hheld] using exact
        · intro _; exact hsound hs' (by omega)
        · intro _; rfl
        · intro _; rfl
      · have hs' : s.rx.sizeInfo = .undetermined := hs
        refine ⟨⟨htx, ⟨?_, ?_, openLossless⟩, ⟨br, ?_, ?_, eofV, eofS, ?_, ?_, ?_⟩⟩, id, (fun h => by cases h), rfl⟩
        · simpa [Rx.held, hheld] using pre
        · simpa [Rx.held, hheld] using exact
        · intro N hN; have := infoSized N hN; rw [hs'] at this; cases this
        · intro _ m hm; simp at hm
        · intro _; rfl
        · intro _; rfl
        · intro hp; simp at hp
      · exact absurd hs hnt
  rcases rxIter_cases n seg s.rx with ⟨hv, hr⟩ | ⟨hv, hrem, hr⟩ | ⟨b, hv, hrem, hb, hne, hr⟩ | ⟨hv, hrem, hb, hr⟩ |
    ⟨hv, hrem, hb, hr⟩
  · rw [hr] at hi; simp only [Prod.mk.injEq] at hi; obtain ⟨rfl, rfl⟩ := hi
    have : rcv = s.received := by rw [hrcv]; simp [iterBytes, outBytes]
    subst this
    exact ⟨⟨htx, ⟨pre, exact, openLossless⟩, ⟨br, infoSized, infoUnsized, eofV, eofS, taken, verTaken, recvBuf⟩⟩, id,
      (fun _ _ => hv), rfl⟩
  · -- the expected size is reached
    rw [hr] at hi; simp only [Prod.mk.injEq] at hi; obtain ⟨rfl, rfl⟩ := hi
    have : rcv = s.received := by rw [hrcv]; simp [iterBytes, outBytes]
    subst this
    have hdet : ∃ e, s.rx.sizeInfo = .determined e ∧ e ≤ s.rx.bytesRead := by
      unfold remainingAllowed at hrem
      cases hs : s.rx.sizeInfo with
      | determined e => rw [hs] at hrem; simp at hrem; exact ⟨e, rfl, by omega⟩
      | undetermined => rw [hs] at hrem; simp at hrem
      | taken => rw [hs] at hrem; simp at hrem
    obtain ⟨e, hs, hle⟩ := hdet
    refine ⟨⟨htx, ⟨pre, exact, openLossless⟩, ⟨br, infoSized, infoUnsized, ?_, ?_, taken, verTaken, recvBuf⟩⟩,
      (fun _ => rfl), (fun _ _ => rfl), rfl⟩
    · intro _; exact hsound hs hle
    · intro _; rfl
  · -- bytes are copied out of the current message
    rw [hr] at hi; simp only [Prod.mk.injEq] at hi; obtain ⟨rfl, rfl⟩ := hi
    have hk := copyLen_le_length n seg (remainingAllowed s.rx) b
    have hheld : s.rx.held = b := by simp [Rx.held, hb]
    have hsplit : b.take (copyLen n seg (remainingAllowed s.rx) b) ++ b.drop (copyLen n seg (remainingAllowed s.rx) b) = b :=
      List.take_append_drop _ _
    have hsplit' : ∀ x : Bytes, b.take (copyLen n seg (remainingAllowed s.rx) b) ++
        (b.drop (copyLen n seg (remainingAllowed s.rx) b) ++ x) = b ++ x := by
      intro x; rw [← List.append_assoc, hsplit]
    have : rcv = s.received ++ b.take (copyLen n seg (remainingAllowed s.rx) b) := by
      rw [hrcv]; simp [iterBytes, outBytes]
    subst this
    refine ⟨⟨htx, ⟨?_, ?_, openLossless⟩, ⟨?_, infoSized, infoUnsized, ?_, ?_, taken, verTaken, ?_⟩⟩, id, ?_, rfl⟩
    · obtain ⟨x, hx⟩ := pre
      refine ⟨x, ?_⟩
      show s.accepted = s.received ++ b.take _ ++ b.drop _ ++ s.ch.data.flatten ++ x
      rw [hx, hheld]
      simp only [List.append_assoc, hsplit']
    · intro hl
      have := exact hl
      show s.accepted = s.received ++ b.take _ ++ b.drop _ ++ s.ch.data.flatten ++ s.tx.inFlight
      rw [this, hheld]
      simp only [List.append_assoc, hsplit']
    · show s.rx.bytesRead + _ = (s.received ++ b.take _).length
      rw [List.length_append, List.length_take, br]; omega
    · intro hv'; exact absurd (show s.rx.eofVerified = true from hv') (by simp [hv])
    · intro he; have := eofS he; rw [hv] at this; cases this
    · intro hp; exact absurd (show s.rx.phase = .receiving from hp) (by simp [hidle])
    · intro he hn
      exfalso
      have hpos := copyLen_pos n seg (remainingAllowed s.rx) b hn hne hrem
      have : (b.take (copyLen n seg (remainingAllowed s.rx) b)).length = 0 := by
        simp only [Iter.ret.injEq, Out.data.injEq] at he
        rw [he]; rfl
      rw [List.length_take] at this
      omega
  · rw [hr] at hi
    exact next _ rfl (by simp [hb]) hv hi
  · rw [hr] at hi
    have : s.rx = { s.rx with buf := none } := by
      cases hrx : s.rx; simp_all
    rw [this] at hi
    exact next _ rfl (by simp [hb]) hv hi

/-- `poll_read` preserves the invariant, for every amount of fuel. -/
theorem pollRead_inv {cfg : Cfg} {n seg : Nat} : ∀ (fuel : Nat) {s : State} {o : Out} {r : Rx} {c : Chan} {rcv : Bytes},
    Inv cfg s → pollRead n seg fuel s.rx s.ch = (o, r, c) → rcv = s.received ++ outBytes o →
    Inv cfg { s with rx := r, ch := c, received := rcv } ∧
    (s.rx.eofVerified = true → r.eofVerified = true) ∧
    (o = .data [] → 0 < n → r.eofVerified = true) ∧ r.alive = s.rx.alive
  | 0, s, o, r, c, rcv, h, hp, hrcv => by
    simp only [pollRead, Prod.mk.injEq] at hp
    obtain ⟨rfl, rfl, rfl⟩ := hp
    have : rcv = s.received := by rw [hrcv]; simp [outBytes]
    subst this
    exact ⟨h, id, (fun h => by cases h), rfl⟩
  | fuel + 1, s, o, r, c, rcv, h, hp, hrcv => by
    rw [pollRead] at hp
    rcases hc : rxComplete s.rx s.ch with ⟨k, r1, c1⟩
    rw [hc] at hp
    obtain ⟨h1, hmono1, hidle, halive1⟩ := rxComplete_inv h hc
    cases k with
    | pend =>
      simp only [Prod.mk.injEq] at hp
      obtain ⟨rfl, rfl, rfl⟩ := hp
      have : rcv = s.received := by rw [hrcv]; simp [outBytes]
      subst this
      exact ⟨h1, hmono1, (fun h => by cases h), halive1⟩
    | fail e =>
      simp only [Prod.mk.injEq] at hp
      obtain ⟨rfl, rfl, rfl⟩ := hp
      have : rcv = s.received := by rw [hrcv]; simp [outBytes]
      subst this
      exact ⟨h1, hmono1, (fun h => by cases h), halive1⟩
    | cont =>
      simp only at hp
      rcases hi : rxIter n seg r1 with ⟨it, r2⟩
      rw [hi] at hp
      cases it with
      | ret o' =>
        simp only [Prod.mk.injEq] at hp
        obtain ⟨rfl, rfl, rfl⟩ := hp
        obtain ⟨h2, hmono2, heof, halive2⟩ :=
          rxIter_inv (s := { s with rx := r1, ch := c1 }) (rcv := rcv) h1 (hidle rfl) hi (by simpa [iterBytes] using hrcv)
        exact ⟨h2, fun hv => hmono2 (hmono1 hv), fun ho hn => heof (by rw [ho]) hn, by rw [halive2]; exact halive1⟩
      | again =>
        simp only at hp
        obtain ⟨h2, hmono2, _, halive2⟩ :=
          rxIter_inv (s := { s with rx := r1, ch := c1 }) (rcv := s.received) h1 (hidle rfl) hi (by simp [iterBytes])
        obtain ⟨h3, hmono3, heof3, halive3⟩ :=
          pollRead_inv fuel (s := { s with rx := r2, ch := c1 }) (rcv := rcv) h2 hp hrcv
        exact ⟨h3, fun hv => hmono3 (hmono2 (hmono1 hv)), heof3, by rw [halive3, halive2]; exact halive1⟩

/-! ### every label preserves the invariant -/

theorem dropTxChan_facts (t : Tx) (c : Chan) :
    (∀ m, (dropTxChan t c).size = .sent m → c.size = .sent m) ∧
    (dropTxChan t c).dataEnd ≠ .open ∧ (dropTxChan t c).data = c.data := by
  have hne := closeData_dataEnd_ne_open c
  rcases dropTxChan_cases t c with ⟨_, _, hr⟩ | ⟨_, hr⟩ <;> rw [hr]
  · exact ⟨fun m hm => by simp at hm, hne, closeData_data c⟩
  · exact ⟨fun m hm => by simpa using hm, hne, closeData_data c⟩

theorem inv_step {cfg : Cfg} {s s' : State} {l : Label} {o : Out}
    (h : Inv cfg s) (hs : stepOut cfg s l = some (o, s')) : Inv cfg s' := by
  cases l with
  | write bs =>
    simp only [stepOut] at hs
    split at hs
    · unfold pollWrite at hs
      rcases hc : txComplete s.tx s.ch with ⟨e, t, c⟩
      rw [hc] at hs
      have h1 := handOver_inv h hc
      cases e with
      | some e =>
        simp only [Option.some.injEq, Prod.mk.injEq] at hs
        obtain ⟨_, rfl⟩ := hs
        exact h1
      | none =>
        simp only at hs
        rcases hw : writeCore cfg.chunk bs t with ⟨res, t2⟩
        rw [hw] at hs
        have h2 := writeCore_inv (s := s.handOver t c) h1 (handOver_sending hc) hw
        cases res with
        | ok n =>
          simp only [Option.some.injEq, Prod.mk.injEq] at hs
          obtain ⟨_, rfl⟩ := hs
          exact h2
        | err e =>
          simp only [Option.some.injEq, Prod.mk.injEq] at hs
          obtain ⟨_, rfl⟩ := hs
          simpa [acceptedOf, State.handOver] using h2
    · cases hs
  | flush =>
    simp only [stepOut, pollFlush] at hs
    split at hs
    · rcases hc : txComplete s.tx s.ch with ⟨e, t, c⟩
      rw [hc] at hs
      have h1 := handOver_inv h hc
      cases e <;> (simp only [Option.some.injEq, Prod.mk.injEq] at hs; obtain ⟨_, rfl⟩ := hs; exact h1)
    · cases hs
  | shutdown =>
    simp only [stepOut] at hs
    split at hs
    · unfold pollShutdown at hs
      rcases hc : txComplete s.tx s.ch with ⟨e, t, c⟩
      rw [hc] at hs
      have h1 := handOver_inv h hc
      have hmode : t.mode = s.tx.mode := (txComplete_frame hc).2.1
      cases e with
      | some e =>
        simp only [Option.some.injEq, Prod.mk.injEq] at hs
        obtain ⟨_, rfl⟩ := hs
        exact h1
      | none =>
        simp only at hs
        rcases hw : shutdownCore t c with ⟨e2, t2, c2⟩
        rw [hw] at hs
        have h2 := shutdownCore_inv (s := s.handOver t c) h1 (handOver_sending hc) hw
        have hbw2 : t2.bytesWritten = t.bytesWritten := by
          rcases shutdownCore_cases t c with ⟨x, _, _, hr⟩ | ⟨x, _, _, hr⟩ | ⟨_, _, hr⟩ | ⟨_, _, hr⟩ <;>
            (rw [hr] at hw; simp only [Prod.mk.injEq] at hw; obtain ⟨_, rfl, _⟩ := hw; rfl)
        have hann : announcedBy (s.handOver t c) =
            (match s.tx.mode with
             | .unknown => some t2.bytesWritten
             | .known _ => s.announced) := by
          simp only [announcedBy, State.handOver, hmode, hbw2]
        cases e2 with
        | none =>
          simp only [Option.some.injEq, Prod.mk.injEq] at hs
          obtain ⟨_, rfl⟩ := hs
          rw [hann] at h2
          exact h2
        | some e2 =>
          simp only [Option.some.injEq, Prod.mk.injEq] at hs
          obtain ⟨_, rfl⟩ := hs
          -- an error comes only from a sized sender, which announces nothing
          have hk : ∃ x, s.tx.mode = .known x := by
            rcases shutdownCore_cases t c with ⟨x, hm, _, hr⟩ | ⟨x, hm, _, hr⟩ | ⟨_, _, hr⟩ | ⟨_, _, hr⟩
            · exact ⟨x, by rw [← hmode]; exact hm⟩
            · exact ⟨x, by rw [← hmode]; exact hm⟩
            · rw [hr] at hw; simp at hw
            · rw [hr] at hw; simp at hw
          obtain ⟨x, hx⟩ := hk
          rw [hann, hx] at h2
          exact h2
    · cases hs
  | dropTx =>
    simp only [stepOut] at hs
    split at hs
    · simp only [Option.some.injEq, Prod.mk.injEq] at hs
      obtain ⟨_, rfl⟩ := hs
      obtain ⟨⟨bw, modeOpen, fixedBound, ann, sizeSent, unknownFresh, unknownCfg, knownAnn⟩, ⟨pre, exact, openLossless⟩, hrx⟩ := h
      have hne := closeData_dataEnd_ne_open s.ch
      obtain ⟨hsz, hde, hda⟩ := dropTxChan_facts s.tx s.ch
      refine ⟨⟨bw, by simp, fixedBound, ?_, ?_, ?_, unknownCfg, knownAnn⟩, ⟨?_, ?_, fun h => absurd h hde⟩, hrx⟩
      · intro m hm; obtain ⟨h1, _, h3⟩ := ann m hm; exact ⟨h1, rfl, h3⟩
      · intro m hm; exact sizeSent m (hsz m hm)
      · intro hm; exact ⟨(unknownFresh hm).1, fun m hmm => (unknownFresh hm).2 m (hsz m hmm)⟩
      · simpa [hda] using pre
      · intro hl
        simp only [Bool.and_eq_true] at hl
        have hnone : s.tx.sending = none := by
          cases hsd : s.tx.sending with
          | none => rfl
          | some m => rw [hsd] at hl; simp at hl
        have := exact hl.1
        simpa [hda, Tx.inFlight, hnone] using this
    · cases hs
  | moveTx =>
    simp only [stepOut] at hs
    split at hs
    · split at hs
      · simp only [Option.some.injEq, Prod.mk.injEq] at hs
        obtain ⟨_, rfl⟩ := hs
        exact h
      · simp only [Option.some.injEq, Prod.mk.injEq] at hs
        obtain ⟨_, rfl⟩ := hs
        obtain ⟨⟨bw, modeOpen, fixedBound, ann, sizeSent, unknownFresh, unknownCfg, knownAnn⟩,
          ⟨pre, exact, openLossless⟩, hrx⟩ := h
        have hne := closeData_dataEnd_ne_open s.ch
        refine ⟨⟨bw, by simp, fixedBound, ?_, by simpa using sizeSent, by simpa using unknownFresh, unknownCfg,
          knownAnn⟩, ⟨by simpa using pre, by simp, fun h => absurd h hne⟩, hrx⟩
        intro m hm; obtain ⟨h1, _, h3⟩ := ann m hm; exact ⟨h1, rfl, h3⟩
    · cases hs
  | read n seg =>
    simp only [stepOut] at hs
    split at hs
    · rcases hp : pollRead n seg (readFuel s.ch) s.rx s.ch with ⟨o', r, c⟩
      rw [hp] at hs
      simp only [Option.some.injEq, Prod.mk.injEq] at hs
      obtain ⟨rfl, rfl⟩ := hs
      obtain ⟨⟨htx, hacct, ⟨br, infoSized, infoUnsized, eofV, eofS, taken, verTaken, recvBuf⟩⟩, hmono, heof, _⟩ :=
        pollRead_inv (readFuel s.ch) (rcv := s.received ++ outBytes o') h hp rfl
      refine ⟨htx, hacct, ⟨br, infoSized, infoUnsized, eofV, ?_, taken, verTaken, recvBuf⟩⟩
      intro he
      simp only [Bool.or_eq_true, Bool.and_eq_true, beq_iff_eq, decide_eq_true_eq] at he
      rcases he with he | ⟨ho, hn⟩
      · exact hmono (h.rx.eofS he)
      · exact heof ho hn
    · cases hs
  | dropRx =>
    simp only [stepOut] at hs
    split at hs
    · simp only [Option.some.injEq, Prod.mk.injEq] at hs
      obtain ⟨_, rfl⟩ := hs
      obtain ⟨htx, hacct, hrx⟩ := h
      exact ⟨htx, hacct, ⟨hrx.br, hrx.infoSized, hrx.infoUnsized, hrx.eofV, hrx.eofS, hrx.taken, hrx.verTaken,
        hrx.recvBuf⟩⟩
    · cases hs
  | cut =>
    simp only [stepOut] at hs
    split at hs
    · cases hs
    · simp only [Option.some.injEq, Prod.mk.injEq] at hs
      obtain ⟨_, rfl⟩ := hs
      obtain ⟨⟨bw, modeOpen, fixedBound, ann, sizeSent, unknownFresh, unknownCfg, knownAnn⟩, ⟨pre, exact, openLossless⟩, hrx⟩ := h
      have hsz : ∀ m, (match s.ch.size with | .pending => SizeChan.broken | x => x) = .sent m → s.ch.size = .sent m := by
        intro m; cases s.ch.size <;> simp
      refine ⟨⟨bw, modeOpen, fixedBound, ann, fun m hm => sizeSent m (hsz m hm),
        fun hm => ⟨(unknownFresh hm).1, fun m hmm => (unknownFresh hm).2 m (hsz m hmm)⟩, unknownCfg, knownAnn⟩,
        ⟨pre, exact, ?_⟩, hrx⟩
      intro hd
      apply openLossless
      revert hd
      show (match s.ch.dataEnd with | .open => DataEnd.broken | x => x) = .open → s.ch.dataEnd = .open
      cases s.ch.dataEnd <;> simp
  | notice =>
    simp only [stepOut] at hs
    split at hs
    · simp only [Option.some.injEq, Prod.mk.injEq] at hs
      obtain ⟨_, rfl⟩ := hs
      obtain ⟨htx, hacct, hrx⟩ := h
      exact ⟨htx, hacct, hrx⟩
    · cases hs
  | lose =>
    simp only [stepOut] at hs
    split at hs
    · split at hs
      · simp only [Option.some.injEq, Prod.mk.injEq] at hs
        obtain ⟨_, rfl⟩ := hs
        obtain ⟨htx, ⟨pre, exact, openLossless⟩, hrx⟩ := h
        exact ⟨htx, ⟨pre, exact, (fun h => by cases h)⟩, hrx⟩
      · rename_i hbroken
        split at hs
        · cases hs
        · simp only [Option.some.injEq, Prod.mk.injEq] at hs
          obtain ⟨_, rfl⟩ := hs
          obtain ⟨htx, ⟨pre, exact, openLossless⟩, hrx⟩ := h
          refine ⟨htx, ⟨?_, (fun h => by cases h), fun hd => ?_⟩, hrx⟩
          · obtain ⟨x, hx⟩ := pre
            -- the last message moves from the port into the lost rest
            obtain ⟨front, last, hfl⟩ : ∃ front last, s.ch.data = front ++ [last] := by
              rcases List.eq_nil_or_concat s.ch.data with hnil | ⟨front, last, hfl⟩
              · simp_all
              · exact ⟨front, last, by simpa using hfl⟩
            refine ⟨last ++ x, ?_⟩
            show s.accepted = s.received ++ s.rx.held ++ s.ch.data.dropLast.flatten ++ (last ++ x)
            rw [hx, hfl]; simp
          · rw [hbroken] at hd; cases hd
      · cases hs
    · cases hs
  | loseSize =>
    simp only [stepOut] at hs
    split at hs
    · split at hs
      · simp only [Option.some.injEq, Prod.mk.injEq] at hs
        obtain ⟨_, rfl⟩ := hs
        obtain ⟨⟨bw, modeOpen, fixedBound, ann, sizeSent, unknownFresh, unknownCfg, knownAnn⟩, hacct, hrx⟩ := h
        exact ⟨⟨bw, modeOpen, fixedBound, ann, (fun m hm => by cases hm),
          (fun hm => ⟨(unknownFresh hm).1, (fun m hmm => by cases hmm)⟩), unknownCfg, knownAnn⟩, hacct, hrx⟩
      · cases hs
    · cases hs
  | sever =>
    simp only [stepOut] at hs
    split at hs
    · cases hs
    · simp only [Option.some.injEq, Prod.mk.injEq] at hs
      obtain ⟨_, rfl⟩ := hs
      obtain ⟨htx, ⟨pre, exact, openLossless⟩, hrx⟩ := h
      refine ⟨htx, ⟨?_, (fun h => by cases h), ?_⟩, hrx⟩
      · obtain ⟨x, hx⟩ := pre
        refine ⟨s.ch.data.flatten ++ x, ?_⟩
        show s.accepted = s.received ++ s.rx.held ++ ([] : List Bytes).flatten ++ (s.ch.data.flatten ++ x)
        rw [hx]; simp
      · show (match s.ch.dataEnd with | .open => DataEnd.closed | x => x) = .open → false = true
        cases s.ch.dataEnd <;> simp

theorem inv_run {cfg : Cfg} : ∀ (ls : List Label) {s : State}, Inv cfg s → Inv cfg (run cfg s ls)
  | [], _, h => h
  | l :: ls, s, h => by
    unfold run
    cases hs : step cfg s l with
    | none => exact inv_run ls h
    | some s' =>
      simp only [step, Option.map_eq_some_iff] at hs
      obtain ⟨⟨o, s''⟩, hso, rfl⟩ := hs
      exact inv_run ls (inv_step h hso)

theorem inv_reachable {cfg : Cfg} {s : State} (h : Reachable cfg s) : Inv cfg s := by
  obtain ⟨ls, rfl⟩ := h
  exact inv_run ls (inv_init cfg)

end Remoc.Io
