import RemocModel.Io.Progress

/-!
More about the size-verification state machine of M_io (thorough tier of C18): the order in which
the receiver consults its two channels, stickiness of its verdicts, totality of the decision once
the stream has ended, the flush and shutdown contracts of the sender.
-/

namespace Remoc.Io

/-- "The receiver has seen the end of the data stream" (it holds neither the port nor a receive in
progress) implies that the port has really ended, every message has been consumed and nothing is
buffered; and the size is awaited only in that situation. -/
def EndP (r : Rx) (c : Chan) : Prop :=
  (r.binRx = false → r.phase ≠ .receiving → c.dataEnd ≠ .open ∧ c.data = [] ∧ r.buf = none) ∧
  (r.phase = .verifying → r.binRx = false)

theorem rxComplete_end {r r' : Rx} {c c' : Chan} {k : Complete}
    (h : EndP r c) (hc : rxComplete r c = (k, r', c')) : EndP r' c' := by
  obtain ⟨h1, h2⟩ := h
  rcases rxComplete_cases r c with ⟨hp, hr⟩ | ⟨m, rest, hp, hd, hr⟩ | ⟨hp, hd, he, hr⟩ | ⟨hp, hd, he, hr⟩ |
    ⟨hp, hd, he, hr⟩ | ⟨hp, hz, hr⟩ | ⟨m, hp, hz, hne, hr⟩ | ⟨m, hp, hz, heq, hr⟩ | ⟨hp, hz, hr⟩
  all_goals (rw [hr] at hc; simp only [Prod.mk.injEq] at hc; obtain ⟨rfl, rfl, rfl⟩ := hc)
  all_goals (refine ⟨?_, ?_⟩ <;> simp_all)

theorem rxIter_end {n seg : Nat} {r r' : Rx} {c : Chan} {it : Iter}
    (h : EndP r c) (hidle : r.phase = .idle) (hi : rxIter n seg r = (it, r')) : EndP r' c := by
  obtain ⟨h1, h2⟩ := h
  have next : ∀ r0 : Rx, r0 = { r with buf := none } → (r.binRx = false → r.buf = none) →
      rxNext r0 = (it, r') → EndP r' c := by
    intro r0 hr0 hb hn
    subst hr0
    rcases rxNext_cases { r with buf := none } with ⟨hbin, hr⟩ | ⟨hbin, hr⟩
    · rw [hr] at hn; simp only [Prod.mk.injEq] at hn; obtain ⟨rfl, rfl⟩ := hn
      exact ⟨by simp, by simp⟩
    · rw [hr] at hn
      have hbin' : r.binRx = false := hbin
      have hh := h1 hbin' (by simp [hidle])
      rcases startEof_cases { r with buf := none } with ⟨e, hs, hne, hq⟩ | ⟨e, hs, heq, hq⟩ | ⟨hs, hq⟩ | ⟨hs, hq⟩
      all_goals (rw [hq] at hn; simp only [Prod.mk.injEq] at hn; obtain ⟨rfl, rfl⟩ := hn)
      all_goals (refine ⟨?_, ?_⟩ <;> simp_all)
  rcases rxIter_cases n seg r with ⟨hv, hr⟩ | ⟨hv, hrem, hr⟩ | ⟨b, hv, hrem, hb, hne, hr⟩ | ⟨hv, hrem, hb, hr⟩ |
    ⟨hv, hrem, hb, hr⟩
  · rw [hr] at hi; simp only [Prod.mk.injEq] at hi; obtain ⟨rfl, rfl⟩ := hi
    exact ⟨h1, h2⟩
  · rw [hr] at hi; simp only [Prod.mk.injEq] at hi; obtain ⟨rfl, rfl⟩ := hi
    exact ⟨h1, h2⟩
  · rw [hr] at hi; simp only [Prod.mk.injEq] at hi; obtain ⟨rfl, rfl⟩ := hi
    refine ⟨?_, by simp [hidle]⟩
    intro hbin hph
    have := (h1 hbin (by simp [hidle])).2.2
    rw [hb] at this; cases this
  · rw [hr] at hi
    exact next _ rfl (fun hbin => (h1 hbin (by simp [hidle])).2.2) hi
  · rw [hr] at hi
    have : r = { r with buf := none } := by cases r; simp_all
    rw [this] at hi
    exact next _ rfl (fun _ => hb) hi

theorem pollRead_end {n seg : Nat} : ∀ (fuel : Nat) {r r' : Rx} {c c' : Chan} {o : Out},
    EndP r c → pollRead n seg fuel r c = (o, r', c') → EndP r' c'
  | 0, r, r', c, c', o, h, hp => by
    simp only [pollRead, Prod.mk.injEq] at hp
    obtain ⟨_, rfl, rfl⟩ := hp
    exact h
  | fuel + 1, r, r', c, c', o, h, hp => by
    rw [pollRead] at hp
    rcases hc : rxComplete r c with ⟨k, r1, c1⟩
    rw [hc] at hp
    have h1 := rxComplete_end h hc
    have hidle := rxComplete_inv_phase hc
    cases k with
    | pend => simp only [Prod.mk.injEq] at hp; obtain ⟨_, rfl, rfl⟩ := hp; exact h1
    | fail e => simp only [Prod.mk.injEq] at hp; obtain ⟨_, rfl, rfl⟩ := hp; exact h1
    | cont =>
      simp only at hp
      rcases hi : rxIter n seg r1 with ⟨it, r2⟩
      rw [hi] at hp
      have h2 := rxIter_end h1 (hidle rfl) hi
      cases it with
      | ret o' => simp only [Prod.mk.injEq] at hp; obtain ⟨_, rfl, rfl⟩ := hp; exact h2
      | again => exact pollRead_end fuel h2 hp

/-- The sender's `poll_complete` cannot revive an ended port. -/
theorem txComplete_end {t t' : Tx} {c c' : Chan} {e : Option Err} (hc : txComplete t c = (e, t', c'))
    (hd : c.dataEnd ≠ .open) (hdata : c.data = []) : c'.dataEnd ≠ .open ∧ c'.data = [] := by
  rcases txComplete_cases t c with ⟨hs, hr⟩ | ⟨m, hs, hn, hr⟩ | ⟨m, hs, hn, hd', hr⟩ | ⟨m, hs, hn, hd', hr⟩
  all_goals (rw [hr] at hc; simp only [Prod.mk.injEq] at hc; obtain ⟨_, _, rfl⟩ := hc)
  · exact ⟨hd, hdata⟩
  · exact ⟨closeData_dataEnd_ne_open c, by simpa using hdata⟩
  · exact absurd hd' hd
  · exact ⟨hd, hdata⟩

theorem end_step {cfg : Cfg} {s s' : State} {l : Label} {o : Out}
    (h : EndP s.rx s.ch) (hs : stepOut cfg s l = some (o, s')) : EndP s'.rx s'.ch := by
  -- a step of the sender or the environment leaves the receiver alone and cannot revive the port
  have frame : s'.rx.binRx = s.rx.binRx → s'.rx.phase = s.rx.phase → s'.rx.buf = s.rx.buf →
      (s.ch.dataEnd ≠ .open → s.ch.data = [] → s'.ch.dataEnd ≠ .open ∧ s'.ch.data = []) → EndP s'.rx s'.ch := by
    intro e1 e2 e3 hch
    obtain ⟨h1, h2⟩ := h
    refine ⟨?_, ?_⟩
    · intro hb hp
      rw [e1] at hb; rw [e2] at hp
      obtain ⟨a, b, c⟩ := h1 hb hp
      obtain ⟨a', b'⟩ := hch a b
      exact ⟨a', b', by rw [e3]; exact c⟩
    · intro hp; rw [e2] at hp; rw [e1]; exact h2 hp
  cases l with
  | write bs =>
    simp only [stepOut] at hs
    split at hs
    · unfold pollWrite at hs
      rcases hc : txComplete s.tx s.ch with ⟨e, t, c⟩
      rw [hc] at hs
      cases e with
      | some e =>
        simp only [Option.some.injEq, Prod.mk.injEq] at hs; obtain ⟨_, rfl⟩ := hs
        exact frame rfl rfl rfl (txComplete_end hc)
      | none =>
        simp only at hs
        rcases hw : writeCore cfg.chunk bs t with ⟨res, t2⟩
        rw [hw] at hs
        cases res <;> (simp only [Option.some.injEq, Prod.mk.injEq] at hs; obtain ⟨_, rfl⟩ := hs
                       exact frame rfl rfl rfl (txComplete_end hc))
    · cases hs
  | flush =>
    simp only [stepOut, pollFlush] at hs
    split at hs
    · rcases hc : txComplete s.tx s.ch with ⟨e, t, c⟩
      rw [hc] at hs
      cases e <;> (simp only [Option.some.injEq, Prod.mk.injEq] at hs; obtain ⟨_, rfl⟩ := hs
                   exact frame rfl rfl rfl (txComplete_end hc))
    · cases hs
  | shutdown =>
    simp only [stepOut] at hs
    split at hs
    · unfold pollShutdown at hs
      rcases hc : txComplete s.tx s.ch with ⟨e, t, c⟩
      rw [hc] at hs
      cases e with
      | some e =>
        simp only [Option.some.injEq, Prod.mk.injEq] at hs; obtain ⟨_, rfl⟩ := hs
        exact frame rfl rfl rfl (txComplete_end hc)
      | none =>
        simp only at hs
        have hcore : ∀ e2 t2 c2, shutdownCore t c = (e2, t2, c2) → c2.dataEnd ≠ .open ∧ c2.data = c.data := by
          intro e2 t2 c2 hw
          have hne := closeData_dataEnd_ne_open c
          rcases shutdownCore_cases t c with ⟨x, _, _, hr⟩ | ⟨x, _, _, hr⟩ | ⟨_, _, hr⟩ | ⟨_, _, hr⟩ <;>
            (rw [hr] at hw; simp only [Prod.mk.injEq] at hw; obtain ⟨_, _, rfl⟩ := hw; exact ⟨by simpa using hne, by simp⟩)
        rcases hw : shutdownCore t c with ⟨e2, t2, c2⟩
        rw [hw] at hs
        obtain ⟨a, b⟩ := hcore _ _ _ hw
        cases e2 <;> (simp only [Option.some.injEq, Prod.mk.injEq] at hs; obtain ⟨_, rfl⟩ := hs
                      exact frame rfl rfl rfl (fun hd hdata => ⟨a, by rw [b]; exact (txComplete_end hc hd hdata).2⟩))
    · cases hs
  | dropTx =>
    simp only [stepOut] at hs
    split at hs
    · simp only [Option.some.injEq, Prod.mk.injEq] at hs; obtain ⟨_, rfl⟩ := hs
      obtain ⟨_, a, b⟩ := dropTxChan_facts s.tx s.ch
      exact frame rfl rfl rfl (fun _ hdata => ⟨a, by rw [b]; exact hdata⟩)
    · cases hs
  | moveTx =>
    simp only [stepOut] at hs
    split at hs
    · split at hs
      · simp only [Option.some.injEq, Prod.mk.injEq] at hs; obtain ⟨_, rfl⟩ := hs
        exact h
      · simp only [Option.some.injEq, Prod.mk.injEq] at hs; obtain ⟨_, rfl⟩ := hs
        exact frame rfl rfl rfl (fun _ b => ⟨closeData_dataEnd_ne_open s.ch, by simpa using b⟩)
    · cases hs
  | read n seg =>
    simp only [stepOut] at hs
    split at hs
    · rcases hp : pollRead n seg (readFuel s.ch) s.rx s.ch with ⟨o', r, c⟩
      rw [hp] at hs
      simp only [Option.some.injEq, Prod.mk.injEq] at hs
      obtain ⟨rfl, rfl⟩ := hs
      exact pollRead_end _ h hp
    · cases hs
  | dropRx =>
    simp only [stepOut] at hs
    split at hs
    · simp only [Option.some.injEq, Prod.mk.injEq] at hs; obtain ⟨_, rfl⟩ := hs
      exact frame rfl rfl rfl (fun a b => ⟨a, b⟩)
    · cases hs
  | cut =>
    simp only [stepOut] at hs
    split at hs
    · cases hs
    · simp only [Option.some.injEq, Prod.mk.injEq] at hs; obtain ⟨_, rfl⟩ := hs
      refine frame rfl rfl rfl (fun a b => ⟨?_, b⟩)
      show (match s.ch.dataEnd with | .open => DataEnd.broken | x => x) ≠ .open
      cases s.ch.dataEnd <;> simp
  | notice =>
    simp only [stepOut] at hs
    split at hs
    · simp only [Option.some.injEq, Prod.mk.injEq] at hs; obtain ⟨_, rfl⟩ := hs
      exact frame rfl rfl rfl (fun a b => ⟨a, b⟩)
    · cases hs
  | lose =>
    simp only [stepOut] at hs
    split at hs
    · split at hs
      · simp only [Option.some.injEq, Prod.mk.injEq] at hs; obtain ⟨_, rfl⟩ := hs
        exact frame rfl rfl rfl (fun _ b => ⟨by simp, b⟩)
      · rename_i hbroken
        split at hs
        · cases hs
        · simp only [Option.some.injEq, Prod.mk.injEq] at hs; obtain ⟨_, rfl⟩ := hs
          exact frame rfl rfl rfl (fun a b => ⟨a, by simp [b]⟩)
      · cases hs
    · cases hs
  | loseSize =>
    simp only [stepOut] at hs
    split at hs
    · split at hs
      · simp only [Option.some.injEq, Prod.mk.injEq] at hs; obtain ⟨_, rfl⟩ := hs
        exact frame rfl rfl rfl (fun a b => ⟨a, b⟩)
      · cases hs
    · cases hs
  | sever =>
    simp only [stepOut] at hs
    split at hs
    · cases hs
    · simp only [Option.some.injEq, Prod.mk.injEq] at hs; obtain ⟨_, rfl⟩ := hs
      refine frame rfl rfl rfl (fun a _ => ⟨?_, rfl⟩)
      show (match s.ch.dataEnd with | .open => DataEnd.closed | x => x) ≠ .open
      cases s.ch.dataEnd <;> simp

theorem end_run {cfg : Cfg} : ∀ (ls : List Label) {s : State}, EndP s.rx s.ch → EndP (run cfg s ls).rx (run cfg s ls).ch
  | [], _, h => h
  | l :: ls, s, h => by
    unfold run
    cases hs : step cfg s l with
    | none => exact end_run ls h
    | some s' =>
      simp only [step, Option.map_eq_some_iff] at hs
      obtain ⟨⟨o, s''⟩, hso, rfl⟩ := hs
      exact end_run ls (end_step h hso)

theorem end_reachable {cfg : Cfg} {s : State} (h : Reachable cfg s) : EndP s.rx s.ch := by
  obtain ⟨ls, rfl⟩ := h
  exact end_run ls (by simp [EndP, init])

/-! ### reachability is closed under steps -/

theorem run_append {cfg : Cfg} : ∀ (l1 l2 : List Label) (s : State),
    run cfg s (l1 ++ l2) = run cfg (run cfg s l1) l2
  | [], _, _ => rfl
  | l :: l1, l2, s => by
    simp only [List.cons_append, run]
    cases step cfg s l with
    | none => exact run_append l1 l2 s
    | some s' => exact run_append l1 l2 s'

theorem reachable_step {cfg : Cfg} {s s' : State} {l : Label} {o : Out}
    (h : Reachable cfg s) (hs : stepOut cfg s l = some (o, s')) : Reachable cfg s' := by
  obtain ⟨ls, rfl⟩ := h
  refine ⟨ls ++ [l], ?_⟩
  rw [run_append]
  simp [run, step, hs]

/-! ### what `poll_read` returns: stickiness and totality -/

/-- A verified end of file is reported again by every later poll, without touching anything. -/
theorem pollRead_eof_sticky (r : Rx) (c : Chan) (n seg k : Nat) (hf : RxFacts r) (hv : r.eofVerified = true) :
    pollRead n seg (k + 1) r c = (.data [], r, c) := by
  have hidle := hf.shape.eofIdle hv
  simp [pollRead, rxComplete, rxIter, hidle, hv]

/-- Sized: after the data stream ended short, every poll reports the same error and leaves the
receiver as it is (so the error is sticky and the receiver stays usable). -/
theorem pollRead_short_sticky (r : Rx) (c : Chan) (n seg N k : Nat)
    (hidle : r.phase = .idle) (hbin : r.binRx = false) (hbuf : r.buf = none) (hv : r.eofVerified = false)
    (hs : r.sizeInfo = .determined N) (hlt : r.bytesRead < N) :
    pollRead n seg (k + 1) r c = (.rxErr .unexpectedEof, r, c) := by
  have h1 : N - r.bytesRead ≠ 0 := by omega
  have h2 : r.bytesRead ≠ N := by omega
  have : r = { r with buf := none } := by cases r; simp_all
  simp [pollRead, rxComplete, rxIter, rxNext, startEof, remainingAllowed, hidle, hbin, hbuf, hv, hs, h1, h2]

/-- Once the data stream has ended and has been drained, and the size is fixed or the size
channel has settled (announced, dropped or broken), a poll always decides: end-of-file or an
error, never `pending`. -/
theorem pollRead_decides (r : Rx) (c : Chan) (n seg k : Nat) (hf : RxFacts r)
    (hd : c.data = []) (he : c.dataEnd ≠ .open) (hheld : r.buf.getD [] = [])
    (hsz : c.size ≠ .pending ∨ ∃ e, r.sizeInfo = .determined e) :
    (pollRead n seg (k + 4) r c).1 = .data [] ∨ isRxErr (pollRead n seg (k + 4) r c).1 = true := by
  obtain ⟨⟨recvBin, recvRoom, eofIdle⟩, taken, verTaken, recvBuf⟩ := hf
  obtain ⟨alive, binRx, sizeInfo, bytesRead, buf, phase, eofVerified, poisoned⟩ := r
  obtain ⟨data, dataEnd, size, rxGone, txNoticed⟩ := c
  simp only at hd he hheld hsz recvBin recvRoom eofIdle taken verTaken recvBuf
  subst hd
  have hbuf : buf = none ∨ buf = some [] := by
    cases buf with
    | none => exact Or.inl rfl
    | some b => simp at hheld; subst hheld; exact Or.inr rfl
  cases eofVerified with
  | true =>
    have := eofIdle rfl; subst this
    left; simp [pollRead, rxComplete, rxIter]
  | false =>
    cases phase with
    | verifying =>
      have := verTaken rfl; subst this
      have hp : size ≠ .pending := by
        rcases hsz with h | ⟨e, h⟩
        · exact h
        · cases h
      cases size with
      | pending => exact absurd rfl hp
      | sent m =>
        by_cases hm : bytesRead = m
        · left; simp [pollRead, rxComplete, rxIter, hm]
        · right; simp [pollRead, rxComplete, isRxErr, hm]
      | dropped => right; simp [pollRead, rxComplete, isRxErr]
      | broken => right; simp [pollRead, rxComplete, isRxErr]
    | receiving =>
      have := recvBin rfl; subst this
      have := recvBuf rfl; subst this
      cases dataEnd with
      | «open» => exact absurd rfl he
      | broken => right; simp [pollRead, rxComplete, isRxErr]
      | closed =>
        cases sizeInfo with
        | taken => have := taken rfl; cases this
        | determined e =>
          have hlt := recvRoom rfl e rfl
          have h1 : e - bytesRead ≠ 0 := by omega
          have h2 : bytesRead ≠ e := by omega
          right; simp [pollRead, rxComplete, rxIter, rxNext, startEof, remainingAllowed, isRxErr, h1, h2]
        | undetermined =>
          have hp : size ≠ .pending := by
            rcases hsz with h | ⟨e, h⟩
            · exact h
            · cases h
          cases size with
          | pending => exact absurd rfl hp
          | sent m =>
            by_cases hm : bytesRead = m
            · left; simp [pollRead, rxComplete, rxIter, rxNext, startEof, remainingAllowed, hm]
            · right; simp [pollRead, rxComplete, rxIter, rxNext, startEof, remainingAllowed, isRxErr, hm]
          | dropped => right; simp [pollRead, rxComplete, rxIter, rxNext, startEof, remainingAllowed, isRxErr]
          | broken => right; simp [pollRead, rxComplete, rxIter, rxNext, startEof, remainingAllowed, isRxErr]
    | idle =>
      cases sizeInfo with
      | taken => have := taken rfl; cases this
      | determined e =>
        by_cases hle : e ≤ bytesRead
        · have h0 : e - bytesRead = 0 := by omega
          left; simp [pollRead, rxComplete, rxIter, remainingAllowed, h0]
        · have h1 : e - bytesRead ≠ 0 := by omega
          have h2 : bytesRead ≠ e := by omega
          right
          rcases hbuf with rfl | rfl <;> cases binRx <;> cases dataEnd <;>
            simp_all [pollRead, rxComplete, rxIter, rxNext, startEof, remainingAllowed, isRxErr]
      | undetermined =>
        have hp : size ≠ .pending := by
          rcases hsz with h | ⟨e, h⟩
          · exact h
          · cases h
        cases size with
        | pending => exact absurd rfl hp
        | sent m =>
          by_cases hm : bytesRead = m
          · rcases hbuf with rfl | rfl <;> cases binRx <;> cases dataEnd <;>
              simp_all [pollRead, rxComplete, rxIter, rxNext, startEof, remainingAllowed, isRxErr]
          · right
            rcases hbuf with rfl | rfl <;> cases binRx <;> cases dataEnd <;>
              simp_all [pollRead, rxComplete, rxIter, rxNext, startEof, remainingAllowed, isRxErr]
        | dropped =>
          right
          rcases hbuf with rfl | rfl <;> cases binRx <;> cases dataEnd <;>
            simp_all [pollRead, rxComplete, rxIter, rxNext, startEof, remainingAllowed, isRxErr]
        | broken =>
          right
          rcases hbuf with rfl | rfl <;> cases binRx <;> cases dataEnd <;>
            simp_all [pollRead, rxComplete, rxIter, rxNext, startEof, remainingAllowed, isRxErr]

end Remoc.Io
