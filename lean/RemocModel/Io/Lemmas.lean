import RemocModel.Io.Model

/-!
Case lemmas for the operations of M_io: each lists the possible explicit results of an operation,
so that invariant proofs can rewrite with them instead of unfolding nested matches.
-/

namespace Remoc.Io

theorem closeData_cases (c : Chan) :
    (c.dataEnd = .open ∧ closeData c = { c with dataEnd := .closed }) ∨
    (c.dataEnd ≠ .open ∧ closeData c = c) := by
  unfold closeData
  cases h : c.dataEnd <;> simp

theorem closeData_dataEnd_ne_open (c : Chan) : (closeData c).dataEnd ≠ .open := by
  rcases closeData_cases c with ⟨_, h2⟩ | ⟨h1, h2⟩ <;> rw [h2] <;> simp_all

@[simp] theorem closeData_data (c : Chan) : (closeData c).data = c.data := by
  unfold closeData; split <;> rfl
@[simp] theorem closeData_size (c : Chan) : (closeData c).size = c.size := by
  unfold closeData; split <;> rfl
@[simp] theorem closeData_rxGone (c : Chan) : (closeData c).rxGone = c.rxGone := by
  unfold closeData; split <;> rfl
@[simp] theorem closeData_txNoticed (c : Chan) : (closeData c).txNoticed = c.txNoticed := by
  unfold closeData; split <;> rfl

theorem dropTxChan_cases (t : Tx) (c : Chan) :
    (t.mode = .unknown ∧ c.size = .pending ∧ dropTxChan t c = { closeData c with size := .dropped }) ∨
    ((t.mode ≠ .unknown ∨ c.size ≠ .pending) ∧ dropTxChan t c = closeData c) := by
  unfold dropTxChan
  cases hm : t.mode with
  | known e => simp
  | unknown => cases hs : c.size <;> simp [hs]

/-- The four ways `poll_complete` of the sender can go. -/
theorem txComplete_cases (t : Tx) (c : Chan) :
    (t.sending = none ∧ txComplete t c = (none, t, c)) ∨
    (∃ m, t.sending = some m ∧ c.txNoticed = true ∧
      txComplete t c = (some .connReset, { t with sending := none, failed := true, binOpen := false }, closeData c)) ∨
    (∃ m, t.sending = some m ∧ c.txNoticed = false ∧ c.dataEnd = .open ∧
      txComplete t c = (none, { t with sending := none }, { c with data := c.data ++ [m] })) ∨
    (∃ m, t.sending = some m ∧ c.txNoticed = false ∧ c.dataEnd ≠ .open ∧
      txComplete t c = (none, { t with sending := none }, c)) := by
  unfold txComplete
  cases hs : t.sending with
  | none => simp
  | some m =>
    cases hn : c.txNoticed <;> cases hd : c.dataEnd <;> simp

/-- `handOverOk` in terms of the cases above. -/
theorem handOverOk_none {t : Tx} {c : Chan} (h : t.sending = none) : handOverOk t c = true := by
  simp [handOverOk, h]

theorem handOverOk_open {t : Tx} {c : Chan} (h1 : c.txNoticed = false) (h2 : c.dataEnd = .open) :
    handOverOk t c = true := by
  simp [handOverOk, h1, h2]

theorem handOverOk_lost {t : Tx} {c : Chan} {m : Bytes} (h : t.sending = some m)
    (h2 : c.txNoticed = true ∨ c.dataEnd ≠ .open) : handOverOk t c = false := by
  rcases h2 with h2 | h2
  · simp [handOverOk, h, h2]
  · cases hd : c.dataEnd <;> simp_all [handOverOk]

/-- `poll_complete` of the receiver, case by case. -/
theorem rxComplete_cases (r : Rx) (c : Chan) :
    (r.phase = .idle ∧ rxComplete r c = (.cont, r, c)) ∨
    (∃ m rest, r.phase = .receiving ∧ c.data = m :: rest ∧
      rxComplete r c = (.cont, { r with buf := some m, binRx := true, phase := .idle }, { c with data := rest })) ∨
    (r.phase = .receiving ∧ c.data = [] ∧ c.dataEnd = .open ∧ rxComplete r c = (.pend, r, c)) ∨
    (r.phase = .receiving ∧ c.data = [] ∧ c.dataEnd = .closed ∧
      rxComplete r c = (.cont, { r with buf := none, phase := .idle }, c)) ∨
    (r.phase = .receiving ∧ c.data = [] ∧ c.dataEnd = .broken ∧
      rxComplete r c = (.fail .connReset, { r with poisoned := true }, c)) ∨
    (r.phase = .verifying ∧ c.size = .pending ∧ rxComplete r c = (.pend, r, c)) ∨
    (∃ m, r.phase = .verifying ∧ c.size = .sent m ∧ r.bytesRead ≠ m ∧
      rxComplete r c = (.fail .unexpectedEof, { r with phase := .idle, sizeInfo := .determined m }, c)) ∨
    (∃ m, r.phase = .verifying ∧ c.size = .sent m ∧ r.bytesRead = m ∧
      rxComplete r c = (.cont, { r with phase := .idle, sizeInfo := .determined m, eofVerified := true }, c)) ∨
    (r.phase = .verifying ∧ (c.size = .dropped ∨ c.size = .broken) ∧
      rxComplete r c = (.fail .unexpectedEof, { r with poisoned := true }, c)) := by
  unfold rxComplete
  cases hp : r.phase with
  | idle => simp
  | receiving =>
    cases hd : c.data with
    | cons m rest => simp
    | nil => cases he : c.dataEnd <;> simp
  | verifying =>
    cases hs : c.size with
    | pending => simp
    | sent m => by_cases hm : r.bytesRead = m <;> simp [hm]
    | dropped => simp
    | broken => simp

/-- `poll_complete` lets the loop continue only in the idle state. -/
theorem rxComplete_inv_phase {r r' : Rx} {c c' : Chan} {k : Complete}
    (hc : rxComplete r c = (k, r', c')) : k = .cont → r'.phase = .idle := by
  rcases rxComplete_cases r c with ⟨hp, hr⟩ | ⟨m, rest, hp, hd, hr⟩ | ⟨hp, hd, he, hr⟩ | ⟨hp, hd, he, hr⟩ |
    ⟨hp, hd, he, hr⟩ | ⟨hp, hz, hr⟩ | ⟨m, hp, hz, hne, hr⟩ | ⟨m, hp, hz, heq, hr⟩ | ⟨hp, hz, hr⟩
  all_goals (rw [hr] at hc; simp only [Prod.mk.injEq] at hc; obtain ⟨rfl, rfl, rfl⟩ := hc; simp [hp])

theorem startEof_cases (r : Rx) :
    (∃ e, r.sizeInfo = .determined e ∧ r.bytesRead ≠ e ∧ startEof r = (.ret (.rxErr .unexpectedEof), r)) ∨
    (∃ e, r.sizeInfo = .determined e ∧ r.bytesRead = e ∧ startEof r = (.again, { r with eofVerified := true })) ∨
    (r.sizeInfo = .undetermined ∧ startEof r = (.again, { r with sizeInfo := .taken, phase := .verifying })) ∨
    (r.sizeInfo = .taken ∧ startEof r = (.again, { r with eofVerified := true })) := by
  unfold startEof
  cases hs : r.sizeInfo with
  | determined e => by_cases he : r.bytesRead = e <;> simp [he]
  | undetermined => simp
  | taken => simp

theorem rxNext_cases (r : Rx) :
    (r.binRx = true ∧ rxNext r = (.again, { r with binRx := false, phase := .receiving })) ∨
    (r.binRx = false ∧ rxNext r = startEof r) := by
  unfold rxNext
  cases h : r.binRx <;> simp

/-- The body of the read loop, case by case. -/
theorem rxIter_cases (n seg : Nat) (r : Rx) :
    (r.eofVerified = true ∧ rxIter n seg r = (.ret (.data []), r)) ∨
    (r.eofVerified = false ∧ remainingAllowed r = some 0 ∧
      rxIter n seg r = (.ret (.data []), { r with eofVerified := true })) ∨
    (∃ b, r.eofVerified = false ∧ remainingAllowed r ≠ some 0 ∧ r.buf = some b ∧ b ≠ [] ∧
      rxIter n seg r =
        (.ret (.data (b.take (copyLen n seg (remainingAllowed r) b))),
         { r with buf := some (b.drop (copyLen n seg (remainingAllowed r) b)),
                  bytesRead := r.bytesRead + copyLen n seg (remainingAllowed r) b })) ∨
    (r.eofVerified = false ∧ remainingAllowed r ≠ some 0 ∧ r.buf = some [] ∧
      rxIter n seg r = rxNext { r with buf := none }) ∨
    (r.eofVerified = false ∧ remainingAllowed r ≠ some 0 ∧ r.buf = none ∧
      rxIter n seg r = rxNext r) := by
  unfold rxIter
  cases hv : r.eofVerified with
  | true => simp
  | false =>
    by_cases hr : remainingAllowed r = some 0
    · simp [hr]
    · cases hb : r.buf with
      | none => simp [hr]
      | some b =>
        cases b with
        | nil => simp [hr]
        | cons x xs => simp [hr]

theorem copyLen_le_length (n seg : Nat) (rem : Option Nat) (b : Bytes) : copyLen n seg rem b ≤ b.length := by
  unfold copyLen
  cases rem <;> simp <;> split <;> omega

theorem copyLen_le_n (n seg : Nat) (rem : Option Nat) (b : Bytes) : copyLen n seg rem b ≤ n := by
  unfold copyLen
  cases rem <;> simp <;> omega

theorem copyLen_le_rem (n seg rem : Nat) (b : Bytes) : copyLen n seg (some rem) b ≤ rem := by
  unfold copyLen
  simp; omega

/-- With buffer space, a non-empty message and a non-zero allowance at least one byte is copied. -/
theorem copyLen_pos (n seg : Nat) (rem : Option Nat) (b : Bytes) (hn : 0 < n) (hb : b ≠ [])
    (hr : rem ≠ some 0) : 0 < copyLen n seg rem b := by
  have hl : 0 < b.length := List.length_pos_iff.mpr hb
  unfold copyLen
  cases rem with
  | none => simp; split <;> omega
  | some k =>
    have : 0 < k := by
      rcases Nat.eq_zero_or_pos k with h | h
      · subst h; simp at hr
      · exact h
    simp; split <;> omega

end Remoc.Io
