import RemocModel.Io.Shape

/-!
The fuel of `pollRead` is an artefact of writing the `poll_read` loop as a total function: the
loop terminates within `data.length + 4` iterations, so any larger amount of fuel gives the same
result.
-/

namespace Remoc.Io

/-- An upper bound on the number of loop iterations `poll_read` still needs. -/
def need (r : Rx) (c : Chan) : Nat :=
  if r.eofVerified then 1
  else
    match r.phase with
    | .verifying => 2
    | .receiving => c.data.length + 3
    | .idle => c.data.length + 4

theorem need_pos (r : Rx) (c : Chan) : 0 < need r c := by
  unfold need; split
  · omega
  · cases r.phase <;> simp

theorem need_le_readFuel (r : Rx) (c : Chan) : need r c ≤ readFuel c := by
  unfold need readFuel; split
  · omega
  · cases r.phase <;> simp

/-- Every iteration that does not return brings the loop closer to its end. -/
theorem need_decreases {n seg : Nat} {r r1 r2 : Rx} {c c1 : Chan} (hsh : RxShape r)
    (hc : rxComplete r c = (.cont, r1, c1)) (hi : rxIter n seg r1 = (.again, r2)) :
    need r2 c1 < need r c := by
  -- what an iteration that goes round again can do to the receiver
  have again : ∀ r0 : Rx, rxIter n seg r0 = (.again, r2) →
      r0.eofVerified = false ∧
      ((r0.binRx = true ∧ r2.phase = .receiving ∧ r2.eofVerified = false) ∨
       (r0.binRx = false ∧ (r2.eofVerified = true ∨ (r2.phase = .verifying ∧ r2.eofVerified = false)))) := by
    intro r0 h0
    have next : ∀ r' : Rx, r'.eofVerified = false → rxNext r' = (.again, r2) →
        ((r'.binRx = true ∧ r2.phase = .receiving ∧ r2.eofVerified = false) ∨
         (r'.binRx = false ∧ (r2.eofVerified = true ∨ (r2.phase = .verifying ∧ r2.eofVerified = false)))) := by
      intro r' hv hn
      rcases rxNext_cases r' with ⟨hb, hr⟩ | ⟨hb, hr⟩
      · rw [hr] at hn; simp only [Prod.mk.injEq] at hn; obtain ⟨_, rfl⟩ := hn
        exact Or.inl ⟨hb, rfl, hv⟩
      · rw [hr] at hn
        rcases startEof_cases r' with ⟨e, hs, hne, hq⟩ | ⟨e, hs, heq, hq⟩ | ⟨hs, hq⟩ | ⟨hs, hq⟩
        all_goals (rw [hq] at hn; simp only [Prod.mk.injEq] at hn)
        · cases hn.1
        · obtain ⟨_, rfl⟩ := hn; exact Or.inr ⟨hb, Or.inl rfl⟩
        · obtain ⟨_, rfl⟩ := hn; exact Or.inr ⟨hb, Or.inr ⟨rfl, hv⟩⟩
        · obtain ⟨_, rfl⟩ := hn; exact Or.inr ⟨hb, Or.inl rfl⟩
    rcases rxIter_cases n seg r0 with ⟨hv, hr⟩ | ⟨hv, hrem, hr⟩ | ⟨b, hv, hrem, hb, hne, hr⟩ | ⟨hv, hrem, hb, hr⟩ |
      ⟨hv, hrem, hb, hr⟩
    · rw [hr] at h0; cases h0
    · rw [hr] at h0; cases h0
    · rw [hr] at h0; cases h0
    · rw [hr] at h0; exact ⟨hv, next { r0 with buf := none } hv h0⟩
    · rw [hr] at h0; exact ⟨hv, next r0 hv h0⟩
  obtain ⟨hv1, hcase⟩ := again r1 hi
  rcases rxComplete_cases r c with ⟨hp, hr⟩ | ⟨m, rest, hp, hd, hr⟩ | ⟨hp, hd, he, hr⟩ | ⟨hp, hd, he, hr⟩ |
    ⟨hp, hd, he, hr⟩ | ⟨hp, hz, hr⟩ | ⟨m, hp, hz, hne, hr⟩ | ⟨m, hp, hz, heq, hr⟩ | ⟨hp, hz, hr⟩
  all_goals (rw [hr] at hc; simp only [Prod.mk.injEq] at hc)
  · -- idle
    obtain ⟨_, rfl, rfl⟩ := hc
    have hneed : need r c = c.data.length + 4 := by simp [need, hv1, hp]
    rw [hneed]
    rcases hcase with ⟨_, h2, h3⟩ | ⟨_, h2 | ⟨h2, h3⟩⟩
    · simp [need, h2, h3]
    · simp [need, h2]
    · simp [need, h2, h3]
  · -- a message was taken: the port got shorter
    obtain ⟨_, rfl, rfl⟩ := hc
    have hv : r.eofVerified = false := hv1
    have hneed : need r c = c.data.length + 3 := by simp [need, hv, hp]
    rw [hneed, hd]
    rcases hcase with ⟨_, h2, h3⟩ | ⟨hb, _⟩
    · simp [need, h2, h3]
    · simp at hb
  · cases hc.1
  · -- end of stream: the port was given up when the receive started
    obtain ⟨_, rfl, rfl⟩ := hc
    have hv : r.eofVerified = false := hv1
    have hneed : need r c = c.data.length + 3 := by simp [need, hv, hp]
    rw [hneed]
    have hbin : r.binRx = false := hsh.recvBin hp
    rcases hcase with ⟨hb, _⟩ | ⟨_, h2 | ⟨h2, h3⟩⟩
    · rw [show ({ r with buf := none, phase := .idle } : Rx).binRx = r.binRx from rfl, hbin] at hb; cases hb
    · simp [need, h2]
    · simp [need, h2, h3]
  · cases hc.1
  · cases hc.1
  · cases hc.1
  · obtain ⟨_, rfl, _⟩ := hc
    simp at hv1
  · cases hc.1

/-- **The read loop terminates**: any two amounts of fuel above the bound give the same result. -/
theorem pollRead_fuel {n seg : Nat} : ∀ (f g : Nat) (r : Rx) (c : Chan), RxShape r →
    need r c ≤ f → need r c ≤ g → pollRead n seg f r c = pollRead n seg g r c
  | 0, _, r, c, _, hf, _ => by have := need_pos r c; omega
  | _ + 1, 0, r, c, _, _, hg => by have := need_pos r c; omega
  | f + 1, g + 1, r, c, hsh, hf, hg => by
    rw [pollRead, pollRead]
    rcases hc : rxComplete r c with ⟨k, r1, c1⟩
    cases k with
    | pend => rfl
    | fail e => rfl
    | cont =>
      simp only
      rcases hi : rxIter n seg r1 with ⟨it, r2⟩
      cases it with
      | ret o => rfl
      | again =>
        simp only
        have hdec := need_decreases hsh hc hi
        have hsh1 := rxComplete_shape hsh hc
        have hsh2 := (rxIter_shape hsh1 (rxComplete_inv_phase hc rfl) hi).1
        exact pollRead_fuel f g r2 c1 hsh2 (by omega) (by omega)

end Remoc.Io
