import RemocModel.Io.Inv

/-!
Structural invariants of M_io needed for the progress statements of C18 (the reader *gets* its
end-of-file or its error): phases of the receiver, end markers of the two channels.
-/

namespace Remoc.Io

/-- Receiver phases. -/
structure RxShape (r : Rx) : Prop where
  recvBin : r.phase = .receiving → r.binRx = false
  /-- a receive is started only while more bytes are allowed -/
  recvRoom : r.phase = .receiving → ∀ e, r.sizeInfo = .determined e → r.bytesRead < e
  eofIdle : r.eofVerified = true → r.phase = .idle

theorem rxComplete_shape {r r' : Rx} {c c' : Chan} {k : Complete}
    (h : RxShape r) (hc : rxComplete r c = (k, r', c')) : RxShape r' := by
  obtain ⟨recvBin, recvRoom, eofIdle⟩ := h
  rcases rxComplete_cases r c with ⟨hp, hr⟩ | ⟨m, rest, hp, hd, hr⟩ | ⟨hp, hd, he, hr⟩ | ⟨hp, hd, he, hr⟩ |
    ⟨hp, hd, he, hr⟩ | ⟨hp, hz, hr⟩ | ⟨m, hp, hz, hne, hr⟩ | ⟨m, hp, hz, heq, hr⟩ | ⟨hp, hz, hr⟩
  all_goals (rw [hr] at hc; simp only [Prod.mk.injEq] at hc; obtain ⟨rfl, rfl, rfl⟩ := hc)
  all_goals (refine ⟨?_, ?_, ?_⟩ <;> simp_all)

theorem rxIter_shape {n seg : Nat} {r r' : Rx} {it : Iter}
    (h : RxShape r) (hidle : r.phase = .idle) (hi : rxIter n seg r = (it, r')) :
    RxShape r' ∧ (∀ o, it = .ret o → r'.phase = .idle) := by
  obtain ⟨recvBin, recvRoom, eofIdle⟩ := h
  have next : ∀ r0 : Rx, r0.phase = .idle → r0.eofVerified = false → remainingAllowed r0 ≠ some 0 →
      rxNext r0 = (it, r') → RxShape r' ∧ (∀ o, it = .ret o → r'.phase = .idle) := by
    intro r0 hid hv hrem hn
    rcases rxNext_cases r0 with ⟨hb, hr⟩ | ⟨hb, hr⟩
    · rw [hr] at hn; simp only [Prod.mk.injEq] at hn; obtain ⟨rfl, rfl⟩ := hn
      refine ⟨⟨by simp, ?_, by simp [hv]⟩, by simp⟩
      intro _ e he
      have he' : r0.sizeInfo = .determined e := he
      simp only [remainingAllowed, he'] at hrem
      show r0.bytesRead < e
      simp at hrem; omega
    · rw [hr] at hn
      rcases startEof_cases r0 with ⟨e, hs, hne, hq⟩ | ⟨e, hs, heq, hq⟩ | ⟨hs, hq⟩ | ⟨hs, hq⟩
      all_goals (rw [hq] at hn; simp only [Prod.mk.injEq] at hn; obtain ⟨rfl, rfl⟩ := hn)
      · exact ⟨⟨by simp [hid], by simp [hid], fun _ => hid⟩, fun _ _ => hid⟩
      · exact ⟨⟨by simp [hid], by simp [hid], fun _ => hid⟩, by simp⟩
      · exact ⟨⟨by simp, by simp, by simp [hv]⟩, by simp⟩
      · exact ⟨⟨by simp [hid], by simp [hid], fun _ => hid⟩, by simp⟩
  rcases rxIter_cases n seg r with ⟨hv, hr⟩ | ⟨hv, hrem, hr⟩ | ⟨b, hv, hrem, hb, hne, hr⟩ | ⟨hv, hrem, hb, hr⟩ |
    ⟨hv, hrem, hb, hr⟩
  · rw [hr] at hi; simp only [Prod.mk.injEq] at hi; obtain ⟨rfl, rfl⟩ := hi
    exact ⟨⟨recvBin, recvRoom, eofIdle⟩, fun _ _ => hidle⟩
  · rw [hr] at hi; simp only [Prod.mk.injEq] at hi; obtain ⟨rfl, rfl⟩ := hi
    exact ⟨⟨by simp [hidle], by simp [hidle], fun _ => hidle⟩, fun _ _ => hidle⟩
  · rw [hr] at hi; simp only [Prod.mk.injEq] at hi; obtain ⟨rfl, rfl⟩ := hi
    exact ⟨⟨by simp [hidle], by simp [hidle], fun _ => hidle⟩, fun _ _ => hidle⟩
  · rw [hr] at hi
    exact next { r with buf := none } hidle hv hrem hi
  · rw [hr] at hi
    exact next _ hidle hv hrem hi

theorem pollRead_shape {n seg : Nat} : ∀ (fuel : Nat) {r r' : Rx} {c c' : Chan} {o : Out},
    RxShape r → pollRead n seg fuel r c = (o, r', c') → RxShape r'
  | 0, r, r', c, c', o, h, hp => by
    simp only [pollRead, Prod.mk.injEq] at hp
    obtain ⟨_, rfl, _⟩ := hp
    exact h
  | fuel + 1, r, r', c, c', o, h, hp => by
    rw [pollRead] at hp
    rcases hc : rxComplete r c with ⟨k, r1, c1⟩
    rw [hc] at hp
    have h1 := rxComplete_shape h hc
    have hidle := (rxComplete_inv_phase hc)
    cases k with
    | pend => simp only [Prod.mk.injEq] at hp; obtain ⟨_, rfl, _⟩ := hp; exact h1
    | fail e => simp only [Prod.mk.injEq] at hp; obtain ⟨_, rfl, _⟩ := hp; exact h1
    | cont =>
      simp only at hp
      rcases hi : rxIter n seg r1 with ⟨it, r2⟩
      rw [hi] at hp
      have h2 := (rxIter_shape h1 (hidle rfl) hi).1
      cases it with
      | ret o' => simp only [Prod.mk.injEq] at hp; obtain ⟨_, rfl, _⟩ := hp; exact h2
      | again => exact pollRead_shape fuel h2 hp

/-- End markers of the two channels. -/
structure ChShape (cfg : Cfg) (tx : Tx) (ch : Chan) (cutDone : Bool) (announced : Option Nat) : Prop where
  closedEnd : tx.binOpen = false → ch.dataEnd ≠ .open
  noCut : cutDone = false → ch.dataEnd ≠ .broken ∧ ch.size ≠ .broken
  sizePending : cutDone = false → tx.mode = .unknown → tx.alive = true → ch.size = .pending
  sizeAnnounced : cutDone = false → ∀ m, announced = some m → ch.size = .sent m
  sizeDropped : tx.alive = false → tx.mode = .unknown → ch.size ≠ .pending
  deadClosed : tx.alive = false → tx.binOpen = false
  nonempty : 0 < cfg.chunk → (∀ m ∈ ch.data, m ≠ []) ∧ (∀ m, tx.sending = some m → m ≠ [])

structure Shape (cfg : Cfg) (s : State) : Prop where
  rx : RxShape s.rx
  ch : ChShape cfg s.tx s.ch s.cutDone s.announced

theorem shape_init (cfg : Cfg) : Shape cfg (init cfg) := by
  refine ⟨⟨?_, ?_, ?_⟩, ⟨?_, ?_, ?_, ?_, ?_, ?_, ?_⟩⟩ <;> simp [init]

theorem handOver_shape {cfg : Cfg} {s : State} {e : Option Err} {t : Tx} {c : Chan}
    (h : ChShape cfg s.tx s.ch s.cutDone s.announced) (hc : txComplete s.tx s.ch = (e, t, c)) :
    ChShape cfg t c s.cutDone s.announced := by
  obtain ⟨closedEnd, noCut, sizePending, sizeAnnounced, sizeDropped, deadClosed, nonempty⟩ := h
  rcases txComplete_cases s.tx s.ch with ⟨hs, hr⟩ | ⟨m, hs, hn, hr⟩ | ⟨m, hs, hn, hd, hr⟩ | ⟨m, hs, hn, hd, hr⟩
  all_goals (rw [hr] at hc; simp only [Prod.mk.injEq] at hc; obtain ⟨rfl, rfl, rfl⟩ := hc)
  · exact ⟨closedEnd, noCut, sizePending, sizeAnnounced, sizeDropped, deadClosed, nonempty⟩
  · have hne := closeData_dataEnd_ne_open s.ch
    refine ⟨fun _ => hne, ?_, by simpa using sizePending, by simpa using sizeAnnounced, by simpa using sizeDropped,
      fun _ => rfl, ?_⟩
    · intro hcut
      refine ⟨?_, by simpa using (noCut hcut).2⟩
      rcases closeData_cases s.ch with ⟨_, h2⟩ | ⟨_, h2⟩ <;> rw [h2]
      · simp
      · exact (noCut hcut).1
    · intro hk; exact ⟨by simpa using (nonempty hk).1, by simp⟩
  · refine ⟨by simpa [hd] using closedEnd, noCut, sizePending, sizeAnnounced, sizeDropped, deadClosed, ?_⟩
    intro hk
    refine ⟨?_, by simp⟩
    intro x hx
    simp only [List.mem_append, List.mem_singleton] at hx
    rcases hx with hx | rfl
    · exact (nonempty hk).1 x hx
    · exact (nonempty hk).2 x hs
  · refine ⟨closedEnd, noCut, sizePending, sizeAnnounced, sizeDropped, deadClosed, ?_⟩
    intro hk; exact ⟨(nonempty hk).1, by simp⟩

theorem writeCore_shape {cfg : Cfg} {tx t : Tx} {ch : Chan} {cut : Bool} {ann : Option Nat} {bs : Bytes} {res : WRes}
    (h : ChShape cfg tx ch cut ann) (hw : writeCore cfg.chunk bs tx = (res, t)) : ChShape cfg t ch cut ann := by
  obtain ⟨closedEnd, noCut, sizePending, sizeAnnounced, sizeDropped, deadClosed, nonempty⟩ := h
  rcases writeCore_cases cfg.chunk bs tx with ⟨hb, hr⟩ | ⟨hb, hbs, hr⟩ | ⟨e, hb, hbs, hm, hle, hr⟩ |
      ⟨e, n, hb, hbs, hm, hlt, hn, hr⟩ | ⟨n, hb, hbs, hm, hn, hr⟩
  all_goals (rw [hr] at hw; simp only [Prod.mk.injEq] at hw; obtain ⟨rfl, rfl⟩ := hw)
  · exact ⟨closedEnd, noCut, sizePending, sizeAnnounced, sizeDropped, deadClosed, nonempty⟩
  · exact ⟨closedEnd, noCut, sizePending, sizeAnnounced, sizeDropped, deadClosed, nonempty⟩
  · exact ⟨closedEnd, noCut, sizePending, sizeAnnounced, sizeDropped, deadClosed, nonempty⟩
  · refine ⟨closedEnd, noCut, sizePending, sizeAnnounced, sizeDropped, deadClosed, ?_⟩
    intro hk
    refine ⟨(nonempty hk).1, ?_⟩
    intro m hm'
    simp only [Option.some.injEq] at hm'
    subst hm'
    have hl : 0 < bs.length := List.length_pos_iff.mpr hbs
    intro hnil
    have : (bs.take n).length = 0 := by rw [hnil]; rfl
    rw [List.length_take] at this
    omega
  · refine ⟨closedEnd, noCut, sizePending, sizeAnnounced, sizeDropped, deadClosed, ?_⟩
    intro hk
    refine ⟨(nonempty hk).1, ?_⟩
    intro m hm'
    simp only [Option.some.injEq] at hm'
    subst hm'
    have hl : 0 < bs.length := List.length_pos_iff.mpr hbs
    intro hnil
    have : (bs.take n).length = 0 := by rw [hnil]; rfl
    rw [List.length_take] at this
    omega

theorem shutdownCore_shape {cfg : Cfg} {s : State} {e : Option Err} {t : Tx} {c : Chan}
    (hi : Inv cfg s) (h : ChShape cfg s.tx s.ch s.cutDone s.announced) (halive : s.tx.alive = true)
    (hw : shutdownCore s.tx s.ch = (e, t, c)) :
    ChShape cfg t c s.cutDone (announcedBy s) := by
  obtain ⟨closedEnd, noCut, sizePending, sizeAnnounced, sizeDropped, deadClosed, nonempty⟩ := h
  have hne := closeData_dataEnd_ne_open s.ch
  have hnb : s.cutDone = false → (closeData s.ch).dataEnd ≠ .broken := by
    intro hcut
    rcases closeData_cases s.ch with ⟨_, h2⟩ | ⟨_, h2⟩ <;> rw [h2]
    · simp
    · exact (noCut hcut).1
  rcases shutdownCore_cases s.tx s.ch with ⟨x, hm, hx, hr⟩ | ⟨x, hm, hx, hr⟩ | ⟨hm, hp, hr⟩ | ⟨hm, hp, hr⟩
  all_goals (rw [hr] at hw; simp only [Prod.mk.injEq] at hw; obtain ⟨rfl, rfl, rfl⟩ := hw)
  · have ha : announcedBy s = s.announced := by simp [announcedBy, hm]
    rw [ha]
    exact ⟨fun _ => hne, fun hcut => ⟨hnb hcut, by simpa using (noCut hcut).2⟩, by simp,
      by simpa using sizeAnnounced, by simp, by simpa using deadClosed, by simpa using nonempty⟩
  · have ha : announcedBy s = s.announced := by simp [announcedBy, hm]
    rw [ha]
    exact ⟨fun _ => hne, fun hcut => ⟨hnb hcut, by simpa using (noCut hcut).2⟩, by simp,
      by simpa using sizeAnnounced, by simp, by simpa using deadClosed, by simpa using nonempty⟩
  · have ha : announcedBy s = some s.tx.bytesWritten := by simp [announcedBy, hm]
    rw [ha]
    exact ⟨fun _ => by simpa using hne, fun hcut => ⟨by simpa using hnb hcut, by simp⟩, by simp,
      by simp, by simp, by simpa using deadClosed, by simpa using nonempty⟩
  · have ha : announcedBy s = some s.tx.bytesWritten := by simp [announcedBy, hm]
    rw [ha]
    refine ⟨fun _ => hne, fun hcut => ⟨hnb hcut, by simpa using (noCut hcut).2⟩, by simp,
      ?_, by simp, by simpa using deadClosed, by simpa using nonempty⟩
    intro hcut
    exact absurd (sizePending hcut hm halive) hp

/-- What `poll_read` does to the port: it only takes messages off the front. -/
theorem pollRead_chan {n seg : Nat} : ∀ (fuel : Nat) {r r' : Rx} {c c' : Chan} {o : Out},
    pollRead n seg fuel r c = (o, r', c') →
    c'.dataEnd = c.dataEnd ∧ c'.size = c.size ∧ c'.rxGone = c.rxGone ∧ c'.txNoticed = c.txNoticed ∧
    (∀ m ∈ c'.data, m ∈ c.data)
  | 0, r, r', c, c', o, hp => by
    simp only [pollRead, Prod.mk.injEq] at hp
    obtain ⟨_, _, rfl⟩ := hp
    exact ⟨rfl, rfl, rfl, rfl, fun _ h => h⟩
  | fuel + 1, r, r', c, c', o, hp => by
    rw [pollRead] at hp
    rcases hc : rxComplete r c with ⟨k, r1, c1⟩
    rw [hc] at hp
    have h1 : c1.dataEnd = c.dataEnd ∧ c1.size = c.size ∧ c1.rxGone = c.rxGone ∧ c1.txNoticed = c.txNoticed ∧
        (∀ m ∈ c1.data, m ∈ c.data) := by
      rcases rxComplete_cases r c with ⟨hp, hr⟩ | ⟨m, rest, hp, hd, hr⟩ | ⟨hp, hd, he, hr⟩ | ⟨hp, hd, he, hr⟩ |
        ⟨hp, hd, he, hr⟩ | ⟨hp, hz, hr⟩ | ⟨m, hp, hz, hne, hr⟩ | ⟨m, hp, hz, heq, hr⟩ | ⟨hp, hz, hr⟩
      all_goals (rw [hr] at hc; simp only [Prod.mk.injEq] at hc; obtain ⟨_, _, rfl⟩ := hc)
      all_goals (refine ⟨rfl, rfl, rfl, rfl, ?_⟩)
      all_goals (first | exact fun _ h => h | (intro x hx; rw [hd]; exact List.mem_cons_of_mem _ hx))
    cases k with
    | pend => simp only [Prod.mk.injEq] at hp; obtain ⟨_, _, rfl⟩ := hp; exact h1
    | fail e => simp only [Prod.mk.injEq] at hp; obtain ⟨_, _, rfl⟩ := hp; exact h1
    | cont =>
      simp only at hp
      rcases hi : rxIter n seg r1 with ⟨it, r2⟩
      rw [hi] at hp
      cases it with
      | ret o' => simp only [Prod.mk.injEq] at hp; obtain ⟨_, _, rfl⟩ := hp; exact h1
      | again =>
        obtain ⟨a, b, c2, d, e⟩ := pollRead_chan fuel hp
        obtain ⟨a1, b1, c3, d1, e1⟩ := h1
        exact ⟨a.trans a1, b.trans b1, c2.trans c3, d.trans d1, fun m hm => e1 m (e m hm)⟩

theorem shape_step {cfg : Cfg} {s s' : State} {l : Label} {o : Out}
    (hi : Inv cfg s) (h : Shape cfg s) (hs : stepOut cfg s l = some (o, s')) : Shape cfg s' := by
  obtain ⟨hrx, hch⟩ := h
  cases l with
  | write bs =>
    simp only [stepOut] at hs
    split at hs
    · unfold pollWrite at hs
      rcases hc : txComplete s.tx s.ch with ⟨e, t, c⟩
      rw [hc] at hs
      have h1 := handOver_shape hch hc
      cases e with
      | some e =>
        simp only [Option.some.injEq, Prod.mk.injEq] at hs
        obtain ⟨_, rfl⟩ := hs
        exact ⟨hrx, h1⟩
      | none =>
        simp only at hs
        rcases hw : writeCore cfg.chunk bs t with ⟨res, t2⟩
        rw [hw] at hs
        have h2 := writeCore_shape h1 hw
        cases res <;> (simp only [Option.some.injEq, Prod.mk.injEq] at hs; obtain ⟨_, rfl⟩ := hs; exact ⟨hrx, h2⟩)
    · cases hs
  | flush =>
    simp only [stepOut, pollFlush] at hs
    split at hs
    · rcases hc : txComplete s.tx s.ch with ⟨e, t, c⟩
      rw [hc] at hs
      have h1 := handOver_shape hch hc
      cases e <;> (simp only [Option.some.injEq, Prod.mk.injEq] at hs; obtain ⟨_, rfl⟩ := hs; exact ⟨hrx, h1⟩)
    · cases hs
  | shutdown =>
    simp only [stepOut] at hs
    split at hs
    · rename_i husable
      have halive : s.tx.alive = true := by
        simp only [txUsable, Bool.and_eq_true] at husable; exact husable.1
      unfold pollShutdown at hs
      rcases hc : txComplete s.tx s.ch with ⟨e, t, c⟩
      rw [hc] at hs
      have h1 := handOver_shape hch hc
      have hi1 := handOver_inv hi hc
      have hfr := txComplete_frame hc
      have hmode : t.mode = s.tx.mode := hfr.2.1
      cases e with
      | some e =>
        simp only [Option.some.injEq, Prod.mk.injEq] at hs
        obtain ⟨_, rfl⟩ := hs
        exact ⟨hrx, h1⟩
      | none =>
        simp only at hs
        rcases hw : shutdownCore t c with ⟨e2, t2, c2⟩
        rw [hw] at hs
        have h2 := shutdownCore_shape (s := s.handOver t c) hi1 h1 (by simpa [State.handOver, hfr.1] using halive) hw
        have hbw2 : t2.bytesWritten = t.bytesWritten := by
          rcases shutdownCore_cases t c with ⟨x, _, _, hr⟩ | ⟨x, _, _, hr⟩ | ⟨_, _, hr⟩ | ⟨_, _, hr⟩ <;>
            (rw [hr] at hw; simp only [Prod.mk.injEq] at hw; obtain ⟨_, rfl, _⟩ := hw; rfl)
        have hann : announcedBy (s.handOver t c) =
            (match s.tx.mode with
             | .unknown => some t2.bytesWritten
             | .known _ => s.announced) := by
          cases hm : s.tx.mode <;> simp [announcedBy, State.handOver, hmode, hbw2, hm]
        cases e2 with
        | none =>
          simp only [Option.some.injEq, Prod.mk.injEq] at hs
          obtain ⟨_, rfl⟩ := hs
          rw [hann] at h2
          exact ⟨hrx, h2⟩
        | some e2 =>
          simp only [Option.some.injEq, Prod.mk.injEq] at hs
          obtain ⟨_, rfl⟩ := hs
          have hk : ∃ x, s.tx.mode = .known x := by
            rcases shutdownCore_cases t c with ⟨x, hm, _, hr⟩ | ⟨x, hm, _, hr⟩ | ⟨_, _, hr⟩ | ⟨_, _, hr⟩
            · exact ⟨x, by rw [← hmode]; exact hm⟩
            · exact ⟨x, by rw [← hmode]; exact hm⟩
            · rw [hr] at hw; simp at hw
            · rw [hr] at hw; simp at hw
          obtain ⟨x, hx⟩ := hk
          rw [hann, hx] at h2
          exact ⟨hrx, h2⟩
    · cases hs
  | dropTx =>
    simp only [stepOut] at hs
    split at hs
    · simp only [Option.some.injEq, Prod.mk.injEq] at hs
      obtain ⟨_, rfl⟩ := hs
      obtain ⟨closedEnd, noCut, sizePending, sizeAnnounced, sizeDropped, deadClosed, nonempty⟩ := hch
      have hne := closeData_dataEnd_ne_open s.ch
      refine ⟨hrx, ?_⟩
      rcases dropTxChan_cases s.tx s.ch with ⟨hm, hp, hr⟩ | ⟨hnp, hr⟩ <;> rw [hr]
      · refine ⟨fun _ => by simpa using hne, ?_, by simp, ?_, by simp, by simp, ?_⟩
        · intro hcut
          refine ⟨?_, by simp⟩
          rcases closeData_cases s.ch with ⟨_, h2⟩ | ⟨_, h2⟩ <;> rw [h2]
          · simp
          · exact (noCut hcut).1
        · intro hcut m hmm
          have := (hi.tx.unknownFresh hm).1
          rw [this] at hmm; cases hmm
        · intro hk; exact ⟨by simpa using (nonempty hk).1, by simp⟩
      · refine ⟨fun _ => hne, ?_, by simp, by simpa using sizeAnnounced, ?_, by simp, ?_⟩
        · intro hcut
          refine ⟨?_, by simpa using (noCut hcut).2⟩
          rcases closeData_cases s.ch with ⟨_, h2⟩ | ⟨_, h2⟩ <;> rw [h2]
          · simp
          · exact (noCut hcut).1
        · intro _ hm
          rcases hnp with hnp | hnp
          · exact absurd hm hnp
          · simpa using hnp
        · intro hk; exact ⟨by simpa using (nonempty hk).1, by simp⟩
    · cases hs
  | moveTx =>
    simp only [stepOut] at hs
    split at hs
    · split at hs
      · simp only [Option.some.injEq, Prod.mk.injEq] at hs
        obtain ⟨_, rfl⟩ := hs
        exact ⟨hrx, hch⟩
      · simp only [Option.some.injEq, Prod.mk.injEq] at hs
        obtain ⟨_, rfl⟩ := hs
        obtain ⟨closedEnd, noCut, sizePending, sizeAnnounced, sizeDropped, deadClosed, nonempty⟩ := hch
        have hne := closeData_dataEnd_ne_open s.ch
        refine ⟨hrx, ⟨fun _ => hne, ?_, by simpa using sizePending, by simpa using sizeAnnounced,
          by simpa using sizeDropped, by simp, ?_⟩⟩
        · intro hcut
          refine ⟨?_, by simpa using (noCut hcut).2⟩
          rcases closeData_cases s.ch with ⟨_, h2⟩ | ⟨_, h2⟩ <;> rw [h2]
          · simp
          · exact (noCut hcut).1
        · intro hk; exact ⟨by simpa using (nonempty hk).1, by simp⟩
    · cases hs
  | read n seg =>
    simp only [stepOut] at hs
    split at hs
    · rcases hp : pollRead n seg (readFuel s.ch) s.rx s.ch with ⟨o', r, c⟩
      rw [hp] at hs
      simp only [Option.some.injEq, Prod.mk.injEq] at hs
      obtain ⟨rfl, rfl⟩ := hs
      obtain ⟨closedEnd, noCut, sizePending, sizeAnnounced, sizeDropped, deadClosed, nonempty⟩ := hch
      obtain ⟨hde, hsz, _, _, hmem⟩ := pollRead_chan _ hp
      refine ⟨pollRead_shape _ hrx hp, ⟨?_, ?_, ?_, ?_, ?_, deadClosed, ?_⟩⟩
      · simpa [hde] using closedEnd
      · simpa [hde, hsz] using noCut
      · simpa [hsz] using sizePending
      · simpa [hsz] using sizeAnnounced
      · simpa [hsz] using sizeDropped
      · intro hk; exact ⟨fun m hm => (nonempty hk).1 m (hmem m hm), (nonempty hk).2⟩
    · cases hs
  | dropRx =>
    simp only [stepOut] at hs
    split at hs
    · simp only [Option.some.injEq, Prod.mk.injEq] at hs
      obtain ⟨_, rfl⟩ := hs
      obtain ⟨closedEnd, noCut, sizePending, sizeAnnounced, sizeDropped, deadClosed, nonempty⟩ := hch
      exact ⟨⟨hrx.recvBin, hrx.recvRoom, hrx.eofIdle⟩,
        ⟨closedEnd, noCut, sizePending, sizeAnnounced, sizeDropped, deadClosed, nonempty⟩⟩
    · cases hs
  | cut =>
    simp only [stepOut] at hs
    split at hs
    · cases hs
    · simp only [Option.some.injEq, Prod.mk.injEq] at hs
      obtain ⟨_, rfl⟩ := hs
      obtain ⟨closedEnd, noCut, sizePending, sizeAnnounced, sizeDropped, deadClosed, nonempty⟩ := hch
      refine ⟨hrx, ⟨?_, by simp, by simp, by simp, ?_, deadClosed, nonempty⟩⟩
      · intro hb
        have := closedEnd hb
        show (match s.ch.dataEnd with | .open => DataEnd.broken | x => x) ≠ .open
        cases hd : s.ch.dataEnd <;> simp_all
      · intro ha hm
        have := sizeDropped ha hm
        show (match s.ch.size with | .pending => SizeChan.broken | x => x) ≠ .pending
        cases hz : s.ch.size <;> simp_all
  | notice =>
    simp only [stepOut] at hs
    split at hs
    · simp only [Option.some.injEq, Prod.mk.injEq] at hs
      obtain ⟨_, rfl⟩ := hs
      obtain ⟨closedEnd, noCut, sizePending, sizeAnnounced, sizeDropped, deadClosed, nonempty⟩ := hch
      exact ⟨hrx, ⟨closedEnd, noCut, sizePending, sizeAnnounced, sizeDropped, deadClosed, nonempty⟩⟩
    · cases hs
  | lose =>
    simp only [stepOut] at hs
    split at hs
    · rename_i hcut
      obtain ⟨closedEnd, noCut, sizePending, sizeAnnounced, sizeDropped, deadClosed, nonempty⟩ := hch
      split at hs
      · simp only [Option.some.injEq, Prod.mk.injEq] at hs
        obtain ⟨_, rfl⟩ := hs
        exact ⟨hrx, ⟨by simp, by simp [hcut], by simp [hcut], by simp [hcut], sizeDropped, deadClosed, nonempty⟩⟩
      · rename_i hbroken
        split at hs
        · cases hs
        · simp only [Option.some.injEq, Prod.mk.injEq] at hs
          obtain ⟨_, rfl⟩ := hs
          refine ⟨hrx, ⟨by simp [hbroken], by simp [hcut], by simp [hcut], by simp [hcut], sizeDropped, deadClosed, ?_⟩⟩
          intro hk
          exact ⟨fun m hm => (nonempty hk).1 m (List.dropLast_subset _ hm), (nonempty hk).2⟩
      · cases hs
    · cases hs
  | loseSize =>
    simp only [stepOut] at hs
    split at hs
    · rename_i hcut
      obtain ⟨closedEnd, noCut, sizePending, sizeAnnounced, sizeDropped, deadClosed, nonempty⟩ := hch
      split at hs
      · simp only [Option.some.injEq, Prod.mk.injEq] at hs
        obtain ⟨_, rfl⟩ := hs
        exact ⟨hrx, ⟨closedEnd, by simp [hcut], by simp [hcut], by simp [hcut], by simp, deadClosed, nonempty⟩⟩
      · cases hs
    · cases hs
  | sever =>
    simp only [stepOut] at hs
    split at hs
    · cases hs
    · simp only [Option.some.injEq, Prod.mk.injEq] at hs
      obtain ⟨_, rfl⟩ := hs
      obtain ⟨closedEnd, noCut, sizePending, sizeAnnounced, sizeDropped, deadClosed, nonempty⟩ := hch
      refine ⟨hrx, ⟨?_, ?_, sizePending, sizeAnnounced, sizeDropped, deadClosed, ?_⟩⟩
      · intro _
        show (match s.ch.dataEnd with | .open => DataEnd.closed | x => x) ≠ .open
        cases s.ch.dataEnd <;> simp
      · intro hcut
        refine ⟨?_, (noCut hcut).2⟩
        have := (noCut hcut).1
        show (match s.ch.dataEnd with | .open => DataEnd.closed | x => x) ≠ .broken
        cases hd : s.ch.dataEnd <;> simp_all
      · intro hk; exact ⟨by simp, (nonempty hk).2⟩

theorem inv_shape_run {cfg : Cfg} : ∀ (ls : List Label) {s : State}, Inv cfg s → Shape cfg s →
    Inv cfg (run cfg s ls) ∧ Shape cfg (run cfg s ls)
  | [], _, h, h2 => ⟨h, h2⟩
  | l :: ls, s, h, h2 => by
    unfold run
    cases hs : step cfg s l with
    | none => exact inv_shape_run ls h h2
    | some s' =>
      simp only [step, Option.map_eq_some_iff] at hs
      obtain ⟨⟨o, s''⟩, hso, rfl⟩ := hs
      exact inv_shape_run ls (inv_step h hso) (shape_step h h2 hso)

theorem shape_reachable {cfg : Cfg} {s : State} (h : Reachable cfg s) : Shape cfg s := by
  obtain ⟨ls, rfl⟩ := h
  exact (inv_shape_run ls (inv_init cfg) (shape_init cfg)).2

end Remoc.Io
