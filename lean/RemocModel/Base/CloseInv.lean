import RemocModel.Base.CloseStep

/-! Invariants of M_close, sending endpoint: the local queue and the `Sending` handles. -/

namespace Remoc.Close

theorem run_snoc (c : Cfg) (s : State) (ls : List Label) (l : Label) :
    run c s (ls ++ [l]) = (match step c (run c s ls) l with | some s' => s' | none => run c s ls) := by
  induction ls generalizing s with
  | nil => simp only [List.nil_append, run]; split <;> simp_all
  | cons a as ih => simp only [List.cons_append, run]; split <;> exact ih _

theorem run_append (c : Cfg) (s : State) (a b : List Label) : run c s (a ++ b) = run c (run c s a) b := by
  induction a generalizing s with
  | nil => rfl
  | cons x xs ih => simp only [List.cons_append, run]; split <;> exact ih _

theorem reachable_step (c : Cfg) (s s' : State) (l : Label) (h : Reachable c s) (hs : step c s l = some s') :
    Reachable c s' := by
  obtain ⟨a, b, o, ls, rfl⟩ := h
  exact ⟨a, b, o, ls ++ [l], by rw [run_snoc, hs]⟩

theorem reachable_run (c : Cfg) (s : State) (ls : List Label) (h : Reachable c s) : Reachable c (run c s ls) := by
  obtain ⟨a, b, o, l0, rfl⟩ := h
  exact ⟨a, b, o, l0 ++ ls, by rw [run_append]⟩

/-- invariants are proved once: initial state + preservation -/
theorem invariant_of_step (c : Cfg) (P : State → Prop) (h0 : ∀ a b o, P (init a b o))
    (hstep : ∀ s s' l, P s → step c s l = some s' → P s') (s : State) (h : Reachable c s) : P s := by
  obtain ⟨a, b, o, ls, rfl⟩ := h
  suffices ∀ s0, P s0 → P (run c s0 ls) from this _ (h0 a b o)
  intro s0 h0'
  induction ls generalizing s0 with
  | nil => exact h0'
  | cons l ls ih =>
    simp only [run]
    split
    · next s1 hs => exact ih _ (hstep _ _ _ h0' hs)
    · exact ih _ h0'

/-! ### list facts about `suffixOk` -/

def NonDropped (l : List HRes) : Prop := ∀ r ∈ l, r ≠ HRes.dropped

theorem nonDropped_cons (x : HRes) (l : List HRes) (hx : x ≠ .dropped) (h : NonDropped l) : NonDropped (x :: l) := by
  intro r hr
  rcases List.mem_cons.mp hr with rfl | hr
  · exact hx
  · exact h r hr

theorem suffixOk_nonDropped_append (l ds : List HRes) (h : NonDropped l) (hd : ∀ r ∈ ds, r = HRes.dropped) :
    suffixOk (l ++ ds) = true := by
  induction l with
  | nil =>
    cases ds with
    | nil => rfl
    | cons d ds =>
      have := hd d (by simp)
      subst this
      simp only [List.nil_append, suffixOk, List.all_eq_true]
      intro r hr
      simp [hd r (by simp [hr])]
  | cons x xs ih =>
    have hx : x ≠ .dropped := h x (by simp)
    have := ih (fun r hr => h r (by simp [hr]))
    cases x <;> simp_all [suffixOk]

theorem suffixOk_nonDropped (l : List HRes) (h : NonDropped l) : suffixOk l = true := by
  simpa using suffixOk_nonDropped_append l [] h (by simp)

/-- the shape `suffixOk` stands for: no dropped result before a non-dropped one -/
theorem suffixOk_split (l : List HRes) (h : suffixOk l = true) :
    ∃ pre suf, l = pre ++ suf ∧ NonDropped pre ∧ ∀ r ∈ suf, r = HRes.dropped := by
  induction l with
  | nil => exact ⟨[], [], rfl, by simp [NonDropped], by simp⟩
  | cons x xs ih =>
    cases x with
    | dropped =>
      refine ⟨[], .dropped :: xs, rfl, by simp [NonDropped], ?_⟩
      simp only [suffixOk, List.all_eq_true] at h
      intro r hr
      rcases List.mem_cons.mp hr with rfl | hr
      · rfl
      · simpa using h r hr
    | ok =>
      obtain ⟨pre, suf, rfl, hp, hsuf⟩ := ih (by simpa [suffixOk] using h)
      exact ⟨.ok :: pre, suf, rfl, nonDropped_cons _ _ (by simp) hp, hsuf⟩
    | sendErr =>
      obtain ⟨pre, suf, rfl, hp, hsuf⟩ := ih (by simpa [suffixOk] using h)
      exact ⟨.sendErr :: pre, suf, rfl, nonDropped_cons _ _ (by simp) hp, hsuf⟩

/-! ### the local queue and the `Sending` handles -/

structure QInv (s : State) : Prop where
  acc : s.accepted = s.hres.map (·.1) ++ s.cur.toList ++ s.q
  running : s.impl = none → NonDropped (s.hres.map (·.2))
  ended : s.impl.isSome → s.cur = none ∧ s.q = []
  sorted : suffixOk (s.hres.map (·.2)) = true
  xm : s.xmit = (s.hres.filter (·.2 == .ok)).map (·.1)

theorem nonDropped_append (a b : List HRes) (ha : NonDropped a) (hb : NonDropped b) : NonDropped (a ++ b) := by
  intro r hr
  rcases List.mem_append.mp hr with h | h
  · exact ha r h
  · exact hb r h

/-- `send_impl` leaves its loop while idle (`cur = none`) -/
theorem qinv_endWith (s : State) (cause : EndCause) (h : QInv s) (hi : s.impl = none) (hc : s.cur = none) :
    QInv (endWith s cause) := by
  obtain ⟨h1, h2, h3, h4, h5⟩ := h
  refine ⟨?_, ?_, ?_, ?_, ?_⟩
  · simp [endWith, h1, hc, Function.comp_def]
  · simp [endWith]
  · intro _; simp [endWith, hc]
  · simp only [endWith, List.map_append, List.map_map]
    exact suffixOk_nonDropped_append _ _ (h2 hi) (by simp)
  · simp [endWith, h5, List.filter_append, List.filter_map, Function.comp_def]

theorem qinv_step (c : Cfg) (s s' : State) (l : Label) (h : QInv s) (hs : step c s l = some s') : QInv s' := by
  have h' := h
  obtain ⟨h1, h2, h3, h4, h5⟩ := h
  cases l with
  | sendOnce v =>
    simp only [step] at hs
    (repeat' split at hs) <;> (try (simp at hs; done)) <;> (obtain rfl := Option.some.inj hs) <;>
      (try (exact ⟨h1, h2, h3, h4, h5⟩))
    rename_i hh _
    refine ⟨by simp [h1], h2, ?_, h4, h5⟩
    intro hi; simp_all
  | grant =>
    simp only [step] at hs
    (repeat' split at hs) <;> (try (simp at hs; done))
    obtain rfl := Option.some.inj hs
    rename_i hh
    refine ⟨by simp [h1], h2, ?_, h4, h5⟩
    intro hi; simp_all
  | implTake =>
    simp only [step] at hs
    (repeat' split at hs) <;> (try (simp at hs; done))
    obtain rfl := Option.some.inj hs
    rename_i v rest hq hh
    have hc : s.cur = none := by simpa using hh.2
    refine ⟨by simp [h1, hq, hc], h2, ?_, h4, h5⟩
    intro hi; simp_all
  | xmitDone =>
    simp only [step] at hs
    (repeat' split at hs) <;> (try (simp at hs; done))
    obtain rfl := Option.some.inj hs
    rename_i v hc hh
    have hi : s.impl = none := by
      cases hi : s.impl with
      | none => rfl
      | some x => have := (h3 (by simp [hi])).1; simp [hc] at this
    refine ⟨by simp [h1, hc], fun _ => ?_, ?_, ?_, ?_⟩
    · simp only [List.map_append, List.map_cons, List.map_nil]
      exact nonDropped_append _ _ (h2 hi) (by simp [NonDropped])
    · intro hh2; simp [hi] at hh2
    · simp only [List.map_append, List.map_cons, List.map_nil]
      exact suffixOk_nonDropped _ (nonDropped_append _ _ (h2 hi) (by simp [NonDropped]))
    · simp [h5, List.filter_append]
  | xmitItemFail =>
    simp only [step] at hs
    (repeat' split at hs) <;> (try (simp at hs; done))
    obtain rfl := Option.some.inj hs
    rename_i v hc hh
    have hi : s.impl = none := by
      cases hi : s.impl with
      | none => rfl
      | some x => have := (h3 (by simp [hi])).1; simp [hc] at this
    refine ⟨by simp [h1, hc], fun _ => ?_, ?_, ?_, ?_⟩
    · simp only [List.map_append, List.map_cons, List.map_nil]
      exact nonDropped_append _ _ (h2 hi) (by simp [NonDropped])
    · intro hh2; simp [hi] at hh2
    · simp only [List.map_append, List.map_cons, List.map_nil]
      exact suffixOk_nonDropped _ (nonDropped_append _ _ (h2 hi) (by simp [NonDropped]))
    · simp [h5, List.filter_append]
  | xmitFail =>
    simp only [step] at hs
    split at hs
    · rename_i v hc
      split at hs
      · obtain rfl := Option.some.inj hs
        have hi : s.impl = none := by
          cases hi : s.impl with
          | none => rfl
          | some x => have := (h3 (by simp [hi])).1; simp [hc] at this
        refine ⟨by simp [h1, hc], fun _ => ?_, ?_, ?_, ?_⟩
        · simp only [List.map_append, List.map_cons, List.map_nil]
          exact nonDropped_append _ _ (h2 hi) (by simp [NonDropped])
        · intro hh2; simp [hi] at hh2
        · simp only [List.map_append, List.map_cons, List.map_nil]
          exact suffixOk_nonDropped _ (nonDropped_append _ _ (h2 hi) (by simp [NonDropped]))
        · simp [h5, List.filter_append]
      · simp at hs
    · simp at hs
  | implBack =>
    simp only [step] at hs
    split at hs
    · rename_i hh
      have hi : s.impl = none := by simpa using hh.1
      have hc : s.cur = none := by simpa using hh.2
      split at hs <;> (try (simp at hs; done)) <;> (obtain rfl := Option.some.inj hs)
      · rename_i bs hb
        have := qinv_endWith { s with back := bs } .close ⟨h1, h2, h3, h4, h5⟩ hi hc
        exact ⟨this.1, this.2, this.3, this.4, this.5⟩
      · rename_i bs hb
        have := qinv_endWith { s with back := bs } .error ⟨h1, h2, h3, h4, h5⟩ hi hc
        exact ⟨this.1, this.2, this.3, this.4, this.5⟩
      · rename_i bs hb
        have := qinv_endWith { s with back := bs } .fin ⟨h1, h2, h3, h4, h5⟩ hi hc
        exact ⟨this.1, this.2, this.3, this.4, this.5⟩
    · simp at hs
  | implConn =>
    simp only [step] at hs
    split at hs
    · rename_i hh
      obtain rfl := Option.some.inj hs
      have := qinv_endWith s .conn h' (by simpa using hh.1) (by simpa using hh.2.1)
      exact ⟨this.1, this.2, this.3, this.4, this.5⟩
    · simp at hs
  | implEnd =>
    simp only [step] at hs
    split at hs
    · rename_i hh
      obtain rfl := Option.some.inj hs
      exact qinv_endWith s .drained h' (by simpa using hh.1) (by simpa using hh.2.1)
    · simp at hs
  | _ =>
    simp only [step] at hs <;> (repeat' split at hs) <;> (try (simp at hs; done)) <;>
      (try (obtain rfl := Option.some.inj hs)) <;> (try (exact ⟨h1, h2, h3, h4, h5⟩))

theorem qinv_init (a b o : Nat) : QInv (init a b o) :=
  ⟨rfl, by intro _; simp [init, NonDropped], by simp [init], rfl, rfl⟩

theorem qinv_reachable (c : Cfg) (s : State) (h : Reachable c s) : QInv s :=
  invariant_of_step c QInv qinv_init (fun s s' l hi hs => qinv_step c s s' l hi hs) s h

end Remoc.Close
