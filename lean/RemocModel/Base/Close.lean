/-!
# M_close — close / drop / failure of a queued typed channel (`rch::mpsc`, `rch::oneshot`)

One mpsc channel as coded in `remoc/src/rch/mpsc/{mod.rs,sender.rs,receiver.rs}`:

* **one remote link** (a `Sender` that was deserialized at the sending endpoint, or — the same
  structure — the original senders of a channel whose `Receiver` travelled):
  `handles` live `Sender` clones sharing the `closed_rx` / `remote_send_err_rx` watches and the weak
  reference to the local tokio queue `q` (capacity `cap` = `BUFFER` resp. `local_buffer`), the holder
  task of `Sender::new` that owns the strong reference until the channel is closed or every clone
  is gone, the forwarding task `send_impl` (`select!` over the back channel and the local queue;
  `remote_tx.send(value).await` is *inside* the queue branch, so the back channel is not looked
  at while a value is being transmitted), the data direction of the port (`wire`, FIFO), the back
  channel (`back`, FIFO, bytes `BACKCHANNEL_MSG_CLOSE` / `BACKCHANNEL_MSG_ERROR`, end = raw sender
  dropped), `recv_impl` at the receiving endpoint;
* the **receiver** with its tokio queue `rq`, `final_err`, `close()`, drop;
* **local senders** (clones of the `Sender` that never left the receiver's endpoint: they share the
  receiver's `closed` watch directly and push straight into `rq`);
* every **other link** of the same channel as environment (`otherPush`, `otherFinal`, `otherGone`):
  links interact only through `rq` and the number of strong references to its sender.

Values are abstract (`id`, issuing clone, `bad` = the base send of this value fails item-specifically:
serialization error / `max_item_size`).  Not modelled: a receiver that is forwarded onwards a second
time (its effect on this link is the environment label `rNotifyErr`), `reserve`/`Permit`.
-/

namespace Remoc.Close

/-- `rch::ClosedReason` -/
inductive Reason where
  | closed | dropped | failed
deriving DecidableEq, Repr

/-- `rch::RemoteSendError` as far as the classification looks at it -/
inductive RErr where
  | closed      -- `RemoteSendError::Closed`
  | forward     -- `RemoteSendError::Forward`
  | sendClosed  -- `Send(SendErrorKind::Send(chmux::SendError::Closed { .. }))`
  | sendChMux   -- `Send(SendErrorKind::Send(chmux::SendError::ChMux))`
  | itemSer     -- `Send(SendErrorKind::Serialize(..))`: item specific
  | itemSize    -- `Send(SendErrorKind::MaxItemSizeExceeded)`: item specific
deriving DecidableEq, Repr

/-- how the base send of a value fails on its own (`SendErrorKind::Serialize` / `MaxItemSizeExceeded`) -/
inductive Bad where
  | no | ser | size
deriving DecidableEq, Repr

structure Val where
  id : Nat
  sender : Nat := 0
  bad : Bad := .no
deriving DecidableEq, Repr

/-- outcome of a `Sending` handle (`pending` = no entry) -/
inductive HRes where
  | ok | sendErr | dropped
deriving DecidableEq, Repr

inductive Frame where
  | val (v : Val)
  | fin            -- `SendFinish`: `remote_tx` dropped
deriving DecidableEq, Repr

inductive Back where
  | close | error | fin
deriving DecidableEq, Repr

/-- entries of the receiver's tokio queue / results of `recv` -/
inductive QE where
  | rem (v : Val)    -- value of the modelled remote link
  | loc (v : Val)    -- value of a local sender
  | other (x : Nat)  -- value of some other link
  | final            -- final (connection) error, held back by `recv`
deriving DecidableEq, Repr

/-- why `send_impl` left its loop -/
inductive EndCause where
  | close | error | fin | conn | drained
deriving DecidableEq, Repr

/-- why `recv_impl` left its loop -/
inductive RExit where
  | fin      -- `remote_rx.recv()` = `Ok(None)`
  | final    -- final receive error (connection)
  | rxGone   -- `ClosedReason::Dropped`, closed watch gone, or `tx.send` failed: the receiver is dropped
deriving DecidableEq, Repr

structure Cfg where
  cap : Nat := 2
  rcap : Nat := 2
  oneshot : Bool := false
deriving Repr, DecidableEq

structure State where
  -- sending endpoint
  handles : Nat := 1
  holder : Bool := true
  waiting : List Val := []
  q : List Val := []
  cur : Option Val := none
  impl : Option EndCause := none
  closedW : Option Reason := none
  errW : Option RErr := none
  -- the port
  wire : List Frame := []
  back : List Back := []
  connDown : Bool := false
  -- receiving endpoint
  rimpl : Option RExit := none
  rHold : Option QE := none
  rUnseen : Bool := false
  rq : List QE := []
  rW : Option Reason := none
  rClosedFlag : Bool := false
  rAlive : Bool := true
  finalErr : Bool := false
  eos : Option Bool := none
  lhandles : Nat := 0
  lholder : Bool := true
  otherRefs : Nat := 0
  -- ghost history
  accepted : List Val := []
  refused : List (Val × Option Reason) := []
  hres : List (Val × HRes) := []
  xmit : List Val := []
  fwd : List Val := []
  delivered : List QE := []
  lost : List QE := []
  lAccepted : List Val := []
  lRefused : List Val := []
  lhres : List (Val × HRes) := []
  closeCalled : Bool := false
  closeSent : Bool := false
  fwdErr : Bool := false
  failFlag : Bool := false

/-! ### observables -/

/-- `Sender::closed_reason()` (mpsc/sender.rs): the `closed` watch, else `Failed` if a remote send
error is recorded -/
def closedReasonOf (closedW : Option Reason) (errW : Option RErr) : Option Reason :=
  match closedW, errW with
  | some r, _ => some r
  | none, some _ => some .failed
  | none, none => none

/-- what every clone of the remote link observes (`closed_reason()`; `is_closed()` = `isSome`) -/
def State.reason (s : State) : Option Reason := closedReasonOf s.closedW s.errW

/-- what every local clone observes: it shares the receiver's `closed` watch; the channel's own
`remote_send_err` watch is written only by the `send_impl` of a forwarded receiver (not modelled) -/
def State.lreason (s : State) : Option Reason := closedReasonOf s.rW none

/-- `SendError::closed_reason()` of the error `Sender::send` builds from `remote_send_err`
(`from_remote_send_error`) -/
def errReason : RErr → Option Reason
  | .closed => some .closed
  | .sendClosed => some .dropped
  | .itemSer => none
  | _ => some .failed

def badErr : Bad → RErr
  | .size => .itemSize
  | _ => .itemSer

def remOf : List QE → List Val
  | [] => []
  | .rem v :: es => v :: remOf es
  | _ :: es => remOf es

def locOf : List QE → List Val
  | [] => []
  | .loc v :: es => v :: locOf es
  | _ :: es => locOf es

def wireVals : List Frame → List Val
  | [] => []
  | .val v :: fs => v :: wireVals fs
  | .fin :: fs => wireVals fs

/-- the results of the `Sending` handles, in the order of acceptance, never show a transmitted
(or individually failed) value after a dropped one -/
def suffixOk : List HRes → Bool
  | [] => true
  | .dropped :: rest => rest.all (· == .dropped)
  | _ :: rest => suffixOk rest

end Remoc.Close
