/-
M_base: `rch::base::{Sender, Receiver}` (rch/base/sender.rs, receiver.rs, io.rs) over the
*abstract port* established by C01/C11 on M_link: a chmux port delivers whole byte messages exactly
once and in order, an abandoned transmission (cancelled `send`, dropped `ChunkSender`) is discarded
by the reassembly — the receiver notices it at most as `RecvChunkError::Cancelled` while streaming —
and end-of-stream comes after all data.  The port is therefore a FIFO of tokens `PMsg`.

Serialization is abstracted: an item has an identity, an encoded size, a number of embedded channel
halves and optional failure positions of its (de)serializer.  A complete message token carries the
item it encodes (codec round trip = trusted base, checked byte-for-byte by the harness).

One label = one call of the API as far as the port is concerned: a `send` call appends its tokens to
the FIFO in one step (the tokens are only ever consumed in order, so finer interleavings with the
receiver are equivalent), `deliver` is the receiver consuming the next token inside some `recv` call,
`recvCancel` is a dropped `recv` future (all progress lives in `Receiver.{recved,data,item,port_deser}`,
so nothing changes).  No Mathlib imports.
-/

namespace Remoc.Base

/-- Limits in force for one base channel. -/
structure Cfg where
  /-- `chmux::Sender::max_data_size()`: limit of the buffered serialization attempt -/
  sMaxData : Nat
  /-- `max_data_size` of the receiving port: above it `recv_any` answers `Received::Chunks` -/
  rMaxData : Nat
  /-- `Sender::max_item_size` -/
  sMaxItem : Nat
  /-- `Receiver::max_item_size` -/
  rMaxItem : Nat
  /-- variant switch at the one step where the pinned tree diverges from the property (finding FB1):
  `false` = the code as it is — in streamed mode `Receiver::recv` returns the item as soon as the
  deserializer thread is satisfied, without looking at how the chunk stream ends;
  `true` = repaired — it waits for the end of the message and discards the item on `Cancelled`. -/
  strictEnd : Bool := false
deriving Repr, DecidableEq

/-- A value as seen by the channel. -/
structure Item where
  /-- identity (and content) of the value -/
  id : Nat
  /-- encoded size in bytes -/
  size : Nat
  /-- length of the prefix of the encoding that the receiver's deserializer reads (smaller than `size`
  when the sender's version of the type has trailing fields the receiver does not know) -/
  need : Nat := size
  /-- number of channel halves embedded in the value -/
  halves : Nat := 0
  /-- the serializer fails after having written this many bytes -/
  serFail : Option Nat := none
  /-- the deserializer of the receiver fails on this value -/
  deFail : Bool := false
deriving Repr, DecidableEq

/-- Tokens of the abstract port. -/
inductive PMsg where
  /-- a complete data message: the encoding of `it` -/
  | msg (it : Item)
  /-- `n` bytes of a message whose transmission was abandoned (no `last` frame).  `whole = some it`:
  the bytes already contain everything the receiver's deserializer reads of `it` (at least the
  end-of-message is missing).
  `derr`: the receiver's deserializer thread fails on these bytes and the receiver looks at its
  result before it notices the abort. -/
  | partialMsg (whole : Option Item) (n : Nat) (derr : Bool)
  /-- the port-request batch for `k` embedded halves -/
  | requests (k : Nat)
  /-- `SendFinish`: the sender was dropped -/
  | finish
deriving Repr, DecidableEq

/-- Result of one `send` call. -/
inductive SendRes where
  | ok
  | serErr        -- `SendErrorKind::Serialize`
  | oversize      -- `SendErrorKind::MaxItemSizeExceeded`
  | cancelled     -- the caller dropped the future
  | closed        -- `SendErrorKind::Send`: receiver closed / dropped / connection lost (final)
deriving Repr, DecidableEq

/-- Where the caller drops the `send` future (`none` = it runs to completion). -/
inductive Abort where
  | none
  /-- while the data is being transmitted; `n` bytes are on the port -/
  | inData (n : Nat)
  /-- after the data message, before the port-request batch is complete -/
  | beforePorts
  /-- not the caller: the port is closed under the transmission (receiver closed / dropped, connection
  lost) when `n` bytes are on the port (or, with all data sent, before the port batch is complete);
  the call fails with `SendErrorKind::Send` -/
  | closedAt (n : Nat)
deriving Repr, DecidableEq

def Abort.byClose : Abort → Bool
  | .closedAt _ => true
  | _ => false

inductive ErrKind where
  | oversize      -- `RecvError::MaxItemSizeExceeded`
  | deser         -- `RecvError::Deserialize`
  | missingPorts  -- `RecvError::MissingPorts`
deriving Repr, DecidableEq

/-- What a `recv` call returns for an item (all of these errors have `is_final() = false`). -/
inductive RecvOut where
  | value (it : Item)
  | itemErr (e : ErrKind)
deriving Repr, DecidableEq

/-- How the stream ended for the receiver. -/
inductive End where
  | eos        -- `Ok(None)`
  | failed     -- `RecvError::Receive(ChMux)` (final)
deriving Repr, DecidableEq

/-! ### sender -/

def BIG_DATA_LIMIT : Int := 16

def decBig (b : Int) : Int := max (b - 1) (-BIG_DATA_LIMIT)
def incBig (b : Int) : Int := min (b + 1) BIG_DATA_LIMIT

/-- Outcome of `serialize_buffered` (only attempted while `big_data ≤ 0`). -/
inductive BufAttempt where
  | skip          -- not attempted
  | fits          -- serialized into one buffer
  | overflow      -- `LimitedBytesWriter` overflowed first
  | serErr        -- the serializer failed before the limit was reached
deriving Repr, DecidableEq

def bufAttempt (c : Cfg) (big : Int) (it : Item) : BufAttempt :=
  if big ≤ 0 then
    match it.serFail with
    | some f => if f ≤ c.sMaxData then .serErr else .overflow
    | none => if it.size ≤ c.sMaxData then .fits else .overflow
  else .skip

/-- bytes of the encoding of `it` that the serializer can produce -/
def avail (it : Item) : Nat :=
  match it.serFail with
  | some f => min f it.size
  | none => it.size

/-- An abandoned chunk stream that has carried `n` bytes of `it`.  `early`: the receiver's
deserializer thread is done with these bytes (it has its item, or has failed) before the receiver
notices the abort — a race in the real code, resolved here when the token is created. -/
def abandoned (it : Item) (n : Nat) (early : Bool) : PMsg :=
  .partialMsg (if early ∧ it.need ≤ min n (avail it) then some it else none) (min n (avail it)) (early && it.deFail)

/-- the port-request phase after the complete data message -/
def portsPhase (it : Item) (ab : Abort) : List PMsg × SendRes :=
  if it.halves = 0 then ([.msg it], .ok)
  else match ab with
    | .beforePorts => ([.msg it], .cancelled)
    | .closedAt _ => ([.msg it], .closed)
    | _ => ([.msg it, .requests it.halves], .ok)

/-- `Sender::send` while the port is open: new `big_data`, tokens put on the port, result.
`early` and `n0` resolve what the model does not determine: the deserializer race of an abandoned
stream, and how many bytes of an over-size streamed item were handed over before the size check. -/
def sendItem (c : Cfg) (big : Int) (it : Item) (ab : Abort) (early : Bool) (n0 : Nat) :
    Int × List PMsg × SendRes :=
  match bufAttempt c big it with
  | .serErr => (big, [], .serErr)
  | .fits =>
    let big1 := decBig big
    if it.size > c.sMaxItem then (big1, [], .oversize)
    else match ab with
      | .inData n => (big1, [.partialMsg none n (early && it.deFail)], .cancelled)   -- whole-message `send`: the last bytes carry the `last` flag
      | .closedAt n => if n < it.size ∨ it.halves = 0 then (big1, [.partialMsg none n (early && it.deFail)], .closed)
                       else (big1, [.msg it], .closed)
      | _ => (big1, (portsPhase it ab).1, (portsPhase it ab).2)
  | .overflow => stream (incBig big)
  | .skip => stream big
where
  /-- streamed through the helper thread and a `ChunkSender` -/
  stream (big1 : Int) : Int × List PMsg × SendRes :=
    match ab with
    | .inData n => (big1, [abandoned it n early], .cancelled)        -- possibly every byte, `finish` missing
    | .closedAt n => if n < it.size ∨ it.halves = 0 ∨ it.serFail.isSome then (big1, [abandoned it n early], .closed)
                     else (big1, [.msg it], .closed)
    | _ =>
      match it.serFail with
      | some f =>
        if f > c.sMaxItem then (big1, [.partialMsg none n0 (early && it.deFail)], .oversize)
        else (big1, [abandoned it f early], .serErr)
      | none =>
        if it.size > c.sMaxItem then (big1, [.partialMsg none n0 (early && it.deFail)], .oversize)
        else
          let big2 := if it.size ≤ c.sMaxData then decBig big1 else big1
          (big2, (portsPhase it ab).1, (portsPhase it ab).2)

/-- `Sender::send` once the sender has learnt that the port is closed (receiver closed or dropped,
connection lost): nothing reaches the port; failures found before the first port operation are
still reported as such. -/
def sendClosed (c : Cfg) (big : Int) (it : Item) : Int × SendRes :=
  match bufAttempt c big it with
  | .serErr => (big, .serErr)
  | .fits => (decBig big, if it.size > c.sMaxItem then .oversize else .closed)
  | .overflow => (incBig big, .closed)
  | .skip => (big, .closed)

/-! ### receiver -/

structure RecvSt where
  /-- `Receiver.item` + `port_deser`: a deserialized item waiting for its port requests -/
  pending : Option Item := none
  /-- the port signalled end-of-stream -/
  finished : Bool := false
deriving Repr, DecidableEq

/-- receive-side failure of a completely transmitted item -/
def classify (c : Cfg) (it : Item) : Option ErrKind :=
  if it.size > c.rMaxItem then some .oversize
  else if it.deFail then some .deser
  else none

/-- The receiver consumes one token (`'restart` loop of `Receiver::recv`). -/
def rTok (c : Cfg) (r : RecvSt) (t : PMsg) : RecvSt × List RecvOut :=
  if r.finished then (r, []) else
  match t with
  | .requests k =>
    match r.pending with
    | some it =>
      if it.halves ≤ k then ({ r with pending := none }, [.value it])
      else (r, [.itemErr .missingPorts])
    | none => (r, [])                                  -- `Some(Received::Requests(_)) => continue 'restart`
  | .msg it =>                                          -- a new message start abandons a pending item
    match classify c it with
    | some e => ({ r with pending := none }, [.itemErr e])
    | none =>
      if it.halves = 0 then ({ r with pending := none }, [.value it])
      else ({ r with pending := some it }, [])
  | .partialMsg w n derr =>
    if n ≤ c.rMaxData then (r, [])                      -- swallowed inside `recv_any`
    else if n > c.rMaxItem then ({ r with pending := none }, [.itemErr .oversize])
    else match c.strictEnd, w with
      | false, some it =>
        -- pinned tree (FB1): the deserializer thread has its item, `tx.reserve()` fails, the feed loop
        -- ends with `Ok(())` and the item is taken although the message was never finished
        if it.deFail then ({ r with pending := none }, [.itemErr .deser])
        else if it.halves = 0 then ({ r with pending := none }, [.value it])
        else ({ r with pending := some it }, [])
      | _, _ =>
        if derr then ({ r with pending := none }, [.itemErr .deser])
        else ({ r with pending := none }, [])           -- `Cancelled` → `continue 'restart`
  | .finish => ({ pending := none, finished := true }, [])

/-- The receiver consumes a sequence of tokens. -/
def runToks (c : Cfg) : RecvSt → List PMsg → RecvSt × List RecvOut
  | r, [] => (r, [])
  | r, t :: ts =>
    let x := rTok c r t
    let y := runToks c x.1 ts
    (y.1, x.2 ++ y.2)

/-- What the receiver returns for the tokens of one `send` call, starting with nothing pending. -/
def outcome (c : Cfg) (toks : List PMsg) : List RecvOut := (runToks c {} toks).2

/-! ### the channel as a labelled transition system -/

/-- Ghost record of one `send` call. -/
structure Entry where
  item : Item
  res : SendRes
  toks : List PMsg
deriving Repr, DecidableEq

structure State where
  big : Int := 0
  /-- the sender has learnt that the port is closed -/
  sClosed : Bool := false
  sDropped : Bool := false
  /-- tokens in flight -/
  port : List PMsg := []
  r : RecvSt := {}
  /-- the receiver called `close()` (or was dropped) -/
  rClosed : Bool := false
  /-- the connection failed -/
  lost : Bool := false
  ended : Option End := none
  -- ghost history
  log : List Entry := []
  consumed : List PMsg := []
  got : List RecvOut := []
deriving Repr, DecidableEq

inductive Label where
  | send (it : Item) (ab : Abort) (derr : Bool) (n0 : Nat)
  /-- the receiver (inside a `recv` call) consumes the next token, or notices the lost connection -/
  | deliver
  /-- a `recv` future is dropped at any of its suspension points -/
  | recvCancel
  | close
  /-- the close / drop notification of the receiver reaches the sender -/
  | learnClose
  | dropSender
  | connLost
deriving Repr, DecidableEq

def init : State := {}

def step (c : Cfg) (st : State) : Label → Option State
  | .send it ab derr n0 =>
    if st.sDropped then none
    else if st.sClosed then
      let x := sendClosed c st.big it
      some { st with big := x.1, log := st.log ++ [{ item := it, res := x.2, toks := [] }] }
    else
      if ab.byClose = true ∧ ¬(st.rClosed ∨ st.lost) then none else
      let x := sendItem c st.big it ab derr n0
      some { st with big := x.1, port := if st.lost then st.port else st.port ++ x.2.1,
                     sClosed := st.sClosed || ab.byClose,
                     log := st.log ++ [{ item := it, res := x.2.2, toks := x.2.1 }] }
  | .deliver =>
    if st.ended.isSome then none else
    match st.port with
    | t :: rest =>
      let x := rTok c st.r t
      some { st with port := rest, r := x.1, consumed := st.consumed ++ [t], got := st.got ++ x.2,
                     ended := if x.1.finished then some .eos else none }
    | [] => if st.lost then some { st with ended := some .failed } else none
  | .recvCancel => some st
  | .close => some { st with rClosed := true }
  | .learnClose => if st.rClosed ∨ st.lost then some { st with sClosed := true } else none
  | .dropSender =>
    if st.sDropped then none
    else some { st with sDropped := true, port := if st.lost then st.port else st.port ++ [.finish] }
  | .connLost => some { st with lost := true, port := [] }

def run (c : Cfg) (st : State) : List Label → State
  | [] => st
  | l :: ls => match step c st l with
    | some st' => run c st' ls
    | none => run c st ls

def Reachable (c : Cfg) (st : State) : Prop := ∃ ls, st = run c init ls

/-! ### reading the history -/

def values : List RecvOut → List Item
  | [] => []
  | .value it :: os => it :: values os
  | .itemErr _ :: os => values os

def errors : List RecvOut → List ErrKind
  | [] => []
  | .value _ :: os => errors os
  | .itemErr e :: os => e :: errors os

/-- the ideal output of the receiver for a send history: entry by entry, independent of neighbours -/
def ideal (c : Cfg) (log : List Entry) : List RecvOut := log.flatMap (fun e => outcome c e.toks)

/-- the items whose `send` returned `Ok` -/
def sentOk (log : List Entry) : List Item := (log.filter (fun e => e.res = .ok)).map (·.item)

/-- the receiver can take the item (size limit, deserializer) -/
def receivable (c : Cfg) (it : Item) : Bool := (classify c it).isNone

end Remoc.Base
