import RemocModel.Base.CloseInv

/-! Invariants of M_close: what the `closed` / `remote_send_err` watches of the sending endpoint hold,
as a function of why `send_impl` ended. -/

namespace Remoc.Close

/-- value of the `closed` watch given the way `send_impl` ended (`none`: still running) and whether a
transmission failed before -/
def expW : Option EndCause → Bool → Option Reason
  | some .close, _ => some .closed
  | some .fin, _ => some .dropped
  | some .error, _ => some .failed
  | some .conn, _ => some .failed
  | _, ff => if ff then some .failed else none

structure WInv (s : State) : Prop where
  closedW : s.closedW = expW s.impl s.failFlag
  both : s.errW.isSome = s.closedW.isSome
  errClose : s.impl = some .close → s.errW = some .closed
  errFin : s.impl = some .fin → s.errW = some .sendClosed
  holder : s.holder = false → s.closedW.isSome ∨ s.handles = 0
  drained : s.impl = some .drained → s.failFlag = true ∨ s.handles = 0

theorem winv_init (a b o : Nat) : WInv (init a b o) :=
  ⟨rfl, rfl, by simp [init], by simp [init], by simp [init], by simp [init]⟩

/-- while a value is being transmitted `send_impl` is running -/
theorem running_of_cur (s : State) (hq : QInv s) (v : Val) (hc : s.cur = some v) : s.impl = none := by
  cases hi : s.impl with
  | none => rfl
  | some x => have := (hq.ended (by simp [hi])).1; simp [hc] at this

theorem winv_step (c : Cfg) (s s' : State) (l : Label) (hq : QInv s) (h : WInv s)
    (hs : step c s l = some s') : WInv s' := by
  obtain ⟨h1, h2, h3, h4, h5, h6⟩ := h
  cases l with
  | sendOnce v =>
    simp only [step] at hs
    (repeat' split at hs) <;> (try (simp at hs; done)) <;> (obtain rfl := Option.some.inj hs) <;>
      exact ⟨h1, h2, h3, h4, fun hh => by rcases h5 hh with h | h <;> simp_all,
        fun hh => by rcases h6 hh with h | h <;> simp_all⟩
  | clone =>
    simp only [step] at hs
    split at hs
    · simp at hs
    · rename_i hh
      obtain rfl := Option.some.inj hs
      have hne : s.handles ≠ 0 := fun h0 => hh (Or.inl h0)
      exact ⟨h1, h2, h3, h4, fun hh => by rcases h5 hh with h | h <;> simp_all,
        fun hh => by rcases h6 hh with h | h <;> simp_all⟩
  | dropSender =>
    simp only [step] at hs
    split at hs
    · simp at hs
    · obtain rfl := Option.some.inj hs
      exact ⟨h1, h2, h3, h4, fun hh => by rcases h5 hh with h | h <;> simp_all,
        fun hh => by rcases h6 hh with h | h <;> simp_all⟩
  | holderRelease =>
    simp only [step] at hs
    split at hs
    · rename_i hh
      obtain rfl := Option.some.inj hs
      exact ⟨h1, h2, h3, h4, fun _ => by simpa using hh.2, h6⟩
    · simp at hs
  | xmitItemFail =>
    simp only [step] at hs
    split at hs
    · rename_i v hc
      have hi := running_of_cur s hq v hc
      split at hs
      · obtain rfl := Option.some.inj hs
        exact ⟨by simp [hi, expW], rfl, by simp [hi], by simp [hi], fun _ => Or.inl rfl, by simp [hi]⟩
      · simp at hs
    · simp at hs
  | xmitFail =>
    simp only [step] at hs
    split at hs
    · rename_i v hc
      have hi := running_of_cur s hq v hc
      split at hs
      · obtain rfl := Option.some.inj hs
        exact ⟨by simp [hi, expW], rfl, by simp [hi], by simp [hi], fun _ => Or.inl rfl, by simp [hi]⟩
      · simp at hs
    · simp at hs
  | implBack =>
    simp only [step] at hs
    split at hs
    · split at hs <;> (try (simp at hs; done)) <;> (obtain rfl := Option.some.inj hs) <;>
        exact ⟨rfl, rfl, by simp [endWith], by simp [endWith], fun _ => Or.inl rfl, by simp [endWith]⟩
    · simp at hs
  | implConn =>
    simp only [step] at hs
    split at hs
    · obtain rfl := Option.some.inj hs
      exact ⟨rfl, rfl, by simp [endWith], by simp [endWith], fun _ => Or.inl rfl, by simp [endWith]⟩
    · simp at hs
  | implEnd =>
    simp only [step] at hs
    split at hs
    · rename_i hh
      obtain rfl := Option.some.inj hs
      have hi : s.impl = none := by simpa using hh.1
      have hho : s.holder = false := hh.2.2.2.1
      refine ⟨?_, h2, by simp [endWith], by simp [endWith], h5, fun _ => ?_⟩
      · simp only [endWith]; rw [h1, hi]; rfl
      · rcases h5 hho with h | h
        · left
          rw [h1, hi] at h
          cases hf : s.failFlag <;> simp_all [expW, endWith]
        · exact Or.inr h
    · simp at hs
  | _ =>
    simp only [step] at hs <;> (repeat' split at hs) <;> (try (simp at hs; done)) <;>
      (try (obtain rfl := Option.some.inj hs)) <;> (try (exact ⟨h1, h2, h3, h4, h5, h6⟩))

theorem qw_reachable (c : Cfg) (s : State) (h : Reachable c s) : QInv s ∧ WInv s :=
  invariant_of_step c (fun s => QInv s ∧ WInv s) (fun a b o => ⟨qinv_init a b o, winv_init a b o⟩)
    (fun s s' l hi hs => ⟨qinv_step c s s' l hi.1 hs, winv_step c s s' l hi.1 hi.2 hs⟩) s h

end Remoc.Close
