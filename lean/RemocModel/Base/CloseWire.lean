import RemocModel.Base.CloseLive

/-! Invariants of M_close: the data direction — what was transmitted is on the wire, with
`recv_impl`, in the receiver's queue, delivered, or was lost with a dropped receiver; nothing
follows `SendFinish`. -/

namespace Remoc.Close

@[simp] theorem remOf_append (a b : List QE) : remOf (a ++ b) = remOf a ++ remOf b := by
  induction a with
  | nil => rfl
  | cons x xs ih => cases x <;> simp [remOf, ih]

@[simp] theorem locOf_append (a b : List QE) : locOf (a ++ b) = locOf a ++ locOf b := by
  induction a with
  | nil => rfl
  | cons x xs ih => cases x <;> simp [locOf, ih]

@[simp] theorem wireVals_append (a b : List Frame) : wireVals (a ++ b) = wireVals a ++ wireVals b := by
  induction a with
  | nil => rfl
  | cons x xs ih => cases x <;> simp [wireVals, ih]

theorem remOf_cons' (e : QE) (r : List QE) : remOf (e :: r) = remOf [e] ++ remOf r := by cases e <;> rfl

/-- nothing follows a `SendFinish` on the wire -/
def finOk : List Frame → Bool
  | [] => true
  | .val _ :: fs => finOk fs
  | .fin :: fs => fs.isEmpty

theorem finOk_snoc (w : List Frame) (x : Frame) (h : finOk w = true) (hf : Frame.fin ∉ w) : finOk (w ++ [x]) = true := by
  induction w with
  | nil => cases x <;> rfl
  | cons f fs ih =>
    cases f with
    | val v => simp only [List.cons_append, finOk] at h ⊢; exact ih h (fun hm => hf (by simp [hm]))
    | fin => simp at hf

theorem finOk_tail (f : Frame) (fs : List Frame) (h : finOk (f :: fs) = true) : finOk fs = true := by
  cases f with
  | val v => exact h
  | fin => simp only [finOk, List.isEmpty_iff] at h; subst h; rfl

theorem finOk_fin (fs : List Frame) (h : finOk (.fin :: fs) = true) : fs = [] := by
  simpa [finOk] using h

structure DInv (s : State) : Prop where
  d1 : s.xmit = s.fwd ++ wireVals s.wire
  d2 : s.fwd = remOf s.delivered ++ remOf s.lost ++ remOf s.rq ++ remOf s.rHold.toList
  d3 : finOk s.wire = true
  d4 : s.rimpl = some .fin → s.wire = []
  d6 : s.rAlive = false → s.rq = []
  d7 : s.rAlive = true → s.lost = []
  d15 : ∀ e, s.rHold = some e → locOf [e] = []

theorem dinv_init (a b o : Nat) : DInv (init a b o) := by
  constructor <;> simp [init, wireVals, remOf, finOk]

theorem dinv_endWith (s : State) (cause : EndCause) (ci : CInv s) (h : DInv s) (hi : s.impl = none) :
    DInv (endWith s cause) := by
  obtain ⟨h1, h2, h3, h4, h6, h7, h15⟩ := h
  have hnf : Frame.fin ∉ s.wire := fun hm => by have := ci.wFin hm; simp [hi] at this
  have hrf : s.rimpl ≠ some .fin := fun hm => by have := ci.rFin hm; simp [hi] at this
  exact ⟨by simp [endWith, h1, wireVals], h2, finOk_snoc _ _ h3 hnf, fun hm => absurd hm hrf, h6, h7, h15⟩

theorem dinv_step_s (c : Cfg) (s s' : State) (l : Label) (hl : l.recvSide = false) (hq : QInv s) (ci : CInv s)
    (h : DInv s) (hs : step c s l = some s') : DInv s' := by
  have h' := h
  obtain ⟨h1, h2, h3, h4, h6, h7, h15⟩ := h
  cases l with
  | xmitDone =>
    simp only [step] at hs
    split at hs
    · rename_i v hc
      have hi := running_of_cur s hq v hc
      have hnf : Frame.fin ∉ s.wire := fun hm => by have := ci.wFin hm; simp [hi] at this
      have hrf : s.rimpl ≠ some .fin := fun hm => by have := ci.rFin hm; simp [hi] at this
      split at hs
      · obtain rfl := Option.some.inj hs
        exact ⟨by simp [h1, wireVals], h2, finOk_snoc _ _ h3 hnf, fun hm => absurd hm hrf, h6, h7, h15⟩
      · simp at hs
    · simp at hs
  | implBack =>
    simp only [step] at hs
    split at hs
    · rename_i hh
      have hi : s.impl = none := by simpa using hh.1
      split at hs <;> (try (simp at hs; done)) <;> (obtain rfl := Option.some.inj hs) <;> rename_i bs hb
      · have := dinv_endWith { s with back := bs } .close ⟨ci.1, ci.2, ci.3, ci.4, ci.5, ci.6⟩ ⟨h1, h2, h3, h4, h6, h7, h15⟩ hi
        exact ⟨this.1, this.2, this.3, this.4, this.5, this.6, this.7⟩
      · have := dinv_endWith { s with back := bs } .error ⟨ci.1, ci.2, ci.3, ci.4, ci.5, ci.6⟩ ⟨h1, h2, h3, h4, h6, h7, h15⟩ hi
        exact ⟨this.1, this.2, this.3, this.4, this.5, this.6, this.7⟩
      · have := dinv_endWith { s with back := bs } .fin ⟨ci.1, ci.2, ci.3, ci.4, ci.5, ci.6⟩ ⟨h1, h2, h3, h4, h6, h7, h15⟩ hi
        exact ⟨this.1, this.2, this.3, this.4, this.5, this.6, this.7⟩
    · simp at hs
  | implConn =>
    simp only [step] at hs
    split at hs
    · rename_i hh
      obtain rfl := Option.some.inj hs
      have := dinv_endWith s .conn ci h' (by simpa using hh.1)
      exact ⟨this.1, this.2, this.3, this.4, this.5, this.6, this.7⟩
    · simp at hs
  | implEnd =>
    simp only [step] at hs
    split at hs
    · rename_i hh
      obtain rfl := Option.some.inj hs
      exact dinv_endWith s .drained ci h' (by simpa using hh.1)
    · simp at hs
  | _ =>
    (first | (simp [Label.recvSide] at hl; done) | skip) <;>
    simp only [step] at hs <;> (repeat' split at hs) <;> (try (simp at hs; done)) <;>
      (try (obtain rfl := Option.some.inj hs)) <;> (try (exact ⟨h1, h2, h3, h4, h6, h7, h15⟩))

theorem dinv_step_r (c : Cfg) (s s' : State) (l : Label) (hl : l.recvSide = true)
    (h : DInv s) (hs : step c s l = some s') : DInv s' := by
  obtain ⟨h1, h2, h3, h4, h6, h7, h15⟩ := h
  cases l <;> (first | (simp [Label.recvSide] at hl; done) | skip) <;>
    simp only [step] at hs <;> (repeat' split at hs) <;> (try (simp at hs; done)) <;>
    (try (obtain rfl := Option.some.inj hs)) <;>
    (first
      | exact ⟨h1, h2, h3, h4, h6, h7, h15⟩
      | (constructor <;> simp_all [rexit, remOf, locOf, wireVals, finOk, dropLoc] <;> (try (rw [remOf_cons']; simp))))

end Remoc.Close
