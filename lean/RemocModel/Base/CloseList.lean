import RemocModel.Base.CloseInv

namespace Remoc.Close

/-! ### per-clone projection of the handle results -/

theorem all_dropped_filter (p : HRes → Bool) (l : List HRes) (h : l.all (· == .dropped) = true) :
    (l.filter p).all (· == .dropped) = true := by
  simp only [List.all_eq_true] at *
  intro r hr
  exact h r (List.mem_filter.mp hr).1

/-- a sub-list picked by positions keeps the shape "no dropped before a non-dropped" -/
theorem suffixOk_sublist {a b : List HRes} (hs : a.Sublist b) (h : suffixOk b = true) : suffixOk a = true := by
  induction hs with
  | slnil => rfl
  | cons x _ ih =>
    apply ih
    cases x
    · simpa [suffixOk] using h
    · simpa [suffixOk] using h
    · simp only [suffixOk, List.all_eq_true] at h
      exact suffixOk_nonDropped_append [] _ (by simp [NonDropped]) (fun r hr => by simpa using h r hr)
  | cons_cons x hsub ih =>
    cases x
    · simp only [suffixOk] at h ⊢; exact ih h
    · simp only [suffixOk] at h ⊢; exact ih h
    · simp only [suffixOk, List.all_eq_true] at h ⊢
      intro r hr
      exact h r (hsub.subset hr)

end Remoc.Close
