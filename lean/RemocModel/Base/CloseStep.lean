import RemocModel.Base.Close

/-!
Labels and transition function of M_close.  One label per await-free block of
`rch/mpsc/mod.rs` (`send_impl`, `recv_impl`), `rch/mpsc/sender.rs` (`Sender::send`, `Clone`, drop,
the holder task of `Sender::new`) and `rch/mpsc/receiver.rs` (`recv`, `close`, `Drop`).

`select!` in `send_impl` / `recv_impl` is `biased`; the model lets either ready branch be taken
(every real schedule is a model schedule).  After a connection failure the model still allows
frames that were in flight to be taken (`rRecv`) before the error is seen (`rRecvErr`): chmux may
hand out what it had already queued.
-/

namespace Remoc.Close

inductive Label where
  -- sending endpoint, API (environment)
  /-- `Sender::send` up to `tx.send(req).await` (mpsc), the whole `try_send` (oneshot) -/
  | send (v : Val)
  /-- `oneshot::Sender::send(self, value)` = `try_send`, consumes the sender -/
  | sendOnce (v : Val)
  /-- a `send` future waiting for queue space is dropped -/
  | cancelSend (i : Nat)
  | clone
  | dropSender
  -- sending endpoint, internal
  /-- a waiting `send` obtains its permit: the value is queued, `send` returns `Ok(Sending)` -/
  | grant
  /-- a waiting `send` finds the queue's receiver gone: `SendError::Closed` -/
  | waitFail
  /-- holder task of `Sender::new`: `closed_rx` became `Some` or every clone is gone -/
  | holderRelease
  /-- `send_impl`: `rx.recv()` = `Some(value)` -/
  | implTake
  /-- `remote_tx.send(value)` = `Ok`: `result_tx.send(Ok(()))` -/
  | xmitDone
  /-- `remote_tx.send(value)` fails for this item alone (serialization, size limit) -/
  | xmitItemFail
  /-- `remote_tx.send(value)` fails because the port is gone (receiving side dropped / connection) -/
  | xmitFail
  /-- `send_impl`: the back channel yields a message or its end -/
  | implBack
  /-- `send_impl`: the back channel yields an error (connection) -/
  | implConn
  /-- `send_impl`: `rx.recv()` = `None` -/
  | implEnd
  -- the connection (environment)
  | connFail
  -- receiving endpoint, internal
  /-- `recv_impl`: `closed_rx.changed()` = `Ok` -/
  | rSeeClosed
  /-- `recv_impl`: `closed_rx.changed()` = `Err` (the `Receiver` is gone) -/
  | rSeeGone
  /-- `recv_impl`: `remote_rx.recv()` yields a value or end-of-stream -/
  | rRecv
  /-- `recv_impl`: `remote_rx.recv()` yields a final error -/
  | rRecvErr
  /-- `recv_impl`: `tx.send(SendReq::new(value))` completes -/
  | rPush
  /-- `recv_impl`: `tx.send(..)` fails, the `Receiver` is gone -/
  | rPushFail
  /-- `Sender::new` holder task of the local senders -/
  | lholderRelease
  -- receiving endpoint, environment
  /-- `recv_impl`: `remote_send_err_rx.changed()`: the receiver was forwarded onwards and that failed -/
  | rNotifyErr
  | recv
  | close
  | dropRx
  | lsend (v : Val)
  | lclone
  | ldrop
  | otherPush (x : Nat)
  | otherFinal
  | otherGone
deriving DecidableEq, Repr

/-- `send_impl` leaves its loop: the queue's receiver is dropped with everything still queued (the
`result_tx` of those requests are dropped: `SendingError::Dropped`), `remote_tx` is dropped -/
def endWith (s : State) (cause : EndCause) : State :=
  { s with impl := some cause, hres := s.hres ++ s.q.map (·, HRes.dropped), q := [],
           wire := s.wire ++ [.fin] }

/-- `recv_impl` returns: its `raw_tx` (back channel) and `remote_rx` are dropped -/
def rexit (s : State) (cause : RExit) : State :=
  { s with rimpl := some cause, rHold := none,
           back := if s.connDown then s.back else s.back ++ [.fin] }

/-- local values that are dropped with the receiver's queue -/
def dropLoc (es : List QE) : List (Val × HRes) := (locOf es).map (·, HRes.dropped)

def step (c : Cfg) (s : State) : Label → Option State
  -- ---------------------------------------------------------------- sending endpoint
  | .send v =>
    if s.handles = 0 ∨ c.oneshot then none
    else match s.errW with
      | some e => some { s with refused := s.refused ++ [(v, errReason e)] }
      | none =>
        if s.holder = false then some { s with refused := s.refused ++ [(v, some .closed)] }
        else some { s with waiting := s.waiting ++ [v] }
  | .sendOnce v =>
    if s.handles = 0 ∨ c.oneshot = false then none
    else match s.errW with
      | some e => some { s with handles := s.handles - 1, refused := s.refused ++ [(v, errReason e)] }
      | none =>
        if s.holder = false ∨ s.impl.isSome then
          some { s with handles := s.handles - 1, refused := s.refused ++ [(v, some .closed)] }
        else if s.q.length < c.cap then
          some { s with handles := s.handles - 1, q := s.q ++ [v], accepted := s.accepted ++ [v] }
        else some { s with handles := s.handles - 1, refused := s.refused ++ [(v, some .failed)] }
  | .cancelSend i => if i < s.waiting.length then some { s with waiting := s.waiting.eraseIdx i } else none
  | .clone => if s.handles = 0 ∨ c.oneshot then none else some { s with handles := s.handles + 1 }
  | .dropSender => if s.handles = 0 then none else some { s with handles := s.handles - 1 }
  | .grant =>
    match s.waiting with
    | v :: ws =>
      if s.impl.isNone ∧ s.q.length < c.cap then
        some { s with waiting := ws, q := s.q ++ [v], accepted := s.accepted ++ [v] }
      else none
    | [] => none
  | .waitFail =>
    match s.waiting with
    | v :: ws => if s.impl.isSome then some { s with waiting := ws, refused := s.refused ++ [(v, some .closed)] } else none
    | [] => none
  | .holderRelease =>
    if s.holder ∧ (s.closedW.isSome ∨ s.handles = 0) then some { s with holder := false } else none
  | .implTake =>
    match s.q with
    | v :: rest => if s.impl.isNone ∧ s.cur.isNone then some { s with cur := some v, q := rest } else none
    | [] => none
  | .xmitDone =>
    match s.cur with
    | some v =>
      if v.bad = .no ∧ s.connDown = false then
        some { s with cur := none, wire := s.wire ++ [.val v], xmit := s.xmit ++ [v], hres := s.hres ++ [(v, .ok)] }
      else none
    | none => none
  | .xmitItemFail =>
    match s.cur with
    | some v =>
      if v.bad ≠ .no then
        some { s with cur := none, errW := some (badErr v.bad), closedW := some .failed, failFlag := true,
                      hres := s.hres ++ [(v, .sendErr)] }
      else none
    | none => none
  | .xmitFail =>
    match s.cur with
    | some v =>
      if s.connDown ∨ s.rimpl.isSome then
        some { s with cur := none, errW := some (if s.connDown then .sendChMux else .sendClosed),
                      closedW := some .failed, failFlag := true, hres := s.hres ++ [(v, .sendErr)] }
      else none
    | none => none
  | .implBack =>
    if s.impl.isNone ∧ s.cur.isNone then
      match s.back with
      | .close :: bs => some { endWith { s with back := bs } .close with errW := some .closed, closedW := some .closed }
      | .error :: bs => some { endWith { s with back := bs } .error with errW := some .forward, closedW := some .failed }
      | .fin :: bs => some { endWith { s with back := bs } .fin with errW := some .sendClosed, closedW := some .dropped }
      | [] => none
    else none
  | .implConn =>
    if s.impl.isNone ∧ s.cur.isNone ∧ s.connDown then
      some { endWith s .conn with errW := some .sendChMux, closedW := some .failed }
    else none
  | .implEnd =>
    if s.impl.isNone ∧ s.cur.isNone ∧ s.q = [] ∧ s.holder = false ∧ s.waiting = [] then some (endWith s .drained)
    else none
  | .connFail => some { s with connDown := true }
  -- ---------------------------------------------------------------- receiving endpoint
  | .rSeeClosed =>
    if s.rimpl.isNone ∧ s.rHold.isNone ∧ s.rUnseen then
      match s.rW with
      | some .closed =>
        some { s with rUnseen := false, back := if s.connDown then s.back else s.back ++ [.close],
                      closeSent := s.closeSent || !s.connDown }
      | some .failed => some { s with rUnseen := false, back := if s.connDown then s.back else s.back ++ [.error] }
      | some .dropped => some (rexit { s with rUnseen := false } .rxGone)
      | none => some { s with rUnseen := false }
    else none
  | .rSeeGone =>
    if s.rimpl.isNone ∧ s.rHold.isNone ∧ s.rUnseen = false ∧ s.rAlive = false then some (rexit s .rxGone) else none
  | .rNotifyErr =>
    if s.rimpl.isNone ∧ s.rHold.isNone then
      some { s with fwdErr := true, back := if s.connDown then s.back else s.back ++ [.error] }
    else none
  | .rRecv =>
    if s.rimpl.isNone ∧ s.rHold.isNone then
      match s.wire with
      | .val v :: fs => some { s with wire := fs, fwd := s.fwd ++ [v], rHold := some (.rem v) }
      | .fin :: fs => some (rexit { s with wire := fs } .fin)
      | [] => none
    else none
  | .rRecvErr =>
    if s.rimpl.isNone ∧ s.rHold.isNone ∧ s.connDown then some { s with rHold := some .final } else none
  | .rPush =>
    match s.rHold with
    | some e =>
      if s.rimpl.isNone ∧ s.rAlive ∧ s.rq.length < c.rcap then
        if e = .final then some (rexit { s with rq := s.rq ++ [e] } .final)
        else some { s with rq := s.rq ++ [e], rHold := none }
      else none
    | none => none
  | .rPushFail =>
    match s.rHold with
    | some e =>
      if s.rimpl.isNone ∧ s.rAlive = false then some (rexit { s with lost := s.lost ++ [e] } .rxGone) else none
    | none => none
  | .lholderRelease =>
    if s.lholder ∧ (s.rW.isSome ∨ s.lhandles = 0) then some { s with lholder := false } else none
  | .recv =>
    if s.rAlive ∧ s.eos.isNone then
      match s.rq with
      | .loc v :: r => some { s with rq := r, delivered := s.delivered ++ [.loc v], lhres := s.lhres ++ [(v, .ok)] }
      | .final :: r => some { s with rq := r, finalErr := true }
      | e :: r => some { s with rq := r, delivered := s.delivered ++ [e] }
      | [] =>
        if s.rimpl.isSome ∧ s.lholder = false ∧ s.otherRefs = 0 then some { s with eos := some (!s.finalErr) }
        else none
    else none
  | .close =>
    if s.rAlive then
      some { s with rW := some .closed, rClosedFlag := true, rUnseen := true, closeCalled := true }
    else none
  | .dropRx =>
    if s.rAlive then
      some { s with rAlive := false,
                    rW := if s.rClosedFlag then s.rW else some .dropped,
                    rUnseen := if s.rClosedFlag then s.rUnseen else true,
                    lost := s.lost ++ s.rq, lhres := s.lhres ++ dropLoc s.rq, rq := [] }
    else none
  | .lsend v =>
    if s.lhandles = 0 then none
    else if s.lholder = false ∨ s.rAlive = false then some { s with lRefused := s.lRefused ++ [v] }
    else if s.rq.length < c.rcap then some { s with rq := s.rq ++ [.loc v], lAccepted := s.lAccepted ++ [v] }
    else none
  | .lclone => if s.lhandles = 0 then none else some { s with lhandles := s.lhandles + 1 }
  | .ldrop => if s.lhandles = 0 then none else some { s with lhandles := s.lhandles - 1 }
  | .otherPush x =>
    if s.otherRefs > 0 ∧ s.rAlive ∧ s.rq.length < c.rcap then some { s with rq := s.rq ++ [.other x] } else none
  | .otherFinal =>
    if s.otherRefs > 0 ∧ s.rAlive ∧ s.rq.length < c.rcap then some { s with rq := s.rq ++ [.final] } else none
  | .otherGone => if s.otherRefs = 0 then none else some { s with otherRefs := s.otherRefs - 1 }

/-- labels of the receiving endpoint (used to split preservation proofs in two halves) -/
def Label.recvSide : Label → Bool
  | .rSeeClosed | .rSeeGone | .rRecv | .rRecvErr | .rPush | .rPushFail | .lholderRelease | .rNotifyErr
  | .recv | .close | .dropRx | .lsend _ | .lclone | .ldrop | .otherPush _ | .otherFinal | .otherGone => true
  | _ => false

def init (handles lhandles others : Nat) : State :=
  { handles := handles, lhandles := lhandles, otherRefs := others }

def run (c : Cfg) (s : State) : List Label → State
  | [] => s
  | l :: ls => match step c s l with
    | some s' => run c s' ls
    | none => run c s ls

def Reachable (c : Cfg) (s : State) : Prop := ∃ h lh o ls, s = run c (init h lh o) ls

end Remoc.Close

namespace Remoc.Close

/-- labels the runtime takes on its own (tasks `send_impl`, `recv_impl`, holder tasks, woken `send`s);
everything else is chosen by the environment (API calls, drops, the connection failing) -/
def internalLabels : List Label :=
  [.grant, .waitFail, .holderRelease, .implTake, .xmitDone, .xmitItemFail, .xmitFail, .implBack, .implConn,
   .implEnd, .rSeeClosed, .rSeeGone, .rRecv, .rRecvErr, .rPush, .rPushFail, .lholderRelease]

def Internal (l : Label) : Prop := l ∈ internalLabels

instance : DecidablePred Internal := fun l => inferInstanceAs (Decidable (l ∈ internalLabels))

/-- nothing is left for the runtime to do -/
def Quiescent (c : Cfg) (s : State) : Prop := ∀ l, Internal l → step c s l = none

/-- run internal steps (first enabled label of `internalLabels`) until none is enabled or the fuel is used up -/
def settle (c : Cfg) (s : State) : Nat → State
  | 0 => s
  | n + 1 =>
    match internalLabels.findSome? (step c s) with
    | some s' => settle c s' n
    | none => s

def quiescentB (c : Cfg) (s : State) : Bool := internalLabels.all (fun l => (step c s l).isNone)

theorem quiescent_iff (c : Cfg) (s : State) : quiescentB c s = true ↔ Quiescent c s := by
  simp [quiescentB, Quiescent, Internal, List.all_eq_true, Option.isNone_iff_eq_none]

end Remoc.Close
