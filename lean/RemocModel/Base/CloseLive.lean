import RemocModel.Base.CloseProv

/-! Invariants of M_close used for "eventually observable": a close that was called is on its way
(or arrived), a receiver that is gone is on its way; what a failed transmission means. -/

namespace Remoc.Close

structure KInv (s : State) : Prop where
  /-- a `close()` on a live receiver: `recv_impl` has still to see it, or has sent the CLOSE byte -/
  k1 : s.closeCalled = true → s.rAlive = true →
        s.rUnseen = true ∨ s.closeSent = true ∨ s.connDown = true ∨ s.rimpl.isSome
  /-- the CLOSE byte is in flight or `send_impl` has ended -/
  k2 : s.closeSent = true → Back.close ∈ s.back ∨ s.impl.isSome
  /-- `recv_impl` returned: the end of the back channel is in flight, or `send_impl` has ended -/
  k4 : s.rimpl.isSome → s.connDown = true ∨ Back.fin ∈ s.back ∨ s.impl.isSome
  /-- a dropped receiver leaves its `closed` watch set -/
  dead : s.rAlive = false → s.rW.isSome
  /-- `recv_impl` holds a value only while it runs -/
  hold : s.rimpl.isSome → s.rHold = none

theorem kinv_init (a b o : Nat) : KInv (init a b o) := by
  constructor <;> simp [init]

theorem kinv_step_s (c : Cfg) (s s' : State) (l : Label) (hl : l.recvSide = false) (h : KInv s)
    (hs : step c s l = some s') : KInv s' := by
  obtain ⟨h1, h2, h3, h4, h5⟩ := h
  cases l <;> (first | (exact absurd hl (by decide)) | skip) <;>
    simp only [step] at hs <;> (repeat' split at hs) <;> (try (simp at hs; done)) <;>
    (try (obtain rfl := Option.some.inj hs)) <;>
    (first
      | exact ⟨h1, h2, h3, h4, h5⟩
      | (constructor <;> simp_all [endWith] <;> (try split) <;> simp_all))

theorem kinv_step_r (c : Cfg) (s s' : State) (l : Label) (hl : l.recvSide = true) (hp : PInv s) (h : KInv s)
    (hs : step c s l = some s') : KInv s' := by
  obtain ⟨h1, h2, h3, h4, h5⟩ := h
  have p1 := hp.flag
  have p2 := hp.called
  clear hp
  cases l <;> (first | (exact absurd hl (by decide)) | skip) <;>
    simp only [step] at hs <;> (repeat' split at hs) <;> (try (simp at hs; done)) <;>
    (try (obtain rfl := Option.some.inj hs)) <;>
    (first
      | exact ⟨h1, h2, h3, h4, h5⟩
      | (constructor <;> simp_all [rexit] <;> (try split) <;> (try simp_all)))

theorem kinv_step (c : Cfg) (s s' : State) (l : Label) (hp : PInv s) (h : KInv s) (hs : step c s l = some s') : KInv s' := by
  cases hl : l.recvSide
  · exact kinv_step_s c s s' l hl h hs
  · exact kinv_step_r c s s' l hl hp h hs

/-- what a failed transmission is -/
structure FInv (s : State) : Prop where
  ff : s.failFlag = true ↔ HRes.sendErr ∈ s.hres.map (·.2)
  why : ∀ p ∈ s.hres, p.2 = HRes.sendErr → p.1.bad ≠ .no ∨ s.connDown = true ∨ s.rimpl.isSome

theorem finv_init (a b o : Nat) : FInv (init a b o) := by
  constructor <;> simp [init]

theorem finv_step (c : Cfg) (s s' : State) (l : Label) (h : FInv s) (hs : step c s l = some s') : FInv s' := by
  obtain ⟨h1, h2⟩ := h
  cases l <;> simp only [step] at hs <;> (repeat' split at hs) <;> (try (simp at hs; done)) <;>
    (try (obtain rfl := Option.some.inj hs)) <;>
    (first
      | exact ⟨h1, h2⟩
      | (constructor <;> simp_all [endWith, rexit] <;> grind))

/-- everything proved about reachable states of M_close so far -/
structure AllInv (s : State) : Prop where
  q : QInv s
  w : WInv s
  p : PInv s
  ci : CInv s
  k : KInv s
  f : FInv s

theorem allinv_reachable (c : Cfg) (s : State) (h : Reachable c s) : AllInv s :=
  invariant_of_step c AllInv
    (fun a b o => ⟨qinv_init a b o, winv_init a b o, pinv_init a b o, cinv_init a b o, kinv_init a b o, finv_init a b o⟩)
    (fun s s' l hi hs => ⟨qinv_step c s s' l hi.q hs, winv_step c s s' l hi.q hi.w hs, pinv_step c s s' l hi.p hs,
      cinv_step c s s' l hi.p hi.ci hs, kinv_step c s s' l hi.p hi.k hs, finv_step c s s' l hi.f hs⟩) s h

end Remoc.Close
