import RemocModel.Base.Mpsc
import RemocModel.Base.Spec

/-! Invariant of M_mpsc: the embedded base channel stays reachable, what the receiver took from the
observed sender plus what still waits in its queue is exactly the pushed part of the base
receiver's results, and the accepted values are the forwarded ones followed by the queued
(or dropped) suffix. -/

namespace Remoc.Base

theorem run_snoc (c : Cfg) (s : State) (ls : List Label) (l : Label) :
    run c s (ls ++ [l]) = (match step c (run c s ls) l with | some s' => s' | none => run c s ls) := by
  induction ls generalizing s with
  | nil => simp only [List.nil_append, run]; split <;> simp_all
  | cons a as ih => simp only [List.cons_append, run]; split <;> exact ih _

theorem reachable_step (c : Cfg) (s s' : State) (l : Label) (h : Reachable c s) (hs : step c s l = some s') :
    Reachable c s' := by
  obtain ⟨ls, rfl⟩ := h
  exact ⟨ls ++ [l], by rw [run_snoc, hs]⟩

/-- a send appends exactly one log entry, for that item, and returns nothing to the receiver -/
theorem step_send_log (c : Cfg) (s s' : State) (it : Item) (ab : Abort) (d : Bool) (n0 : Nat)
    (hs : step c s (.send it ab d n0) = some s') :
    (∃ e, s'.log = s.log ++ [e] ∧ e.item = it) ∧ s'.got = s.got ∧ s'.ended = s.ended := by
  simp only [step] at hs
  split at hs
  · simp at hs
  · split at hs
    · obtain rfl := Option.some.inj hs; exact ⟨⟨_, rfl, rfl⟩, rfl, rfl⟩
    · split at hs
      · simp at hs
      obtain rfl := Option.some.inj hs; exact ⟨⟨_, rfl, rfl⟩, rfl, rfl⟩

/-- any other label leaves the log alone and only appends to what the receiver returned -/
theorem step_other_log (c : Cfg) (s s' : State) (l : Label) (hl : Mpsc.isSend l = false)
    (hs : step c s l = some s') : s'.log = s.log ∧ ∃ t, s'.got = s.got ++ t := by
  cases l with
  | send it ab d n0 => simp [Mpsc.isSend] at hl
  | deliver =>
    simp only [step] at hs
    split at hs
    · simp at hs
    · split at hs
      · obtain rfl := Option.some.inj hs; exact ⟨rfl, _, rfl⟩
      · split at hs
        · obtain rfl := Option.some.inj hs; exact ⟨rfl, [], by simp⟩
        · simp at hs
  | recvCancel => simp only [step] at hs; obtain rfl := Option.some.inj hs; exact ⟨rfl, [], by simp⟩
  | close => simp only [step] at hs; obtain rfl := Option.some.inj hs; exact ⟨rfl, [], by simp⟩
  | learnClose =>
    simp only [step] at hs
    split at hs
    · obtain rfl := Option.some.inj hs; exact ⟨rfl, [], by simp⟩
    · simp at hs
  | dropSender =>
    simp only [step] at hs
    split at hs
    · simp at hs
    · obtain rfl := Option.some.inj hs; exact ⟨rfl, [], by simp⟩
  | connLost => simp only [step] at hs; obtain rfl := Option.some.inj hs; exact ⟨rfl, [], by simp⟩

end Remoc.Base

namespace Remoc.Mpsc
open Remoc.Base

theorem mineOuts_append (a b : List QEntry) : mineOuts (a ++ b) = mineOuts a ++ mineOuts b := by
  induction a with
  | nil => rfl
  | cons x xs ih => cases x <;> simp [mineOuts, ih]

structure Inv (c : Cfg) (st : State) : Prop where
  baseReach : Base.Reachable c st.base
  /-- taken + waiting = pushed part of the base receiver's results -/
  pushed : st.remote = true → mineOuts st.got ++ mineOuts st.rq = st.base.got.take st.fwd
  fwdLe : st.fwd ≤ st.base.got.length
  /-- accepted = forwarded ++ dropped ++ queued, in order -/
  acc : st.remote = true → st.accepted = st.base.log.map (·.item) ++ st.droppedQ ++ st.q
  dropSticky : st.sticky = false → st.droppedQ = []
  dropQ : st.droppedQ = [] ∨ st.q = []
  localQ : st.remote = false → mineOuts st.got ++ mineOuts st.rq = st.accepted.map .value
  one : st.oneshot = true → st.accepted.length + st.refused.length ≤ 1

theorem inv_init (c : Cfg) (ro os : Bool) : Inv c (init ro os) :=
  ⟨⟨[], rfl⟩, by simp [init, mineOuts], by simp [init], by simp [init], by simp [init], by simp [init],
   by simp [init, mineOuts], by simp [init]⟩

theorem inv_step (c : Cfg) (st st' : State) (l : Label) (hi : Inv c st) (hs : step c st l = some st') :
    Inv c st' := by
  obtain ⟨hb, hp, hf, ha, hds, hdq, hl, h1⟩ := hi
  cases l with
  | send it =>
    simp only [step] at hs
    split at hs
    · simp at hs
    · rename_i hone
      have hone' : st.oneshot = true → st.accepted = [] ∧ st.refused = [] := by
        intro ho
        simp only [ho, true_and, not_or, ne_eq, Decidable.not_not] at hone
        exact hone
      split at hs
      · rename_i hr
        split at hs
        · obtain rfl := Option.some.inj hs
          refine ⟨hb, hp, hf, ha, hds, hdq, hl, ?_⟩
          intro ho; have := hone' ho; simp [this.1, this.2]
        · rename_i hst
          obtain rfl := Option.some.inj hs
          have hd := hds (by simpa using hst)
          refine ⟨hb, hp, hf, ?_, hds, Or.inl hd, ?_, ?_⟩
          · intro _; simp only [ha hr, hd, List.append_nil, List.append_assoc]
          · intro h; simp [hr] at h
          · intro ho; have := hone' ho; simp [this.1, this.2]
      · rename_i hr
        split at hs
        · obtain rfl := Option.some.inj hs
          refine ⟨hb, hp, hf, ha, hds, hdq, hl, ?_⟩
          intro ho; have := hone' ho; simp [this.1, this.2]
        · obtain rfl := Option.some.inj hs
          refine ⟨hb, ?_, hf, ?_, hds, hdq, ?_, ?_⟩
          · intro h; exact absurd h hr
          · intro h; exact absurd h hr
          · intro _
            simp only [mineOuts_append, mineOuts, List.map_append, List.map_cons, List.map_nil]
            rw [← List.append_assoc, hl (by simpa using hr)]
          · intro ho; have := hone' ho; simp [this.1, this.2]
  | forward derr n0 =>
    simp only [step] at hs
    split at hs
    · rename_i hr
      split at hs
      · rename_i it rest hq
        split at hs
        · rename_i b hbs
          obtain rfl := Option.some.inj hs
          obtain ⟨⟨e, hlog, hitem⟩, hgot, _⟩ := Base.step_send_log c st.base b it .none derr n0 hbs
          have hd : st.droppedQ = [] := by
            rcases hdq with h | h
            · exact h
            · simp [hq] at h
          refine ⟨Base.reachable_step c _ _ _ hb hbs, ?_, ?_, ?_, ?_, Or.inl hd, ?_, h1⟩
          · intro h; simp only [hgot]; exact hp h
          · simp only [hgot]; exact hf
          · intro h
            simp only [ha h, hq, hlog, hd, List.map_append, List.map_cons, List.map_nil, hitem,
              List.append_nil, List.append_assoc, List.cons_append, List.nil_append]
          · intro _; exact hd
          · intro h; simp [hr] at h
        · simp at hs
      · simp at hs
    · simp at hs
  | net bl =>
    simp only [step] at hs
    split at hs
    · rename_i hc
      split at hs
      · rename_i b hbs
        obtain rfl := Option.some.inj hs
        obtain ⟨hlog, t, hgot⟩ := Base.step_other_log c st.base b bl hc.2 hbs
        refine ⟨Base.reachable_step c _ _ _ hb hbs, ?_, ?_, ?_, hds, hdq, ?_, h1⟩
        · intro h
          simp only [hgot]
          rw [List.take_append_of_le_length hf]
          exact hp h
        · simp only [hgot, List.length_append]; omega
        · intro h; simp only [hlog]; exact ha h
        · intro h; simp [hc.1] at h
      · simp at hs
    · simp at hs
  | push =>
    simp only [step] at hs
    split at hs
    · rename_i hr
      split at hs
      · rename_i o ho
        obtain rfl := Option.some.inj hs
        have hlt : st.fwd < st.base.got.length := by
          rcases Nat.lt_or_ge st.fwd st.base.got.length with h | h
          · exact h
          · rw [List.getElem?_eq_none h] at ho; simp at ho
        refine ⟨hb, ?_, by simp only []; omega, ha, hds, hdq, ?_, h1⟩
        · intro h
          simp only [mineOuts_append, mineOuts]
          rw [← List.append_assoc, hp h, List.take_add_one]
          simp [ho]
        · intro h; simp [hr] at h
      · simp at hs
    · simp at hs
  | pushFinal =>
    simp only [step] at hs
    split at hs
    · rename_i hc
      obtain rfl := Option.some.inj hs
      refine ⟨hb, ?_, hf, ha, hds, hdq, ?_, h1⟩
      · intro h; simp only [mineOuts_append, mineOuts, List.append_nil]; exact hp h
      · intro h; simp [hc.1] at h
    · simp at hs
  | otherPush x =>
    simp only [step] at hs
    obtain rfl := Option.some.inj hs
    refine ⟨hb, ?_, hf, ha, hds, hdq, ?_, h1⟩
    · intro h; simp only [mineOuts_append, mineOuts, List.append_nil]; exact hp h
    · intro h; simp only [mineOuts_append, mineOuts, List.append_nil]; exact hl h
  | otherFinal =>
    simp only [step] at hs
    obtain rfl := Option.some.inj hs
    refine ⟨hb, ?_, hf, ha, hds, hdq, ?_, h1⟩
    · intro h; simp only [mineOuts_append, mineOuts, List.append_nil]; exact hp h
    · intro h; simp only [mineOuts_append, mineOuts, List.append_nil]; exact hl h
  | recv =>
    simp only [step] at hs
    split at hs
    · rename_i o rest hq
      obtain rfl := Option.some.inj hs
      refine ⟨hb, ?_, hf, ha, hds, hdq, ?_, h1⟩
      · intro h
        have := hp h
        simp only [hq, mineOuts, mineOuts_append] at this ⊢
        simpa [List.append_assoc] using this
      · intro h
        have := hl h
        simp only [hq, mineOuts, mineOuts_append] at this ⊢
        simpa [List.append_assoc] using this
    · rename_i x rest hq
      obtain rfl := Option.some.inj hs
      refine ⟨hb, ?_, hf, ha, hds, hdq, ?_, h1⟩
      · intro h
        have := hp h
        simp only [hq, mineOuts, mineOuts_append] at this ⊢
        simpa using this
      · intro h
        have := hl h
        simp only [hq, mineOuts, mineOuts_append] at this ⊢
        simpa using this
    · rename_i rest hq
      obtain rfl := Option.some.inj hs
      refine ⟨hb, ?_, hf, ha, hds, hdq, ?_, h1⟩
      · intro h; have := hp h; simp only [hq, mineOuts] at this ⊢; exact this
      · intro h; have := hl h; simp only [hq, mineOuts] at this ⊢; exact this
    · rename_i rest hq
      obtain rfl := Option.some.inj hs
      refine ⟨hb, ?_, hf, ha, hds, hdq, ?_, h1⟩
      · intro h; have := hp h; simp only [hq, mineOuts] at this ⊢; exact this
      · intro h; have := hl h; simp only [hq, mineOuts] at this ⊢; exact this
    · simp at hs
  | close =>
    simp only [step] at hs
    obtain rfl := Option.some.inj hs
    exact ⟨hb, hp, hf, ha, hds, hdq, hl, h1⟩
  | dropQueued =>
    simp only [step] at hs
    split at hs
    · rename_i hr
      obtain rfl := Option.some.inj hs
      refine ⟨hb, hp, hf, ?_, by simp, Or.inr rfl, ?_, h1⟩
      · intro h
        simp only [ha h, List.append_nil, List.append_assoc]
      · intro h; simp [hr] at h
    · simp at hs

theorem inv_run (c : Cfg) (st : State) (ls : List Label) (h : Inv c st) : Inv c (run c st ls) := by
  induction ls generalizing st with
  | nil => exact h
  | cons l ls ih =>
    simp only [run]
    split
    · rename_i st' hs; exact ih st' (inv_step c st st' l h hs)
    · exact ih st h

theorem inv_reachable (c : Cfg) (ro os : Bool) (st : State) (h : Reachable c ro os st) : Inv c st := by
  obtain ⟨ls, rfl⟩ := h
  exact inv_run c _ ls (inv_init c ro os)

end Remoc.Mpsc
