/-
M_wiring: how channel halves embedded in a value get connected
(rch/base/sender.rs `PortSerializer`, rch/base/receiver.rs `PortDeserializer`, chmux/sender.rs `connect`,
chmux/forward.rs, the `Serialize`/`Deserialize` impls of the rch halves, rch/interlock.rs).

A value is a tree whose leaves are halves; only the order in which the serializer visits the leaves
matters, so a value is the list of its halves in serialization order.  While serializing, every
half allocates a local port (`PortSerializer::connect`); the transported form of the half carries that
port number; after the data the sender announces the ports in one batch, each request with an id
(`PortReq::new(port)`: id = port number).  The receiver's deserializer registers, for every transported
half it meets — in whatever order it meets them — a callback under the carried number
(`PortDeserializer::expected`), and then hands each incoming request to the callback registered under
the request's id.  chmux pairs an accepted request with the `Connect` of the requesting port (C10).
`chmux::forward` relays a batch over another connection with fresh port numbers but the same ids, and
pipes each new port to the request it stands for.  No Mathlib imports.
-/

namespace Remoc.Wiring

abbrev Port := Nat

/-- one half of a channel; `chan` identifies the channel (hence the counterpart), the rest its type -/
structure Half where
  chan : Nat
  isSender : Bool := true
  kind : Nat := 0
deriving Repr, DecidableEq

/-- a port request on the wire -/
structure Req where
  port : Port
  id : Nat
deriving Repr, DecidableEq

/-- `Sender::send`: the halves of the value in serialization order with the ports allocated for them -/
def serialize (hs : List Half) (ports : List Port) : List (Half × Port) := hs.zip ports

/-- the batch sent after the data (`PortReq::new(port)`: id = port number) -/
def batch (sv : List (Half × Port)) : List Req := sv.map (fun x => { port := x.2, id := x.2 })

/-- the sender-side half whose connect callback belongs to `port` (`callbacks.zip(connects)`) -/
def ownerOf (sv : List (Half × Port)) (port : Port) : Option Half := (sv.find? (·.2 == port)).map (·.1)

/-- `PortDeserializer`: the request handed to the transported half that carries number `p` -/
def requestFor (reqs : List Req) (p : Nat) : Option Req := reqs.find? (·.id == p)

/-- the half at the sender's endpoint that the received half carrying `p` ends up connected to -/
def connected (sv : List (Half × Port)) (reqs : List Req) (p : Nat) : Option Half :=
  match requestFor reqs p with
  | some r => ownerOf sv r.port
  | none => none

/-! ### forwarding of a batch (`chmux::forward`, used by bin channels and lazy blobs) -/

/-- one forwarding hop: fresh outgoing ports, ids preserved; `pipes` maps each outgoing port to the
incoming request port it relays -/
structure Hop where
  out : List Req
  pipes : List (Port × Port)
deriving Repr, DecidableEq

def forwardHop (reqs : List Req) (fresh : List Port) : Hop :=
  { out := (fresh.zip reqs).map (fun x => { port := x.1, id := x.2.id }),
    pipes := (fresh.zip reqs).map (fun x => (x.1, x.2.port)) }

/-- follow one hop's pipe backwards -/
def upstream (h : Hop) (q : Port) : Option Port := (h.pipes.find? (·.1 == q)).map (·.2)

/-- a chain of forwarding hops applied to a batch: the current batch and the hops so far (latest first) -/
def forwardChain (reqs : List Req) (chain : List (List Port)) : List Req × List Hop :=
  chain.foldl (fun acc fresh => let h := forwardHop acc.1 fresh; (h.out, h :: acc.2)) (reqs, [])

/-- resolve a port of the last batch back to the port of the original batch -/
def resolve : List Hop → Port → Option Port
  | [], q => some q
  | h :: hs, q => match upstream h q with
    | some p => resolve hs p
    | none => none

/-- the half the received half carrying `p` is connected to through the chain of forwarders -/
def connectedVia (sv : List (Half × Port)) (chain : List (List Port)) (p : Nat) : Option Half :=
  let fc := forwardChain (batch sv) chain
  match requestFor fc.1 p with
  | some r => match resolve fc.2 r.port with
    | some q => ownerOf sv q
    | none => none
  | none => none

/-! ### re-serialization hops (mpsc / oneshot / watch / broadcast halves: a received half that is sent
on gets a forwarding task pair at the intermediate endpoint) -/

/-- After a hop every received half `j` is connected to relay `j` at the sending endpoint, and relay `j`
hands everything to what half `j` was connected to before.  `cp` = current counterparts. -/
def relayHalf (j : Nat) : Half := { chan := j, kind := 99 }

def reserializeHop (cp : List (Option Half)) (ports : List Port) (reqs : List Req) : List (Option Half) :=
  let relays := (List.range cp.length).map relayHalf
  let sv := serialize relays ports
  (List.range cp.length).map fun j =>
    match ports[j]? with
    | some p => match connected sv reqs p with
      | some r => if r.kind == 99 then (cp[r.chan]?).join else none
      | none => none
    | none => none

/-! ### interlock of single-connection channels (rch/interlock.rs, used by bin and lr) -/

inductive Loc where
  | localHere
  | sending      -- `Location::Sending`, confirmed when the connect callback runs
  | remote
deriving Repr, DecidableEq

structure Interlock where
  sender : Loc := .localHere
  receiver : Loc := .localHere
deriving Repr, DecidableEq

/-- which branch a `Serialize` impl takes -/
inductive Branch where
  | localRemote      -- connect the new port to the half that stays local
  | forwarding       -- bin: spawn `chmux::forward` towards the half that travelled earlier
  | refused          -- lr: "cannot send … because … has been sent"
deriving Repr, DecidableEq

def isLocal : Loc → Bool
  | .localHere => true
  | _ => false

/-- `Sender::serialize`.  `fixed = false` is the pinned code: it checks that the *receiver* is local and
then marks the *receiver* as being sent; `fixed = true` marks the sender. -/
def serializeSender (fixed : Bool) (lr : Bool) (il : Interlock) : Branch × Interlock :=
  if isLocal il.receiver then
    (.localRemote, if fixed then { il with sender := .sending } else { il with receiver := .sending })
  else (if lr then .refused else .forwarding, il)

/-- `Receiver::serialize` (pinned: checks the sender, marks the sender) -/
def serializeReceiver (fixed : Bool) (lr : Bool) (il : Interlock) : Branch × Interlock :=
  if isLocal il.sender then
    (.localRemote, if fixed then { il with receiver := .sending } else { il with sender := .sending })
  else (if lr then .refused else .forwarding, il)

/-- The send that serialized a half ends.  `Location::check_local` looks at the confirmation channel
created by `start_send`: if the connect callback ran (the port requests went out) the half is remote
from now on; if the channel was dropped without — the send failed after serialization (ports
exhausted, `max_item_size`, port closed, future dropped) and the value went back to the caller in
`SendError::item` — the half is local again. -/
def endSend (confirmed : Bool) : Loc → Loc
  | .sending => if confirmed then .remote else .localHere
  | l => l

def Interlock.endSend (confirmed : Bool) (il : Interlock) : Interlock :=
  { sender := Remoc.Wiring.endSend confirmed il.sender, receiver := Remoc.Wiring.endSend confirmed il.receiver }

/-! ### resolution of one embedded half (unconnectable ⇒ error on both ends) -/

/-- what one end of the channel observes -/
inductive Obs where
  | nothingYet
  | connected
  | error
  | absent          -- this end never came into existence (the value was not delivered)
deriving Repr, DecidableEq

/-- life of the connect request of one embedded half -/
inductive Phase where
  | serialized      -- port allocated, value being sent
  | requested       -- batch sent, waiting for the response
  | accepted
  | rejected
  | lost            -- connection failed
  | unsent          -- the send of the value failed (ports exhausted while serializing, …): half handed back
deriving Repr, DecidableEq

structure ConnSt where
  phase : Phase := .serialized
  /-- the half that stayed at the sending endpoint -/
  stay : Obs := .nothingYet
  /-- the half that travelled -/
  travel : Obs := .nothingYet
deriving Repr, DecidableEq

inductive ConnLabel where
  | sendFails            -- serialization / send error: the item with its halves is returned to the caller
  | batchSent            -- `Sender::connect` put the request on the wire
  | accept               -- the receiver's callback accepted (`accept_from`)
  | rejectNoPorts        -- receiver out of ports: deserialization fails, the requests are dropped → `Rejected`
  | requestDropped       -- the value was dropped / the receive call abandoned the item → `Rejected`
  | connLost
  | deliverResponse      -- the response reaches the requesting endpoint (internal)
deriving Repr, DecidableEq

/-- internal steps are those the system takes on its own -/
def internal : ConnLabel → Bool
  | .deliverResponse => true
  | _ => false

def connStep (s : ConnSt) : ConnLabel → Option ConnSt
  | .sendFails => if s.phase = .serialized then some { phase := .unsent, stay := .nothingYet, travel := .absent } else none
  | .batchSent => if s.phase = .serialized then some { s with phase := .requested } else none
  | .accept => if s.phase = .requested ∧ s.travel = .nothingYet then some { s with travel := .connected } else none
  | .rejectNoPorts => if s.phase = .requested ∧ s.travel = .nothingYet then some { s with travel := .absent, phase := .rejected } else none
  | .requestDropped => if s.phase = .requested ∧ s.travel = .nothingYet then some { s with travel := .absent, phase := .rejected } else none
  | .connLost =>
    if s.phase = .requested ∨ s.phase = .accepted then
      some { phase := .lost, stay := .error, travel := if s.travel = .absent then .absent else .error }
    else none
  | .deliverResponse =>
    if s.phase = .requested ∧ s.travel = .connected then some { s with phase := .accepted, stay := .connected }
    else if s.phase = .rejected ∧ s.stay = .nothingYet then some { s with stay := .error }
    else none

def connRun (s : ConnSt) : List ConnLabel → ConnSt
  | [] => s
  | l :: ls => match connStep s l with
    | some s' => connRun s' ls
    | none => connRun s ls

def ConnReachable (s : ConnSt) : Prop := ∃ ls, s = connRun {} ls

/-- nothing internal is enabled and the environment's answer has been given -/
def Quiescent (s : ConnSt) : Prop := connStep s .deliverResponse = none

end Remoc.Wiring
