import RemocModel.Base.CloseWatch

/-! Invariants of M_close: where the back-channel messages and the end of the two forwarding tasks
come from (who called what). -/

namespace Remoc.Close

/-- receiving endpoint and back channel -/
structure PInv (s : State) : Prop where
  bClose : Back.close ∈ s.back → s.closeCalled = true
  bError : Back.error ∈ s.back → s.fwdErr = true
  bFin : Back.fin ∈ s.back → s.rimpl = some .rxGone ∨ s.rimpl = some .fin
  rGone : s.rimpl = some .rxGone → s.rAlive = false
  rFinal : s.rimpl = some .final → s.connDown = true
  hFinal : s.rHold = some .final → s.connDown = true
  wClosed : s.rW = some .closed → s.closeCalled = true
  wFailed : s.rW ≠ some .failed
  wDropped : s.rW = some .dropped → s.rAlive = false
  flag : s.rClosedFlag = true → s.rW = some .closed
  called : s.closeCalled = true → s.rClosedFlag = true

theorem pinv_init (a b o : Nat) : PInv (init a b o) := by
  constructor <;> simp [init]

theorem pinv_step_s (c : Cfg) (s s' : State) (l : Label) (hl : l.recvSide = false) (h : PInv s)
    (hs : step c s l = some s') : PInv s' := by
  obtain ⟨h1, h2, h3, h4, h5, h6, h7, h8, h9, h10, h11⟩ := h
  cases l <;> (first | (exact absurd hl (by decide)) | skip) <;>
    simp only [step] at hs <;> (repeat' split at hs) <;> (try (simp at hs; done)) <;>
    (try (obtain rfl := Option.some.inj hs)) <;>
    (first
      | exact ⟨h1, h2, h3, h4, h5, h6, h7, h8, h9, h10, h11⟩
      | (constructor <;> simp_all [endWith, rexit] <;> (try split) <;> simp_all))

theorem pinv_step_r (c : Cfg) (s s' : State) (l : Label) (hl : l.recvSide = true) (h : PInv s)
    (hs : step c s l = some s') : PInv s' := by
  obtain ⟨h1, h2, h3, h4, h5, h6, h7, h8, h9, h10, h11⟩ := h
  cases l <;> (first | (exact absurd hl (by decide)) | skip) <;>
    simp only [step] at hs <;> (repeat' split at hs) <;> (try (simp at hs; done)) <;>
    (try (obtain rfl := Option.some.inj hs)) <;>
    (first
      | exact ⟨h1, h2, h3, h4, h5, h6, h7, h8, h9, h10, h11⟩
      | (constructor <;> simp_all [endWith, rexit] <;> (try split) <;> simp_all))

theorem pinv_step (c : Cfg) (s s' : State) (l : Label) (h : PInv s) (hs : step c s l = some s') : PInv s' := by
  cases hl : l.recvSide
  · exact pinv_step_s c s s' l hl h hs
  · exact pinv_step_r c s s' l hl h hs

/-- why `send_impl` ended -/
structure CInv (s : State) : Prop where
  rFin : s.rimpl = some .fin → s.impl.isSome
  wFin : Frame.fin ∈ s.wire → s.impl.isSome
  iClose : s.impl = some .close → s.closeCalled = true
  iError : s.impl = some .error → s.fwdErr = true
  iConn : s.impl = some .conn → s.connDown = true
  iFin : s.impl = some .fin → s.rAlive = false

theorem cinv_init (a b o : Nat) : CInv (init a b o) := by
  constructor <;> simp [init]

theorem cinv_step (c : Cfg) (s s' : State) (l : Label) (hp : PInv s) (h : CInv s) (hs : step c s l = some s') :
    CInv s' := by
  obtain ⟨h1, h2, h3, h4, h5, h6⟩ := h
  have p1 := hp.bClose
  have p2 := hp.bError
  have p3 := hp.bFin
  have p4 := hp.rGone
  clear hp
  cases l <;> simp only [step] at hs <;> (repeat' split at hs) <;> (try (simp at hs; done)) <;>
    (try (obtain rfl := Option.some.inj hs)) <;>
    (first
      | exact ⟨h1, h2, h3, h4, h5, h6⟩
      | (constructor <;> simp_all [endWith, rexit]))

theorem inv4_reachable (c : Cfg) (s : State) (h : Reachable c s) : (QInv s ∧ WInv s) ∧ PInv s ∧ CInv s :=
  invariant_of_step c (fun s => (QInv s ∧ WInv s) ∧ PInv s ∧ CInv s)
    (fun a b o => ⟨⟨qinv_init a b o, winv_init a b o⟩, pinv_init a b o, cinv_init a b o⟩)
    (fun s s' l hi hs => ⟨⟨qinv_step c s s' l hi.1.1 hs, winv_step c s s' l hi.1.1 hi.1.2 hs⟩,
      pinv_step c s s' l hi.2.1 hs, cinv_step c s s' l hi.2.1 hi.2.2 hs⟩) s h

end Remoc.Close
