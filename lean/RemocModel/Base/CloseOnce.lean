import RemocModel.Base.CloseAll

/-! `rch::oneshot` = an mpsc channel with buffer 1 whose only sender is consumed by its one
`send` (`try_send`): M_close with `oneshot := true`, started with one remote sender handle. -/

namespace Remoc.Close

def ReachableOnce (c : Cfg) (s : State) : Prop := c.oneshot = true ∧ ∃ lh o ls, s = run c (init 1 lh o) ls

theorem ReachableOnce.reachable {c : Cfg} {s : State} (h : ReachableOnce c s) : Reachable c s := by
  obtain ⟨_, lh, o, ls, rfl⟩ := h
  exact ⟨1, lh, o, ls, rfl⟩

/-- the sender is spent by its first `send`; nothing ever waits for queue space -/
structure OInv (s : State) : Prop where
  one : s.handles + s.accepted.length + s.refused.length ≤ 1
  noWait : s.waiting = []

theorem oinv_step (c : Cfg) (ho : c.oneshot = true) (s s' : State) (l : Label) (h : OInv s)
    (hs : step c s l = some s') : OInv s' := by
  obtain ⟨h1, h2⟩ := h
  cases l <;> simp only [step, ho] at hs <;> (repeat' split at hs) <;> (try (simp at hs; done)) <;>
    (try (obtain rfl := Option.some.inj hs)) <;>
    (first
      | exact ⟨h1, h2⟩
      | (constructor <;> simp_all [endWith, rexit] <;> omega))

theorem oinv_reachable (c : Cfg) (s : State) (h : ReachableOnce c s) : OInv s := by
  obtain ⟨ho, lh, o, ls, rfl⟩ := h
  suffices ∀ s0, OInv s0 → OInv (run c s0 ls) from this _ ⟨by simp [init], rfl⟩
  intro s0 h0
  induction ls generalizing s0 with
  | nil => exact h0
  | cons l ls ih =>
    simp only [run]
    split
    · next s1 hs => exact ih _ (oinv_step c ho _ _ _ h0 hs)
    · exact ih _ h0

end Remoc.Close
