import RemocModel.Base.Model

/-!
M_mpsc (covers `rch::mpsc`, and `rch::oneshot` = mpsc with buffer 1 whose sender is consumed by
its first send; `rch::lr` is M_base itself once its half has been connected).

The model follows ONE sender handle (with the clones that share its queue) of an mpsc channel and
treats every other sender of the same channel — local clones, further remote senders on either
endpoint, any number of them — as an environment that may push arbitrary foreign entries into the
receiver's queue at any time (`otherPush`, `otherFinal`).  All senders of an mpsc channel interact
only through that queue, so a statement proved here for all environment behaviours holds for each
sender of a channel with several senders.

* local sender (`remote = false`): `Sender::send` puts the value straight into the receiver's
  tokio queue (no serialization); the `Sending` handle is acknowledged when `recv` takes the value.
* remote sender (`remote = true`): `send` puts the value into the queue of `send_impl` at the
  sender's endpoint; `send_impl` (never cancelled) sends one value after the other over a base
  channel (`forward`), an error there sets the sticky `remote_send_err` (later `send` calls are
  refused) but the loop continues with the values already queued; `recv_impl` at the receiver's
  endpoint pushes every result of `base::Receiver::recv` into the receiver's queue (`push`), a final
  error as the last entry (`pushFinal`); `Receiver::recv` returns values and non-final errors and
  holds a final error back while other senders may still deliver.
-/

namespace Remoc.Mpsc
open Remoc.Base

/-- entries of the receiver's local queue -/
inductive QEntry where
  | mine (o : RecvOut)     -- from the observed sender
  | mineFinal              -- the observed link failed (final error)
  | other (x : Nat)        -- a value or non-final error of some other sender
  | otherFinal             -- final error of some other link
deriving Repr, DecidableEq

structure State where
  remote : Bool
  /-- `rch::oneshot`: `send(self)` consumes the sender -/
  oneshot : Bool := false
  /-- queue of `send_impl` at the sender's endpoint -/
  q : List Item := []
  base : Base.State := {}
  /-- number of results of the base receiver already pushed by `recv_impl` -/
  fwd : Nat := 0
  finalPushed : Bool := false
  /-- `remote_send_err` is set -/
  sticky : Bool := false
  /-- receiver's tokio queue -/
  rq : List QEntry := []
  /-- the receiver was closed or dropped: its queue refuses new values -/
  rClosed : Bool := false
  heldFinal : Bool := false
  -- ghost history
  accepted : List Item := []
  refused : List Item := []
  /-- values dropped from the queue of a terminated `send_impl` (`SendingError::Dropped`) -/
  droppedQ : List Item := []
  got : List QEntry := []
deriving Repr, DecidableEq

inductive Label where
  | send (it : Item)
  /-- `send_impl`: `remote_tx.send(value).await` for the next queued value -/
  | forward (derr : Bool) (n0 : Nat)
  /-- a step of the underlying base channel other than a send -/
  | net (l : Base.Label)
  /-- `recv_impl`: `tx.send(SendReq::new(value))` -/
  | push
  | pushFinal
  | otherPush (x : Nat)
  | otherFinal
  /-- `Receiver::recv` takes the next queue entry -/
  | recv
  | close
  /-- `send_impl` terminates (close / error message on the back channel, connection lost): the
  values still queued are dropped -/
  | dropQueued
deriving Repr, DecidableEq

def isSend : Base.Label → Bool
  | .send .. => true
  | _ => false

def lastFailed (log : List Entry) : Bool :=
  match log.getLast? with
  | some e => e.res != .ok
  | none => false

def step (c : Cfg) (st : State) : Label → Option State
  | .send it =>
    if st.oneshot ∧ (st.accepted ≠ [] ∨ st.refused ≠ []) then none
    else if st.remote then
      if st.sticky then some { st with refused := st.refused ++ [it] }
      else some { st with q := st.q ++ [it], accepted := st.accepted ++ [it] }
    else
      if st.rClosed then some { st with refused := st.refused ++ [it] }
      else some { st with rq := st.rq ++ [.mine (.value it)], accepted := st.accepted ++ [it] }
  | .forward derr n0 =>
    if st.remote then
      match st.q with
      | it :: rest =>
        match Base.step c st.base (.send it .none derr n0) with
        | some b => some { st with q := rest, base := b, sticky := st.sticky || lastFailed b.log }
        | none => none
      | [] => none
    else none
  | .net l =>
    if st.remote ∧ isSend l = false then
      match Base.step c st.base l with
      | some b => some { st with base := b }
      | none => none
    else none
  | .push =>
    if st.remote then
      match st.base.got[st.fwd]? with
      | some o => some { st with rq := st.rq ++ [.mine o], fwd := st.fwd + 1 }
      | none => none
    else none
  | .pushFinal =>
    if st.remote ∧ st.base.ended = some .failed ∧ st.fwd = st.base.got.length ∧ st.finalPushed = false then
      some { st with rq := st.rq ++ [.mineFinal], finalPushed := true }
    else none
  | .otherPush x => some { st with rq := st.rq ++ [.other x] }
  | .otherFinal => some { st with rq := st.rq ++ [.otherFinal] }
  | .recv =>
    match st.rq with
    | .mine o :: rest => some { st with rq := rest, got := st.got ++ [.mine o] }
    | .other x :: rest => some { st with rq := rest, got := st.got ++ [.other x] }
    | .mineFinal :: rest => some { st with rq := rest, heldFinal := true }
    | .otherFinal :: rest => some { st with rq := rest, heldFinal := true }
    | [] => none
  | .close => some { st with rClosed := true }
  | .dropQueued =>
    if st.remote then some { st with q := [], droppedQ := st.droppedQ ++ st.q, sticky := true } else none

def init (remote oneshot : Bool) : State := { remote := remote, oneshot := oneshot }

def run (c : Cfg) (st : State) : List Label → State
  | [] => st
  | l :: ls => match step c st l with
    | some st' => run c st' ls
    | none => run c st ls

def Reachable (c : Cfg) (remote oneshot : Bool) (st : State) : Prop := ∃ ls, st = run c (init remote oneshot) ls

/-- the results the receiver obtained from the observed sender, in order -/
def mineOuts : List QEntry → List RecvOut
  | [] => []
  | .mine o :: es => o :: mineOuts es
  | _ :: es => mineOuts es

end Remoc.Mpsc
