import RemocModel.Base.Model

/-! Helper lemmas for M_base: the receiver's token fold, shape of what one `send` emits,
independence of the outcome of one entry from its neighbours, and the channel invariant. -/

namespace Remoc.Base

/-! ### the token fold -/

theorem runToks_append (c : Cfg) (r : RecvSt) (a b : List PMsg) :
    runToks c r (a ++ b) =
      ((runToks c (runToks c r a).1 b).1, (runToks c r a).2 ++ (runToks c (runToks c r a).1 b).2) := by
  induction a generalizing r with
  | nil => simp [runToks]
  | cons t ts ih => simp [runToks, ih, List.append_assoc]

theorem runToks_outs_prefix (c : Cfg) (r : RecvSt) (a b : List PMsg) :
    (runToks c r a).2 <+: (runToks c r (a ++ b)).2 := by
  rw [runToks_append]; exact List.prefix_append _ _

/-- once finished the receiver ignores everything -/
theorem rTok_finished (c : Cfg) (r : RecvSt) (t : PMsg) (h : r.finished = true) : rTok c r t = (r, []) := by
  simp [rTok, h]

theorem runToks_finished (c : Cfg) (r : RecvSt) (ts : List PMsg) (h : r.finished = true) :
    runToks c r ts = (r, []) := by
  induction ts with
  | nil => rfl
  | cons t ts ih => simp [runToks, rTok_finished c r t h, ih]

/-! ### what one `send` call puts on the port -/

/-- The possible token sequences of one `send` call. -/
inductive EmShape : List PMsg → Prop where
  | nothing : EmShape []
  | part (w : Option Item) (n : Nat) (d : Bool) : EmShape [.partialMsg w n d]
  | data (it : Item) : EmShape [.msg it]
  | dataPorts (it : Item) : EmShape [.msg it, .requests it.halves]

theorem portsPhase_shape (it : Item) (ab : Abort) : EmShape (portsPhase it ab).1 := by
  unfold portsPhase
  (repeat' split) <;> first | exact .data it | exact .dataPorts it

theorem stream_shape (c : Cfg) (it : Item) (ab : Abort) (derr : Bool) (n0 : Nat) (b : Int) :
    EmShape (sendItem.stream c it ab derr n0 b).2.1 := by
  unfold sendItem.stream abandoned
  (repeat' split) <;> first | exact .part _ _ _ | exact .data it | exact portsPhase_shape it ab

theorem sendItem_shape (c : Cfg) (big : Int) (it : Item) (ab : Abort) (derr : Bool) (n0 : Nat) :
    EmShape (sendItem c big it ab derr n0).2.1 := by
  unfold sendItem
  split
  · exact .nothing
  · simp only []
    (repeat' split) <;> first | exact .nothing | exact .part _ _ _ | exact .data it | exact portsPhase_shape it ab
  · exact stream_shape ..
  · exact stream_shape ..

/-! ### independence: the outputs for one entry do not depend on what was pending before -/

theorem entry_indep (c : Cfg) (r : RecvSt) (toks : List PMsg) (hs : EmShape toks) (hf : r.finished = false) :
    (runToks c r toks).2 = outcome c toks ∧ (runToks c r toks).1.finished = false := by
  obtain ⟨p, f⟩ := r
  simp only at hf
  subst hf
  cases hs with
  | nothing => simp [runToks, outcome]
  | part w n d =>
    simp only [outcome, runToks, rTok]
    (repeat' split) <;> simp_all
  | data it =>
    simp only [outcome, runToks, rTok]
    (repeat' split) <;> simp_all
  | dataPorts it =>
    simp only [outcome, runToks, rTok]
    (repeat' split) <;> simp_all

theorem run_log (c : Cfg) (r : RecvSt) (log : List Entry) (hs : ∀ e ∈ log, EmShape e.toks)
    (hf : r.finished = false) :
    (runToks c r (log.flatMap (·.toks))).2 = ideal c log ∧
    (runToks c r (log.flatMap (·.toks))).1.finished = false := by
  induction log generalizing r with
  | nil => simp [runToks, ideal, hf]
  | cons e es ih =>
    have h1 := entry_indep c r e.toks (hs e (by simp)) hf
    have h2 := ih (runToks c r e.toks).1 (fun x hx => hs x (by simp [hx])) h1.2
    simp only [List.flatMap_cons, runToks_append, ideal]
    constructor
    · rw [h1.1, h2.1]; rfl
    · exact h2.2

/-! ### one entry: at most one output, a value only for a successful send -/

theorem outcome_length (c : Cfg) (toks : List PMsg) (hs : EmShape toks) : (outcome c toks).length ≤ 1 := by
  cases hs with
  | nothing => simp [outcome, runToks]
  | part w n d => simp only [outcome, runToks, rTok]; (repeat' split) <;> simp
  | data it => simp only [outcome, runToks, rTok]; (repeat' split) <;> simp
  | dataPorts it => simp only [outcome, runToks, rTok]; (repeat' split) <;> simp_all

end Remoc.Base
