import RemocModel.Base.Wiring
import RemocModel.Link.ForwardPorts4
set_option linter.unusedSimpArgs false
set_option linter.unusedVariables false

/-!
Bridge between the forwarder model (`RemocModel/Link/Forward.lean`, `Received::Requests` branch) and the
wiring model (`RemocModel/Base/Wiring.lean`): the hop that a recorded batch of the forwarder stands for.
-/

namespace Remoc.Wiring

/-- The forwarding hop performed for a recorded batch `B` of the forwarder model, given the received requests
`reqs` (with their ports at the requesting endpoint): `out` is the batch passed to `tx.connect`, `pipes` has, for
every spawned (request, connect) pair, the outgoing port of *its connect* and the port of *its request*. -/
def hopOfBatch (B : Link.Batch) (reqs : List Req) : Hop :=
  { out := B.ports.map (fun p => { port := p.port, id := p.id }),
    pipes := B.pairs.filterMap (fun t => (reqs[t.upIdx]?).map (fun r => (t.out.port, r.port))) }

theorem out_zip (ports : List Link.PReq) (reqs : List Req) (h : ports.map (·.id) = reqs.map (·.id)) :
    ((ports.map (·.port)).zip reqs).map (fun x => ({ port := x.1, id := x.2.id } : Req)) =
      ports.map (fun p => { port := p.port, id := p.id }) := by
  induction ports generalizing reqs with
  | nil => simp
  | cons p ps ih =>
    cases reqs with
    | nil => simp at h
    | cons r rs =>
      simp only [List.map_cons, List.cons.injEq] at h
      simp only [List.map_cons, List.zip_cons_cons, List.cons.injEq]
      exact ⟨by rw [h.1], ih rs h.2⟩

theorem pipes_pairFrom (k : Nat) (ids : List Nat) (ports : List Link.PReq) (reqs : List Req)
    (hl : ids.length = ports.length) (hr : (reqs.drop k).length = ports.length) :
    (Link.pairFrom k ids ports).filterMap (fun t => (reqs[t.upIdx]?).map (fun r => (t.out.port, r.port))) =
      ((ports.map (·.port)).zip (reqs.drop k)).map (fun x => (x.1, x.2.port)) := by
  induction ports generalizing k ids with
  | nil =>
    cases ids <;> simp [Link.pairFrom]
  | cons p ps ih =>
    cases ids with
    | nil => simp at hl
    | cons i is =>
      simp only [List.length_cons, Nat.add_right_cancel_iff] at hl
      have hk : k < reqs.length := by
        simp only [List.length_drop, List.length_cons] at hr; omega
      have hd : reqs.drop k = reqs[k] :: reqs.drop (k + 1) := List.drop_eq_getElem_cons hk
      have hr' : (reqs.drop (k + 1)).length = ps.length := by
        simp only [List.length_drop, List.length_cons] at hr ⊢; omega
      have hget : reqs[k]? = some reqs[k] := List.getElem?_eq_getElem hk
      simp only [Link.pairFrom, List.filterMap_cons, hget, Option.map_some]
      rw [ih (k + 1) is hl hr']
      conv => rhs; rw [hd]
      simp only [List.map_cons, List.zip_cons_cons]

end Remoc.Wiring
