import RemocModel.Base.Inv

/-! Per-entry specification of what a `send` call's tokens make the receiver return, and list
arithmetic for values / errors of the ideal output. -/

namespace Remoc.Base

theorem values_append (a b : List RecvOut) : values (a ++ b) = values a ++ values b := by
  induction a with
  | nil => rfl
  | cons x xs ih => cases x <;> simp [values, ih]

theorem errors_append (a b : List RecvOut) : errors (a ++ b) = errors a ++ errors b := by
  induction a with
  | nil => rfl
  | cons x xs ih => cases x <;> simp [errors, ih]

theorem values_prefix {a b : List RecvOut} (h : a <+: b) : values a <+: values b := by
  obtain ⟨t, rfl⟩ := h
  rw [values_append]; exact List.prefix_append _ _

theorem errors_length_prefix {a b : List RecvOut} (h : a <+: b) : (errors a).length ≤ (errors b).length := by
  obtain ⟨t, rfl⟩ := h
  rw [errors_append]; simp

theorem errors_length_le (o : List RecvOut) : (errors o).length ≤ o.length := by
  induction o with
  | nil => simp [errors]
  | cons x xs ih => cases x <;> simp [errors] <;> omega

/-- what the receiver must return for a completely transmitted item -/
def delivered (c : Cfg) (it : Item) : List RecvOut :=
  match classify c it with
  | none => [.value it]
  | some e => [.itemErr e]

/-- Specification of one log entry: a successful send makes the receiver return exactly the item
(or exactly one non-final error if the receiver cannot take it); any other send never yields a value. -/
def EntrySpec (c : Cfg) (e : Entry) : Prop :=
  (e.res = .ok → outcome c e.toks = delivered c e.item) ∧ (e.res ≠ .ok → values (outcome c e.toks) = [])

theorem outcome_data (c : Cfg) (it : Item) (h0 : it.halves = 0) : outcome c [.msg it] = delivered c it := by
  simp only [outcome, runToks, rTok, delivered]
  cases classify c it <;> simp [h0]

theorem outcome_dataPorts (c : Cfg) (it : Item) :
    outcome c [.msg it, .requests it.halves] = delivered c it := by
  simp only [outcome, runToks, rTok, delivered]
  cases classify c it with
  | none => by_cases h0 : it.halves = 0 <;> simp [h0]
  | some e => simp

theorem outcome_data_novalue (c : Cfg) (it : Item) (h0 : it.halves ≠ 0) : values (outcome c [.msg it]) = [] := by
  simp only [outcome, runToks, rTok]
  cases classify c it <;> simp [h0, values]

/-- an abandoned transmission never yields a value — on the repaired tree, or when it does not carry
the complete encoding -/
theorem outcome_part_novalue (c : Cfg) (w : Option Item) (n : Nat) (d : Bool) (h : c.strictEnd = true ∨ w = none) :
    values (outcome c [.partialMsg w n d]) = [] := by
  simp only [outcome, runToks, rTok]
  rcases h with h | h
  · (repeat' split) <;> simp_all [values]
  · subst h
    (repeat' split) <;> simp_all [values]

theorem outcome_nil (c : Cfg) : outcome c [] = [] := rfl

theorem portsPhase_spec (c : Cfg) (it : Item) (ab : Abort) :
    ((portsPhase it ab).2 = .ok → outcome c (portsPhase it ab).1 = delivered c it) ∧
    ((portsPhase it ab).2 ≠ .ok → values (outcome c (portsPhase it ab).1) = []) := by
  unfold portsPhase
  split
  · rename_i h0; exact ⟨fun _ => outcome_data c it h0, fun h => absurd rfl h⟩
  · rename_i h0
    split
    · exact ⟨fun h => by simp at h, fun _ => outcome_data_novalue c it h0⟩
    · exact ⟨fun h => by simp at h, fun _ => outcome_data_novalue c it h0⟩
    · exact ⟨fun _ => outcome_dataPorts c it, fun h => absurd rfl h⟩

theorem stream_spec (c : Cfg) (hs : c.strictEnd = true) (it : Item) (ab : Abort) (derr : Bool) (n0 : Nat) (b : Int) :
    ((sendItem.stream c it ab derr n0 b).2.2 = .ok →
        outcome c (sendItem.stream c it ab derr n0 b).2.1 = delivered c it) ∧
    ((sendItem.stream c it ab derr n0 b).2.2 ≠ .ok →
        values (outcome c (sendItem.stream c it ab derr n0 b).2.1) = []) := by
  unfold sendItem.stream abandoned
  split
  · exact ⟨fun h => by simp at h, fun _ => outcome_part_novalue _ _ _ _ (Or.inl hs)⟩
  · split
    · exact ⟨fun h => by simp at h, fun _ => outcome_part_novalue _ _ _ _ (Or.inl hs)⟩
    · rename_i hn
      have h0 : it.halves ≠ 0 := fun h => hn (Or.inr (Or.inl h))
      exact ⟨fun h => by simp at h, fun _ => outcome_data_novalue c it h0⟩
  · split
    · split
      · exact ⟨fun h => by simp at h, fun _ => outcome_part_novalue _ _ _ _ (Or.inl hs)⟩
      · exact ⟨fun h => by simp at h, fun _ => outcome_part_novalue _ _ _ _ (Or.inl hs)⟩
    · split
      · exact ⟨fun h => by simp at h, fun _ => outcome_part_novalue _ _ _ _ (Or.inl hs)⟩
      · exact portsPhase_spec c it ab

/-- **Specification of `Sender::send`** for every item, heuristic state, abort point and race. -/
theorem sendItem_spec (c : Cfg) (hs : c.strictEnd = true) (big : Int) (it : Item) (ab : Abort) (derr : Bool) (n0 : Nat) :
    EntrySpec c { item := it, res := (sendItem c big it ab derr n0).2.2, toks := (sendItem c big it ab derr n0).2.1 } := by
  unfold EntrySpec sendItem
  split
  · exact ⟨fun h => by simp at h, fun _ => by simp [outcome_nil, values]⟩
  · simp only []
    split
    · exact ⟨fun h => by simp at h, fun _ => by simp [outcome_nil, values]⟩
    · split
      · exact ⟨fun h => by simp at h, fun _ => outcome_part_novalue _ _ _ _ (Or.inr rfl)⟩
      · split
        · exact ⟨fun h => by simp at h, fun _ => outcome_part_novalue _ _ _ _ (Or.inr rfl)⟩
        · rename_i hn
          have h0 : it.halves ≠ 0 := fun h => hn (Or.inr h)
          exact ⟨fun h => by simp at h, fun _ => outcome_data_novalue c it h0⟩
      · exact portsPhase_spec c it ab
  · exact stream_spec c hs ..
  · exact stream_spec c hs ..

theorem sendClosed_not_ok (c : Cfg) (big : Int) (it : Item) : (sendClosed c big it).2 ≠ .ok := by
  unfold sendClosed
  (repeat' split) <;> simp

/-- every entry of the log of a reachable state meets its specification -/
theorem log_spec_step (c : Cfg) (hse : c.strictEnd = true) (st st' : State) (l : Label) (h : ∀ e ∈ st.log, EntrySpec c e)
    (hs : step c st l = some st') : ∀ e ∈ st'.log, EntrySpec c e := by
  cases l with
  | send it ab derr n0 =>
    simp only [step] at hs
    split at hs
    · simp at hs
    · split at hs
      · obtain rfl := Option.some.inj hs
        intro e he
        simp only [List.mem_append, List.mem_singleton] at he
        rcases he with he | rfl
        · exact h e he
        · exact ⟨fun hok => absurd hok (sendClosed_not_ok c st.big it), fun _ => by simp [outcome_nil, values]⟩
      · split at hs
        · simp at hs
        obtain rfl := Option.some.inj hs
        intro e he
        simp only [List.mem_append, List.mem_singleton] at he
        rcases he with he | rfl
        · exact h e he
        · exact sendItem_spec c hse ..
  | deliver =>
    simp only [step] at hs
    split at hs
    · simp at hs
    · split at hs
      · obtain rfl := Option.some.inj hs; exact h
      · split at hs
        · obtain rfl := Option.some.inj hs; exact h
        · simp at hs
  | recvCancel => simp only [step] at hs; obtain rfl := Option.some.inj hs; exact h
  | close => simp only [step] at hs; obtain rfl := Option.some.inj hs; exact h
  | learnClose =>
    simp only [step] at hs
    split at hs
    · obtain rfl := Option.some.inj hs; exact h
    · simp at hs
  | dropSender =>
    simp only [step] at hs
    split at hs
    · simp at hs
    · obtain rfl := Option.some.inj hs; exact h
  | connLost => simp only [step] at hs; obtain rfl := Option.some.inj hs; exact h

theorem log_spec (c : Cfg) (hse : c.strictEnd = true) (st : State) (h : Reachable c st) : ∀ e ∈ st.log, EntrySpec c e := by
  obtain ⟨ls, rfl⟩ := h
  suffices ∀ (s : State), (∀ e ∈ s.log, EntrySpec c e) → ∀ e ∈ (run c s ls).log, EntrySpec c e from
    this init (by simp [init])
  induction ls with
  | nil => intro s hs; exact hs
  | cons l ls ih =>
    intro s hs
    simp only [run]
    split
    · rename_i s' hstep; exact ih s' (log_spec_step c hse s s' l hs hstep)
    · exact ih s hs

/-! ### values and errors of the ideal output -/

theorem values_delivered (c : Cfg) (it : Item) :
    values (delivered c it) = if receivable c it then [it] else [] := by
  unfold delivered receivable
  cases classify c it <;> simp [values]

theorem ideal_values (c : Cfg) (log : List Entry) (h : ∀ e ∈ log, EntrySpec c e) :
    values (ideal c log) = (sentOk log).filter (receivable c) := by
  induction log with
  | nil => simp [ideal, values, sentOk]
  | cons e es ih =>
    have he := h e (by simp)
    have ih' := ih (fun x hx => h x (by simp [hx]))
    simp only [ideal, List.flatMap_cons, values_append] at ih' ⊢
    rw [ih']
    by_cases hok : e.res = .ok
    · rw [he.1 hok, values_delivered]
      simp only [sentOk, List.filter_cons, hok, decide_true, if_true, List.map_cons]
      split <;> simp_all
    · rw [he.2 hok]
      simp [sentOk, hok]

/-- an entry that can make the receiver return an error: the send failed or was cancelled, or the
receiver cannot take the item -/
def failing (c : Cfg) (e : Entry) : Bool := e.res != .ok || !receivable c e.item

theorem ideal_errors_le (c : Cfg) (log : List Entry) (hs : ∀ e ∈ log, EmShape e.toks)
    (h : ∀ e ∈ log, EntrySpec c e) :
    (errors (ideal c log)).length ≤ (log.filter (failing c)).length := by
  induction log with
  | nil => simp [ideal, errors]
  | cons e es ih =>
    have he := h e (by simp)
    have ih' := ih (fun x hx => hs x (by simp [hx])) (fun x hx => h x (by simp [hx]))
    simp only [ideal, List.flatMap_cons, errors_append, List.length_append] at ih' ⊢
    by_cases hf : failing c e = true
    · have h1 := outcome_length c e.toks (hs e (by simp))
      have h2 := errors_length_le (outcome c e.toks)
      simp only [List.filter_cons, hf, if_true, List.length_cons]
      omega
    · simp only [failing, Bool.or_eq_true, bne_iff_ne, ne_eq, Bool.not_eq_true', not_or, Decidable.not_not,
        Bool.not_eq_false] at hf
      have : outcome c e.toks = [.value e.item] := by
        rw [he.1 hf.1]
        unfold delivered
        have := hf.2
        unfold receivable at this
        cases hc : classify c e.item <;> simp_all
      rw [this]
      simp only [errors, List.length_nil, Nat.zero_add]
      have hf' : failing c e = false := by simp [failing, hf.1, hf.2]
      simp only [List.filter_cons, hf', Bool.false_eq_true, if_false]
      exact ih'

end Remoc.Base
