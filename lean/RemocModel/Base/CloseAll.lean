import RemocModel.Base.CloseEos
import RemocModel.Base.CloseQuiet
import RemocModel.Base.CloseList

/-! All invariants of M_close together. -/

namespace Remoc.Close

structure AllInv2 (s : State) : Prop where
  a : AllInv s
  d : DInv s
  e : EInv s
  l : LInv s

theorem allinv2_reachable (c : Cfg) (s : State) (h : Reachable c s) : AllInv2 s :=
  invariant_of_step c AllInv2
    (fun a b o => ⟨⟨qinv_init a b o, winv_init a b o, pinv_init a b o, cinv_init a b o, kinv_init a b o, finv_init a b o⟩,
      dinv_init a b o, einv_init a b o, linv_init a b o⟩)
    (fun s s' l hi hs =>
      ⟨⟨qinv_step c s s' l hi.a.q hs, winv_step c s s' l hi.a.q hi.a.w hs, pinv_step c s s' l hi.a.p hs,
        cinv_step c s s' l hi.a.p hi.a.ci hs, kinv_step c s s' l hi.a.p hi.a.k hs, finv_step c s s' l hi.a.f hs⟩,
       dinv_step c s s' l hi.a.q hi.a.ci hi.d hs, einv_step c s s' l hi.a.p hi.a.k hi.d hi.e hs,
       linv_step c s s' l hi.d hi.l hs⟩) s h

/-- once `send_impl` has ended, every clone of the link is gone or observes a reason -/
theorem ended_observed (s : State) (a : AllInv s) (hi : s.impl.isSome) : s.handles = 0 ∨ s.reason.isSome := by
  have hr := reason_eq s a.w
  have hw := a.w.closedW
  rw [hr, hw]
  cases hc : s.impl with
  | none => simp [hc] at hi
  | some x =>
    cases x with
    | drained =>
      rcases a.w.drained hc with h | h
      · right; simp [expW, h]
      · exact Or.inl h
    | close => right; rfl
    | fin => right; rfl
    | error => right; rfl
    | conn => right; rfl

end Remoc.Close
