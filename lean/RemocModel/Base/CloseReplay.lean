import RemocModel.Base.CloseStep

/-!
Executable glue between M_close and the typed-channel harness (`lean/Driver/Base.lean`): the schedule
of one link reconstructed from what the real run showed (values accepted in order, how many of them
were transmitted, which event happened), run on `step`; and the decidable predicates the driver
evaluates on the real observations.  No proofs here; the theorems about `step`, `suffixOk`, `remOf`
are in `Props/C11.lean`.
-/

namespace Remoc.Close

inductive Ev where
  | none | close | droprx | droptx | connfail
deriving DecidableEq, Repr

def Ev.ofString : String → Ev
  | "close" => .close | "droprx" => .droprx | "droptx" => .droptx | "connfail" => .connfail | _ => .none

/-- run a schedule in which every label must be enabled; `Except.error (index, label)` otherwise -/
def runStrict (c : Cfg) (s : State) (ls : List Label) : Except (Nat × Label) State :=
  (ls.foldl (fun (acc : Except (Nat × Label) State × Nat) l =>
    match acc.1 with
    | .error e => (.error e, acc.2 + 1)
    | .ok st => match step c st l with
      | some st' => (.ok st', acc.2 + 1)
      | none => (.error (acc.2, l), acc.2 + 1)) (.ok s, 0)).1

/-- the receiver keeps receiving: settle, take one entry, … until end-of-stream or nothing more comes -/
def drain (c : Cfg) (s : State) : Nat → State
  | 0 => s
  | n + 1 =>
    let s := settle c s 200
    match step c s .recv with
    | some s' => if s'.eos.isSome then s' else drain c s' n
    | none => s

/-- Schedule of one link: `vals` were accepted in this order, the first `k` were transmitted before
`send_impl` learnt of the event; then the event and the step by which `send_impl` learns of it.
(`once`: `rch::oneshot`, whose `send` is `try_send` and consumes the sender.) -/
def linkSchedule (once : Bool) (vals : List Val) (k : Nat) (ev : Ev) : List Label :=
  let snd : Val → List Label := fun v => if once then [.sendOnce v] else [.send v, .grant]
  let pre := (vals.take k).flatMap fun v => snd v ++ [.implTake, .xmitDone]
  let rest := (vals.drop k).flatMap snd
  let evl : List Label := match ev with
    | .close => [.close, .rSeeClosed, .implBack]
    | .droprx => [.dropRx, .rSeeClosed, .implBack]
    | .connfail => [.connFail, .implConn]
    | _ => []
  pre ++ rest ++ evl

structure LinkOut where
  hres : List HRes
  reason : Option Reason
  lreason : Option Reason
  delivered : List Nat
  eos : Option Bool
deriving Repr, DecidableEq

/-- the model's answer for one link -/
def replayLink (c : Cfg) (vals : List Val) (k : Nat) (ev : Ev) (handles lhandles : Nat) :
    Except (Nat × Label) LinkOut := do
  let s0 := init handles lhandles 0
  let s1 ← runStrict c s0 (linkSchedule c.oneshot vals k ev)
  -- without a close / drop / failure the run ends with all senders dropped
  let s2 := if ev == .droptx || ev == .none then
      run c s1 (List.replicate handles .dropSender ++ List.replicate lhandles .ldrop) else s1
  let s3 := if ev == .droprx then settle c s2 200 else drain c s2 (vals.length + 4)
  return { hres := s3.hres.map (·.2), reason := s3.reason, lreason := s3.lreason,
           delivered := (remOf s3.delivered).map (·.id), eos := s3.eos }

/-- `mpsc_close_keeps_transmitted` on real observations: what the receiver obtained from a link is a
prefix of the transmitted values (handles `Ok`), all of them when the stream ended cleanly -/
def deliveredOk (delivered transmitted : List Nat) (cleanEnd : Bool) : Bool :=
  if cleanEnd then delivered == transmitted else delivered.isPrefixOf transmitted

def reasonName : Option Reason → String
  | none => "none" | some .closed => "closed" | some .dropped => "dropped" | some .failed => "failed"

def hresName : HRes → String
  | .ok => "ok" | .sendErr => "senderr" | .dropped => "dropped"

/-- the harness' name of an `mpsc::SendError` → the recorded `RemoteSendError` it was built from -/
def rerrOfKind : String → Option RErr
  | "closed" => some .closed
  | "rs-closed-dropped" => some .sendClosed
  | "rs-closed-graceful" => some .sendClosed
  | "rs-chmux" => some .sendChMux
  | "rs-ser" => some .itemSer
  | "rs-oversize" => some .itemSize
  | "rforward" => some .forward
  | _ => none

end Remoc.Close
