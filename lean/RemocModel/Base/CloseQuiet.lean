import RemocModel.Base.CloseLive

/-! What a quiescent state of M_close looks like (nothing left for the runtime to do). -/

namespace Remoc.Close

theorem reason_eq (s : State) (w : WInv s) : s.reason = s.closedW := by
  have hb := w.both
  unfold State.reason closedReasonOf
  cases hc : s.closedW <;> cases he : s.errW <;> simp_all

/-- no transmission is left half-way -/
theorem quiet_cur (c : Cfg) (s : State) (hq : Quiescent c s) : s.cur = none := by
  cases hc : s.cur with
  | none => rfl
  | some v =>
    have h1 := hq .xmitDone (by decide)
    have h2 := hq .xmitItemFail (by decide)
    have h3 := hq .xmitFail (by decide)
    simp only [step, hc] at h1 h2 h3
    by_cases hb : v.bad = .no
    · by_cases hd : s.connDown = true
      · simp [hd] at h3
      · simp [hb, hd] at h1
    · simp [hb] at h2

/-- a running `send_impl` has consumed the whole back channel and the connection is up -/
theorem quiet_running (c : Cfg) (s : State) (hq : Quiescent c s) (hi : s.impl = none) :
    s.back = [] ∧ s.connDown = false := by
  have hc := quiet_cur c s hq
  have h1 := hq .implBack (by decide)
  have h2 := hq .implConn (by decide)
  simp only [step, hi, hc] at h1 h2
  constructor
  · cases hb : s.back with
    | nil => rfl
    | cons b bs => cases b <;> simp [hb] at h1
  · cases hd : s.connDown with
    | false => rfl
    | true => simp [hd] at h2

/-- a running, idle `recv_impl` has seen the latest value of the `closed` watch and its receiver lives -/
theorem quiet_rimpl (c : Cfg) (s : State) (hq : Quiescent c s) (hi : s.rimpl = none) (hh : s.rHold = none) :
    s.rUnseen = false ∧ s.rAlive = true := by
  have h1 := hq .rSeeClosed (by decide)
  have h2 := hq .rSeeGone (by decide)
  simp only [step, hi, hh] at h1 h2
  have hu : s.rUnseen = false := by
    cases hu : s.rUnseen with
    | false => rfl
    | true =>
      simp only [hu] at h1
      cases hw : s.rW with
      | none => simp [hw] at h1
      | some r => cases r <;> simp [hw] at h1
  refine ⟨hu, ?_⟩
  cases ha : s.rAlive with
  | true => rfl
  | false => simp [hu, ha] at h2

/-- a dropped receiver's `recv_impl` has returned -/
theorem quiet_dead (c : Cfg) (s : State) (hq : Quiescent c s) (ha : s.rAlive = false) : s.rimpl.isSome := by
  cases hi : s.rimpl with
  | some x => rfl
  | none =>
    cases hh : s.rHold with
    | none => have := (quiet_rimpl c s hq hi hh).2; simp [ha] at this
    | some e =>
      have h1 := hq .rPushFail (by decide)
      simp [step, hh, hi, ha] at h1

end Remoc.Close

namespace Remoc.Close

/-- why `send_impl` can have ended while a sender is alive, nothing failed item-wise and the receiver
was not forwarded onwards: exactly the three conditions, with the matching reason -/
theorem ended_cause (s : State) (a : AllInv s) (hlive : s.handles ≠ 0) (hnf : s.failFlag = false)
    (hfe : s.fwdErr = false) (hi : s.impl.isSome) :
    (s.impl = some .close ∧ s.closeCalled = true ∧ s.reason = some .closed) ∨
    (s.impl = some .fin ∧ s.rAlive = false ∧ s.reason = some .dropped) ∨
    (s.impl = some .conn ∧ s.connDown = true ∧ s.reason = some .failed) := by
  have hr := reason_eq s a.w
  have hw := a.w.closedW
  cases hc : s.impl with
  | none => simp [hc] at hi
  | some x =>
    cases x with
    | close => exact Or.inl ⟨rfl, a.ci.iClose hc, by rw [hr, hw, hc]; rfl⟩
    | fin => exact Or.inr (Or.inl ⟨rfl, a.ci.iFin hc, by rw [hr, hw, hc]; rfl⟩)
    | conn => exact Or.inr (Or.inr ⟨rfl, a.ci.iConn hc, by rw [hr, hw, hc]; rfl⟩)
    | error => have := a.ci.iError hc; simp [hfe] at this
    | drained => rcases a.w.drained hc with h | h <;> simp_all

/-- quiescent, connection up, `recv_impl` has returned: `send_impl` has ended -/
theorem quiet_ended_of_rexit (c : Cfg) (s : State) (a : AllInv s) (hq : Quiescent c s)
    (hd : s.connDown = false) (hr : s.rimpl.isSome) : s.impl.isSome := by
  cases hi : s.impl with
  | some x => rfl
  | none =>
    have hb := (quiet_running c s hq hi).1
    rcases a.k.k4 hr with h | h | h
    · simp [hd] at h
    · simp [hb] at h
    · simp [hi] at h

end Remoc.Close
