import RemocModel.Base.Lemmas

/-! The channel invariant of M_base and its preservation by every label. -/

namespace Remoc.Base

/-- every token the sender side has produced, in order -/
def emitted (st : State) : List PMsg :=
  st.log.flatMap (·.toks) ++ (if st.sDropped then [.finish] else [])

structure Inv (c : Cfg) (st : State) : Prop where
  shapes : ∀ e ∈ st.log, EmShape e.toks
  /-- FIFO: what was consumed and what is in flight is a prefix of what was emitted; nothing is
  missing unless the connection was lost -/
  fifo : ∃ tail, emitted st = st.consumed ++ st.port ++ tail ∧ (st.lost = false → tail = [])
  /-- the receiver state and everything it returned are the fold over the consumed tokens -/
  recv : runToks c {} st.consumed = (st.r, st.got)
  eos : st.ended = some .eos → st.r.finished = true

theorem inv_init (c : Cfg) : Inv c init :=
  ⟨by simp [init], ⟨[], by simp [emitted, init]⟩, by simp [init, runToks], by simp [init]⟩

theorem inv_step (c : Cfg) (st st' : State) (l : Label) (hi : Inv c st) (hs : step c st l = some st') :
    Inv c st' := by
  obtain ⟨hsh, ⟨tail, hfifo, htail⟩, hrecv, heos⟩ := hi
  cases l with
  | send it ab derr n0 =>
    simp only [step] at hs
    split at hs
    · simp at hs
    · rename_i hnd
      split at hs
      · -- port closed: nothing emitted
        obtain rfl := Option.some.inj hs
        refine ⟨?_, ⟨tail, ?_, htail⟩, hrecv, heos⟩
        · intro e he
          simp only [List.mem_append, List.mem_singleton] at he
          rcases he with he | rfl
          · exact hsh e he
          · exact .nothing
        · simp only [emitted, hnd, Bool.false_eq_true, if_false, List.append_nil, List.flatMap_append,
            List.flatMap_cons, List.flatMap_nil] at hfifo ⊢
          exact hfifo
      · split at hs
        · simp at hs
        obtain rfl := Option.some.inj hs
        refine ⟨?_, ?_, hrecv, heos⟩
        · intro e he
          simp only [List.mem_append, List.mem_singleton] at he
          rcases he with he | rfl
          · exact hsh e he
          · exact sendItem_shape ..
        · simp only [emitted, hnd, Bool.false_eq_true, if_false, List.append_nil, List.flatMap_append,
            List.flatMap_cons, List.flatMap_nil] at hfifo ⊢
          cases hl : st.lost with
          | true =>
            refine ⟨tail ++ (sendItem c st.big it ab derr n0).2.1, ?_, by simp⟩
            simp only [if_true]
            rw [hfifo]; simp [List.append_assoc]
          | false =>
            refine ⟨[], ?_, fun _ => rfl⟩
            have := htail hl
            subst this
            simp only [Bool.false_eq_true, if_false]
            rw [hfifo]; simp [List.append_assoc]
  | deliver =>
    simp only [step] at hs
    split at hs
    · simp at hs
    · split at hs
      · rename_i t rest hp
        obtain rfl := Option.some.inj hs
        refine ⟨hsh, ⟨tail, ?_, htail⟩, ?_, ?_⟩
        · simp only [emitted] at hfifo ⊢
          rw [hfifo, hp]; simp [List.append_assoc]
        · rw [runToks_append, hrecv]
          simp [runToks]
        · simp only []
          split
          · intro _; assumption
          · simp
      · split at hs
        · obtain rfl := Option.some.inj hs
          exact ⟨hsh, ⟨tail, hfifo, htail⟩, hrecv, by simp⟩
        · simp at hs
  | recvCancel =>
    simp only [step] at hs
    obtain rfl := Option.some.inj hs
    exact ⟨hsh, ⟨tail, hfifo, htail⟩, hrecv, heos⟩
  | close =>
    simp only [step] at hs
    obtain rfl := Option.some.inj hs
    exact ⟨hsh, ⟨tail, hfifo, htail⟩, hrecv, heos⟩
  | learnClose =>
    simp only [step] at hs
    split at hs
    · obtain rfl := Option.some.inj hs
      exact ⟨hsh, ⟨tail, hfifo, htail⟩, hrecv, heos⟩
    · simp at hs
  | dropSender =>
    simp only [step] at hs
    split at hs
    · simp at hs
    · rename_i hnd
      obtain rfl := Option.some.inj hs
      refine ⟨hsh, ?_, hrecv, heos⟩
      simp only [emitted, hnd, Bool.false_eq_true, if_false, List.append_nil, if_true] at hfifo ⊢
      cases hl : st.lost with
      | true =>
        refine ⟨tail ++ [.finish], ?_, by simp⟩
        simp only [if_true]
        rw [hfifo]; simp [List.append_assoc]
      | false =>
        refine ⟨[], ?_, fun _ => rfl⟩
        have := htail hl
        subst this
        simp only [Bool.false_eq_true, if_false]
        rw [hfifo]; simp [List.append_assoc]
  | connLost =>
    simp only [step] at hs
    obtain rfl := Option.some.inj hs
    refine ⟨hsh, ⟨st.port ++ tail, ?_, by simp⟩, hrecv, heos⟩
    simp only [emitted] at hfifo ⊢
    rw [hfifo]; simp [List.append_assoc]

theorem inv_run (c : Cfg) (st : State) (ls : List Label) (h : Inv c st) : Inv c (run c st ls) := by
  induction ls generalizing st with
  | nil => exact h
  | cons l ls ih =>
    simp only [run]
    split
    · rename_i st' hs; exact ih st' (inv_step c st st' l h hs)
    · exact ih st h

theorem inv_reachable (c : Cfg) (st : State) (h : Reachable c st) : Inv c st := by
  obtain ⟨ls, rfl⟩ := h
  exact inv_run c _ ls (inv_init c)

end Remoc.Base
