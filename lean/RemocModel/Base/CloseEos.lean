import RemocModel.Base.CloseWire

/-! Invariants of M_close: end-of-stream at the receiver and the handles of local senders. -/

namespace Remoc.Close

structure EInv (s : State) : Prop where
  e8 : s.eos.isSome → s.rq = [] ∧ s.rimpl.isSome ∧ s.lholder = false ∧ s.otherRefs = 0
  e9 : s.eos = some true → s.rimpl = some .fin
  e10 : s.rimpl = some .final → QE.final ∈ s.rq ∨ s.finalErr = true ∨ s.rAlive = false
  e11 : s.eos = some true → s.lost = []
  e12 : s.lholder = false → s.rW.isSome ∨ s.lhandles = 0

theorem einv_init (a b o : Nat) : EInv (init a b o) := by
  constructor <;> simp [init]

theorem einv_step_s (c : Cfg) (s s' : State) (l : Label) (hl : l.recvSide = false) (h : EInv s)
    (hs : step c s l = some s') : EInv s' := by
  obtain ⟨h1, h2, h3, h4, h5⟩ := h
  cases l <;> (first | (simp [Label.recvSide] at hl; done) | skip) <;>
    simp only [step] at hs <;> (repeat' split at hs) <;> (try (simp at hs; done)) <;>
    (try (obtain rfl := Option.some.inj hs)) <;>
    exact ⟨h1, h2, h3, h4, h5⟩

theorem einv_step_r (c : Cfg) (s s' : State) (l : Label) (hl : l.recvSide = true) (hp : PInv s) (hk : KInv s)
    (hd : DInv s) (h : EInv s) (hs : step c s l = some s') : EInv s' := by
  obtain ⟨h1, h2, h3, h4, h5⟩ := h
  have p1 := hp.rGone
  have k1 := hk.hold
  have d7 := hd.d7
  clear hp hk hd
  cases l <;> (first | (simp [Label.recvSide] at hl; done) | skip) <;>
    simp only [step] at hs <;> (repeat' split at hs) <;> (try (simp at hs; done)) <;>
    (try (obtain rfl := Option.some.inj hs)) <;>
    (first
      | exact ⟨h1, h2, h3, h4, h5⟩
      | (constructor <;> simp_all [rexit] <;>
          (try (rcases hri : s.rimpl with _ | (_ | _ | _) <;> rcases he : s.eos with _ | _ <;> simp_all <;> (try grind)))))

theorem einv_step (c : Cfg) (s s' : State) (l : Label) (hp : PInv s) (hk : KInv s) (hd : DInv s) (h : EInv s)
    (hs : step c s l = some s') : EInv s' := by
  cases hl : l.recvSide
  · exact einv_step_s c s s' l hl h hs
  · exact einv_step_r c s s' l hl hp hk hd h hs

theorem dinv_step (c : Cfg) (s s' : State) (l : Label) (hq : QInv s) (ci : CInv s) (h : DInv s)
    (hs : step c s l = some s') : DInv s' := by
  cases hl : l.recvSide
  · exact dinv_step_s c s s' l hl hq ci h hs
  · exact dinv_step_r c s s' l hl h hs

/-- local senders: accepted = delivered ++ lost with the receiver ++ still queued; handles accordingly -/
structure LInv (s : State) : Prop where
  l13 : s.lAccepted = locOf s.delivered ++ locOf s.lost ++ locOf s.rq
  l14 : s.lhres = (locOf s.delivered).map (·, HRes.ok) ++ (locOf s.lost).map (·, HRes.dropped)

theorem linv_init (a b o : Nat) : LInv (init a b o) := by
  constructor <;> simp [init, locOf]

theorem linv_step (c : Cfg) (s s' : State) (l : Label) (hd : DInv s) (h : LInv s) (hs : step c s l = some s') :
    LInv s' := by
  obtain ⟨h1, h2⟩ := h
  have d6 := hd.d6
  have d7 := hd.d7
  have d15 := hd.d15
  clear hd
  cases l <;> simp only [step] at hs <;> (repeat' split at hs) <;> (try (simp at hs; done)) <;>
    (try (obtain rfl := Option.some.inj hs)) <;>
    (first
      | exact ⟨h1, h2⟩
      | (constructor <;> simp_all [rexit, endWith, locOf, dropLoc]))

end Remoc.Close
