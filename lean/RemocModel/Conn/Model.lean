/-
M_conn: what the dispatcher's helper tasks do with the transport (`send_task`, `recv_task` and the
`run` loop of `chmux/mux.rs`), abstracted to the two facts C06 depends on:

* timing — `send_task` puts something on the transport at least every `remote timeout / 2`
  (a `Ping` when there is nothing else), `recv_task` gives up when nothing arrived for the local
  `connection_timeout`;
* fail-stop — the `run` loop returns the first transport fault it is shown (sink error, stream
  error, end of stream, timeout), whatever else is pending.

No Mathlib imports.
-/
namespace Remoc.Conn

/-- Did the receive task time out?  `last`: arrival time of the previous item (or the start);
`arrivals`: later arrival times in order; `upto`: the instant up to which we look; `T`: timeout. -/
def timedOut (T : Nat) (last : Nat) : List Nat → Nat → Bool
  | [], upto => decide (upto - last ≥ T)
  | a :: rest, upto => if a - last ≥ T then true else timedOut T a rest upto

/-- consecutive send instants are at most `I` apart, starting from `s0` -/
def gapsLe (I : Nat) (s0 : Nat) : List Nat → Prop
  | [] => True
  | s :: rest => s0 ≤ s ∧ s - s0 ≤ I ∧ gapsLe I s rest

/-- arrival instants: send instant plus a latency -/
def arrive : List Nat → List Nat → List Nat
  | s :: ss, l :: ls => (s + l) :: arrive ss ls
  | _, _ => []

/-- What the dispatcher's `run` loop can be shown. -/
inductive Ev where
  | work                      -- a local event or a received message handled without error
  | sinkError | streamError | streamClosed | timeout | protocolError | reset
  | goodbyeDone               -- Goodbye sent and received, send task ended
deriving Repr, DecidableEq

inductive Res where
  | running | ok | sink | stream | closed | timeout | protocol | reset
deriving Repr, DecidableEq

/-- The `run` loop: the first fault (or the completed Goodbye handshake) decides. -/
def runLoop : List Ev → Res
  | [] => .running
  | .work :: rest => runLoop rest
  | .sinkError :: _ => .sink
  | .streamError :: _ => .stream
  | .streamClosed :: _ => .closed
  | .timeout :: _ => .timeout
  | .protocolError :: _ => .protocol
  | .reset :: _ => .reset
  | .goodbyeDone :: _ => .ok

def Ev.isFault : Ev → Bool
  | .sinkError | .streamError | .streamClosed | .timeout | .protocolError | .reset => true
  | _ => false

end Remoc.Conn
