import RemocModel.Conn.Waits
set_option linter.unusedSimpArgs false
set_option linter.unusedVariables false
/-!
Helper lemmas for the wait/link model (`Conn/Waits.lean`): facts about `pollLink`, and the three
invariants behind `terminated_all_error` (Props/C06.lean):

* `NoLost`  — a parked wait that is not woken sits on an existing link whose poll would still say "pending";
* `Dead`    — after `terminate` every dispatcher-owned link is dead;
* `RetOk`   — every wait that returned after termination returned what the classification table allows.
-/
namespace Remoc.Conn

/-- a successful poll only consumes units -/
theorem pollLink_some {l : Link} {n : Nat} {r : WaitRes} {l' : Link} (h : pollLink l n = some (r, l')) :
    l'.kind = l.kind ∧ l'.alive = l.alive ∧ l'.avail ≤ l.avail ∧ l'.closed = l.closed ∧ l'.ended = l.ended := by
  unfold pollLink at h
  cases hk : l.kind <;> simp only [hk] at h <;> (repeat' split at h) <;> simp at h <;>
    (obtain ⟨rfl, rfl⟩ := h) <;> simp [hk]


/-- consuming units keeps the other waiters of the link pending -/
theorem pollLink_none_mono {l l' : Link} {n m : Nat} {r : WaitRes} (h : pollLink l n = some (r, l'))
    (hm : pollLink l m = none) : pollLink l' m = none := by
  unfold pollLink at h hm ⊢
  cases hk : l.kind <;> simp only [hk] at h hm <;> (repeat' split at h) <;> simp at h <;>
    (obtain ⟨rfl, rfl⟩ := h) <;> simp [hk] at hm ⊢ <;> (repeat' split at hm) <;> (try simp_all) <;> (try omega)

/-- the `ld` flag changes the class of an error, never whether a poll completes -/
theorem pollLink_none_ld {l : Link} {n : Nat} (b : Bool) (h : pollLink l n = none) :
    pollLink { l with ld := b } n = none := by
  unfold pollLink at h ⊢
  cases hk : l.kind <;> simp only [hk] at h ⊢ <;> (repeat' split at h) <;> simp_all

/-- a dead dispatcher-owned link never leaves a poll pending -/
theorem pollLink_dead_ne_none {l : Link} (n : Nat) (ha : l.alive = false) (hu : l.kind.userOwned = false) :
    pollLink l n ≠ none := by
  unfold pollLink
  cases hk : l.kind <;> simp [hk, LinkKind.userOwned, ha] at hu ⊢ <;> (repeat' split) <;> simp_all

/-- what a poll returns when dispatcher-owned links are dead is in the classification table -/
theorem pollLink_table {l : Link} {n : Nat} {r : WaitRes} {l' : Link} (h : pollLink l n = some (r, l'))
    (hd : l.kind.userOwned = false → l.alive = false) : okAfterTerm l.kind r = true := by
  unfold pollLink at h
  cases hk : l.kind <;> simp only [hk] at h <;> simp [hk, LinkKind.userOwned] at hd <;>
    (repeat' split at h) <;> simp at h <;> (obtain ⟨rfl, rfl⟩ := h) <;> simp_all [okAfterTerm]

/-! ## invariants -/

def NoLostL (links : List Link) (ps : List Wait) : Prop :=
  ∀ w ∈ ps, ∃ l, links[w.link]? = some l ∧ (w.woken = true ∨ pollLink l w.need = none)

def NoLost (s : WState) : Prop := NoLostL s.links s.pending

def DeadL (links : List Link) : Prop := ∀ l ∈ links, l.kind.userOwned = false → l.alive = false

def Dead (s : WState) : Prop := s.term.isSome = true → DeadL s.links

def RetOk (s : WState) : Prop := ∀ r ∈ s.returned, r.afterTerm = true → okAfterTerm r.kind r.res = true

theorem mem_wakeOn {i : Nat} {ps : List Wait} {w' : Wait} (h : w' ∈ wakeOn i ps) :
    ∃ w ∈ ps, w'.link = w.link ∧ w'.need = w.need ∧ ((w.link = i ∧ w'.woken = true) ∨ (w.link ≠ i ∧ w' = w)) := by
  unfold wakeOn at h
  obtain ⟨w, hw, rfl⟩ := List.mem_map.mp h
  refine ⟨w, hw, ?_⟩
  by_cases hl : w.link = i <;> simp [hl]

/-- changing link `i` in any way while waking everybody parked on it keeps `NoLost` -/
theorem noLost_set_wake {links : List Link} {ps : List Wait} (i : Nat) (l' : Link)
    (h : NoLostL links ps) (hi : i < links.length) : NoLostL (links.set i l') (wakeOn i ps) := by
  intro w' hw'
  obtain ⟨w, hw, hlk, hnd, hcase⟩ := mem_wakeOn hw'
  obtain ⟨l, hl, hdisj⟩ := h w hw
  rcases hcase with ⟨hwi, hwoken⟩ | ⟨hne, rfl⟩
  · refine ⟨l', ?_, Or.inl hwoken⟩
    rw [hlk, hwi]; simp [List.getElem?_set, hi]
  · refine ⟨l, ?_, hdisj⟩
    rw [List.getElem?_set_ne (Ne.symm hne)]; exact hl

/-- a successful poll on link `i` (units consumed) keeps `NoLost` without waking anybody -/
theorem noLost_consume {links : List Link} {ps : List Wait} {i n : Nat} {l l' : Link} {r : WaitRes}
    (h : NoLostL links ps) (hl : links[i]? = some l) (hp : pollLink l n = some (r, l')) :
    NoLostL (links.set i l') ps := by
  intro w hw
  obtain ⟨lw, hlw, hdisj⟩ := h w hw
  by_cases hwi : w.link = i
  · have hi : i < links.length := by
      rcases Nat.lt_or_ge i links.length with h | h
      · exact h
      · simp [List.getElem?_eq_none h] at hl
    refine ⟨l', ?_, ?_⟩
    · rw [hwi]; simp [List.getElem?_set, hi]
    · rcases hdisj with hwk | hnone
      · exact Or.inl hwk
      · rw [hwi, hl] at hlw
        cases hlw
        exact Or.inr (pollLink_none_mono hp hnone)
  · refine ⟨lw, ?_, hdisj⟩
    rw [List.getElem?_set_ne (Ne.symm hwi)]; exact hlw

theorem noLost_sub {links : List Link} {ps qs : List Wait} (h : NoLostL links ps) (hs : ∀ w ∈ qs, w ∈ ps) :
    NoLostL links qs := fun w hw => h w (hs w hw)

theorem noLost_giveBack {s : WState} (o : Option Nat) (h : NoLost s) : NoLost (giveBack s o) := by
  unfold giveBack
  cases o with
  | none => exact h
  | some i =>
    simp only
    split
    · rename_i l hl
      have hi : i < s.links.length := by
        rcases Nat.lt_or_ge i s.links.length with h | h
        · exact h
        · simp [List.getElem?_eq_none h] at hl
      exact noLost_set_wake i _ h hi
    · exact h

theorem deadL_set {links : List Link} {i : Nat} {l l' : Link} (h : DeadL links) (hl : links[i]? = some l)
    (hk : l'.kind = l.kind) (ha : l'.alive = l.alive ∨ l'.alive = false) : DeadL (links.set i l') := by
  intro x hx hu
  rcases List.mem_or_eq_of_mem_set hx with hx | rfl
  · exact h x hx hu
  · rcases ha with ha | ha
    · rw [ha]; exact h l (List.mem_of_getElem? hl) (by rw [← hk]; exact hu)
    · exact ha

theorem dead_giveBack {s : WState} (o : Option Nat) (h : Dead s) : Dead (giveBack s o) := by
  unfold giveBack
  cases o with
  | none => exact h
  | some i =>
    simp only
    split
    · rename_i l hl
      intro ht
      exact deadL_set (h ht) hl rfl (Or.inl rfl)
    · exact h

theorem retOk_giveBack {s : WState} (o : Option Nat) (h : RetOk s) : RetOk (giveBack s o) := by
  unfold giveBack
  cases o with
  | none => exact h
  | some i => simp only; split <;> exact h

theorem giveBack_term (s : WState) (o : Option Nat) : (giveBack s o).term = s.term := by
  unfold giveBack; cases o <;> simp <;> split <;> rfl


theorem lt_of_getElem?_some {α : Type} {xs : List α} {i : Nat} {a : α} (h : xs[i]? = some a) : i < xs.length := by
  rcases Nat.lt_or_ge i xs.length with h' | h'
  · exact h'
  · simp [List.getElem?_eq_none h'] at h

/-- replacing link `i` by one on which no fewer polls stay pending keeps `NoLost` without waking anybody -/
theorem noLost_set_mono {links : List Link} {ps : List Wait} {i : Nat} {l l' : Link}
    (h : NoLostL links ps) (hl : links[i]? = some l) (hmono : ∀ n, pollLink l n = none → pollLink l' n = none) :
    NoLostL (links.set i l') ps := by
  intro w hw
  obtain ⟨lw, hlw, hdisj⟩ := h w hw
  by_cases hwi : w.link = i
  · have hi := lt_of_getElem?_some hl
    refine ⟨l', ?_, ?_⟩
    · rw [hwi]; simp [List.getElem?_set, hi]
    · rcases hdisj with hwk | hnone
      · exact Or.inl hwk
      · rw [hwi, hl] at hlw
        cases hlw
        exact Or.inr (hmono _ hnone)
  · refine ⟨lw, ?_, hdisj⟩
    rw [List.getElem?_set_ne (Ne.symm hwi)]; exact hlw

theorem pollLink_none_tableHeld {l : Link} {n : Nat} (t : Nat) (h : pollLink l n = none) :
    pollLink { l with tableHeld := t } n = none := by
  unfold pollLink at h ⊢
  cases hk : l.kind <;> simp only [hk] at h ⊢ <;> (repeat' split at h) <;> simp_all

theorem noLost_map {links : List Link} {ps : List Wait} (f : Link → Link) (h : NoLostL links ps)
    (hf : ∀ l n, pollLink l n = none → pollLink (f l) n = none) : NoLostL (links.map f) ps := by
  intro w hw
  obtain ⟨l, hl, hdisj⟩ := h w hw
  refine ⟨f l, by simp [List.getElem?_map, hl], ?_⟩
  rcases hdisj with h1 | h1
  · exact Or.inl h1
  · exact Or.inr (hf _ _ h1)

theorem noLost_append {links : List Link} {ps : List Wait} (x : Link) (h : NoLostL links ps) :
    NoLostL (links ++ [x]) ps := by
  intro w hw
  obtain ⟨l, hl, hdisj⟩ := h w hw
  exact ⟨l, by rw [List.getElem?_append_left (lt_of_getElem?_some hl)]; exact hl, hdisj⟩

theorem noLost_wakeAll {links : List Link} {ps : List Wait} (f : Link → Link) (h : NoLostL links ps) :
    NoLostL (links.map f) (wakeAll ps) := by
  intro w' hw'
  unfold wakeAll at hw'
  obtain ⟨w, hw, rfl⟩ := List.mem_map.mp hw'
  obtain ⟨l, hl, _⟩ := h w hw
  exact ⟨f l, by simp [List.getElem?_map, hl], Or.inl rfl⟩

/-- **No lost wake-up** is an invariant of every label. -/
theorem noLost_step {s s' : WState} {lab : Label} (h : NoLost s) (hs : wstep s lab = some s') : NoLost s' := by
  unfold NoLost at h
  cases lab with
  | start k i need holds =>
    simp only [wstep] at hs
    split at hs
    · simp at hs
    · rename_i l hl
      split at hs
      · rename_i r l' hp
        simp at hs; subst hs
        exact noLost_giveBack holds (noLost_consume h hl hp)
      · rename_i hp
        simp at hs; subst hs
        intro w hw
        simp only [List.mem_append, List.mem_singleton] at hw
        rcases hw with hw | rfl
        · exact h w hw
        · exact ⟨l, hl, Or.inr hp⟩
  | wake idx =>
    simp only [wstep] at hs
    split at hs
    · simp at hs
    · rename_i w hw
      split at hs
      · simp at hs
      · split at hs
        · simp at hs
        · rename_i l hl
          split at hs
          · rename_i r l' hp
            simp at hs; subst hs
            apply noLost_giveBack
            exact noLost_sub (noLost_consume h hl hp) (fun x hx => List.mem_of_mem_eraseIdx hx)
          · rename_i hp
            simp at hs; subst hs
            intro x hx
            rcases List.mem_or_eq_of_mem_set hx with hx | rfl
            · exact h x hx
            · exact ⟨l, hl, Or.inr hp⟩
  | cancel idx =>
    simp only [wstep] at hs
    split at hs
    · simp at hs
    · simp at hs; subst hs
      apply noLost_giveBack
      exact noLost_sub h (fun x hx => List.mem_of_mem_eraseIdx hx)
  | newLink kind avail =>
    simp only [wstep] at hs
    simp at hs; subst hs
    exact noLost_append _ h
  | feed i n =>
    simp only [wstep] at hs
    split at hs
    · simp at hs
    · split at hs
      · rename_i l hl
        split at hs
        · simp at hs
        · simp at hs; subst hs
          exact noLost_set_wake i _ h (lt_of_getElem?_some hl)
      · simp at hs
  | closeLink i g =>
    simp only [wstep] at hs
    split at hs
    · simp at hs
    · split at hs
      · rename_i l hl
        split at hs
        · simp at hs
        · simp at hs; subst hs
          exact noLost_set_wake i _ h (lt_of_getElem?_some hl)
      · simp at hs
  | endLink i =>
    simp only [wstep] at hs
    split at hs
    · simp at hs
    · split at hs
      · rename_i l hl
        split at hs
        · simp at hs
        · simp at hs; subst hs
          exact noLost_set_wake i _ h (lt_of_getElem?_some hl)
      · simp at hs
  | dropLink i =>
    simp only [wstep] at hs
    split at hs
    · simp at hs
    · split at hs
      · rename_i l hl
        split at hs
        · simp at hs
        · simp at hs; subst hs
          exact noLost_set_wake i _ h (lt_of_getElem?_some hl)
      · simp at hs
  | tableTake i =>
    simp only [wstep] at hs
    split at hs
    · simp at hs
    · split at hs
      · rename_i l hl
        split at hs
        · simp at hs
        · simp at hs; subst hs
          exact noLost_set_mono h hl (fun n hn => pollLink_none_tableHeld _ hn)
      · simp at hs
  | tableFree i =>
    simp only [wstep] at hs
    split at hs
    · simp at hs
    · split at hs
      · rename_i l hl
        split at hs
        · simp at hs
        · simp at hs; subst hs
          exact noLost_set_wake i _ h (lt_of_getElem?_some hl)
      · simp at hs
  | release i =>
    simp only [wstep] at hs
    split at hs
    · split at hs
      · simp at hs
      · simp at hs; subst hs
        exact noLost_giveBack (some i) h
    · simp at hs
  | listenerDropped =>
    simp only [wstep] at hs
    split at hs
    · simp at hs
    · simp at hs; subst hs
      exact noLost_map _ h (fun l n hn => pollLink_none_ld true hn)
  | rx =>
    simp only [wstep] at hs
    split at hs
    · simp at hs
    · simp at hs; subst hs; exact h
  | tick d =>
    simp only [wstep] at hs
    split at hs
    · simp at hs; subst hs; exact h
    · split at hs
      · simp at hs; subst hs; exact h
      · simp at hs
  | fault e =>
    simp only [wstep] at hs
    split at hs
    · simp at hs
    · simp at hs; subst hs; exact h
  | stall =>
    simp only [wstep] at hs
    split at hs
    · simp at hs
    · simp at hs; subst hs; exact h
  | terminate =>
    simp only [wstep] at hs
    split at hs
    · simp at hs
    · split at hs
      · simp at hs
      · simp at hs; subst hs
        exact noLost_wakeAll _ h


theorem deadL_set_of_poll {links : List Link} {i n : Nat} {l l' : Link} {r : WaitRes} (h : DeadL links)
    (hl : links[i]? = some l) (hp : pollLink l n = some (r, l')) : DeadL (links.set i l') :=
  deadL_set h hl (pollLink_some hp).1 (Or.inl (pollLink_some hp).2.1)

/-- **After termination every dispatcher-owned link is dead** is an invariant. -/
theorem dead_step {s s' : WState} {lab : Label} (h : Dead s) (hs : wstep s lab = some s') : Dead s' := by
  cases lab with
  | start k i need holds =>
    simp only [wstep] at hs
    split at hs
    · simp at hs
    · rename_i l hl
      split at hs
      · rename_i r l' hp
        simp at hs; subst hs
        apply dead_giveBack
        intro ht
        exact deadL_set_of_poll (h ht) hl hp
      · simp at hs; subst hs; exact h
  | wake idx =>
    simp only [wstep] at hs
    split at hs
    · simp at hs
    · rename_i w hw
      split at hs
      · simp at hs
      · split at hs
        · simp at hs
        · rename_i l hl
          split at hs
          · rename_i r l' hp
            simp at hs; subst hs
            apply dead_giveBack
            intro ht
            exact deadL_set_of_poll (h ht) hl hp
          · simp at hs; subst hs; exact h
  | cancel idx =>
    simp only [wstep] at hs
    split at hs
    · simp at hs
    · simp at hs; subst hs
      apply dead_giveBack
      exact h
  | newLink kind avail =>
    simp only [wstep] at hs
    simp at hs; subst hs
    intro ht x hx hu
    simp only [List.mem_append, List.mem_singleton] at hx
    rcases hx with hx | rfl
    · exact h ht x hx hu
    · simp at hu ht ⊢
      simp [hu]
      cases hterm : s.term <;> simp_all
  | feed i n =>
    simp only [wstep] at hs
    split at hs
    · simp at hs
    · rename_i hterm
      split at hs
      · split at hs
        · simp at hs
        · simp at hs; subst hs
          intro ht; simp [ht] at hterm
      · simp at hs
  | closeLink i g =>
    simp only [wstep] at hs
    split at hs
    · simp at hs
    · rename_i hterm
      split at hs
      · split at hs
        · simp at hs
        · simp at hs; subst hs
          intro ht; simp [ht] at hterm
      · simp at hs
  | endLink i =>
    simp only [wstep] at hs
    split at hs
    · simp at hs
    · rename_i hterm
      split at hs
      · split at hs
        · simp at hs
        · simp at hs; subst hs
          intro ht; simp [ht] at hterm
      · simp at hs
  | dropLink i =>
    simp only [wstep] at hs
    split at hs
    · simp at hs
    · rename_i hterm
      split at hs
      · split at hs
        · simp at hs
        · simp at hs; subst hs
          intro ht; simp [ht] at hterm
      · simp at hs
  | tableTake i =>
    simp only [wstep] at hs
    split at hs
    · simp at hs
    · rename_i hterm
      split at hs
      · split at hs
        · simp at hs
        · simp at hs; subst hs
          intro ht; simp [ht] at hterm
      · simp at hs
  | tableFree i =>
    simp only [wstep] at hs
    split at hs
    · simp at hs
    · rename_i hterm
      split at hs
      · split at hs
        · simp at hs
        · simp at hs; subst hs
          intro ht; simp [ht] at hterm
      · simp at hs
  | release i =>
    simp only [wstep] at hs
    split at hs
    · split at hs
      · simp at hs
      · simp at hs; subst hs
        exact dead_giveBack (some i) h
    · simp at hs
  | listenerDropped =>
    simp only [wstep] at hs
    split at hs
    · simp at hs
    · rename_i hterm
      simp at hs; subst hs
      intro ht; simp [ht] at hterm
  | rx =>
    simp only [wstep] at hs
    split at hs
    · simp at hs
    · simp at hs; subst hs; exact h
  | tick d =>
    simp only [wstep] at hs
    split at hs
    · simp at hs; subst hs; exact h
    · split at hs
      · simp at hs; subst hs; exact h
      · simp at hs
  | fault e =>
    simp only [wstep] at hs
    split at hs
    · simp at hs
    · simp at hs; subst hs; exact h
  | stall =>
    simp only [wstep] at hs
    split at hs
    · simp at hs
    · simp at hs; subst hs; exact h
  | terminate =>
    simp only [wstep] at hs
    split at hs
    · simp at hs
    · split at hs
      · simp at hs
      · simp at hs; subst hs
        intro _ x hx hu
        obtain ⟨l, _, rfl⟩ := List.mem_map.mp hx
        unfold killLink at hu ⊢
        split <;> simp_all

theorem retOk_append {s : WState} {l : Link} {n : Nat} {r : WaitRes} {l' : Link} {k : Nat} {b : Bool} {i : Nat}
    (h : RetOk s) (hd : Dead s) (hl : s.links[i]? = some l) (hp : pollLink l n = some (r, l')) :
    ∀ x ∈ s.returned ++ [⟨k, l.kind, r, s.term.isSome, b⟩], x.afterTerm = true → okAfterTerm x.kind x.res = true := by
  intro x hx hat
  simp only [List.mem_append, List.mem_singleton] at hx
  rcases hx with hx | rfl
  · exact h x hx hat
  · simp at hat
    exact pollLink_table hp (fun hu => hd (by simp [hat]) l (List.mem_of_getElem? hl) hu)

/-- **What returns after termination is in the classification table** is an invariant (given `Dead`). -/
theorem retOk_step {s s' : WState} {lab : Label} (h : RetOk s) (hd : Dead s) (hs : wstep s lab = some s') :
    RetOk s' := by
  cases lab with
  | start k i need holds =>
    simp only [wstep] at hs
    split at hs
    · simp at hs
    · rename_i l hl
      split at hs
      · rename_i r l' hp
        simp at hs; subst hs
        apply retOk_giveBack
        exact retOk_append h hd hl hp
      · simp at hs; subst hs; exact h
  | wake idx =>
    simp only [wstep] at hs
    split at hs
    · simp at hs
    · rename_i w hw
      split at hs
      · simp at hs
      · split at hs
        · simp at hs
        · rename_i l hl
          split at hs
          · rename_i r l' hp
            simp at hs; subst hs
            apply retOk_giveBack
            exact retOk_append h hd hl hp
          · simp at hs; subst hs; exact h
  | cancel idx =>
    simp only [wstep] at hs
    split at hs
    · simp at hs
    · simp at hs; subst hs
      apply retOk_giveBack
      exact h
  | release i =>
    simp only [wstep] at hs
    split at hs
    · split at hs
      · simp at hs
      · simp at hs; subst hs
        exact retOk_giveBack (some i) h
    · simp at hs
  | tick d =>
    simp only [wstep] at hs
    split at hs
    · simp at hs; subst hs; exact h
    · split at hs
      · simp at hs; subst hs; exact h
      · simp at hs
  | terminate =>
    simp only [wstep] at hs
    split at hs
    · simp at hs
    · split at hs
      · simp at hs
      · simp at hs; subst hs; exact h
  | newLink kind avail => simp only [wstep] at hs; simp at hs; subst hs; exact h
  | feed i n | closeLink i g | endLink i | dropLink i | tableTake i | tableFree i =>
    simp only [wstep] at hs
    split at hs
    · simp at hs
    · split at hs
      · split at hs
        · simp at hs
        · simp at hs; subst hs; exact h
      · simp at hs
  | listenerDropped | rx | fault e | stall =>
    simp only [wstep] at hs
    split at hs
    · simp at hs
    · simp at hs; subst hs; exact h

/-- the three invariants together -/
def WInv (s : WState) : Prop := NoLost s ∧ Dead s ∧ RetOk s

theorem winv_init {s : WState} (h : WInit s) : WInv s := by
  obtain ⟨hp, hr, _, _, ht, _⟩ := h
  refine ⟨?_, ?_, ?_⟩
  · intro w hw; simp [hp] at hw
  · intro h'; simp [ht] at h'
  · intro r hr'; simp [hr] at hr'

theorem winv_reachable {s : WState} (h : WReachable s) : WInv s := by
  induction h with
  | init s hi => exact winv_init hi
  | step s l s' _ hs ih =>
    obtain ⟨h1, h2, h3⟩ := ih
    exact ⟨noLost_step h1 hs, dead_step h2 hs, retOk_step h3 h2 hs⟩


/-! ## the clock and the run loop -/

/-- the part of the state the clock labels read -/
structure Clk where
  now : Nat
  lastRx : Nat
  timeout : Nat
  term : Option Res
  faulted : Option Ev
  silentSince : Option Nat

def WState.clk (s : WState) : Clk := ⟨s.now, s.lastRx, s.timeout, s.term, s.faulted, s.silentSince⟩

theorem giveBack_clk (s : WState) (o : Option Nat) : (giveBack s o).clk = s.clk := by
  unfold giveBack; cases o <;> simp <;> split <;> rfl

def Label.clocky : Label → Bool
  | .rx | .tick _ | .fault _ | .stall | .terminate => true
  | _ => false

theorem giveBack_evs (s : WState) (o : Option Nat) : (giveBack s o).evs = s.evs := by
  unfold giveBack; cases o <;> simp <;> split <;> rfl

def ClockInv (s : WState) : Prop :=
  s.lastRx ≤ s.now ∧ (∀ tf, s.silentSince = some tf → s.lastRx ≤ tf ∧ tf ≤ s.now) ∧
  (s.term = none → s.now ≤ s.lastRx + s.timeout) ∧ (∀ e, s.faulted = some e → e.isFault = true) ∧
  (∀ e ∈ s.evs, e = .work) ∧ 0 < s.timeout ∧
  (∀ r, s.term = some r → r ≠ .ok ∧ r ≠ .running)

theorem runLoop_work_append (pre : List Ev) (e : Ev) (hpre : ∀ x ∈ pre, x = .work) (he : e.isFault = true) :
    runLoop (pre ++ [e]) ≠ .ok ∧ runLoop (pre ++ [e]) ≠ .running := by
  induction pre with
  | nil => cases e <;> simp_all [runLoop, Ev.isFault]
  | cons x xs ih =>
    have hx : x = .work := hpre x (by simp)
    subst hx
    simp only [List.cons_append, runLoop]
    exact ih (fun y hy => hpre y (by simp [hy]))

theorem cause_isFault {s : WState} {e : Ev} (hf : ∀ e, s.faulted = some e → e.isFault = true)
    (h : cause s = some e) : e.isFault = true := by
  unfold cause at h
  split at h
  · rename_i e' he'; simp at h; subst h; exact hf _ he'
  · split at h
    · simp at h; subst h; rfl
    · simp at h

/-- labels that do not touch clock, fault and termination state -/
theorem clk_untouched {s s' : WState} {lab : Label} (hs : wstep s lab = some s')
    (hl : lab.clocky = false) :
    s'.clk = s.clk ∧ (s'.evs = s.evs ∨ s'.evs = s.evs ++ [.work]) := by
  cases lab with
  | rx | tick d | fault e | stall | terminate => simp [Label.clocky] at hl
  | start k i need holds =>
    simp only [wstep] at hs
    split at hs
    · simp at hs
    · split at hs
      · simp at hs; subst hs; rw [giveBack_clk, giveBack_evs]; simp [WState.clk]
      · simp at hs; subst hs; simp [WState.clk]
  | wake idx =>
    simp only [wstep] at hs
    split at hs
    · simp at hs
    · split at hs
      · simp at hs
      · split at hs
        · simp at hs
        · split at hs
          · simp at hs; subst hs; rw [giveBack_clk, giveBack_evs]; simp [WState.clk]
          · simp at hs; subst hs; simp [WState.clk]
  | cancel idx =>
    simp only [wstep] at hs
    split at hs
    · simp at hs
    · simp at hs; subst hs; rw [giveBack_clk, giveBack_evs]; simp [WState.clk]
  | newLink kind avail => simp only [wstep] at hs; simp at hs; subst hs; simp [WState.clk]
  | feed i n | closeLink i g | endLink i | dropLink i | tableTake i | tableFree i =>
    simp only [wstep] at hs
    split at hs
    · simp at hs
    · split at hs
      · split at hs
        · simp at hs
        · simp at hs; subst hs; simp [WState.clk]
      · simp at hs
  | release i =>
    simp only [wstep] at hs
    split at hs
    · split at hs
      · simp at hs
      · simp at hs; subst hs; rw [giveBack_clk, giveBack_evs]; simp
    · simp at hs
  | listenerDropped =>
    simp only [wstep] at hs
    split at hs
    · simp at hs
    · simp at hs; subst hs; simp [WState.clk]

theorem clockInv_of_clk {s s' : WState} (h : ClockInv s) (hc : s'.clk = s.clk)
    (he : s'.evs = s.evs ∨ s'.evs = s.evs ++ [.work]) : ClockInv s' := by
  simp only [WState.clk, Clk.mk.injEq] at hc
  obtain ⟨h1, h2, h3, h4, h5, h6⟩ := hc
  obtain ⟨i1, i2, i3, i4, i5, i6, i7⟩ := h
  refine ⟨by omega, ?_, ?_, ?_, ?_, by omega, ?_⟩
  · intro tf htf; rw [h6] at htf; have := i2 tf htf; omega
  · intro ht; rw [h4] at ht; have := i3 ht; omega
  · intro e hf; rw [h5] at hf; exact i4 e hf
  · intro e hm
    rcases he with he | he
    · rw [he] at hm; exact i5 e hm
    · rw [he] at hm
      simp only [List.mem_append, List.mem_singleton] at hm
      rcases hm with hm | rfl
      · exact i5 e hm
      · rfl
  · intro r hr; rw [h4] at hr; exact i7 r hr

theorem clockInv_step {s s' : WState} {lab : Label} (h : ClockInv s) (hs : wstep s lab = some s') : ClockInv s' := by
  obtain ⟨i1, i2, i3, i4, i5, i6, i7⟩ := h
  cases lab with
  | rx =>
    simp only [wstep] at hs
    split at hs
    · simp at hs
    · rename_i hg
      simp at hg
      simp at hs; subst hs
      refine ⟨by simp, ?_, by simp, i4, ?_, i6, i7⟩
      · intro tf htf; simp [hg.2] at htf
      · intro e hm
        simp only [List.mem_append, List.mem_singleton] at hm
        rcases hm with hm | rfl
        · exact i5 e hm
        · rfl
  | tick d =>
    simp only [wstep] at hs
    split at hs
    · rename_i ht
      simp at hs; subst hs
      refine ⟨by simp; omega, ?_, ?_, i4, i5, i6, i7⟩
      · intro tf htf; have := i2 tf htf; simp; omega
      · intro hn; simp at hn; simp [hn] at ht
    · split at hs
      · rename_i hg
        simp at hg
        simp at hs; subst hs
        refine ⟨by simp; omega, ?_, ?_, i4, i5, i6, i7⟩
        · intro tf htf; have := i2 tf htf; simp; omega
        · intro _; simp; exact hg.2
      · simp at hs
  | fault e =>
    simp only [wstep] at hs
    split at hs
    · simp at hs
    · rename_i hg
      simp at hg
      simp at hs; subst hs
      refine ⟨i1, i2, i3, ?_, i5, i6, i7⟩
      intro e' he'; simp at he'; subst he'; simp_all
  | stall =>
    simp only [wstep] at hs
    split at hs
    · simp at hs
    · simp at hs; subst hs
      refine ⟨i1, ?_, i3, i4, i5, i6, i7⟩
      intro tf htf; simp at htf; subst htf; exact ⟨i1, Nat.le_refl _⟩
  | terminate =>
    simp only [wstep] at hs
    split at hs
    · simp at hs
    · split at hs
      · simp at hs
      · rename_i e hc
        simp at hs; subst hs
        refine ⟨i1, i2, by simp, i4, i5, i6, ?_⟩
        intro r hr
        simp at hr; subst hr
        exact runLoop_work_append s.evs e i5 (cause_isFault i4 hc)
  | start k i need holds | wake idx | cancel idx | newLink kind avail | feed i n | closeLink i g | endLink i
  | dropLink i | tableTake i | tableFree i | release i | listenerDropped =>
    obtain ⟨hc, he⟩ := clk_untouched hs (by simp [Label.clocky])
    exact clockInv_of_clk ⟨i1, i2, i3, i4, i5, i6, i7⟩ hc he

theorem clockInv_init {s : WState} (h : WInit s) : ClockInv s := by
  obtain ⟨_, _, he, hf, ht, hsil, hl, hto⟩ := h
  refine ⟨by omega, ?_, by intro _; omega, ?_, ?_, hto, ?_⟩
  · intro tf htf; simp [hsil] at htf
  · intro e hfe; simp [hf] at hfe
  · intro e hm; simp [he] at hm
  · intro r hr; simp [ht] at hr

theorem clockInv_reachable {s : WState} (h : WReachable s) : ClockInv s := by
  induction h with
  | init s hi => exact clockInv_init hi
  | step s l s' _ hs ih => exact clockInv_step ih hs


/-! ## runs -/

theorem wreachable_wrun {s s' : WState} {ls : List Label} (h : WReachable s) (hr : wrun s ls = some s') :
    WReachable s' := by
  induction ls generalizing s with
  | nil => simp [wrun] at hr; subst hr; exact h
  | cons l ls ih =>
    simp only [wrun] at hr
    split at hr
    · rename_i s1 hs1
      exact ih (WReachable.step s l s1 h hs1) hr
    · simp at hr

/-- a terminated state with nothing parked has no internal label enabled -/
theorem quiescent_of_nothing_pending {s : WState} (hp : s.pending = []) (ht : s.term.isSome = true) :
    WQuiescent s := by
  intro l hl
  cases l <;> simp [Label.internal] at hl
  · simp [wstep, hp]
  · simp [wstep, ht]


/-! ## the dispatcher's port numbers -/

theorem pollLink_tableHeld {l : Link} {n : Nat} {r : WaitRes} {l' : Link} (h : pollLink l n = some (r, l')) :
    l'.tableHeld = l.tableHeld := by
  unfold pollLink at h
  cases hk : l.kind <;> simp only [hk] at h <;> (repeat' split at h) <;> simp at h <;>
    (obtain ⟨rfl, rfl⟩ := h) <;> simp [hk]

def NoTableL (links : List Link) : Prop := ∀ l ∈ links, l.tableHeld = 0

/-- after termination the dispatcher holds no port number -/
def NoTable (s : WState) : Prop := s.term.isSome = true → NoTableL s.links

theorem noTableL_set {links : List Link} {i : Nat} {l l' : Link} (h : NoTableL links) (hl : links[i]? = some l)
    (ht : l'.tableHeld = l.tableHeld) : NoTableL (links.set i l') := by
  intro x hx
  rcases List.mem_or_eq_of_mem_set hx with hx | rfl
  · exact h x hx
  · rw [ht]; exact h l (List.mem_of_getElem? hl)

theorem noTable_giveBack {s : WState} (o : Option Nat) (h : NoTable s) : NoTable (giveBack s o) := by
  unfold giveBack
  cases o with
  | none => exact h
  | some i =>
    simp only
    split
    · rename_i l hl
      intro ht
      exact noTableL_set (h ht) hl rfl
    · exact h

theorem noTable_step {s s' : WState} {lab : Label} (h : NoTable s) (hs : wstep s lab = some s') : NoTable s' := by
  cases lab with
  | start k i need holds =>
    simp only [wstep] at hs
    split at hs
    · simp at hs
    · rename_i l hl
      split at hs
      · rename_i r l' hp
        simp at hs; subst hs
        apply noTable_giveBack
        intro ht
        exact noTableL_set (h ht) hl (pollLink_tableHeld hp)
      · simp at hs; subst hs; exact h
  | wake idx =>
    simp only [wstep] at hs
    split at hs
    · simp at hs
    · rename_i w hw
      split at hs
      · simp at hs
      · split at hs
        · simp at hs
        · rename_i l hl
          split at hs
          · rename_i r l' hp
            simp at hs; subst hs
            apply noTable_giveBack
            intro ht
            exact noTableL_set (h ht) hl (pollLink_tableHeld hp)
          · simp at hs; subst hs; exact h
  | cancel idx =>
    simp only [wstep] at hs
    split at hs
    · simp at hs
    · simp at hs; subst hs
      exact noTable_giveBack _ h
  | newLink kind avail =>
    simp only [wstep] at hs
    simp at hs; subst hs
    intro ht x hx
    simp only [List.mem_append, List.mem_singleton] at hx
    rcases hx with hx | rfl
    · exact h ht x hx
    · rfl
  | feed i n | closeLink i g | endLink i | dropLink i | tableTake i | tableFree i =>
    simp only [wstep] at hs
    split at hs
    · simp at hs
    · rename_i hterm
      split at hs
      · split at hs
        · simp at hs
        · simp at hs; subst hs
          intro ht; simp [ht] at hterm
      · simp at hs
  | release i =>
    simp only [wstep] at hs
    split at hs
    · split at hs
      · simp at hs
      · simp at hs; subst hs
        exact noTable_giveBack (some i) h
    · simp at hs
  | listenerDropped =>
    simp only [wstep] at hs
    split at hs
    · simp at hs
    · rename_i hterm
      simp at hs; subst hs
      intro ht; simp [ht] at hterm
  | rx | fault e | stall =>
    simp only [wstep] at hs
    split at hs
    · simp at hs
    · simp at hs; subst hs; exact h
  | tick d =>
    simp only [wstep] at hs
    split at hs
    · simp at hs; subst hs; exact h
    · split at hs
      · simp at hs; subst hs; exact h
      · simp at hs
  | terminate =>
    simp only [wstep] at hs
    split at hs
    · simp at hs
    · split at hs
      · simp at hs
      · simp at hs; subst hs
        intro _ x hx
        obtain ⟨l, _, rfl⟩ := List.mem_map.mp hx
        unfold killLink
        split <;> rfl

theorem noTable_reachable {s : WState} (h : WReachable s) : NoTable s := by
  induction h with
  | init s hi =>
    intro ht
    obtain ⟨_, _, _, _, hterm, _⟩ := hi
    simp [hterm] at ht
  | step s l s' _ hs ih => exact noTable_step ih hs

end Remoc.Conn
