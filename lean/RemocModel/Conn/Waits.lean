import RemocModel.Conn.Model
/-
M_conn, second part: one endpoint's life cycle with every kind of API wait and the *link* through which
the wait learns that the dispatcher (`ChMux::run`, chmux/mux.rs) is gone.

A link is the piece of shared state a pending API future is parked on.  Links as coded (these ownership
facts are *read off the source*; that the runtime objects behave like this is what the correspondence
runs check, see lean/Driver/Fault.lean and harness/src/bin/faultup.rs):

| link          | parked future                                   | dispatcher-side owner (dropped when `run` returns)              |
|---------------|--------------------------------------------------|-----------------------------------------------------------------|
| `credits`     | `CreditUser::request` (credit.rs): oneshot in    | `Arc<Mutex<ChannelCreditsInner>>` held *only* by                 |
|               | `ChannelCreditsInner::notify`; user holds `Weak` | `PortState::Connected::sender_credit_provider` (mux.rs `ports`)  |
| `evq`         | `mpsc::Sender<PortEvt>::reserve/send` in         | `channel_rx` (taken out of `self` into a local of `run`)         |
|               | `Sender::send*`, `Receiver::close`,              |                                                                  |
|               | `ChannelCreditReturner::return_flush`,           |                                                                  |
|               | `Request::accept_from/reject`, the three         |                                                                  |
|               | drop-notification tasks (`exec::spawn` in        |                                                                  |
|               | `Sender::new`, `Receiver::new`, `Request::new`)  |                                                                  |
| `portQueue`   | `Receiver::recv_any/recv_chunk`: `rx.recv()` on  | `PortState::Connected::receiver_tx_data`                         |
|               | the unbounded per-port queue (receiver.rs)       |                                                                  |
| `hangup`      | `Sender::closed()` (`Closed::new`, sender.rs):   | `PortState::Connected::remote_receiver_closed_notify` (`Arc`,    |
|               | oneshot in the notifier list; user holds `Weak`  | the `Sender` holds a `Weak`)                                     |
| `connectResp` | response task of `Client::connect_ext` /         | `response_tx` inside `ConnectRequest` (queue `connect_rx`), then |
|               | `Sender::connect` (`response_rx.await`) and the  | inside `PortState::Connecting`, or inside a queued `SendPorts`   |
|               | `Connect` future joined on it                    | event                                                            |
| `sentNotify`  | `Connect::sent` (`sent_rx.recv()`)               | `sent_tx` inside the `ConnectRequest`                            |
| `listenQ`     | `Listener::accept/inspect` on `wait_rx`,         | `ChMux::listen_tx`                                               |
|               | `no_wait_rx` (listener.rs)                       |                                                                  |
| `acceptResp`  | `Request::accept_from`: `port_rx.await`          | `port_tx` inside the `PortEvt::Accepted` travelling through `evq`|
| `alloc`       | `PortAllocator::allocate` (port_allocator.rs):   | **nobody in particular**: `PortAllocatorInner` is shared by      |
|               | oneshot in `notify_tx`, fired when any           | `Client`, `Listener`, every `Sender`/`Receiver` and the          |
|               | `PortNumber` is dropped                          | dispatcher; the dispatcher only *holds port numbers* (table keys)|
| `sem`         | `ConnectRequestCrediter::request` (client.rs)    | the `Client`; permits are held by the response tasks             |

Polling rules (what the future does when it is polled), `pollLink`:
* `credits`, `evq` are *error first*: a dead link fails even if credits / queue slots are left
  (`Weak::upgrade` fails; a closed tokio semaphore refuses `reserve`);
* `portQueue`, `listenQ`, `connectResp`, `acceptResp` are *value first*: what was queued / answered
  before the dispatcher went away is still handed out, then the clean end marker (`Finished`,
  `ClientDropped`) if one was queued, then the error;
* `hangup`, `sentNotify` have no error channel: they resolve;
* `alloc`, `sem` never die; they are served when units are available.

Wake-ups are explicit: a parked wait has a `woken` flag, set when somebody fires or drops its oneshot /
changes its queue; only a woken wait is polled again (`Label.wake`).  A wait that is not woken is never
polled, whatever happened to its link: "hangs nothing" is therefore a theorem about the model and not a
definition.

The clock: `tick` lets virtual time pass, but not beyond the deadline of `recv_task`'s timer and not
at all while the run loop has been shown a fault and has not returned yet (timers and ready futures are
served before the paused clock advances); `terminate` is the one atomic label "`run` returns `Err`,
`self` and the locals `channel_rx`, `connect_rx`, `terminate_rx` are dropped".

No Mathlib imports.
-/
namespace Remoc.Conn

inductive LinkKind where
  | credits | evq | portQueue | hangup | connectResp | sentNotify | listenQ | acceptResp | alloc | sem
deriving Repr, DecidableEq

/-- Links that do not belong to the dispatcher. -/
def LinkKind.userOwned : LinkKind → Bool
  | .alloc | .sem => true
  | _ => false

/-- Error classes of the chmux API (sender.rs `SendError`, receiver.rs `RecvError`/`RecvChunkError`,
client.rs `ConnectError`, listener.rs `ListenerError`). -/
inductive ErrClass where
  | sendChMux                      -- SendError::ChMux
  | sendClosed (graceful : Bool)   -- SendError::Closed { gracefully }
  | recvChMux                      -- RecvError::ChMux / RecvChunkError::ChMux
  | connectChMux                   -- ConnectError::ChMux
  | connectRejected                -- ConnectError::Rejected (`listener_dropped` was set, client.rs response task)
  | listenerMux                    -- ListenerError::MultiplexerError
deriving Repr, DecidableEq

/-- Outcome of one wait. -/
inductive WaitRes where
  | ok            -- credits / slot / item / response / port number / permit obtained
  | endOfStream   -- `Finished` resp. `ClientDropped` marker taken from the queue
  | unit          -- `closed()` / `sent()` resolved (no error channel)
  | err (c : ErrClass)
deriving Repr, DecidableEq

structure Link where
  kind : LinkKind
  /-- the dispatcher-side owner exists -/
  alive : Bool := true
  /-- credits in the pool / free queue slots / queued items / answer present / free ports / permits -/
  avail : Nat := 0
  /-- `credits`: `CreditProvider::close(gracefully)`; `hangup`, `sentNotify`: fired -/
  closed : Option Bool := none
  /-- `portQueue`: `Finished` queued; `listenQ`: `ClientDropped` queued -/
  ended : Bool := false
  /-- `connectResp`: the `remote_listener_dropped` flag was set when the answer is looked at -/
  ld : Bool := false
  /-- `alloc`: port numbers held by the dispatcher (keys of `ports`, queued `ConnectRequest`s / `Accepted` events) -/
  tableHeld : Nat := 0
deriving Repr, DecidableEq

/-- One poll of a future parked on `l` that needs `need` units.  `none`: stays pending. -/
def pollLink (l : Link) (need : Nat) : Option (WaitRes × Link) :=
  match l.kind with
  | .credits =>
    -- CreditUser::request: upgrade, closed?, credits >= min_req
    if !l.alive then some (.err .sendChMux, l)
    else match l.closed with
      | some g => some (.err (.sendClosed g), l)
      | none => if need ≤ l.avail then some (.ok, { l with avail := l.avail - need }) else none
  | .evq =>
    if !l.alive then some (.err .sendChMux, l)
    else if 1 ≤ l.avail then some (.ok, { l with avail := l.avail - 1 }) else none
  | .portQueue =>
    if 1 ≤ l.avail then some (.ok, { l with avail := l.avail - 1 })
    else if l.ended then some (.endOfStream, l)
    else if !l.alive then some (.err .recvChMux, l) else none
  | .listenQ =>
    if 1 ≤ l.avail then some (.ok, { l with avail := l.avail - 1 })
    else if l.ended then some (.endOfStream, l)
    else if !l.alive then some (.err .listenerMux, l) else none
  | .connectResp =>
    if 1 ≤ l.avail then some (.ok, { l with avail := l.avail - 1 })
    else if !l.alive then some (.err (if l.ld then .connectRejected else .connectChMux), l) else none
  | .acceptResp =>
    if 1 ≤ l.avail then some (.ok, { l with avail := l.avail - 1 })
    else if !l.alive then some (.err .listenerMux, l) else none
  | .hangup | .sentNotify =>
    if !l.alive || l.closed.isSome then some (.unit, l) else none
  | .alloc | .sem =>
    if need ≤ l.avail then some (.ok, { l with avail := l.avail - need }) else none

/-- **The classification table**: what a wait on a link of this kind may return once the dispatcher
has terminated. -/
def okAfterTerm : LinkKind → WaitRes → Bool
  | .credits, r | .evq, r => r == .err .sendChMux
  | .portQueue, r => r == .ok || r == .endOfStream || r == .err .recvChMux
  | .listenQ, r => r == .ok || r == .endOfStream || r == .err .listenerMux
  | .connectResp, r => r == .ok || r == .err .connectChMux || r == .err .connectRejected
  | .acceptResp, r => r == .ok || r == .err .listenerMux
  | .hangup, r | .sentNotify, r => r == .unit
  | .alloc, r | .sem, r => r == .ok

/-- A parked API future. -/
structure Wait where
  id : Nat
  link : Nat
  need : Nat
  woken : Bool
  /-- a unit of a user-owned link that the waiting future owns and gives back when it ends: the
  semaphore permit of a connect response task, the port number `Listener::accept` took before
  `inspect` -/
  holds : Option Nat
deriving Repr, DecidableEq

structure Ret where
  id : Nat
  kind : LinkKind
  res : WaitRes
  /-- returned when the dispatcher had already terminated -/
  afterTerm : Bool
  /-- started when the dispatcher had already terminated -/
  startedAfterTerm : Bool
deriving Repr, DecidableEq

structure WState where
  links : List Link := []
  pending : List Wait := []
  returned : List Ret := []
  /-- what the run loop has been shown so far -/
  evs : List Ev := []
  /-- a transport fault the run loop has been shown and not yet acted upon -/
  faulted : Option Ev := none
  /-- result of `run` -/
  term : Option Res := none
  /-- local `connection_timeout` -/
  timeout : Nat := 1000
  now : Nat := 0
  /-- instant of the last received frame (timer of `recv_task` re-armed) -/
  lastRx : Nat := 0
  /-- the inbound direction went silent at this instant -/
  silentSince : Option Nat := none
deriving Repr

inductive Label where
  /-- first poll of an API future that waits for `need` units of link `i` -/
  | start (k i need : Nat) (holds : Option Nat)
  /-- the `idx`-th parked future was woken and is polled again -/
  | wake (idx : Nat)
  /-- the `idx`-th parked future is dropped -/
  | cancel (idx : Nat)
  /-- dispatcher: a new port / request (`create_port`, `ConnectReq`, `Accepted` …) -/
  | newLink (kind : LinkKind) (avail : Nat)
  /-- dispatcher: `provide` credits, forward an item, free a queue slot, answer a request -/
  | feed (i n : Nat)
  /-- dispatcher: `ReceiveClose`/`ReceiveFinish` handled (`CreditProvider::close`, hang-up notifiers fired) -/
  | closeLink (i : Nat) (graceful : Bool)
  /-- dispatcher: `SendFinish` / `ClientFinish` handled (end marker queued) -/
  | endLink (i : Nat)
  /-- dispatcher: owner dropped before termination (`maybe_free_port`, rejected request) -/
  | dropLink (i : Nat)
  /-- dispatcher takes a port number into / releases one from its table -/
  | tableTake (i : Nat)
  | tableFree (i : Nat)
  /-- a user drops a port number / a permit is released -/
  | release (i : Nat)
  /-- `ListenerFinish` received: `remote_listener_dropped` set -/
  | listenerDropped
  /-- a frame arrives -/
  | rx
  | tick (d : Nat)
  /-- the transport shows an error (sink error, stream error, end of stream, protocol error, reset) -/
  | fault (e : Ev)
  /-- the inbound direction goes silent -/
  | stall
  /-- `run` returns the error and drops everything it owns -/
  | terminate
deriving Repr, DecidableEq

def wakeOn (i : Nat) (ps : List Wait) : List Wait :=
  ps.map (fun w => if w.link = i then { w with woken := true } else w)

def wakeAll (ps : List Wait) : List Wait := ps.map (fun w => { w with woken := true })

/-- give one unit back to a user-owned link and notify its waiters (`PortNumber::drop`, permit drop) -/
def giveBack (s : WState) : Option Nat → WState
  | none => s
  | some h =>
    match s.links[h]? with
    | some l => { s with links := s.links.set h { l with avail := l.avail + 1 }, pending := wakeOn h s.pending }
    | none => s

/-- what makes the run loop return, if anything -/
def cause (s : WState) : Option Ev :=
  match s.faulted with
  | some e => some e
  | none => if timedOut s.timeout s.lastRx [] s.now then some .timeout else none

def killLink (l : Link) : Link :=
  if l.kind.userOwned then { l with avail := l.avail + l.tableHeld, tableHeld := 0 }
  else { l with alive := false, tableHeld := 0 }

def wstep (s : WState) : Label → Option WState
  | .start k i need holds =>
    match s.links[i]? with
    | none => none
    | some l =>
      match pollLink l need with
      | some (r, l') =>
        some (giveBack { s with links := s.links.set i l',
                                returned := s.returned ++ [⟨k, l.kind, r, s.term.isSome, s.term.isSome⟩] } holds)
      | none => some { s with pending := s.pending ++ [⟨k, i, need, false, holds⟩] }
  | .wake idx =>
    match s.pending[idx]? with
    | none => none
    | some w =>
      if !w.woken then none else
      match s.links[w.link]? with
      | none => none
      | some l =>
        match pollLink l w.need with
        | some (r, l') =>
          some (giveBack { s with links := s.links.set w.link l', pending := s.pending.eraseIdx idx,
                                  returned := s.returned ++ [⟨w.id, l.kind, r, s.term.isSome, false⟩] } w.holds)
        | none => some { s with pending := s.pending.set idx { w with woken := false } }
  | .cancel idx =>
    match s.pending[idx]? with
    | none => none
    | some w => some (giveBack { s with pending := s.pending.eraseIdx idx } w.holds)
  | .newLink kind avail =>
    -- after termination a request put into a closed queue is dropped at once: the link is born dead
    some { s with links := s.links ++ [{ kind := kind, avail := avail,
                                          alive := kind.userOwned || s.term.isNone }] }
  | .feed i n =>
    if s.term.isSome then none else
    match s.links[i]? with
    | some l => if l.kind.userOwned || !l.alive then none else
      some { s with links := s.links.set i { l with avail := l.avail + n }, pending := wakeOn i s.pending,
                    evs := s.evs ++ [.work] }
    | none => none
  | .closeLink i g =>
    if s.term.isSome then none else
    match s.links[i]? with
    | some l => if l.kind.userOwned || !l.alive then none else
      some { s with links := s.links.set i { l with closed := some g }, pending := wakeOn i s.pending,
                    evs := s.evs ++ [.work] }
    | none => none
  | .endLink i =>
    if s.term.isSome then none else
    match s.links[i]? with
    | some l => if l.kind.userOwned || !l.alive then none else
      some { s with links := s.links.set i { l with ended := true }, pending := wakeOn i s.pending,
                    evs := s.evs ++ [.work] }
    | none => none
  | .dropLink i =>
    if s.term.isSome then none else
    match s.links[i]? with
    | some l => if l.kind.userOwned then none else
      some { s with links := s.links.set i { l with alive := false }, pending := wakeOn i s.pending,
                    evs := s.evs ++ [.work] }
    | none => none
  | .tableTake i =>
    if s.term.isSome then none else
    match s.links[i]? with
    | some l => if !l.kind.userOwned then none else
      some { s with links := s.links.set i { l with tableHeld := l.tableHeld + 1 } }
    | none => none
  | .tableFree i =>
    if s.term.isSome then none else
    match s.links[i]? with
    | some l => if !l.kind.userOwned || l.tableHeld = 0 then none else
      some { s with links := s.links.set i { l with tableHeld := l.tableHeld - 1, avail := l.avail + 1 },
                    pending := wakeOn i s.pending }
    | none => none
  | .release i =>
    match s.links[i]? with
    | some l => if !l.kind.userOwned then none else some (giveBack s (some i))
    | none => none
  | .listenerDropped =>
    if s.term.isSome then none else
    some { s with links := s.links.map (fun l => { l with ld := true }), evs := s.evs ++ [.work] }
  | .rx =>
    if s.term.isSome || s.faulted.isSome || s.silentSince.isSome then none else
    some { s with lastRx := s.now, evs := s.evs ++ [.work] }
  | .tick d =>
    if s.term.isSome then some { s with now := s.now + d }
    else if s.faulted.isNone && s.now + d ≤ s.lastRx + s.timeout then some { s with now := s.now + d }
    else none
  | .fault e =>
    if s.term.isSome || s.faulted.isSome || !e.isFault || e == .timeout then none else
    some { s with faulted := some e }
  | .stall =>
    if s.term.isSome || s.silentSince.isSome then none else some { s with silentSince := some s.now }
  | .terminate =>
    if s.term.isSome then none else
    match cause s with
    | none => none
    | some e =>
      some { s with term := some (runLoop (s.evs ++ [e])), links := s.links.map killLink,
                    pending := wakeAll s.pending }

def wrun (s : WState) : List Label → Option WState
  | [] => some s
  | l :: ls => match wstep s l with
    | some s' => wrun s' ls
    | none => none

/-- initial states: no waits, nothing returned, clock at the last arrival -/
def WInit (s : WState) : Prop :=
  s.pending = [] ∧ s.returned = [] ∧ s.evs = [] ∧ s.faulted = none ∧ s.term = none ∧ s.silentSince = none ∧
  s.lastRx = s.now ∧ 0 < s.timeout

inductive WReachable : WState → Prop where
  | init (s) : WInit s → WReachable s
  | step (s l s') : WReachable s → wstep s l = some s' → WReachable s'

/-- internal labels: what the runtime does on its own -/
def Label.internal : Label → Bool
  | .wake _ | .terminate => true
  | _ => false

def WQuiescent (s : WState) : Prop := ∀ l, l.internal = true → wstep s l = none

/-! ## API operations of chmux as sequences of waits (used by the driver as the expected-class table) -/

/-- The chmux API calls the harness issues. -/
inductive ApiOp where
  | send | chunkSend | trySend | portConnect | senderClosed
  | recv | recvChunk | recvClose
  | clientConnect | connectResponse | connectSent
  | accept | inspect | reqAccept | reqReject | allocate
deriving Repr, DecidableEq

/-- links an operation waits on, in the order of the code; `true`: the error of this wait is ignored
(`let _ = …`) and the operation goes on -/
def ApiOp.waits : ApiOp → List (LinkKind × Bool)
  | .send | .chunkSend | .portConnect => [(.credits, false), (.evq, false)]
  | .trySend => [(.credits, false), (.evq, false)]
  | .senderClosed => [(.hangup, false)]
  | .recv | .recvChunk => [(.evq, true), (.portQueue, false)]     -- return_flush, then next_msg
  | .recvClose => [(.evq, true)]
  | .clientConnect => [(.alloc, false), (.sem, false), (.connectResp, false)]
  | .connectResponse => [(.connectResp, false)]
  | .connectSent => [(.sentNotify, false)]
  | .accept => [(.alloc, false), (.listenQ, false), (.evq, true), (.acceptResp, false)]
  | .inspect => [(.listenQ, false)]
  | .reqAccept => [(.alloc, false), (.evq, true), (.acceptResp, false)]
  | .reqReject => [(.evq, true)]
  | .allocate => [(.alloc, false)]

/-- a dead link of this kind with nothing queued; user-owned links with one unit free -/
def deadLink (k : LinkKind) (ld : Bool) : Link :=
  { kind := k, alive := k.userOwned, avail := if k.userOwned then 1 else 0, ld := ld }

/-- Outcome of an operation started after the dispatcher has terminated, nothing being queued for it:
the first wait that fails decides; waits whose error the code ignores are skipped. -/
def outcomeAfterTerm (ld : Bool) : List (LinkKind × Bool) → WaitRes
  | [] => .unit
  | (k, ignore) :: rest =>
    match pollLink (deadLink k ld) 1 with
    | some (.err c, _) => if ignore then outcomeAfterTerm ld rest else .err c
    | some (r, _) => if rest.isEmpty then r else outcomeAfterTerm ld rest
    | none => .unit

def ApiOp.afterTerm (op : ApiOp) (ld : Bool := false) : WaitRes := outcomeAfterTerm ld op.waits

end Remoc.Conn
