import RemocModel.Rtc.Lin
import RemocModel.Rtc.MutOrder
import RemocModel.Rtc.Example
set_option linter.unusedSimpArgs false
set_option linter.unusedVariables false

/-!
# C12 — remote calls run at most once, answer their own caller, mutate atomically

Theorems about M_rtc (`RemocModel/Rtc/Model.lean`): for **every** label list (all interleavings
of concurrent calls of any number of local and transported clients, every mix of `&self`,
`&mut self` and `self` methods, cancellation at every point, connection loss, over-size and
undecodable requests and replies), for all five server flavours and both spawn modes (`cfg` is
universally quantified) and for an arbitrary deterministic sequential object `o` whose methods
are lists of atomic segments.

* `reply_to_own_caller` — a value delivered to call `c` was produced by the execution started
  from request `c`, with the arguments of `c` (fresh reply channel per request:
  `reply_channel_fresh`), and that execution finished before the value was delivered.
* `at_most_once`, `value_exactly_once`, `error_at_most_once` — every request is dispatched at
  most once, each of its segments runs at most once, at most one execution of it ends; a value
  outcome means exactly one complete execution with the arguments passed.
* `mut_exclusive` — while a `&mut self` / `self` method executes, no other method of the same
  target executes.
* `linearizable` — the executions taken at their end events form a sequential execution of `o`
  (every finished one returning exactly what the sequential object returns in the state it is
  applied to, cancelled ones contributing the segments they ran), every completed call is in it
  with its own arguments and result, the witness respects real time
  (`lin_respects_real_time`: invocation < linearization point < response) and its `&mut self` /
  `self` entries are ordered as their requests were dequeued (`mut_order_as_dequeued`).

Partial, spelled out:
* the served object's methods are *modelled* as lists of atomic segments of a deterministic
  object (DESIGN.md, C12 "Partial"); `&self` methods are assumed not to modify the object
  (`Obj.ReadOnly`, interior mutability is outside the model);
* remote function calls (`rfn`) have the same shape (request queue, fresh `rch::oneshot` reply
  channel per request, provider loop: `RFn` = shared/spawn, `RFnMut` = inline (`inline_serial`),
  `RFnOnce` = by-value, all without the `closed()` race); they are covered as instances of the
  model, the harness exercises the trait machinery only.
-/

namespace Remoc.Rtc

variable {o : Obj}

/-! ### own reply -/

/-- **Fresh reply channel per request**: two issued calls never share a reply channel. -/
theorem reply_channel_fresh (cfg : Cfg) (s : State o) (h : Reachable cfg s) (c c' : Nat)
    (hc : c < s.n) (hc' : c' < s.n) (he : (s.calls c).rch = (s.calls c').rch) : c = c' := by
  have hw := (inv_of_reachable cfg s h).wf
  rw [hw.rch c hc, hw.rch c' hc'] at he; exact he

/-- **A call is answered by its own execution.**  If call `c` returned the value `r`, then the
execution that was started from request `c`, with the method and arguments of `c`, finished with
`r`, and `r` was delivered to `c` as a response. -/
theorem reply_to_own_caller (cfg : Cfg) (s : State o) (h : Reachable cfg s) (c r : Nat)
    (hv : (s.calls c).cl = .value r) :
    Ev.fin c (s.calls c).m (s.calls c).a r ∈ s.tr ∧ Ev.resp c r ∈ s.tr :=
  (inv_of_reachable cfg s h).rv.val c r hv

/-- … and the value was produced before it was delivered: every response event of `c` is
preceded by a finish event of `c` with the same value. -/
theorem value_produced_before_delivery (cfg : Cfg) (s : State o) (h : Reachable cfg s)
    (p q : List Ev) (c r : Nat) (htr : s.tr = p ++ Ev.resp c r :: q) : ∃ m a, Ev.fin c m a r ∈ p :=
  (inv_of_reachable cfg s h).rv.ord.pre p q _ htr

/-- whatever sits in a reply channel was put there by the execution of the call owning it -/
theorem channel_value_provenance (cfg : Cfg) (s : State o) (h : Reachable cfg s) (ch r : Nat)
    (hv : (s.chans ch).val = some r) :
    ch < s.n ∧ (s.calls ch).rch = ch ∧ Ev.fin ch (s.calls ch).m (s.calls ch).a r ∈ s.tr := by
  have hi := inv_of_reachable cfg s h
  have := hi.rv.chan ch r hv
  exact ⟨this.1, hi.wf.rch ch this.1, this.2⟩

/-! ### at most once -/

/-- **Every request is executed at most once**: dispatched at most once, each method segment
run at most once, at most one execution of it ends (finished or cancelled). -/
theorem at_most_once (cfg : Cfg) (s : State o) (h : Reachable cfg s) (c : Nat) :
    deqCount c s.tr ≤ 1 ∧ endCount c s.tr ≤ 1 ∧ ∀ k, segCount c k s.tr ≤ 1 :=
  (inv_of_reachable cfg s h).cn.post c

/-- **A value outcome means exactly one complete execution with the arguments passed**: the
finish event carries the method and argument of call `c`, exactly one execution of `c` ended,
and every segment `0 … nseg` of the method ran exactly once. -/
theorem value_exactly_once (cfg : Cfg) (s : State o) (h : Reachable cfg s) (c r : Nat)
    (hv : (s.calls c).cl = .value r) :
    Ev.fin c (s.calls c).m (s.calls c).a r ∈ s.tr ∧ endCount c s.tr = 1
      ∧ ∀ k, k ≤ o.nseg (s.calls c).m (s.calls c).a → segCount c k s.tr = 1 := by
  have hi := inv_of_reachable cfg s h
  have hf := (hi.rv.val c r hv).1
  have := hi.cn.fin c _ _ r hf
  exact ⟨hf, this.2.2.2.1, this.2.2.2.2.1⟩

/-- **An error outcome means at most one execution.** -/
theorem error_at_most_once (cfg : Cfg) (s : State o) (h : Reachable cfg s) (c : Nat)
    (he : (s.calls c).cl = .error) : endCount c s.tr ≤ 1 ∧ ∀ k, segCount c k s.tr ≤ 1 :=
  (at_most_once cfg s h c).2

/-- a request that is still on its way has not been executed at all -/
theorem not_executed_before_dispatch (cfg : Cfg) (s : State o) (h : Reachable cfg s) (c : Nat)
    (hs : (s.calls c).stage = .sending ∨ (s.calls c).stage = .queued) :
    deqCount c s.tr = 0 ∧ endCount c s.tr = 0 ∧ ∀ k, segCount c k s.tr = 0 :=
  (inv_of_reachable cfg s h).cn.pre c hs

/-! ### exclusivity -/

/-- **`&mut self` / `self` methods execute exclusively**: while such a method of request `c`
executes, no other request of the same target executes — for all flavours and spawn modes. -/
theorem mut_exclusive (cfg : Cfg) (s : State o) (h : Reachable cfg s) (c c' : Nat)
    (hc : (s.calls c).stage = .executing) (hk : o.kind (s.calls c).m ≠ .ref)
    (hc' : (s.calls c').stage = .executing) : c' = c :=
  (inv_of_reachable cfg s h).st.excl c c' hc hc' hk

/-- mutable executions are never spawned, and whoever executes holds the matching lock -/
theorem mut_runs_inline (cfg : Cfg) (s : State o) (h : Reachable cfg s) (c : Nat)
    (hc : (s.calls c).stage = .executing) (hk : o.kind (s.calls c).m ≠ .ref) :
    s.loop = .running c ∧ s.spawned = [] := by
  have hs := (inv_of_reachable cfg s h).st
  have hrun : s.loop = .running c := by
    rcases (hs.exec c).1 hc with h1 | h1
    · exact h1
    · exact absurd (hs.spk c h1).1 hk
  refine ⟨hrun, ?_⟩
  cases hsp : s.spawned with
  | nil => rfl
  | cons c' t =>
    exfalso
    have hm : c' ∈ s.spawned := by rw [hsp]; simp
    have he' := (hs.exec c').2 (Or.inr hm)
    have := hs.excl c c' hc he' hk
    subst this
    exact hk (hs.spk c' hm).1

/-- **Without `spawn` executions are serial** (`Server`, `ServerRef`, `ServerRefMut`, the shared
flavours with `spawn = false`, and the provider loop of `RFnMut`, which has the same shape): at
most one request executes at any time, whatever the kinds of the methods. -/
theorem inline_serial (cfg : Cfg) (s : State o) (h : Reachable cfg s) (hns : spawns cfg .ref = false) (c c' : Nat)
    (hc : (s.calls c).stage = .executing) (hc' : (s.calls c').stage = .executing) : c' = c := by
  have hs := (inv_of_reachable cfg s h).st
  have hrun : ∀ x, (s.calls x).stage = .executing → s.loop = .running x := by
    intro x hx
    rcases (hs.exec x).1 hx with h1 | h1
    · exact h1
    · have := (hs.spk x h1).2
      rw [hns] at this; cases this
  have h1 := hrun c hc
  have h2 := hrun c' hc'
  rw [h1] at h2
  exact (Loop.running.inj h2).symm

/-! ### linearizability -/

theorem mem_linOf_of_fin (tr : List Ev) (c m a r : Nat) (h : Ev.fin c m a r ∈ tr) :
    (⟨c, m, a, o.nseg m a + 1, some r⟩ : LinEntry) ∈ linOf o tr := by
  induction tr with
  | nil => simp at h
  | cons e t ih =>
    rcases List.mem_cons.1 h with h1 | h1
    · subst h1; simp [linOf]
    · cases e <;> simp [linOf, ih h1]

theorem linOf_mem_event (tr : List Ev) (e : LinEntry) (h : e ∈ linOf o tr) : ∃ ev, ev ∈ tr ∧ evCall ev = e.c := by
  induction tr with
  | nil => simp [linOf] at h
  | cons x t ih =>
    have tail : e ∈ linOf o t → ∃ ev, ev ∈ x :: t ∧ evCall ev = e.c := by
      intro h'
      obtain ⟨ev, h1, h2⟩ := ih h'
      exact ⟨ev, List.mem_cons_of_mem _ h1, h2⟩
    cases x with
    | fin c m a r =>
      simp only [linOf, List.mem_cons] at h
      rcases h with h | h
      · subst h; exact ⟨_, List.mem_cons_self, rfl⟩
      · exact tail h
    | cancel c m a k =>
      simp only [linOf, List.mem_cons] at h
      rcases h with h | h
      · subst h; exact ⟨_, List.mem_cons_self, rfl⟩
      · exact tail h
    | _ => exact tail (by simpa [linOf] using h)

theorem linOf_count (tr : List Ev) (c : Nat) : ((linOf o tr).filter (fun e => e.c == c)).length = endCount c tr := by
  induction tr with
  | nil => rfl
  | cons x t ih =>
    cases x <;> simp [linOf, ih, isEnd, List.filter_cons] <;> split <;> simp_all

/-- **Linearizability.**  For every reachable state the sequence `linOf o s.tr` of executions,
taken in the order of their end events, is a sequential execution of the object from its initial
state: every finished execution ran the complete method and returned what the sequential object
returns in the state reached so far, a cancelled execution contributes the segments it ran.
Every call that returned a value is in that sequence exactly once, with its own method, argument
and result.  All events of a call lie between its invocation and its response (`Ordered`).  When
no execution is in progress the object is in the state the sequence produces. -/
theorem linearizable (hro : o.ReadOnly) (cfg : Cfg) (s : State o) (h : Reachable cfg s) :
    Legal o (linOf o s.tr) o.σ0
    ∧ (∀ c r, (s.calls c).cl = .value r →
        (⟨c, (s.calls c).m, (s.calls c).a, o.nseg (s.calls c).m (s.calls c).a + 1, some r⟩ : LinEntry) ∈ linOf o s.tr
        ∧ ((linOf o s.tr).filter (fun e => e.c == c)).length = 1)
    ∧ Ordered s.tr
    ∧ ((∀ c, (s.calls c).stage ≠ .executing) → s.σ = specState o (linOf o s.tr) o.σ0) := by
  obtain ⟨hi, hl⟩ := linv_of_reachable hro cfg s h
  refine ⟨hl.legal, ?_, hi.rv.ord, ?_⟩
  · intro c r hv
    have hf := (hi.rv.val c r hv).1
    refine ⟨mem_linOf_of_fin _ _ _ _ _ hf, ?_⟩
    rw [linOf_count]
    exact (hi.cn.fin c _ _ r hf).2.2.2.1
  · intro hno
    apply hl.idle
    intro c hc
    exact absurd hc (hno c)

/-- **The sequential witness respects real time.**  If call `c1` has responded before call `c2`
is invoked, then `c1`'s execution precedes every execution of `c2` in the witness: the witness
splits at the invocation of `c2` into a part that contains the finished entry of `c1` (with the
value `c1` returned) and no entry of `c2`, and the rest. -/
theorem lin_respects_real_time (cfg : Cfg) (s : State o) (h : Reachable cfg s)
    (p q : List Ev) (c1 r1 c2 cl2 m2 a2 : Nat)
    (htr : s.tr = p ++ Ev.inv c2 cl2 m2 a2 :: q) (hresp : Ev.resp c1 r1 ∈ p) :
    linOf o s.tr = linOf o p ++ linOf o q
    ∧ (∃ e, e ∈ linOf o p ∧ e.c = c1 ∧ e.res = some r1)
    ∧ (∀ e, e ∈ linOf o p → e.c ≠ c2) := by
  have hord := (inv_of_reachable cfg s h).rv.ord
  refine ⟨?_, ?_, ?_⟩
  · rw [htr, linOf_append]; simp [linOf]
  · obtain ⟨p1, p2, hp⟩ := List.append_of_mem hresp
    have htr' : s.tr = p1 ++ Ev.resp c1 r1 :: (p2 ++ Ev.inv c2 cl2 m2 a2 :: q) := by
      rw [htr, hp]; simp
    obtain ⟨m, a, hf⟩ := hord.pre p1 _ _ htr'
    have hfp : Ev.fin c1 m a r1 ∈ p := by rw [hp]; exact List.mem_append_left _ hf
    exact ⟨_, mem_linOf_of_fin p c1 m a r1 hfp, rfl, rfl⟩
  · intro e he
    obtain ⟨ev, h1, h2⟩ := linOf_mem_event p e he
    have := hord.pre p q _ htr ev h1
    rw [h2] at this
    exact Nat.ne_of_lt this

/-- **`&mut` calls are ordered as dequeued.**  The ids of the `&mut self` / `self` entries of the
sequential witness, in witness order, form a subsequence of the ids in dequeue order — and no
request is dequeued twice, so the two orders agree on every pair of mutable calls. -/
theorem mut_order_as_dequeued (cfg : Cfg) (s : State o) (h : Reachable cfg s) :
    List.Sublist (mutLin o s.tr) (deqOrder s.tr) ∧ (deqOrder s.tr).Nodup := by
  constructor
  · exact List.Sublist.trans (List.sublist_append_left _ _) (minv_of_reachable cfg s h)
  · rw [List.nodup_iff_count]
    intro c
    rw [deqOrder_count]
    exact ((inv_of_reachable cfg s h).cn.post c).1

/-! ### non-vacuity: concrete runs that meet the hypotheses -/

/-- two concurrent clients (one local, one transported) on `ServerSharedMut::serve(true)`: both
calls return values, the history is the sequential one `get → 0`, `add 5 → 10` -/
example : ((run (cfgSM .pinned) (init ctr) run1).calls 0).cl = .value 0
    ∧ ((run (cfgSM .pinned) (init ctr) run1).calls 1).cl = .value 10
    ∧ ctrVal (run (cfgSM .pinned) (init ctr) run1) = 10
    ∧ linOf ctr (run (cfgSM .pinned) (init ctr) run1).tr = [⟨0, 0, 0, 2, some 0⟩, ⟨1, 1, 5, 2, some 10⟩]
    ∧ segCount 1 0 (run (cfgSM .pinned) (init ctr) run1).tr = 1
    ∧ segCount 1 1 (run (cfgSM .pinned) (init ctr) run1).tr = 1
    ∧ mutLin ctr (run (cfgSM .pinned) (init ctr) run1).tr = [1]
    ∧ deqOrder (run (cfgSM .pinned) (init ctr) run1).tr = [0, 1] := by
  decide

/-- a state in which a `&mut self` method executes (hypotheses of `mut_exclusive`): the spawned
reader has finished, the writer holds the lock and is between its two segments -/
example : ((run (cfgSM .pinned) (init ctr) (run1.take 13)).calls 1).stage = .executing
    ∧ ctr.kind ((run (cfgSM .pinned) (init ctr) (run1.take 13)).calls 1).m ≠ .ref
    ∧ (run (cfgSM .pinned) (init ctr) (run1.take 13)).writer = some 1
    ∧ ((run (cfgSM .pinned) (init ctr) (run1.take 13)).calls 0).stage = .done := by
  decide

/-- … and one in which the writer waits for the lock while the spawned reader executes -/
example : (run (cfgSM .pinned) (init ctr) (run1.take 8)).loop = .acquiring 1
    ∧ (run (cfgSM .pinned) (init ctr) (run1.take 8)).readers = [0]
    ∧ step (cfgSM .pinned) (run (cfgSM .pinned) (init ctr) (run1.take 8)) .acquire = none := by
  decide

example : Reachable (cfgSM .pinned) (run (cfgSM .pinned) (init ctr) run1) := ⟨run1, rfl⟩

end Remoc.Rtc
