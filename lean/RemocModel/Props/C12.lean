import RemocModel.Rtc.Lin
import RemocModel.Rtc.MutOrder
import RemocModel.Rtc.Example
import RemocModel.Rtc.RfnLive
import RemocModel.Rtc.RfnExample
set_option linter.unusedSimpArgs false
set_option linter.unusedVariables false

/-!
# C12 — remote calls run at most once, answer their own caller, mutate atomically

Theorems about M_rtc (`RemocModel/Rtc/Model.lean`): for **every** label list (all interleavings
of concurrent calls of any number of local and transported clients, every mix of `&self`,
`&mut self` and `self` methods, cancellation at every point, connection loss, over-size and
undecodable requests and replies), for all five server flavours and both spawn modes (`cfg` is
universally quantified) and for an arbitrary deterministic sequential object `o` whose methods
are lists of atomic segments.

* `reply_to_own_caller` — a value delivered to call `c` was produced by the execution started
  from request `c`, with the arguments of `c` (fresh reply channel per request:
  `reply_channel_fresh`), and that execution finished before the value was delivered.
* `at_most_once`, `value_exactly_once`, `error_at_most_once` — every request is dispatched at
  most once, each of its segments runs at most once, at most one execution of it ends; a value
  outcome means exactly one complete execution with the arguments passed.
* `mut_exclusive` — while a `&mut self` / `self` method executes, no other method of the same
  target executes.
* `linearizable` — the executions taken at their end events form a sequential execution of `o`
  (every finished one returning exactly what the sequential object returns in the state it is
  applied to, cancelled ones contributing the segments they ran), every completed call is in it
  with its own arguments and result, the witness respects real time
  (`lin_respects_real_time`: invocation < linearization point < response) and its `&mut self` /
  `self` entries are ordered as their requests were dequeued (`mut_order_as_dequeued`).

Partial, spelled out:
* the served object's methods are *modelled* as lists of atomic segments of a deterministic
  object (DESIGN.md, C12 "Partial"); `&self` methods are assumed not to modify the object
  (`Obj.ReadOnly`, interior mutability is outside the model);
* remote function calls (`rfn`) have a model of their own, M_rfn (`RemocModel/Rtc/Rfn.lean`:
  provider drop, the concurrency semaphore of `RFn`, the one-request provider of `RFnOnce` and the
  silently dropped result-send errors have no counterpart in M_rtc); the theorems `rfn_*` are at
  the end of this file, the harness `rfn` drives the real wrappers.
-/

namespace Remoc.Rtc

variable {o : Obj}

/-! ### own reply -/

/-- **Fresh reply channel per request**: two issued calls never share a reply channel. -/
theorem reply_channel_fresh (cfg : Cfg) (s : State o) (h : Reachable cfg s) (c c' : Nat)
    (hc : c < s.n) (hc' : c' < s.n) (he : (s.calls c).rch = (s.calls c').rch) : c = c' := by
  have hw := (inv_of_reachable cfg s h).wf
  rw [hw.rch c hc, hw.rch c' hc'] at he; exact he

/-- **A call is answered by its own execution.**  If call `c` returned the value `r`, then the
execution that was started from request `c`, with the method and arguments of `c`, finished with
`r`, and `r` was delivered to `c` as a response. -/
theorem reply_to_own_caller (cfg : Cfg) (s : State o) (h : Reachable cfg s) (c r : Nat)
    (hv : (s.calls c).cl = .value r) :
    Ev.fin c (s.calls c).m (s.calls c).a r ∈ s.tr ∧ Ev.resp c r ∈ s.tr :=
  (inv_of_reachable cfg s h).rv.val c r hv

/-- … and the value was produced before it was delivered: every response event of `c` is
preceded by a finish event of `c` with the same value. -/
theorem value_produced_before_delivery (cfg : Cfg) (s : State o) (h : Reachable cfg s)
    (p q : List Ev) (c r : Nat) (htr : s.tr = p ++ Ev.resp c r :: q) : ∃ m a, Ev.fin c m a r ∈ p :=
  (inv_of_reachable cfg s h).rv.ord.pre p q _ htr

/-- whatever sits in a reply channel was put there by the execution of the call owning it -/
theorem channel_value_provenance (cfg : Cfg) (s : State o) (h : Reachable cfg s) (ch r : Nat)
    (hv : (s.chans ch).val = some r) :
    ch < s.n ∧ (s.calls ch).rch = ch ∧ Ev.fin ch (s.calls ch).m (s.calls ch).a r ∈ s.tr := by
  have hi := inv_of_reachable cfg s h
  have := hi.rv.chan ch r hv
  exact ⟨this.1, hi.wf.rch ch this.1, this.2⟩

/-! ### at most once -/

/-- **Every request is executed at most once**: dispatched at most once, each method segment
run at most once, at most one execution of it ends (finished or cancelled). -/
theorem at_most_once (cfg : Cfg) (s : State o) (h : Reachable cfg s) (c : Nat) :
    deqCount c s.tr ≤ 1 ∧ endCount c s.tr ≤ 1 ∧ ∀ k, segCount c k s.tr ≤ 1 :=
  (inv_of_reachable cfg s h).cn.post c

/-- **A value outcome means exactly one complete execution with the arguments passed**: the
finish event carries the method and argument of call `c`, exactly one execution of `c` ended,
and every segment `0 … nseg` of the method ran exactly once. -/
theorem value_exactly_once (cfg : Cfg) (s : State o) (h : Reachable cfg s) (c r : Nat)
    (hv : (s.calls c).cl = .value r) :
    Ev.fin c (s.calls c).m (s.calls c).a r ∈ s.tr ∧ endCount c s.tr = 1
      ∧ ∀ k, k ≤ o.nseg (s.calls c).m (s.calls c).a → segCount c k s.tr = 1 := by
  have hi := inv_of_reachable cfg s h
  have hf := (hi.rv.val c r hv).1
  have := hi.cn.fin c _ _ r hf
  exact ⟨hf, this.2.2.2.1, this.2.2.2.2.1⟩

/-- **An error outcome means at most one execution.** -/
theorem error_at_most_once (cfg : Cfg) (s : State o) (h : Reachable cfg s) (c : Nat)
    (he : (s.calls c).cl = .error) : endCount c s.tr ≤ 1 ∧ ∀ k, segCount c k s.tr ≤ 1 :=
  (at_most_once cfg s h c).2

/-- a request that is still on its way has not been executed at all -/
theorem not_executed_before_dispatch (cfg : Cfg) (s : State o) (h : Reachable cfg s) (c : Nat)
    (hs : (s.calls c).stage = .sending ∨ (s.calls c).stage = .queued) :
    deqCount c s.tr = 0 ∧ endCount c s.tr = 0 ∧ ∀ k, segCount c k s.tr = 0 :=
  (inv_of_reachable cfg s h).cn.pre c hs

/-! ### exclusivity -/

/-- **`&mut self` / `self` methods execute exclusively**: while such a method of request `c`
executes, no other request of the same target executes — for all flavours and spawn modes. -/
theorem mut_exclusive (cfg : Cfg) (s : State o) (h : Reachable cfg s) (c c' : Nat)
    (hc : (s.calls c).stage = .executing) (hk : o.kind (s.calls c).m ≠ .ref)
    (hc' : (s.calls c').stage = .executing) : c' = c :=
  (inv_of_reachable cfg s h).st.excl c c' hc hc' hk

/-- mutable executions are never spawned, and whoever executes holds the matching lock -/
theorem mut_runs_inline (cfg : Cfg) (s : State o) (h : Reachable cfg s) (c : Nat)
    (hc : (s.calls c).stage = .executing) (hk : o.kind (s.calls c).m ≠ .ref) :
    s.loop = .running c ∧ s.spawned = [] := by
  have hs := (inv_of_reachable cfg s h).st
  have hrun : s.loop = .running c := by
    rcases (hs.exec c).1 hc with h1 | h1
    · exact h1
    · exact absurd (hs.spk c h1).1 hk
  refine ⟨hrun, ?_⟩
  cases hsp : s.spawned with
  | nil => rfl
  | cons c' t =>
    exfalso
    have hm : c' ∈ s.spawned := by rw [hsp]; simp
    have he' := (hs.exec c').2 (Or.inr hm)
    have := hs.excl c c' hc he' hk
    subst this
    exact hk (hs.spk c' hm).1

/-- **Without `spawn` executions are serial** (`Server`, `ServerRef`, `ServerRefMut`, the shared
flavours with `spawn = false`, and the provider loop of `RFnMut`, which has the same shape): at
most one request executes at any time, whatever the kinds of the methods. -/
theorem inline_serial (cfg : Cfg) (s : State o) (h : Reachable cfg s) (hns : spawns cfg .ref = false) (c c' : Nat)
    (hc : (s.calls c).stage = .executing) (hc' : (s.calls c').stage = .executing) : c' = c := by
  have hs := (inv_of_reachable cfg s h).st
  have hrun : ∀ x, (s.calls x).stage = .executing → s.loop = .running x := by
    intro x hx
    rcases (hs.exec x).1 hx with h1 | h1
    · exact h1
    · have := (hs.spk x h1).2
      rw [hns] at this; cases this
  have h1 := hrun c hc
  have h2 := hrun c' hc'
  rw [h1] at h2
  exact (Loop.running.inj h2).symm

/-! ### linearizability -/

theorem mem_linOf_of_fin (tr : List Ev) (c m a r : Nat) (h : Ev.fin c m a r ∈ tr) :
    (⟨c, m, a, o.nseg m a + 1, some r⟩ : LinEntry) ∈ linOf o tr := by
  induction tr with
  | nil => simp at h
  | cons e t ih =>
    rcases List.mem_cons.1 h with h1 | h1
    · subst h1; simp [linOf]
    · cases e <;> simp [linOf, ih h1]

theorem linOf_mem_event (tr : List Ev) (e : LinEntry) (h : e ∈ linOf o tr) : ∃ ev, ev ∈ tr ∧ evCall ev = e.c := by
  induction tr with
  | nil => simp [linOf] at h
  | cons x t ih =>
    have tail : e ∈ linOf o t → ∃ ev, ev ∈ x :: t ∧ evCall ev = e.c := by
      intro h'
      obtain ⟨ev, h1, h2⟩ := ih h'
      exact ⟨ev, List.mem_cons_of_mem _ h1, h2⟩
    cases x with
    | fin c m a r =>
      simp only [linOf, List.mem_cons] at h
      rcases h with h | h
      · subst h; exact ⟨_, List.mem_cons_self, rfl⟩
      · exact tail h
    | cancel c m a k =>
      simp only [linOf, List.mem_cons] at h
      rcases h with h | h
      · subst h; exact ⟨_, List.mem_cons_self, rfl⟩
      · exact tail h
    | _ => exact tail (by simpa [linOf] using h)

theorem linOf_count (tr : List Ev) (c : Nat) : ((linOf o tr).filter (fun e => e.c == c)).length = endCount c tr := by
  induction tr with
  | nil => rfl
  | cons x t ih =>
    cases x <;> simp [linOf, ih, isEnd, List.filter_cons] <;> split <;> simp_all

/-- **Linearizability.**  For every reachable state the sequence `linOf o s.tr` of executions,
taken in the order of their end events, is a sequential execution of the object from its initial
state: every finished execution ran the complete method and returned what the sequential object
returns in the state reached so far, a cancelled execution contributes the segments it ran.
Every call that returned a value is in that sequence exactly once, with its own method, argument
and result.  All events of a call lie between its invocation and its response (`Ordered`).  When
no execution is in progress the object is in the state the sequence produces. -/
theorem linearizable (hro : o.ReadOnly) (cfg : Cfg) (s : State o) (h : Reachable cfg s) :
    Legal o (linOf o s.tr) o.σ0
    ∧ (∀ c r, (s.calls c).cl = .value r →
        (⟨c, (s.calls c).m, (s.calls c).a, o.nseg (s.calls c).m (s.calls c).a + 1, some r⟩ : LinEntry) ∈ linOf o s.tr
        ∧ ((linOf o s.tr).filter (fun e => e.c == c)).length = 1)
    ∧ Ordered s.tr
    ∧ ((∀ c, (s.calls c).stage ≠ .executing) → s.σ = specState o (linOf o s.tr) o.σ0) := by
  obtain ⟨hi, hl⟩ := linv_of_reachable hro cfg s h
  refine ⟨hl.legal, ?_, hi.rv.ord, ?_⟩
  · intro c r hv
    have hf := (hi.rv.val c r hv).1
    refine ⟨mem_linOf_of_fin _ _ _ _ _ hf, ?_⟩
    rw [linOf_count]
    exact (hi.cn.fin c _ _ r hf).2.2.2.1
  · intro hno
    apply hl.idle
    intro c hc
    exact absurd hc (hno c)

/-- **The sequential witness respects real time.**  If call `c1` has responded before call `c2`
is invoked, then `c1`'s execution precedes every execution of `c2` in the witness: the witness
splits at the invocation of `c2` into a part that contains the finished entry of `c1` (with the
value `c1` returned) and no entry of `c2`, and the rest. -/
theorem lin_respects_real_time (cfg : Cfg) (s : State o) (h : Reachable cfg s)
    (p q : List Ev) (c1 r1 c2 cl2 m2 a2 : Nat)
    (htr : s.tr = p ++ Ev.inv c2 cl2 m2 a2 :: q) (hresp : Ev.resp c1 r1 ∈ p) :
    linOf o s.tr = linOf o p ++ linOf o q
    ∧ (∃ e, e ∈ linOf o p ∧ e.c = c1 ∧ e.res = some r1)
    ∧ (∀ e, e ∈ linOf o p → e.c ≠ c2) := by
  have hord := (inv_of_reachable cfg s h).rv.ord
  refine ⟨?_, ?_, ?_⟩
  · rw [htr, linOf_append]; simp [linOf]
  · obtain ⟨p1, p2, hp⟩ := List.append_of_mem hresp
    have htr' : s.tr = p1 ++ Ev.resp c1 r1 :: (p2 ++ Ev.inv c2 cl2 m2 a2 :: q) := by
      rw [htr, hp]; simp
    obtain ⟨m, a, hf⟩ := hord.pre p1 _ _ htr'
    have hfp : Ev.fin c1 m a r1 ∈ p := by rw [hp]; exact List.mem_append_left _ hf
    exact ⟨_, mem_linOf_of_fin p c1 m a r1 hfp, rfl, rfl⟩
  · intro e he
    obtain ⟨ev, h1, h2⟩ := linOf_mem_event p e he
    have := hord.pre p q _ htr ev h1
    rw [h2] at this
    exact Nat.ne_of_lt this

/-- **`&mut` calls are ordered as dequeued.**  The ids of the `&mut self` / `self` entries of the
sequential witness, in witness order, form a subsequence of the ids in dequeue order — and no
request is dequeued twice, so the two orders agree on every pair of mutable calls. -/
theorem mut_order_as_dequeued (cfg : Cfg) (s : State o) (h : Reachable cfg s) :
    List.Sublist (mutLin o s.tr) (deqOrder s.tr) ∧ (deqOrder s.tr).Nodup := by
  constructor
  · exact List.Sublist.trans (List.sublist_append_left _ _) (minv_of_reachable cfg s h)
  · rw [List.nodup_iff_count]
    intro c
    rw [deqOrder_count]
    exact ((inv_of_reachable cfg s h).cn.post c).1

/-! ### non-vacuity: concrete runs that meet the hypotheses -/

/-- two concurrent clients (one local, one transported) on `ServerSharedMut::serve(true)`: both
calls return values, the history is the sequential one `get → 0`, `add 5 → 10` -/
example : ((run (cfgSM .pinned) (init ctr) run1).calls 0).cl = .value 0
    ∧ ((run (cfgSM .pinned) (init ctr) run1).calls 1).cl = .value 10
    ∧ ctrVal (run (cfgSM .pinned) (init ctr) run1) = 10
    ∧ linOf ctr (run (cfgSM .pinned) (init ctr) run1).tr = [⟨0, 0, 0, 2, some 0⟩, ⟨1, 1, 5, 2, some 10⟩]
    ∧ segCount 1 0 (run (cfgSM .pinned) (init ctr) run1).tr = 1
    ∧ segCount 1 1 (run (cfgSM .pinned) (init ctr) run1).tr = 1
    ∧ mutLin ctr (run (cfgSM .pinned) (init ctr) run1).tr = [1]
    ∧ deqOrder (run (cfgSM .pinned) (init ctr) run1).tr = [0, 1] := by
  decide

/-- a state in which a `&mut self` method executes (hypotheses of `mut_exclusive`): the spawned
reader has finished, the writer holds the lock and is between its two segments -/
example : ((run (cfgSM .pinned) (init ctr) (run1.take 13)).calls 1).stage = .executing
    ∧ ctr.kind ((run (cfgSM .pinned) (init ctr) (run1.take 13)).calls 1).m ≠ .ref
    ∧ (run (cfgSM .pinned) (init ctr) (run1.take 13)).writer = some 1
    ∧ ((run (cfgSM .pinned) (init ctr) (run1.take 13)).calls 0).stage = .done := by
  decide

/-- … and one in which the writer waits for the lock while the spawned reader executes -/
example : (run (cfgSM .pinned) (init ctr) (run1.take 8)).loop = .acquiring 1
    ∧ (run (cfgSM .pinned) (init ctr) (run1.take 8)).readers = [0]
    ∧ step (cfgSM .pinned) (run (cfgSM .pinned) (init ctr) (run1.take 8)) .acquire = none := by
  decide

example : Reachable (cfgSM .pinned) (run (cfgSM .pinned) (init ctr) run1) := ⟨run1, rfl⟩

end Remoc.Rtc

/-!
# C12 for remote functions (`remoc::rfn::{RFn, RFnMut, RFnOnce}`)

Theorems about M_rfn (`RemocModel/Rtc/Rfn.lean`) for **every** label list (all interleavings of
concurrent calls, caller drop at every stage, provider drop, connection loss, requests / results
that cannot be transmitted), all three flavours, both cancellation variants, local and transported
wrappers (`cfg` universally quantified) and an arbitrary deterministic function `f` whose body is a
list of atomic segments.

* `rfn_result_channel_fresh`, `rfn_reply_to_own_caller` — a value delivered to call `c` was
  produced by the execution started from request `c` with the argument of `c`.
* `rfn_at_most_once` — every request is taken at most once, each segment runs at most once, at
  most one execution of it ends; a value outcome means exactly one complete execution with the
  argument passed, an error outcome at most one (`rfn_not_executed_before_dispatch`: none at all
  while the request has not been taken).
* `rfn_mut_serial` — `RFnMut` (and `RFnOnce`): at most one request executes at any time, the
  recorded executions never overlap, they end in the order in which their requests were taken,
  and they form a sequential execution of the function: every finished execution returned what the
  sequential function returns in the state left by the executions that ended before it
  (linearizable, with the dequeue order as the witness).
* `rfn_once_once` — `RFnOnce` takes at most one request over all calls: all executed segments
  belong to one call.
* `rfn_const_limit` — `RFn` never runs more than `max_concurrency` executions at a time.
-/

namespace Remoc.Rfn

variable {f : Fun}

/-- **Fresh result channel per request.** -/
theorem rfn_result_channel_fresh (cfg : Cfg) (s : State f) (h : Reachable cfg s) (c c' : Nat)
    (hc : c < s.n) (hc' : c' < s.n) (he : s.rch c = s.rch c') : c = c' := by
  have hw := (inv_of_reachable cfg s h).wf
  rw [hw.rch c hc, hw.rch c' hc'] at he; exact he

/-- **A call is answered by its own execution.**  If call `c` returned the value `r`, the
execution started from request `c`, with the argument of `c`, finished with `r`, and `r` was
delivered to `c`; whatever sits in the result channel of `c` was put there by that execution. -/
theorem rfn_reply_to_own_caller (cfg : Cfg) (s : State f) (h : Reachable cfg s) (c r : Nat) :
    (s.cl c = .value r → Ev.fin c (s.arg c) r ∈ s.tr ∧ Ev.resp c r ∈ s.tr)
    ∧ (c < s.n → s.chVal (s.rch c) = some r → Ev.fin c (s.arg c) r ∈ s.tr) := by
  have hi := inv_of_reachable cfg s h
  refine ⟨hi.rv.val c r, fun hlt hv => ?_⟩
  rw [hi.wf.rch c hlt] at hv
  exact hi.rv.chan c r hlt hv

/-- **At most once.**  Every request is taken at most once, each segment of the function runs at
most once for it, at most one execution of it ends.  If the call returned a value, exactly one
execution ended, it carries the argument passed, and every segment `0 … nseg` ran exactly once.
(An error outcome therefore means at most one execution, possibly a partial one.) -/
theorem rfn_at_most_once (cfg : Cfg) (s : State f) (h : Reachable cfg s) (c : Nat) :
    (deqCount c s.tr ≤ 1 ∧ endCount c s.tr ≤ 1 ∧ ∀ k, segCount c k s.tr ≤ 1)
    ∧ (∀ r, s.cl c = .value r →
        Ev.fin c (s.arg c) r ∈ s.tr ∧ endCount c s.tr = 1 ∧ deqCount c s.tr = 1
          ∧ ∀ k, k ≤ f.nseg (s.arg c) → segCount c k s.tr = 1)
    ∧ (∀ a r, Ev.fin c a r ∈ s.tr → a = s.arg c) := by
  have hi := inv_of_reachable cfg s h
  refine ⟨hi.cn.post c, fun r hv => ?_, fun a r hf => (hi.cn.fin c a r hf).1⟩
  have hf := (hi.rv.val c r hv).1
  have := hi.cn.fin c _ r hf
  exact ⟨hf, this.2.2.1, this.2.2.2.1, this.2.2.2.2⟩

/-- a request that is still on its way or in the queue has not been executed at all -/
theorem rfn_not_executed_before_dispatch (cfg : Cfg) (s : State f) (h : Reachable cfg s) (c : Nat)
    (hs : s.stage c = .sending ∨ s.stage c = .queued) :
    deqCount c s.tr = 0 ∧ endCount c s.tr = 0 ∧ ∀ k, segCount c k s.tr = 0 := by
  have := (inv_of_reachable cfg s h).cn.pre c hs
  exact ⟨this.1, this.2.1, this.2.2.1⟩

/-- **`RFnMut` executes serially, in dequeue order, linearizably** (also `RFnOnce`).  In every
reachable state at most one request executes; the executions recorded in the trace never overlap
(`Serial`: between the moment a request is taken and the end of its execution no other request is
taken and no segment of another request runs); the executions ended in the order in which the
requests were taken (`deqOrder = endOrder ++ [the one in progress]`); every finished execution
returned what the sequential function returns in the state left by the executions that ended
before it (`SeqOk`), and when nothing executes the captured state is that sequential state. -/
theorem rfn_mut_serial (cfg : Cfg) (hfl : cfg.fl ≠ .const) (s : State f) (h : Reachable cfg s) :
    (∀ c c', s.stage c = .executing → s.stage c' = .executing → c' = c)
    ∧ Serial s.tr
    ∧ deqOrder s.tr = endOrder s.tr ++ s.loop.cur.toList
    ∧ SeqOk f f.σ0 s.tr
    ∧ ((∀ c, s.stage c ≠ .executing) → s.σ = seqState f f.σ0 s.tr) := by
  obtain ⟨hi, hs⟩ := sinv_of_reachable cfg hfl s h
  have hrun : ∀ x, s.stage x = .executing → s.loop = .running x := by
    intro x hx
    rcases (hi.st.exec x).1 hx with h1 | h1
    · exact h1
    · rw [hi.st.serialNoExecs hfl] at h1; cases h1
  refine ⟨fun c c' hc hc' => ?_, ?_, hs.ser.order, hs.lin.ok, fun hno => ?_⟩
  · have h1 := hrun c hc
    have h2 := hrun c' hc'
    rw [h1] at h2
    exact (Loop.running.inj h2).symm
  · simp [Serial, hs.ser.scan]
  · apply hs.lin.idle
    cases hl : s.loop with
    | running c => exact absurd ((hi.st.exec c).2 (Or.inl hl)) (hno c)
    | _ => rfl

/-- **`RFnOnce` runs at most once over all calls**: at most one request is ever taken, and all
executed segments belong to that one call. -/
theorem rfn_once_once (cfg : Cfg) (hfl : cfg.fl = .once) (s : State f) (h : Reachable cfg s) :
    (deqOrder s.tr).length ≤ 1
    ∧ ∀ c c' k k', Ev.seg c k ∈ s.tr → Ev.seg c' k' ∈ s.tr → c = c' := by
  have ho := once_of_reachable cfg hfl s h
  have hi := inv_of_reachable cfg s h
  refine ⟨ho.le, ?_⟩
  -- a call with an executed segment has been taken
  have taken : ∀ c k, Ev.seg c k ∈ s.tr → c ∈ deqOrder s.tr := by
    intro c k hm
    have hseg : 0 < segCount c k s.tr := by
      simp only [segCount]
      exact List.countP_pos_iff.2 ⟨_, hm, by simp [isSeg]⟩
    have := hi.sd.le c k
    exact mem_deqOrder_of_count c s.tr (by omega)
  intro c c' k k' h1 h2
  have m1 := taken c k h1
  have m2 := taken c' k' h2
  cases hd : deqOrder s.tr with
  | nil => rw [hd] at m1; cases m1
  | cons x t =>
    have hle := ho.le
    rw [hd] at m1 m2 hle
    have ht : t = [] := by
      cases t with
      | nil => rfl
      | cons y u => simp at hle
    subst ht
    simp at m1 m2
    rw [m1, m2]

/-- **`RFn` respects `max_concurrency`**: the executions in progress are exactly those holding a
permit, and there are never more than `limit` of them. -/
theorem rfn_const_limit (cfg : Cfg) (hfl : cfg.fl = .const) (s : State f) (h : Reachable cfg s) :
    s.execs.length ≤ cfg.limit ∧ ∀ c, s.stage c = .executing ↔ c ∈ s.execs := by
  have hs := (inv_of_reachable cfg s h).st
  refine ⟨hs.lim, fun c => ?_⟩
  rw [hs.exec c]
  constructor
  · rintro (h1 | h1)
    · exact absurd h1 (hs.constNoRun hfl c)
    · exact h1
  · exact Or.inr

/-! ### non-vacuity: concrete runs that meet the hypotheses -/

/-- `RFnMut`, two calls (the second issued while the first executes): both return values, the
sequential history is `add 5 → 10`, `add 7 → 24`, executed in dequeue order -/
example : (run (cfgOf .mut false) (init addFn) runSerial).cl 0 = .value 10
    ∧ (run (cfgOf .mut false) (init addFn) runSerial).cl 1 = .value 24
    ∧ sumVal (run (cfgOf .mut false) (init addFn) runSerial) = 24
    ∧ deqOrder (run (cfgOf .mut false) (init addFn) runSerial).tr = [0, 1]
    ∧ endOrder (run (cfgOf .mut false) (init addFn) runSerial).tr = [0, 1]
    ∧ segCount 1 0 (run (cfgOf .mut false) (init addFn) runSerial).tr = 1
    ∧ segCount 1 1 (run (cfgOf .mut false) (init addFn) runSerial).tr = 1
    ∧ endCount 1 (run (cfgOf .mut false) (init addFn) runSerial).tr = 1 := by
  decide

/-- a state of that run in which request 0 executes while request 1 waits in the queue
(hypotheses of the exclusivity clause of `rfn_mut_serial`) -/
example : (run (cfgOf .mut false) (init addFn) (runSerial.take 6)).stage 0 = .executing
    ∧ (run (cfgOf .mut false) (init addFn) (runSerial.take 6)).stage 1 = .queued
    ∧ (run (cfgOf .mut false) (init addFn) (runSerial.take 6)).loop = .running 0
    ∧ step (cfgOf .mut false) (run (cfgOf .mut false) (init addFn) (runSerial.take 6)) .dequeue = none := by
  decide

example : Reachable (cfgOf .mut false) (run (cfgOf .mut false) (init addFn) runSerial) := ⟨runSerial, rfl⟩

/-- `RFnOnce` with a (hypothetical) duplicate request: one request is taken, the other call fails -/
example : deqOrder (run (cfgOf .once false) (init addFn) runOnce).tr = [0]
    ∧ (run (cfgOf .once false) (init addFn) runOnce).cl 0 = .value 10
    ∧ (run (cfgOf .once false) (init addFn) runOnce).cl 1 = .error
    ∧ (run (cfgOf .once false) (init addFn) runOnce).loop = .stopped .onceTaken
    ∧ Ev.seg 0 1 ∈ (run (cfgOf .once false) (init addFn) runOnce).tr := by
  decide

/-- `RFn` with `max_concurrency = 1`: both requests are handed to tasks at once, the second gets
its permit only when the first execution is over; both calls return values -/
example : (run (cfgOf .const false 1) (init addFn) (runConst.take 8)).execs = [0]
    ∧ (run (cfgOf .const false 1) (init addFn) (runConst.take 8)).stage 1 = .spawned
    ∧ (run (cfgOf .const false 1) (init addFn) runConst).cl 0 = .value 10
    ∧ (run (cfgOf .const false 1) (init addFn) runConst).cl 1 = .value 24 := by
  decide

end Remoc.Rfn
