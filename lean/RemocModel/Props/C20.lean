import RemocModel.Handle.Release
import RemocModel.Handle.LazyLemmas

/-!
# C20 — handles and lazy values: confinement, type safety, fidelity, release

Theorems about M_handle (`Remoc.Handle`, `RemocModel/Handle/Model.lean`) and M_lazy (`Remoc.Lazy`,
`RemocModel/Handle/Lazy.lean`).  A reachable state of M_handle is the result of *any* label list
(create / clone / send over any connection / deliver / lose / access at any type / drop handle /
drop or keep provider / cut connection / internal release) from the empty state of *any* topology,
so every statement holds for all travel paths, drop orders and interleavings.
-/

namespace Remoc.Handle

/-! ## confinement and type safety -/

/-- **Confinement.**  If an access (`into_inner` / `as_ref` / `as_mut` at type `t`) on handle `h`
returns a value `v` in a reachable state, then `v` is the value of the object the handle was derived
from (create → clone / send / deliver chain, ghost field `origin`), the handle sits on the endpoint
that created this object, `t` is the type the object was created with, the value has not been taken
before, and the handle either is a clone of the created handle or came back to the creating endpoint
over connection `c` *and* was re-attached by the storage of exactly that connection, in which it had
been registered under its id. -/
theorem confinement {s s' : State} (hr : Reachable s) {k : Kind} {h t : Nat} {v : Nat}
    (ha : access s k h t = some (.value v, s')) :
    ∃ hd ob, s.handles[h]? = some hd ∧ hd.alive = true ∧ s.objs[hd.origin]? = some ob ∧
      ob.ep = hd.ep ∧ ob.tag = t ∧ ob.val = v ∧ ob.taken = false ∧
      (hd.st = .created hd.origin ∨
        ∃ id e, hd.st = .received hd.origin id ∧ s.log[id]? = some e ∧ e.obj = hd.origin ∧ e.ep = ob.ep ∧
          hd.links.head? = some e.conn) := by
  have i := inv_reachable hr
  unfold access at ha
  split at ha
  · cases ha
  · rename_i hd hget
    have hmem : hd ∈ s.handles := List.mem_of_getElem? hget
    split at ha
    · rename_i hal
      split at ha
      · injection ha with ha; injection ha with ha _; cases ha
      · rename_i o ho
        split at ha
        · cases ha
        · rename_i ob hob
          split at ha
          · injection ha with ha; injection ha with ha _; cases ha
          · rename_i htk
            injection ha with ha; injection ha with ha _
            obtain ⟨horig, hep⟩ := attached_origin i hmem ho
            subst horig
            have hep' : ob.ep = hd.ep := by simpa [epOf, hob] using hep
            split at ha
            · rename_i htag
              injection ha with ha
              refine ⟨hd, ob, hget, hal, hob, hep', htag, ha, by simpa using htk, ?_⟩
              have hok := i.hOk hd hmem
              unfold HOk at hok
              cases hst : hd.st with
              | created o' =>
                rw [hst] at ho hok; left
                simp [HSt.obj?] at ho; rw [ho]
              | received o' id =>
                rw [hst] at ho hok; right
                simp [HSt.obj?] at ho
                obtain ⟨_, _, e, h3, h4, h5, h6⟩ := hok
                exact ⟨id, e, by rw [ho], h3, by rw [h4, ho], by rw [h5, hep'], h6⟩
              | remote id => rw [hst] at ho; simp [HSt.obj?] at ho
            · cases ha
    · cases ha

/-- **Every other case is an error, never a value** — the exact result of an access:
a handle that is not attached (state `Remote`) or whose cell is empty gives `Unknown`; an attached
handle at a type other than the stored one gives `MismatchedType`; only an attached handle at the
stored type, value still present, gives the value. -/
theorem access_result {s s' : State} {k : Kind} {h t : Nat} {r : Res} (ha : access s k h t = some (r, s')) :
    ∃ hd, s.handles[h]? = some hd ∧ hd.alive = true ∧
      match hd.st.obj? with
      | none => r = .unknown
      | some o => ∃ ob, s.objs[o]? = some ob ∧
          r = if ob.taken then .unknown else if ob.tag = t then .value ob.val else .mismatch := by
  unfold access at ha
  split at ha
  · cases ha
  · rename_i hd hget
    split at ha
    · rename_i hal
      refine ⟨hd, hget, hal, ?_⟩
      split at ha
      · rename_i ho
        injection ha with ha; injection ha with ha _
        simp only [ho]; exact ha.symm
      · rename_i o ho
        simp only [ho]
        split at ha
        · cases ha
        · rename_i ob hob
          refine ⟨ob, hob, ?_⟩
          split at ha
          · rename_i htk
            injection ha with ha; injection ha with ha _
            simp [htk, ← ha]
          · rename_i htk
            injection ha with ha; injection ha with ha _
            simp [htk, ← ha]
    · cases ha

/-- A handle on an endpoint other than the one that created its object is never attached: every
access through it is `Unknown` (neither a value nor a type error that would reveal the stored type). -/
theorem foreign_endpoint_unknown {s s' : State} (hr : Reachable s) {k : Kind} {h t : Nat} {r : Res}
    (ha : access s k h t = some (r, s')) {hd : Handle} {ob : Obj}
    (hget : s.handles[h]? = some hd) (hob : s.objs[hd.origin]? = some ob) (hne : ob.ep ≠ hd.ep) :
    r = .unknown := by
  have i := inv_reachable hr
  obtain ⟨hd', hget', _, hres⟩ := access_result ha
  rw [hget] at hget'; injection hget' with hget'; subst hget'
  cases ho : hd.st.obj? with
  | none => simpa [ho] using hres
  | some o =>
    exfalso
    obtain ⟨horig, hep⟩ := attached_origin i (List.mem_of_getElem? hget) ho
    subst horig
    simp [epOf, hob] at hep
    exact hne hep

/-- A cast to another type never yields a value, and an access after the value was taken never
yields a value. -/
theorem wrong_type_or_taken_is_error {s s' : State} (hr : Reachable s) {k : Kind} {h t : Nat} {r : Res}
    (ha : access s k h t = some (r, s')) {hd : Handle} {ob : Obj}
    (hget : s.handles[h]? = some hd) (hob : s.objs[hd.origin]? = some ob)
    (hbad : ob.tag ≠ t ∨ ob.taken = true) : r = .unknown ∨ r = .mismatch := by
  have i := inv_reachable hr
  obtain ⟨hd', hget', _, hres⟩ := access_result ha
  rw [hget] at hget'; injection hget' with hget'; subst hget'
  cases ho : hd.st.obj? with
  | none => left; simpa [ho] using hres
  | some o =>
    obtain ⟨horig, _⟩ := attached_origin i (List.mem_of_getElem? hget) ho
    subst horig
    simp only [ho] at hres
    obtain ⟨ob', hob', hr'⟩ := hres
    rw [hob] at hob'; injection hob' with hob'; subst hob'
    rcases hbad with hb | hb
    · by_cases htk : ob.taken = true
      · left; simp [hr', htk]
      · right; simp [hr', htk, hb]
    · left; simp [hr', hb]

/-- `into_inner` empties the cell at any type: after it, every access through any handle of the
object is `Unknown` ("use after the value was taken yields an error").  Stated for the next access. -/
theorem taken_after_into_inner {s s' : State} {h t : Nat} {r : Res}
    (ha : access s .intoInner h t = some (r, s')) {hd : Handle} {o : Nat}
    (hget : s.handles[h]? = some hd) (ho : hd.st.obj? = some o) :
    ∃ ob', s'.objs[o]? = some ob' ∧ ob'.taken = true := by
  unfold access at ha
  split at ha
  · cases ha
  · rename_i hd' hget'
    rw [hget] at hget'; injection hget' with hget'; subst hget'
    split at ha
    · split at ha
      · rename_i ho'; rw [ho] at ho'; cases ho'
      · rename_i o' ho'
        rw [ho] at ho'; injection ho' with ho'; subst ho'
        split at ha
        · cases ha
        · rename_i ob hob
          split at ha
          · rename_i htk
            injection ha with ha; injection ha with _ ha; subst ha
            rw [consume_objs]; exact ⟨ob, hob, htk⟩
          · injection ha with ha; injection ha with _ ha; subst ha
            simp only [takeObj, if_true, consume_objs]
            refine ⟨{ ob with taken := true }, ?_, rfl⟩
            rw [List.getElem?_set]; simp [getElem?_lt hob]
    · cases ha

/-! ## no foreign value (id freshness) -/

/-- **Ids are fresh**: the id allocated by the next serialization of a created handle is carried by
no storage entry, no handle and no message (all known ids are below the counter). -/
theorem ids_fresh {s : State} (hr : Reachable s) :
    (∀ e ∈ s.entries, e.id < s.nextId) ∧
    (∀ hd ∈ s.handles, ∀ id, hd.st.id? = some id → id < s.nextId) ∧
    (∀ m ∈ s.msgs, m.id < s.nextId) := by
  have i := inv_reachable hr
  refine ⟨fun e he => ?_, fun hd hh id hid => ?_, fun m hm => ?_⟩
  · have := getElem?_lt (i.entSub e he); rw [i.logLen] at this; exact this
  · obtain ⟨e, h1, _⟩ := handle_id_origin i hh hid
    have := getElem?_lt h1; rw [i.logLen] at this; exact this
  · obtain ⟨e, h1, _⟩ := i.mOk m hm
    have := getElem?_lt h1; rw [i.logLen] at this; exact this

/-- ids are unique across all storages of all endpoints and connections -/
theorem storage_ids_unique {s : State} (hr : Reachable s) {e₁ e₂ : Entry}
    (h₁ : e₁ ∈ s.entries) (h₂ : e₂ ∈ s.entries) (hid : e₁.id = e₂.id) : e₁ = e₂ :=
  entries_id_unique (inv_reachable hr) h₁ h₂ hid

/-- **No foreign value.**  Whatever storage (any endpoint, any connection) is asked for the id a
message in flight or a handle carries, the entry found — if any — belongs to the object that message
/ handle was derived from; in particular deserialization never attaches a handle to another
handle's value. -/
theorem no_foreign_value {s : State} (hr : Reachable s) :
    (∀ m ∈ s.msgs, ∀ ep conn e, findEntry s.entries ep conn m.id = some e → e.obj = m.origin) ∧
    (∀ hd ∈ s.handles, ∀ id ep conn e, hd.st.id? = some id → findEntry s.entries ep conn id = some e →
        e.obj = hd.origin) ∧
    (∀ hd ∈ s.handles, ∀ o, hd.st.obj? = some o → o = hd.origin) := by
  have i := inv_reachable hr
  refine ⟨fun m hm ep conn e hf => ?_, fun hd hh id ep conn e hid hf => ?_, fun hd hh o ho => ?_⟩
  · obtain ⟨he, _, _, hid⟩ := findEntry_mem hf
    obtain ⟨le, h1, h2, _⟩ := i.mOk m hm
    have := i.entSub e he
    rw [hid, h1] at this; injection this with this; subst this; exact h2
  · obtain ⟨he, _, _, hid'⟩ := findEntry_mem hf
    obtain ⟨le, h1, h2⟩ := handle_id_origin i hh hid
    have := i.entSub e he
    rw [hid', h1] at this; injection this with this; subst this; exact h2
  · exact (attached_origin i hh ho).1

/-- The handle produced by a delivery is attached only to the object of the message it came from,
and only if the message arrived at the registering endpoint over the registering connection. -/
theorem deliver_attaches_own_object {s s' : State} (hr : Reachable s) {m : Nat} (hs : deliver s m = some s') :
    ∃ mg hd, s.msgs[m]? = some mg ∧ s'.handles = s.handles ++ [hd] ∧ hd.ep = mg.dst ∧ hd.origin = mg.origin ∧
      (hd.st = .remote mg.id ∨
        (hd.st = .received mg.origin mg.id ∧ ∃ e, s.log[mg.id]? = some e ∧ e.ep = mg.dst ∧ e.conn = mg.conn)) := by
  have i := inv_reachable hr
  unfold deliver at hs
  split at hs
  · cases hs
  · rename_i mg hget
    split at hs
    · split at hs
      · rename_i e hfind
        injection hs with hs; subst hs
        obtain ⟨he, h2, h3, h4⟩ := findEntry_mem hfind
        have hobj := (no_foreign_value hr).1 mg (List.mem_of_getElem? hget) _ _ e hfind
        refine ⟨mg, _, hget, rfl, rfl, rfl, Or.inr ⟨by rw [hobj], e, ?_, h2, h3⟩⟩
        rw [← h4]; exact i.entSub e he
      · injection hs with hs; subst hs
        exact ⟨mg, _, hget, rfl, rfl, rfl, Or.inl rfl⟩
    · cases hs

/-- Observation from the design phase: a handle that returns home *removes* the storage entry, so a
second copy with the same id that returns later finds nothing in any storage and stays `Remote`
(unusable but safe). -/
theorem return_home_removes_entry {s s' : State} (hr : Reachable s) {m : Nat} {mg : Msg} {e : Entry}
    (hm : s.msgs[m]? = some mg) (hfound : findEntry s.entries mg.dst mg.conn mg.id = some e)
    (hs : deliver s m = some s') :
    ∀ ep conn, findEntry s'.entries ep conn mg.id = none := by
  have i := inv_reachable hr
  intro ep conn
  cases hf : findEntry s'.entries ep conn mg.id with
  | none => rfl
  | some e' =>
    exfalso
    obtain ⟨he', _, _, hid'⟩ := findEntry_mem hf
    unfold deliver at hs
    rw [hm] at hs
    simp only [hfound] at hs
    split at hs
    · injection hs with hs; subst hs
      obtain ⟨he, h2, h3, h4⟩ := findEntry_mem hfound
      have hin := mem_removeEntry he'
      have : e' = e := entries_id_unique i hin he (by rw [hid', h4])
      subst this
      simp only [removeEntry] at he'
      have := (List.mem_filter.mp he').2
      simp [Entry.key, h2, h3, h4] at this
    · cases hs

/-! ## release -/

/-- **Released when every handle is gone.**  In a quiescent reachable state (no removal task has its
wait condition met), if every handle derived from object `o` on every endpoint has been dropped or
consumed and no serialized copy is in flight, then no storage of any endpoint / connection holds an
entry for `o` and the reference count of its cell is zero: the value has been dropped. -/
theorem released_all_gone {s : State} (hr : Reachable s) (hq : Quiescent s) {o : Nat} (hg : AllGone s o) :
    (∀ e ∈ s.entries, e.obj ≠ o) ∧ refs s o = 0 ∧ valueGone s o := by
  have i := inv_reachable hr
  have hent : ∀ e ∈ s.entries, e.obj ≠ o := by
    intro e he ho
    have h1 := quiescent_not_releasable i hq he
    have h2 := holders_zero_of_allGone i hg he ho
    simp [releasable, h2] at h1
  have hrefs : refs s o = 0 := by
    rw [refs_zero_iff]
    refine ⟨fun hd hh => ?_, hent⟩
    cases hal : hd.alive with
    | false => simp [Handle.attached, hal]
    | true =>
      cases hat : (hd.st.obj? == some o) with
      | false => simp [Handle.attached, hat]
      | true =>
        exfalso
        have hat' : hd.st.obj? = some o := by simpa using hat
        have := (attached_origin i hh hat').1
        have := hg.1 hd hh this.symm
        rw [hal] at this; cases this
  exact ⟨hent, hrefs, Or.inr hrefs⟩

/-- **Released when the provider is dropped** — partial.

Full statement of the property clause (NOT true of the code, finding F-C20-1, so not provable of a
faithful model):

    Reachable s → Quiescent s → s.objs[o]? = some ob → ob.prov = .dropped →
      (∀ e ∈ s.entries, e.obj ≠ o) ∧ valueGone s o

What holds and is proved: in a quiescent reachable state, an object whose provider was dropped has no
storage entry on any connection, so no handle that is or will be on the wire can be re-attached to
it; its cell is referenced only by handles still attached *on the creating endpoint* (`LocalCreated`
clones and handles that had returned home before); the value is gone as soon as there is none of
those.  Missing for the full statement: the code lets those local handles keep the value alive and
usable (`into_inner / as_ref / as_mut` never look at the provider). -/
theorem released_provider_dropped_partial {s : State} (hr : Reachable s) (hq : Quiescent s) {o : Nat} {ob : Obj}
    (hob : s.objs[o]? = some ob) (hp : ob.prov = .dropped) :
    (∀ e ∈ s.entries, e.obj ≠ o) ∧
    (∀ hd ∈ s.handles, hd.attached o = true → hd.ep = ob.ep ∧ hd.origin = o) ∧
    ((∀ hd ∈ s.handles, hd.attached o = false) → valueGone s o) := by
  have i := inv_reachable hr
  have hent : ∀ e ∈ s.entries, e.obj ≠ o := by
    intro e he ho
    have h1 := quiescent_not_releasable i hq he
    simp [releasable, ho, hob, hp] at h1
  refine ⟨hent, fun hd hh hat => ?_, fun hnone => Or.inr ((refs_zero_iff s o).mpr ⟨hnone, hent⟩)⟩
  simp only [Handle.attached, Bool.and_eq_true, beq_iff_eq] at hat
  obtain ⟨h1, h2⟩ := attached_origin i hh hat.2
  simp [epOf, hob] at h2
  exact ⟨h2.symm, h1.symm⟩

/-- **Released when the connection fails**: in a quiescent state the storages of a failed
connection are empty. -/
theorem released_connection_cut {s : State} (hr : Reachable s) (hq : Quiescent s) {c : Nat} (hc : c ∈ s.cut) :
    ∀ e ∈ s.entries, e.conn ≠ c := by
  have i := inv_reachable hr
  intro e he hcc
  have h1 := quiescent_not_releasable i hq he
  simp [releasable, hcc, hc] at h1

/-- **Gone is forever.**  Once the value of an object is gone (taken, or its cell freed), no
sequence of operations makes it available again. -/
theorem gone_forever {s : State} (hr : Reachable s) {o : Nat} (ho : o < s.objs.length) (hg : valueGone s o)
    (ls : List Label) : valueGone (run s ls) o := by
  induction ls generalizing s with
  | nil => exact hg
  | cons l ls ih =>
    simp only [run]
    cases hs : step s l with
    | none => exact ih hr ho hg
    | some s' =>
      have hr' := reachable_step hr l hs
      have ho' : o < s'.objs.length := Nat.lt_of_lt_of_le ho (step_objs_length l hs)
      apply ih hr' ho'
      rcases hg with ⟨ob, hob, ht⟩ | hz
      · exact Or.inl (step_taken hob ht l hs)
      · exact Or.inr ((refs_zero_iff _ _).mpr (step_noRefs ho ((refs_zero_iff _ _).mp hz) l hs))

/-- **The system reaches quiescence**: running the enabled internal removal steps (`settle`, a run
of `release` labels) ends in a quiescent reachable state with the same objects, handles, messages
and connections, so the three `released_*` theorems apply to it. -/
theorem settle_reaches_quiescence {s : State} (hr : Reachable s) :
    Reachable (settle s) ∧ Quiescent (settle s) ∧ SameEnv s (settle s) :=
  ⟨reachable_run hr _, (settle_quiescent (inv_reachable hr)).1, (settle_quiescent (inv_reachable hr)).2⟩

/-! ### non-vacuity: a concrete run through three endpoints -/

/-- endpoints 0,1,2; connections 0: 0–1, 1: 1–2, 2: 0–2 -/
def exTopo : List (Nat × Nat) := [(0, 1), (1, 2), (0, 2)]

/-- create on 0 (type 7, value 42), send over conn 0 to 1, forward over conn 1 to 2, send a second
copy from 1 back home over conn 0, and the copy on 2 home over the *other* connection 2 -/
def exRun : List Label :=
  [.create 0 7 42 true, .send 0 0, .deliver 0,        -- handle 1 on endpoint 1 (Remote)
   .send 1 1, .deliver 1,                             -- handle 2 on endpoint 2 (Remote)
   .send 1 0, .deliver 2,                             -- handle 3 on endpoint 0 (LocalReceived)
   .send 2 2, .deliver 3]                             -- handle 4 on endpoint 0 via conn 2 (Remote)

example : (access (run (init exTopo) exRun) .asRef 3 7).map (·.1) = some (.value 42) := by decide
example : (access (run (init exTopo) exRun) .asRef 3 8).map (·.1) = some .mismatch := by decide
example : (access (run (init exTopo) exRun) .asRef 4 7).map (·.1) = some .unknown := by decide
example : (access (run (init exTopo) exRun) .asRef 1 7).map (·.1) = some .unknown := by decide
/-- after dropping every handle and settling, the storages are empty and the cell is free -/
example : let s := settle (run (init exTopo) (exRun ++ [.dropHandle 0, .dropHandle 1, .dropHandle 2, .dropHandle 3, .dropHandle 4]))
    s.entries = [] ∧ refs s 0 = 0 := by decide
/-- dropping the provider while the copies are still abroad empties the storage -/
example : let s := settle (run (init exTopo) [.create 0 7 42 true, .send 0 0, .deliver 0, .dropHandle 0, .dropProvider 0])
    s.entries = [] ∧ refs s 0 = 0 ∧ holders s 0 = 1 := by decide
/-- without the provider drop the entry stays as long as a remote copy lives -/
example : let s := settle (run (init exTopo) [.create 0 7 42 true, .send 0 0, .deliver 0, .dropHandle 0])
    s.entries.length = 1 ∧ refs s 0 = 1 := by decide

end Remoc.Handle

/-! ## lazy values and blobs -/

namespace Remoc.Lazy

/-- **Message atomicity** on the transport abstraction (the fact C01 establishes for ports): of the
frames of one message a receiver that sees only a prefix hands out the whole message if the prefix
is everything, and nothing at all otherwise. -/
theorem message_atomic (n : Nat) (d : Bytes) (c : Option Nat) :
    recvOne (cutAt c (chunk n true d)) = some d ∨ recvOne (cutAt c (chunk n true d)) = none := by
  rw [recvOne_cut]; split <;> simp

/-- **Fidelity.**  For a `Lazy<T>` or a `LazyBlob` provided with `data`, under any sequence of
forwards, fetches with arbitrary connection failures on the path, and provider drops, every result a
fetch ever returns is either exactly the provided data or an error — never a truncated or otherwise
different value. -/
theorem lazy_fidelity (blob : Bool) (data : Bytes) (chunkSz : Nat) (ops : List LOp) :
    ∀ r ∈ (lrun (provide blob data chunkSz) ops).results, r = .ok data ∨ r = .err :=
  (lrun_inv (linv_provide blob data chunkSz) ops).resOk

/-- The length advertised with a blob is that of the provided data after any number of forwards, and
a successful fetch has exactly the advertised length. -/
theorem lazy_length (blob : Bool) (data : Bytes) (chunkSz : Nat) (ops : List LOp) :
    (lrun (provide blob data chunkSz) ops).advLen = data.length ∧
    ∀ d, .ok d ∈ (lrun (provide blob data chunkSz) ops).results →
      d.length = (lrun (provide blob data chunkSz) ops).advLen := by
  have i := lrun_inv (linv_provide blob data chunkSz) ops
  refine ⟨i.lenEq, fun d hd => ?_⟩
  rcases i.resOk _ hd with h | h
  · injection h with h; rw [h, i.lenEq]
  · cases h

/-- **A transfer cut short is an error** (blob, frame-by-frame forwarding): if any connection on the
path fails before the last frame of the message has passed it, the fetch fails. -/
theorem blob_cut_short_is_error (n : Nat) (data : Bytes) (adv : Nat) (cuts : List (Option Nat))
    (h : ∃ c ∈ cuts, passes (chunk n true data).length c = false) : fetchBlob n data adv cuts = .err := by
  rw [fetchBlob_eq]
  have := minCut_some cuts _ h
  rw [if_neg]; omega

/-- the same for a `Lazy<T>` value (item-level store-and-forward) -/
theorem item_cut_short_is_error (n : Nat) (data : Bytes) (cuts : List (Option Nat))
    (h : ∃ c ∈ cuts, passes (chunk n true data).length c = false) : fetchItem n data cuts = .err := by
  unfold fetchItem
  rw [itemTransfer_eq, if_neg]
  obtain ⟨c, hc, hp⟩ := h
  intro hall; rw [hall c hc] at hp; cases hp

/-- **An undisturbed transfer succeeds** with the provided data (no false error), for any number of
hops, when the advertised length is the real one. -/
theorem uncut_fetch_succeeds (n : Nat) (data : Bytes) (cuts : List (Option Nat))
    (h : ∀ c ∈ cuts, passes (chunk n true data).length c = true) :
    fetchBlob n data data.length cuts = .ok data ∧ fetchItem n data cuts = .ok data := by
  constructor
  · rw [fetchBlob_eq, minCut_all cuts _ h]; simp
  · unfold fetchItem; rw [itemTransfer_eq, if_pos h]

/-- State-machine form: a consumer object that was forwarded `k` times (at least once for a blob,
see finding F-C20-2) and then fetches over undisturbed connections, provider alive, gets the data. -/
theorem first_fetch_succeeds (blob : Bool) (data : Bytes) (chunkSz k : Nat) (hk : blob = true → 0 < k) :
    (lrun (provide blob data chunkSz) (List.replicate k .forward ++ [.fetch []])).results = [.ok data] := by
  have happ : ∀ (a b : List LOp) (s : LState), lrun s (a ++ b) = lrun (lrun s a) b := by
    intro a
    induction a with
    | nil => intro b s; rfl
    | cons o a ih => intro b s; exact ih b (lstep s o)
  have hfw : ∀ (k : Nat) (s : LState), s.cache = none →
      lrun s (List.replicate k LOp.forward) = { s with hops := s.hops + k } := by
    intro k
    induction k with
    | zero => intro s _; rfl
    | succ k ih =>
      intro s hc
      simp only [List.replicate_succ, lrun]
      rw [ih (lstep s .forward) rfl]
      simp only [lstep]
      cases s
      simp at hc
      simp [hc]; omega
  rw [happ, hfw k _ rfl]
  have hcuts : ∀ c ∈ pathCuts k [], passes (chunk chunkSz true data).length c = true := by
    intro c hc
    simp [pathCuts] at hc
    obtain ⟨_, _, rfl⟩ := hc
    rfl
  have h := uncut_fetch_succeeds chunkSz data (pathCuts k []) hcuts
  cases blob with
  | true =>
    have hk' := hk rfl
    have hne : ¬ (k = 0) := by omega
    simp [lrun, lstep, provide, h.1, hne]
  | false =>
    simp [lrun, lstep, provide, h.2]

/-! ### non-vacuity -/

def exData : Bytes := [1, 2, 3, 4, 5, 6, 7, 8, 9, 10]

example : (chunk 4 true exData).length = 3 := by decide
example : fetchBlob 4 exData 10 [none, none] = .ok exData := by decide
example : fetchBlob 4 exData 10 [none, some 2] = .err := by decide
example : fetchItem 4 exData [some 3, none, some 2] = .err := by decide
example : (lrun (provide true exData 4) [.forward, .forward, .fetch [none, some 1], .forward, .fetch [], .fetch []]).results
    = [.err, .ok exData, .ok exData] := by decide
example : (lrun (provide false exData 4) [.forward, .fetch [], .forward, .fetch []]).results
    = [.ok exData, .err] := by decide

end Remoc.Lazy
