import RemocModel.Table.Lemmas
import RemocModel.Table.ConnSafe
import RemocModel.Props.C09
set_option linter.unusedSimpArgs false

/-!
# C08 — robustness against an arbitrary or hostile peer

Theorems about M_table (`Remoc.Table`): `handleRx`/`handleData` are *total* functions into
`Except RunErr Ep` — for every message in every state the model says "keeps operating" or
"terminates with this error"; the correspondence check (`./check C08`) feeds the same hostile
frame sequences to a real endpoint and compares the decision and the error class, frame by frame.
What is proved here, for **every** sequence of received messages, local events and local receive
calls (`List Input`), from any state satisfying the invariant (in particular the initial one):

* `buffer_bounded` — per port, the cost of undelivered data never exceeds the advertised receive
  buffer and the number of queued messages never exceeds that buffer + 1;
* `listen_queue_bounded` — the listener queues never hold more than `connect_queue + 1` entries;
* `peer_cannot_open_ports` — a received message never adds an entry to the port table or the allocator.
-/

namespace Remoc.Table
open Remoc.Wire

def zeros (q : List Nat) : Nat := (q.filter (· == 0)).length

/-- per-port bound on what is buffered for the local receiver -/
def PortOk (buf : Nat) (c : Connected) : Prop :=
  c.used ≤ buf ∧ zeros c.rxq ≤ (if c.remoteSendFinished then 1 else 0)

def BufInv (e : Ep) : Prop := ∀ p c, lookup e.ports p = some (.connected c) → PortOk e.cfg.buf c

theorem length_le_sum_add_zeros (q : List Nat) : q.length ≤ q.sum + zeros q := by
  induction q with
  | nil => simp [zeros]
  | cons x xs ih =>
    simp only [zeros, List.length_cons, List.sum_cons, List.filter] at ih ⊢
    by_cases hx : x = 0
    · simp [hx]; omega
    · have : (x == 0) = false := by simp [hx]
      simp only [this]; omega

theorem bufInv_setPort (e : Ep) (p : Nat) (c' : Connected) (h : BufInv e) (hc : PortOk e.cfg.buf c') :
    BufInv { e with ports := setPort e.ports p (.connected c') } := by
  intro q c hq
  simp only [lookup_setPort] at hq
  by_cases hqp : q = p
  · simp only [hqp, if_true, Option.some.injEq, PortSt.connected.injEq] at hq
    subst hq; exact hc
  · simp only [hqp, if_false] at hq; exact h q c hq

theorem bufInv_setConnecting (e : Ep) (p : Nat) (h : BufInv e) :
    BufInv { e with ports := setPort e.ports p .connecting } := by
  intro q c hq
  simp only [lookup_setPort] at hq
  by_cases hqp : q = p
  · simp [hqp] at hq
  · simp only [hqp, if_false] at hq; exact h q c hq

theorem bufInv_erase (e : Ep) (p : Nat) (al : List Nat) (h : BufInv e) :
    BufInv { e with ports := erase e.ports p, allocated := al } := by
  intro q c hq
  simp only [lookup_erase] at hq
  by_cases hqp : q = p
  · simp [hqp] at hq
  · simp only [hqp, if_false] at hq; exact h q c hq

theorem bufInv_of_lookup (e e' : Ep) (hc : e'.cfg = e.cfg)
    (hl : ∀ q c, lookup e'.ports q = some (.connected c) → lookup e.ports q = some (.connected c))
    (h : BufInv e) : BufInv e' := by
  intro q c hq; rw [hc]; exact h q c (hl q c hq)

theorem erase_sub (ps : List (Nat × PortSt)) (p q : Nat) (c : Connected)
    (h : lookup (erase ps p) q = some (.connected c)) : lookup ps q = some (.connected c) := by
  rw [lookup_erase] at h
  by_cases hqp : q = p
  · simp [hqp] at h
  · simpa [hqp] using h

theorem bufInv_congr (e e' : Ep) (hp : e'.ports = e.ports) (hc : e'.cfg = e.cfg) (h : BufInv e) : BufInv e' := by
  intro q c hq; rw [hp] at hq; rw [hc]; exact h q c hq

theorem bufInv_maybeFree (e : Ep) (p : Nat) (h : BufInv e) : BufInv (maybeFree e p) := by
  unfold maybeFree
  split
  · split
    · exact bufInv_erase e p _ h
    · exact h
  · exact h

theorem zeros_append (a b : List Nat) : zeros (a ++ b) = zeros a + zeros b := by simp [zeros]

theorem bufInv_handleRx (e e' : Ep) (m : Msg) (em : Emit) (h : BufInv e) (hr : handleRx e m = .ok (e', em)) :
    BufInv e' := by
  cases m with
  | reset => simp [handleRx] at hr
  | hello v c => simp [handleRx] at hr
  | ping => simp only [handleRx, Except.ok.injEq, Prod.mk.injEq] at hr; rw [← hr.1]; exact h
  | data p f l => simp only [handleRx, Except.ok.injEq, Prod.mk.injEq] at hr; rw [← hr.1]; exact h
  | listenerFinish =>
    simp only [handleRx, Except.ok.injEq, Prod.mk.injEq] at hr; rw [← hr.1]; exact bufInv_congr e _ rfl rfl h
  | goodbye =>
    simp only [handleRx, Except.ok.injEq, Prod.mk.injEq] at hr; rw [← hr.1]; exact bufInv_congr e _ rfl rfl h
  | clientFinish =>
    simp only [handleRx] at hr
    (repeat' split at hr) <;> first
      | (simp at hr; done)
      | (simp only [Except.ok.injEq, Prod.mk.injEq] at hr; rw [← hr.1]; exact bufInv_congr e _ rfl rfl h)
  | openPort cp w id =>
    simp only [handleRx] at hr
    (repeat' split at hr) <;> first
      | (simp at hr; done)
      | (simp only [Except.ok.injEq, Prod.mk.injEq] at hr; rw [← hr.1]; exact bufInv_congr e _ rfl rfl h)
  | portOpened cp sp =>
    simp only [handleRx] at hr
    split at hr
    · simp only [Except.ok.injEq, Prod.mk.injEq] at hr; rw [← hr.1]
      exact bufInv_setPort _ cp _ (bufInv_congr e _ rfl rfl h) (by simp [PortOk, Connected.used, zeros])
    · simp at hr
  | rejected cp np =>
    simp only [handleRx] at hr
    split at hr
    · simp only [Except.ok.injEq, Prod.mk.injEq] at hr; rw [← hr.1]
      exact bufInv_of_lookup e _ rfl (fun q c hq => erase_sub _ cp q c hq) h
    · simp at hr
  | portData p f l w ps ids =>
    simp only [handleRx] at hr
    split at hr
    · rename_i c hl
      (repeat' split at hr) <;> first
        | (simp at hr; done)
        | (rename_i hne hdup hsz
           simp only [Except.ok.injEq, Prod.mk.injEq] at hr; rw [← hr.1]
           have hc := h p c hl
           refine bufInv_setPort _ p _ (bufInv_congr e _ rfl rfl h) ?_
           have hpos : 0 < ps.length := by
             cases ps with
             | nil => simp at hne
             | cons _ _ => simp
           constructor
           · simp only [Connected.used, List.sum_append, List.sum_cons, List.sum_nil] at hsz ⊢
             omega
           · have hz : zeros [4 * ps.length] = 0 := by
               have : (4 * ps.length == 0) = false := by
                 simp only [beq_eq_false_iff_ne, ne_eq]; omega
               simp [zeros, List.filter, this]
             simp only [zeros_append, hz, Nat.add_zero]
             have hrf : c.remoteSendFinished = false := by
               rename_i hfin; simpa using hfin
             simpa [hrf] using hc.2)
    · simp at hr
  | portCredits p n =>
    simp only [handleRx] at hr
    split at hr
    · rename_i c hl
      split at hr
      · simp at hr
      · simp only [Except.ok.injEq, Prod.mk.injEq] at hr; rw [← hr.1]
        exact bufInv_setPort _ p _ h (h p c hl)
    · simp at hr
  | sendFinish p =>
    simp only [handleRx] at hr
    split at hr
    · rename_i c hl
      split at hr
      · simp at hr
      · rename_i hfin
        simp only [Except.ok.injEq, Prod.mk.injEq] at hr; rw [← hr.1]
        apply bufInv_maybeFree
        have hc := h p c hl
        refine bufInv_setPort _ p _ h ?_
        have hrf : c.remoteSendFinished = false := by simpa using hfin
        constructor
        · simpa [Connected.used] using hc.1
        · have hz0 : zeros c.rxq = 0 := by have := hc.2; simp [hrf] at this; exact this
          rw [zeros_append, hz0]
          simp [zeros, List.filter]
    · simp at hr
  | receiveClose p =>
    simp only [handleRx] at hr
    split at hr
    · rename_i c hl
      split at hr
      · simp at hr
      · simp only [Except.ok.injEq, Prod.mk.injEq] at hr; rw [← hr.1]
        apply bufInv_maybeFree
        exact bufInv_setPort _ p _ h (h p c hl)
    · simp at hr
  | receiveFinish p =>
    simp only [handleRx] at hr
    split at hr
    · rename_i c hl
      simp only [Except.ok.injEq, Prod.mk.injEq] at hr; rw [← hr.1]
      apply bufInv_maybeFree
      exact bufInv_setPort _ p _ h (h p c hl)
    · simp at hr

theorem bufInv_handleData (e e' : Ep) (p len : Nat) (h : BufInv e) (hr : handleData e p len = .ok e') :
    BufInv e' := by
  simp only [handleData] at hr
  split at hr
  · rename_i c hl
    split at hr
    · simp at hr
    · rename_i hfin
      split at hr
      · simp at hr
      · rename_i hsz
        simp only [Except.ok.injEq] at hr; rw [← hr]
        have hc := h p c hl
        refine bufInv_setPort _ p _ h ?_
        have hrf : c.remoteSendFinished = false := by simpa using hfin
        constructor
        · simp only [Connected.used, List.sum_append, List.sum_cons, List.sum_nil] at hsz ⊢
          omega
        · have hz : zeros [max 1 len] = 0 := by
            have : (max 1 len == 0) = false := by
              simp only [beq_eq_false_iff_ne, ne_eq]; omega
            simp [zeros, List.filter, this]
          simp only [zeros_append, hz, Nat.add_zero]
          simpa [hrf] using hc.2
  · simp at hr

theorem bufInv_handleConsume (e e' : Ep) (p : Nat) (h : BufInv e) (hr : handleConsume e p = some e') :
    BufInv e' := by
  simp only [handleConsume] at hr
  split at hr
  · rename_i c hl
    split at hr
    · simp at hr
    · rename_i x rest hq
      simp only [Option.some.injEq] at hr; rw [← hr]
      have hc := h p c hl
      refine bufInv_setPort _ p _ h ?_
      constructor
      · have := hc.1; simp only [Connected.used, hq, List.sum_cons] at this ⊢; omega
      · have := hc.2
        simp only [zeros, hq, List.filter] at this ⊢
        split at this <;> simp at this ⊢ <;> omega
  · simp at hr

theorem bufInv_handleEvt (e e' : Ep) (ev : Evt) (m : Option Msg) (h : BufInv e) (hr : handleEvt e ev = some (e', m)) :
    BufInv e' := by
  cases ev with
  | connectReq port wait id =>
    simp only [handleEvt] at hr
    (repeat' split at hr) <;> first
      | (simp at hr; done)
      | (simp only [Option.some.injEq, Prod.mk.injEq] at hr; rw [← hr.1]; exact bufInv_congr e _ rfl rfl h)
      | (simp only [Option.some.injEq, Prod.mk.injEq] at hr; rw [← hr.1]
         exact bufInv_setConnecting _ port (bufInv_congr e _ rfl rfl h))
  | accepted lp rp =>
    simp only [handleEvt] at hr
    split at hr
    · simp at hr
    · simp only [Option.some.injEq, Prod.mk.injEq] at hr; rw [← hr.1]
      exact bufInv_setPort _ lp _ (bufInv_congr e _ rfl rfl h) (by simp [PortOk, Connected.used, zeros])
  | rejected rp np =>
    simp only [handleEvt] at hr
    split at hr
    · simp at hr
    · simp only [Option.some.injEq, Prod.mk.injEq] at hr; rw [← hr.1]; exact bufInv_congr e _ rfl rfl h
  | senderDropped p =>
    simp only [handleEvt] at hr
    split at hr
    · rename_i c hl
      split at hr
      · simp at hr
      · simp only [Option.some.injEq, Prod.mk.injEq] at hr; rw [← hr.1]
        apply bufInv_maybeFree
        exact bufInv_setPort _ p _ h (h p c hl)
    · simp at hr
  | receiverClosed p =>
    simp only [handleEvt] at hr
    split at hr
    · rename_i c hl
      split at hr
      · simp at hr
      · simp only [Option.some.injEq, Prod.mk.injEq] at hr; rw [← hr.1]
        exact bufInv_setPort _ p _ h (h p c hl)
    · simp at hr
  | receiverDropped p =>
    simp only [handleEvt] at hr
    split at hr
    · rename_i c hl
      split at hr
      · simp at hr
      · simp only [Option.some.injEq, Prod.mk.injEq] at hr; rw [← hr.1]
        apply bufInv_maybeFree
        exact bufInv_setPort _ p _ h (h p c hl)
    · simp at hr
  | allClientsDropped =>
    simp only [handleEvt] at hr
    split at hr
    · simp at hr
    · simp only [Option.some.injEq, Prod.mk.injEq] at hr; rw [← hr.1]; exact bufInv_congr e _ rfl rfl h
  | listenerDropped =>
    simp only [handleEvt] at hr
    split at hr
    · simp at hr
    · simp only [Option.some.injEq, Prod.mk.injEq] at hr; rw [← hr.1]; exact bufInv_congr e _ rfl rfl h
  | sendGoodbye =>
    simp only [handleEvt] at hr
    split at hr
    · simp at hr
    · simp only [Option.some.injEq, Prod.mk.injEq] at hr; rw [← hr.1]; exact bufInv_congr e _ rfl rfl h

/-- Everything that can happen to an endpoint: a message from the (arbitrary) peer, a `Data`
message with its payload length, a local event, a local receive call. -/
inductive Input where
  | rx (m : Msg)
  | rxData (port len : Nat)
  | evt (ev : Evt)
  | consume (port : Nat)
deriving Repr

/-- Run an input sequence; an input that terminates the dispatcher (`handleRx` error) or that the
local API objects cannot produce ends the run. -/
def runEp (e : Ep) : List Input → Ep
  | [] => e
  | .rx m :: rest => match handleRx e m with | .ok (e', _) => runEp e' rest | .error _ => e
  | .rxData p n :: rest => match handleData e p n with | .ok e' => runEp e' rest | .error _ => e
  | .evt ev :: rest => match handleEvt e ev with | some (e', _) => runEp e' rest | none => e
  | .consume p :: rest => match handleConsume e p with | some e' => runEp e' rest | none => e

theorem bufInv_run (e : Ep) (ins : List Input) (h : BufInv e) : BufInv (runEp e ins) := by
  induction ins generalizing e with
  | nil => exact h
  | cons i rest ih =>
    cases i with
    | rx m =>
      simp only [runEp]; split
      · rename_i e' em hr; exact ih e' (bufInv_handleRx e e' m em h hr)
      · exact h
    | rxData p n =>
      simp only [runEp]; split
      · rename_i e' hr; exact ih e' (bufInv_handleData e e' p n h hr)
      · exact h
    | evt ev =>
      simp only [runEp]; split
      · rename_i e' m hr; exact ih e' (bufInv_handleEvt e e' ev m h hr)
      · exact h
    | consume p =>
      simp only [runEp]; split
      · rename_i e' hr; exact ih e' (bufInv_handleConsume e e' p h hr)
      · exact h

/-- **Bounded buffering.**  Whatever sequence of frames the peer sends (malformed ones aside,
which terminate the connection), interleaved in any way with local events and receive calls, every
port holds at most its advertised receive buffer in undelivered data and at most that many + 1
queued messages. -/
theorem buffer_bounded (cfg : EpCfg) (ins : List Input) (p : Nat) (c : Connected)
    (h : lookup (runEp { cfg := cfg } ins).ports p = some (.connected c)) :
    c.used ≤ cfg.buf ∧ c.rxq.length ≤ cfg.buf + 1 := by
  have h0 : BufInv ({ cfg := cfg } : Ep) := by intro q c hq; simp [lookup] at hq
  have hcfg : ∀ (e : Ep) (is : List Input), (runEp e is).cfg = e.cfg := by
    intro e is
    induction is generalizing e with
    | nil => rfl
    | cons i rest ih =>
      cases i <;> simp only [runEp] <;> split <;> try rfl
      · rename_i m e' em hr
        rw [ih e']
        cases m <;> simp only [handleRx] at hr <;> (repeat' split at hr) <;>
          first
            | (simp at hr; done)
            | (simp only [Except.ok.injEq, Prod.mk.injEq] at hr; rw [← hr.1]; try simp only [maybeFree]; (repeat' split) <;> rfl)
      · rename_i p n e' hr
        rw [ih e']
        simp only [handleData] at hr
        (repeat' split at hr) <;> first
          | (simp at hr; done)
          | (simp only [Except.ok.injEq] at hr; rw [← hr])
      · rename_i ev e' m hr
        rw [ih e']
        cases ev <;> simp only [handleEvt] at hr <;> (repeat' split at hr) <;>
          first
            | (simp at hr; done)
            | (simp only [Option.some.injEq, Prod.mk.injEq] at hr; rw [← hr.1]; try simp only [maybeFree]; (repeat' split) <;> rfl)
      · rename_i p e' hr
        rw [ih e']
        simp only [handleConsume] at hr
        (repeat' split at hr) <;> first
          | (simp at hr; done)
          | (simp only [Option.some.injEq] at hr; rw [← hr])
  have hi := bufInv_run _ ins h0 p c h
  rw [hcfg] at hi
  refine ⟨hi.1, ?_⟩
  have := length_le_sum_add_zeros c.rxq
  have h2 := hi.2
  have h1 := hi.1
  simp only [Connected.used] at h1
  split at h2 <;> omega

/-- the port table and the allocator of `e'` hold nothing that `e` does not hold -/
def PortsSub (e' e : Ep) : Prop :=
  (∀ p, (lookup e'.ports p).isSome → (lookup e.ports p).isSome) ∧ (∀ p, p ∈ e'.allocated → p ∈ e.allocated)

theorem portsSub_refl (e : Ep) : PortsSub e e := ⟨fun _ h => h, fun _ h => h⟩

theorem portsSub_trans (a b c : Ep) (h1 : PortsSub a b) (h2 : PortsSub b c) : PortsSub a c :=
  ⟨fun p h => h2.1 p (h1.1 p h), fun p h => h2.2 p (h1.2 p h)⟩

theorem portsSub_set (e e' : Ep) (p : Nat) (st0 st : PortSt) (hl : lookup e.ports p = some st0)
    (hp : e'.ports = setPort e.ports p st) (ha : e'.allocated = e.allocated) : PortsSub e' e := by
  refine ⟨fun q hq => ?_, fun q hq => by rw [ha] at hq; exact hq⟩
  rw [hp, lookup_setPort] at hq
  by_cases hqp : q = p
  · rw [hqp, hl]; rfl
  · simpa [hqp] using hq

theorem portsSub_erase (e e' : Ep) (p : Nat) (hp : e'.ports = erase e.ports p)
    (ha : e'.allocated = e.allocated.filter (· != p)) : PortsSub e' e := by
  refine ⟨fun q hq => ?_, fun q hq => ?_⟩
  · rw [hp, lookup_erase] at hq
    by_cases hqp : q = p
    · simp [hqp] at hq
    · simpa [hqp] using hq
  · rw [ha] at hq; exact (List.mem_filter.mp hq).1

theorem portsSub_maybeFree (e : Ep) (p : Nat) : PortsSub (maybeFree e p) e := by
  unfold maybeFree
  split
  · split
    · exact portsSub_erase e _ p rfl rfl
    · exact portsSub_refl e
  · exact portsSub_refl e

/-- **The peer cannot make the endpoint open ports.**  Handling a received message never adds an
entry to the port table or to the allocator: ports come into existence only through local calls. -/
theorem peer_cannot_open_ports (e e' : Ep) (m : Msg) (em : Emit) (hr : handleRx e m = .ok (e', em)) :
    PortsSub e' e := by
  cases m with
  | reset => simp [handleRx] at hr
  | hello v c => simp [handleRx] at hr
  | ping => simp only [handleRx, Except.ok.injEq, Prod.mk.injEq] at hr; rw [← hr.1]; exact portsSub_refl e
  | data p f l => simp only [handleRx, Except.ok.injEq, Prod.mk.injEq] at hr; rw [← hr.1]; exact portsSub_refl e
  | listenerFinish =>
    simp only [handleRx, Except.ok.injEq, Prod.mk.injEq] at hr; rw [← hr.1]; exact ⟨fun _ h => h, fun _ h => h⟩
  | goodbye =>
    simp only [handleRx, Except.ok.injEq, Prod.mk.injEq] at hr; rw [← hr.1]; exact ⟨fun _ h => h, fun _ h => h⟩
  | clientFinish =>
    simp only [handleRx] at hr
    (repeat' split at hr) <;> first
      | (simp at hr; done)
      | (simp only [Except.ok.injEq, Prod.mk.injEq] at hr; rw [← hr.1]; exact ⟨fun _ h => h, fun _ h => h⟩)
  | openPort cp w id =>
    simp only [handleRx] at hr
    (repeat' split at hr) <;> first
      | (simp at hr; done)
      | (simp only [Except.ok.injEq, Prod.mk.injEq] at hr; rw [← hr.1]; exact ⟨fun _ h => h, fun _ h => h⟩)
  | portOpened cp sp =>
    simp only [handleRx] at hr
    split at hr
    · rename_i hl
      simp only [Except.ok.injEq, Prod.mk.injEq] at hr; rw [← hr.1]
      exact portsSub_set e _ cp _ _ hl rfl rfl
    · simp at hr
  | rejected cp np =>
    simp only [handleRx] at hr
    split at hr
    · simp only [Except.ok.injEq, Prod.mk.injEq] at hr; rw [← hr.1]
      exact portsSub_erase e _ cp rfl rfl
    · simp at hr
  | portData p f l w ps ids =>
    simp only [handleRx] at hr
    split at hr
    · rename_i c hl
      (repeat' split at hr) <;> first
        | (simp at hr; done)
        | (simp only [Except.ok.injEq, Prod.mk.injEq] at hr; rw [← hr.1]
           exact portsSub_set e _ p _ _ hl rfl rfl)
    · simp at hr
  | portCredits p n =>
    simp only [handleRx] at hr
    split at hr
    · rename_i c hl
      split at hr
      · simp at hr
      · simp only [Except.ok.injEq, Prod.mk.injEq] at hr; rw [← hr.1]
        exact portsSub_set e _ p _ _ hl rfl rfl
    · simp at hr
  | sendFinish p =>
    simp only [handleRx] at hr
    split at hr
    · rename_i c hl
      split at hr
      · simp at hr
      · simp only [Except.ok.injEq, Prod.mk.injEq] at hr; rw [← hr.1]
        exact portsSub_trans _ _ _ (portsSub_maybeFree _ p) (portsSub_set e _ p _ _ hl rfl rfl)
    · simp at hr
  | receiveClose p =>
    simp only [handleRx] at hr
    split at hr
    · rename_i c hl
      split at hr
      · simp at hr
      · simp only [Except.ok.injEq, Prod.mk.injEq] at hr; rw [← hr.1]
        exact portsSub_trans _ _ _ (portsSub_maybeFree _ p) (portsSub_set e _ p _ _ hl rfl rfl)
    · simp at hr
  | receiveFinish p =>
    simp only [handleRx] at hr
    split at hr
    · rename_i c hl
      simp only [Except.ok.injEq, Prod.mk.injEq] at hr; rw [← hr.1]
      exact portsSub_trans _ _ _ (portsSub_maybeFree _ p) (portsSub_set e _ p _ _ hl rfl rfl)
    · simp at hr

/-- **Listener queues are bounded.**  A message is only queued for the listener while fewer than
`connect_queue + 1` entries wait in that queue; otherwise the connection is terminated. -/
theorem listen_queue_bounded (e e' : Ep) (m : Msg) (em : Emit) (w : Bool)
    (h : queuedFor e w ≤ e.cfg.cq + 1) (hr : handleRx e m = .ok (e', em)) :
    queuedFor e' w ≤ e'.cfg.cq + 1 := by
  have hmf : ∀ (e1 : Ep) (p : Nat), queuedFor (maybeFree e1 p) w = queuedFor e1 w ∧ (maybeFree e1 p).cfg = e1.cfg := by
    intro e1 p; unfold maybeFree; (repeat' split) <;> simp [queuedFor]
  cases m with
  | reset => simp [handleRx] at hr
  | hello v c => simp [handleRx] at hr
  | openPort cp wt id =>
    simp only [handleRx] at hr
    split at hr
    · simp at hr
    · split at hr
      · simp only [Except.ok.injEq, Prod.mk.injEq] at hr; rw [← hr.1]; simpa [queuedFor] using h
      · split at hr
        · simp at hr
        · rename_i hfull
          simp only [Except.ok.injEq, Prod.mk.injEq] at hr; rw [← hr.1]
          simp only [queuedFor, List.filter_append, List.length_append] at hfull h ⊢
          by_cases hw : wt = w
          · subst hw; simp [List.filter] at hfull ⊢; omega
          · have : (wt == w) = false := by simp [hw]
            simp [List.filter, this]; omega
  | clientFinish =>
    simp only [handleRx] at hr
    split at hr
    · simp only [Except.ok.injEq, Prod.mk.injEq] at hr; rw [← hr.1]; simpa [queuedFor] using h
    · split at hr
      · simp at hr
      · rename_i hfull
        simp only [Except.ok.injEq, Prod.mk.injEq] at hr; rw [← hr.1]
        simp only [queuedFor] at hfull h ⊢
        cases w <;> simp at hfull ⊢ <;> omega
  | ping => simp only [handleRx, Except.ok.injEq, Prod.mk.injEq] at hr; rw [← hr.1]; exact h
  | data p f l => simp only [handleRx, Except.ok.injEq, Prod.mk.injEq] at hr; rw [← hr.1]; exact h
  | listenerFinish =>
    simp only [handleRx, Except.ok.injEq, Prod.mk.injEq] at hr; rw [← hr.1]; simpa [queuedFor] using h
  | goodbye =>
    simp only [handleRx, Except.ok.injEq, Prod.mk.injEq] at hr; rw [← hr.1]; simpa [queuedFor] using h
  | portOpened cp sp =>
    simp only [handleRx] at hr
    split at hr
    · simp only [Except.ok.injEq, Prod.mk.injEq] at hr; rw [← hr.1]; simpa [queuedFor] using h
    · simp at hr
  | rejected cp np =>
    simp only [handleRx] at hr
    split at hr
    · simp only [Except.ok.injEq, Prod.mk.injEq] at hr; rw [← hr.1]; simpa [queuedFor] using h
    · simp at hr
  | portData p f l wt ps ids =>
    simp only [handleRx] at hr
    (repeat' split at hr) <;> first
      | (simp at hr; done)
      | (simp only [Except.ok.injEq, Prod.mk.injEq] at hr; rw [← hr.1]; simpa [queuedFor] using h)
  | portCredits p n =>
    simp only [handleRx] at hr
    (repeat' split at hr) <;> first
      | (simp at hr; done)
      | (simp only [Except.ok.injEq, Prod.mk.injEq] at hr; rw [← hr.1]; simpa [queuedFor] using h)
  | sendFinish p =>
    simp only [handleRx] at hr
    (repeat' split at hr) <;> first
      | (simp at hr; done)
      | (simp only [Except.ok.injEq, Prod.mk.injEq] at hr; rw [← hr.1, (hmf _ p).1, (hmf _ p).2]
         simpa [queuedFor] using h)
  | receiveClose p =>
    simp only [handleRx] at hr
    (repeat' split at hr) <;> first
      | (simp at hr; done)
      | (simp only [Except.ok.injEq, Prod.mk.injEq] at hr; rw [← hr.1, (hmf _ p).1, (hmf _ p).2]
         simpa [queuedFor] using h)
  | receiveFinish p =>
    simp only [handleRx] at hr
    (repeat' split at hr) <;> first
      | (simp at hr; done)
      | (simp only [Except.ok.injEq, Prod.mk.injEq] at hr; rw [← hr.1, (hmf _ p).1, (hmf _ p).2]
         simpa [queuedFor] using h)

/-! ### non-vacuity: a concrete hostile sequence -/

def hCfg : EpCfg := { maxPorts := 4, cq := 1, chunk := 8, buf := 8, remoteCq := 1, remoteBuf := 8 }

/-- the peer opens a port, the listener accepts it as local port 50, the peer sends 8 bytes within
credit: accepted and buffered; one more byte exceeds the credit: the dispatcher terminates -/
def hRun : List Input :=
  [.rx (.openPort 7 true none), .evt (.accepted 50 7), .rxData 50 8]

example : (lookup (runEp { cfg := hCfg } hRun).ports 50).map (fun st => match st with | .connected c => c.rxq | _ => []) = some [8] := by
  decide
example : handleData (runEp { cfg := hCfg } hRun) 50 1 = .error .protocol := by rfl
example : handleRx (runEp { cfg := hCfg } hRun) (.portData 50 true true false [] none) = .error .protocol := by rfl

end Remoc.Table

/-! ## The conforming-peer side: two endpoints of the system model (`Table/Conn.lean`) -/

namespace Remoc.Table.Sys
open Remoc.Wire Remoc.Table

/-- **Between conforming endpoints no protocol error can fire** (all interleavings, any `max_ports`
and `connect_queue` per side).  In every reachable state of the two-endpoint system the message at
the head of either wire is handled by `handle_received_msg` without an error: no "too many OpenPort
requests", no `OpenPort` for a port already outstanding, no answer for a port that is not
connecting, no port message for a port that is not connected or whose flag is already set. -/
theorem conforming_no_protocol_error (mpA cqA mpB cqB : Nat) (ls : List (Who × Lab)) (x : Who) (m : Msg)
    (rest : List Msg) :
    let s := run (init mpA cqA mpB cqB) ls
    wireTo s x = m :: rest → ∃ e' em, handleRx (side s x).rxView m = .ok (e', em) := by
  intro s hw
  have hi := inv3_run _ ls (inv3_init mpA cqA mpB cqB)
  cases x with
  | A =>
    simp only [wireTo] at hw
    have h1 := hi.i2.r.ba; have h2 := hi.i2.r.ab; have h3 := hi.i2.pba; have h4 := hi.fba
    have hc := hi.i2.r.wa m (by rw [hw]; simp)
    rw [hw] at h1 h2 h3 h4
    exact rx_ok s.b s.a m rest s.toB h1 h2 h3 h4 hc
  | B =>
    simp only [wireTo] at hw
    have h1 := hi.i2.r.ab; have h2 := hi.i2.r.ba; have h3 := hi.i2.pab; have h4 := hi.fab
    have hc := hi.i2.r.wb m (by rw [hw]; simp)
    rw [hw] at h1 h2 h3 h4
    exact rx_ok s.a s.b m rest s.toA h1 h2 h3 h4 hc

/-- so the `deliver` label is enabled whenever a wire is not empty and the reader has not seen
`Goodbye`: the model never gets stuck on a received message -/
theorem deliver_enabled (mpA cqA mpB cqB : Nat) (ls : List (Who × Lab)) (x : Who) :
    let s := run (init mpA cqA mpB cqB) ls
    wireTo s x ≠ [] → (side s x).ep.goodbyeReceived = false → (step s x .deliver).isSome := by
  intro s hne hg
  cases hw : wireTo s x with
  | nil => exact absurd hw hne
  | cons m rest =>
    obtain ⟨e', em, he⟩ := conforming_no_protocol_error mpA cqA mpB cqB ls x m rest hw
    cases x with
    | A =>
      simp only [wireTo] at hw; simp only [side] at hg he
      have he' : handleRx s.a.rxView m = .ok (e', em) := he
      simp [step, stepSide, hw, hg, he']
    | B =>
      simp only [wireTo] at hw; simp only [side] at hg he
      have he' : handleRx s.b.rxView m = .ok (e', em) := he
      simp [step, stepSide, hw, hg, he']

/-- non-vacuity: a state with an `OpenPort` at the head of the wire towards B while B's listener
queue already holds a request (cq of B is 2) -/
example :
    let s := run (init 4 2 4 2) [(.A, .startConnect 1 true), (.A, .startConnect 2 false), (.A, .dispConn),
      (.B, .deliver), (.A, .dispConn)]
    s.toB = [.openPort 2 false (some 2)] ∧ s.b.ep.listenQ = [(1, true)] ∧ (step s .B .deliver).isSome := by
  decide

end Remoc.Table.Sys

namespace Remoc.Table.Sys
open Remoc.Wire Remoc.Table

/-- **No event that the API objects of a conforming application queue makes the dispatcher panic**
(all interleavings): in every reachable state the head of `connect_rx` and the head of `channel_rx`
of either side are handled by `handle_event` (`handleEvt … = some …`): a connect request names an
unused port, an accept/reject names an outstanding request and an unused port, a
`SenderDropped` / `ReceiverClosed` / `ReceiverDropped` names a connected port whose flag is not set
yet.  The events the dispatcher raises itself (`ListenerDropped`, `SendGoodbye`) are guarded by
their flags in `stepSide`. -/
theorem conforming_no_panic (mpA cqA mpB cqB : Nat) (ls : List (Who × Lab)) (x : Who) (ev : Evt) (rest : List Evt) :
    let s := run (init mpA cqA mpB cqB) ls
    ((side s x).connQ = ev :: rest ∨ (side s x).portQ = ev :: rest) → (handleEvt (side s x).ep ev).isSome = true := by
  intro s hq
  have hi := inv4_run _ ls (inv4_init mpA cqA mpB cqB)
  cases x with
  | A =>
    obtain ⟨h1, h2⟩ := evt_ok s.b s.a s.toA s.toB hi.i3.i2.r.ba hi.i3.i2.r.qa hi.i3.ca hi.aa hi.ha
    rcases hq with hq | hq
    · exact h1 ev rest hq
    · exact h2 ev rest hq
  | B =>
    obtain ⟨h1, h2⟩ := evt_ok s.a s.b s.toB s.toA hi.i3.i2.r.ab hi.i3.i2.r.qb hi.i3.cb hi.ab hi.hb
    rcases hq with hq | hq
    · exact h1 ev rest hq
    · exact h2 ev rest hq

end Remoc.Table.Sys
