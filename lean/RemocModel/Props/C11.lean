import RemocModel.Link.CloseInv
import RemocModel.Link.Relay
import RemocModel.Link.LrClass
import RemocModel.Link.ForwardClose2
import RemocModel.Props.C01
import RemocModel.Base.CloseProv
import RemocModel.Base.CloseList
import RemocModel.Base.CloseQuiet
import RemocModel.Base.CloseAll
import RemocModel.Base.CloseOnce
set_option linter.unusedSimpArgs false

/-!
# C11 — close and drop reach the other half, correctly classified, losing no sent data

Theorems about M_link for every schedule, with `close`, `dropReceiver`, `dropSender` at any
position of a message stream (also in the middle of a chunked message).

* `eos_after_all_data` — when the receiver is told end-of-stream, it has obtained every completed send
  (`SendFinish` travels in the same FIFO as the data that preceded it and nothing is emitted after it);
* `close_loses_nothing` — closing or dropping the receiver never invalidates C01: whatever was
  completed and gets consumed is delivered exactly;
* `close_classified` — `ReceiveClose` closes the sender's credit provider *gracefully*,
  `ReceiveFinish` *non-gracefully*, the first of the two decides; afterwards no new credits can be
  obtained (`closed_blocks_requests`) and a waiting or later operation fails (`closed_enables_fail`).

The queued typed channels (`rch::mpsc`, `rch::oneshot`) have their own model M_close
(`RemocModel/Base/Close*.lean`: local queue with `Sending` handles, `send_impl`, `recv_impl`, back
channel, receiver `close()` / drop, sender clones local and remote, connection failure); the
theorems are in the second half of this file (namespace `Remoc.Close`).  `rch::lr` is a base
channel over one port: its statements are the M_link theorems above, read through `lrReason`.
-/

namespace Remoc.Link

theorem finv_reachable (c : Cfg) (st : State) (h : Reachable c st) : FInv st := by
  obtain ⟨ls, rfl⟩ := h
  exact finv_run c _ ls (finv_init c)

/-- **End-of-stream only after everything that was sent.**  If a receive call returned
end-of-stream (or the receiver is marked finished) then the receiver has consumed every emitted
frame, so the messages it obtained — plus a completed chunked message it is still draining — are
exactly the completed sends. -/
theorem eos_after_all_data (c : Cfg) (st : State) (h : Reachable c st)
    (heos : Out.eos ∈ st.outs ∨ st.r.finished = true) :
    st.consumed = st.emitted ∧ st.delivered ++ pendingMsg st = st.completed := by
  have fi := finv_reachable c st h
  have hfin := fi.eos heos
  have hpre := consumed_prefix_of_emitted c st h
  -- `finish` is in the consumed prefix and is the last emitted frame: the prefix is everything
  have hrest : st.r.queue ++ st.chan = [] := by
    obtain ⟨pre, post, hsp⟩ := List.append_of_mem hfin
    have := fi.last pre (post ++ (st.r.queue ++ st.chan)) (by rw [hpre, hsp]; simp)
    simpa using (List.append_eq_nil_iff.mp this).2
  have hce : st.consumed = st.emitted := by rw [hpre, hrest, List.append_nil]
  refine ⟨hce, ?_⟩
  rw [← receiver_delivers_consumed c st h, hce, sender_emits_completed c st h]

/-- **Close and drop lose nothing.**  The delivery theorems of C01 hold in states where the receiver
was closed or dropped and the sender learned of it: what the receiver obtained is always a prefix of
the completed sends, and everything once nothing is left in flight or queued. -/
theorem close_loses_nothing (c : Cfg) (st : State) (h : Reachable c st) :
    (∃ rest, st.delivered ++ rest = st.completed) ∧
    (st.chan = [] → st.r.queue = [] → pendingMsg st = [] → st.delivered = st.completed) :=
  ⟨delivery_exact c st h, delivery_complete c st h⟩

/-- **Classification.**  Handling `ReceiveClose` marks the sender's credit provider closed
gracefully, `ReceiveFinish` non-gracefully; the first one wins. -/
theorem close_classified (c : Cfg) (st st' : State) (b : Back) (bs : List Back)
    (hb : st.back = b :: bs) (hs : step c st .provide = some st') :
    st'.s.closed = match b, st.s.closed with
      | .recvClose, none => some true
      | .recvFinish, none => some false
      | _, cl => cl := by
  simp only [step, hb] at hs
  cases b with
  | credits n => simp only [Option.some.injEq] at hs; rw [← hs]
  | recvClose =>
    simp only [Option.some.injEq] at hs; rw [← hs]
    cases hcl : st.s.closed <;> simp [hcl]
  | recvFinish =>
    simp only [Option.some.injEq] at hs; rw [← hs]
    cases hcl : st.s.closed <;> simp [hcl]

/-- once closed, no operation obtains credits any more — unless the sender runs with
`override_graceful_close` (`c.ovr`, set by `chmux::forward`) and the close was graceful … -/
theorem closed_blocks_requests (c : Cfg) (st : State) (g : Bool) (h : st.s.closed = some g)
    (hov : c.ovr = false ∨ g = false) : step c st .request = none := by
  simp only [step]
  split
  · rfl
  · rcases hov with hov | hov <;> simp [Sender.mayRequest, Sender.open, h, hov]

/-- … and an operation that needs credits fails instead of waiting -/
theorem closed_enables_fail (c : Cfg) (st : State) (g : Bool) (x : Xfer) (h : st.s.closed = some g)
    (hov : c.ovr = false ∨ g = false)
    (hcur : st.s.cur = some x) (hheld : st.s.held = 0) : (step c st .fail).isSome = true := by
  rcases hov with hov | hov <;> simp [step, hcur, hheld, Sender.mayRequest, Sender.open, h, hov]

/-- **Graceful-close override** (`Sender::set_override_graceful_close`, used by `chmux::forward`): a sender
with the override keeps obtaining credits after a *graceful* close (`ReceiveClose`) and its operations do
not fail; only a non-graceful close (`ReceiveFinish`: receiver dropped) stops it. -/
theorem override_keeps_sending (c : Cfg) (st : State) (x : Xfer) (hov : c.ovr = true)
    (h : st.s.closed = some true) (hcur : st.s.cur = some x) :
    step c st .fail = none ∧
    (st.s.held = 0 → x.want.2 ≤ st.s.pool → (step c st .request).isSome = true) := by
  constructor
  · simp [step, hcur, Sender.mayRequest, Sender.open, h, hov]
  · intro hh hp
    simp only [step, hcur]
    rw [if_pos ⟨hh, by simp [Sender.mayRequest, h, hov], hp⟩]
    rfl

/-- messages whose transmission completed before the sender learned of the close are not affected:
`provide` of a close notification changes neither what was emitted nor what was completed -/
theorem close_keeps_completed (c : Cfg) (st st' : State) (hs : step c st .provide = some st') :
    st'.emitted = st.emitted ∧ st'.completed = st.completed ∧ st'.chan = st.chan := by
  simp only [step] at hs
  split at hs
  · simp at hs
  · split at hs <;> (obtain rfl := Option.some.inj hs; exact ⟨rfl, rfl, rfl⟩)

/-! ### non-vacuity -/

def c11 : Cfg := { chunk := 4, limit := 8, maxData := 100, maxPorts := 8 }

/-- two messages, the receiver closes after the first was sent; the sender completes the second before
it learns of the close; both are delivered; the third send fails gracefully; the sender is dropped;
the receiver sees end-of-stream after both messages -/
def closeRun : List Label :=
  [.startSend [1, 2], .request, .emit, .close, .startSend [3], .request, .emit, .provide,
   .startSend [4], .fail, .dropSender, .muxRecv, .muxRecv, .muxRecv, .recvAny, .recvAny, .recvAny]

example : (run c11 (init c11) closeRun).completed = [[1, 2], [3]] ∧
    (run c11 (init c11) closeRun).delivered = [[1, 2], [3]] ∧
    (run c11 (init c11) closeRun).s.closed = some true ∧
    Out.eos ∈ (run c11 (init c11) closeRun).outs := by decide

/-! ### across a port forwarder (`chmux::forward`, `RemocModel/Link/Relay.lean`) -/

/-- **The forwarder relays a prefix.**  What the forwarder completed sending downstream is, in order,
a prefix of the messages it received upstream: it never invents, duplicates, reorders or skips. -/
theorem relay_forwarded_prefix (ca cb : Cfg) (r : Relay) (h : RReachable ca cb r) :
    ∃ k, k ≤ r.fwd ∧ r.b.completed = r.a.delivered.take k := by
  obtain ⟨_, _, _, _, k, hk, hc, _⟩ := rinvariant_reachable ca cb r h
  exact ⟨k, hk, hc⟩

/-- **Exactly-once, in order, byte-exact across a forwarder.**  In every reachable state of origin link,
forwarder and destination link, what the destination obtained is a prefix of the sends completed at the
origin — whatever the sizes, configurations of both links, schedules, cancellations at the origin, closes
and drops on either link, and wherever the forwarder stops. -/
theorem relay_exact (ca cb : Cfg) (r : Relay) (h : RReachable ca cb r) :
    ∃ rest, r.b.delivered ++ rest = r.a.completed := by
  obtain ⟨ha, hb⟩ := relay_links_reachable ca cb r h
  obtain ⟨k, _, hk⟩ := relay_forwarded_prefix ca cb r h
  obtain ⟨r1, h1⟩ := delivery_exact cb r.b hb
  obtain ⟨r2, h2⟩ := delivery_exact ca r.a ha
  refine ⟨r1 ++ (r.a.delivered.drop k ++ r2), ?_⟩
  rw [← List.append_assoc, h1, hk, ← List.append_assoc, List.take_append_drop, h2]

/-- **Complete at quiescence.**  With nothing in flight or queued on either link, the forwarder idle
between sends and still running, and both receiving callers done with their current message, the
destination has obtained every send completed at the origin. -/
theorem relay_complete (ca cb : Cfg) (r : Relay) (h : RReachable ca cb r)
    (ha1 : r.a.chan = []) (ha2 : r.a.r.queue = []) (ha3 : pendingMsg r.a = [])
    (hb1 : r.b.chan = []) (hb2 : r.b.r.queue = []) (hb3 : pendingMsg r.b = [])
    (hrun : r.stopped = false) (hidle : r.b.s.cur = none) (hall : r.fwd = r.a.delivered.length) :
    r.b.delivered = r.a.completed := by
  obtain ⟨ha, hb⟩ := relay_links_reachable ca cb r h
  obtain ⟨_, _, _, _, k, _, hc, hr⟩ := rinvariant_reachable ca cb r h
  have hk : k = r.fwd := by
    rcases hr hrun with ⟨_, h2⟩ | ⟨h1, _, _⟩
    · exact h2
    · simp [hidle] at h1
  rw [delivery_complete cb r.b hb hb1 hb2 hb3, hc, hk, hall, List.take_length,
      delivery_complete ca r.a ha ha1 ha2 ha3]


/-- non-vacuity: a two-byte message travels origin → forwarder → destination -/
def relayCfg : Cfg := { chunk := 4, limit := 8, maxData := 16, maxPorts := 8 }
def relayRun : List RLabel :=
  [.up (.startSend [1, 2]), .up .request, .up .emit, .up .muxRecv, .up .recvAny,
   .relayStart, .down .request, .down .emit, .down .muxRecv, .down .recvAny]
example : (rrun relayCfg relayCfg (rinit relayCfg relayCfg) relayRun).b.delivered = [[1, 2]] ∧
    (rrun relayCfg relayCfg (rinit relayCfg relayCfg) relayRun).a.completed = [[1, 2]] := by decide

/-! ### `rch::lr` / `rch::base`: a typed channel directly on one port (no local queue)

`lr::Sender::send` = `base::Sender::send` = serialize + `chmux::Sender::send`; a value is accepted exactly
when its transmission completed, so there is no untransmitted suffix, `close_loses_nothing` /
`eos_after_all_data` are the "keeps what was transmitted" statements, and the classification of the
send error (`SendErrorKind::Send(Closed { gracefully })`, `lr::Sender::is_closed`) is the state of the
credit provider: -/

/-- what an `lr` / `base` sender reports once its credit provider is closed -/
def lrReason : Option Bool → Option Remoc.Close.Reason
  | some true => some .closed
  | some false => some .dropped
  | none => none

/-- **lr/base classification, first cause wins**: handling `ReceiveClose` makes the sender report
`Closed`, `ReceiveFinish` `Dropped`, unless it already reports a reason -/
theorem lr_closed_classified (c : Cfg) (st st' : State) (b : Back) (bs : List Back)
    (hb : st.back = b :: bs) (hs : step c st .provide = some st') :
    lrReason st'.s.closed = match lrReason st.s.closed, b with
      | some r, _ => some r
      | none, .recvClose => some .closed
      | none, .recvFinish => some .dropped
      | none, _ => none := by
  rw [close_classified c st st' b bs hb hs]
  cases b <;> cases hcl : st.s.closed <;> (try (rename_i g; cases g)) <;> simp [lrReason]

example : lrReason (run c11 (init c11) closeRun).s.closed = some .closed := by decide

/-- **lr/base: the reported reason is the right one, for every schedule.**  The sender reports `Closed`
only if the receiver called `close()` (before any drop), `Dropped` only if the receiver was dropped
without a close before; and once every notification on the way back has been handled it reports
exactly what the receiving side did first (eventually observable). -/
theorem lr_classification_exact (c : Cfg) (st : State) (h : Reachable c st) :
    (lrReason st.s.closed = some .closed → st.r.closed = true) ∧
    (lrReason st.s.closed = some .dropped → st.r.closed = false ∧ st.r.dropped = true) ∧
    (st.back = [] → lrReason st.s.closed =
      (if st.r.closed then some .closed else if st.r.dropped then some .dropped else none)) := by
  have hv := lr_view_reachable c st h
  unfold lrView rxView at hv
  refine ⟨?_, ?_, ?_⟩
  · intro hc
    cases hs : st.s.closed with
    | none => simp [hs, lrReason] at hc
    | some g =>
      cases g with
      | false => simp [hs, lrReason] at hc
      | true =>
        rw [hs] at hv
        cases hrc : st.r.closed with
        | true => rfl
        | false => cases hrd : st.r.dropped <;> simp [hrc, hrd] at hv
  · intro hc
    cases hs : st.s.closed with
    | none => simp [hs, lrReason] at hc
    | some g =>
      cases g with
      | true => simp [hs, lrReason] at hc
      | false =>
        rw [hs] at hv
        cases hrc : st.r.closed with
        | true => simp [hrc] at hv
        | false => cases hrd : st.r.dropped <;> simp [hrc, hrd] at hv ⊢
  · intro hb
    rw [hb] at hv
    cases hs : st.s.closed with
    | none =>
      rw [hs] at hv
      simp only [firstEnd] at hv
      cases hrc : st.r.closed <;> cases hrd : st.r.dropped <;> simp [hrc, hrd, lrReason] at hv ⊢
    | some g =>
      rw [hs] at hv
      cases g <;> cases hrc : st.r.closed <;> cases hrd : st.r.dropped <;> simp [hrc, hrd, lrReason] at hv ⊢
/-! ### across `chmux::forward` at chunk granularity (`RemocModel/Link/Forward.lean`)

`FReachable v ca cb f` quantifies over every schedule of origin, upstream link, forwarding loop, downstream
link and destination: every sequence of whole sends, chunk streams (any chunking) and port batches at the
origin, cancels at every await of the origin's sends, every `max_data_size` of the forwarder's receiver (which
decides whether a message reaches it as `Received::Data` or `Received::Chunks`), closes and drops on either
link, loss of either connection in any phase. -/

/-- **Chunk-by-chunk forwarding is exact.**  In every reachable state
(1) the messages whose transmission the forwarder *completed* downstream are, byte for byte and in order, a
    prefix of the ideal reassembly (`parse none`, C01) of the upstream frames it consumed — whatever their
    chunking, and whichever chunk streams were cancelled;
(2) between two messages (`idle`) they are equal to it;
(3) what the destination obtained is a prefix of the sends completed at the origin;
(4) at quiescence of both links with the forwarder idle the destination has obtained all of them. -/
theorem forward_chunks_exact (v : Pairing) (ca cb : Cfg) (f : Fwd) (h : FReachable v ca cb f) :
    (∃ rest, f.b.completed ++ rest = parse none f.a.consumed) ∧
    (f.ph = .idle → f.b.completed = parse none f.a.consumed) ∧
    (∃ rest, f.b.delivered ++ rest = f.a.completed) ∧
    (f.ph = .idle → f.a.chan = [] → f.a.r.queue = [] → f.b.chan = [] → f.b.r.queue = [] → pendingMsg f.b = [] →
      f.b.delivered = f.a.completed) := by
  obtain ⟨⟨_, _, hrel⟩, ha, hb⟩ := fjoint_reachable v ca cb f h
  have hrc := receiver_delivers_consumed ca f.a ha
  obtain ⟨k, hk⟩ := rel_pre _ _ _ _ _ hrel
  have idleFacts : f.ph = .idle → f.a.partialMsg = none ∧ f.b.completed = f.a.delivered := by
    intro hph; rw [hph] at hrel; exact hrel
  have pend0 : f.a.partialMsg = none → pendingMsg f.a = [] := by
    intro hp; unfold pendingMsg; rw [hp]; split <;> simp_all
  refine ⟨⟨f.a.delivered.drop k ++ pendingMsg f.a, ?_⟩, ?_, ?_, ?_⟩
  · rw [hrc, hk, ← List.append_assoc, List.take_append_drop]
  · intro hph
    obtain ⟨hp, hc⟩ := idleFacts hph
    rw [hrc, pend0 hp, List.append_nil, hc]
  · obtain ⟨r1, h1⟩ := delivery_exact cb f.b hb
    obtain ⟨r2, h2⟩ := delivery_exact ca f.a ha
    refine ⟨r1 ++ (f.a.delivered.drop k ++ r2), ?_⟩
    rw [← List.append_assoc, h1, hk, ← List.append_assoc, List.take_append_drop, h2]
  · intro hph a1 a2 b1 b2 b3
    obtain ⟨hp, hc⟩ := idleFacts hph
    rw [delivery_complete cb f.b hb b1 b2 b3, hc, delivery_complete ca f.a ha a1 a2 (pend0 hp)]

/-- **A cancelled or failed upstream chunk stream never yields a completed downstream message** (seeded bug
(b): treating `Err(Cancelled)` / `Err(ChMux)` of `recv_chunk` as end-of-message and calling `finish()`).  When
`recv_chunk` reports `Cancelled`, or the upstream connection is lost inside the chunk loop, the forwarder
drops its `ChunkSender`: nothing is completed, nothing more is emitted for that message, and by
`forward_chunks_exact` (3) the destination never obtains it. -/
theorem forward_cancelled_never_completed (v : Pairing) (ca cb : Cfg) (f f' : Fwd) :
    (fstep v ca cb f .recvChunk = some f' → chunkOut ca f.a = some .cancelled →
      f'.b.completed = f.b.completed ∧ f'.b.emitted = f.b.emitted ∧ f'.b.s.inMsg = false ∧ f'.ph = .idle) ∧
    (fstep v ca cb f .upLost = some f' →
      f'.b.completed = f.b.completed ∧ f'.b.emitted = f.b.emitted ∧ (f.ph = .chunkRecv → f'.b.s.inMsg = false) ∧
      f'.ph = .done .errRecv) := by
  constructor
  · intro hs ho
    simp only [fstep] at hs
    split at hs
    · split at hs
      · simp only [ho, afterChunk] at hs
        cases hc : step cb f.b .cancel with
        | none => simp [hc] at hs
        | some b' =>
          simp only [hc, Option.map_some, Option.some.injEq] at hs
          subst hs
          obtain ⟨_, him, hcomp, _, hem⟩ := cancel_spec cb f.b b' hc
          exact ⟨hcomp, hem, him, rfl⟩
      · simp at hs
    · simp at hs
  · intro hs
    simp only [fstep] at hs
    split at hs
    · rename_i hph
      obtain rfl := Option.some.inj hs
      exact ⟨rfl, rfl, by simp [hph], rfl⟩
    · rename_i hph
      cases hc : step cb f.b .cancel with
      | none => simp [hc] at hs
      | some b' =>
        simp only [hc, Option.map_some, Option.some.injEq] at hs
        subst hs
        obtain ⟨_, him, hcomp, _, hem⟩ := cancel_spec cb f.b b' hc
        exact ⟨hcomp, hem, fun _ => him, rfl⟩
    · simp at hs

/-- **End-of-stream across the forwarder.**
(1) `forward` returns `Ok` only when the upstream port reported end-of-stream, and then it has consumed every
    frame the origin emitted and completed downstream exactly the sends completed at the origin;
(2) the destination is told end-of-stream only after `forward` returned (its caller then drops the downstream
    sender: `SendFinish` travels behind everything that was relayed), and then it has obtained every message the
    forwarder completed;
(3) hence after an `Ok` return: exactly the origin's completed sends.
After an error return (`ForwardError`) the destination still sees a clean end-of-stream once the forwarding task
drops its sender: (2) holds, (3) does not — see `fwdLostRun` below. -/
theorem forward_eos_after_all (v : Pairing) (ca cb : Cfg) (f : Fwd) (h : FReachable v ca cb f) :
    (f.ph = .done .ok → f.a.consumed = f.a.emitted ∧ f.b.completed = f.a.completed) ∧
    ((Out.eos ∈ f.b.outs ∨ f.b.r.finished = true) →
      f.ph.isDone = true ∧ f.b.delivered ++ pendingMsg f.b = f.b.completed) ∧
    ((Out.eos ∈ f.b.outs ∨ f.b.r.finished = true) → f.ph = .done .ok →
      f.b.delivered ++ pendingMsg f.b = f.a.completed) := by
  obtain ⟨⟨_, _, hrel⟩, ha, hb⟩ := fjoint_reachable v ca cb f h
  have hcl := fclose_reachable v ca cb f h
  have part1 : f.ph = .done .ok → f.a.consumed = f.a.emitted ∧ f.b.completed = f.a.completed := by
    intro hph
    have heos := hcl.okEos hph
    rw [hph] at hrel
    obtain ⟨hp, hc⟩ := hrel
    obtain ⟨h1, h2⟩ := eos_after_all_data ca f.a ha heos
    have pend0 : pendingMsg f.a = [] := by unfold pendingMsg; rw [hp]; split <;> simp_all
    rw [pend0, List.append_nil] at h2
    exact ⟨h1, by rw [hc, h2]⟩
  have part2 : (Out.eos ∈ f.b.outs ∨ f.b.r.finished = true) →
      f.ph.isDone = true ∧ f.b.delivered ++ pendingMsg f.b = f.b.completed := by
    intro he
    obtain ⟨h1, h2⟩ := eos_after_all_data cb f.b hb he
    have fi := finv_reachable cb f.b hb
    have hfin : Frame.finish ∈ f.b.emitted := by rw [← h1]; exact fi.eos he
    exact ⟨hcl.dropped (fi.mem hfin), h2⟩
  exact ⟨part1, part2, fun he hph => by rw [(part2 he).2, (part1 hph).2]⟩

/-- **Close in each direction, classified.**
(1) the forwarder closes its upstream receiver (`ReceiverClosed` to the origin) only after its downstream sender
    was told that the destination closed or dropped its receiver;
(2) `Ok` only at upstream end-of-stream (`recv_any` reported it, or `Finished` ended a chunk stream — reported
    as `Cancelled` — and the next `recv_any` returned `None` at once);
(3) `ForwardError::Send` only if the downstream connection was lost or the downstream receiver closed in a way the
    sender does not override — with the graceful-close override `forward` sets: only if it was *dropped*
    (`ReceiveFinish`), never because of a graceful `close()`;
(4) `ForwardError::Recv` only if the upstream connection was lost or a port batch exceeded `max_ports`. -/
theorem forward_close_classified (v : Pairing) (ca cb : Cfg) (f : Fwd) (h : FReachable v ca cb f) :
    (f.a.r.closed = true → f.b.s.closed.isSome = true) ∧
    (f.ph = .done .ok → (Out.eos ∈ f.a.outs ∨ f.a.r.finished = true)) ∧
    (f.ph = .done .errSend → f.lostDown = true ∨ ∃ g, f.b.s.closed = some g ∧ (cb.ovr = true → g = false)) ∧
    (f.ph = .done .errRecv → f.lostUp = true ∨ Out.tooManyPorts ∈ f.a.outs) := by
  have hcl := fclose_reachable v ca cb f h
  exact ⟨fun hc => hcl.seen (hcl.closeUp hc), hcl.okEos, hcl.errSend, hcl.errRecv⟩

/-- **The close reaches the origin.**  Between two messages, once the downstream sender knows that its receiver
was closed or dropped, the `Event::Closed` branch is enabled (unless it ran before); after it the upstream
receiver is closed — `ReceiverClosed` is on its way to the origin — or had been dropped already
(`ReceiverDropped` is), and the loop goes on relaying what the origin had sent. -/
theorem forward_close_propagates (v : Pairing) (ca cb : Cfg) (f : Fwd) (hph : f.ph = .idle)
    (hseen : f.closedSeen = false) (hcl : f.b.s.closed.isSome = true) :
    ∃ f', fstep v ca cb f .closedEvt = some f' ∧ f'.closedSeen = true ∧ f'.ph = .idle ∧ f'.b = f.b ∧
      (f'.a.r.closed = true ∨ f'.a.r.dropped = true) := by
  refine ⟨{ f with a := (step ca f.a .close).getD f.a, closedSeen := true },
    by simp only [fstep, hph]; rw [if_pos ⟨hseen, hcl⟩], rfl, hph, rfl, ?_⟩
  show ((step ca f.a .close).getD f.a).r.closed = true ∨ ((step ca f.a .close).getD f.a).r.dropped = true
  cases hs : step ca f.a .close with
  | some a' => left; simpa [hs] using (close_spec ca f.a a' hs).2.2.2
  | none =>
    simp only [hs, Option.getD_none]
    simp only [step] at hs
    split at hs
    · simp at hs
    · rename_i hn
      cases hc : f.a.r.closed <;> cases hd : f.a.r.dropped <;> simp_all

/-- non-vacuity: a chunk stream of 7 bytes (above the forwarder's `max_data_size` 5, so relayed chunk by chunk)
is cancelled at the origin after both chunks were relayed; the next message is relayed whole; then a 7-byte
chunk stream is relayed to its end.  Downstream 7 + 0 frames were emitted for the two streams, and exactly the
completed sends `[9]`, `[1..7]` are completed downstream and obtained by the destination. -/
def fwdA : Cfg := { chunk := 4, limit := 16, maxData := 5, maxPorts := 8 }
def fwdB : Cfg := { chunk := 4, limit := 16, maxData := 100, maxPorts := 8, ovr := true }
def fwdCancelRun : List FLabel :=
  [.up .startChunks, .up (.chunkSend [1,2,3,4,5,6,7] false), .up .request, .up .emit, .up .emit,
   .up .muxRecv, .up .muxRecv, .recvAny, .recvAny,
   .recvChunk, .down .request, .emit, .recvChunk, .down .request, .emit,
   .up .cancel, .up (.startSend [9]), .up .request, .up .emit, .up .muxRecv,
   .recvChunk, .recvAny, .down .request, .emit]
def fwdChunkRun : List FLabel := fwdCancelRun ++
  [.down .muxRecv, .down .muxRecv, .down .muxRecv, .down .recvAny, .down .recvAny, .down .recvAny, .down .provide,
   .up .startChunks, .up (.chunkSend [1,2,3,4,5,6,7] false), .up .request, .up .emit, .up .emit,
   .up (.chunkSend [] true), .up .request, .up .emit,
   .up .muxRecv, .up .muxRecv, .up .muxRecv, .recvAny, .recvAny,
   .recvChunk, .down .request, .emit, .recvChunk, .down .request, .emit, .recvChunk, .down .request, .emit,
   .recvChunk, .down .request, .emit,
   .down .muxRecv, .down .muxRecv, .down .muxRecv, .down .muxRecv,
   .down .recvAny, .down .recvAny, .down .recvAny, .down .recvAny]

example : (frun .asCoded fwdA fwdB (finit fwdA fwdB) fwdCancelRun).b.completed = [[9]] ∧
    (frun .asCoded fwdA fwdB (finit fwdA fwdB) fwdCancelRun).b.emitted.length = 3 ∧
    Out.cancelled ∈ (frun .asCoded fwdA fwdB (finit fwdA fwdB) fwdCancelRun).a.outs ∧
    (frun .asCoded fwdA fwdB (finit fwdA fwdB) fwdCancelRun).ph = .idle := by decide

example : (frun .asCoded fwdA fwdB (finit fwdA fwdB) fwdChunkRun).b.completed = [[9], [1,2,3,4,5,6,7]] ∧
    (frun .asCoded fwdA fwdB (finit fwdA fwdB) fwdChunkRun).a.completed = [[9], [1,2,3,4,5,6,7]] ∧
    (frun .asCoded fwdA fwdB (finit fwdA fwdB) fwdChunkRun).b.delivered = [[9], [1,2,3,4,5,6,7]] ∧
    (frun .asCoded fwdA fwdB (finit fwdA fwdB) fwdChunkRun).ph = .idle := by decide

/-- the origin sends one message and drops its sender; the forwarder relays it, sees end-of-stream, returns `Ok`,
its caller drops both ports; the destination obtains the message and then end-of-stream -/
def fwdEosRun : List FLabel :=
  [.up (.startSend [9]), .up .request, .up .emit, .up .dropSender, .up .muxRecv, .up .muxRecv,
   .recvAny, .down .request, .emit, .recvAny, .dropTx, .dropRx,
   .down .muxRecv, .down .muxRecv, .down .recvAny, .down .recvAny]
example : (frun .asCoded fwdA fwdB (finit fwdA fwdB) fwdEosRun).ph = .done .ok ∧
    (frun .asCoded fwdA fwdB (finit fwdA fwdB) fwdEosRun).b.delivered = [[9]] ∧
    Out.eos ∈ (frun .asCoded fwdA fwdB (finit fwdA fwdB) fwdEosRun).b.outs := by decide

/-- the destination closes gracefully while a message is on its way to the forwarder: the forwarder closes its
upstream receiver, the origin's sender learns of it (`closed = some true`), and — graceful-close override — the
message is still relayed and obtained by the destination -/
def fwdCloseRun : List FLabel :=
  [.up (.startSend [9]), .up .request, .up .emit, .up .muxRecv,
   .down .close, .down .provide, .closedEvt,
   .recvAny, .down .request, .emit, .up .provide,
   .down .muxRecv, .down .recvAny]
example : (frun .asCoded fwdA fwdB (finit fwdA fwdB) fwdCloseRun).b.s.closed = some true ∧
    (frun .asCoded fwdA fwdB (finit fwdA fwdB) fwdCloseRun).a.r.closed = true ∧
    (frun .asCoded fwdA fwdB (finit fwdA fwdB) fwdCloseRun).a.s.closed = some true ∧
    (frun .asCoded fwdA fwdB (finit fwdA fwdB) fwdCloseRun).b.delivered = [[9]] ∧
    (frun .asCoded fwdA fwdB (finit fwdA fwdB) fwdCloseRun).ph = .idle := by decide

/-- the upstream connection is lost while a chunked message is relayed: `forward` returns `ForwardError::Recv`,
the `ChunkSender` is dropped, nothing is completed; when the forwarding task then drops its sender the
destination sees a *clean* end-of-stream after a discarded partial message (what FB3 reports for bin channels) -/
def fwdLostRun : List FLabel :=
  [.up .startChunks, .up (.chunkSend [1,2,3,4,5,6,7] false), .up .request, .up .emit, .up .emit,
   .up .muxRecv, .up .muxRecv, .recvAny, .recvAny, .recvChunk, .down .request, .emit,
   .upLost, .dropTx, .down .muxRecv, .down .muxRecv, .down .recvAny, .down .recvAny]
example : (frun .asCoded fwdA fwdB (finit fwdA fwdB) fwdLostRun).ph = .done .errRecv ∧
    (frun .asCoded fwdA fwdB (finit fwdA fwdB) fwdLostRun).b.completed = [] ∧
    (frun .asCoded fwdA fwdB (finit fwdA fwdB) fwdLostRun).b.delivered = [] ∧
    (frun .asCoded fwdA fwdB (finit fwdA fwdB) fwdLostRun).b.emitted.length = 2 ∧
    Out.eos ∈ (frun .asCoded fwdA fwdB (finit fwdA fwdB) fwdLostRun).b.outs := by decide

/-- the origin drops its sender in the middle of a chunk stream: `Finished` reaches the forwarder inside its chunk
loop, `recv_chunk` reports `Cancelled` (the `ChunkSender` is dropped, nothing is completed), the next `recv_any`
returns `None` at once and `forward` returns `Ok` -/
def fwdFinInStreamRun : List FLabel :=
  [.up .startChunks, .up (.chunkSend [1,2,3,4,5,6,7] false), .up .request, .up .emit, .up .emit, .up .cancel,
   .up .dropSender, .up .muxRecv, .up .muxRecv, .up .muxRecv, .recvAny, .recvAny,
   .recvChunk, .down .request, .emit, .recvChunk, .down .request, .emit, .recvChunk, .recvAny]
example : (frun .asCoded fwdA fwdB (finit fwdA fwdB) fwdFinInStreamRun).ph = .done .ok ∧
    (frun .asCoded fwdA fwdB (finit fwdA fwdB) fwdFinInStreamRun).b.completed = [] ∧
    Out.cancelled ∈ (frun .asCoded fwdA fwdB (finit fwdA fwdB) fwdFinInStreamRun).a.outs ∧
    Out.eos ∉ (frun .asCoded fwdA fwdB (finit fwdA fwdB) fwdFinInStreamRun).a.outs ∧
    (frun .asCoded fwdA fwdB (finit fwdA fwdB) fwdFinInStreamRun).a.r.finished = true := by decide

/-- **Witness of finding F-FWD-1** (a run of the model as the code is, not a theorem about all runs): the
destination receiver (buffer 4) is closed gracefully and then dropped while the forwarder holds the second chunk
of a message and has no credits.  `ReceiveFinish` after `ReceiveClose` leaves `closed = some true` (mux.rs: the first
notification wins), with the override the credit request is not refused, no credits will ever arrive: neither
`fail` nor `request` nor `emit` nor the `Closed` branch is enabled — the forwarder is wedged in `chunkSend`, and the
origin's sender has not been told anything. -/
def fwdWedgeB : Cfg := { chunk := 4, limit := 4, maxData := 100, maxPorts := 8, ovr := true }
def fwdWedgeRun : List FLabel :=
  [.up (.startSend [1,2,3,4,5,6]), .up .request, .up .emit, .up .emit, .up .muxRecv, .up .muxRecv,
   .recvAny, .recvAny, .recvChunk, .down .request, .emit, .recvChunk,
   .down .close, .down .provide, .down .dropReceiver, .down .provide]
example :
    let f := frun .asCoded fwdA fwdWedgeB (finit fwdA fwdWedgeB) fwdWedgeRun
    f.ph = .chunkSend ∧ f.b.s.closed = some true ∧ f.b.r.dropped = true ∧ f.b.s.pool = 0 ∧ f.b.back = [] ∧
    f.a.s.closed = none ∧ f.a.r.closed = false ∧
    (fstep .asCoded fwdA fwdWedgeB f .fail).isNone ∧ (fstep .asCoded fwdA fwdWedgeB f (.down .request)).isNone ∧
    (fstep .asCoded fwdA fwdWedgeB f .emit).isNone ∧ (fstep .asCoded fwdA fwdWedgeB f .closedEvt).isNone := by decide

end Remoc.Link

/-! # Typed channels with a local queue: `rch::mpsc`, `rch::oneshot` (M_close) -/

namespace Remoc.Close

/-- **The values accepted but not transmitted form a suffix and are reported as dropped.**
For every schedule: the values `send` accepted on a link (a `Sending` handle was issued) are, in
the order of acceptance, first the ones whose handle is resolved, then the one `send_impl` is
transmitting, then the ones still queued; the resolved results never show a dropped value before
a transmitted (`Ok`) or individually failed one — no gap; exactly the transmitted values resolve
`Ok`; nothing is dropped while `send_impl` runs; and once it has ended (close, receiver dropped,
failure, all senders gone) every handle is resolved, i.e. the untransmitted suffix is all `Dropped`. -/
theorem mpsc_queued_suffix_dropped (c : Cfg) (s : State) (h : Reachable c s) :
    s.accepted = s.hres.map (·.1) ++ s.cur.toList ++ s.q ∧
    (∃ pre suf, s.hres.map (·.2) = pre ++ suf ∧ NonDropped pre ∧ ∀ r ∈ suf, r = HRes.dropped) ∧
    s.xmit = (s.hres.filter (·.2 == .ok)).map (·.1) ∧
    (s.impl = none → NonDropped (s.hres.map (·.2))) ∧
    (s.impl.isSome → s.accepted = s.hres.map (·.1)) := by
  have q := qinv_reachable c s h
  refine ⟨q.acc, suffixOk_split _ q.sorted, q.xm, q.running, fun hi => ?_⟩
  obtain ⟨hc, hq⟩ := q.ended hi
  rw [q.acc, hc, hq]; simp

/-- **At the moment `send_impl` learns of the close / drop / failure** (any step that ends it): the
handles resolved so far are untouched, exactly the values still queued locally are dropped, in
order, and they are the tail of the accepted values. -/
theorem mpsc_end_drops_exactly_queue (c : Cfg) (s s' : State) (l : Label) (h : Reachable c s)
    (hrun : s.impl = none) (hs : step c s l = some s') (hend : s'.impl.isSome) :
    s'.hres = s.hres ++ s.q.map (·, HRes.dropped) ∧ s'.accepted = s.accepted ∧ s'.xmit = s.xmit ∧
    s.accepted = s.hres.map (·.1) ++ s.q := by
  have q := qinv_reachable c s h
  have hacc := q.acc
  cases l <;> simp only [step] at hs <;> (repeat' split at hs) <;> (try (simp at hs; done)) <;>
    (try (obtain rfl := Option.some.inj hs)) <;> (try (simp [hrun, rexit] at hend; done)) <;>
    simp_all [endWith]

/-- the same per sender clone `k` of the link: its accepted values are its resolved ones followed
by its still queued ones, and its results alone never show a dropped value before another one -/
theorem mpsc_queued_suffix_per_sender (c : Cfg) (s : State) (h : Reachable c s) (k : Nat) :
    s.accepted.filter (·.sender == k) =
      (s.hres.filter (·.1.sender == k)).map (·.1) ++ (s.cur.toList ++ s.q).filter (·.sender == k) ∧
    suffixOk ((s.hres.filter (·.1.sender == k)).map (·.2)) = true := by
  have q := qinv_reachable c s h
  refine ⟨?_, suffixOk_sublist (List.Sublist.map _ List.filter_sublist) q.sorted⟩
  rw [q.acc, List.append_assoc, List.filter_append, List.filter_map]
  rfl

/-! non-vacuity: two clones (0 and 1) of a remote sender accept three values; the first is transmitted,
the receiver calls `close()`, the CLOSE byte reaches `send_impl` while two values are still queued -/
def cfg3 : Cfg := { cap := 3, rcap := 2 }
def qsRun : List Label :=
  [.clone, .send ⟨1, 0, .no⟩, .grant, .send ⟨2, 1, .no⟩, .grant, .send ⟨3, 0, .no⟩, .grant, .implTake, .xmitDone,
   .close, .rSeeClosed, .implBack]

example : (run cfg3 (init 1 0 0) qsRun).accepted.map (·.id) = [1, 2, 3] ∧
    (run cfg3 (init 1 0 0) qsRun).hres.map (fun p => (p.1.id, p.2)) = [(1, .ok), (2, .dropped), (3, .dropped)] ∧
    (run cfg3 (init 1 0 0) qsRun).xmit.map (·.id) = [1] ∧
    (run cfg3 (init 1 0 0) qsRun).impl = some .close ∧
    (run cfg3 (init 1 0 0) qsRun).reason = some .closed := by decide

/-- the step that ends `send_impl` in that run drops exactly the two queued values -/
example : (run cfg3 (init 1 0 0) qsRun.dropLast).impl = none ∧
    (run cfg3 (init 1 0 0) qsRun.dropLast).q.map (·.id) = [2, 3] ∧
    (step cfg3 (run cfg3 (init 1 0 0) qsRun.dropLast) .implBack).isSome = true := by decide

/-! ## classification -/

/-- **The reason a sender observes is the right one** (`Sender::closed_reason()`, identical for every
clone of a link because clones share the two watches; `is_closed()` = `isSome`).

Remote clones: `Closed` only if the receiver called `close()`; `Dropped` only if the receiver was
dropped; `Failed` only if the connection failed, or the forwarding of the receiver failed, or the
transmission of some value failed (because that value cannot be sent, or the connection / the
receiving task was gone).  Local clones read the receiver's own watch: `Closed` iff `close()` was
called, `Dropped` iff the receiver was dropped without `close()`, never `Failed`. -/
theorem mpsc_close_classified (c : Cfg) (s : State) (h : Reachable c s) :
    (s.reason = some .closed → s.closeCalled = true) ∧
    (s.reason = some .dropped → s.rAlive = false) ∧
    (s.reason = some .failed → s.connDown = true ∨ s.fwdErr = true ∨
      ∃ p ∈ s.hres, p.2 = HRes.sendErr ∧ (p.1.bad ≠ .no ∨ s.connDown = true ∨ s.rimpl.isSome)) ∧
    (s.lreason = some .closed ↔ s.closeCalled = true) ∧
    (s.lreason = some .dropped ↔ (s.rAlive = false ∧ s.closeCalled = false)) ∧
    s.lreason ≠ some .failed := by
  have a := allinv_reachable c s h
  have hr := reason_eq s a.w
  have hw := a.w.closedW
  have hl : s.lreason = s.rW := by unfold State.lreason closedReasonOf; cases s.rW <;> rfl
  refine ⟨?_, ?_, ?_, ?_, ?_, ?_⟩
  · intro hc
    rw [hr, hw] at hc
    apply a.ci.iClose
    cases hi : s.impl with
    | none => cases hf : s.failFlag <;> simp [hi, hf, expW] at hc
    | some x => cases x <;> cases hf : s.failFlag <;> simp_all [expW]
  · intro hc
    rw [hr, hw] at hc
    apply a.ci.iFin
    cases hi : s.impl with
    | none => cases hf : s.failFlag <;> simp [hi, hf, expW] at hc
    | some x => cases x <;> cases hf : s.failFlag <;> simp_all [expW]
  · intro hc
    rw [hr, hw] at hc
    by_cases hf : s.failFlag = true
    · right; right
      obtain ⟨p, hp, hp2⟩ := List.mem_map.mp (a.f.ff.mp hf)
      exact ⟨p, hp, hp2, a.f.why p hp hp2⟩
    · have hf' : s.failFlag = false := by simpa using hf
      cases hi : s.impl with
      | none => simp [hi, hf', expW] at hc
      | some x =>
        cases x with
        | close => simp [hi, expW] at hc
        | fin => simp [hi, expW] at hc
        | error => exact Or.inr (Or.inl (a.ci.iError hi))
        | conn => exact Or.inl (a.ci.iConn hi)
        | drained => simp [hi, hf', expW] at hc
  · rw [hl]; exact ⟨a.p.wClosed, fun hc => a.p.flag (a.p.called hc)⟩
  · rw [hl]
    constructor
    · intro hd
      refine ⟨a.p.wDropped hd, ?_⟩
      cases hcc : s.closeCalled with
      | false => rfl
      | true => have := a.p.flag (a.p.called hcc); simp [hd] at this
    · intro ⟨ha, hcc⟩
      have hs := a.k.dead ha
      cases hw : s.rW with
      | none => simp [hw] at hs
      | some r =>
        cases r with
        | closed => have := a.p.wClosed hw; simp [hcc] at this
        | dropped => rfl
        | failed => exact absurd hw a.p.wFailed
  · rw [hl]; exact a.p.wFailed

/-- **First cause wins.**  Once `send_impl` has ended (the first close / drop / failure it learnt of,
or all senders gone) no later event changes what the clones of the link observe, which handles are
resolved how, or what was transmitted. -/
theorem mpsc_first_cause_wins (c : Cfg) (s : State) (h : Reachable c s) (hend : s.impl.isSome) (ls : List Label) :
    (run c s ls).reason = s.reason ∧ (run c s ls).impl = s.impl ∧ (run c s ls).hres = s.hres ∧
    (run c s ls).xmit = s.xmit := by
  induction ls generalizing s with
  | nil => exact ⟨rfl, rfl, rfl, rfl⟩
  | cons l ls ih =>
    simp only [run]
    split
    · next s1 hs =>
      have q := qinv_reachable c s h
      obtain ⟨hc, hq⟩ := q.ended hend
      have key : s1.closedW = s.closedW ∧ s1.errW = s.errW ∧ s1.impl = s.impl ∧ s1.hres = s.hres ∧ s1.xmit = s.xmit := by
        cases l <;> simp only [step] at hs <;> (repeat' split at hs) <;> (try (simp at hs; done)) <;>
          (try (obtain rfl := Option.some.inj hs)) <;> simp_all [rexit]
      obtain ⟨k1, k2, k3, k4, k5⟩ := key
      have := ih s1 (reachable_step c s s1 l h hs) (by rw [k3]; exact hend)
      refine ⟨?_, by rw [this.2.1, k3], by rw [this.2.2.1, k4], by rw [this.2.2.2, k5]⟩
      rw [this.1]; unfold State.reason; rw [k1, k2]
    · exact ih s h hend

/-- the same for local clones: their reason, once set, stays -/
theorem mpsc_local_first_cause_wins (c : Cfg) (s s' : State) (l : Label) (h : Reachable c s) (r : Reason)
    (hr : s.lreason = some r) (hs : step c s l = some s') : s'.lreason = some r := by
  have a := allinv_reachable c s h
  have hl : ∀ t : State, t.lreason = t.rW := by
    intro t; unfold State.lreason closedReasonOf; cases t.rW <;> rfl
  rw [hl] at hr ⊢
  have h1 := a.p.wClosed
  have h2 := a.p.called
  have h3 := a.p.wDropped
  have h4 := a.p.wFailed
  cases l <;> simp only [step] at hs <;> (repeat' split at hs) <;> (try (simp at hs; done)) <;>
    (try (obtain rfl := Option.some.inj hs)) <;> (try (exact hr)) <;> cases r <;> simp_all [rexit]

/-- **Eventually observable.**  In a quiescent state (the runtime has nothing left to do), for a
link with a live sender on which no transmission failed and whose receiver was not forwarded onwards:

* the receiver called `close()`, is alive, `recv_impl` is not stuck behind a full queue, and the
  connection is up: every clone observes `Closed`;
* the receiver was dropped without `close()` and the connection is up: every clone observes `Dropped`;
* the connection failed: every clone observes a reason (`is_closed()`), and it is `Failed` unless
  a close or drop had been learnt of before.

(Weak fairness of the scheduler turns "at quiescence" into "eventually".) -/
theorem mpsc_close_observable_at_quiescence (c : Cfg) (s : State) (h : Reachable c s) (hq : Quiescent c s)
    (hlive : s.handles ≠ 0) (hnf : s.failFlag = false) (hfe : s.fwdErr = false) :
    (s.closeCalled = true → s.rAlive = true → s.rHold = none → s.connDown = false → s.reason = some .closed) ∧
    (s.rAlive = false → s.closeCalled = false → s.connDown = false → s.reason = some .dropped) ∧
    (s.connDown = true → s.reason.isSome ∧ (s.closeCalled = false → s.rAlive = true → s.reason = some .failed)) := by
  have a := allinv_reachable c s h
  refine ⟨?_, ?_, ?_⟩
  · intro hcc ha hh hd
    -- `send_impl` has ended
    have hi : s.impl.isSome := by
      cases hri : s.rimpl with
      | some x => exact quiet_ended_of_rexit c s a hq hd (by simp [hri])
      | none =>
        have hu := (quiet_rimpl c s hq hri hh).1
        rcases a.k.k1 hcc ha with h1 | h1 | h1 | h1
        · simp [hu] at h1
        · cases hi : s.impl with
          | some x => rfl
          | none =>
            have hb := (quiet_running c s hq hi).1
            rcases a.k.k2 h1 with h2 | h2
            · simp [hb] at h2
            · simp [hi] at h2
        · simp [hd] at h1
        · simp [hri] at h1
    rcases ended_cause s a hlive hnf hfe hi with ⟨_, _, hr⟩ | ⟨_, hx, _⟩ | ⟨_, hx, _⟩
    · exact hr
    · simp [ha] at hx
    · simp [hd] at hx
  · intro ha hcc hd
    have hi := quiet_ended_of_rexit c s a hq hd (quiet_dead c s hq ha)
    rcases ended_cause s a hlive hnf hfe hi with ⟨_, hx, _⟩ | ⟨_, _, hr⟩ | ⟨_, hx, _⟩
    · simp [hcc] at hx
    · exact hr
    · simp [hd] at hx
  · intro hd
    have hi : s.impl.isSome := by
      cases hi : s.impl with
      | some x => rfl
      | none => have := (quiet_running c s hq hi).2; simp [hd] at this
    rcases ended_cause s a hlive hnf hfe hi with ⟨_, hx, hr⟩ | ⟨_, hx, hr⟩ | ⟨_, _, hr⟩
    · exact ⟨by simp [hr], fun hcc => by simp [hcc] at hx⟩
    · exact ⟨by simp [hr], fun _ ha => by simp [ha] at hx⟩
    · exact ⟨by simp [hr], fun _ _ => hr⟩

/-! non-vacuity of the three clauses: quiescent states reached by `settle` -/
def obsClose : State := settle cfg3 (run cfg3 (init 2 0 0) [.send ⟨1, 0, .no⟩, .grant, .close]) 40
def obsDrop : State := settle cfg3 (run cfg3 (init 2 0 0) [.send ⟨1, 0, .no⟩, .grant, .dropRx]) 40
def obsConn : State := settle cfg3 (run cfg3 (init 2 0 0) [.send ⟨1, 0, .no⟩, .grant, .connFail]) 40

example : quiescentB cfg3 obsClose = true ∧ obsClose.handles = 2 ∧ obsClose.closeCalled = true ∧
    obsClose.rAlive = true ∧ obsClose.rHold = none ∧ obsClose.reason = some .closed := by decide
example : quiescentB cfg3 obsDrop = true ∧ obsDrop.rAlive = false ∧ obsDrop.closeCalled = false ∧
    obsDrop.reason = some .dropped := by decide
example : quiescentB cfg3 obsConn = true ∧ obsConn.connDown = true ∧ obsConn.reason = some .failed := by decide

/-! ## nothing transmitted is lost; end-of-stream comes last -/

/-- **Close keeps what was transmitted.**  What the receiver obtained from the link is always, in
order, a prefix of the values whose transmission completed; and when `recv` reports a clean
end-of-stream it has obtained every one of them. -/
theorem mpsc_close_keeps_transmitted (c : Cfg) (s : State) (h : Reachable c s) :
    (∃ rest, remOf s.delivered ++ rest = s.xmit) ∧
    (s.eos = some true → remOf s.delivered = s.xmit) := by
  have i := allinv2_reachable c s h
  constructor
  · exact ⟨remOf s.lost ++ remOf s.rq ++ remOf s.rHold.toList ++ wireVals s.wire, by
      rw [i.d.d1, i.d.d2]; simp [List.append_assoc]⟩
  · intro he
    have hfin := i.e.e9 he
    have hw := i.d.d4 hfin
    have hh := i.a.k.hold (by simp [hfin])
    have hrq := (i.e.e8 (by simp [he])).1
    have hl := i.e.e11 he
    rw [i.d.d1, i.d.d2, hw, hh, hrq, hl]
    simp [remOf, wireVals]

/-- in the words of the property: every value whose transmission had completed before `send_impl`
learnt of the close (or drop, or failure) is delivered before a clean end-of-stream — for every
continuation of the run -/
theorem mpsc_close_keeps_transmitted_before (c : Cfg) (s : State) (h : Reachable c s) (hend : s.impl.isSome)
    (ls : List Label) (heos : (run c s ls).eos = some true) : remOf (run c s ls).delivered = s.xmit := by
  rw [← (mpsc_first_cause_wins c s h hend ls).2.2.2]
  exact (mpsc_close_keeps_transmitted c _ (reachable_run c s ls h)).2 heos

/-- **End-of-stream only after all senders.**  When `recv` reports the end of the stream, the queue
is empty and every reference to its sending side is gone: `recv_impl` has returned, the other links
are gone, every local sender is dropped or observes the close.  If the end is clean (`Ok(None)`),
`send_impl` of the link has ended, every remote clone is dropped or observes a reason, everything
transmitted and every local value accepted was delivered. -/
theorem mpsc_eos_after_all_senders (c : Cfg) (s : State) (h : Reachable c s) (he : s.eos.isSome) :
    s.rq = [] ∧ s.rimpl.isSome ∧ s.lholder = false ∧ s.otherRefs = 0 ∧
    (s.lhandles = 0 ∨ s.lreason.isSome) ∧
    (s.eos = some true →
      s.impl.isSome ∧ (s.handles = 0 ∨ s.reason.isSome) ∧ remOf s.delivered = s.xmit ∧
      locOf s.delivered = s.lAccepted) := by
  have i := allinv2_reachable c s h
  obtain ⟨h1, h2, h3, h4⟩ := i.e.e8 he
  have hl : s.lreason = s.rW := by unfold State.lreason closedReasonOf; cases s.rW <;> rfl
  refine ⟨h1, h2, h3, h4, ?_, fun ht => ?_⟩
  · rw [hl]; rcases i.e.e12 h3 with h | h
    · exact Or.inr h
    · exact Or.inl h
  · have hi := i.a.ci.rFin (i.e.e9 ht)
    refine ⟨hi, ended_observed s i.a hi, (mpsc_close_keeps_transmitted c s h).2 ht, ?_⟩
    rw [i.l.l13, h1, i.e.e11 ht]; simp [locOf]

/-- local senders: the accepted values are the resolved ones followed by the ones still in the
receiver's queue; delivered ones resolve `Ok`, the ones lost with a dropped receiver `Dropped`,
never a dropped one before a delivered one -/
theorem mpsc_local_queued_suffix (c : Cfg) (s : State) (h : Reachable c s) :
    s.lAccepted = s.lhres.map (·.1) ++ locOf s.rq ∧ suffixOk (s.lhres.map (·.2)) = true ∧
    (s.rAlive = false → s.lAccepted = s.lhres.map (·.1)) := by
  have i := allinv2_reachable c s h
  refine ⟨?_, ?_, fun ha => ?_⟩
  · rw [i.l.l13, i.l.l14]; simp [Function.comp_def]
  · rw [i.l.l14]
    simp only [List.map_append, List.map_map]
    exact suffixOk_nonDropped_append _ _ (by intro r hr; simp at hr; rw [← hr.2]; simp) (by intro r hr; simp at hr; exact hr.2.symm)
  · rw [i.l.l13, i.l.l14, i.d.d6 ha]; simp [Function.comp_def, locOf]

/-! non-vacuity: a local sender and two remote clones; two values are transmitted, a third is still
queued when the CLOSE byte arrives; the receiver drains and gets a clean end-of-stream -/
def cfg4 : Cfg := { cap := 3, rcap := 4 }
def eosRun : State :=
  run cfg4 (settle cfg4 (run cfg4 (init 2 1 0)
    [.lsend ⟨10, 9, .no⟩, .send ⟨1, 0, .no⟩, .grant, .send ⟨2, 1, .no⟩, .grant, .implTake, .xmitDone, .implTake, .xmitDone,
     .send ⟨3, 0, .no⟩, .grant, .close, .rSeeClosed, .implBack]) 40)
    [.recv, .recv, .recv, .recv]

example : eosRun.eos = some true ∧ eosRun.impl = some .close ∧ eosRun.handles = 2 ∧ eosRun.reason = some .closed ∧
    eosRun.xmit.map (·.id) = [1, 2] ∧ (remOf eosRun.delivered).map (·.id) = [1, 2] ∧
    eosRun.hres.map (fun p => (p.1.id, p.2)) = [(1, .ok), (2, .ok), (3, .dropped)] ∧
    (locOf eosRun.delivered).map (·.id) = [10] ∧ eosRun.lhres.map (·.2) = [.ok] ∧
    eosRun.lreason = some .closed := by decide

/-! ## `rch::oneshot` -/

/-- **oneshot: at most one value, same classification, the value is transmitted or reported.**
For every schedule of a oneshot channel: at most one value is ever accepted; the reason the (unsent)
sender observes is classified as for mpsc; once `send_impl` has ended the handle of the accepted value
is resolved — `Ok` iff it was transmitted, else the send error or `Dropped`; and a clean end at the
receiver (`RecvError::Closed` when nothing was delivered) means that everything transmitted was
delivered, i.e. the receiver reports "closed without a value" only if no value was transmitted. -/
theorem oneshot_closed_classified (c : Cfg) (s : State) (h : ReachableOnce c s) :
    s.accepted.length ≤ 1 ∧
    (s.reason = some .closed → s.closeCalled = true) ∧
    (s.reason = some .dropped → s.rAlive = false) ∧
    (s.reason = some .failed → s.connDown = true ∨ s.fwdErr = true ∨
      ∃ p ∈ s.hres, p.2 = HRes.sendErr ∧ (p.1.bad ≠ .no ∨ s.connDown = true ∨ s.rimpl.isSome)) ∧
    (∀ v, s.accepted = [v] → s.impl.isSome →
      (s.hres = [(v, .ok)] ∧ s.xmit = [v]) ∨ (s.hres = [(v, .sendErr)] ∧ s.xmit = []) ∨
      (s.hres = [(v, .dropped)] ∧ s.xmit = [])) ∧
    (s.eos = some true → remOf s.delivered = s.xmit) := by
  have hr := h.reachable
  have o := oinv_reachable c s h
  have cl := mpsc_close_classified c s hr
  have q := qinv_reachable c s hr
  refine ⟨by have := o.one; omega, cl.1, cl.2.1, cl.2.2.1, ?_, (mpsc_close_keeps_transmitted c s hr).2⟩
  intro v hv hi
  obtain ⟨hc, hq⟩ := q.ended hi
  have hacc := q.acc
  rw [hv, hc, hq] at hacc
  simp only [Option.toList, List.append_nil] at hacc
  have hx := q.xm
  cases hh : s.hres with
  | nil => simp [hh] at hacc
  | cons p ps =>
    rw [hh] at hacc hx
    simp only [List.map_cons, List.cons.injEq] at hacc
    have hps : ps = [] := by simpa using hacc.2.symm
    subst hps
    obtain ⟨pv, pr⟩ := p
    have : pv = v := hacc.1.symm
    subst this
    cases pr
    · left; exact ⟨rfl, by rw [hx]; rfl⟩
    · right; left; exact ⟨rfl, by rw [hx]; rfl⟩
    · right; right; exact ⟨rfl, by rw [hx]; rfl⟩

/-- oneshot: the reason becomes observable exactly as for mpsc (instance of
`mpsc_close_observable_at_quiescence` for the still unsent sender) -/
theorem oneshot_close_observable_at_quiescence (c : Cfg) (s : State) (h : ReachableOnce c s) (hq : Quiescent c s)
    (hlive : s.handles ≠ 0) (hfe : s.fwdErr = false) :
    (s.closeCalled = true → s.rAlive = true → s.rHold = none → s.connDown = false → s.reason = some .closed) ∧
    (s.rAlive = false → s.closeCalled = false → s.connDown = false → s.reason = some .dropped) ∧
    (s.connDown = true → s.reason.isSome) := by
  have o := oinv_reachable c s h
  have a := allinv_reachable c s h.reachable
  -- the sender is unsent: nothing was accepted, so no transmission can have failed
  have hacc : s.accepted = [] := by
    have := o.one
    cases hl : s.accepted with
    | nil => rfl
    | cons x xs => simp [hl] at this; omega
  have hnf : s.failFlag = false := by
    cases hf : s.failFlag with
    | false => rfl
    | true =>
      have hm := a.f.ff.mp hf
      have hacc2 := a.q.acc
      rw [hacc] at hacc2
      have hh : s.hres = [] := by
        cases hh : s.hres with
        | nil => rfl
        | cons p ps => simp [hh] at hacc2
      rw [hh] at hm
      simp at hm
  have m := mpsc_close_observable_at_quiescence c s h.reachable hq hlive hnf hfe
  exact ⟨m.1, m.2.1, fun hd => (m.2.2 hd).1⟩

/-! non-vacuity: the value is accepted and transmitted, the receiver takes it, then a clean end;
and: the receiver is dropped before the value is transmitted — the handle reports `Dropped` -/
def cfgOnce : Cfg := { cap := 1, rcap := 1, oneshot := true }
def onceOk : State := run cfgOnce (settle cfgOnce (run cfgOnce (init 1 0 0) [.sendOnce ⟨7, 0, .no⟩]) 40) [.recv, .recv]
def onceDrop : State := settle cfgOnce (run cfgOnce (init 1 0 0) [.dropRx, .rSeeClosed, .sendOnce ⟨7, 0, .no⟩, .implBack]) 40

example : ReachableOnce cfgOnce (run cfgOnce (init 1 0 0) [.sendOnce ⟨7, 0, .no⟩]) := ⟨rfl, 0, 0, _, rfl⟩
example : onceOk.accepted.map (·.id) = [7] ∧ onceOk.hres.map (·.2) = [.ok] ∧ onceOk.eos = some true ∧
    (remOf onceOk.delivered).map (·.id) = [7] ∧ onceOk.handles = 0 := by decide
example : onceDrop.accepted.map (·.id) = [7] ∧ onceDrop.hres.map (·.2) = [.dropped] ∧ onceDrop.xmit = [] ∧
    onceDrop.impl = some .fin ∧ onceDrop.reason = some .dropped := by decide

/-! ## observation F-TC-1 (witness, not a theorem about all inputs)

The error returned by a `send` that was *waiting for queue space* when `send_impl` ended is always
`SendError::Closed` (`tx.send(req).await` failed; sender.rs `Sender::send`), whose `closed_reason()`
is `Closed` — also when the receiver was dropped or the connection failed; `Sender::closed_reason()`
and every later `send` report the true reason.  The same holds for every `send` of a local clone
after the receiver was dropped.  Model: label `waitFail`. -/
def ftc1Run : List Label :=
  [.send ⟨1, 0, .no⟩, .grant, .send ⟨2, 0, .no⟩, .grant, .send ⟨3, 0, .no⟩, .dropRx, .rSeeClosed, .implBack, .waitFail]

example : (run {} (init 1 0 0) ftc1Run).reason = some .dropped ∧
    (run {} (init 1 0 0) ftc1Run).refused.map (fun p => (p.1.id, p.2)) = [(3, some .closed)] := by decide

end Remoc.Close
