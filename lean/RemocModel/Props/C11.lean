import RemocModel.Link.CloseInv
import RemocModel.Link.Relay
import RemocModel.Link.ForwardClose2
import RemocModel.Props.C01
set_option linter.unusedSimpArgs false

/-!
# C11 — close and drop reach the other half, correctly classified, losing no sent data

Theorems about M_link for every schedule, with `close`, `dropReceiver`, `dropSender` at any
position of a message stream (also in the middle of a chunked message).

* `eos_after_all_data` — when the receiver is told end-of-stream, it has obtained every completed send
  (`SendFinish` travels in the same FIFO as the data that preceded it and nothing is emitted after it);
* `close_loses_nothing` — closing or dropping the receiver never invalidates C01: whatever was
  completed and gets consumed is delivered exactly;
* `close_classified` — `ReceiveClose` closes the sender's credit provider *gracefully*,
  `ReceiveFinish` *non-gracefully*, the first of the two decides; afterwards no new credits can be
  obtained (`closed_blocks_requests`) and a waiting or later operation fails (`closed_enables_fail`).

The typed channels (base, mpsc, lr, oneshot, bin) are covered by the correspondence runs of the
typed-channel harness (predicate `c11`), not by theorems.
-/

namespace Remoc.Link

theorem finv_reachable (c : Cfg) (st : State) (h : Reachable c st) : FInv st := by
  obtain ⟨ls, rfl⟩ := h
  exact finv_run c _ ls (finv_init c)

/-- **End-of-stream only after everything that was sent.**  If a receive call returned
end-of-stream (or the receiver is marked finished) then the receiver has consumed every emitted
frame, so the messages it obtained — plus a completed chunked message it is still draining — are
exactly the completed sends. -/
theorem eos_after_all_data (c : Cfg) (st : State) (h : Reachable c st)
    (heos : Out.eos ∈ st.outs ∨ st.r.finished = true) :
    st.consumed = st.emitted ∧ st.delivered ++ pendingMsg st = st.completed := by
  have fi := finv_reachable c st h
  have hfin := fi.eos heos
  have hpre := consumed_prefix_of_emitted c st h
  -- `finish` is in the consumed prefix and is the last emitted frame: the prefix is everything
  have hrest : st.r.queue ++ st.chan = [] := by
    obtain ⟨pre, post, hsp⟩ := List.append_of_mem hfin
    have := fi.last pre (post ++ (st.r.queue ++ st.chan)) (by rw [hpre, hsp]; simp)
    simpa using (List.append_eq_nil_iff.mp this).2
  have hce : st.consumed = st.emitted := by rw [hpre, hrest, List.append_nil]
  refine ⟨hce, ?_⟩
  rw [← receiver_delivers_consumed c st h, hce, sender_emits_completed c st h]

/-- **Close and drop lose nothing.**  The delivery theorems of C01 hold in states where the receiver
was closed or dropped and the sender learned of it: what the receiver obtained is always a prefix of
the completed sends, and everything once nothing is left in flight or queued. -/
theorem close_loses_nothing (c : Cfg) (st : State) (h : Reachable c st) :
    (∃ rest, st.delivered ++ rest = st.completed) ∧
    (st.chan = [] → st.r.queue = [] → pendingMsg st = [] → st.delivered = st.completed) :=
  ⟨delivery_exact c st h, delivery_complete c st h⟩

/-- **Classification.**  Handling `ReceiveClose` marks the sender's credit provider closed
gracefully, `ReceiveFinish` non-gracefully; the first one wins. -/
theorem close_classified (c : Cfg) (st st' : State) (b : Back) (bs : List Back)
    (hb : st.back = b :: bs) (hs : step c st .provide = some st') :
    st'.s.closed = match b, st.s.closed with
      | .recvClose, none => some true
      | .recvFinish, none => some false
      | _, cl => cl := by
  simp only [step, hb] at hs
  cases b with
  | credits n => simp only [Option.some.injEq] at hs; rw [← hs]
  | recvClose =>
    simp only [Option.some.injEq] at hs; rw [← hs]
    cases hcl : st.s.closed <;> simp [hcl]
  | recvFinish =>
    simp only [Option.some.injEq] at hs; rw [← hs]
    cases hcl : st.s.closed <;> simp [hcl]

/-- once closed, no operation obtains credits any more — unless the sender runs with
`override_graceful_close` (`c.ovr`, set by `chmux::forward`) and the close was graceful … -/
theorem closed_blocks_requests (c : Cfg) (st : State) (g : Bool) (h : st.s.closed = some g)
    (hov : c.ovr = false ∨ g = false) : step c st .request = none := by
  simp only [step]
  split
  · rfl
  · rcases hov with hov | hov <;> simp [Sender.mayRequest, Sender.open, h, hov]

/-- … and an operation that needs credits fails instead of waiting -/
theorem closed_enables_fail (c : Cfg) (st : State) (g : Bool) (x : Xfer) (h : st.s.closed = some g)
    (hov : c.ovr = false ∨ g = false)
    (hcur : st.s.cur = some x) (hheld : st.s.held = 0) : (step c st .fail).isSome = true := by
  rcases hov with hov | hov <;> simp [step, hcur, hheld, Sender.mayRequest, Sender.open, h, hov]

/-- **Graceful-close override** (`Sender::set_override_graceful_close`, used by `chmux::forward`): a sender
with the override keeps obtaining credits after a *graceful* close (`ReceiveClose`) and its operations do
not fail; only a non-graceful close (`ReceiveFinish`: receiver dropped) stops it. -/
theorem override_keeps_sending (c : Cfg) (st : State) (x : Xfer) (hov : c.ovr = true)
    (h : st.s.closed = some true) (hcur : st.s.cur = some x) :
    step c st .fail = none ∧
    (st.s.held = 0 → x.want.2 ≤ st.s.pool → (step c st .request).isSome = true) := by
  constructor
  · simp [step, hcur, Sender.mayRequest, Sender.open, h, hov]
  · intro hh hp
    simp only [step, hcur]
    rw [if_pos ⟨hh, by simp [Sender.mayRequest, h, hov], hp⟩]
    rfl

/-- messages whose transmission completed before the sender learned of the close are not affected:
`provide` of a close notification changes neither what was emitted nor what was completed -/
theorem close_keeps_completed (c : Cfg) (st st' : State) (hs : step c st .provide = some st') :
    st'.emitted = st.emitted ∧ st'.completed = st.completed ∧ st'.chan = st.chan := by
  simp only [step] at hs
  split at hs
  · simp at hs
  · split at hs <;> (obtain rfl := Option.some.inj hs; exact ⟨rfl, rfl, rfl⟩)

/-! ### non-vacuity -/

def c11 : Cfg := { chunk := 4, limit := 8, maxData := 100, maxPorts := 8 }

/-- two messages, the receiver closes after the first was sent; the sender completes the second before
it learns of the close; both are delivered; the third send fails gracefully; the sender is dropped;
the receiver sees end-of-stream after both messages -/
def closeRun : List Label :=
  [.startSend [1, 2], .request, .emit, .close, .startSend [3], .request, .emit, .provide,
   .startSend [4], .fail, .dropSender, .muxRecv, .muxRecv, .muxRecv, .recvAny, .recvAny, .recvAny]

example : (run c11 (init c11) closeRun).completed = [[1, 2], [3]] ∧
    (run c11 (init c11) closeRun).delivered = [[1, 2], [3]] ∧
    (run c11 (init c11) closeRun).s.closed = some true ∧
    Out.eos ∈ (run c11 (init c11) closeRun).outs := by decide

/-! ### across a port forwarder (`chmux::forward`, `RemocModel/Link/Relay.lean`) -/

/-- **The forwarder relays a prefix.**  What the forwarder completed sending downstream is, in order,
a prefix of the messages it received upstream: it never invents, duplicates, reorders or skips. -/
theorem relay_forwarded_prefix (ca cb : Cfg) (r : Relay) (h : RReachable ca cb r) :
    ∃ k, k ≤ r.fwd ∧ r.b.completed = r.a.delivered.take k := by
  obtain ⟨_, _, _, _, k, hk, hc, _⟩ := rinvariant_reachable ca cb r h
  exact ⟨k, hk, hc⟩

/-- **Exactly-once, in order, byte-exact across a forwarder.**  In every reachable state of origin link,
forwarder and destination link, what the destination obtained is a prefix of the sends completed at the
origin — whatever the sizes, configurations of both links, schedules, cancellations at the origin, closes
and drops on either link, and wherever the forwarder stops. -/
theorem relay_exact (ca cb : Cfg) (r : Relay) (h : RReachable ca cb r) :
    ∃ rest, r.b.delivered ++ rest = r.a.completed := by
  obtain ⟨ha, hb⟩ := relay_links_reachable ca cb r h
  obtain ⟨k, _, hk⟩ := relay_forwarded_prefix ca cb r h
  obtain ⟨r1, h1⟩ := delivery_exact cb r.b hb
  obtain ⟨r2, h2⟩ := delivery_exact ca r.a ha
  refine ⟨r1 ++ (r.a.delivered.drop k ++ r2), ?_⟩
  rw [← List.append_assoc, h1, hk, ← List.append_assoc, List.take_append_drop, h2]

/-- **Complete at quiescence.**  With nothing in flight or queued on either link, the forwarder idle
between sends and still running, and both receiving callers done with their current message, the
destination has obtained every send completed at the origin. -/
theorem relay_complete (ca cb : Cfg) (r : Relay) (h : RReachable ca cb r)
    (ha1 : r.a.chan = []) (ha2 : r.a.r.queue = []) (ha3 : pendingMsg r.a = [])
    (hb1 : r.b.chan = []) (hb2 : r.b.r.queue = []) (hb3 : pendingMsg r.b = [])
    (hrun : r.stopped = false) (hidle : r.b.s.cur = none) (hall : r.fwd = r.a.delivered.length) :
    r.b.delivered = r.a.completed := by
  obtain ⟨ha, hb⟩ := relay_links_reachable ca cb r h
  obtain ⟨_, _, _, _, k, _, hc, hr⟩ := rinvariant_reachable ca cb r h
  have hk : k = r.fwd := by
    rcases hr hrun with ⟨_, h2⟩ | ⟨h1, _, _⟩
    · exact h2
    · simp [hidle] at h1
  rw [delivery_complete cb r.b hb hb1 hb2 hb3, hc, hk, hall, List.take_length,
      delivery_complete ca r.a ha ha1 ha2 ha3]


/-- non-vacuity: a two-byte message travels origin → forwarder → destination -/
def relayCfg : Cfg := { chunk := 4, limit := 8, maxData := 16, maxPorts := 8 }
def relayRun : List RLabel :=
  [.up (.startSend [1, 2]), .up .request, .up .emit, .up .muxRecv, .up .recvAny,
   .relayStart, .down .request, .down .emit, .down .muxRecv, .down .recvAny]
example : (rrun relayCfg relayCfg (rinit relayCfg relayCfg) relayRun).b.delivered = [[1, 2]] ∧
    (rrun relayCfg relayCfg (rinit relayCfg relayCfg) relayRun).a.completed = [[1, 2]] := by decide

/-! ### across `chmux::forward` at chunk granularity (`RemocModel/Link/Forward.lean`)

`FReachable v ca cb f` quantifies over every schedule of origin, upstream link, forwarding loop, downstream
link and destination: every sequence of whole sends, chunk streams (any chunking) and port batches at the
origin, cancels at every await of the origin's sends, every `max_data_size` of the forwarder's receiver (which
decides whether a message reaches it as `Received::Data` or `Received::Chunks`), closes and drops on either
link, loss of either connection in any phase. -/

/-- **Chunk-by-chunk forwarding is exact.**  In every reachable state
(1) the messages whose transmission the forwarder *completed* downstream are, byte for byte and in order, a
    prefix of the ideal reassembly (`parse none`, C01) of the upstream frames it consumed — whatever their
    chunking, and whichever chunk streams were cancelled;
(2) between two messages (`idle`) they are equal to it;
(3) what the destination obtained is a prefix of the sends completed at the origin;
(4) at quiescence of both links with the forwarder idle the destination has obtained all of them. -/
theorem forward_chunks_exact (v : Pairing) (ca cb : Cfg) (f : Fwd) (h : FReachable v ca cb f) :
    (∃ rest, f.b.completed ++ rest = parse none f.a.consumed) ∧
    (f.ph = .idle → f.b.completed = parse none f.a.consumed) ∧
    (∃ rest, f.b.delivered ++ rest = f.a.completed) ∧
    (f.ph = .idle → f.a.chan = [] → f.a.r.queue = [] → f.b.chan = [] → f.b.r.queue = [] → pendingMsg f.b = [] →
      f.b.delivered = f.a.completed) := by
  obtain ⟨⟨_, _, hrel⟩, ha, hb⟩ := fjoint_reachable v ca cb f h
  have hrc := receiver_delivers_consumed ca f.a ha
  obtain ⟨k, hk⟩ := rel_pre _ _ _ _ _ hrel
  have idleFacts : f.ph = .idle → f.a.partialMsg = none ∧ f.b.completed = f.a.delivered := by
    intro hph; rw [hph] at hrel; exact hrel
  have pend0 : f.a.partialMsg = none → pendingMsg f.a = [] := by
    intro hp; unfold pendingMsg; rw [hp]; split <;> simp_all
  refine ⟨⟨f.a.delivered.drop k ++ pendingMsg f.a, ?_⟩, ?_, ?_, ?_⟩
  · rw [hrc, hk, ← List.append_assoc, List.take_append_drop]
  · intro hph
    obtain ⟨hp, hc⟩ := idleFacts hph
    rw [hrc, pend0 hp, List.append_nil, hc]
  · obtain ⟨r1, h1⟩ := delivery_exact cb f.b hb
    obtain ⟨r2, h2⟩ := delivery_exact ca f.a ha
    refine ⟨r1 ++ (f.a.delivered.drop k ++ r2), ?_⟩
    rw [← List.append_assoc, h1, hk, ← List.append_assoc, List.take_append_drop, h2]
  · intro hph a1 a2 b1 b2 b3
    obtain ⟨hp, hc⟩ := idleFacts hph
    rw [delivery_complete cb f.b hb b1 b2 b3, hc, delivery_complete ca f.a ha a1 a2 (pend0 hp)]

/-- **A cancelled or failed upstream chunk stream never yields a completed downstream message** (seeded bug
(b): treating `Err(Cancelled)` / `Err(ChMux)` of `recv_chunk` as end-of-message and calling `finish()`).  When
`recv_chunk` reports `Cancelled`, or the upstream connection is lost inside the chunk loop, the forwarder
drops its `ChunkSender`: nothing is completed, nothing more is emitted for that message, and by
`forward_chunks_exact` (3) the destination never obtains it. -/
theorem forward_cancelled_never_completed (v : Pairing) (ca cb : Cfg) (f f' : Fwd) :
    (fstep v ca cb f .recvChunk = some f' → chunkOut ca f.a = some .cancelled →
      f'.b.completed = f.b.completed ∧ f'.b.emitted = f.b.emitted ∧ f'.b.s.inMsg = false ∧ f'.ph = .idle) ∧
    (fstep v ca cb f .upLost = some f' →
      f'.b.completed = f.b.completed ∧ f'.b.emitted = f.b.emitted ∧ (f.ph = .chunkRecv → f'.b.s.inMsg = false) ∧
      f'.ph = .done .errRecv) := by
  constructor
  · intro hs ho
    simp only [fstep] at hs
    split at hs
    · split at hs
      · simp only [ho, afterChunk] at hs
        cases hc : step cb f.b .cancel with
        | none => simp [hc] at hs
        | some b' =>
          simp only [hc, Option.map_some, Option.some.injEq] at hs
          subst hs
          obtain ⟨_, him, hcomp, _, hem⟩ := cancel_spec cb f.b b' hc
          exact ⟨hcomp, hem, him, rfl⟩
      · simp at hs
    · simp at hs
  · intro hs
    simp only [fstep] at hs
    split at hs
    · rename_i hph
      obtain rfl := Option.some.inj hs
      exact ⟨rfl, rfl, by simp [hph], rfl⟩
    · rename_i hph
      cases hc : step cb f.b .cancel with
      | none => simp [hc] at hs
      | some b' =>
        simp only [hc, Option.map_some, Option.some.injEq] at hs
        subst hs
        obtain ⟨_, him, hcomp, _, hem⟩ := cancel_spec cb f.b b' hc
        exact ⟨hcomp, hem, fun _ => him, rfl⟩
    · simp at hs

/-- **End-of-stream across the forwarder.**
(1) `forward` returns `Ok` only when the upstream port reported end-of-stream, and then it has consumed every
    frame the origin emitted and completed downstream exactly the sends completed at the origin;
(2) the destination is told end-of-stream only after `forward` returned (its caller then drops the downstream
    sender: `SendFinish` travels behind everything that was relayed), and then it has obtained every message the
    forwarder completed;
(3) hence after an `Ok` return: exactly the origin's completed sends.
After an error return (`ForwardError`) the destination still sees a clean end-of-stream once the forwarding task
drops its sender: (2) holds, (3) does not — see `fwdLostRun` below. -/
theorem forward_eos_after_all (v : Pairing) (ca cb : Cfg) (f : Fwd) (h : FReachable v ca cb f) :
    (f.ph = .done .ok → f.a.consumed = f.a.emitted ∧ f.b.completed = f.a.completed) ∧
    ((Out.eos ∈ f.b.outs ∨ f.b.r.finished = true) →
      f.ph.isDone = true ∧ f.b.delivered ++ pendingMsg f.b = f.b.completed) ∧
    ((Out.eos ∈ f.b.outs ∨ f.b.r.finished = true) → f.ph = .done .ok →
      f.b.delivered ++ pendingMsg f.b = f.a.completed) := by
  obtain ⟨⟨_, _, hrel⟩, ha, hb⟩ := fjoint_reachable v ca cb f h
  have hcl := fclose_reachable v ca cb f h
  have part1 : f.ph = .done .ok → f.a.consumed = f.a.emitted ∧ f.b.completed = f.a.completed := by
    intro hph
    have heos := hcl.okEos hph
    rw [hph] at hrel
    obtain ⟨hp, hc⟩ := hrel
    obtain ⟨h1, h2⟩ := eos_after_all_data ca f.a ha heos
    have pend0 : pendingMsg f.a = [] := by unfold pendingMsg; rw [hp]; split <;> simp_all
    rw [pend0, List.append_nil] at h2
    exact ⟨h1, by rw [hc, h2]⟩
  have part2 : (Out.eos ∈ f.b.outs ∨ f.b.r.finished = true) →
      f.ph.isDone = true ∧ f.b.delivered ++ pendingMsg f.b = f.b.completed := by
    intro he
    obtain ⟨h1, h2⟩ := eos_after_all_data cb f.b hb he
    have fi := finv_reachable cb f.b hb
    have hfin : Frame.finish ∈ f.b.emitted := by rw [← h1]; exact fi.eos he
    exact ⟨hcl.dropped (fi.mem hfin), h2⟩
  exact ⟨part1, part2, fun he hph => by rw [(part2 he).2, (part1 hph).2]⟩

/-- **Close in each direction, classified.**
(1) the forwarder closes its upstream receiver (`ReceiverClosed` to the origin) only after its downstream sender
    was told that the destination closed or dropped its receiver;
(2) `Ok` only at upstream end-of-stream (`recv_any` reported it, or `Finished` ended a chunk stream — reported
    as `Cancelled` — and the next `recv_any` returned `None` at once);
(3) `ForwardError::Send` only if the downstream connection was lost or the downstream receiver closed in a way the
    sender does not override — with the graceful-close override `forward` sets: only if it was *dropped*
    (`ReceiveFinish`), never because of a graceful `close()`;
(4) `ForwardError::Recv` only if the upstream connection was lost or a port batch exceeded `max_ports`. -/
theorem forward_close_classified (v : Pairing) (ca cb : Cfg) (f : Fwd) (h : FReachable v ca cb f) :
    (f.a.r.closed = true → f.b.s.closed.isSome = true) ∧
    (f.ph = .done .ok → (Out.eos ∈ f.a.outs ∨ f.a.r.finished = true)) ∧
    (f.ph = .done .errSend → f.lostDown = true ∨ ∃ g, f.b.s.closed = some g ∧ (cb.ovr = true → g = false)) ∧
    (f.ph = .done .errRecv → f.lostUp = true ∨ Out.tooManyPorts ∈ f.a.outs) := by
  have hcl := fclose_reachable v ca cb f h
  exact ⟨fun hc => hcl.seen (hcl.closeUp hc), hcl.okEos, hcl.errSend, hcl.errRecv⟩

/-- **The close reaches the origin.**  Between two messages, once the downstream sender knows that its receiver
was closed or dropped, the `Event::Closed` branch is enabled (unless it ran before); after it the upstream
receiver is closed — `ReceiverClosed` is on its way to the origin — or had been dropped already
(`ReceiverDropped` is), and the loop goes on relaying what the origin had sent. -/
theorem forward_close_propagates (v : Pairing) (ca cb : Cfg) (f : Fwd) (hph : f.ph = .idle)
    (hseen : f.closedSeen = false) (hcl : f.b.s.closed.isSome = true) :
    ∃ f', fstep v ca cb f .closedEvt = some f' ∧ f'.closedSeen = true ∧ f'.ph = .idle ∧ f'.b = f.b ∧
      (f'.a.r.closed = true ∨ f'.a.r.dropped = true) := by
  refine ⟨{ f with a := (step ca f.a .close).getD f.a, closedSeen := true },
    by simp only [fstep, hph]; rw [if_pos ⟨hseen, hcl⟩], rfl, hph, rfl, ?_⟩
  show ((step ca f.a .close).getD f.a).r.closed = true ∨ ((step ca f.a .close).getD f.a).r.dropped = true
  cases hs : step ca f.a .close with
  | some a' => left; simpa [hs] using (close_spec ca f.a a' hs).2.2.2
  | none =>
    simp only [hs, Option.getD_none]
    simp only [step] at hs
    split at hs
    · simp at hs
    · rename_i hn
      cases hc : f.a.r.closed <;> cases hd : f.a.r.dropped <;> simp_all

/-- non-vacuity: a chunk stream of 7 bytes (above the forwarder's `max_data_size` 5, so relayed chunk by chunk)
is cancelled at the origin after both chunks were relayed; the next message is relayed whole; then a 7-byte
chunk stream is relayed to its end.  Downstream 7 + 0 frames were emitted for the two streams, and exactly the
completed sends `[9]`, `[1..7]` are completed downstream and obtained by the destination. -/
def fwdA : Cfg := { chunk := 4, limit := 16, maxData := 5, maxPorts := 8 }
def fwdB : Cfg := { chunk := 4, limit := 16, maxData := 100, maxPorts := 8, ovr := true }
def fwdCancelRun : List FLabel :=
  [.up .startChunks, .up (.chunkSend [1,2,3,4,5,6,7] false), .up .request, .up .emit, .up .emit,
   .up .muxRecv, .up .muxRecv, .recvAny, .recvAny,
   .recvChunk, .down .request, .emit, .recvChunk, .down .request, .emit,
   .up .cancel, .up (.startSend [9]), .up .request, .up .emit, .up .muxRecv,
   .recvChunk, .recvAny, .down .request, .emit]
def fwdChunkRun : List FLabel := fwdCancelRun ++
  [.down .muxRecv, .down .muxRecv, .down .muxRecv, .down .recvAny, .down .recvAny, .down .recvAny, .down .provide,
   .up .startChunks, .up (.chunkSend [1,2,3,4,5,6,7] false), .up .request, .up .emit, .up .emit,
   .up (.chunkSend [] true), .up .request, .up .emit,
   .up .muxRecv, .up .muxRecv, .up .muxRecv, .recvAny, .recvAny,
   .recvChunk, .down .request, .emit, .recvChunk, .down .request, .emit, .recvChunk, .down .request, .emit,
   .recvChunk, .down .request, .emit,
   .down .muxRecv, .down .muxRecv, .down .muxRecv, .down .muxRecv,
   .down .recvAny, .down .recvAny, .down .recvAny, .down .recvAny]

example : (frun .asCoded fwdA fwdB (finit fwdA fwdB) fwdCancelRun).b.completed = [[9]] ∧
    (frun .asCoded fwdA fwdB (finit fwdA fwdB) fwdCancelRun).b.emitted.length = 3 ∧
    Out.cancelled ∈ (frun .asCoded fwdA fwdB (finit fwdA fwdB) fwdCancelRun).a.outs ∧
    (frun .asCoded fwdA fwdB (finit fwdA fwdB) fwdCancelRun).ph = .idle := by decide

example : (frun .asCoded fwdA fwdB (finit fwdA fwdB) fwdChunkRun).b.completed = [[9], [1,2,3,4,5,6,7]] ∧
    (frun .asCoded fwdA fwdB (finit fwdA fwdB) fwdChunkRun).a.completed = [[9], [1,2,3,4,5,6,7]] ∧
    (frun .asCoded fwdA fwdB (finit fwdA fwdB) fwdChunkRun).b.delivered = [[9], [1,2,3,4,5,6,7]] ∧
    (frun .asCoded fwdA fwdB (finit fwdA fwdB) fwdChunkRun).ph = .idle := by decide

/-- the origin sends one message and drops its sender; the forwarder relays it, sees end-of-stream, returns `Ok`,
its caller drops both ports; the destination obtains the message and then end-of-stream -/
def fwdEosRun : List FLabel :=
  [.up (.startSend [9]), .up .request, .up .emit, .up .dropSender, .up .muxRecv, .up .muxRecv,
   .recvAny, .down .request, .emit, .recvAny, .dropTx, .dropRx,
   .down .muxRecv, .down .muxRecv, .down .recvAny, .down .recvAny]
example : (frun .asCoded fwdA fwdB (finit fwdA fwdB) fwdEosRun).ph = .done .ok ∧
    (frun .asCoded fwdA fwdB (finit fwdA fwdB) fwdEosRun).b.delivered = [[9]] ∧
    Out.eos ∈ (frun .asCoded fwdA fwdB (finit fwdA fwdB) fwdEosRun).b.outs := by decide

/-- the destination closes gracefully while a message is on its way to the forwarder: the forwarder closes its
upstream receiver, the origin's sender learns of it (`closed = some true`), and — graceful-close override — the
message is still relayed and obtained by the destination -/
def fwdCloseRun : List FLabel :=
  [.up (.startSend [9]), .up .request, .up .emit, .up .muxRecv,
   .down .close, .down .provide, .closedEvt,
   .recvAny, .down .request, .emit, .up .provide,
   .down .muxRecv, .down .recvAny]
example : (frun .asCoded fwdA fwdB (finit fwdA fwdB) fwdCloseRun).b.s.closed = some true ∧
    (frun .asCoded fwdA fwdB (finit fwdA fwdB) fwdCloseRun).a.r.closed = true ∧
    (frun .asCoded fwdA fwdB (finit fwdA fwdB) fwdCloseRun).a.s.closed = some true ∧
    (frun .asCoded fwdA fwdB (finit fwdA fwdB) fwdCloseRun).b.delivered = [[9]] ∧
    (frun .asCoded fwdA fwdB (finit fwdA fwdB) fwdCloseRun).ph = .idle := by decide

/-- the upstream connection is lost while a chunked message is relayed: `forward` returns `ForwardError::Recv`,
the `ChunkSender` is dropped, nothing is completed; when the forwarding task then drops its sender the
destination sees a *clean* end-of-stream after a discarded partial message (what FB3 reports for bin channels) -/
def fwdLostRun : List FLabel :=
  [.up .startChunks, .up (.chunkSend [1,2,3,4,5,6,7] false), .up .request, .up .emit, .up .emit,
   .up .muxRecv, .up .muxRecv, .recvAny, .recvAny, .recvChunk, .down .request, .emit,
   .upLost, .dropTx, .down .muxRecv, .down .muxRecv, .down .recvAny, .down .recvAny]
example : (frun .asCoded fwdA fwdB (finit fwdA fwdB) fwdLostRun).ph = .done .errRecv ∧
    (frun .asCoded fwdA fwdB (finit fwdA fwdB) fwdLostRun).b.completed = [] ∧
    (frun .asCoded fwdA fwdB (finit fwdA fwdB) fwdLostRun).b.delivered = [] ∧
    (frun .asCoded fwdA fwdB (finit fwdA fwdB) fwdLostRun).b.emitted.length = 2 ∧
    Out.eos ∈ (frun .asCoded fwdA fwdB (finit fwdA fwdB) fwdLostRun).b.outs := by decide

/-- the origin drops its sender in the middle of a chunk stream: `Finished` reaches the forwarder inside its chunk
loop, `recv_chunk` reports `Cancelled` (the `ChunkSender` is dropped, nothing is completed), the next `recv_any`
returns `None` at once and `forward` returns `Ok` -/
def fwdFinInStreamRun : List FLabel :=
  [.up .startChunks, .up (.chunkSend [1,2,3,4,5,6,7] false), .up .request, .up .emit, .up .emit, .up .cancel,
   .up .dropSender, .up .muxRecv, .up .muxRecv, .up .muxRecv, .recvAny, .recvAny,
   .recvChunk, .down .request, .emit, .recvChunk, .down .request, .emit, .recvChunk, .recvAny]
example : (frun .asCoded fwdA fwdB (finit fwdA fwdB) fwdFinInStreamRun).ph = .done .ok ∧
    (frun .asCoded fwdA fwdB (finit fwdA fwdB) fwdFinInStreamRun).b.completed = [] ∧
    Out.cancelled ∈ (frun .asCoded fwdA fwdB (finit fwdA fwdB) fwdFinInStreamRun).a.outs ∧
    Out.eos ∉ (frun .asCoded fwdA fwdB (finit fwdA fwdB) fwdFinInStreamRun).a.outs ∧
    (frun .asCoded fwdA fwdB (finit fwdA fwdB) fwdFinInStreamRun).a.r.finished = true := by decide

/-- **Witness of finding F-FWD-1** (a run of the model as the code is, not a theorem about all runs): the
destination receiver (buffer 4) is closed gracefully and then dropped while the forwarder holds the second chunk
of a message and has no credits.  `ReceiveFinish` after `ReceiveClose` leaves `closed = some true` (mux.rs: the first
notification wins), with the override the credit request is not refused, no credits will ever arrive: neither
`fail` nor `request` nor `emit` nor the `Closed` branch is enabled — the forwarder is wedged in `chunkSend`, and the
origin's sender has not been told anything. -/
def fwdWedgeB : Cfg := { chunk := 4, limit := 4, maxData := 100, maxPorts := 8, ovr := true }
def fwdWedgeRun : List FLabel :=
  [.up (.startSend [1,2,3,4,5,6]), .up .request, .up .emit, .up .emit, .up .muxRecv, .up .muxRecv,
   .recvAny, .recvAny, .recvChunk, .down .request, .emit, .recvChunk,
   .down .close, .down .provide, .down .dropReceiver, .down .provide]
example :
    let f := frun .asCoded fwdA fwdWedgeB (finit fwdA fwdWedgeB) fwdWedgeRun
    f.ph = .chunkSend ∧ f.b.s.closed = some true ∧ f.b.r.dropped = true ∧ f.b.s.pool = 0 ∧ f.b.back = [] ∧
    f.a.s.closed = none ∧ f.a.r.closed = false ∧
    (fstep .asCoded fwdA fwdWedgeB f .fail).isNone ∧ (fstep .asCoded fwdA fwdWedgeB f (.down .request)).isNone ∧
    (fstep .asCoded fwdA fwdWedgeB f .emit).isNone ∧ (fstep .asCoded fwdA fwdWedgeB f .closedEvt).isNone := by decide

end Remoc.Link
