import RemocModel.Io.Progress
import RemocModel.Io.Depth
import RemocModel.Io.Fuel

/-!
# C18 — I/O channels deliver exactly the written bytes; short streams are errors

Theorems about M_io (`Remoc.Io`, `RemocModel/Io/Model.lean`): the `AsyncWrite` sender and
`AsyncRead` receiver of `rch/io`, sized and unsized, over the abstract port (whole messages in
order, end-of-stream after the data: property C01), with the separately transmitted size.

A reachable state is the result of *any* label list from the initial state: all byte strings, all
partitions into `write` calls (empty ones, calls longer than the chunk size or than the remaining
fixed size), flushes, shutdowns at any point and repeated, reads with any buffer size (also zero)
and any slicing of the received messages, any interleaving of the two halves, drops of either
half at any moment, the sender shipped to another endpoint in mid-stream (with or without a chunk
in flight), and the faults of the environment (connection cut with any number of
messages and the size announcement lost in transit, a data port that fails cleanly, a sender
port that learns late that its peer is gone).  `accepted` is the concatenation of the accepted
part of every write, `received` the concatenation of the results of all successful reads,
`eofSeen` records that a read with buffer space returned zero bytes successfully.
-/

namespace Remoc.Io

/-! ### ghost histories are the histories of the outputs -/

/-- Bytes a successful read handed out. -/
def readOf : Label × Out → Bytes
  | (.read _ _, .data bs) => bs
  | _ => []

/-- The part of a write that was accepted (`Ok(n)`: the first `n` bytes). -/
def writtenOf : Label × Out → Bytes
  | (.write bs, .wrote n) => bs.take n
  | _ => []

/-- A read with buffer space that returned `Ok` with zero bytes: end-of-file. -/
def eofOf : Label × Out → Bool
  | (.read n _, .data []) => decide (0 < n)
  | _ => false

def readBytes (os : List (Label × Out)) : Bytes := (os.map readOf).flatten
def writtenBytes (os : List (Label × Out)) : Bytes := (os.map writtenOf).flatten
def eofReported (os : List (Label × Out)) : Bool := os.any eofOf

theorem step_ghost {cfg : Cfg} {s s' : State} {l : Label} {o : Out} (hs : stepOut cfg s l = some (o, s')) :
    s'.received = s.received ++ readOf (l, o) ∧ s'.accepted = s.accepted ++ writtenOf (l, o) ∧
    s'.eofSeen = (s.eofSeen || eofOf (l, o)) := by
  cases l with
  | write bs =>
    simp only [stepOut] at hs
    split at hs
    · split at hs <;>
        (simp only [Option.some.injEq, Prod.mk.injEq] at hs; obtain ⟨rfl, rfl⟩ := hs; simp [readOf, writtenOf, eofOf])
    · cases hs
  | flush =>
    simp only [stepOut] at hs
    split at hs
    · split at hs <;>
        (simp only [Option.some.injEq, Prod.mk.injEq] at hs; obtain ⟨rfl, rfl⟩ := hs; simp [readOf, writtenOf, eofOf])
    · cases hs
  | shutdown =>
    simp only [stepOut] at hs
    split at hs
    · split at hs <;>
        (simp only [Option.some.injEq, Prod.mk.injEq] at hs; obtain ⟨rfl, rfl⟩ := hs; simp [readOf, writtenOf, eofOf])
    · cases hs
  | read n seg =>
    simp only [stepOut] at hs
    split at hs
    · simp only [Option.some.injEq, Prod.mk.injEq] at hs
      obtain ⟨rfl, rfl⟩ := hs
      generalize (pollRead n seg (readFuel s.ch) s.rx s.ch).1 = o
      cases o with
      | data bs => cases bs <;> simp [readOf, writtenOf, eofOf, outBytes]
      | _ => simp [readOf, writtenOf, eofOf, outBytes]
    · cases hs
  | dropTx | dropRx | notice =>
    simp only [stepOut] at hs
    split at hs
    · simp only [Option.some.injEq, Prod.mk.injEq] at hs; obtain ⟨rfl, rfl⟩ := hs; simp [readOf, writtenOf, eofOf]
    · cases hs
  | moveTx =>
    simp only [stepOut] at hs
    split at hs
    · split at hs <;>
        (simp only [Option.some.injEq, Prod.mk.injEq] at hs; obtain ⟨rfl, rfl⟩ := hs; simp [readOf, writtenOf, eofOf])
    · cases hs
  | cut | sever =>
    simp only [stepOut] at hs
    split at hs
    · cases hs
    · simp only [Option.some.injEq, Prod.mk.injEq] at hs; obtain ⟨rfl, rfl⟩ := hs; simp [readOf, writtenOf, eofOf]
  | lose =>
    simp only [stepOut] at hs
    split at hs
    · split at hs
      · simp only [Option.some.injEq, Prod.mk.injEq] at hs; obtain ⟨rfl, rfl⟩ := hs; simp [readOf, writtenOf, eofOf]
      · split at hs
        · cases hs
        · simp only [Option.some.injEq, Prod.mk.injEq] at hs; obtain ⟨rfl, rfl⟩ := hs; simp [readOf, writtenOf, eofOf]
      · cases hs
    · cases hs
  | loseSize =>
    simp only [stepOut] at hs
    split at hs
    · split at hs
      · simp only [Option.some.injEq, Prod.mk.injEq] at hs; obtain ⟨rfl, rfl⟩ := hs; simp [readOf, writtenOf, eofOf]
      · cases hs
    · cases hs

/-- The ghost fields of the state reached by a run are exactly the histories of its outputs. -/
theorem run_ghost {cfg : Cfg} : ∀ (ls : List Label) (s : State),
    (run cfg s ls).received = s.received ++ readBytes (outputs cfg s ls) ∧
    (run cfg s ls).accepted = s.accepted ++ writtenBytes (outputs cfg s ls) ∧
    (run cfg s ls).eofSeen = (s.eofSeen || eofReported (outputs cfg s ls))
  | [], s => by simp [run, outputs, readBytes, writtenBytes, eofReported]
  | l :: ls, s => by
    unfold run outputs
    cases hs : stepOut cfg s l with
    | none => simp only [step, hs, Option.map_none]; exact run_ghost ls s
    | some p =>
      obtain ⟨o, s'⟩ := p
      simp only [step, hs, Option.map_some]
      obtain ⟨h1, h2, h3⟩ := run_ghost ls s'
      obtain ⟨g1, g2, g3⟩ := step_ghost hs
      refine ⟨?_, ?_, ?_⟩
      · rw [h1, g1]; simp [readBytes]
      · rw [h2, g2]; simp [writtenBytes]
      · rw [h3, g3]; simp [eofReported, Bool.or_assoc]

/-! ### bytes_exact -/

/-- **End-of-file only when complete** (⇒): whenever the receiver has verified the end of file, the
bytes read equal the fixed size (sized) or the size a shutdown announced (unsized), and that is
all the sender ever accepted. -/
theorem eof_only_when_complete (cfg : Cfg) (s : State) (h : Reachable cfg s)
    (he : s.rx.eofVerified = true ∨ s.eofSeen = true) :
    (∃ N, cfg.fixed = some N ∧ s.received.length = N ∧ s.accepted.length = N) ∨
    (cfg.fixed = none ∧ s.announced = some s.received.length ∧ s.accepted.length = s.received.length) := by
  have hi := inv_reachable h
  have hv : s.rx.eofVerified = true := by
    rcases he with he | he
    · exact he
    · exact hi.rx.eofS he
  have hle := flatten_length_le_of_prefix hi.acct.pre
  rcases hi.rx.eofV hv with ⟨N, hN, hr⟩ | ⟨hf, ha⟩
  · left
    have := hi.tx.fixedBound N hN
    exact ⟨N, hN, hr, by omega⟩
  · right
    exact ⟨hf, ha, ((hi.tx.ann _ ha).1).symm⟩

/-- **Bytes exact.**  At every moment the bytes read are a prefix of the bytes accepted; once
end-of-file has been reported successfully they are equal. -/
theorem bytes_exact (cfg : Cfg) (s : State) (h : Reachable cfg s) :
    s.received <+: s.accepted ∧
    (s.rx.eofVerified = true ∨ s.eofSeen = true → s.received = s.accepted) := by
  have hi := inv_reachable h
  have hpre : s.received <+: s.accepted := by
    obtain ⟨rest, hr⟩ := hi.acct.pre
    exact ⟨s.rx.held ++ s.ch.data.flatten ++ rest, by rw [hr]; simp⟩
  refine ⟨hpre, fun he => ?_⟩
  have hlen : s.received.length = s.accepted.length := by
    rcases eof_only_when_complete cfg s h he with ⟨N, _, h1, h2⟩ | ⟨_, _, h2⟩ <;> omega
  exact hpre.eq_of_length hlen

/-- **Bytes exact, on the outputs.**  For every schedule: the concatenation of the results of the
successful reads is a prefix of the concatenation of the accepted parts of the writes, and equal
to it if some read (with buffer space) reported end-of-file. -/
theorem bytes_exact_outputs (cfg : Cfg) (ls : List Label) :
    readBytes (outputs cfg (init cfg) ls) <+: writtenBytes (outputs cfg (init cfg) ls) ∧
    (eofReported (outputs cfg (init cfg) ls) = true →
      readBytes (outputs cfg (init cfg) ls) = writtenBytes (outputs cfg (init cfg) ls)) := by
  obtain ⟨h1, h2, h3⟩ := run_ghost (cfg := cfg) ls (init cfg)
  have hb := bytes_exact cfg (run cfg (init cfg) ls) ⟨ls, rfl⟩
  have e1 : (init cfg).received = [] := rfl
  have e2 : (init cfg).accepted = [] := rfl
  have e3 : (init cfg).eofSeen = false := rfl
  rw [e1, List.nil_append] at h1
  rw [e2, List.nil_append] at h2
  rw [e3, Bool.false_or] at h3
  rw [h1, h2, h3] at hb
  exact ⟨hb.1, fun he => hb.2 (Or.inr he)⟩

/-! ### eof_only_when_complete, the converse direction -/

theorem read_result {cfg : Cfg} {s : State} {n seg : Nat} (hu : rxUsable s.rx = true) :
    ∃ s', stepOut cfg s (.read n seg) = some ((pollRead n seg (readFuel s.ch) s.rx s.ch).1, s') ∧
      s'.eofSeen = (s.eofSeen || ((pollRead n seg (readFuel s.ch) s.rx s.ch).1 == .data [] && decide (0 < n))) ∧
      s'.rx = (pollRead n seg (readFuel s.ch) s.rx s.ch).2.1 := by
  simp only [stepOut, hu, if_true]
  exact ⟨_, rfl, rfl, rfl⟩

/-- **End-of-file when complete, sized** (⇐): once the fixed number of bytes has been read, every
read with buffer space returns end-of-file successfully, whatever has happened to the sender or
the connection. -/
theorem eof_when_complete_sized (cfg : Cfg) (s : State) (h : Reachable cfg s) (N n seg : Nat)
    (hN : cfg.fixed = some N) (hr : s.received.length = N) (hu : rxUsable s.rx = true) (hn : 0 < n) :
    ∃ s', stepOut cfg s (.read n seg) = some (.data [], s') ∧ s'.eofSeen = true := by
  have hi := inv_reachable h
  have hsh := shape_reachable h
  have hp := pollRead_eof_sized s.rx s.ch n seg N (s.ch.data.length + 3) (rxFacts_of hi hsh)
    (hi.rx.infoSized N hN) (by rw [hi.rx.br, hr])
  obtain ⟨s', h1, h2, _⟩ := read_result (cfg := cfg) (s := s) (n := n) (seg := seg) hu
  rw [show readFuel s.ch = s.ch.data.length + 3 + 1 from rfl, hp] at h1 h2
  exact ⟨s', h1, by rw [h2]; simp [hn]⟩

/-- **End-of-file when complete, unsized** (⇐): the sender has shut down announcing `m`, the
connection was not cut, and `m` bytes have been read: every read with buffer space returns
end-of-file successfully. -/
theorem eof_when_complete_unsized (cfg : Cfg) (s : State) (h : Reachable cfg s) (m n seg : Nat)
    (hchunk : 0 < cfg.chunk) (ha : s.announced = some m) (hr : s.received.length = m)
    (hcut : s.cutDone = false) (hu : rxUsable s.rx = true) (hn : 0 < n) :
    ∃ s', stepOut cfg s (.read n seg) = some (.data [], s') ∧ s'.eofSeen = true := by
  have hi := inv_reachable h
  have hsh := shape_reachable h
  obtain ⟨hm, hbo, hfix⟩ := hi.tx.ann m ha
  -- everything accepted has been read: nothing is buffered or in the port
  obtain ⟨rest, hpre⟩ := hi.acct.pre
  have hlen : (s.rx.held ++ s.ch.data.flatten ++ rest).length = 0 := by
    have := congrArg List.length hpre
    simp only [List.length_append] at this ⊢
    omega
  have hheld : s.rx.held = [] := by
    apply List.eq_nil_of_length_eq_zero; simp only [List.length_append] at hlen; omega
  have hflat : s.ch.data.flatten = [] := by
    apply List.eq_nil_of_length_eq_zero; simp only [List.length_append] at hlen; omega
  have hdata : s.ch.data = [] := by
    cases hd : s.ch.data with
    | nil => rfl
    | cons x xs =>
      have hx := (hsh.ch.nonempty hchunk).1 x (by rw [hd]; exact List.mem_cons_self)
      rw [hd] at hflat
      simp at hflat
      exact absurd hflat.1 hx
  have hend : s.ch.dataEnd = .closed := by
    have h1 := hsh.ch.closedEnd hbo
    have h2 := (hsh.ch.noCut hcut).1
    cases hd : s.ch.dataEnd with
    | closed => rfl
    | «open» => exact absurd hd h1
    | broken => exact absurd hd h2
  have hsize := hsh.ch.sizeAnnounced hcut m ha
  have hp := pollRead_eof_unsized s.rx s.ch n seg m s.ch.data.length (rxFacts_of hi hsh) hdata hend hsize
    (by rw [hi.rx.br, hr]) (by simpa [Rx.held] using hheld)
    (by intro e he; have := hi.rx.infoUnsized hfix e he; rw [ha] at this; cases this; rfl)
  obtain ⟨s', h1, h2, _⟩ := read_result (cfg := cfg) (s := s) (n := n) (seg := seg) hu
  rw [show readFuel s.ch = s.ch.data.length + 4 from rfl, hp] at h1 h2
  exact ⟨s', h1, by rw [h2]; simp [hn]⟩

/-! ### overlong_refused -/

/-- **Never more than the fixed size**: neither accepted by the sender nor handed out by the receiver. -/
theorem overlong_never_accepted (cfg : Cfg) (s : State) (h : Reachable cfg s) (N : Nat)
    (hN : cfg.fixed = some N) : s.accepted.length ≤ N ∧ s.received.length ≤ N := by
  have hi := inv_reachable h
  have := hi.tx.fixedBound N hN
  have := flatten_length_le_of_prefix hi.acct.pre
  omega

/-- **An over-long write is refused**: when the fixed size has been accepted, a write of a
non-empty buffer returns an error (`WriteZero`; `BrokenPipe` after shutdown; the port's error if
the pending hand-over fails), accepts nothing, and nothing of it can be delivered (by
`bytes_exact` the reader only ever sees accepted bytes). -/
theorem overlong_refused (cfg : Cfg) (s : State) (h : Reachable cfg s) (N : Nat) (bs : Bytes)
    (hN : cfg.fixed = some N) (hfull : s.accepted.length = N) (hbs : bs ≠ [])
    (hu : txUsable s.tx = true) :
    ∃ e s', stepOut cfg s (.write bs) = some (.txErr e, s') ∧ s'.accepted = s.accepted ∧
      (handOverOk s.tx s.ch = true → s.tx.binOpen = true → e = .writeZero) := by
  have hi := inv_reachable h
  simp only [stepOut, hu, if_true]
  unfold pollWrite
  rcases hc : txComplete s.tx s.ch with ⟨e, t, c⟩
  obtain ⟨_, hmode, hbw, _, _, _, _, _, hok, herr⟩ := txComplete_frame hc
  cases e with
  | some e =>
    refine ⟨e, _, rfl, rfl, ?_⟩
    intro hho _
    -- a failed hand-over is not `handOverOk`
    exfalso
    rcases txComplete_cases s.tx s.ch with ⟨_, hr⟩ | ⟨m, hs, hn, hr⟩ | ⟨m, _, _, _, hr⟩ | ⟨m, _, _, _, hr⟩
    · rw [hr] at hc; cases hc
    · rw [handOverOk_lost hs (Or.inl hn)] at hho; cases hho
    · rw [hr] at hc; cases hc
    · rw [hr] at hc; cases hc
  | none =>
    simp only
    obtain ⟨hbo, _⟩ := hok rfl
    rcases writeCore_cases cfg.chunk bs t with ⟨hb, hr⟩ | ⟨hb, hnil, hr⟩ | ⟨x, hb, _, hm, hle, hr⟩ |
        ⟨x, k, hb, _, hm, hlt, _, hr⟩ | ⟨k, hb, _, hm, _, hr⟩
    · rw [hr]
      exact ⟨.brokenPipe, _, rfl, rfl, fun _ ho => by rw [← hbo, hb] at ho; cases ho⟩
    · exact absurd hnil hbs
    · rw [hr]
      exact ⟨.writeZero, _, rfl, rfl, fun _ _ => rfl⟩
    · -- impossible: the fixed size is already reached
      exfalso
      have hmo := hi.tx.modeOpen (by rw [← hbo]; exact hb)
      rw [← hmode, hm, hN] at hmo
      simp only [modeOf, SizeMode.known.injEq] at hmo
      have := hi.tx.bw
      omega
    · exfalso
      have hmo := hi.tx.modeOpen (by rw [← hbo]; exact hb)
      rw [← hmode, hm, hN] at hmo
      simp [modeOf] at hmo

/-! ### short_is_error -/

/-- **A short stream is never a silent end-of-file.**  If the sender of an unsized channel has not
announced a size, or a sized sender has accepted fewer bytes than the fixed size, or fewer bytes
than announced have been read, then no read has reported end-of-file. -/
theorem short_is_error (cfg : Cfg) (s : State) (h : Reachable cfg s) :
    (cfg.fixed = none → s.announced = none → s.eofSeen = false ∧ s.rx.eofVerified = false) ∧
    (∀ N, cfg.fixed = some N → s.accepted.length < N → s.eofSeen = false ∧ s.rx.eofVerified = false) ∧
    (∀ m, s.announced = some m → s.received.length < m → s.eofSeen = false ∧ s.rx.eofVerified = false) := by
  have key : s.eofSeen = true ∨ s.rx.eofVerified = true →
      (∃ N, cfg.fixed = some N ∧ s.received.length = N ∧ s.accepted.length = N) ∨
      (cfg.fixed = none ∧ s.announced = some s.received.length ∧ s.accepted.length = s.received.length) :=
    fun he => eof_only_when_complete cfg s h he.symm
  have split : ∀ P : Prop, (s.eofSeen = true ∨ s.rx.eofVerified = true → P) → ¬P →
      s.eofSeen = false ∧ s.rx.eofVerified = false := by
    intro P hp hnp
    refine ⟨?_, ?_⟩
    · cases he : s.eofSeen with
      | false => rfl
      | true => exact absurd (hp (Or.inl he)) hnp
    · cases he : s.rx.eofVerified with
      | false => rfl
      | true => exact absurd (hp (Or.inr he)) hnp
  refine ⟨?_, ?_, ?_⟩
  · intro hf ha
    apply split _ key
    rintro (⟨N, hN, _⟩ | ⟨_, h2, _⟩)
    · rw [hf] at hN; cases hN
    · rw [ha] at h2; cases h2
  · intro N hN hlt
    apply split _ key
    rintro (⟨N', hN', _, h3⟩ | ⟨h1, _⟩)
    · rw [hN] at hN'; cases hN'; omega
    · rw [hN] at h1; cases h1
  · intro m ha hlt
    apply split _ key
    rintro (⟨N, hN, _⟩ | ⟨_, h2, _⟩)
    · have := (inv_reachable h).tx.ann m ha
      rw [this.2.2] at hN; cases hN
    · rw [ha] at h2; cases h2; omega

/-- **Unsized, sender dropped without shutdown**: once the data is drained, every read of the
receiver returns an error (it neither blocks nor ends silently). -/
theorem short_unsized_reader_gets_error (cfg : Cfg) (s : State) (h : Reachable cfg s) (n seg : Nat)
    (hf : cfg.fixed = none) (hdead : s.tx.alive = false) (ha : s.announced = none)
    (hd : s.ch.data = []) (hheld : s.rx.held = []) (hu : rxUsable s.rx = true) :
    ∃ e s', stepOut cfg s (.read n seg) = some (.rxErr e, s') := by
  have hi := inv_reachable h
  have hsh := shape_reachable h
  have hbo := hsh.ch.deadClosed hdead
  have hnd : ∀ e, s.rx.sizeInfo ≠ .determined e := by
    intro e he; have := hi.rx.infoUnsized hf e he; rw [ha] at this; cases this
  have hnv : s.rx.eofVerified = false := ((short_is_error cfg s h).1 hf ha).2
  -- the mode never left `Unknown`, so the size channel is dropped or broken
  have hmode : s.tx.mode = .unknown := by
    cases hm : s.tx.mode with
    | unknown => rfl
    | known e =>
      -- a sized mode on an unsized channel exists only after shutdown, which announces
      exfalso
      obtain ⟨m, hm'⟩ := hi.tx.knownAnn hf e hm
      rw [ha] at hm'; cases hm'
  have hz : s.ch.size = .dropped ∨ s.ch.size = .broken := by
    have h1 := hsh.ch.sizeDropped hdead hmode
    have h2 := (hi.tx.unknownFresh hmode).2
    cases hs : s.ch.size with
    | pending => exact absurd hs h1
    | sent x => exact absurd hs (h2 x)
    | dropped => exact Or.inl rfl
    | broken => exact Or.inr rfl
  have hp := pollRead_err_unsized s.rx s.ch n seg s.ch.data.length (rxFacts_of hi hsh) hd (hsh.ch.closedEnd hbo) hz
    (by simpa [Rx.held] using hheld) hnv hnd
  obtain ⟨s', h1, _, _⟩ := read_result (cfg := cfg) (s := s) (n := n) (seg := seg) hu
  rw [show readFuel s.ch = s.ch.data.length + 4 from rfl] at h1
  cases ho : (pollRead n seg (s.ch.data.length + 4) s.rx s.ch).1 with
  | rxErr e => rw [ho] at h1; exact ⟨e, s', h1⟩
  | _ => rw [ho] at hp; simp [isRxErr] at hp

/-- **Sized, stream ends short** (sender dropped, or its port failed, before the fixed size was
delivered): once the data is drained, every read returns an error. -/
theorem short_sized_reader_gets_error (cfg : Cfg) (s : State) (h : Reachable cfg s) (N n seg : Nat)
    (hN : cfg.fixed = some N) (hend : s.ch.dataEnd ≠ .open) (hlt : s.received.length < N)
    (hd : s.ch.data = []) (hheld : s.rx.held = []) (hu : rxUsable s.rx = true) :
    ∃ e s', stepOut cfg s (.read n seg) = some (.rxErr e, s') := by
  have hi := inv_reachable h
  have hsh := shape_reachable h
  have hnv : s.rx.eofVerified = false := by
    cases hv : s.rx.eofVerified with
    | false => rfl
    | true =>
      rcases eof_only_when_complete cfg s h (Or.inl hv) with ⟨N', hN', h2, _⟩ | ⟨h1, _⟩
      · rw [hN] at hN'; cases hN'; omega
      · rw [hN] at h1; cases h1
  have hp := pollRead_err_sized s.rx s.ch n seg N s.ch.data.length (rxFacts_of hi hsh) hd hend
    (hi.rx.infoSized N hN) (by rw [hi.rx.br]; exact hlt) (by simpa [Rx.held] using hheld) hnv
  obtain ⟨s', h1, _, _⟩ := read_result (cfg := cfg) (s := s) (n := n) (seg := seg) hu
  rw [show readFuel s.ch = s.ch.data.length + 4 from rfl] at h1
  cases ho : (pollRead n seg (s.ch.data.length + 4) s.rx s.ch).1 with
  | rxErr e => rw [ho] at h1; exact ⟨e, s', h1⟩
  | _ => rw [ho] at hp; simp [isRxErr] at hp

/-- **Sized, short, on the sending side**: the (first) shutdown of a sized sender that has accepted
fewer bytes than the fixed size returns an error. -/
theorem short_sized_shutdown_is_error (cfg : Cfg) (s : State) (h : Reachable cfg s) (N : Nat)
    (hN : cfg.fixed = some N) (hlt : s.accepted.length < N) (hopen : s.tx.binOpen = true)
    (hu : txUsable s.tx = true) :
    ∃ e s', stepOut cfg s .shutdown = some (.txErr e, s') := by
  have hi := inv_reachable h
  simp only [stepOut, hu, if_true]
  unfold pollShutdown
  rcases hc : txComplete s.tx s.ch with ⟨e, t, c⟩
  obtain ⟨_, hmode, hbw, _, _, _, _, _, hok, _⟩ := txComplete_frame hc
  cases e with
  | some e => exact ⟨e, _, rfl⟩
  | none =>
    simp only
    have hmo := hi.tx.modeOpen hopen
    rw [hN] at hmo
    simp only [modeOf] at hmo
    have hbw' := hi.tx.bw
    rcases shutdownCore_cases t c with ⟨x, hm, hx, hr⟩ | ⟨x, hm, hx, hr⟩ | ⟨hm, _, hr⟩ | ⟨hm, _, hr⟩
    · exfalso
      rw [hmode, hmo] at hm; cases hm; omega
    · rw [hr]; exact ⟨.unexpectedEof, _, rfl⟩
    · rw [hmode, hmo] at hm; cases hm
    · rw [hmode, hmo] at hm; cases hm

/-! ### more about the size-verification state machine (thorough tier) -/

/-- **The size is awaited only after the data stream has ended.**  Whenever the receiver is waiting
for (or about to evaluate) the announced size, it has consumed every message, nothing is
buffered, and the data port has ended: the race between the end of the data stream and the
separately transmitted size cannot make it compare too early. -/
theorem size_wait_after_data_end (cfg : Cfg) (s : State) (h : Reachable cfg s)
    (hv : s.rx.phase = .verifying) :
    s.ch.dataEnd ≠ .open ∧ s.ch.data = [] ∧ s.rx.buf = none ∧ s.rx.binRx = false := by
  obtain ⟨h1, h2⟩ := end_reachable h
  have hb := h2 hv
  obtain ⟨a, b, c⟩ := h1 hb (by rw [hv]; simp)
  exact ⟨a, b, c, hb⟩

/-- **End-of-file is sticky**: after the end of file was verified every further read returns
end-of-file again and changes nothing in the receiver, whatever happens to the sender or the
connection. -/
theorem eof_sticky (cfg : Cfg) (s : State) (h : Reachable cfg s) (n seg : Nat)
    (hv : s.rx.eofVerified = true) (hu : rxUsable s.rx = true) :
    ∃ s', stepOut cfg s (.read n seg) = some (.data [], s') ∧ s'.rx = s.rx ∧ s'.received = s.received := by
  have hi := inv_reachable h
  have hsh := shape_reachable h
  have hp := pollRead_eof_sticky s.rx s.ch n seg (s.ch.data.length + 3) (rxFacts_of hi hsh) hv
  simp only [stepOut, hu, if_true]
  rw [show readFuel s.ch = s.ch.data.length + 3 + 1 from rfl, hp]
  exact ⟨_, rfl, rfl, by simp [outBytes]⟩

/-- **A short sized stream keeps failing**: once a sized receiver has seen the data stream end
before the fixed size, every read returns `UnexpectedEof` again (the receiver stays usable and
never turns the error into an end-of-file). -/
theorem short_sized_error_sticky (cfg : Cfg) (s : State) (h : Reachable cfg s) (N n seg : Nat)
    (hN : cfg.fixed = some N) (hlt : s.received.length < N)
    (hend : s.rx.binRx = false) (hidle : s.rx.phase = .idle) (hu : rxUsable s.rx = true) :
    ∃ s', stepOut cfg s (.read n seg) = some (.rxErr .unexpectedEof, s') ∧ s'.rx = s.rx := by
  have hi := inv_reachable h
  obtain ⟨h1, _⟩ := end_reachable h
  obtain ⟨_, _, hbuf⟩ := h1 hend (by rw [hidle]; simp)
  have hnv : s.rx.eofVerified = false := by
    cases hv : s.rx.eofVerified with
    | false => rfl
    | true =>
      rcases eof_only_when_complete cfg s h (Or.inl hv) with ⟨N', hN', h2, _⟩ | ⟨h1, _⟩
      · rw [hN] at hN'; cases hN'; omega
      · rw [hN] at h1; cases h1
  have hp := pollRead_short_sticky s.rx s.ch n seg N (s.ch.data.length + 3) hidle hend hbuf hnv
    (hi.rx.infoSized N hN) (by rw [hi.rx.br]; exact hlt)
  simp only [stepOut, hu, if_true]
  rw [show readFuel s.ch = s.ch.data.length + 3 + 1 from rfl, hp]
  exact ⟨_, rfl, rfl⟩

/-- **An ended stream is always decided.**  When the data port has ended and has been drained, and
the size is fixed or the size channel has settled (announced, dropped with the sender, or lost
with the connection), a read never stays pending: it returns end-of-file or an error. -/
theorem ended_stream_decides (cfg : Cfg) (s : State) (h : Reachable cfg s) (n seg : Nat)
    (hd : s.ch.data = []) (he : s.ch.dataEnd ≠ .open) (hheld : s.rx.held = [])
    (hsz : s.ch.size ≠ .pending ∨ cfg.fixed.isSome) (hu : rxUsable s.rx = true) :
    ∃ o s', stepOut cfg s (.read n seg) = some (o, s') ∧ (o = .data [] ∨ isRxErr o = true) := by
  have hi := inv_reachable h
  have hsh := shape_reachable h
  have hsz' : s.ch.size ≠ .pending ∨ ∃ e, s.rx.sizeInfo = .determined e := by
    rcases hsz with hsz | hsz
    · exact Or.inl hsz
    · cases hf : cfg.fixed with
      | none => rw [hf] at hsz; cases hsz
      | some N => exact Or.inr ⟨N, hi.rx.infoSized N hf⟩
  have hp := pollRead_decides s.rx s.ch n seg s.ch.data.length (rxFacts_of hi hsh) hd he
    (by simpa [Rx.held] using hheld) hsz'
  obtain ⟨s', h1, _, _⟩ := read_result (cfg := cfg) (s := s) (n := n) (seg := seg) hu
  rw [show readFuel s.ch = s.ch.data.length + 4 from rfl] at h1
  exact ⟨_, s', h1, hp⟩

/-- **Flush contract**: after a successful flush no chunk is in flight; if nothing was lost so far,
every accepted byte is in the port, in the receiver's buffer, or already read. -/
theorem flush_hands_over (cfg : Cfg) (s s' : State) (h : Reachable cfg s)
    (hs : stepOut cfg s .flush = some (.done, s')) :
    s'.tx.sending = none ∧
    (s'.lossless = true → s'.accepted = s'.received ++ s'.rx.held ++ s'.ch.data.flatten) := by
  have hi' := inv_reachable (reachable_step h hs)
  have hsend : s'.tx.sending = none := by
    simp only [stepOut, pollFlush] at hs
    split at hs
    · rcases hc : txComplete s.tx s.ch with ⟨e, t, c⟩
      rw [hc] at hs
      have := (txComplete_frame hc).2.2.2.1
      cases e <;> (simp only [Option.some.injEq, Prod.mk.injEq] at hs; obtain ⟨_, rfl⟩ := hs; exact this)
    · cases hs
  refine ⟨hsend, fun hl => ?_⟩
  have := hi'.acct.exact hl
  simpa [Tx.inFlight, hsend] using this

/-- **Shutdown contract, unsized**: a successful first shutdown announces exactly the number of
bytes accepted, leaves no chunk in flight and ends the data stream; unless the connection was cut
the announcement is on its way to the receiver. -/
theorem shutdown_announces_total (cfg : Cfg) (s s' : State) (h : Reachable cfg s)
    (hf : cfg.fixed = none) (hs : stepOut cfg s .shutdown = some (.done, s')) :
    s'.announced = some s'.accepted.length ∧ s'.tx.sending = none ∧ s'.ch.dataEnd ≠ .open ∧
    (s'.cutDone = false → s'.ch.size = .sent s'.accepted.length) := by
  have hr' := reachable_step h hs
  have hi' := inv_reachable hr'
  have hsh' := shape_reachable hr'
  -- after a successful shutdown the port is closed and the mode is `Known`
  have hfacts : s'.tx.binOpen = false ∧ s'.tx.sending = none ∧ ∃ e, s'.tx.mode = .known e := by
    simp only [stepOut] at hs
    split at hs
    · unfold pollShutdown at hs
      rcases hc : txComplete s.tx s.ch with ⟨e, t, c⟩
      rw [hc] at hs
      have hsend := (txComplete_frame hc).2.2.2.1
      cases e with
      | some e => simp at hs
      | none =>
        simp only at hs
        rcases hw : shutdownCore t c with ⟨e2, t2, c2⟩
        rw [hw] at hs
        have : t2.binOpen = false ∧ t2.sending = none ∧ ∃ e, t2.mode = .known e := by
          rcases shutdownCore_cases t c with ⟨x, _, _, hr⟩ | ⟨x, _, _, hr⟩ | ⟨_, _, hr⟩ | ⟨_, _, hr⟩ <;>
            (rw [hr] at hw; simp only [Prod.mk.injEq] at hw; obtain ⟨_, rfl, _⟩ := hw
             exact ⟨rfl, hsend, _, rfl⟩)
        cases e2 with
        | none => simp only [Option.some.injEq, Prod.mk.injEq] at hs; obtain ⟨_, rfl⟩ := hs; exact this
        | some e2 => simp at hs
    · cases hs
  obtain ⟨hbo, hsend, e, hmode⟩ := hfacts
  obtain ⟨m, hm⟩ := hi'.tx.knownAnn hf e hmode
  have hlen := (hi'.tx.ann m hm).1
  subst hlen
  exact ⟨hm, hsend, hsh'.ch.closedEnd hbo, fun hcut => hsh'.ch.sizeAnnounced hcut _ hm⟩

/-- **The read loop terminates.**  `poll_read` is modelled with a fuel bound; in every reachable
state the loop needs at most `data.length + 4` iterations, so the bound used by the model never
cuts a poll short: any larger amount of fuel yields the same output and the same state. -/
theorem read_loop_terminates (cfg : Cfg) (s : State) (h : Reachable cfg s) (n seg f : Nat)
    (hf : readFuel s.ch ≤ f) :
    pollRead n seg f s.rx s.ch = pollRead n seg (readFuel s.ch) s.rx s.ch :=
  pollRead_fuel f (readFuel s.ch) s.rx s.ch (shape_reachable h).rx
    (Nat.le_trans (need_le_readFuel s.rx s.ch) hf) (need_le_readFuel s.rx s.ch)

/-! ### non-vacuity: concrete runs that meet the hypotheses above -/

section Examples

/-- sized 5, chunk size 4 -/
def exS : Cfg := { chunk := 4, fixed := some 5 }
/-- unsized, chunk size 4 -/
def exU : Cfg := { chunk := 4, fixed := none }

/-- a 6-byte write is cut to the chunk size, the rest to the remaining size; reads of various
sizes; end-of-file reported: `bytes_exact`, `eof_only_when_complete`, `eof_when_complete_sized` -/
def runS : List Label :=
  [.write [1, 2, 3, 4, 5, 6], .write [5, 6], .flush, .read 3 0, .read 10 0, .read 10 2, .read 1 0]

example : (outputs exS (init exS) runS).map (·.2) =
    [.wrote 4, .wrote 1, .done, .data [1, 2, 3], .data [4], .data [5], .data []] := by decide
example : (run exS (init exS) runS).eofSeen = true ∧ (run exS (init exS) runS).received = [1, 2, 3, 4, 5] ∧
    (run exS (init exS) runS).accepted = [1, 2, 3, 4, 5] := by decide

/-- `overlong_refused`: the state after `runS` has accepted the fixed size; a further write is refused -/
example : (stepOut exS (run exS (init exS) runS) (.write [9])).map (·.1) = some (.txErr .writeZero) := by decide

/-- unsized: two writes, shutdown announces 3, the reader drains and gets end-of-file:
`eof_when_complete_unsized` (the state before the last read meets its hypotheses) -/
def runU : List Label := [.write [7, 8], .write [9], .shutdown, .read 8 0, .read 8 0]

example : (run exU (init exU) runU).announced = some 3 ∧ (run exU (init exU) runU).received.length = 3 ∧
    (run exU (init exU) runU).cutDone = false ∧ rxUsable (run exU (init exU) runU).rx = true := by decide
example : (stepOut exU (run exU (init exU) runU) (.read 8 0)).map (·.1) = some (.data []) := by decide

/-- `short_unsized_reader_gets_error`: sender dropped after a flushed write, without shutdown -/
def runShortU : List Label := [.write [7, 8], .flush, .dropTx, .read 8 0]

example : (run exU (init exU) runShortU).tx.alive = false ∧ (run exU (init exU) runShortU).announced = none ∧
    (run exU (init exU) runShortU).ch.data = [] ∧ (run exU (init exU) runShortU).rx.held = [] := by decide
example : (stepOut exU (run exU (init exU) runShortU) (.read 8 0)).map (·.1) = some (.rxErr .unexpectedEof) := by decide

/-- `short_sized_reader_gets_error` / `short_sized_shutdown_is_error`: 2 of 5 bytes, then shutdown -/
def runShortS : List Label := [.write [1, 2], .shutdown, .read 8 0]

example : ((outputs exS (init exS) runShortS).map (·.2)) = [.wrote 2, .txErr .unexpectedEof, .data [1, 2]] := by decide
example : (stepOut exS (run exS (init exS) runShortS) (.read 8 0)).map (·.1) = some (.rxErr .unexpectedEof) := by decide

/-- a chunk in flight is lost when the sender is dropped without flush; the reader gets an error,
`lossless` records the loss -/
example : (run exU (init exU) [.write [1, 2], .write [3], .dropTx]).lossless = false ∧
    (run exU (init exU) [.write [1, 2], .write [3], .dropTx]).ch.data = [[1, 2]] := by decide

/-- connection cut with the announced size lost in transit: error instead of end-of-file -/
example : ((outputs exU (init exU) [.write [1], .shutdown, .cut, .loseSize, .read 4 0, .read 4 0]).map (·.2)) =
    [.wrote 1, .done, .none, .none, .data [1], .rxErr .unexpectedEof] := by decide

/-- `size_wait_after_data_end` / `ended_stream_decides`: the reader waits for the size (state
`verifying`) only after the data stream ended; the announcement decides the wait -/
example : (run exU (init exU) [.write [1], .flush, .dropRx]).rx.alive = false := by decide
example : (run exU (init exU) [.write [1], .read 4 0, .shutdown, .read 4 0]).rx.phase = .idle ∧
    ((outputs exU (init exU) [.write [1], .dropTx, .read 4 0]).map (·.2)) = [.wrote 1, .none, .rxErr .unexpectedEof] := by
  decide
example : ((outputs exU (init exU) [.read 4 0, .write [1], .flush, .read 4 0, .read 4 0]).map (·.2)) =
    [.pending, .wrote 1, .done, .data [1], .pending] := by decide

/-- `eof_sticky`, `short_sized_error_sticky` -/
example : ((outputs exS (init exS) (runS ++ [.read 3 0, .dropTx, .cut, .read 3 0])).map (·.2)).drop 7 =
    [.data [], .none, .none, .data []] := by decide
example : ((outputs exS (init exS) [.write [1, 2], .flush, .dropTx, .read 9 0, .read 9 0, .read 9 0]).map (·.2)) =
    [.wrote 2, .done, .none, .data [1, 2], .rxErr .unexpectedEof, .rxErr .unexpectedEof] := by decide

/-- the sender shipped on in mid-stream: transparent when flushed, loses chunk and port with a chunk
in flight (the shutdown of the moved sender then announces more than arrives: the receiver's
comparison with the announced size reports it) -/
example : ((outputs exU (init exU) [.write [1], .flush, .moveTx, .write [2], .shutdown, .read 4 0, .read 4 0, .read 4 0]).map (·.2)) =
    [.wrote 1, .done, .none, .wrote 1, .done, .data [1], .data [2], .data []] := by decide
example : ((outputs exU (init exU) [.write [1], .moveTx, .write [2], .shutdown, .read 4 0]).map (·.2)) =
    [.wrote 1, .none, .txErr .brokenPipe, .done, .rxErr .unexpectedEof] := by decide

end Examples

end Remoc.Io
