import RemocModel.Table.Lemmas
import RemocModel.Table.ConnSys
import RemocModel.Table.ConnBridge
import RemocModel.Table.ConnLog
set_option linter.unusedSimpArgs false

/-!
# C10 — every port-open request resolves exactly once and pairs the right ports

Theorems about M_table (`Remoc.Table`): the dispatcher functions `handleEvt` / `handleRx` of the two
endpoints, for every state.

* `response_consumes_request` — at the requester a `PortOpened`/`Rejected` is accepted only for a port
  in `Connecting` state and takes it out of that state, so a second answer for the same request
  terminates the connection instead of resolving the request twice;
* `one_response_per_request` — at the listener side an answer can be sent only for an outstanding
  request and removes it from the outstanding set: at most one answer per received request;
* `accept_pairs` — the two ports created by an accepted request reference each other;
* `request_credit_bounds_queue` — with the client-side credit (`connect_queue` of the peer) the number of
  requests waiting in a listener queue stays below the capacity at which `OpenPort` is refused.

Partial: exactly-once *delivery* of the answer to the caller's future (a oneshot inside
`ConnectRequest`) and the cross-endpoint statement "no third port references either" are checked
by the correspondence run (mirrored port numbers, labels exchanged over every pair), not proved.
-/

namespace Remoc.Table
open Remoc.Wire

/-- **Exactly once at the requester.**  An answer is accepted only for a connecting port, and
afterwards the port is no longer connecting: `PortOpened` makes it connected to exactly the
announced server port, `Rejected` removes it. -/
theorem response_consumes_request (e e' : Ep) (cp sp : Nat) (em : Emit)
    (h : handleRx e (.portOpened cp sp) = .ok (e', em)) :
    lookup e.ports cp = some .connecting ∧
    (∃ c, lookup e'.ports cp = some (.connected c) ∧ c.remote = sp) := by
  simp only [handleRx] at h
  split at h
  · rename_i hl
    simp only [Except.ok.injEq, Prod.mk.injEq] at h
    refine ⟨hl, ?_⟩
    rw [← h.1]
    exact ⟨{ remote := sp, pool := e.cfg.remoteBuf }, by simp [lookup_setPort], rfl⟩
  · simp at h

theorem rejected_consumes_request (e e' : Ep) (cp : Nat) (np : Bool) (em : Emit)
    (h : handleRx e (.rejected cp np) = .ok (e', em)) :
    lookup e.ports cp = some .connecting ∧ lookup e'.ports cp = none := by
  simp only [handleRx] at h
  split at h
  · rename_i hl
    simp only [Except.ok.injEq, Prod.mk.injEq] at h
    refine ⟨hl, ?_⟩
    rw [← h.1]; simp [lookup_erase]
  · simp at h

/-- A second answer for the same request is a protocol error, not a second resolution. -/
theorem second_answer_is_error (e e' : Ep) (cp sp : Nat) (em : Emit)
    (h : handleRx e (.portOpened cp sp) = .ok (e', em)) (sp' : Nat) (np : Bool) :
    handleRx e' (.portOpened cp sp') = .error .protocol ∧ handleRx e' (.rejected cp np) = .error .protocol := by
  obtain ⟨_, c, hc, _⟩ := response_consumes_request e e' cp sp em h
  simp [handleRx, hc]

/-- **At most one answer per request at the listener side.**  Accepting or rejecting request `rp`
requires it to be outstanding and removes it; while the outstanding set has no duplicates, no
further answer for `rp` can be sent. -/
theorem one_response_per_request (e e' : Ep) (lp rp : Nat) (m : Option Msg) (hnd : e.outstanding.Nodup)
    (h : handleEvt e (.accepted lp rp) = some (e', m)) :
    rp ∈ e.outstanding ∧ rp ∉ e'.outstanding ∧ m = some (.portOpened rp lp) ∧
    (∀ lp', handleEvt e' (.accepted lp' rp) = none) ∧ (∀ np, handleEvt e' (.rejected rp np) = none) := by
  simp only [handleEvt] at h
  split at h
  · simp at h
  · rename_i hg
    simp only [Option.some.injEq, Prod.mk.injEq] at h
    have hin : rp ∈ e.outstanding := by
      by_cases hc : e.outstanding.contains rp
      · simpa using hc
      · exact absurd (Or.inl hc) hg
    have hout : rp ∉ e'.outstanding := by
      rw [← h.1]; simp [List.mem_filter]
    refine ⟨hin, hout, h.2.symm, ?_, ?_⟩
    · intro lp'
      simp only [handleEvt]
      rw [if_pos (Or.inl (by simpa using hout))]
    · intro np
      simp only [handleEvt]
      rw [if_pos (by simpa using hout)]

theorem reject_once (e e' : Ep) (rp : Nat) (np : Bool) (m : Option Msg)
    (h : handleEvt e (.rejected rp np) = some (e', m)) :
    rp ∈ e.outstanding ∧ rp ∉ e'.outstanding ∧ m = some (.rejected rp np) := by
  simp only [handleEvt] at h
  split at h
  · simp at h
  · rename_i hg
    simp only [Option.some.injEq, Prod.mk.injEq] at h
    refine ⟨by simpa using hg, ?_, h.2.symm⟩
    rw [← h.1]; simp [List.mem_filter]

/-- **The right ports are paired.**  When the listener side accepts request `rp` on its local port
`lp` and the requester handles the resulting `PortOpened`, each side's new port names the other
side's port as its remote port. -/
theorem accept_pairs (eb eb' ea ea' : Ep) (lp rp : Nat) (m : Msg) (em : Emit)
    (hb : handleEvt eb (.accepted lp rp) = some (eb', some m)) (ha : handleRx ea m = .ok (ea', em)) :
    (∃ cb, lookup eb'.ports lp = some (.connected cb) ∧ cb.remote = rp) ∧
    (∃ ca, lookup ea'.ports rp = some (.connected ca) ∧ ca.remote = lp) := by
  simp only [handleEvt] at hb
  split at hb
  · simp at hb
  · simp only [Option.some.injEq, Prod.mk.injEq] at hb
    obtain ⟨hb1, hb2⟩ := hb
    subst hb2
    refine ⟨?_, (response_consumes_request ea ea' rp lp em ha).2⟩
    rw [← hb1]
    exact ⟨{ remote := rp, pool := eb.cfg.remoteBuf }, by simp [lookup_setPort], rfl⟩

/-- **The request credit keeps the listener queue below its capacity.**  If at most `cq` requests of
the peer's client are unanswered (the credit semaphore of `Client`, sized by the `connect_queue` this
endpoint advertised) then an `OpenPort` for a fresh port is never refused for a full queue. -/
theorem request_credit_bounds_queue (e : Ep) (cp : Nat) (wait : Bool) (id : Option Nat)
    (hfresh : e.outstanding.contains cp = false)
    (hcredit : (e.listenQ.filter (·.2 == wait)).length + e.clientDroppedQueued ≤ e.cfg.cq) :
    ∃ e' em, handleRx e (.openPort cp wait id) = .ok (e', em) := by
  simp only [handleRx, hfresh, Bool.false_eq_true, if_false]
  by_cases hl : e.listenerDropped
  · simp [hl]
  · simp only [hl, Bool.false_eq_true, if_false]
    split
    · rename_i hfull
      simp only [queuedFor] at hfull
      omega
    · exact ⟨_, _, rfl⟩

/-! ### non-vacuity -/

def cCfg : EpCfg := { maxPorts := 4, cq := 2, chunk := 8, buf := 8, remoteCq := 2, remoteBuf := 8 }

/-- client side: connect request for port 11 → OpenPort; listener side: receives it, accepts on 50 →
PortOpened 11 50; client handles it: ports 11 and 50 reference each other -/
example :
    let a0 : Ep := { cfg := cCfg, allocated := [11] }
    let b0 : Ep := { cfg := cCfg }
    (do
      let (a1, m1) ← handleEvt a0 (.connectReq 11 true 11)
      let (b1, _) ← (handleRx b0 (m1.getD .ping)).toOption
      let (b2, m2) ← handleEvt b1 (.accepted 50 11)
      let (a2, _) ← (handleRx a1 (m2.getD .ping)).toOption
      pure ((lookup a2.ports 11).map (fun st => match st with | .connected c => c.remote | _ => 0),
            (lookup b2.ports 50).map (fun st => match st with | .connected c => c.remote | _ => 0))) =
      some (some 50, some 11) := by
  decide

end Remoc.Table

/-! ## The two-endpoint system (`Table/Conn.lean`): statements over ALL interleavings -/

namespace Remoc.Table.Sys
open Remoc.Wire Remoc.Table

/-- number of `OpenPort` requests in a wire -/
def opensInFlight (w : List Msg) : Nat := (reqPorts w).length
/-- number of answers (`PortOpened` / `Rejected`) in a wire -/
def answersInFlight (w : List Msg) : Nat := (respPorts w).length
/-- answers the application has decided whose event the dispatcher has not handled yet
(`Request::accept_from` / `reject` / drop queued an event on `channel_tx`) -/
def answersQueued (v : Side) : Nat := (ansPorts v.portQ).length

/-- the credit equation for one direction -/
def CreditEq (c v : Side) (wcv wvc : List Msg) : Prop :=
  opensInFlight wcv + v.ep.listenQ.length + v.held.length + answersQueued v + answersInFlight wvc
    = c.ep.clientPending ∧
  c.ep.clientPending ≤ v.ep.cfg.cq ∧ c.permits ≤ v.ep.cfg.cq

theorem creditEq_of_reqInv (c v : Side) (wcv wvc : List Msg) (h : ReqInv c v wcv wvc) : CreditEq c v wcv wvc := by
  have hndo : v.ep.outstanding.Nodup := by
    have := h.nodup; simp only [reqWhere] at this
    exact (List.nodup_append.mp (List.nodup_append.mp this).1).2.1
  have hp : (outWhere v).Perm v.ep.outstanding := (List.perm_ext_iff_of_nodup h.outNodup hndo).mpr h.outMem
  have hl := hp.length_eq
  have hpend := h.pend
  have hperm := h.perm
  have hcfg := h.cfg
  simp only [reqWhere, outWhere, List.length_append, List.length_map, Side.permits] at hl hpend hperm
  refine ⟨?_, ?_, ?_⟩
  · simp only [opensInFlight, answersInFlight, answersQueued]; omega
  · omega
  · simp only [Side.permits]; omega

/-- **Request credit invariant** (C10, all interleavings of two conforming endpoints, any
`max_ports` and `connect_queue` per side).  In every reachable state, for each direction:
(`OpenPort` in flight towards X) + |X.listenQ| + (requests held unanswered by X's application) +
(answers decided but not yet handled by X's dispatcher) + (answers in flight back) equals the
peer's `clientPending`, which never exceeds the `connect_queue` X advertised; the permits of the
peer's credit semaphore (queued + pending requests) never exceed it either. -/
theorem request_credit_invariant (mpA cqA mpB cqB : Nat) (ls : List (Who × Lab)) :
    let s := run (init mpA cqA mpB cqB) ls
    CreditEq s.a s.b s.toB s.toA ∧ CreditEq s.b s.a s.toA s.toB := by
  intro s
  have hi := inv1_run _ ls (inv1_init mpA cqA mpB cqB)
  exact ⟨creditEq_of_reqInv _ _ _ _ hi.ab, creditEq_of_reqInv _ _ _ _ hi.ba⟩

/-- **Every request is in exactly one place** and the requests that are somewhere are exactly the
connecting ports of the requester: on the wire, outstanding at the listener side, or answered with
the answer on the wire back — never two of these (no duplicate `OpenPort`, no second answer). -/
theorem request_located_once (mpA cqA mpB cqB : Nat) (ls : List (Who × Lab)) :
    let s := run (init mpA cqA mpB cqB) ls
    (reqWhere s.b.ep s.toB s.toA).Nodup ∧
    (∀ p, lookup s.a.ep.ports p = some .connecting ↔ p ∈ reqWhere s.b.ep s.toB s.toA) ∧
    (reqWhere s.a.ep s.toA s.toB).Nodup ∧
    (∀ p, lookup s.b.ep.ports p = some .connecting ↔ p ∈ reqWhere s.a.ep s.toA s.toB) := by
  intro s
  have hi := inv1_run _ ls (inv1_init mpA cqA mpB cqB)
  exact ⟨hi.ab.nodup, hi.ab.conn, hi.ba.nodup, hi.ba.conn⟩

theorem creditEq_room (c v : Side) (wcv wvc : List Msg) (h : CreditEq c v wcv wvc) :
    opensInFlight wcv + v.ep.listenQ.length ≤ v.ep.cfg.cq := by
  obtain ⟨h1, h2, _⟩ := h; omega

/-- hence the listener queues never reach the length at which `OpenPort` is refused with
"too many OpenPort requests" while a request is still in flight -/
theorem listen_queue_has_room (mpA cqA mpB cqB : Nat) (ls : List (Who × Lab)) :
    let s := run (init mpA cqA mpB cqB) ls
    opensInFlight s.toB + s.b.ep.listenQ.length ≤ s.b.ep.cfg.cq ∧
    opensInFlight s.toA + s.a.ep.listenQ.length ≤ s.a.ep.cfg.cq := by
  intro s
  have h := request_credit_invariant mpA cqA mpB cqB ls
  exact ⟨creditEq_room _ _ _ _ h.1, creditEq_room _ _ _ _ h.2⟩

/-- non-vacuity: A queues two connects (cq of B is 2), one is sent and delivered, B's application
takes it out of the queue: one request in flight... one held, `clientPending = 2`, both permits used -/
example :
    let s := run (init 4 2 4 2) [(.A, .startConnect 1 true), (.A, .startConnect 2 false), (.A, .dispConn),
      (.B, .deliver), (.B, .takeReq true), (.A, .dispConn)]
    opensInFlight s.toB = 1 ∧ s.b.held = [1] ∧ s.a.ep.clientPending = 2 ∧ s.a.permits = 2 ∧
    stepSide s.a s.toA (.startConnect 3 true) = none := by
  decide

end Remoc.Table.Sys

namespace Remoc.Table.Sys
open Remoc.Wire Remoc.Table

/-- **The right ports are paired, globally** (all interleavings).  In every reachable state:
* a connected port `p` of one side with remote port `q`, of which a local half is still alive, has a
  *live partner*: the peer's entry `q` is connected back to `p`, or is still connecting with the
  `PortOpened q p` in flight (`Live`);
* **no third port**: at most one port of a side has a given peer entry as live partner;
* so if both `X[p]` (remote `q`, a half alive) and `Y[q]` are connected, `Y[q].remote = p`.
A port whose partner is gone (freed on the other side) has dropped both local halves. -/
theorem pairs_right_global (mpA cqA mpB cqB : Nat) (ls : List (Who × Lab)) :
    let s := run (init mpA cqA mpB cqB) ls
    (∀ p c, lookup s.a.ep.ports p = some (.connected c) →
        (c.senderDropped = false ∨ c.receiverDropped = false) → Live s.b.ep s.toB p c.remote) ∧
    (∀ p c, lookup s.b.ep.ports p = some (.connected c) →
        (c.senderDropped = false ∨ c.receiverDropped = false) → Live s.a.ep s.toA p c.remote) ∧
    (∀ p p' q, Live s.b.ep s.toB p q → Live s.b.ep s.toB p' q → p = p') ∧
    (∀ p p' q, Live s.a.ep s.toA p q → Live s.a.ep s.toA p' q → p = p') := by
  intro s
  have hi := inv2_run _ ls (inv2_init mpA cqA mpB cqB)
  refine ⟨fun p c hc hf => ?_, fun p c hc hf => ?_, fun p p' q h1 h2 => ?_, fun p p' q h1 h2 => ?_⟩
  · rcases hf with hf | hf
    · exact ((hi.pab.tx p c hc).sd0 hf).1
    · exact ((hi.pab.tx p c hc).rd0 hf).1
  · rcases hf with hf | hf
    · exact ((hi.pba.tx p c hc).sd0 hf).1
    · exact ((hi.pba.tx p c hc).rd0 hf).1
  · exact Live.unique (reqInv_resp_nodup hi.r.ba) h1 h2
  · exact Live.unique (reqInv_resp_nodup hi.r.ab) h1 h2

/-- both entries connected and a half of `p` alive: they reference each other -/
theorem pairs_mutual (mpA cqA mpB cqB : Nat) (ls : List (Who × Lab)) (p : Nat) (c d : Connected) :
    let s := run (init mpA cqA mpB cqB) ls
    lookup s.a.ep.ports p = some (.connected c) → (c.senderDropped = false ∨ c.receiverDropped = false) →
    lookup s.b.ep.ports c.remote = some (.connected d) → d.remote = p := by
  intro s hc hf hd
  rcases (pairs_right_global mpA cqA mpB cqB ls).1 p c hc hf with ⟨d', hd', hr⟩ | ⟨hcn, _⟩
  · have : s.b.ep = (run (init mpA cqA mpB cqB) ls).b.ep := rfl
    rw [hd] at hd'; injection hd' with h; injection h with h; rw [h]; exact hr
  · rw [hd] at hcn; simp at hcn

/-- non-vacuity: after connect / accept / delivery of `PortOpened` the ports 1@A and 7@B reference
each other; before the delivery the partner of 7@B is the connecting port 1@A with the answer in flight -/
example :
    let s := run (init 4 2 4 2) [(.A, .startConnect 1 true), (.A, .dispConn), (.B, .deliver), (.B, .takeReq true),
      (.B, .acceptReq 1 7), (.B, .dispPort)]
    lookup s.a.ep.ports 1 = some .connecting ∧ s.toA = [.portOpened 1 7] ∧
    (connectedAt s.b.ep 7).map (·.remote) = some 1 ∧
    (connectedAt (run s [(.A, .deliver)]).a.ep 1).map (·.remote) = some 7 := by
  decide

end Remoc.Table.Sys

namespace Remoc.Table.Sys
open Remoc.Wire Remoc.Table

def peer : Who → Who
  | .A => .B
  | .B => .A

theorem resolves_once_aux (s : St) (lg : List LogEvt) (hi : Inv5 s) (h1 : LogInv s lg) (h2 : LogInv2 s lg) :
    (∀ x p, nResolved lg x p + pend (side s x) p = nStarted lg x p) ∧
    (∀ x p, nResolved lg x p ≤ nStarted lg x p) ∧
    (∀ x p, LogEvt.resolved x p .refusedLocally ∈ lg → (side s (peer x)).ep.listenerDropped = true) := by
  refine ⟨h1, fun x p => by have := h1 x p; omega, fun x p hin => ?_⟩
  have hr := h2 x p hin
  have i3 := hi.i4.i3
  cases x with
  | A =>
    have := i3.fba.lf; simp only [side] at hr; rw [hr] at this
    cases hl : s.b.ep.listenerDropped with
    | true => simpa [side, peer] using hl
    | false => simp [hl, b2n] at this
  | B =>
    have := i3.fab.lf; simp only [side] at hr; rw [hr] at this
    cases hl : s.a.ep.listenerDropped with
    | true => simpa [side, peer] using hl
    | false => simp [hl, b2n] at this

/-- **Every connect request resolves at most once, and is resolved or still pending** (ghost log,
all interleavings).  `runL` records along the run `started x p` for every `Client::connect_ext` that
queued a request for local port `p` and `resolved x p r` for every resolution: `PortOpened` /
`Rejected` delivered for the connecting port `p` (the value is the content of the message), or the
dispatcher answering the request itself because the remote listener is known to be dropped.  For
every side and port number: resolutions + (1 if a request for it is queued or unanswered) =
requests started — so no request is resolved twice and none is lost; and a request is refused
locally only if the peer's listener really was dropped. -/
theorem resolves_once (mpA cqA mpB cqB : Nat) (ls : List (Who × Lab)) :
    let r := runL (init mpA cqA mpB cqB, []) ls
    (∀ x p, nResolved r.2 x p + pend (side r.1 x) p = nStarted r.2 x p) ∧
    (∀ x p, nResolved r.2 x p ≤ nStarted r.2 x p) ∧
    (∀ x p, LogEvt.resolved x p .refusedLocally ∈ r.2 → (side r.1 (peer x)).ep.listenerDropped = true) := by
  intro r
  obtain ⟨hi, h1, h2⟩ := logInv_runL (init mpA cqA mpB cqB) [] ls (inv5_init mpA cqA mpB cqB)
    (fun x p => by cases x <;> simp [nResolved, nStarted, pend, pending, side, init, initEp, connPorts, isConnecting, lookup])
    (fun x p h => by simp at h)
  exact resolves_once_aux _ _ hi h1 h2

/-- the state component of the logged run is the plain run -/
theorem resolves_once_state (mpA cqA mpB cqB : Nat) (ls : List (Who × Lab)) :
    (runL (init mpA cqA mpB cqB, []) ls).1 = run (init mpA cqA mpB cqB) ls := runL_fst _ _ _

/-- **At quiescence no request is pending unless the remote application holds it unanswered.**  In
every reachable state in which the runtime has nothing left to do and neither endpoint has said
`Goodbye`: a request of one side for port `p` is pending (queued or unanswered) exactly if it waits
in the peer's listener queue or is held by the peer's application as a `Request` object. -/
theorem pending_only_if_held (mpA cqA mpB cqB : Nat) (ls : List (Who × Lab)) :
    let s := run (init mpA cqA mpB cqB) ls
    Quiescent s → s.a.ep.goodbyeSent = false → s.b.ep.goodbyeSent = false →
    (∀ p, pending s.a p = true ↔ (p ∈ s.b.ep.listenQ.map (·.1) ∨ p ∈ s.b.held)) ∧
    (∀ p, pending s.b p = true ↔ (p ∈ s.a.ep.listenQ.map (·.1) ∨ p ∈ s.a.held)) := by
  intro s hq ga gb
  have hi := inv5_run _ ls (inv5_init mpA cqA mpB cqB)
  obtain ⟨na, nb⟩ := hq.noInt
  have v := hi.view
  have core : ∀ {x y : Side} {wxy wyx : List Msg}, View x y wxy wyx → NoInt x wyx → NoInt y wxy →
      x.ep.goodbyeSent = false → y.ep.goodbyeSent = false →
      ∀ p, pending x p = true ↔ (p ∈ y.ep.listenQ.map (·.1) ∨ p ∈ y.held) := by
    intro x y wxy wyx v nx ny gx gy p
    obtain ⟨e1, e2⟩ := evt_ok y x wyx wxy v.ryx v.qx v.cx v.ax v.hx
    obtain ⟨x1, _, _, x4⟩ := noInt_dispatching x wyx nx gx e1 e2
    obtain ⟨f1, f2⟩ := evt_ok x y wxy wyx v.rxy v.qy v.cy v.ay v.hy
    obtain ⟨_, y2, _, y4⟩ := noInt_dispatching y wxy ny gy f1 f2
    have hgrx : x.ep.goodbyeReceived = false := by
      cases hr : x.ep.goodbyeReceived with
      | false => rfl
      | true => simp [shouldTerminate, hr] at x4
    have hgry : y.ep.goodbyeReceived = false := by
      cases hr : y.ep.goodbyeReceived with
      | false => rfl
      | true => simp [shouldTerminate, hr] at y4
    have hwx : wyx = [] := by
      rcases noInt_wire x wyx nx (fun m rest hw => by
          subst hw; exact rx_ok y x m rest wxy v.ryx v.rxy v.pyx v.fyx (v.ctlx m (by simp))) with h' | h'
      · exact h'
      · rw [hgrx] at h'; simp at h'
    have hwy : wxy = [] := by
      rcases noInt_wire y wxy ny (fun m rest hw => by
          subst hw; exact rx_ok x y m rest wyx v.rxy v.ryx v.pxy v.fxy (v.ctly m (by simp))) with h' | h'
      · exact h'
      · rw [hgry] at h'; simp at h'
    subst hwx; subst hwy
    rw [pending_iff, x1]
    simp only [connPorts, List.not_mem_nil, false_or]
    rw [v.rxy.conn p]
    simp only [reqWhere, reqPorts, respPorts, List.nil_append, List.append_nil]
    rw [← v.rxy.outMem p]
    simp [outWhere, y2, ansPorts]
  exact ⟨core v na nb ga gb, core v.swap nb na gb ga⟩

/-- non-vacuity: one request accepted and delivered (resolved once), one answered locally after the
peer's `ListenerFinish`, one still waiting in the peer's listener queue -/
example :
    let r := runL (init 4 2 4 2, []) [(.A, .startConnect 1 true), (.A, .dispConn), (.B, .deliver), (.B, .takeReq true),
      (.B, .acceptReq 1 7), (.B, .dispPort), (.A, .deliver), (.A, .startConnect 2 true), (.A, .dispConn), (.B, .deliver),
      (.B, .startConnect 5 true), (.A, .dropListener), (.A, .dispListener), (.B, .deliver), (.B, .dispConn)]
    r.2 = [.started .A 1, .resolved .A 1 (.accepted 7), .started .A 2, .started .B 5, .resolved .B 5 .refusedLocally] ∧
    pending r.1.a 2 = true ∧ r.1.b.ep.listenQ = [(2, true)] := by
  decide

end Remoc.Table.Sys

namespace Remoc.Table.Sys
open Remoc.Wire Remoc.Table

/-- **An `accepted` resolution matches what the peer did**: whenever a `PortOpened cp sp` is in
flight towards a side (in particular when it is about to be delivered and logged as
`resolved _ cp (accepted sp)`), the peer's table holds the port `sp` that its listener side created
for this request: connected to `cp`, with no remote flag set, and nothing has been sent for it yet. -/
theorem accepted_matches_peer (mpA cqA mpB cqB : Nat) (ls : List (Who × Lab)) (x : Who) (cp sp : Nat) :
    let s := run (init mpA cqA mpB cqB) ls
    Msg.portOpened cp sp ∈ wireTo s x →
    ∃ d, lookup (side s (peer x)).ep.ports sp = some (.connected d) ∧ d.remote = cp ∧
      d.remoteSendFinished = false ∧ d.remoteRecvDropped = false := by
  intro s hin
  have hi := inv2_run _ ls (inv2_init mpA cqA mpB cqB)
  cases x with
  | A =>
    obtain ⟨d, h1, h2, h3, _, h5, _⟩ := hi.ob cp sp hin
    exact ⟨d, h1, h2, h3, h5⟩
  | B =>
    obtain ⟨d, h1, h2, h3, _, h5, _⟩ := hi.oa cp sp hin
    exact ⟨d, h1, h2, h3, h5⟩

end Remoc.Table.Sys
