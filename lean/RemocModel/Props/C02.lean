import RemocModel.Link.Inv

/-!
# C02 — flow-control safety

Theorems about M_link (`Remoc.Link`), one direction of one port.  A reachable state is the
result of *any* label list from the initial state, so each statement holds at every prefix of
every schedule: all traffic mixes (data of any size, empty messages, port batches), all
configurations, arbitrarily delayed credit frames, cancelled and failed operations.
-/

namespace Remoc.Link

/-- **Credit conservation.**  In every reachable state each credit of the advertised receive
buffer is in exactly one place: the sender's pool, held by the operation in progress, in a
frame in flight, in the receiver's buffer, queued for return, or in a credit frame in flight. -/
theorem credit_conservation (c : Cfg) (st : State) (h : Reachable c st) :
    st.s.pool + st.s.held + costs st.chan + st.r.used + st.r.toReturn + backSum st.back = c.limit :=
  (inv_reachable c st h).cons

/-- **The advertised receive buffer is never exceeded.**  At every prefix of every run, the cost
of everything the sender has put on the transport minus the credit *delivered* back to it is at
most the receive buffer the peer advertised. -/
theorem outstanding_le_buffer (c : Cfg) (st : State) (h : Reachable c st) :
    costs st.emitted - st.granted ≤ c.limit := by
  have := (inv_reachable c st h).sent
  omega

/-- The payload actually buffered at the receiver (accepted by its dispatcher, not yet processed by
a receive call) plus what is in flight never exceeds the advertised buffer. -/
theorem buffered_le_buffer (c : Cfg) (st : State) (h : Reachable c st) :
    costs st.chan + st.r.used ≤ c.limit := by
  have := (inv_reachable c st h).cons
  omega

/-- **No frame exceeds the advertised chunk size.** -/
theorem frame_le_chunk (c : Cfg) (st : State) (h : Reachable c st) :
    ∀ f ∈ st.emitted, match f with
      | .data p _ _ => p.length ≤ c.chunk
      | .ports ids _ _ => 4 * ids.length ≤ c.chunk
      | .finish => True := by
  intro f hf
  have := (inv_reachable c st h).fits f hf
  cases f <;> simp_all [Frame.oversize]

/-- **An endpoint never grants back more credit than it has consumed** (and what it consumed
was sent): granted ≤ returned ≤ cost of consumed frames ≤ cost of emitted frames. -/
theorem grant_le_consumed (c : Cfg) (st : State) (h : Reachable c st) :
    st.granted ≤ st.returned ∧ st.returned ≤ costs st.consumed ∧ costs st.consumed ≤ costs st.emitted := by
  have i := inv_reachable c st h
  have h1 := i.grant
  have h2 := i.ret
  have h3 := i.fifo
  refine ⟨by omega, by omega, ?_⟩
  rw [h3]; simp only [costs_append]; omega

/-- The receiving dispatcher's credit check (`use_credits`) and chunk-size check never fire against
this sender: the flow-control protocol error is unreachable. -/
theorem no_flow_control_error (c : Cfg) (st : State) (h : Reachable c st) : st.protoErr = false :=
  (inv_reachable c st h).noErr

/-! ### non-vacuity: a concrete reachable mid-transfer state with credit in every place -/

def demoCfg : Cfg := { chunk := 4, limit := 8, maxData := 100, maxPorts := 8 }
def demoRun : List Label :=
  [.startSend [1, 2, 3, 4, 5, 6, 7, 8, 9, 10], .request, .emit, .emit, .muxRecv, .recvAny, .muxRecv]

example : (run demoCfg (init demoCfg) demoRun).s.pool = 0 ∧
    costs (run demoCfg (init demoCfg) demoRun).emitted = 8 ∧
    (run demoCfg (init demoCfg) demoRun).r.used = 4 ∧
    (run demoCfg (init demoCfg) demoRun).back = [.credits 4] := by decide

example : Reachable demoCfg (run demoCfg (init demoCfg) demoRun) := ⟨demoRun, rfl⟩

end Remoc.Link
