import RemocModel.Rtc.Live
import RemocModel.Rtc.Example
import RemocModel.Rtc.RfnLive
import RemocModel.Rtc.RfnTerm
import RemocModel.Rtc.RfnExample
set_option linter.unusedSimpArgs false
set_option linter.unusedVariables false

/-!
# C19 — abandoned or failing calls are cancelled and never wedge the server

Theorems about M_rtc for every label list, every flavour / spawn mode / policy (`cfg` universally
quantified) and every object.

* `cancel_at_next_await` — once the reply sender of a call observes `closed()` (the caller
  dropped the call future or its connection is gone), a cancellable execution of that call takes
  **no further method step** in any continuation of the run; the `closed()` branch is enabled
  (`cancel_enabled`), a `#[no_cancel]` method keeps running (`no_cancel_runs_on`).
* `lock_released_on_cancel`, `lock_held_only_while_executing` — the cancelled execution gives
  back its lock; in every reachable state the target lock is held only by requests that are
  executing.
* `server_survives` — `serve` stops only for one of four causes (`serve_stops_only_for_cause`): a
  reply error reached the error channel (pinned code only: finding F6), an undecodable request
  under `OnReqReceiveError::Fail`, a by-value method consumed the target, all clients are gone.
  Hence (`serve_keeps_running`) no cancelled call, undecodable request, unknown method, over-size
  request (and, for the repaired variant, over-size reply) stops it; after a cancelled call or a
  discarded request the loop is back in its receive state (`back_in_receive_state_after_cancel`,
  `…_after_undecodable`); at quiescence nothing is left pending (`nothing_pending_at_quiescence`)
  and every call that has no reason of its own to fail has returned a value
  (`later_calls_complete`).

Findings, as kernel-checked witnesses on the pinned variant (not theorems about all inputs):
`f6_oversize_reply_stops_server` (a reply over the size limit of one client makes `serve` return:
a later, perfectly good call of another client fails; the same labels on `Variant.fixed` let it
succeed) and `f10_oversize_request_poisons_client` (after one over-size request every later
request of that client fails, other clients are served).

Partial, spelled out: liveness is "judged at quiescence" (no internal label enabled) and assumes
that method bodies make progress on their own (`execStep` is an internal label); wake-ups and
scheduler fairness are runtime facts checked by the harness's hang detector.
-/

namespace Remoc.Rtc

variable {o : Obj}

/-! ### cancellation -/

/-- **Cancelled at the next await.**  Let `c` be an issued call whose reply sender observes
`closed()` and whose method is cancellable.  Then in every continuation `ls` of the run no segment
of `c` is executed any more (the segment counts and the program counter of `c` are frozen), and
the sender keeps observing `closed()`. -/
theorem cancel_at_next_await (cfg : Cfg) (s : State o) (h : Reachable cfg s) (c : Nat) (hlt : c < s.n)
    (hcl : s.closed c = true) (hcan : o.cancellable (s.calls c).m = true) (ls : List Label) :
    (∀ k, segCount c k (run cfg s ls).tr = segCount c k s.tr)
      ∧ ((run cfg s ls).calls c).pc = (s.calls c).pc ∧ (run cfg s ls).closed c = true := by
  induction ls generalizing s with
  | nil => exact ⟨fun _ => rfl, rfl, hcl⟩
  | cons l ls ih =>
    simp only [run]
    split
    · rename_i s' hs
      have hw := (inv_of_reachable cfg s h).wf
      have hst := step_static cfg s s' l hs c hlt
      have hm : (s'.calls c).m = (s.calls c).m := (static_fields hst).2.1
      have hn := step_n cfg s s' l hs
      have hfr := frozen_step cfg s s' l hw hs c hlt hcl hcan
      have hcl' := closed_step cfg s s' l hw hs c hlt hcl
      have := ih s' (reachable_step cfg s s' l h hs) (by omega) hcl' (by rw [hm]; exact hcan)
      refine ⟨fun k => ?_, ?_, this.2.2⟩
      · rw [this.1 k, hfr.1 k]
      · rw [this.2.1, hfr.2]
    · exact ih s h hlt hcl hcan

/-- the `closed()` branch of the biased select is what the dispatch future takes: the method step
is disabled, the cancellation is enabled -/
theorem cancel_enabled (cfg : Cfg) (s : State o) (h : Reachable cfg s) (c : Nat)
    (he : (s.calls c).stage = .executing) (hcl : s.closed c = true)
    (hcan : o.cancellable (s.calls c).m = true) :
    step cfg s (.execStep c) = none ∧ step cfg s (.execCancel c) ≠ none := by
  have hw := (inv_of_reachable cfg s h).wf
  have hlt : c < s.n := hw.lt_of_stage (by rw [he]; simp)
  refine ⟨?_, execCancel_enabled cfg s c hlt he ⟨hcan, hcl⟩⟩
  simp only [step]
  rw [if_neg]
  intro hg
  exact hg.2.2 ⟨hcan, hcl⟩

/-- a `#[no_cancel]` method runs to completion although the caller is gone -/
theorem no_cancel_runs_on (cfg : Cfg) (s : State o) (h : Reachable cfg s) (c : Nat)
    (he : (s.calls c).stage = .executing) (hcan : o.cancellable (s.calls c).m = false) :
    step cfg s (.execStep c) ≠ none ∧ step cfg s (.execCancel c) = none := by
  have hw := (inv_of_reachable cfg s h).wf
  have hlt : c < s.n := hw.lt_of_stage (by rw [he]; simp)
  refine ⟨execStep_enabled cfg s c hlt he (by simp [hcan]), ?_⟩
  simp only [step]
  rw [if_neg]
  intro hg
  rw [hcan] at hg; simp at hg

/-! ### the lock -/

/-- **The cancelled execution releases its lock.** -/
theorem lock_released_on_cancel (cfg : Cfg) (s s' : State o) (c : Nat)
    (h : step cfg s (.execCancel c) = some s') : c ∉ s'.readers ∧ s'.writer ≠ some c := by
  step_inv h
  constructor
  · simp
  · simp only [emit_writer, endExec_writer]
    split
    · simp
    · rename_i hne; exact hne

/-- **In every reachable state the target lock is held only by executing requests** (so a
cancelled, finished or failed request never keeps it), and the serve loop waits for it only
on behalf of the request it has just dequeued. -/
theorem lock_held_only_while_executing (cfg : Cfg) (s : State o) (h : Reachable cfg s) (c : Nat) :
    (c ∈ s.readers → (s.calls c).stage = .executing) ∧ (s.writer = some c → (s.calls c).stage = .executing) := by
  have hs := (inv_of_reachable cfg s h).st
  exact ⟨fun hr => ((hs.rd c).1 hr).2.1, fun hw => ((hs.wr c).1 hw).2.1⟩

/-! ### the server survives -/

/-- **`serve` returns only for a cause**: a reply error in the error channel (pinned code), an
undecodable request under the `Fail` policy, a by-value method, or the loss of all clients. -/
theorem serve_stops_only_for_cause (cfg : Cfg) (s : State o) (h : Reachable cfg s) (w : Stop)
    (hl : s.loop = .stopped w) : StopCause cfg s w :=
  (fullinv_of_reachable cfg s h).stop w hl

/-- **Cancelled calls, undecodable requests, unknown methods, over-size requests and connection
loss never stop the server**: under the default policy, with a trait without by-value methods
and as long as a usable client handle exists, `serve` is still running in every reachable state
in which no over-size reply occurred — and with the repaired error handling (`Variant.fixed`) in
every reachable state. -/
theorem serve_keeps_running (cfg : Cfg) (s : State o) (h : Reachable cfg s)
    (hpol : cfg.failPolicy = false) (hval : ∀ m, o.kind m ≠ .val)
    (hcl : s.clientsGone = false) (hdead : allDead cfg s = false)
    (herr : cfg.variant = .fixed ∨ ¬ hasReplyErr s.tr) : s.loop.isStopped = false := by
  cases hl : s.loop with
  | stopped w =>
    exfalso
    have hc := serve_stops_only_for_cause cfg s h w hl
    cases w with
    | replyErr =>
      simp only [StopCause] at hc
      rcases herr with he | he
      · rw [he] at hc; exact absurd hc.1 (by simp)
      · exact he hc.2
    | recvFail =>
      simp only [StopCause] at hc
      rw [hpol] at hc; exact absurd hc.1 (by simp)
    | valueTaken => obtain ⟨c, _, hk, _⟩ := hc; exact hval _ hk
    | clientsGone =>
      rcases hc with hc | hc
      · rw [hcl] at hc; cases hc
      · rw [hdead] at hc; cases hc
  | _ => rfl

/-- after a cancelled inline execution the serve loop is back in its receive state -/
theorem back_in_receive_state_after_cancel (cfg : Cfg) (s s' : State o) (c : Nat)
    (h : step cfg s (.execCancel c) = some s') (hl : s.loop = .running c)
    (hk : o.kind (s.calls c).m ≠ .val) : s'.loop = .idle := by
  step_inv h
  simp [hl, hk]

/-- a cancelled spawned execution does not touch the serve loop -/
theorem loop_untouched_by_spawned_cancel (cfg : Cfg) (s s' : State o) (c : Nat)
    (h : step cfg s (.execCancel c) = some s') (hl : s.loop ≠ .running c) : s'.loop = s.loop := by
  step_inv h
  simp [hl]

/-- an undecodable request / unknown method leaves the loop in its receive state (policy ignore) -/
theorem back_in_receive_state_after_undecodable (cfg : Cfg) (s s' : State o) (c : Nat) (q : List Nat)
    (hq : s.queue = c :: q) (hk : o.known (s.calls c).m = false) (hpol : cfg.failPolicy = false)
    (h : step cfg s .dequeue = some s') : s'.loop = .idle ∧ s'.queue = q ∧ (s'.calls c).stage = .done := by
  simp only [step, hq] at h
  split at h
  · simp only [hk, ↓reduceIte, hpol, Bool.false_eq_true] at h
    replace h := Option.some.inj h; subst h
    simp
  · simp at h

/-- **Nothing is left pending at quiescence**: if no internal step is possible and `serve` has not
returned, the loop is in its receive state with an empty queue, no execution is in progress, the
lock is free, the server is finished with every request and no caller is waiting. -/
theorem nothing_pending_at_quiescence (cfg : Cfg) (s : State o) (h : Reachable cfg s) (hcap : 0 < cfg.cap)
    (hq : Quiescent cfg s) (hns : s.loop.isStopped = false) :
    s.loop = .idle ∧ s.queue = [] ∧ s.spawned = [] ∧ s.readers = [] ∧ s.writer = none
      ∧ (∀ c, c < s.n → (s.calls c).stage = .done) ∧ ∀ c, (s.calls c).cl ≠ .waiting := by
  have hi := fullinv_of_reachable cfg s h
  obtain ⟨h1, h2, h3, h4, h5, h6⟩ := quiescent_resolved cfg s hi hcap hq hns
  exact ⟨h1, h2, h3, h4, h5, h6, quiescent_no_waiting cfg s hi hcap hq hns⟩

/-- every error outcome has one of the legitimate causes -/
theorem error_has_cause (cfg : Cfg) (s : State o) (h : Reachable cfg s) (c : Nat)
    (he : (s.calls c).cl = .error) (hlt : c < s.n) : Cause cfg s c :=
  (fullinv_of_reachable cfg s h).v.e2 c hlt he

/-- **Later calls of other clients complete.**  At quiescence of a running server every call
whose method the server knows and serves, whose request and reply are within the size limits,
whose client handle had not failed, whose connection is up and whose caller is still there has
returned a value — whatever cancelled calls, undecodable requests, unknown methods or failures
of *other* calls happened before or concurrently. -/
theorem later_calls_complete (cfg : Cfg) (s : State o) (h : Reachable cfg s) (hcap : 0 < cfg.cap)
    (hq : Quiescent cfg s) (hns : s.loop.isStopped = false) (c : Nat) (hlt : c < s.n)
    (hknown : o.known (s.calls c).m = true) (hserved : served cfg.fl (o.kind (s.calls c).m) = true)
    (hremote : cfg.remote (s.calls c).client = true →
      (s.calls c).lost = false ∧ o.reqFits (s.calls c).client (s.calls c).m (s.calls c).a = true ∧ s.connUp = true)
    (hreply : Ev.replyErr c ∉ s.tr) (hthere : (s.calls c).cl ≠ .abandoned) :
    ∃ r, (s.calls c).cl = .value r := by
  have hi := fullinv_of_reachable cfg s h
  have hnw := quiescent_no_waiting cfg s hi hcap hq hns c
  cases hcl : (s.calls c).cl with
  | value r => exact ⟨r, rfl⟩
  | waiting => exact absurd hcl hnw
  | abandoned => exact absurd hcl hthere
  | error =>
    exfalso
    rcases hi.v.e2 c hlt hcl with h1 | h1 | h1 | h1 | h1 | h1
    · rw [hknown] at h1; cases h1
    · rw [hserved] at h1; cases h1
    · obtain ⟨hr, h2⟩ := h1
      obtain ⟨e1, e2, e3⟩ := hremote hr
      rcases h2 with h2 | h2 | h2
      · rw [e1] at h2; cases h2
      · rw [e2] at h2; cases h2
      · rw [e3] at h2; cases h2
    · rw [hns] at h1; cases h1
    · exact hreply h1
    · have := (hi.v.d4 c hlt).1 h1
      rw [hcl] at this; cases this

/-! ### non-vacuity and findings -/

/-- the caller goes away between the two segments of `add 5`: the method step is disabled, the
cancellation enabled; after it the lock is free, the loop idle and the partial effect (one
segment) stays in the object -/
example : (step (cfgSM .pinned) (run (cfgSM .pinned) (init ctr) runCancel) (.execStep 0)) = none
    ∧ (run (cfgSM .pinned) (init ctr) (runCancel ++ [.execCancel 0])).writer = none
    ∧ (run (cfgSM .pinned) (init ctr) (runCancel ++ [.execCancel 0])).loop = .idle
    ∧ ctrVal (run (cfgSM .pinned) (init ctr) (runCancel ++ [.execCancel 0])) = 5
    ∧ (run (cfgSM .pinned) (init ctr) runCancel).closed 0 = true
    ∧ ((run (cfgSM .pinned) (init ctr) runCancel).calls 0).stage = .executing := by
  decide

/-- **Finding F6 (witness on the pinned variant).**  Client 1's reply is over-size; the error
reaches the error channel and `serve` returns; client 0's perfectly good `get`, issued
afterwards, fails.  The same label list on the repaired variant serves it. -/
theorem f6_oversize_reply_stops_server :
    (run (cfgRM .pinned) (init ctr) runF6).loop = .stopped .replyErr
    ∧ ((run (cfgRM .pinned) (init ctr) runF6).calls 1).cl = .error
    ∧ (run (cfgRM .fixed) (init ctr) runF6).loop = .idle
    ∧ ((run (cfgRM .fixed) (init ctr) runF6).calls 1).cl = .value 120 := by
  decide

/-- **Finding F10 (witness).**  After one over-size request of the transported client 1 its next,
small request fails as well (`lost`), while the local client 0 is served. -/
theorem f10_oversize_request_poisons_client :
    ((run (cfgRM .pinned) (init ctr) runF10).calls 0).cl = .error
    ∧ ((run (cfgRM .pinned) (init ctr) runF10).calls 1).cl = .error
    ∧ ((run (cfgRM .pinned) (init ctr) runF10).calls 1).lost = true
    ∧ ((run (cfgRM .pinned) (init ctr) runF10).calls 2).cl = .value 0
    ∧ (run (cfgRM .pinned) (init ctr) runF10).loop = .idle := by
  decide

end Remoc.Rtc

/-!
# C19 for remote functions (`remoc::rfn::{RFn, RFnMut, RFnOnce}`)

Theorems about M_rfn (`RemocModel/Rtc/Rfn.lean`) for every label list, all three flavours, local
and transported wrappers.

* `rfn_no_pending_at_quiescence` — **no call hangs**: in every reachable state in which no
  internal step is possible, the provider side is finished with every request and every call
  future that has not been dropped has an outcome, a value or an error — whatever happened before
  (provider dropped with calls queued / executing, connection lost at any point, requests or
  results that cannot be transmitted, callers dropped at any stage).  This is the clause the seeded
  change C12-m2 broke: `try_call_int` must drop the request (and with it `result_tx`) when
  `request_tx.send` fails; a model in which `sendFail` keeps the sending half alive does not
  satisfy `DN.done`.
* `rfn_error_has_cause`, `rfn_calls_complete`, `rfn_provider_stops_only_for_cause` — an error
  outcome has one of the legitimate causes, a call without a cause returns a value, the provider
  task ends only because the provider was dropped, the callers are gone / unreachable, or (`RFnOnce`)
  the one request has been taken: abandoned calls, failed calls and undeliverable results never
  stop it.
* `rfn_cancel_at_next_await` — for the **documented** behaviour (`Cfg.cancel = true`): once the
  result sender of a call observes `closed()` (caller dropped the future, connection lost) no
  further segment of that call runs in any continuation, the `closed()` branch is enabled, and
  after it the serial provider is back in its receive state.
* **Finding F-RFN-1** (`rfn_f1_not_cancelled_pinned`, kernel-checked witness): the code as it is
  (`Cfg.cancel = false`) does **not** race the function against `result_tx.closed()`: after the
  caller has gone the remaining segments run, `RFnMut` stays busy with the abandoned call and a
  later call waits behind it.  What does hold for the code as it is
  (`rfn_cancel_at_next_await_partial`): dropping a call future touches nothing but that call's
  own receiver, the abandoned execution keeps taking steps on its own until it ends, its result is
  discarded, and at quiescence nothing is pending — the provider is not wedged *provided the
  function itself makes progress*.

Partial, spelled out: liveness is "judged at quiescence" and assumes that the function body makes
progress on its own (`execStep` is an internal label); wake-ups and scheduler fairness are runtime
facts checked by the harness's hang detector.
-/

namespace Remoc.Rfn

variable {f : Fun}

/-- **No call is left pending at quiescence.**  If no internal step is possible, the provider
side is finished with every request, nothing is queued or executing, and no call future is still
waiting: every call has returned a value or an error (or was dropped by its caller). -/
theorem rfn_no_pending_at_quiescence (cfg : Cfg) (s : State f) (h : Reachable cfg s)
    (hcap : 0 < cfg.cap) (hlim : 0 < cfg.limit) (hq : Quiescent cfg s) :
    (∀ c, s.stage c = .done) ∧ s.queue = [] ∧ s.execs = []
      ∧ (∀ c, s.loop ≠ .running c) ∧ ∀ c, s.cl c ≠ .waiting := by
  have hi := inv_of_reachable cfg s h
  have hdone := quiescent_all_done cfg s hi.wf hi.st hcap hlim hq
  refine ⟨hdone, quiescent_queue_empty cfg s hi.wf hi.st hq, ?_, ?_,
    quiescent_no_waiting cfg s hi.wf hi.st hi.dn hcap hlim hq⟩
  · cases hex : s.execs with
    | nil => rfl
    | cons c t =>
      have hm : c ∈ s.execs := by rw [hex]; simp
      have := (hi.st.exec c).2 (Or.inr hm)
      rw [hdone c] at this; cases this
  · intro c hl
    have := (hi.st.exec c).2 (Or.inl hl)
    rw [hdone c] at this; cases this

/-- **No livelock: quiescence is reached.**  From any reachable state the runtime can take at
most `mu s` steps on its own (every list of consecutively enabled internal labels is at most that
long): request hand-over, dequeue, permits, function segments, cancellation, result transmission,
purge and the end of the provider task all consume a bounded budget that only the environment
(new calls) refills.  Together with `rfn_no_pending_at_quiescence`: every call gets its outcome
after finitely many steps. -/
theorem rfn_internal_steps_terminate (cfg : Cfg) (s s' : State f) (h : Reachable cfg s) (ls : List Label)
    (hint : ∀ l, l ∈ ls → l.internal = true) (hrun : execAll cfg s ls = some s') :
    mu s' + ls.length ≤ mu s :=
  internal_run_bounded cfg s s' (inv_of_reachable cfg s h) ls hint hrun

/-- every error outcome has one of the legitimate causes -/
theorem rfn_error_has_cause (cfg : Cfg) (s : State f) (h : Reachable cfg s) (c : Nat) (hlt : c < s.n)
    (he : s.cl c = .error) : Cause cfg s c :=
  (inv_of_reachable cfg s h).er.err c hlt he

/-- **The provider task ends only for a cause**: the provider object was dropped, all callers are
gone or unreachable (connection lost / sender failed), or the one request of an `RFnOnce` has been
taken. -/
theorem rfn_provider_stops_only_for_cause (cfg : Cfg) (s : State f) (h : Reachable cfg s) (w : Stop)
    (hl : s.loop = .stopped w) : StopCause cfg s w :=
  (inv_of_reachable cfg s h).sp.stop w hl

/-- **Abandoned, failed or undeliverable calls never stop the provider**: as long as the provider
object exists, a handle exists, the connection is up, the sender has not failed and (for `RFnOnce`)
no request has been taken, the provider task is running. -/
theorem rfn_provider_keeps_serving (cfg : Cfg) (s : State f) (h : Reachable cfg s)
    (hp : s.provGone = false) (hc : s.callersGone = false)
    (hr : cfg.remote = true → s.connUp = true ∧ s.poisoned = false)
    (ho : cfg.fl = .once → deqOrder s.tr = []) : s.loop.isStopped = false := by
  cases hl : s.loop with
  | stopped w =>
    exfalso
    have hcause := rfn_provider_stops_only_for_cause cfg s h w hl
    cases w with
    | provDropped => simp [StopCause, hp] at hcause
    | callersGone =>
      simp only [StopCause, hc] at hcause
      rcases hcause with h1 | ⟨h1, h2⟩
      · cases h1
      · have := hr h1
        rcases h2 with h2 | h2
        · rw [this.1] at h2; cases h2
        · rw [this.2] at h2; cases h2
    | onceTaken => exact hcause.2 (ho hcause.1)
  | _ => rfl

/-- **Calls without a cause of their own complete with a value.**  At quiescence every call whose
caller is still there and which has none of the causes of `Cause` has returned a value — whatever
abandoned calls or failures of *other* calls happened before or concurrently. -/
theorem rfn_calls_complete (cfg : Cfg) (s : State f) (h : Reachable cfg s)
    (hcap : 0 < cfg.cap) (hlim : 0 < cfg.limit) (hq : Quiescent cfg s) (c : Nat) (hlt : c < s.n)
    (hno : ¬ Cause cfg s c) (hthere : s.cl c ≠ .abandoned) : ∃ r, s.cl c = .value r := by
  have hnw := (rfn_no_pending_at_quiescence cfg s h hcap hlim hq).2.2.2.2 c
  cases hcl : s.cl c with
  | value r => exact ⟨r, rfl⟩
  | waiting => exact absurd hcl hnw
  | abandoned => exact absurd hcl hthere
  | error => exact absurd (rfn_error_has_cause cfg s h c hlt hcl) hno

/-! ### cancellation -/

/-- **Cancelled at the next await** (documented behaviour, `cancel = true`).  Let `c` be an issued
call whose result sender observes `closed()`.  Then in every continuation `ls` of the run no
segment of `c` is executed any more (segment counts and program counter of `c` are frozen) and the
sender keeps observing `closed()`. -/
theorem rfn_cancel_at_next_await (cfg : Cfg) (hcan : cfg.cancel = true) (s : State f) (h : Reachable cfg s)
    (c : Nat) (hlt : c < s.n) (hcl : s.closed c = true) (ls : List Label) :
    (∀ k, segCount c k (run cfg s ls).tr = segCount c k s.tr)
      ∧ (run cfg s ls).pc c = s.pc c ∧ (run cfg s ls).closed c = true := by
  induction ls generalizing s with
  | nil => exact ⟨fun _ => rfl, rfl, hcl⟩
  | cons l ls ih =>
    simp only [run]
    split
    · rename_i s' hs
      have hw := (inv_of_reachable cfg s h).wf
      have hfr := frozen_step cfg hcan s s' l hw hs c hlt hcl
      have := ih s' (reachable_step cfg s s' l h hs) hfr.2.2.2 hfr.2.2.1
      refine ⟨fun k => ?_, ?_, this.2.2⟩
      · rw [this.1 k, hfr.1 k]
      · rw [this.2.1, hfr.2.1]
    · exact ih s h hlt hcl

/-- the `closed()` branch of the biased select is what the function future takes: the segment step
is disabled, the cancellation enabled, and after it the serial provider (`RFnMut`) is back in its
receive state with the partial effect of the abandoned execution left in the captured state -/
theorem rfn_cancel_enabled (cfg : Cfg) (hcan : cfg.cancel = true) (s : State f) (h : Reachable cfg s) (c : Nat)
    (he : s.stage c = .executing) (hcl : s.closed c = true) :
    step cfg s (.execStep c) = none
      ∧ ∃ s', step cfg s (.execCancel c) = some s' ∧ s'.stage c = .done ∧ s'.σ = s.σ
          ∧ (s.loop = .running c → cfg.fl = .mut → s'.loop = .idle) := by
  have hw := (inv_of_reachable cfg s h).wf
  have hlt : c < s.n := hw.lt_of_stage (by rw [he]; simp)
  refine ⟨?_, ?_⟩
  · simp only [step]
    rw [if_neg]
    intro hg
    exact hg.2.2 ⟨hcan, hcl⟩
  · simp only [step]
    rw [if_pos ⟨hlt, he, hcan, hcl⟩]
    refine ⟨_, rfl, by simp [endExec], by simp [endExec], ?_⟩
    intro hl hfl
    simp [endExec, hl, hfl]

/-- **What holds for the code as it is** (`cancel = false`): dropping a call future changes
nothing but that call's own record (the provider loop, the queue, every other call and the
captured state are untouched), the abandoned execution can always take its next segment (it is
never blocked by the departure of its caller), and — `rfn_no_pending_at_quiescence` — once it has
run out nothing is left pending.  The full statement `rfn_cancel_at_next_await` does not hold for
this variant: see the witness below. -/
theorem rfn_cancel_at_next_await_partial (cfg : Cfg) (hcan : cfg.cancel = false) (s s' : State f) (c : Nat)
    (h : step cfg s (.abandon c) = some s') :
    s'.loop = s.loop ∧ s'.queue = s.queue ∧ s'.execs = s.execs ∧ s'.σ = s.σ ∧ s'.stage = s.stage
      ∧ (∀ c', c' ≠ c → s'.cl c' = s.cl c')
      ∧ (∀ c', c' < s'.n → s'.stage c' = .executing → step cfg s' (.execStep c') ≠ none) := by
  rfn_step_inv h
  refine ⟨rfl, rfl, rfl, rfl, rfl, fun c' hne => by simp [upd_apply, hne], ?_⟩
  intro c' hlt he
  simp only [step]
  rw [if_pos ⟨hlt, he, by simp [hcan]⟩]
  split <;> simp

/-! ### non-vacuity and findings -/

/-- the provider is dropped, then a call is made (the situation of seeded change C12-m2): the run
ends in a quiescent state in which the call has returned an error -/
example : Quiescent (cfgOf .mut false) (run (cfgOf .mut false) (init addFn) runProvDrop)
    ∧ (run (cfgOf .mut false) (init addFn) runProvDrop).cl 0 = .error
    ∧ (run (cfgOf .mut false) (init addFn) runProvDrop).loop = .stopped .provDropped :=
  ⟨quiescent_of_check _ _ (by decide), by decide, by decide⟩

/-- the internal part of that run (provider task ends, send fails, error delivered) is a strictly
executed list of internal labels: three steps, the measure drops from 12 to 3 -/
example : execAll (cfgOf .mut false) (run (cfgOf .mut false) (init addFn) [.dropProvider, .issue 5])
      [.provTerm, .sendFail 0, .recvReply 0]
      = some (run (cfgOf .mut false) (init addFn) [.dropProvider, .issue 5, .provTerm, .sendFail 0, .recvReply 0])
    ∧ mu (run (cfgOf .mut false) (init addFn) [.dropProvider, .issue 5]) = 12
    ∧ mu (run (cfgOf .mut false) (init addFn) [.dropProvider, .issue 5, .provTerm, .sendFail 0, .recvReply 0]) = 3 := by
  refine ⟨rfl, by decide, by decide⟩

/-- … and before the call future has been polled again the state is *not* quiescent: the error is
on its way (`recvReply` is enabled) -/
example : step (cfgOf .mut false) (run (cfgOf .mut false) (init addFn) (runProvDrop.take 4)) (.recvReply 0) ≠ none := by
  decide

/-- provider dropped while one request executes and one waits behind it: the executing one
completes with its value, the queued one fails, nothing is pending -/
example : Quiescent (cfgOf .mut false) (run (cfgOf .mut false) (init addFn) runProvDropBusy)
    ∧ (run (cfgOf .mut false) (init addFn) runProvDropBusy).cl 0 = .value 10
    ∧ (run (cfgOf .mut false) (init addFn) runProvDropBusy).cl 1 = .error :=
  ⟨quiescent_of_check _ _ (by decide), by decide, by decide⟩

/-- connection loss with one request executing and one on its way: both calls fail, the execution
runs out, the provider's receiver ends -/
example : Quiescent (cfgOf .mut false) (run (cfgOf .mut false) (init addFn) runConnLoss)
    ∧ (run (cfgOf .mut false) (init addFn) runConnLoss).cl 0 = .error
    ∧ (run (cfgOf .mut false) (init addFn) runConnLoss).cl 1 = .error
    ∧ sumVal (run (cfgOf .mut false) (init addFn) runConnLoss) = 10
    ∧ (run (cfgOf .mut false) (init addFn) runConnLoss).loop = .stopped .callersGone :=
  ⟨quiescent_of_check _ _ (by decide), by decide, by decide, by decide, by decide⟩

/-- an argument that cannot be serialised fails the sender for good (same mechanism as F10) -/
example : Quiescent (cfgOf .const false) (run (cfgOf .const false) (init addFn) runPoison)
    ∧ (run (cfgOf .const false) (init addFn) runPoison).cl 0 = .error
    ∧ (run (cfgOf .const false) (init addFn) runPoison).cl 1 = .error
    ∧ (run (cfgOf .const false) (init addFn) runPoison).poisoned = true :=
  ⟨quiescent_of_check _ _ (by decide), by decide, by decide, by decide⟩

/-- documented behaviour: the caller goes away between the two segments of `add 5`; the segment
step is disabled, the cancellation enabled; after it the loop is idle and the partial effect (one
segment) stays in the captured state (hypotheses of `rfn_cancel_at_next_await`, `rfn_cancel_enabled`) -/
example : (run (cfgOf .mut true) (init addFn) runAbandon).closed 0 = true
    ∧ (run (cfgOf .mut true) (init addFn) runAbandon).stage 0 = .executing
    ∧ step (cfgOf .mut true) (run (cfgOf .mut true) (init addFn) runAbandon) (.execStep 0) = none
    ∧ (run (cfgOf .mut true) (init addFn) (runAbandon ++ [.execCancel 0])).loop = .idle
    ∧ sumVal (run (cfgOf .mut true) (init addFn) (runAbandon ++ [.execCancel 0])) = 5 := by
  decide

/-- **Finding F-RFN-1 (witness on the code as it is).**  Same labels without the race against
`closed()`: the result sender observes `closed()`, yet the second segment runs (`execStep`), the
cancellation is not available, and the effect of the whole call ends up in the captured state. -/
theorem rfn_f1_not_cancelled_pinned :
    (run (cfgOf .mut false) (init addFn) runAbandon).closed 0 = true
    ∧ step (cfgOf .mut false) (run (cfgOf .mut false) (init addFn) runAbandon) (.execCancel 0) = none
    ∧ segCount 0 1 (run (cfgOf .mut false) (init addFn) runAbandon).tr = 0
    ∧ segCount 0 1 (run (cfgOf .mut false) (init addFn) (runAbandon ++ [.execStep 0])).tr = 1
    ∧ sumVal (run (cfgOf .mut false) (init addFn) (runAbandon ++ [.execStep 0])) = 10 := by
  decide

end Remoc.Rfn
