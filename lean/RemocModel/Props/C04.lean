import RemocModel.Base.Spec
import RemocModel.Base.MpscInv

/-!
# C04 — typed channels: per-sender prefix delivery; item failures never create gaps

Theorems about M_base (`Remoc.Base`, rch/base over the abstract port of C01/C11) and M_mpsc
(`Remoc.Mpsc`, one sender of an mpsc / oneshot channel against an arbitrary environment of other
senders).  `Reachable c st` quantifies over every label list: every sequence of items — any encoded
size (so in particular sizes straddling `max_data_size`, the chunk size and `max_item_size` on both
sides), any number of embedded halves, serializer failures at any byte offset, deserializer failures,
`send` futures dropped during the data or before the port batch, `recv` futures dropped anywhere —
interleaved arbitrarily with the receiver, with close, sender drop and loss of the connection.

*Variant (finding FB1).*  At one step the pinned tree diverges from the property: in streamed mode
`Receiver::recv` returns the item as soon as the deserializer thread has it, without looking at how the
chunk stream ends.  A send that fails or is cancelled (or is cut by a close) after the complete encoding
has been handed to the port — only `finish` is missing — is therefore *delivered although it is reported
as failed to its sender*.  `Cfg.strictEnd = false` is the code as it is (kernel-checked witnesses
`fb1_*` below), `strictEnd = true` the repaired receiver; the theorems that need the repair carry the
hypothesis `c.strictEnd = true`, the others (`base_prefix`, `base_complete`, `eos_after_all_data`) hold
for both variants.  The driver replays every real trace against both variants and reports which one the
tree matches.

*Abstraction (partial w.r.t. the property text):* serde and the codec are abstracted to
(size, halves, failure position); that the bytes of a delivered value equal the original is checked
by the correspondence harness (byte-for-byte), not proved.  The abstract port is what C01/C11 prove
about M_link.
-/

namespace Remoc.Base

/-- **`base_prefix`, core.**  Whatever the schedule, the results returned by `recv` so far are a prefix
of the *ideal* output `ideal c log = log.flatMap (outcome of that one send)`: the receiver's
restart logic computes, entry by entry, exactly what each `send` call alone would produce.  Hence an
item that fails, is cancelled or is rejected can never remove, duplicate, truncate or merge a
neighbour — the ideal output of a neighbour does not mention it. -/
theorem base_prefix (c : Cfg) (st : State) (h : Reachable c st) : st.got <+: ideal c st.log := by
  obtain ⟨hsh, ⟨tail, hfifo, _⟩, hrecv, _⟩ := inv_reachable c st h
  have hgot : st.got = (runToks c {} st.consumed).2 := by rw [hrecv]
  have hpre := runToks_outs_prefix c {} st.consumed (st.port ++ tail)
  rw [← List.append_assoc, ← hfifo, ← hgot] at hpre
  have hlog := run_log c {} st.log hsh rfl
  have : (runToks c {} (emitted st)).2 = ideal c st.log := by
    unfold emitted
    rw [runToks_append, hlog.1]
    split
    · simp [runToks, rTok, hlog.2]
    · simp [runToks]
  rw [this] at hpre
  exact hpre

/-- **`base_prefix`, per entry.**  For every item, heuristic state, abort point and race: if `send`
returns `Ok` the receiver's output for this entry is exactly the item (or exactly one non-final error
when the receiver's own size limit / deserializer rejects it); otherwise it contains no value; in
every case it has at most one element.  Buffered and streamed transmission give the same result. -/
theorem send_outcome (c : Cfg) (hs : c.strictEnd = true) (big : Int) (it : Item) (ab : Abort) (derr : Bool) (n0 : Nat) :
    let x := sendItem c big it ab derr n0
    (x.2.2 = .ok → outcome c x.2.1 = delivered c it) ∧
    (x.2.2 ≠ .ok → values (outcome c x.2.1) = []) ∧
    (outcome c x.2.1).length ≤ 1 :=
  ⟨(sendItem_spec c hs big it ab derr n0).1, (sendItem_spec c hs big it ab derr n0).2,
   outcome_length c _ (sendItem_shape c big it ab derr n0)⟩

/-- **Values.**  The values returned by `recv` are, in order and each exactly once, the successfully
sent items the receiver can take, minus a suffix. -/
theorem base_values_prefix (c : Cfg) (hs : c.strictEnd = true) (st : State) (h : Reachable c st) :
    values st.got <+: (sentOk st.log).filter (receivable c) := by
  rw [← ideal_values c st.log (log_spec c hs st h)]
  exact values_prefix (base_prefix c st h)

/-- **Errors.**  Every error returned for an item is non-final (`RecvOut.itemErr` — the final error is
`End.failed`, reported only when the connection is lost), and there are at most as many of them as
there are failing entries (failed / cancelled sends and items the receiver rejects): each failing item
produces at most one. -/
theorem base_errors_bounded (c : Cfg) (hs : c.strictEnd = true) (st : State) (h : Reachable c st) :
    (errors st.got).length ≤ (st.log.filter (failing c)).length :=
  Nat.le_trans (errors_length_prefix (base_prefix c st h))
    (ideal_errors_le c st.log (inv_reachable c st h).shapes (log_spec c hs st h))

/-- the final error is only ever reported after the connection was lost -/
theorem final_error_only_when_lost (c : Cfg) (st : State) (h : Reachable c st) :
    st.ended = some .failed → st.lost = true := by
  obtain ⟨ls, rfl⟩ := h
  suffices ∀ s : State, (s.ended = some .failed → s.lost = true) →
      ((run c s ls).ended = some .failed → (run c s ls).lost = true) from this init (by simp [init])
  induction ls with
  | nil => intro s hs; exact hs
  | cons l ls ih =>
    intro s hs
    simp only [run]
    split
    · rename_i s' hstep
      apply ih
      cases l with
      | send it ab d n0 =>
        simp only [step] at hstep
        split at hstep
        · simp at hstep
        · split at hstep
          · obtain rfl := Option.some.inj hstep; exact hs
          · split at hstep
            · simp at hstep
            · obtain rfl := Option.some.inj hstep; exact hs
      | deliver =>
        simp only [step] at hstep
        split at hstep
        · simp at hstep
        · split at hstep
          · obtain rfl := Option.some.inj hstep
            simp only []
            split <;> simp
          · split at hstep
            · rename_i hl; obtain rfl := Option.some.inj hstep; intro _; exact hl
            · simp at hstep
      | recvCancel => simp only [step] at hstep; obtain rfl := Option.some.inj hstep; exact hs
      | close => simp only [step] at hstep; obtain rfl := Option.some.inj hstep; exact hs
      | learnClose =>
        simp only [step] at hstep
        split at hstep
        · obtain rfl := Option.some.inj hstep; exact hs
        · simp at hstep
      | dropSender =>
        simp only [step] at hstep
        split at hstep
        · simp at hstep
        · obtain rfl := Option.some.inj hstep; exact hs
      | connLost => simp only [step] at hstep; obtain rfl := Option.some.inj hstep; intro _; rfl
    · exact ih s hs

/-- **Completeness at quiescence** (values are lost only as a suffix when the connection ends):
with nothing in flight on an intact connection the receiver has returned the whole ideal output. -/
theorem base_complete (c : Cfg) (st : State) (h : Reachable c st) (hp : st.port = []) (hl : st.lost = false) :
    st.got = ideal c st.log := by
  obtain ⟨hsh, ⟨tail, hfifo, htail⟩, hrecv, _⟩ := inv_reachable c st h
  have ht := htail hl
  subst ht
  rw [hp] at hfifo
  simp only [List.append_nil] at hfifo
  have hlog := run_log c {} st.log hsh rfl
  have : (runToks c {} (emitted st)).2 = ideal c st.log := by
    unfold emitted
    rw [runToks_append, hlog.1]
    split
    · simp [runToks, rTok, hlog.2]
    · simp [runToks]
  rw [← this, hfifo, hrecv]

theorem finished_mem_finish (c : Cfg) (r : RecvSt) (ts : List PMsg) (hr : r.finished = false)
    (h : (runToks c r ts).1.finished = true) : PMsg.finish ∈ ts := by
  induction ts generalizing r with
  | nil => simp [runToks, hr] at h
  | cons t ts ih =>
    by_cases ht : t = .finish
    · simp [ht]
    · have : (rTok c r t).1.finished = false := by
        cases t with
        | finish => exact absurd rfl ht
        | msg it => simp only [rTok, hr]; (repeat' split) <;> simp_all
        | partialMsg n d => simp only [rTok, hr]; (repeat' split) <;> simp_all
        | requests k => simp only [rTok, hr]; (repeat' split) <;> simp_all
      simp only [runToks] at h
      exact List.mem_cons_of_mem _ (ih _ this h)

theorem last_unique {α : Type} (x : α) (E a b : List α) (hx : x ∈ a) (hE : x ∉ E) (h : a ++ b = E ++ [x]) :
    b = [] := by
  induction E generalizing a with
  | nil =>
    cases a with
    | nil => simp at hx
    | cons a0 a' =>
      simp only [List.nil_append, List.cons_append, List.cons.injEq] at h
      have := h.2
      simp only [List.append_eq_nil_iff] at this
      exact this.2
  | cons e E' ih =>
    cases a with
    | nil => simp at hx
    | cons a0 a' =>
      simp only [List.cons_append, List.cons.injEq] at h
      obtain ⟨h0, h'⟩ := h
      simp only [List.mem_cons, not_or] at hE
      simp only [List.mem_cons] at hx
      rcases hx with hx | hx
      · exact absurd (hx.trans h0) hE.1
      · exact ih a' hx hE.2 h'

theorem shape_no_finish (toks : List PMsg) (h : EmShape toks) : PMsg.finish ∉ toks := by
  cases h <;> simp

/-- **End-of-stream comes after all data** (also the C11 clause "all senders dropped ⇒ the receiver
gets everything, then end-of-stream"): once `recv` has answered `Ok(None)` the receiver has returned
the complete ideal output — nothing that was sent is missing. -/
theorem eos_after_all_data (c : Cfg) (st : State) (h : Reachable c st) (he : st.ended = some .eos) :
    st.got = ideal c st.log := by
  obtain ⟨hsh, ⟨tail, hfifo, _⟩, hrecv, heos⟩ := inv_reachable c st h
  have hfin : (runToks c {} st.consumed).1.finished = true := by rw [hrecv]; exact heos he
  have hmem := finished_mem_finish c {} st.consumed rfl hfin
  have hnot : PMsg.finish ∉ st.log.flatMap (·.toks) := by
    intro hm
    simp only [List.mem_flatMap] at hm
    obtain ⟨e, he', hm'⟩ := hm
    exact shape_no_finish _ (hsh e he') hm'
  have hlog := run_log c {} st.log hsh rfl
  unfold emitted at hfifo
  split at hfifo
  · rw [List.append_assoc] at hfifo
    have hrest := last_unique _ _ _ _ hmem hnot hfifo.symm
    rw [hrest, List.append_nil] at hfifo
    have : st.got = (runToks c {} st.consumed).2 := by rw [hrecv]
    rw [this, ← hfifo, runToks_append, hlog.1]
    simp [runToks, rTok, hlog.2]
  · exfalso
    simp only [List.append_nil] at hfifo
    rw [hfifo] at hnot
    exact hnot (by simp [hmem])

/-- a dropped `recv` future changes nothing (all progress is kept in the receiver) -/
theorem recv_cancel_harmless (c : Cfg) (st : State) : step c st .recvCancel = some st := rfl

/-- once the sender has learnt of the close nothing more reaches the port and no send succeeds
(C11: a receiver that was closed or dropped makes later sends fail) -/
theorem closed_sender_sends_nothing (c : Cfg) (st st' : State) (it : Item) (ab : Abort) (d : Bool) (n0 : Nat)
    (hc : st.sClosed = true) (hs : step c st (.send it ab d n0) = some st') :
    st'.port = st.port ∧ ∃ e, st'.log = st.log ++ [e] ∧ e.item = it ∧ e.res ≠ .ok ∧ e.toks = [] := by
  simp only [step, hc] at hs
  split at hs
  · simp at hs
  · obtain rfl := Option.some.inj hs
    exact ⟨rfl, _, rfl, rfl, sendClosed_not_ok c st.big it, rfl⟩

/-! ### finding FB1: witnesses on the pinned variant (tests by `decide`, not theorems about all inputs) -/

def cPinned : Cfg := { sMaxData := 16, rMaxData := 16, sMaxItem := 64, rMaxItem := 64, strictEnd := false }

/-- a streamed item whose serializer fails after the last byte: `send` returns `Serialize`, the receiver
nevertheless returns the value -/
example : (sendItem cPinned 1 { id := 7, size := 40, serFail := some 40 } .none true 0).2.2 = .serErr ∧
    outcome cPinned (sendItem cPinned 1 { id := 7, size := 40, serFail := some 40 } .none true 0).2.1 =
      [.value { id := 7, size := 40, serFail := some 40 }] := by decide

/-- the same with a sender-side type that has a trailing field the receiver does not read (60 bytes, the
receiver needs 20) whose serialization fails after 50 bytes: reported as failed, delivered -/
example : (sendItem cPinned 1 { id := 7, size := 60, need := 20, serFail := some 50 } .none true 0).2.2 = .serErr ∧
    outcome cPinned (sendItem cPinned 1 { id := 7, size := 60, need := 20, serFail := some 50 } .none true 0).2.1 =
      [.value { id := 7, size := 60, need := 20, serFail := some 50 }] := by decide

/-- a streamed send dropped by the caller while `finish` is pending: cancelled, yet delivered -/
example : (sendItem cPinned 1 { id := 7, size := 40 } (.inData 40) true 0).2.2 = .cancelled ∧
    outcome cPinned (sendItem cPinned 1 { id := 7, size := 40 } (.inData 40) true 0).2.1 = [.value { id := 7, size := 40 }] := by
  decide

/-- the receiver closes after it has taken the item: the sender's `finish` fails with `Closed` -/
example : (sendItem cPinned 1 { id := 7, size := 40 } (.closedAt 40) true 0).2.2 = .closed ∧
    outcome cPinned (sendItem cPinned 1 { id := 7, size := 40 } (.closedAt 40) true 0).2.1 = [.value { id := 7, size := 40 }] := by
  decide

/-- the same three on the repaired variant: nothing is delivered -/
example : outcome { cPinned with strictEnd := true } (sendItem cPinned 1 { id := 7, size := 40, serFail := some 40 } .none true 0).2.1 = [] ∧
    outcome { cPinned with strictEnd := true } (sendItem cPinned 1 { id := 7, size := 40 } (.inData 40) true 0).2.1 = [] ∧
    outcome { cPinned with strictEnd := true } (sendItem cPinned 1 { id := 7, size := 40 } (.closedAt 40) true 0).2.1 = [] := by
  decide

/-! ### non-vacuity -/

def c1 : Cfg := { sMaxData := 16, rMaxData := 16, sMaxItem := 64, rMaxItem := 48, strictEnd := true }

def small (id : Nat) : Item := { id := id, size := 8 }
def big (id : Nat) : Item := { id := id, size := 40 }

/-- the F1 scenario one layer up: a streamed item whose serializer fails mid-stream (id 2), an
over-size item (id 4), a streamed item cancelled by the caller (id 5), an item the receiver rejects
(id 6: fits the sender's limit, exceeds the receiver's), an item with two halves whose send is dropped
before the port batch (id 7) — every other item arrives, in order. -/
def demoRun : List Label :=
  [.send (small 1) .none false 0,
   .send { id := 2, size := 40, serFail := some 30 } .none false 0,
   .send (big 3) .none false 0,
   .send { id := 4, size := 100 } .none false 60,
   .send (big 5) (.inData 20) false 0,
   .send { id := 6, size := 56 } .none false 0,
   .send { id := 7, size := 8, halves := 2 } .beforePorts false 0,
   .send { id := 8, size := 8, halves := 1 } .none false 0,
   .send (small 9) .none false 0,
   .dropSender,
   .deliver, .deliver, .recvCancel, .deliver, .deliver, .deliver, .deliver, .deliver, .deliver, .deliver, .deliver,
   .deliver]

example : values (run c1 init demoRun).got = [small 1, big 3, { id := 8, size := 8, halves := 1 }, small 9] ∧
    errors (run c1 init demoRun).got = [.oversize, .oversize] ∧
    (run c1 init demoRun).ended = some .eos ∧
    sentOk (run c1 init demoRun).log = [small 1, big 3, { id := 6, size := 56 }, { id := 8, size := 8, halves := 1 }, small 9] := by
  decide

end Remoc.Base

namespace Remoc.Mpsc
open Remoc.Base

/-- **`mpsc_per_sender_prefix`.**  For every sender of an mpsc channel (the observed one; all other
senders are the arbitrary environment), in every reachable state:

* remote sender: the values the receiver obtained from it are a prefix of the items its forwarding
  task sent successfully (`Sending` handle `Ok`) and the receiver can take, in order; the non-final
  errors it caused are at most one per failing item; and the forwarded items are exactly the accepted
  ones in order — what was accepted locally but not transmitted is a suffix (`droppedQ ++ q`, C11
  `queued_suffix_dropped`).
* local sender: the receiver obtained a prefix of the accepted values themselves. -/
theorem mpsc_per_sender_prefix (c : Cfg) (hs : c.strictEnd = true) (ro os : Bool) (st : State) (h : Reachable c ro os st) :
    (st.remote = true →
      values (mineOuts st.got) <+: (sentOk st.base.log).filter (receivable c) ∧
      (errors (mineOuts st.got)).length ≤ (st.base.log.filter (failing c)).length ∧
      st.accepted = st.base.log.map (·.item) ++ (st.droppedQ ++ st.q)) ∧
    (st.remote = false → mineOuts st.got <+: st.accepted.map .value) := by
  have hi := inv_reachable c ro os st h
  constructor
  · intro hr
    have h1 : mineOuts st.got <+: st.base.got :=
      ⟨mineOuts st.rq ++ st.base.got.drop st.fwd, by
        rw [← List.append_assoc, hi.pushed hr, List.take_append_drop]⟩
    have h2 := h1.trans (base_prefix c st.base hi.baseReach)
    refine ⟨?_, ?_, ?_⟩
    · rw [← ideal_values c st.base.log (log_spec c hs st.base hi.baseReach)]
      exact values_prefix h2
    · exact Nat.le_trans (errors_length_prefix h2)
        (ideal_errors_le c st.base.log (Base.inv_reachable c st.base hi.baseReach).shapes
          (log_spec c hs st.base hi.baseReach))
    · rw [hi.acc hr, List.append_assoc]
  · intro hr
    exact ⟨mineOuts st.rq, hi.localQ hr⟩

/-- **Completeness at quiescence.**  Nothing queued, nothing in flight on an intact connection,
everything pushed and taken: the receiver obtained the whole ideal output of the observed sender —
in particular every item queued behind a failing one. -/
theorem mpsc_complete (c : Cfg) (ro os : Bool) (st : State) (h : Reachable c ro os st) (hr : st.remote = true)
    (hport : st.base.port = []) (hlost : st.base.lost = false) (hfwd : st.fwd = st.base.got.length)
    (hrq : st.rq = []) : mineOuts st.got = ideal c st.base.log := by
  have hi := inv_reachable c ro os st h
  have := hi.pushed hr
  rw [hrq, hfwd, List.take_length] at this
  simp only [mineOuts, List.append_nil] at this
  rw [this]
  exact base_complete c st.base hi.baseReach hport hlost

theorem sentOk_sublist (log : List Entry) : (sentOk log).length ≤ log.length := by
  unfold sentOk
  rw [List.length_map]
  exact List.length_filter_le _ _

theorem sentOk_mem (log : List Entry) (x : Item) (h : x ∈ sentOk log) : x ∈ log.map (·.item) := by
  unfold sentOk at h
  simp only [List.mem_map, List.mem_filter] at h ⊢
  obtain ⟨e, ⟨he, _⟩, rfl⟩ := h
  exact ⟨e, he, rfl⟩

theorem values_map_value (l : List Item) : values (l.map .value) = l := by
  induction l with
  | nil => rfl
  | cons x xs ih => simp [values, ih]

/-- **`oneshot_at_most_one`.**  A oneshot sender is consumed by its first `send`: at most one value is
ever accepted, the receiver obtains at most one value, and only the one that was sent. -/
theorem oneshot_at_most_one (c : Cfg) (hs : c.strictEnd = true) (ro : Bool) (st : State) (h : Reachable c ro true st)
    (ho : st.oneshot = true) :
    st.accepted.length ≤ 1 ∧ (values (mineOuts st.got)).length ≤ 1 ∧
    ∀ v ∈ values (mineOuts st.got), v ∈ st.accepted := by
  have hi := inv_reachable c ro true st h
  have h1 := hi.one ho
  have hp := mpsc_per_sender_prefix c hs ro true st h
  refine ⟨by omega, ?_, ?_⟩
  · cases hr : st.remote with
    | true =>
      have hpre := (hp.1 hr).1
      have hacc := (hp.1 hr).2.2
      have hl1 := hpre.length_le
      have hl2 := List.length_filter_le (receivable c) (sentOk st.base.log)
      have hl3 := sentOk_sublist st.base.log
      have : st.base.log.length ≤ st.accepted.length := by
        rw [hacc]; simp
      omega
    | false =>
      have hpre := values_prefix (hp.2 hr)
      rw [values_map_value] at hpre
      have := hpre.length_le
      omega
  · intro v hv
    cases hr : st.remote with
    | true =>
      have hpre := (hp.1 hr).1
      have hacc := (hp.1 hr).2.2
      have hm := hpre.subset hv
      simp only [List.mem_filter] at hm
      have := sentOk_mem _ _ hm.1
      rw [hacc]
      exact List.mem_append_left _ this
    | false =>
      have hpre := values_prefix (hp.2 hr)
      rw [values_map_value] at hpre
      exact hpre.subset hv

theorem oneshot_flag (c : Cfg) (ro os : Bool) (st : State) (h : Reachable c ro os st) : st.oneshot = os ∧ st.remote = ro := by
  obtain ⟨ls, rfl⟩ := h
  suffices ∀ s : State, (s.oneshot = os ∧ s.remote = ro) → ((run c s ls).oneshot = os ∧ (run c s ls).remote = ro) from
    this (init ro os) ⟨rfl, rfl⟩
  induction ls with
  | nil => intro s hs; exact hs
  | cons l ls ih =>
    intro s hs
    simp only [run]
    split
    · rename_i s' hstep
      apply ih
      cases l <;> simp only [step] at hstep <;> (repeat' split at hstep) <;>
        first
          | (obtain rfl := Option.some.inj hstep; exact hs)
          | simp at hstep
    · exact ih s hs

/-! ### non-vacuity -/

def m1 : Cfg := { sMaxData := 16, rMaxData := 16, sMaxItem := 64, rMaxItem := 64, strictEnd := true }

/-- a remote sender queues three items of which the second is over-size: the error becomes sticky,
the third (already queued) item is still transmitted and delivered, a fourth send is refused;
meanwhile other senders deliver entries of their own. -/
def mRun : List Label :=
  [.send { id := 1, size := 8 }, .send { id := 2, size := 100 }, .send { id := 3, size := 40 },
   .otherPush 77,
   .forward false 0, .forward false 32, .forward false 0,
   .send { id := 4, size := 8 },
   .net .deliver, .net .deliver, .net .deliver,
   .push, .otherPush 78, .push,
   .recv, .recv, .recv, .recv]

example : values (mineOuts (run m1 (init true false) mRun).got) = [{ id := 1, size := 8 }, { id := 3, size := 40 }] ∧
    (run m1 (init true false) mRun).refused = [{ id := 4, size := 8 }] ∧
    (run m1 (init true false) mRun).sticky = true ∧
    (run m1 (init true false) mRun).got.length = 4 := by decide

example : (run m1 (init true true) [.send { id := 1, size := 8 }, .send { id := 2, size := 8 }]).accepted =
    [{ id := 1, size := 8 }] := by decide

end Remoc.Mpsc
