import RemocModel.Bcast.Inv
import RemocModel.Bcast.Indep
/-
C16 — Broadcast: ordered delivery with an explicit lag marker at every gap.

All theorems are about M_bcast (`RemocModel/Bcast/Model.lean`) and hold for every reachable state, i.e.
for all label lists (all interleavings of send / parking-task steps / consume / subscribe / drop), any
number of subscribers and all buffer sizes (`cap` of `subscribe` is an arbitrary positive number).
`sb.recvd` is the ghost list of everything `recv`/`try_recv` returned to subscriber `sb`, values being
their broadcast index; `sb.start` is the index of the first value broadcast after it subscribed.
The harness evaluates the same scanner `scan` on the sequences real subscribers receive
(`Driver/Bcast.lean`); `scan_accepts_*` below say what acceptance by `scan` means.
-/
namespace Remoc.Bcast

/-! ### what acceptance by the scanner means (bridge for the predicate evaluated on real runs) -/

/-- accepted ⇒ values strictly increasing -/
theorem scan_accepts_increasing {st r : Nat × Bool} {a : List Msg} (h : scan st a = some r) :
    (values a).Pairwise (· < ·) := scan_values_increasing h

/-- accepted ⇒ between two consecutive values: nothing if adjacent, exactly one `Lagged` if not -/
theorem scan_accepts_gap {st r : Nat × Bool} {pre mid post : List Msg} {i j : Nat}
    (h : scan st (pre ++ .value i :: (mid ++ .value j :: post)) = some r) (hmid : values mid = []) :
    (mid = [] ∧ j = i + 1) ∨ (mid = [.lagged] ∧ i + 1 < j) := by
  obtain ⟨⟨e, lp⟩, _, h2⟩ := scan_append_some h
  have h3 := scan_value_cons h2
  rcases scan_lags_then_value hmid h3 with ⟨h4, h5⟩ | ⟨h4, _, h5⟩
  · exact Or.inl ⟨h4, by simpa using h5⟩
  · exact Or.inr ⟨h4, h5⟩

/-- accepted ⇒ everything after a `Lagged` is newer than everything before it, with a real gap -/
theorem scan_accepts_lag_newer {st r : Nat × Bool} {pre post : List Msg}
    (h : scan st (pre ++ .lagged :: post) = some r) :
    ∀ i ∈ values pre, ∀ j ∈ values post, i + 1 < j := by
  obtain ⟨⟨e, lp⟩, h1, h2⟩ := scan_append_some h
  intro i hi j hj
  have hb1 := (scan_values_bounds h1 i hi).2
  cases lp with
  | true => simp [scan] at h2
  | false =>
    simp only [scan] at h2
    have hb2 := (scan_values_bounds h2 j hj).1
    simp at hb1 hb2; omega

/-- accepted ⇒ never two `Lagged` in a row -/
theorem scan_accepts_no_double_lag {st r : Nat × Bool} {pre post : List Msg} :
    scan st (pre ++ .lagged :: .lagged :: post) ≠ some r := by
  intro h
  obtain ⟨⟨e, lp⟩, _, h2⟩ := scan_append_some h
  cases lp <;> simp [scan] at h2

/-! ### the property on the model -/

/-- (order, no duplicates) The values a subscriber receives are strictly increasing in broadcast index. -/
theorem values_strictly_increasing {s : State} (hr : Reachable s) {sb : Sub} (hsb : sb ∈ s.subs) :
    (values sb.recvd).Pairwise (· < ·) := by
  obtain ⟨r, h⟩ := (inv_reachable hr sb hsb).recvdOk
  exact scan_values_increasing h

/-- Only values broadcast after the subscription are received: every received index lies in `[start, n)`. -/
theorem values_were_broadcast {s : State} (hr : Reachable s) {sb : Sub} (hsb : sb ∈ s.subs) :
    ∀ v ∈ values sb.recvd, sb.start ≤ v ∧ v < s.n := by
  intro v hv
  have inv := inv_reachable hr sb hsb
  obtain ⟨r, h⟩ := inv.recvdOk
  have hb := scan_values_bounds h v hv
  have := inv.recvdLe r h
  exact ⟨by simpa using hb.1, by omega⟩

/-- (lag marker at every gap, exactly once) Between two consecutively received values there is nothing if
their indices are adjacent, and exactly one `Lagged` if they are not. -/
theorem gap_marked_exactly_once {s : State} (hr : Reachable s) {sb : Sub} (hsb : sb ∈ s.subs)
    {pre mid post : List Msg} {i j : Nat}
    (hsplit : sb.recvd = pre ++ .value i :: (mid ++ .value j :: post)) (hmid : values mid = []) :
    (mid = [] ∧ j = i + 1) ∨ (mid = [.lagged] ∧ i + 1 < j) := by
  obtain ⟨r, h⟩ := (inv_reachable hr sb hsb).recvdOk
  rw [hsplit] at h
  exact scan_accepts_gap h hmid

/-- The same for the first received value relative to the subscription point: the first value is the first
one broadcast after `subscribe`, or it is preceded by exactly one `Lagged` and newer. -/
theorem first_value_or_lag {s : State} (hr : Reachable s) {sb : Sub} (hsb : sb ∈ s.subs)
    {mid post : List Msg} {j : Nat}
    (hsplit : sb.recvd = mid ++ .value j :: post) (hmid : values mid = []) :
    (mid = [] ∧ j = sb.start) ∨ (mid = [.lagged] ∧ sb.start < j) := by
  obtain ⟨r, h⟩ := (inv_reachable hr sb hsb).recvdOk
  rw [hsplit] at h
  rcases scan_lags_then_value hmid h with ⟨h4, h5⟩ | ⟨h4, _, h5⟩
  · exact Or.inl ⟨h4, by simpa using h5⟩
  · exact Or.inr ⟨h4, h5⟩

/-- A `Lagged` is never followed by an older value: everything received after it is newer than everything
received before it, and at least one index in between was skipped (no spurious marker). -/
theorem lagged_never_followed_by_older {s : State} (hr : Reachable s) {sb : Sub} (hsb : sb ∈ s.subs)
    {pre post : List Msg} (hsplit : sb.recvd = pre ++ .lagged :: post) :
    ∀ i ∈ values pre, ∀ j ∈ values post, i + 1 < j := by
  obtain ⟨r, h⟩ := (inv_reachable hr sb hsb).recvdOk
  rw [hsplit] at h
  exact scan_accepts_lag_newer h

/-- Never two `Lagged` in a row (one marker per gap). -/
theorem lagged_never_twice {s : State} (hr : Reachable s) {sb : Sub} (hsb : sb ∈ s.subs)
    {pre post : List Msg} : sb.recvd ≠ pre ++ .lagged :: .lagged :: post := by
  intro hsplit
  obtain ⟨r, h⟩ := (inv_reachable hr sb hsb).recvdOk
  rw [hsplit] at h
  exact scan_accepts_no_double_lag h

/-- `everFull` (ghost) is raised only by a `send` that finds the subscriber's queue full. -/
theorem everFull_only_when_full (n : Nat) (sb : Sub) (h0 : sb.everFull = false)
    (h1 : (sendOne n sb).everFull = true) : sb.cap ≤ sb.queue.length := by
  unfold sendOne at h1
  by_cases hq : sb.mode = .inReadyQueue
  · simp only [hq, if_true] at h1
    split at h1 <;> (try split at h1) <;> simp_all <;> omega
  · simp only [hq, if_false] at h1
    split at h1
    · split at h1 <;> (try split at h1) <;> simp_all <;> omega
    · simp_all

/-- (a subscriber that keeps up receives every value) If no `send` ever found the subscriber's queue full,
then what it has received plus what is queued for it is exactly every value broadcast since it subscribed. -/
theorem keeps_up_receives_everything {s : State} (hr : Reachable s) {sb : Sub} (hsb : sb ∈ s.subs)
    (ha : sb.alive = true) (hf : sb.everFull = false) :
    sb.recvd ++ sb.queue = (List.range' sb.start (s.n - sb.start)).map Msg.value := by
  have inv := inv_reachable hr sb hsb
  obtain ⟨e, lp, hs, hm, _⟩ := inv.live ha
  obtain ⟨hno, hmode⟩ := inv.noLag hf
  obtain ⟨h1, _, h3⟩ := scan_no_lag hno hs
  simp only at h1
  subst h1
  have : e = s.n := by
    rcases hmode with hmode | hmode <;> simp only [hmode, modeOK] at hm
    · exact hm.2
    · rcases hm with ⟨_, h⟩ | ⟨h, _⟩
      · exact h
      · simp at h
  subst this
  exact h3

/-- … in particular once it has drained its queue it has received all of them, in order. -/
theorem keeps_up_received_all {s : State} (hr : Reachable s) {sb : Sub} (hsb : sb ∈ s.subs)
    (ha : sb.alive = true) (hf : sb.everFull = false) (hq : sb.queue = []) :
    sb.recvd = (List.range' sb.start (s.n - sb.start)).map Msg.value := by
  simpa [hq] using keeps_up_receives_everything hr hsb ha hf

/-- (the marker does arrive) In a quiescent state a live subscriber with an empty queue has either received
everything up to the last broadcast, or the last thing it received is the `Lagged` that stands for the
values it missed (so no gap is left unannounced). -/
theorem lag_delivered_at_quiescence {s : State} (hr : Reachable s) (hq : Quiescent s) {j : Nat} {sb : Sub}
    (hj : s.subs[j]? = some sb) (ha : sb.alive = true) (hempty : sb.queue = []) :
    ∃ e lp, scan (sb.start, false) sb.recvd = some (e, lp) ∧
      ((lp = false ∧ e = s.n) ∨ (lp = true ∧ e < s.n)) := by
  have inv := inv_reachable hr sb (List.mem_of_getElem? hj)
  obtain ⟨e, lp, hs, hm, _⟩ := inv.live ha
  refine ⟨e, lp, by simpa [hempty] using hs, ?_⟩
  have hcap := inv.capPos
  cases hmode : sb.mode with
  | ready => simp only [hmode, modeOK] at hm; exact Or.inl hm
  | gone => simpa only [hmode, modeOK] using hm
  | inReadyQueue => simp only [hmode, modeOK] at hm; exact Or.inr hm
  | needPermit => simp only [hmode, modeOK] at hm; exact Or.inr hm
  | needLag =>
    -- not quiescent: the parking task can queue its marker
    have := hq (.parkSendLag j) rfl
    simp [step, updSub, hj, parkLag, hmode, ha, hempty, hcap] at this

/-- `send` never blocks: it is one atomic label, enabled whenever a sender exists, whatever the
subscribers' states are (no waiting for a slow, parked or dropped subscriber). -/
theorem send_never_blocks (s : State) (h : s.senderAlive = true) : ∃ s', step s .send = some s' := by
  simp [step, h]

/-- (slow or failed subscribers do not affect the others) Everything subscriber `j` has, has received and
can still receive is determined by the labels that concern `j` alone: erasing all consume / parking /
drop steps of the *other* subscribers from a run changes nothing for `j`. -/
theorem other_subscribers_unaffected (j : Nat) (ls : List Label) :
    (run init ls).subs[j]? = (run init (ls.filter (Label.concerns j))).subs[j]? := by
  have := view_run_filter j ls (s := init) (t := init) rfl
  simp only [view, View.mk.injEq] at this
  exact this.1

/-- `Closed` is only ever reported after the last sender was dropped (and the queue was drained). -/
theorem closed_only_after_sender_dropped {s : State} (hr : Reachable s) {sb : Sub} (hsb : sb ∈ s.subs)
    (ha : sb.alive = true) (hc : sb.sawClosed = true) : s.senderAlive = false := by
  have inv := inv_reachable hr sb hsb
  exact inv.goneAlive ha (inv.closedGone (inv.sawClosed hc))

/-! ### non-vacuity: concrete runs -/

/-- buffer 1, three sends without consuming: values 1 and 2 are skipped, the marker is queued once the
subscriber makes room, re-admission needs a second free slot, then value 3 is delivered -/
def exRun : List Label :=
  [.subscribe 1, .send, .send, .send, .consume 0, .parkSendLag 0, .consume 0, .parkGotPermit 0, .send, .consume 0]

example : (run init exRun).subs.map (·.recvd) = [[.value 0, .lagged, .value 3]] := by decide
example : (run init exRun).subs.map (·.everFull) = [true] := by decide
example : Reachable (run init exRun) := ⟨exRun, rfl⟩
/-- the marker cannot be queued while the queue is still full -/
example : step (run init [.subscribe 1, .send, .send]) (.parkSendLag 0) = none := by decide
/-- re-admission cannot happen before there is room for the next value -/
example : step (run init [.subscribe 1, .send, .send, .consume 0, .parkSendLag 0]) (.parkGotPermit 0) = none := by decide
/-- a subscriber that keeps up, next to a slow one -/
example : (run init [.subscribe 1, .subscribe 2, .send, .consume 1, .send, .send, .consume 1, .consume 1]).subs.map
    (fun sb => (sb.recvd, sb.everFull)) = [([], true), ([.value 0, .value 1, .value 2], false)] := by decide
/-- quiescent state with an announced gap at the end -/
example : (run init [.subscribe 1, .send, .send, .consume 0, .parkSendLag 0, .consume 0, .parkGotPermit 0]).subs.map
    (fun sb => (sb.recvd, sb.queue, sb.mode)) = [([.value 0, .lagged], [], .inReadyQueue)] := by decide
/-- sender dropped while a subscriber is parked: it still gets its marker, then `Closed` -/
example : (run init [.subscribe 1, .send, .send, .dropSender, .consume 0, .parkSendLag 0, .consume 0,
    .parkGotPermit 0, .finishClose 0, .consume 0]).subs.map (fun sb => (sb.recvd, sb.sawClosed)) =
    [([.value 0, .lagged], true)] := by decide

end Remoc.Bcast
