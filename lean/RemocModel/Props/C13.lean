import RemocModel.Robs.Vec
import RemocModel.Robs.VecDeque
import RemocModel.Robs.HashMap
import RemocModel.Robs.HashSet
import RemocModel.Robs.List

/-!
# C13 — a mirror of an observable collection equals the collection

Property theorems about M_robs.  Vocabulary (defined in `Robs/Basic.lean`, `Robs/Generic.lean`):

* `S.after init ops`  — the observable collection (contents + done flag) after the API calls `ops`
  (`Call.op o` = one call of the collection's own mutating API, `Call.done` = `done()`);
* `S.consume var M init ops k mode ies` — the consumer of the subscription that was taken after the first
  `k` calls (`mode`: `subscribe` / `subscribe_incremental`; `ies`: the element stream of the incremental
  mode), after it has processed the initial value and every event sent by the remaining calls
  `ops.drop k`.  `var` selects the consumer: `.pinned` = the task spawned by `mirror(M)` as coded,
  `.fixed` = that task with the repair of finding F13, `.hand` = a caller folding the results of
  `recv()` himself with the same `handle_event` semantics;
* `S.Bounded M o ops` — the size limit `M` passed to `mirror` is never exceeded by the collection
  (what happens otherwise is property C14).

All statements are unbounded: every initial content, every list of calls over the full mutating API,
every subscription point `k`, both modes, every admissible element order for the hash containers.

## Findings (the code as pinned violates the property in two places)

* **F4** `ObservableHashMap::retain` hands `&mut V` to the predicate and reports removals only; a
  predicate that writes to a value it keeps changes the map without any event.  `mirror_eq_hashmap_partial`
  therefore assumes `AllGood` (no such predicate); `f4_retain_mutation_diverges` is the kernel-checked
  counterexample.
* **F13** (repaired in /repo by be944ac; the current tree is variant `.fixed`, the description is of
  the code before the repair = variant `.pinned`) the mirror task of the four broadcast based collections started with
  `done: self.is_done()` and leaves its loop as soon as `inner.done` holds after an event.  For an
  *incremental* subscription taken *after* `done()` this is the case after the very first element: the
  mirror keeps one element, `complete` stays false, no error is reported.  The theorems for the task as
  coded (`*_pinned_partial`) exclude exactly this case; `f13_incremental_after_done_diverges` is the
  kernel-checked counterexample; the unrestricted theorems `mirror_eq_*` hold for the repaired task
  (`if inner.done && inner.complete { break }`) and for consumption by hand.
  The list is not affected (its mirror starts with `done: false`): `mirror_eq_list` is about the code as is.
* **F14** (new, outside the model: found by the predicate check on subscriptions obtained from mirrors) the
  mirror task forwards every event to the mirror's own subscribers, including `InitialComplete`, which is
  `#[serde(skip)]`; a remote subscriber of a mirror that has not yet completed its incremental initial
  value is therefore closed with `RecvError::Closed`.  The theorems model a subscription to a mirror as a
  subscription to the mirror's contents at that moment followed by the events it forwards; the
  serialization failure is not part of the model.
-/

namespace Remoc.Robs

/-! ## vector -/

/-- Full statement for the vector, repaired mirror task or consumption by hand
(`var ≠ .pinned`). -/
theorem mirror_eq_vec (var : Variant) (hvar : var ≠ .pinned) (init : List Nat) (ops : List (Call Vec.Op))
    (k : Nat) (mode : Mode) (M : Nat)
    (hB : Vec.sys.Bounded M (Vec.sys.after ⟨init, false⟩ (ops.take k)) (ops.drop k)) :
    (Vec.sys.consume var M ⟨init, false⟩ ops k mode
        ((Vec.sys.after ⟨init, false⟩ (ops.take k)).v.map Vec.Ev.push)).m.v
      = (Vec.sys.after ⟨init, false⟩ ops).v ∧
    (Vec.sys.consume var M ⟨init, false⟩ ops k mode
        ((Vec.sys.after ⟨init, false⟩ (ops.take k)).v.map Vec.Ev.push)).m.error = none ∧
    (Vec.sys.consume var M ⟨init, false⟩ ops k mode
        ((Vec.sys.after ⟨init, false⟩ (ops.take k)).v.map Vec.Ev.push)).m.complete = true := by
  have h := Sys.consume_eq Vec.lawful var M ⟨init, false⟩ ops k mode _ trivial (fun _ => rfl) hB
    (fun _ _ => trivial) (fun hv => absurd hv hvar)
  exact ⟨h.1, h.2.2.1, h.2.2.2⟩

/-- The mirror task of the vector **as coded**: holds unless the subscription is incremental and was
taken after `done()` (finding F13). -/
theorem mirror_eq_vec_pinned_partial (init : List Nat) (ops : List (Call Vec.Op))
    (k : Nat) (mode : Mode) (M : Nat)
    (hB : Vec.sys.Bounded M (Vec.sys.after ⟨init, false⟩ (ops.take k)) (ops.drop k))
    (hF13 : ¬ (mode = .incremental ∧ (Vec.sys.after ⟨init, false⟩ (ops.take k)).done = true)) :
    (Vec.sys.consume .pinned M ⟨init, false⟩ ops k mode
        ((Vec.sys.after ⟨init, false⟩ (ops.take k)).v.map Vec.Ev.push)).m.v
      = (Vec.sys.after ⟨init, false⟩ ops).v ∧
    (Vec.sys.consume .pinned M ⟨init, false⟩ ops k mode
        ((Vec.sys.after ⟨init, false⟩ (ops.take k)).v.map Vec.Ev.push)).m.error = none ∧
    (Vec.sys.consume .pinned M ⟨init, false⟩ ops k mode
        ((Vec.sys.after ⟨init, false⟩ (ops.take k)).v.map Vec.Ev.push)).m.complete = true := by
  have h := Sys.consume_eq Vec.lawful .pinned M ⟨init, false⟩ ops k mode _ trivial (fun _ => rfl) hB
    (fun _ _ => trivial) (fun _ hm hd => absurd ⟨hm, hd⟩ hF13)
  exact ⟨h.1, h.2.2.1, h.2.2.2⟩

/-! ## deque -/

theorem mirror_eq_vecdeque (var : Variant) (hvar : var ≠ .pinned) (init : List Nat) (ops : List (Call VecDeque.Op))
    (k : Nat) (mode : Mode) (M : Nat)
    (hB : VecDeque.sys.Bounded M (VecDeque.sys.after ⟨init, false⟩ (ops.take k)) (ops.drop k)) :
    (VecDeque.sys.consume var M ⟨init, false⟩ ops k mode
        ((VecDeque.sys.after ⟨init, false⟩ (ops.take k)).v.map VecDeque.Ev.pushBack)).m.v
      = (VecDeque.sys.after ⟨init, false⟩ ops).v ∧
    (VecDeque.sys.consume var M ⟨init, false⟩ ops k mode
        ((VecDeque.sys.after ⟨init, false⟩ (ops.take k)).v.map VecDeque.Ev.pushBack)).m.error = none ∧
    (VecDeque.sys.consume var M ⟨init, false⟩ ops k mode
        ((VecDeque.sys.after ⟨init, false⟩ (ops.take k)).v.map VecDeque.Ev.pushBack)).m.complete = true := by
  have h := Sys.consume_eq VecDeque.lawful var M ⟨init, false⟩ ops k mode _ trivial (fun _ => rfl) hB
    (fun _ _ => trivial) (fun hv => absurd hv hvar)
  exact ⟨h.1, h.2.2.1, h.2.2.2⟩

theorem mirror_eq_vecdeque_pinned_partial (init : List Nat) (ops : List (Call VecDeque.Op))
    (k : Nat) (mode : Mode) (M : Nat)
    (hB : VecDeque.sys.Bounded M (VecDeque.sys.after ⟨init, false⟩ (ops.take k)) (ops.drop k))
    (hF13 : ¬ (mode = .incremental ∧ (VecDeque.sys.after ⟨init, false⟩ (ops.take k)).done = true)) :
    (VecDeque.sys.consume .pinned M ⟨init, false⟩ ops k mode
        ((VecDeque.sys.after ⟨init, false⟩ (ops.take k)).v.map VecDeque.Ev.pushBack)).m.v
      = (VecDeque.sys.after ⟨init, false⟩ ops).v ∧
    (VecDeque.sys.consume .pinned M ⟨init, false⟩ ops k mode
        ((VecDeque.sys.after ⟨init, false⟩ (ops.take k)).v.map VecDeque.Ev.pushBack)).m.error = none ∧
    (VecDeque.sys.consume .pinned M ⟨init, false⟩ ops k mode
        ((VecDeque.sys.after ⟨init, false⟩ (ops.take k)).v.map VecDeque.Ev.pushBack)).m.complete = true := by
  have h := Sys.consume_eq VecDeque.lawful .pinned M ⟨init, false⟩ ops k mode _ trivial (fun _ => rfl) hB
    (fun _ _ => trivial) (fun _ hm hd => absurd ⟨hm, hd⟩ hF13)
  exact ⟨h.1, h.2.2.1, h.2.2.2⟩

/-! ## hash map -/

/-
Full statement (false on the pinned tree, finding F4): as below without `hG`.
-/
/-- Hash map, any consumer: the initial map is built from any list of pairs; in incremental mode the
elements may arrive in any order `p`.  Missing for the full statement: calls of `retain` whose predicate
writes to a value it keeps (`hG`, finding F4); for the task as coded additionally the F13 case. -/
theorem mirror_eq_hashmap_partial (var : Variant) (init : List (Nat × Nat)) (ops : List (Call HashMap.Op))
    (k : Nat) (mode : Mode) (M : Nat) (p : List (Nat × Nat))
    (hp : p.Perm (HashMap.sys.after ⟨aofList init, false⟩ (ops.take k)).v)
    (hB : HashMap.sys.Bounded M (HashMap.sys.after ⟨aofList init, false⟩ (ops.take k)) (ops.drop k))
    (hG : HashMap.sys.AllGood (ops.drop k))
    (hF13 : var = .pinned →
      ¬ (mode = .incremental ∧ (HashMap.sys.after ⟨aofList init, false⟩ (ops.take k)).done = true)) :
    (HashMap.sys.consume var M ⟨aofList init, false⟩ ops k mode (p.map (fun kv => HashMap.Ev.set kv.1 kv.2))).m.v
      = (HashMap.sys.after ⟨aofList init, false⟩ ops).v ∧
    (HashMap.sys.consume var M ⟨aofList init, false⟩ ops k mode (p.map (fun kv => HashMap.Ev.set kv.1 kv.2))).m.error
      = none ∧
    (HashMap.sys.consume var M ⟨aofList init, false⟩ ops k mode (p.map (fun kv => HashMap.Ev.set kv.1 kv.2))).m.complete
      = true := by
  have h := Sys.consume_eq HashMap.lawful var M ⟨aofList init, false⟩ ops k mode _ (aofList_sorted init)
    (fun _ => ⟨p, hp, rfl⟩) hB hG (fun hv hm hd => absurd ⟨hm, hd⟩ (hF13 hv))
  exact ⟨h.1, h.2.2.1, h.2.2.2⟩

/-- **Finding F4, kernel-checked.**  Map `{1 ↦ 1}`, subscription (snapshot) taken at the start, then
`retain(|_, v| { *v = 2; true })`: the map is `{1 ↦ 2}`, no event was sent, the mirror still shows
`{1 ↦ 1}` without any error. -/
theorem f4_retain_mutation_diverges :
    let ops : List (Call HashMap.Op) := [.op (.retain [(1, some 2, true)])]
    (HashMap.sys.after ⟨[(1, 1)], false⟩ ops).v = [(1, 2)] ∧
    HashMap.sys.laterEvents ⟨[(1, 1)], false⟩ ops 0 = [] ∧
    (HashMap.sys.consume .pinned 100 ⟨[(1, 1)], false⟩ ops 0 .snapshot []).m.v = [(1, 1)] ∧
    (HashMap.sys.consume .pinned 100 ⟨[(1, 1)], false⟩ ops 0 .snapshot []).m.error = none :=
  ⟨rfl, rfl, rfl, rfl⟩

/-! ## hash set -/

theorem mirror_eq_hashset (var : Variant) (hvar : var ≠ .pinned) (init : List Nat) (ops : List (Call HashSet.Op))
    (k : Nat) (mode : Mode) (M : Nat) (p : List (Nat × Unit))
    (hp : p.Perm (HashSet.sys.after ⟨HashSet.ofList init, false⟩ (ops.take k)).v)
    (hB : HashSet.sys.Bounded M (HashSet.sys.after ⟨HashSet.ofList init, false⟩ (ops.take k)) (ops.drop k)) :
    (HashSet.sys.consume var M ⟨HashSet.ofList init, false⟩ ops k mode (p.map (fun kv => HashSet.Ev.set kv.1))).m.v
      = (HashSet.sys.after ⟨HashSet.ofList init, false⟩ ops).v ∧
    (HashSet.sys.consume var M ⟨HashSet.ofList init, false⟩ ops k mode (p.map (fun kv => HashSet.Ev.set kv.1))).m.error
      = none ∧
    (HashSet.sys.consume var M ⟨HashSet.ofList init, false⟩ ops k mode (p.map (fun kv => HashSet.Ev.set kv.1))).m.complete
      = true := by
  have h := Sys.consume_eq HashSet.lawful var M ⟨HashSet.ofList init, false⟩ ops k mode _ (aofList_sorted _)
    (fun _ => ⟨p, hp, rfl⟩) hB (fun _ _ => trivial) (fun hv => absurd hv hvar)
  exact ⟨h.1, h.2.2.1, h.2.2.2⟩

theorem mirror_eq_hashset_pinned_partial (init : List Nat) (ops : List (Call HashSet.Op))
    (k : Nat) (mode : Mode) (M : Nat) (p : List (Nat × Unit))
    (hp : p.Perm (HashSet.sys.after ⟨HashSet.ofList init, false⟩ (ops.take k)).v)
    (hB : HashSet.sys.Bounded M (HashSet.sys.after ⟨HashSet.ofList init, false⟩ (ops.take k)) (ops.drop k))
    (hF13 : ¬ (mode = .incremental ∧ (HashSet.sys.after ⟨HashSet.ofList init, false⟩ (ops.take k)).done = true)) :
    (HashSet.sys.consume .pinned M ⟨HashSet.ofList init, false⟩ ops k mode (p.map (fun kv => HashSet.Ev.set kv.1))).m.v
      = (HashSet.sys.after ⟨HashSet.ofList init, false⟩ ops).v ∧
    (HashSet.sys.consume .pinned M ⟨HashSet.ofList init, false⟩ ops k mode (p.map (fun kv => HashSet.Ev.set kv.1))).m.error
      = none ∧
    (HashSet.sys.consume .pinned M ⟨HashSet.ofList init, false⟩ ops k mode (p.map (fun kv => HashSet.Ev.set kv.1))).m.complete
      = true := by
  have h := Sys.consume_eq HashSet.lawful .pinned M ⟨HashSet.ofList init, false⟩ ops k mode _ (aofList_sorted _)
    (fun _ => ⟨p, hp, rfl⟩) hB (fun _ _ => trivial) (fun _ hm hd => absurd ⟨hm, hd⟩ hF13)
  exact ⟨h.1, h.2.2.1, h.2.2.2⟩

/-! ## append-only list (the code as is; subscriptions are always incremental) -/

theorem mirror_eq_list (var : Variant) (init : List Nat) (ops : List (Call OList.Op)) (k : Nat) (M : Nat)
    (hB : OList.sys.Bounded M (OList.sys.after ⟨init, false⟩ (ops.take k)) (ops.drop k)) :
    (OList.sys.consume var M ⟨init, false⟩ ops k .incremental
        ((OList.sys.after ⟨init, false⟩ (ops.take k)).v.map OList.Ev.push)).m.v
      = (OList.sys.after ⟨init, false⟩ ops).v ∧
    (OList.sys.consume var M ⟨init, false⟩ ops k .incremental
        ((OList.sys.after ⟨init, false⟩ (ops.take k)).v.map OList.Ev.push)).m.error = none ∧
    (OList.sys.consume var M ⟨init, false⟩ ops k .incremental
        ((OList.sys.after ⟨init, false⟩ (ops.take k)).v.map OList.Ev.push)).m.complete = true := by
  have h := Sys.consume_eq OList.lawful var M ⟨init, false⟩ ops k .incremental _ trivial (fun _ => rfl) hB
    (fun _ _ => trivial) (fun _ _ _ => rfl)
  exact ⟨h.1, h.2.2.1, h.2.2.2⟩

/-! ## completion is reported iff the collection was marked done; consumption by hand -/

/-- For each of the five collections (`S` lawful: `Vec.lawful`, `VecDeque.lawful`, `HashMap.lawful`,
`HashSet.lawful`, `OList.lawful`) and every consumer: after everything has been processed, the
consumer's `done` flag (`MirroredXRef::is_done`, resp. having received `Done` by hand) is set iff
`done()` was called on the collection.  Same hypotheses as the `mirror_eq` theorems. -/
theorem done_iff_done (S : Sys) (hL : S.Lawful) (var : Variant) (M : Nat) (init : Obs S.C)
    (ops : List (Call S.Op)) (k : Nat) (mode : Mode) (ies : List S.Ev)
    (hwf : S.wf init.v)
    (hincr : mode = .incremental → S.incr (S.after init (ops.take k)).v ies)
    (hB : S.Bounded M (S.after init (ops.take k)) (ops.drop k))
    (hG : S.AllGood (ops.drop k))
    (hF13 : var = .pinned → mode = .incremental → (S.after init (ops.take k)).done = true → S.inheritDone = false) :
    ((S.consume var M init ops k mode ies).m.done = true ↔ (S.after init ops).done = true) := by
  rw [(Sys.consume_eq hL var M init ops k mode ies hwf hincr hB hG hF13).2.1]

/-- The collection is done after the calls iff `done()` is among them (so `done_iff_done` is about the
API call, not only about a flag of the model). -/
theorem after_done_iff (S : Sys) (v : S.C) (ops : List (Call S.Op)) :
    (S.after ⟨v, false⟩ ops).done = true ↔ Call.done ∈ ops := by
  have key : ∀ (ops : List (Call S.Op)) (o : Obs S.C),
      (S.after o ops).done = true ↔ (o.done = true ∨ Call.done ∈ ops) := by
    intro ops
    induction ops with
    | nil => intro o; simp [Sys.after, Sys.run_nil]
    | cons c cs ih =>
      intro o
      have h1 : S.after o (c :: cs) = S.after (S.step o c).1 cs := rfl
      rw [h1, ih]
      cases c with
      | op c => cases hd : o.done <;> simp [Sys.step, hd]
      | done => cases hd : o.done <;> simp [Sys.step, hd]
  simpa using key ops ⟨v, false⟩

/-- **Consuming the event stream by hand leads to the same contents**: taking the initial value
(`take_initial()`, or nothing in incremental mode) and applying every `recv()` result up to `Ok(None)`
gives exactly the collection's contents, for each of the five collections.  No F13 restriction: the
early exit is a property of the mirror task only. -/
theorem manual_consumption_eq (S : Sys) (hL : S.Lawful) (M : Nat) (init : Obs S.C)
    (ops : List (Call S.Op)) (k : Nat) (mode : Mode) (ies : List S.Ev)
    (hwf : S.wf init.v)
    (hincr : mode = .incremental → S.incr (S.after init (ops.take k)).v ies)
    (hB : S.Bounded M (S.after init (ops.take k)) (ops.drop k))
    (hG : S.AllGood (ops.drop k)) :
    (S.consume .hand M init ops k mode ies).m.v = (S.after init ops).v ∧
    ((S.consume .hand M init ops k mode ies).m.done = true ↔ (S.after init ops).done = true) := by
  have h := Sys.consume_eq hL .hand M init ops k mode ies hwf hincr hB hG (fun hv => by cases hv)
  exact ⟨h.1, by rw [h.2.1]⟩

/-- **Finding F13, kernel-checked.**  Vector `[1, 2]`, `done()`, then `subscribe_incremental` and
`mirror`: the task as coded stops after the first element — contents `[1]`, `complete = false`,
`done = true`, no error — while the collection holds `[1, 2]`. -/
theorem f13_incremental_after_done_diverges :
    let ops : List (Call Vec.Op) := [.done]
    (Vec.sys.after ⟨[1, 2], false⟩ ops).v = [1, 2] ∧
    (Vec.sys.consume .pinned 100 ⟨[1, 2], false⟩ ops 1 .incremental [.push 1, .push 2]).m.v = [1] ∧
    (Vec.sys.consume .pinned 100 ⟨[1, 2], false⟩ ops 1 .incremental [.push 1, .push 2]).m.complete = false ∧
    (Vec.sys.consume .pinned 100 ⟨[1, 2], false⟩ ops 1 .incremental [.push 1, .push 2]).m.done = true ∧
    (Vec.sys.consume .pinned 100 ⟨[1, 2], false⟩ ops 1 .incremental [.push 1, .push 2]).m.error = none ∧
    (Vec.sys.consume .fixed 100 ⟨[1, 2], false⟩ ops 1 .incremental [.push 1, .push 2]).m.v = [1, 2] :=
  ⟨rfl, rfl, rfl, rfl, rfl, rfl⟩

/-! ## non-vacuity: concrete runs that satisfy the hypotheses -/

/-- a vector scenario with retain, swap_remove, iter_mut, a subscription in the middle -/
def exVecOps : List (Call Vec.Op) :=
  [.op (.push 7), .op (.extend [1, 2, 3, 4]), .op (.retain [true, false, false, true, false]),
   .op (.iterMut [(1, 9), (0, 8)]), .op (.swapRemove 0), .op (.insert 1 5), .op (.resize 4 0), .op .shrinkToFit,
   .done, .op (.push 1)]

example : (Vec.sys.after ⟨[], false⟩ exVecOps).v = [9, 5, 0, 0] := rfl
example : Vec.sys.laterEvents ⟨[], false⟩ exVecOps 2 =
    [.change (.retain [0, 3]), .change (.set 1 9), .change (.set 0 8), .change (.swapRemove 0),
     .change (.insert 1 5), .change (.resize 4 0), .change .shrinkToFit, .done] := rfl
example : Vec.sys.Bounded 5 (Vec.sys.after ⟨[], false⟩ (exVecOps.take 2)) (exVecOps.drop 2) := by
  decide
example : (Vec.sys.consume .pinned 5 ⟨[], false⟩ exVecOps 2 .incremental
    ((Vec.sys.after ⟨[], false⟩ (exVecOps.take 2)).v.map Vec.Ev.push)).m
    = { v := [9, 5, 0, 0], complete := true, done := true, error := none, maxSize := 5 } := rfl

/-- a hash map scenario with entry API, retain (non-mutating), iter_mut, incremental order reversed -/
def exMapOps : List (Call HashMap.Op) :=
  [.op (.insert 3 30), .op (.entryOrInsert 1 10 (some 11)), .op (.entryAndModify 3 31 none),
   .op (.retain [(3, none, true), (1, none, false)]), .op (.iterMut [(3, 32)]), .op (.extend [(2, 20), (3, 33)]), .done]

example : (HashMap.sys.after ⟨aofList [(5, 50)], false⟩ exMapOps).v = [(2, 20), (3, 33), (5, 50)] := rfl
example : HashMap.sys.AllGood (exMapOps.drop 2) := by
  intro o ho
  simp [exMapOps] at ho
  rcases ho with rfl | rfl | rfl | rfl <;> simp [HashMap.good]
example : (HashMap.sys.consume .pinned 4 ⟨aofList [(5, 50)], false⟩ exMapOps 2 .incremental
    ([(5, 50), (3, 30), (1, 11)].map (fun kv => HashMap.Ev.set kv.1 kv.2))).m
    = { v := [(2, 20), (3, 33), (5, 50)], complete := true, done := true, error := none, maxSize := 4 } := rfl

end Remoc.Robs
