import RemocModel.Robs.ErrorsInv
import RemocModel.Robs.ListDispatch
import RemocModel.Robs.Vec
import RemocModel.Robs.VecDeque
import RemocModel.Robs.HashMap
import RemocModel.Robs.HashSet

/-!
# C14 — mirrors and subscriptions never diverge silently

Property theorems about the fault models of M_robs:

* `MSt` (`Robs/Errors.lean`): one subscriber of a broadcast based collection (vec, deque, hash map, hash
  set) with its bounded event queue (`send_buf`), shedding with a `Lagged` marker and re-arming as coded
  in `rch/broadcast/sender.rs`, drop of the collection, failure of the connection, and the mirror task
  consuming the queue.  A schedule is a `List (MLabel S)`: every rate of the subscriber relative to the
  collection, every buffer size, every point at which the collection is dropped or the connection cut.
* `DSt` (`Robs/ListDispatch.lean`): the dispatcher task of the append-only list with any number of
  subscribers joining at any time and bounded subscriber channels (back-pressure).

`prefixState S M c0 evs` is the contents obtained from `c0` by applying `evs` with `handle_event`; by the
laws proved for C13 (`Sys.Lawful.apply_ok`) these are exactly the contents the collection itself had after
sending those events (`prefixState_eq_feed` below), so "the mirror holds `prefixState … (hist.take n)`"
reads "the mirror holds the collection's contents after a prefix of its history".

## Finding F9
`MirroredVecInner/MirroredVecDequeInner::handle_event` compare the length with `max_size` only for
`Push*`; `Insert` and `Resize` grow the mirror beyond the limit without `MaxSizeExceeded`, and the
snapshot of a non-incremental subscription is not checked at all.  `size_limit_enforced_partial` therefore
is stated for collections whose every growing event is checked (hash map, hash set, list);
`f9_insert_exceeds_max_size` is the kernel-checked counterexample for the vector.
-/

namespace Remoc.Robs

variable {S : Sys}

/-- States reachable from a fresh subscription. -/
def MSt.Reachable (s : MSt S) : Prop :=
  ∃ c0 cap M ls, 0 < cap ∧ (MSt.init S c0 cap M).run ls = some s

theorem MSt.Reachable.inv {s : MSt S} (h : s.Reachable) : MInv s := by
  obtain ⟨c0, cap, M, ls, hc, hr⟩ := h
  exact (MInv.init c0 cap M hc).run ls hr

/-- The contents reached by applying accepted events are the ones `feed` (C13) computes: together with
`Sys.Lawful.apply_ok` this identifies `prefixState` with the collection's own contents. -/
theorem prefixState_eq_feed (M : Nat) (evs : List S.Ev) : ∀ (c c' : S.C), S.feed M c evs = (c', none) →
    prefixState S M c (evs.map Event.change) = c' := by
  induction evs with
  | nil => intro c c' h; simp [Sys.feed, feedWith] at h; simp [prefixState, h]
  | cons e es ih =>
    intro c c' h
    unfold Sys.feed feedWith at h
    split at h
    · rename_i c1 he
      have := ih c1 c' h
      simp only [prefixState, List.map_cons, List.foldl_cons, he] at this ⊢
      exact this
    · simp at h

/-- **Mirrors never diverge silently.**  In every state reachable by any schedule (any interleaving of
events sent, shedding and re-arming, drop of the collection, failure of the connection, and steps of the
mirror task; any buffer size):

1. the mirror's contents are the collection's contents after a prefix of its history
   (`applied` events), never a state that skips an event;
2. once an error is stored it stays, the contents no longer change (`detach` returns the last
   consistent state), whatever happens afterwards;
3. when nothing more can happen without the environment, a mirror without error has applied *every*
   event sent so far, and if the collection is gone it was marked done — so after lag (an event was shed),
   after a drop before `done()`, after a connection failure, or after an event that did not apply, the
   mirror cannot sit there with stale contents and no error. -/
theorem mirror_consistent_or_flagged (s : MSt S) (hr : s.Reachable) :
    (s.applied ≤ s.hist.length ∧
      s.task.m.v = prefixState S s.task.m.maxSize s.c0 (s.hist.take s.applied)) ∧
    (s.task.m.error ≠ none → ∀ ls s', s.run ls = some s' → s'.task = s.task) ∧
    (s.Quiescent → s.task.m.error = none →
      s.applied = s.hist.length ∧ (s.closed = true → s.task.m.done = true)) := by
  have hi := hr.inv
  refine ⟨⟨hi.le, hi.contents⟩, ?_, ?_⟩
  · intro he ls
    have hstop := hi.errStop he
    -- a stopped task is never touched again
    have key : ∀ (ls : List (MLabel S)) (a b : MSt S), a.task.running = false → a.run ls = some b → b.task = a.task := by
      intro ls
      induction ls with
      | nil => intro a b _ h; simp [MSt.run] at h; subst h; rfl
      | cons l ls ih =>
        intro a b hstop h
        simp only [MSt.run] at h
        cases hs : a.step l with
        | none => rw [hs] at h; cases h
        | some a1 =>
          rw [hs] at h
          have h1 : a1.task = a.task := by
            cases l <;> simp only [MSt.step] at hs
            · split at hs; · cases hs
              split at hs
              · split at hs <;> (cases hs; rfl)
              · cases hs; rfl
            · split at hs <;> cases hs; rfl
            · split at hs <;> cases hs; rfl
            · split at hs <;> cases hs; rfl
            · cases hs; rfl
            · simp [hstop] at hs
            · simp [hstop] at hs
          rw [← h1]
          exact ih a1 b (by rw [h1]; exact hstop) h
    intro s' h
    exact key ls s s' hstop h
  · intro hq he
    obtain ⟨hshed, hrearm, hcons, hcut⟩ := hq
    cases hrun : s.task.running with
    | false =>
      obtain ⟨h1, h2, _⟩ := hi.stopOk hrun he
      exact ⟨h2, fun _ => h1⟩
    | true =>
      obtain ⟨_, _, k, rest, hq, hk, hrest, ha, hb⟩ := hi.runQ hrun
      -- the task is blocked in recv: the queue is empty and the channel not closed
      have hqe : s.queue = [] := by
        simp only [MSt.step, hrun, if_true] at hcons
        cases hqq : s.queue with
        | nil => rfl
        | cons it q => rw [hqq] at hcons; cases it <;> simp at hcons
      have hrest' : rest = [] := by
        rw [hqe] at hq
        have := congrArg List.length hq
        simp at this
        exact List.eq_nil_of_length_eq_zero (by omega)
      have hmap : ((s.hist.drop s.applied).take k) = [] := by
        rw [hqe, hrest'] at hq
        simpa using hq.symm
      -- with an empty queue the Lagged marker could be delivered at once: so none is pending
      have hnolag : s.lagPending = false := by
        cases hl : s.lagPending with
        | false => rfl
        | true =>
          simp only [MSt.step, hl, hqe, List.length_nil, hi.capPos, decide_true, Bool.and_self, if_true] at hshed
          cases hshed
      have harmed : s.armed = true := by
        cases hA : s.armed with
        | true => rfl
        | false => have := hb hrest' hA; rw [hnolag] at this; cases this
      have hall := ha hrest' harmed
      have happ : s.applied = s.hist.length := by
        rcases Nat.eq_zero_or_pos k with hk0 | hkpos
        · omega
        · -- k > 0 but nothing taken: nothing left
          have : (s.hist.drop s.applied) = [] := by
            cases hd : s.hist.drop s.applied with
            | nil => rfl
            | cons h0 t => rw [hd] at hmap; cases k <;> simp at hmap hkpos
          have := congrArg List.length this
          simp at this; omega
      refine ⟨happ, fun hcl => ?_⟩
      -- closed, running, queue empty, no lag pending: `consume` would deliver Closed — not quiescent
      simp only [MSt.step, hrun, if_true, hqe, hcl, hnolag] at hcons
      simp at hcons

/-! ## the size limit -/

/-- Every event `handle_event` accepts keeps the mirror within `max_size` (or does not grow it). -/
def Sys.SizeChecked (S : Sys) : Prop :=
  ∀ M c e c', S.applyEv M c e = (c', none) → S.size c' ≤ max M (S.size c)

theorem HashMap.sizeChecked : HashMap.sys.SizeChecked := by
  intro M c e c' h
  cases e with
  | set k v =>
    simp only [HashMap.sys, HashMap.applyEv] at h
    split at h
    · simp at h
    · rename_i hlt
      simp at h; subst h
      show (ains k v c).length ≤ max M (List.length c)
      omega
  | remove k =>
    simp only [HashMap.sys, HashMap.applyEv] at h; simp at h; subst h
    show (adel k c).length ≤ max M (List.length c)
    have := List.length_filter_le (fun p : Nat × Nat => p.1 != k) c
    simp only [adel]; omega
  | clear => simp only [HashMap.sys, HashMap.applyEv] at h; simp at h; subst h; show (0 : Nat) ≤ max M (List.length c); omega
  | shrinkToFit => simp only [HashMap.sys, HashMap.applyEv] at h; simp at h; subst h; show List.length c ≤ max M (List.length c); omega

theorem HashSet.sizeChecked : HashSet.sys.SizeChecked := by
  intro M c e c' h
  cases e with
  | set x =>
    simp only [HashSet.sys, HashSet.applyEv] at h
    split at h
    · simp at h
    · rename_i hlt
      simp at h; subst h
      show (ains x () c).length ≤ max M (List.length c)
      omega
  | remove x =>
    simp only [HashSet.sys, HashSet.applyEv] at h; simp at h; subst h
    show (adel x c).length ≤ max M (List.length c)
    have := List.length_filter_le (fun p : Nat × Unit => p.1 != x) c
    simp only [adel]; omega
  | clear => simp only [HashSet.sys, HashSet.applyEv] at h; simp at h; subst h; show (0 : Nat) ≤ max M (List.length c); omega
  | shrinkToFit => simp only [HashSet.sys, HashSet.applyEv] at h; simp at h; subst h; show List.length c ≤ max M (List.length c); omega

theorem OList.sizeChecked : OList.sys.SizeChecked := by
  intro M c e c' h
  cases e with
  | push x =>
    simp only [OList.sys, OList.applyEv] at h
    split at h
    · simp at h
    · rename_i hlt
      simp at h; subst h
      show (c ++ [x]).length ≤ max M (List.length c)
      omega

/-- **The size limit is enforced** for all five collections (`Vec.sizeChecked`, `VecDeque.sizeChecked` below —
since the repair of the event part of finding F9 in /repo —, `HashMap.sizeChecked`, `HashSet.sizeChecked`,
`OList.sizeChecked`): starting from a snapshot within the limit, a mirror without error never holds more
than `max_size` elements.  *Partial*: the hypothesis `h0` is needed — a snapshot that exceeds the limit is
accepted unchecked by `mirror` (the remaining part of finding F9). -/
theorem size_limit_enforced_partial (hS : S.SizeChecked) (c0 : S.C) (cap M : Nat) (h0 : S.size c0 ≤ M)
    (ls : List (MLabel S)) (s : MSt S) (hr : (MSt.init S c0 cap M).run ls = some s) :
    s.task.m.error = none → S.size s.task.m.v ≤ M := by
  have key : ∀ (ls : List (MLabel S)) (a b : MSt S),
      (a.task.m.maxSize = M ∧ (a.task.m.error = none → S.size a.task.m.v ≤ M)) → a.run ls = some b →
      (b.task.m.maxSize = M ∧ (b.task.m.error = none → S.size b.task.m.v ≤ M)) := by
    intro ls
    induction ls with
    | nil => intro a b ha h; simp [MSt.run] at h; subst h; exact ha
    | cons l ls ih =>
      intro a b ha h
      simp only [MSt.run] at h
      cases hs : a.step l with
      | none => rw [hs] at h; cases h
      | some a1 =>
        rw [hs] at h
        refine ih a1 b ?_ h
        -- one step of the task
        have tstep : ∀ r, ((S.taskStep .pinned a.task r).m.maxSize = M ∧
            ((S.taskStep .pinned a.task r).m.error = none → S.size (S.taskStep .pinned a.task r).m.v ≤ M)) := by
          intro r
          refine ⟨by rw [taskStep_maxSize]; exact ha.1, ?_⟩
          unfold Sys.taskStep
          split
          · cases r with
            | ev e =>
              cases e with
              | change x =>
                simp only [Sys.handle]
                cases hx : (S.applyEv a.task.m.maxSize a.task.m.v x).2 with
                | none =>
                  simp only [hx]
                  intro he
                  have hpair : S.applyEv a.task.m.maxSize a.task.m.v x = ((S.applyEv a.task.m.maxSize a.task.m.v x).1, none) := by
                    rw [← hx]
                  have h3 : S.size (S.applyEv a.task.m.maxSize a.task.m.v x).1
                      ≤ max a.task.m.maxSize (S.size a.task.m.v) := hS _ _ _ _ hpair
                  have h2 := ha.2 he
                  have hM := ha.1
                  show S.size (S.applyEv a.task.m.maxSize a.task.m.v x).1 ≤ M
                  omega
                | some err => simp [hx]
              | done => simp only [Sys.handle]; intro he; exact ha.2 he
              | initialComplete => simp only [Sys.handle]; intro he; exact ha.2 he
            | err x => simp
            | eof => exact ha.2
          · exact ha.2
        cases l <;> simp only [MSt.step] at hs
        · split at hs; · cases hs
          split at hs
          · split at hs <;> (cases hs; exact ha)
          · cases hs; exact ha
        · split at hs <;> cases hs; exact ha
        · split at hs <;> cases hs; exact ha
        · split at hs <;> cases hs; exact ha
        · cases hs; exact ha
        · split at hs
          · split at hs
            · cases hs; exact tstep _
            · cases hs; exact tstep _
            · split at hs <;> cases hs; exact tstep _
          · cases hs
        · split at hs <;> cases hs; exact tstep _
  exact (key ls _ s ⟨rfl, fun _ => h0⟩ hr).2

theorem Vec.sizeChecked : Vec.sys.SizeChecked := by
  intro M c e c' h
  have hmax : ∀ n : Nat, n ≤ List.length c → n ≤ max M (List.length c) := fun n hn => by omega
  cases e with
  | push x =>
    simp only [Vec.sys, Vec.applyEv] at h
    split at h
    · simp at h
    · simp at h; subst h; show (c ++ [x]).length ≤ max M (List.length c); omega
  | insert i x =>
    simp only [Vec.sys, Vec.applyEv] at h
    split at h
    · simp at h
    · split at h
      · simp at h
      · simp at h; subst h; show (c.insertIdx i x).length ≤ max M (List.length c); omega
  | resize n x =>
    simp only [Vec.sys, Vec.applyEv] at h
    split at h
    · simp at h
    · rename_i hn
      simp at h; subst h
      show (resize c n x).length ≤ max M (List.length c)
      rw [resize_length]; omega
  | pop => simp only [Vec.sys, Vec.applyEv] at h; simp at h; subst h; exact hmax _ (by simp)
  | set i x =>
    simp only [Vec.sys, Vec.applyEv] at h
    split at h
    · simp at h
    · simp at h; subst h; exact hmax _ (by simp)
  | remove i =>
    simp only [Vec.sys, Vec.applyEv] at h
    split at h
    · simp at h
    · simp at h; subst h; exact hmax _ (by show (List.eraseIdx c i).length ≤ List.length c; rw [List.length_eraseIdx]; split <;> omega)
  | swapRemove i =>
    simp only [Vec.sys, Vec.applyEv] at h
    split at h
    · simp at h
    · simp at h; subst h; exact hmax _ (swapRemove_length_le c i)
  | fill x => simp only [Vec.sys, Vec.applyEv] at h; simp at h; subst h; exact hmax _ (by simp)
  | truncate n => simp only [Vec.sys, Vec.applyEv] at h; simp at h; subst h; exact hmax _ (by simp [List.length_take]; omega)
  | retain keep => simp only [Vec.sys, Vec.applyEv] at h; simp at h; subst h; exact hmax _ (retainFrom_length_le _ _ _)
  | retainNot rm => simp only [Vec.sys, Vec.applyEv] at h; simp at h; subst h; exact hmax _ (retainFrom_length_le _ _ _)
  | clear => simp only [Vec.sys, Vec.applyEv] at h; simp at h; subst h; exact hmax _ (by simp)
  | shrinkToFit => simp only [Vec.sys, Vec.applyEv] at h; simp at h; subst h; exact hmax _ (by simp)

theorem VecDeque.sizeChecked : VecDeque.sys.SizeChecked := by
  intro M c e c' h
  have hmax : ∀ n : Nat, n ≤ List.length c → n ≤ max M (List.length c) := fun n hn => by omega
  cases e with
  | pushBack x =>
    simp only [VecDeque.sys, VecDeque.applyEv] at h
    split at h
    · simp at h
    · simp at h; subst h; show (c ++ [x]).length ≤ max M (List.length c); omega
  | pushFront x =>
    simp only [VecDeque.sys, VecDeque.applyEv] at h
    split at h
    · simp at h
    · simp at h; subst h; show (x :: c).length ≤ max M (List.length c); omega
  | insert i x =>
    simp only [VecDeque.sys, VecDeque.applyEv] at h
    split at h
    · simp at h
    · split at h
      · simp at h
      · simp at h; subst h; show (c.insertIdx i x).length ≤ max M (List.length c); omega
  | resize n x =>
    simp only [VecDeque.sys, VecDeque.applyEv] at h
    split at h
    · simp at h
    · rename_i hn
      simp at h; subst h
      show (resize c n x).length ≤ max M (List.length c)
      rw [resize_length]; omega
  | popBack => simp only [VecDeque.sys, VecDeque.applyEv] at h; simp at h; subst h; exact hmax _ (by simp)
  | popFront => simp only [VecDeque.sys, VecDeque.applyEv] at h; simp at h; subst h; exact hmax _ (by simp)
  | set i x =>
    simp only [VecDeque.sys, VecDeque.applyEv] at h
    split at h
    · simp at h
    · simp at h; subst h; exact hmax _ (by simp)
  | remove i =>
    simp only [VecDeque.sys, VecDeque.applyEv] at h
    split at h
    · simp at h
    · simp at h; subst h
      exact hmax _ (by show (List.eraseIdx c i).length ≤ List.length c; rw [List.length_eraseIdx]; split <;> omega)
  | swapRemoveBack i =>
    simp only [VecDeque.sys, VecDeque.applyEv] at h
    split at h
    · simp at h
    · simp at h; subst h; exact hmax _ (swapRemove_length_le c i)
  | swapRemoveFront i =>
    simp only [VecDeque.sys, VecDeque.applyEv] at h
    split at h
    · simp at h
    · simp at h; subst h; exact hmax _ (swapRemoveFront_length_le c i)
  | truncate n => simp only [VecDeque.sys, VecDeque.applyEv] at h; simp at h; subst h; exact hmax _ (by simp [List.length_take]; omega)
  | retain keep => simp only [VecDeque.sys, VecDeque.applyEv] at h; simp at h; subst h; exact hmax _ (retainFrom_length_le _ _ _)
  | retainNot rm => simp only [VecDeque.sys, VecDeque.applyEv] at h; simp at h; subst h; exact hmax _ (retainFrom_length_le _ _ _)
  | clear => simp only [VecDeque.sys, VecDeque.applyEv] at h; simp at h; subst h; exact hmax _ (by simp)
  | shrinkToFit => simp only [VecDeque.sys, VecDeque.applyEv] at h; simp at h; subst h; exact hmax _ (by simp)

/-- **Finding F9 (event part), repaired in /repo.**  Vector `[1, 2]`, mirror with `max_size = 2`; the
collection does `insert(0, 9)`: the mirror now reports `MaxSizeExceeded` (before the repair it applied the
`Insert` and held three elements without error). -/
theorem f9_insert_is_refused :
    ∃ s, (MSt.init Vec.sys [1, 2] 4 2).run [.emit (.change (.insert 0 9)), .consume] = some s ∧
      s.task.m.error = some (.maxSizeExceeded 2) ∧ s.task.m.maxSize = 2 :=
  ⟨_, rfl, rfl, rfl⟩

/-! ## the append-only list never lags -/

namespace OList

def DSt.Reachable (s : DSt) : Prop := ∃ cap initial ls, 0 < cap ∧ (DSt.init cap initial).run ls = some s

/-- Nothing the dispatcher task could do on its own is enabled. -/
def DSt.Quiescent (s : DSt) : Prop :=
  s.step .procReq = none ∧ ∀ i, s.step (.register i) = none ∧ s.step (.send i) = none

/-- **List subscribers never lag.**  For every interleaving of pushes, `done()`, drop of the list, any
number of subscribers joining and leaving at any time, and every speed of every subscriber (a subscriber
that does not read blocks only its own permit):

1. what a subscriber has received, followed by what is in its channel, is exactly the first `pos`
   elements of the list — each once, in order, nothing skipped — followed by `Done` only after all
   elements; the dispatcher's buffer is a prefix of what was pushed;
2. when the dispatcher can do nothing more, a live subscriber that has emptied its channel has received
   every element pushed so far, and `Done` iff `done()` was called. -/
theorem list_never_lags (s : DSt) (hr : s.Reachable) :
    (∀ u ∈ s.subs, u.received ++ u.chan =
        (s.buffer.take u.pos).map (fun x => Event.change (Ev.push x)) ++ (if u.sentDone then [Event.done] else [])) ∧
    (∃ later, s.pushed = s.buffer ++ later) ∧
    (s.Quiescent → ∀ (i : Nat) (u : SubSt), s.subs[i]? = some u → u.registered = true → u.retired = false → u.alive = true → u.chan = [] →
        u.received = s.pushed.map (fun x => Event.change (Ev.push x)) ++ (if s.doneCalled then [Event.done] else [])) := by
  obtain ⟨cap, initial, ls, hcap, hrun⟩ := hr
  have hi : DInv s := (DInv.init cap initial).run ls hrun
  have hcapEq : ∀ (ls : List DLabel) (a b : DSt), a.run ls = some b → b.cap = a.cap := by
    intro ls
    induction ls with
    | nil => intro a b h; simp [DSt.run] at h; subst h; rfl
    | cons l ls ih =>
      intro a b h
      simp only [DSt.run] at h
      cases hs : a.step l with
      | none => rw [hs] at h; cases h
      | some a1 =>
        rw [hs] at h
        have : a1.cap = a.cap := by
          cases l <;> simp only [DSt.step] at hs <;> (repeat' split at hs) <;> first | cases hs; rfl | cases hs
        rw [ih a1 b h, this]
  have hcap' : 0 < s.cap := by rw [hcapEq ls _ s hrun]; exact hcap
  refine ⟨fun u hu => (hi.subs u hu).1, ⟨_, hi.pushedEq⟩, ?_⟩
  intro hq i u hu hreg hret halive hchan
  obtain ⟨hproc, hrest⟩ := hq
  obtain ⟨_, hsend⟩ := hrest i
  have hmem : u ∈ s.subs := List.mem_of_getElem? hu
  obtain ⟨h1, h2, h3, _⟩ := hi.subs u hmem
  -- no request left
  have hreqs : s.reqs = [] := by
    simp only [DSt.step] at hproc
    cases hr : s.reqs with
    | nil => rfl
    | cons r rest => rw [hr] at hproc; cases r <;> simp at hproc
  have hpushed : s.pushed = s.buffer := by rw [hi.pushedEq, hreqs]; simp [pendingPushes]
  have hdc : s.doneCalled = s.done := by rw [hi.doneCalledEq, hreqs]; simp [pendingDone]
  -- the task cannot send to u although its channel is empty: nothing left to send
  simp only [DSt.step, hu, hreg, hret, halive, hchan, List.length_nil, hcap', decide_true, Bool.not_false,
    Bool.and_self, if_true] at hsend
  have hpos : u.pos = s.buffer.length := by
    rcases Nat.lt_or_ge u.pos s.buffer.length with h5 | h5
    · rw [List.getElem?_eq_getElem h5] at hsend; simp at hsend
    · omega
  have hsd : u.sentDone = s.done := by
    rw [List.getElem?_eq_none (by omega)] at hsend
    cases hd : s.done <;> cases hs : u.sentDone <;> simp [hd, hs] at hsend ⊢
    have := (h3 hs).2; rw [hd] at this; cases this
  rw [hchan] at h1
  simp only [List.append_nil, expected] at h1
  rw [h1, hpushed, hdc, hpos, hsd, List.take_length]

end OList

/-! ## non-vacuity -/

/-- A lagging vector mirror: buffer of one event; two events are sent before the mirror runs, the second
is shed; the mirror applies the first, then finds the `Lagged` marker: error `Lagged`, contents after the
first event, and later events change nothing. -/
example :
    ∃ s, (MSt.init Vec.sys [1] 1 10).run
        [.emit (.change (.push 2)), .emit (.change (.push 3)), .consume, .shed, .consume, .rearm,
         .emit (.change (.push 4)), .consume] = none ∧
      (MSt.init Vec.sys [1] 1 10).run
        [.emit (.change (.push 2)), .emit (.change (.push 3)), .consume, .shed, .consume, .rearm,
         .emit (.change (.push 4))] = some s ∧
      s.task.m.v = [1, 2] ∧ s.task.m.error = some .lagged ∧ s.hist.length = 3 ∧ s.applied = 1 :=
  ⟨_, rfl, rfl, rfl, rfl, rfl, rfl⟩

/-- A collection dropped before `done()`: the mirror ends with `Closed` and keeps its contents. -/
example :
    ∃ s, (MSt.init HashMap.sys [(1, 1)] 2 10).run
        [.emit (.change (.set 2 2)), .drop, .consume, .consume] = some s ∧
      s.task.m.v = [(1, 1), (2, 2)] ∧ s.task.m.error = some .closed ∧ s.Quiescent :=
  ⟨_, rfl, rfl, rfl, ⟨rfl, rfl, rfl, fun _ => rfl⟩⟩

/-- A list with two subscribers of different speed and a late joiner. -/
example :
    ∃ s, (OList.DSt.init 1 [5]).run
        [.subscribe, .register 0, .push 6, .send 0, .procReq, .subscribe, .register 1, .recv 0, .send 0, .send 1,
         .markDone, .procReq, .recv 0, .send 0, .recv 0] = some s ∧
      (s.subs.map (·.received)) =
        [[.change (.push 5), .change (.push 6), .done], []] ∧
      (s.subs.map (·.chan)) = [[], [.change (.push 5)]] :=
  ⟨_, rfl, rfl, rfl⟩

end Remoc.Robs
