import RemocModel.RwLock.Lemmas

/-!
# C17 — remote read/write lock: exclusion, latest-committed reads, no deadlock

Theorems about M_rwlock (`RemocModel/RwLock/Model.lean`) for **all** label lists, i.e. all
interleavings of read / write requests from any number of lock clones on any number of
endpoints, all hold times, commits and drops, all task and delivery schedules, and losses of
endpoints' connections (`Label.lose`).

* `exclusion`, `freshness`, `write_freshness`, `commit_durable`, `commit_visible`,
  `drop_keeps_value`, `value_is_last_commit` hold for both variants of the model.
* `deadlock_free` holds for the repaired variant (`Variant.fixed`).  For the pinned code the
  statement is **false** (finding F5): `deadlock_pinned` is a concrete, kernel-checked run
  that ends in a quiescent state with no guard held, a reader and a writer pending forever;
  `not_deadlock_free_pinned` is the negation of the property for that variant.  The two
  variants differ only in the step `rLockW` (what `ReadLock::fetch` does right after
  `self.cache.write().await`).

Liveness is stated as the property judges it, at quiescence: "as long as every guard is
eventually released, every request eventually completes" becomes: *no reachable quiescent state
in which all guards are released has a pending request*.  Fairness of the scheduler and of
tokio's `RwLock` wake-ups is outside the model (the harness's quiescence detector checks the same
statement on the real system).
-/

namespace Remoc.RwLock

/-- **Exclusion.**  While a writer has the value (from the moment the owner hands it out, in
particular while the write guard is held, until the commit is stored or the guard is dropped) no
read guard is held on any cache of any endpoint, no valid or invalid copy of the value exists
anywhere, and no other writer has the value. -/
theorem exclusion {cfg : Cfg} {s : State} (hr : Reachable cfg s) (k : Nat) (hk : (s.wop k).hasValue = true) :
    (∀ k', (s.rop k').isHeld = false) ∧ (∀ c, s.cache c = none) ∧
    (∀ k', (s.wop k').hasValue = true → k' = k) := by
  have hs := safe_reach hr
  have hp := hs.writer_phase k hk
  have hc : ∀ c, s.cache c = none := by
    intro c
    cases h : s.cache c with
    | none => rfl
    | some cp => exact absurd hp ((hs.copy_cur c cp h).2.2 k)
  refine ⟨?_, hc, ?_⟩
  · intro k'
    cases h : s.rop k' with
    | held c v =>
      obtain ⟨cp, hcp, _⟩ := hs.held_copy k' c v h
      rw [hc c] at hcp; cases hcp
    | _ => rfl
  · intro k' hk'
    have := hs.writer_phase k' hk'
    rw [hp] at this; cases this; rfl

/-- write guards in particular: at most one, and never together with a read guard -/
theorem exclusion_guards {cfg : Cfg} {s : State} (hr : Reachable cfg s) (k : Nat) (hk : (s.wop k).isHeld = true) :
    (∀ k', (s.rop k').isHeld = false) ∧ (∀ k', (s.wop k').isHeld = true → k' = k) := by
  have hv : ∀ k, (s.wop k).isHeld = true → (s.wop k).hasValue = true := by
    intro k h; cases hw : s.wop k <;> simp [hw, WOp.isHeld, WOp.hasValue] at h ⊢
  obtain ⟨h1, _, h3⟩ := exclusion hr k (hv k hk)
  exact ⟨h1, fun k' hk' => h3 k' (hv k' hk')⟩

/-- **Freshness.**  Every read returns the most recently committed value as of an instant
between its start and its end: at the instant the guard is acquired (`rAcq k v`, which comes
after the request's `rBegin k`) the observed value is the value of the latest commit. -/
theorem freshness {cfg : Cfg} {s : State} (hr : Reachable cfg s) (post pre : List Ev) (k v : Nat)
    (hh : s.hist = post ++ .rAcq k v :: pre) :
    lastCommit cfg.val0 pre = v ∧ .rBegin k ∈ pre := by
  have hf := (hist_reach hr).fresh
  rw [hh, (reach_static hr).2.2.2.2] at hf
  have := freshHist_suffix _ _ _ hf
  simp only [FreshHist] at this
  exact ⟨this.1, this.2.1⟩

/-- the same for write guards: a writer starts from the latest committed value -/
theorem write_freshness {cfg : Cfg} {s : State} (hr : Reachable cfg s) (post pre : List Ev) (k v : Nat)
    (hh : s.hist = post ++ .wAcq k v :: pre) :
    lastCommit cfg.val0 pre = v ∧ .wBegin k ∈ pre := by
  have hf := (hist_reach hr).fresh
  rw [hh, (reach_static hr).2.2.2.2] at hf
  have := freshHist_suffix _ _ _ hf
  simp only [FreshHist] at this
  exact ⟨this.1, this.2.1⟩

/-- The owner's value is always the value of the latest commit (initially `val0`): a committed
value stays until the next commit; nothing else changes the value. -/
theorem value_is_last_commit {cfg : Cfg} {s : State} (hr : Reachable cfg s) :
    s.val = lastCommit cfg.val0 s.hist := by
  rw [← (reach_static hr).2.2.2.2]; exact (safe_reach hr).val_hist.symm

/-- **Committed writes are never lost (1).**  A commit that returned `Ok` (and already one whose
confirmation is on its way) has been stored by the owner. -/
theorem commit_durable {cfg : Cfg} {s : State} (hr : Reachable cfg s) (k nv : Nat)
    (hk : (∃ e, s.wop k = .stored e nv) ∨ s.wop k = .done nv) : .commit k nv ∈ s.hist :=
  (hist_reach hr).stored_commit k nv hk

/-- **Committed writes are never lost (2).**  From the instant a commit is stored until the next
commit, the owner's value is the committed one and every read guard and write guard acquired
in that period observes it. -/
theorem commit_visible {cfg : Cfg} {s : State} (hr : Reachable cfg s) (post pre : List Ev) (k nv : Nat)
    (hh : s.hist = post ++ .commit k nv :: pre) (hno : ∀ e ∈ post, e.isCommit = false) :
    s.val = nv ∧ (∀ k' v, .rAcq k' v ∈ post → v = nv) ∧ (∀ k' v, .wAcq k' v ∈ post → v = nv) := by
  have hval := value_is_last_commit hr
  refine ⟨?_, ?_, ?_⟩
  · rw [hval, hh, lastCommit_append _ _ _ hno]; rfl
  · intro k' v hm
    obtain ⟨p1, p2, rfl⟩ := List.append_of_mem hm
    have := (freshness hr p1 (p2 ++ .commit k nv :: pre) k' v (by rw [hh]; simp)).1
    rw [lastCommit_append _ _ _ (fun e he => hno e (by simp [he]))] at this
    exact this.symm
  · intro k' v hm
    obtain ⟨p1, p2, rfl⟩ := List.append_of_mem hm
    have := (write_freshness hr p1 (p2 ++ .commit k nv :: pre) k' v (by rw [hh]; simp)).1
    rw [lastCommit_append _ _ _ (fun e he => hno e (by simp [he]))] at this
    exact this.symm

/-- **A dropped write guard leaves the value unchanged.**  Dropping the guard does not touch the
value, the operation stays `dropped` in every continuation, and a dropped operation never
produces a commit — so (with `value_is_last_commit`) the value after the drop is the value
before, until some other writer commits. -/
theorem drop_keeps_value {cfg : Cfg} {s : State} (hr : Reachable cfg s) (k : Nat) :
    (∀ s', step s (.wDrop k) = some s' → s'.val = s.val ∧ s'.wop k = .dropped) ∧
    (s.wop k = .dropped →
      (∀ nv, .commit k nv ∉ s.hist) ∧ ∀ ls s', run s ls = some s' → s'.wop k = .dropped) := by
  constructor
  · intro s' h
    cases step_sound h
    simp
  · intro hk
    refine ⟨fun nv hm => ?_, fun ls s' h => run_dropped h k hk⟩
    rcases (hist_reach hr).commit_state k nv hm with ⟨e, h⟩ | h | h <;> rw [hk] at h <;> cases h

/-- **No deadlock (repaired code).**  In every reachable quiescent state in which all guards
have been released, no read request, write request or commit is pending — whatever happened
before (any interleaving, any loss of endpoints). -/
theorem deadlock_free {cfg : Cfg} {s : State} (hv : cfg.variant = .fixed) (hr : Reachable cfg s)
    (hq : Quiescent s) (hrel : ∀ k, (s.rop k).isHeld = false ∧ (s.wop k).isHeld = false) :
    ∀ k, (s.rop k).pending = false ∧ (s.wop k).pending = false :=
  no_pending_of_quiescent (bnd_reach hr) (safe_reach hr) (live_reach hr)
    ((reach_static hr).1.trans hv) hq (fun k => (hrel k).1) (fun k => (hrel k).2)

/-! ### Finding F5: the pinned code deadlocks -/

/-- one lock clone on the owner's endpoint, ids 1–3 -/
def f5Cfg (v : Variant) : Cfg := { variant := v, nk := 4, nc := 1, cep := fun _ => 0, val0 := 0 }

/-- The witness schedule: read 1 warms the cache and releases; writer 2 is taken by the owner,
which invalidates the value; reader 3 sees the invalid cached value *before the monitor task has
run*, acquires the cache's write half and asks the owner, which waits for the cached copy to be
dropped, which the monitor can only do with the write half. -/
def f5Run : List Label :=
  [.rStart 1 0, .rCheck 1, .rLockW 1, .rSend 1, .oRead, .rRecv 1, .rRelease 1,
   .rStart 3 0, .wStart 2 0, .wSend 2, .oWrite, .mDeliver 1, .rCheck 3, .rLockW 3, .rSend 3, .mWake 1]

/-- **F5, kernel-checked.**  On the model of the pinned code the run `f5Run` ends in a
quiescent state with no guard held in which read 3 and write 2 are pending (forever). -/
theorem deadlock_pinned :
    ∃ s, run (init (f5Cfg .pinned)) f5Run = some s ∧ Quiescent s ∧
      (∀ k, (s.rop k).isHeld = false ∧ (s.wop k).isHeld = false) ∧
      (s.rop 3).pending = true ∧ (s.wop 2).pending = true := by
  have h : ((run (init (f5Cfg .pinned)) f5Run).map fun s =>
      quiescentB s && noGuardsB s && (s.rop 3).pending && (s.wop 2).pending) = some true := by decide
  cases hr : run (init (f5Cfg .pinned)) f5Run with
  | none => rw [hr] at h; cases h
  | some s =>
    rw [hr] at h
    simp only [Option.map_some, Option.some.injEq, Bool.and_eq_true] at h
    obtain ⟨⟨⟨h1, h2⟩, h3⟩, h4⟩ := h
    have hb := bnd_reach ⟨f5Run, hr⟩
    obtain ⟨g1, g2⟩ := noGuardsB_sound hb h2
    exact ⟨s, rfl, quiescentB_sound hb h1, fun k => ⟨g1 k, g2 k⟩, h3, h4⟩

/-- the negation of `deadlock_free` for the pinned variant -/
theorem not_deadlock_free_pinned :
    ¬ (∀ (cfg : Cfg) (s : State), cfg.variant = .pinned → Reachable cfg s → Quiescent s →
        (∀ k, (s.rop k).isHeld = false ∧ (s.wop k).isHeld = false) →
        ∀ k, (s.rop k).pending = false ∧ (s.wop k).pending = false) := by
  intro h
  obtain ⟨s, hr, hq, hrel, hp, _⟩ := deadlock_pinned
  have := (h (f5Cfg .pinned) s rfl ⟨f5Run, hr⟩ hq hrel 3).1
  rw [hp] at this; cases this

/-- the same schedule is a run of the repaired variant too, but does not end quiescent: the
monitor can clear … in fact the reader has already cleared the cache, and the owner goes on -/
example : ((run (init (f5Cfg .fixed)) f5Run).map fun s => (quiescentB s, s.cache 0)) = some (false, none) := by
  decide

/-- … and continues to completion: writer 2 commits 7, reader 3 then reads 7 -/
example : ((run (init (f5Cfg .fixed))
    (f5Run ++ [.oAllDropped, .wRecv 2, .wCommit 2 7, .oStore, .wConfirm 2, .oRead, .rRecv 3])).map fun s =>
      (quiescentB s, s.rop 3, s.wop 2, s.val)) = some (true, .held 0 7, .done 7, 7) := by
  decide

/-! ### Non-vacuity: concrete runs meeting the hypotheses of the theorems -/

/-- two caches (cache 1 on endpoint 1), read guards on both, then a writer on endpoint 1 gets the
value only after both guards are released and both monitors have cleared their caches -/
def demoCfg : Cfg := { variant := .fixed, nk := 6, nc := 2, cep := fun c => c, val0 := 5 }

def demoRun : List Label :=
  [.rStart 1 0, .rCheck 1, .rLockW 1, .rSend 1, .oRead, .rRecv 1,
   .rStart 2 1, .rCheck 2, .rLockW 2, .rSend 2, .oRead, .rRecv 2,
   .wStart 3 1, .wSend 3, .oWrite, .mDeliver 1, .mDeliver 2, .mWake 1, .mWake 2,
   .rRelease 1, .mClear 1, .rRelease 2, .mClear 2, .oAllDropped, .wRecv 3]

/-- hypothesis of `exclusion` met: writer 3 holds the guard with the initial value 5 -/
example : ((run (init demoCfg) demoRun).map fun s => (s.wop 3, s.rop 1, s.rop 2, s.cache 0, s.cache 1)) =
    some (.held 1 5, .done, .done, none, none) := by decide

/-- the writer cannot be granted while a read guard is held: `oAllDropped` is not enabled -/
example : (run (init demoCfg) (demoRun.take 20 ++ [.mClear 1, .oAllDropped])) = none := by decide

/-- commit 9, then a read on the other endpoint observes 9 (`commit_durable`, `freshness`) -/
example : ((run (init demoCfg) (demoRun ++ [.wCommit 3 9, .oStore, .wConfirm 3,
    .rStart 4 0, .rCheck 4, .rLockW 4, .rSend 4, .oRead, .rRecv 4])).map fun s =>
      (s.wop 3, s.rop 4, s.val, s.hist.take 2)) = some (.done 9, .held 0 9, 9, [.rAcq 4 9, .rBegin 4]) := by decide

/-- drop instead of commit: the value stays 5 (`drop_keeps_value`) -/
example : ((run (init demoCfg) (demoRun ++ [.wDrop 3, .oAbort,
    .rStart 4 0, .rCheck 4, .rLockW 4, .rSend 4, .oRead, .rRecv 4])).map fun s =>
      (s.wop 3, s.rop 4, s.val)) = some (.dropped, .held 0 5, 5) := by decide

/-- loss of the endpoint of a read-guard holder: the writer is not blocked (`deadlock_free`
covers `lose`): reader 2 on endpoint 1 never releases, endpoint 1 is lost, writer 5 on
endpoint 0 is granted -/
example : ((run (init demoCfg) (demoRun.take 12 ++ [.rRelease 1, .wStart 5 0, .wSend 5, .oWrite, .mDeliver 1,
    .mWake 1, .mClear 1, .lose 1, .oAllDropped, .wRecv 5])).map fun s => (s.wop 5, s.rop 2)) =
    some (.held 0 5, .lost) := by decide

/-- hypotheses of `deadlock_free` met non-trivially: after the whole demo everything is quiescent,
released and complete -/
example : ((run (init demoCfg) (demoRun ++ [.wCommit 3 9, .oStore, .wConfirm 3])).map fun s =>
    (quiescentB s, noGuardsB s)) = some (true, true) := by decide

end Remoc.RwLock
