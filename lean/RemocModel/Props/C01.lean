import RemocModel.Link.Inv
import RemocModel.Link.SenderInv
import RemocModel.Link.ReceiverInv

/-!
# C01 — port delivery: exactly-once, in-order, byte-exact, cancel-atomic

Theorems about M_link (`Remoc.Link`).  `Reachable c st` quantifies over every label list from
the initial state: every sequence of whole sends, chunk streams and port batches of any sizes,
every configuration `c` (chunk size, receive buffer, `max_data_size`), every interleaving of
sender, dispatcher, transport and receiver steps, and a `cancel` label at every suspension
point of a send.  The receiving caller follows the documented protocol (after
`Received::Chunks` it calls `recv_chunk` until `None`/`Cancelled`).

"The messages a frame stream carries" is the ideal reassembly `parse` (Model.lean).
-/

namespace Remoc.Link

theorem sinv_run (c : Cfg) (st : State) (ls : List Label) (h : SInv st) : SInv (run c st ls) := by
  induction ls generalizing st with
  | nil => exact h
  | cons l ls ih =>
    simp only [run]
    split
    · rename_i st' hs; exact ih st' (sinv_step c st st' l h hs)
    · exact ih st h

theorem rinv_run (c : Cfg) (st : State) (ls : List Label) (h : RInv st) : RInv (run c st ls) := by
  induction ls generalizing st with
  | nil => exact h
  | cons l ls ih =>
    simp only [run]
    split
    · rename_i st' hs; exact ih st' (rinv_step c st st' l h hs)
    · exact ih st h

/-- **Sender.**  Whatever the schedule, the frames put on the connection carry, in order, exactly
the messages whose send completed — a cancelled or failed send leaves at most a partial
transmission that the reassembly discards. -/
theorem sender_emits_completed (c : Cfg) (st : State) (h : Reachable c st) :
    parse none st.emitted = st.completed := by
  obtain ⟨ls, rfl⟩ := h
  exact (sinv_run c _ ls (sinv_init c)).msgs

/-- **Receiver.**  For *every* frame sequence consumed — not only those a conforming sender
produces — and every `max_data_size`, `recv_any`/`recv_chunk` hand the caller exactly the ideal
reassembly of the consumed frames (large messages as chunk sequences whose concatenation is the
message; `pendingMsg` is a completed message whose last chunks are still buffered). -/
theorem receiver_delivers_consumed (c : Cfg) (st : State) (h : Reachable c st) :
    parse none st.consumed = st.delivered ++ pendingMsg st := by
  obtain ⟨ls, rfl⟩ := h
  exact (rinv_run c _ ls (rinv_init c)).msgs

/-- **Transport.**  Frames are consumed in the order they were emitted (the five queues between
sender and receiver compose to one FIFO). -/
theorem consumed_prefix_of_emitted (c : Cfg) (st : State) (h : Reachable c st) :
    st.emitted = st.consumed ++ (st.r.queue ++ st.chan) := by
  rw [(inv_reachable c st h).fifo, List.append_assoc]

/-- **Exactly-once, in-order, byte-exact.**  In every reachable state the messages obtained by the
receiver are a prefix of the completed sends: nothing is duplicated, reordered, altered or
invented, and a message of a cancelled send never appears. -/
theorem delivery_exact (c : Cfg) (st : State) (h : Reachable c st) :
    ∃ rest, st.delivered ++ rest = st.completed := by
  have h1 := sender_emits_completed c st h
  have h2 := receiver_delivers_consumed c st h
  have h3 := consumed_prefix_of_emitted c st h
  rw [h3, parse_append, h2] at h1
  exact ⟨_, by rw [← h1, List.append_assoc]⟩

/-- **Completeness at quiescence.**  Once nothing is in flight or queued and the caller has drained
its current message, the receiver has obtained every completed send. -/
theorem delivery_complete (c : Cfg) (st : State) (h : Reachable c st)
    (hchan : st.chan = []) (hq : st.r.queue = []) (hp : pendingMsg st = []) :
    st.delivered = st.completed := by
  have h1 := sender_emits_completed c st h
  have h2 := receiver_delivers_consumed c st h
  have h3 := consumed_prefix_of_emitted c st h
  rw [hchan, hq] at h3
  simp only [List.append_nil] at h3
  rw [h3, h2, hp, List.append_nil] at h1
  exact h1

/-- **Cancellation is atomic.**  Dropping a send future (or a `ChunkSender`) at any suspension
point adds nothing to the completed sends and gives the assigned credits back; since the
resulting state is reachable, `delivery_exact` and `delivery_complete` keep holding for
everything sent before and after. -/
theorem cancel_atomic (c : Cfg) (st st' : State) (h : Reachable c st) (hs : step c st .cancel = some st') :
    st'.completed = st.completed ∧ st'.emitted = st.emitted ∧ st'.s.pool = st.s.pool + st.s.held ∧
    st'.s.held = 0 ∧ Reachable c st' := by
  have hr : Reachable c st' := by
    obtain ⟨ls, rfl⟩ := h
    refine ⟨ls ++ [.cancel], ?_⟩
    have : ∀ (s0 : State) (l1 : List Label), run c s0 (l1 ++ [.cancel]) =
        (match step c (run c s0 l1) .cancel with | some s => s | none => run c s0 l1) := by
      intro s0 l1
      induction l1 generalizing s0 with
      | nil => simp only [List.nil_append, run]; split <;> simp_all
      | cons a as ih => simp only [List.cons_append, run]; split <;> exact ih _
    rw [this, hs]
  simp only [step] at hs
  split at hs
  · obtain rfl := Option.some.inj hs
    exact ⟨rfl, rfl, rfl, rfl, hr⟩
  · simp at hs

/-- **Progress of the receiving side.**  While frames are in flight the dispatcher can take them,
and while messages wait in the port queue a receive call can take them: together with
`delivery_complete` (and scheduler fairness) every completed send is eventually delivered while
the receiver keeps receiving. -/
theorem receive_enabled (c : Cfg) (st : State) :
    (st.chan ≠ [] → (step c st .muxRecv).isSome) ∧
    (st.r.queue ≠ [] → st.r.finished = false → st.r.dropped = false →
      (step c st .recvAny).isSome ∨ (step c st .recvChunk).isSome) := by
  constructor
  · intro hc
    simp only [step]
    cases hch : st.chan with
    | nil => exact absurd hch hc
    | cons f fs =>
      simp only []
      split
      · simp
      · split <;> simp
  · intro hq hf hd
    have hnm : ∃ f r0, nextMsg st.r = some (f, r0) := by
      cases hn : nextMsg st.r with
      | none => exact absurd (nextMsg_none _ hn) hq
      | some x => exact ⟨x.1, x.2, rfl⟩
    obtain ⟨f, r0, hn⟩ := hnm
    cases hp : st.partialMsg with
    | none =>
      left
      simp only [step, hp, hd, Option.isSome_none, Bool.false_eq_true, or_self, if_false, recvAnyStep, hf, hn]
      (repeat' split) <;> simp
    | some acc =>
      right
      have hsome : (recvChunkStep c st.r).isSome := by
        simp only [recvChunkStep, hf, Bool.false_eq_true, if_false, hn]
        cases st.r.receiving with
        | chunks chs b =>
          cases chs with
          | cons ch rest => simp
          | nil =>
            cases b with
            | true => simp
            | false => simp only []; split <;> simp
        | _ => simp only []; split <;> simp
      cases hrc : recvChunkStep c st.r with
      | none => simp [hrc] at hsome
      | some x =>
        obtain ⟨r, bk, f', out⟩ := x
        simp only [step, hd, Bool.false_eq_true, if_false, hp, hrc]
        (repeat' split) <;> simp

/-! ### non-vacuity: concrete schedules -/

def c1 : Cfg := { chunk := 4, limit := 8, maxData := 5, maxPorts := 8 }

/-- a cancelled chunk stream followed by a message; the message after it is delivered
(this is the F1 scenario: on the code before the repair the second message was lost) -/
def f1Run : List Label :=
  [.startSend [1, 2], .request, .emit,                           -- m0 = [1,2]
   .startChunks, .chunkSend [3, 4, 5, 6, 7, 8, 9] false, .request, .emit, .emit,  -- 7 of 7 bytes > maxData … cancelled
   .muxRecv, .muxRecv, .muxRecv,
   .recvAny,                                                      -- m0
   .recvAny, .recvAny,                                            -- Chunks (exceeds maxData = 5)
   .recvChunk, .recvChunk,
   .cancel,
   .provide, .provide,
   .startSend [10, 11, 12], .request, .emit, .muxRecv,            -- m2
   .recvChunk,                                                    -- Cancelled, frame put back
   .recvAny]                                                      -- m2

example : (run c1 (init c1) f1Run).completed = [[1, 2], [10, 11, 12]] ∧
    (run c1 (init c1) f1Run).delivered = [[1, 2], [10, 11, 12]] ∧
    (run c1 (init c1) f1Run).outs.contains .cancelled = true := by decide

end Remoc.Link
