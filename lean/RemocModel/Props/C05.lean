import RemocModel.Base.Wiring
import RemocModel.Base.WiringForward
import RemocModel.Link.ForwardWire5

/-!
# C05 — channel halves embedded in values are wired one-to-one to their counterparts

Theorems about M_wiring (`Remoc.Wiring`).  A value is the list of its halves in serialization order —
any number of halves of any type at any nesting position; the theorems quantify over all such lists,
over every allocation of pairwise distinct ports (the allocator never hands out a number that is in
use: C07/C10), over every order in which the requests reach the receiver and in which the deserializer
meets the halves (matching is by id, so neither order appears in `connected`), and over every number
of hops.  That chmux pairs an accepted request with the `Connect` of the requesting port is C10.

`interlock_*`: finding FB2 — in `rch::bin` and `rch::lr` the `Serialize` impls mark the wrong half as
"being sent" (`fixed = false` is the code as it is).
-/

namespace Remoc.Wiring

/-! ### list facts -/

theorem find_key_unique {α : Type} (l : List (α × Nat)) (h : α) (p : Nat)
    (hnd : (l.map (·.2)).Nodup) (hm : (h, p) ∈ l) : l.find? (·.2 == p) = some (h, p) := by
  induction l with
  | nil => simp at hm
  | cons x xs ih =>
    simp only [List.map_cons, List.nodup_cons] at hnd
    simp only [List.mem_cons] at hm
    rcases hm with rfl | hm
    · simp [List.find?]
    · have hne : x.2 ≠ p := by
        intro he
        apply hnd.1
        rw [he]
        exact List.mem_map.mpr ⟨(h, p), hm, rfl⟩
      simp only [List.find?]
      have : (x.2 == p) = false := by simp [hne]
      rw [this]
      exact ih hnd.2 hm

theorem find_some_spec {α : Type} (l : List α) (q : α → Bool) (x : α) (h : l.find? q = some x) : q x = true ∧ x ∈ l := by
  induction l with
  | nil => simp at h
  | cons y ys ih =>
    simp only [List.find?] at h
    split at h
    · obtain rfl := Option.some.inj h; rename_i hq; exact ⟨hq, by simp⟩
    · have := ih h; exact ⟨this.1, List.mem_cons_of_mem _ this.2⟩

theorem find_exists {α : Type} (l : List α) (q : α → Bool) (x : α) (hx : x ∈ l) (hq : q x = true) :
    ∃ y, l.find? q = some y := by
  induction l with
  | nil => simp at hx
  | cons y ys ih =>
    simp only [List.find?]
    split
    · exact ⟨y, rfl⟩
    · simp only [List.mem_cons] at hx
      rcases hx with rfl | hx
      · simp_all
      · exact ih hx

/-- every request of a batch announces its own port number as id -/
theorem batch_port_eq_id (sv : List (Half × Port)) (r : Req) (h : r ∈ batch sv) : r.port = r.id ∧ ∃ x ∈ sv, x.2 = r.id := by
  simp only [batch, List.mem_map] at h
  obtain ⟨x, hx, rfl⟩ := h
  exact ⟨rfl, x, hx, rfl⟩

/-- **`wiring_bijective`, one hop.**  For every value (list of halves with the ports allocated for them,
pairwise distinct) and every order in which the requests arrive: the received half that carries `p`
is connected to exactly the half `h` that was serialized with `p` — by id, whatever the positions. -/
theorem wiring_one_hop (sv : List (Half × Port)) (hnd : (sv.map (·.2)).Nodup) (reqs : List Req)
    (hperm : reqs.Perm (batch sv)) (h : Half) (p : Port) (hm : (h, p) ∈ sv) :
    connected sv reqs p = some h := by
  have hin : ({ port := p, id := p } : Req) ∈ reqs :=
    hperm.symm.subset (List.mem_map.mpr ⟨(h, p), hm, rfl⟩)
  obtain ⟨r, hr⟩ := find_exists reqs (·.id == p) _ hin (by simp)
  have hs := find_some_spec _ _ _ hr
  have hb := batch_port_eq_id sv r (hperm.subset hs.2)
  have hid : r.id = p := by simpa using hs.1
  unfold connected requestFor
  rw [hr]
  simp only [ownerOf]
  rw [hb.1, hid, find_key_unique sv h p hnd hm]
  rfl

/-- **… and to nothing else:** two received halves never share a request (the ids among simultaneously
announced halves are distinct), so no counterpart is connected twice. -/
theorem wiring_exclusive (sv : List (Half × Port)) (reqs : List Req) (hperm : reqs.Perm (batch sv))
    (p p' : Port) (hp : p ∈ sv.map (·.2)) (h : requestFor reqs p = requestFor reqs p') : p = p' := by
  obtain ⟨x, hx, rfl⟩ := List.mem_map.mp hp
  have hin : ({ port := x.2, id := x.2 } : Req) ∈ reqs :=
    hperm.symm.subset (List.mem_map.mpr ⟨x, hx, rfl⟩)
  obtain ⟨r, hr⟩ := find_exists reqs (·.id == x.2) _ hin (by simp)
  have h1 := (find_some_spec _ _ _ hr).1
  unfold requestFor at h
  rw [hr] at h
  have h2 := (find_some_spec _ _ _ h.symm).1
  simp only [beq_iff_eq] at h1 h2
  rw [← h1, h2]

/-! ### forwarding over further connections with `chmux::forward` (bin channels, lazy blobs) -/

theorem zip_ids (fresh : List Port) (reqs : List Req) (hl : reqs.length ≤ fresh.length) :
    ((fresh.zip reqs).map (fun x => ({ port := x.1, id := x.2.id } : Req))).map (·.id) = reqs.map (·.id) := by
  induction fresh generalizing reqs with
  | nil => cases reqs <;> simp_all
  | cons f fs ih =>
    cases reqs with
    | nil => simp
    | cons r rs =>
      simp only [List.length_cons, Nat.add_le_add_iff_right] at hl
      simp [ih rs hl]

theorem hop_upstream (fresh : List Port) (reqs : List Req) (hnd : fresh.Nodup) (r : Req)
    (hr : r ∈ (forwardHop reqs fresh).out) :
    ∃ r0 ∈ reqs, r.id = r0.id ∧ upstream (forwardHop reqs fresh) r.port = some r0.port := by
  induction fresh generalizing reqs with
  | nil => simp [forwardHop] at hr
  | cons f fs ih =>
    cases reqs with
    | nil => simp [forwardHop] at hr
    | cons r0 rs =>
      simp only [List.nodup_cons] at hnd
      simp only [forwardHop, List.zip_cons_cons, List.map_cons, List.mem_cons] at hr
      rcases hr with rfl | hr
      · exact ⟨r0, by simp, rfl, by simp [upstream, forwardHop]⟩
      · obtain ⟨r1, hr1, hid, hup⟩ := ih rs hnd.2 (by simpa [forwardHop] using hr)
        refine ⟨r1, by simp [hr1], hid, ?_⟩
        have hne : f ≠ r.port := by
          intro he
          apply hnd.1
          simp only [List.mem_map] at hr
          obtain ⟨x, hx, rfl⟩ := hr
          rw [he]
          exact (List.of_mem_zip hx).1
        simp only [upstream, forwardHop, List.zip_cons_cons, List.map_cons, List.find?]
        have : (f == r.port) = false := by simp [hne]
        rw [this]
        simpa [upstream, forwardHop] using hup

/-- invariant of a chain of forwarding hops: the ids are those of the original batch, and every port of
the current batch resolves, through the pipes of the hops, to the original port with the same id -/
theorem chain_inv (sv : List (Half × Port)) (chain : List (List Port))
    (hfresh : ∀ f ∈ chain, f.Nodup ∧ sv.length ≤ f.length) :
    let fc := forwardChain (batch sv) chain
    fc.1.map (·.id) = sv.map (·.2) ∧ ∀ r ∈ fc.1, resolve fc.2 r.port = some r.id := by
  suffices ∀ (acc : List Req × List Hop), (acc.1.map (·.id) = sv.map (·.2) ∧ ∀ r ∈ acc.1, resolve acc.2 r.port = some r.id) →
      let fc := chain.foldl (fun acc fresh => let h := forwardHop acc.1 fresh; (h.out, h :: acc.2)) acc
      fc.1.map (·.id) = sv.map (·.2) ∧ ∀ r ∈ fc.1, resolve fc.2 r.port = some r.id by
    apply this
    constructor
    · simp [batch]
    · intro r hr
      have := (batch_port_eq_id sv r hr).1
      simp [resolve, this]
  induction chain with
  | nil => intro acc h; exact h
  | cons fresh rest ih =>
    intro acc hacc
    simp only [List.foldl_cons]
    apply ih (fun f hf => hfresh f (by simp [hf]))
    have hf := hfresh fresh (by simp)
    have hlen : acc.1.length ≤ fresh.length := by
      have : acc.1.length = sv.length := by
        have := congrArg List.length hacc.1
        simpa using this
      omega
    constructor
    · simp only [forwardHop]
      rw [zip_ids fresh acc.1 hlen]
      exact hacc.1
    · intro r hr
      obtain ⟨r0, hr0, hid, hup⟩ := hop_upstream fresh acc.1 hf.1 r hr
      simp only [resolve, hup]
      rw [hacc.2 r0 hr0, hid]

/-- **`wiring_bijective`, forwarded.**  After any number of `chmux::forward` hops (fresh, pairwise
distinct port numbers at every hop; ids preserved) the received half that carries `p` is connected —
through the chain of forwarders — to exactly the half that was serialized with `p`. -/
theorem forward_preserves_wiring (sv : List (Half × Port)) (hnd : (sv.map (·.2)).Nodup) (chain : List (List Port))
    (hfresh : ∀ f ∈ chain, f.Nodup ∧ sv.length ≤ f.length) (h : Half) (p : Port) (hm : (h, p) ∈ sv) :
    connectedVia sv chain p = some h := by
  have hinv := chain_inv sv chain hfresh
  simp only at hinv
  obtain ⟨hids, hres⟩ := hinv
  have hp : p ∈ (forwardChain (batch sv) chain).1.map (·.id) := by
    rw [hids]; exact List.mem_map.mpr ⟨(h, p), hm, rfl⟩
  obtain ⟨r0, hr0, hr0id⟩ := List.mem_map.mp hp
  obtain ⟨r, hr⟩ := find_exists _ (·.id == p) r0 hr0 (by simp [hr0id])
  have hs := find_some_spec _ _ _ hr
  have hid : r.id = p := by simpa using hs.1
  unfold connectedVia requestFor
  simp only [hr, hres r hs.2, hid]
  simp only [ownerOf, find_key_unique sv h p hnd hm]
  rfl

/-! ### re-serialization hops (mpsc, oneshot, watch, broadcast halves sent on) -/

/-- one re-serialization hop leaves every counterpart where it was: received half `j` is connected to
relay `j`, which hands over to what half `j` was connected to -/
theorem reserialize_hop (cp : List (Option Half)) (ports : List Port) (hnd : ports.Nodup) (hlen : ports.length = cp.length)
    (reqs : List Req) (hperm : reqs.Perm (batch (serialize ((List.range cp.length).map relayHalf) ports))) :
    reserializeHop cp ports reqs = cp := by
  apply List.ext_getElem
  · simp [reserializeHop]
  · intro j h1 h2
    simp only [reserializeHop, List.getElem_map, List.getElem_range]
    have hj : j < ports.length := by omega
    simp only [List.getElem?_eq_getElem hj]
    have hm : (relayHalf j, ports[j]) ∈ serialize ((List.range cp.length).map relayHalf) ports := by
      unfold serialize
      have hz : j < (((List.range cp.length).map relayHalf).zip ports).length := by simp; omega
      have := List.getElem_mem hz
      simpa [List.getElem_zip] using this
    have hnd' : ((serialize ((List.range cp.length).map relayHalf) ports).map (·.2)).Nodup := by
      unfold serialize
      rw [List.map_snd_zip]
      · exact hnd
      · simp; omega
    rw [wiring_one_hop _ hnd' reqs hperm _ _ hm]
    simp [relayHalf, List.getElem?_eq_getElem h2]

/-- **`wiring_bijective`, any hop count.**  `hs` are the counterparts that stay behind; every hop is a
re-serialization with pairwise distinct ports whose requests arrive in any order.  After all hops
received half `j` is connected, through the chain of relays, to `hs[j]` and to nothing else. -/
theorem wiring_bijective (hs : List Half) (hops : List (List Port × List Req))
    (hok : ∀ h ∈ hops, h.1.Nodup ∧ h.1.length = hs.length ∧
      h.2.Perm (batch (serialize ((List.range hs.length).map relayHalf) h.1))) :
    hops.foldl (fun cp h => reserializeHop cp h.1 h.2) (hs.map some) = hs.map some := by
  induction hops with
  | nil => rfl
  | cons h rest ih =>
    simp only [List.foldl_cons]
    have hh := hok h (by simp)
    have : reserializeHop (hs.map some) h.1 h.2 = hs.map some := by
      apply reserialize_hop
      · exact hh.1
      · simp [hh.2.1]
      · simpa using hh.2.2
    rw [this]
    exact ih (fun x hx => hok x (by simp [hx]))

/-! ### interlock (finding FB2) -/

/-- repaired interlock: once the sender of a bin / lr channel has been serialized for sending, serializing
the receiver never takes the local-remote branch again (bin: it forwards; lr: it is refused) -/
theorem interlock_single_connection (lr : Bool) :
    (serializeSender true lr {}).1 = .localRemote ∧
    (serializeReceiver true lr (serializeSender true lr {}).2).1 = (if lr then .refused else .forwarding) ∧
    (serializeReceiver true lr {}).1 = .localRemote ∧
    (serializeSender true lr (serializeReceiver true lr {}).2).1 = (if lr then .refused else .forwarding) := by
  cases lr <;> decide

/-- the pinned code: both halves take the local-remote branch, i.e. both new ports get connected to the
halves that have just been sent away (FB2) -/
theorem interlock_pinned_ineffective (lr : Bool) :
    (serializeSender false lr {}).1 = .localRemote ∧
    (serializeReceiver false lr (serializeSender false lr {}).2).1 = .localRemote := by
  cases lr <;> decide

/-- **Retry with the other half.**  A send that fails after it serialized one half of a bin / lr channel
hands the half back and returns the interlock to "local": sending the *other* half afterwards is the
ordinary local-remote case again (the received half is wired to the handed-back counterpart).  Only a
send whose port requests went out makes the second half forward (bin) or be refused (lr). -/
theorem interlock_failed_send_restores (lr : Bool) :
    (serializeReceiver true lr ((serializeSender true lr {}).2.endSend false)).1 = .localRemote ∧
    (serializeSender true lr ((serializeReceiver true lr {}).2.endSend false)).1 = .localRemote ∧
    ((serializeSender true lr {}).2.endSend false) = {} ∧
    (serializeReceiver true lr ((serializeSender true lr {}).2.endSend true)).1 = (if lr then .refused else .forwarding) ∧
    (serializeSender true lr ((serializeReceiver true lr {}).2.endSend true)).1 = (if lr then .refused else .forwarding) := by
  cases lr <;> decide

/-! ### a half that cannot be connected -/

def ConnInv (s : ConnSt) : Prop :=
  match s.phase with
  | .serialized => s.stay = .nothingYet ∧ s.travel = .nothingYet
  | .unsent => s.stay = .nothingYet ∧ s.travel = .absent
  | .requested => s.stay = .nothingYet ∧ (s.travel = .nothingYet ∨ s.travel = .connected)
  | .accepted => s.stay = .connected ∧ s.travel = .connected
  | .rejected => s.travel = .absent ∧ (s.stay = .nothingYet ∨ s.stay = .error)
  | .lost => s.stay = .error ∧ (s.travel = .error ∨ s.travel = .absent)

theorem connInv_step (s s' : ConnSt) (l : ConnLabel) (hi : ConnInv s) (hs : connStep s l = some s') : ConnInv s' := by
  obtain ⟨ph, st, tr⟩ := s
  cases l <;> cases ph <;> simp only [connStep, ConnInv] at hs hi ⊢ <;>
    (repeat' split at hs) <;> simp_all <;> (try (subst hs; simp_all))

theorem connInv_reachable (s : ConnSt) (h : ConnReachable s) : ConnInv s := by
  obtain ⟨ls, rfl⟩ := h
  suffices ∀ s0, ConnInv s0 → ConnInv (connRun s0 ls) from this {} (by simp [ConnInv])
  induction ls with
  | nil => intro s0 h0; exact h0
  | cons l ls ih =>
    intro s0 h0
    simp only [connRun]
    split
    · rename_i s1 hs; exact ih s1 (connInv_step s0 s1 l h0 hs)
    · exact ih s0 h0

/-- **`unconnectable_is_error`.**  In every reachable state in which no response is in flight:
a rejected or dropped request, exhausted ports at the receiver (the value cannot be deserialized, its
requests are dropped) or a lost connection have resolved the half that stayed to an error, and the half
that travelled to an error or it never came into existence; an accepted request has connected both; a
request is still unanswered only if the peer has not yet looked at it.  A failed send hands the half back
(`unsent`).  Never a half that waits although its fate is decided. -/
theorem unconnectable_is_error (s : ConnSt) (h : ConnReachable s) (hq : Quiescent s) :
    ((s.phase = .rejected ∨ s.phase = .lost) → s.stay = .error ∧ (s.travel = .error ∨ s.travel = .absent)) ∧
    (s.phase = .accepted → s.stay = .connected ∧ s.travel = .connected) ∧
    (s.phase = .requested → s.travel = .nothingYet) := by
  have hi := connInv_reachable s h
  obtain ⟨ph, st, tr⟩ := s
  unfold Quiescent at hq
  cases ph <;> simp only [ConnInv, connStep] at hi hq ⊢ <;> simp_all

/-! ### non-vacuity -/

/-- three halves, requests arriving in reverse order, then two forwarding hops -/
def sv3 : List (Half × Port) := [({ chan := 1 }, 70), ({ chan := 2, isSender := false }, 5), ({ chan := 3, kind := 2 }, 900)]

example : connected sv3 (batch sv3).reverse 5 = some { chan := 2, isSender := false } ∧
    connectedVia sv3 [[11, 12, 13], [7, 70, 5]] 900 = some { chan := 3, kind := 2 } ∧
    connectedVia sv3 [[11, 12, 13], [7, 70, 5]] 70 = some { chan := 1 } := by decide

/-- matching by position instead of by id would cross-wire as soon as the orders differ -/
example : ((batch sv3).reverse)[0]? = some { port := 900, id := 900 } ∧ (sv3.map (·.2))[0]? = some 70 := by decide

example : (connRun {} [.batchSent, .rejectNoPorts, .deliverResponse]).stay = .error ∧
    (connRun {} [.batchSent, .accept, .deliverResponse, .connLost]).travel = .error ∧
    connStep (connRun {} [.batchSent, .rejectNoPorts, .deliverResponse]) .deliverResponse = none := by decide

end Remoc.Wiring

/-! ### the forwarding hop as performed by the forwarder model (`chmux::forward`, `Received::Requests`) -/

namespace Remoc.Link

/-- **Requests are forwarded with their ids, in order, and request `k` follows connect `k`.**  In every
reachable state of the forwarder model (as coded), for every forwarded batch with received ids `i_1..i_n`:
the port requests passed to the downstream `connect` carry exactly these ids in this order, on pairwise distinct
fresh ports; one task per request was spawned, and the `k`-th task owns request `k` and awaits connect `k`.
For every spawned task: the connect it awaits carries the id of the request it owns, and the task accepts its
request only if *that* connect was accepted, and rejects it — with `no_ports` as classified — only if *that*
connect failed.  While a `connect` is in progress its argument carries the received ids. -/
theorem forward_requests_paired (ca cb : Cfg) (f : Fwd) (h : FReachable .asCoded ca cb f) :
    (∀ B ∈ f.batches,
      B.ports.map (·.id) = B.ids ∧ (B.ports.map (·.port)).Nodup ∧ B.pairs.length = B.ids.length ∧
      ∀ (k : Nat) (t : PairTask), B.pairs[k]? = some t → t.upIdx = k ∧ B.ids[k]? = some t.upId ∧ B.ports[k]? = some t.out) ∧
    (∀ t ∈ f.tasks, t.out.id = t.upId ∧ TaskOk t) ∧
    f.tasks.map PairTask.key = (f.batches.flatMap (·.pairs)).map PairTask.key ∧
    (∀ ids ports, f.ph = .connect ids ports → ports.map (·.id) = ids) := by
  have hp := fport_reachable .asCoded ca cb f h
  have hB : ∀ B ∈ f.batches, B.pairs = pairFrom 0 B.ids B.ports := fun B hBm => (hp.batches B hBm).pairs
  refine ⟨?_, ?_, hp.tasksKeys, hp.connIds⟩
  · intro B hBm
    obtain ⟨hids, hnd, _, _⟩ := hp.batches B hBm
    have hlen : B.ports.length = B.ids.length := by rw [← hids]; simp
    refine ⟨hids, hnd, by rw [hB B hBm, pairFrom_length]; omega, ?_⟩
    intro k t hk
    rw [hB B hBm] at hk
    obtain ⟨h1, h2, h3, _⟩ := pairFrom_get 0 B.ids B.ports k t hk
    exact ⟨by omega, h2, h3⟩
  · intro t ht
    refine ⟨?_, hp.tasksOk t ht⟩
    have hk : t.key ∈ (f.batches.flatMap (·.pairs)).map PairTask.key := by
      rw [← hp.tasksKeys]; exact List.mem_map.mpr ⟨t, ht, rfl⟩
    obtain ⟨t0, ht0, hkey⟩ := List.mem_map.mp hk
    obtain ⟨B, hBm, ht0B⟩ := List.mem_flatMap.mp ht0
    rw [hB B hBm] at ht0B
    have := pairFrom_id 0 B.ids B.ports (hp.batches B hBm).ids t0 ht0B
    simp only [PairTask.key, Prod.mk.injEq] at hkey
    rw [← hkey.2.1, ← hkey.2.2]; exact this


theorem flatMap_ids_congr (bs : List Batch) (h : ∀ B ∈ bs, B.ports.map (·.id) = B.ids) :
    bs.flatMap (fun B => B.ports.map (·.id)) = bs.flatMap (·.ids) := by
  induction bs with
  | nil => rfl
  | cons B rest ih =>
    simp only [List.flatMap_cons]
    rw [h B (by simp), ih (fun B' hB' => h B' (by simp [hB']))]

/-- **The ids on the downstream wire.**  As long as no downstream operation failed or was abandoned, the ids
carried by the `PortData` frames the forwarder has put on the downstream link, followed by the ids the `connect`
in progress has still to send, are exactly — in order, batch by batch — the ids of the port requests it received:
those of all forwarded batches, then those of the batch being connected.  Between two operations (`idle`) the ids
on the wire are the received ids. -/
theorem forward_ids_on_wire (ca cb : Cfg) (f : Fwd) (h : FReachable .asCoded ca cb f)
    (hne : f.ph ≠ .done .errSend) :
    portIds f.b.emitted ++ curRest f.b =
      f.batches.flatMap (·.ids) ++ (match f.ph with | .connect ids _ => ids | _ => []) ∧
    (f.ph = .idle → portIds f.b.emitted = f.batches.flatMap (·.ids)) := by
  have hw := wire_reachable .asCoded ca cb f h hne
  have hp := fport_reachable .asCoded ca cb f h
  have hc := (fjoint_reachable .asCoded ca cb f h).core
  have hb : f.batches.flatMap (fun B => B.ports.map (·.id)) = f.batches.flatMap (·.ids) :=
    flatMap_ids_congr f.batches (fun B hB => (hp.batches B hB).ids)
  have hconn : f.ph.connIds = (match f.ph with | .connect ids _ => ids | _ => []) := by
    cases hph : f.ph with
    | connect ids ports => simp only [Phase.connIds]; exact hp.connIds ids ports hph
    | _ => rfl
  constructor
  · rw [hw, wireIds, hb, hconn]
  · intro hph
    have hcr : curRest f.b = [] := by
      apply curRest_of_kind
      rw [hc.cur, hph]; simp [Phase.curKind]
    rw [hcr, List.append_nil] at hw
    rw [hw, wireIds, hb, hph]; simp [Phase.connIds]

/-- non-vacuity, and seeded bug (a): a batch of two requests with ids 10 and 20 is forwarded on the fresh ports
5 and 6.  As coded, the task of request 10 awaits the connect that carries id 10; with the reversed pairing
(`reqs.zip(connects.rev())`) it awaits the connect that carries id 20 — `forward_requests_paired` fails for the
mutated pairing, kernel-checked. -/
def portsCfg : Cfg := { chunk := 16, limit := 16, maxData := 64, maxPorts := 8 }
def portsRun : List FLabel :=
  [.up (.startConnect [10, 20]), .up .request, .up .emit, .up .muxRecv, .recvAny,
   .alloc 5, .alloc 6, .connect, .down .request, .emit,
   .connResp 0 .accepted, .connResp 1 (.failed true), .acceptDone 0 true]

example : (frun .asCoded portsCfg portsCfg (finit portsCfg portsCfg) portsRun).tasks =
      [{ upIdx := 0, upId := 10, out := ⟨5, 10⟩, resp := some .accepted, st := .piped },
       { upIdx := 1, upId := 20, out := ⟨6, 20⟩, resp := some (.failed true), st := .rejected true }] ∧
    (frun .asCoded portsCfg portsCfg (finit portsCfg portsCfg) portsRun).b.emitted = [.ports [10, 20] true true] ∧
    portIds (frun .asCoded portsCfg portsCfg (finit portsCfg portsCfg) portsRun).b.emitted = [10, 20] ∧
    (frun .asCoded portsCfg portsCfg (finit portsCfg portsCfg) portsRun).batches.flatMap (·.ids) = [10, 20] ∧
    (frun .asCoded portsCfg portsCfg (finit portsCfg portsCfg) portsRun).ph = .idle := by decide

example : (frun .reversed portsCfg portsCfg (finit portsCfg portsCfg) portsRun).tasks =
      [{ upIdx := 0, upId := 10, out := ⟨6, 20⟩, resp := some .accepted, st := .piped },
       { upIdx := 1, upId := 20, out := ⟨5, 10⟩, resp := some (.failed true), st := .rejected true }] ∧
    ¬ (∀ t ∈ (frun .reversed portsCfg portsCfg (finit portsCfg portsCfg) portsRun).tasks, t.out.id = t.upId) := by
  decide

end Remoc.Link

/-! ### `forward_preserves_wiring`, with the forwarding hops derived from the forwarder model -/

namespace Remoc.Wiring

/-- **The forwarder model performs exactly the hop the wiring model assumes.**  For a batch recorded in a
reachable state of the forwarder model (as coded) and the received requests `reqs` (ids as received):
the batch sent on and the pipes of the spawned pairs are `forwardHop reqs fresh` for the ports `fresh` the
forwarder allocated, and these are pairwise distinct and as many as the requests — the hypotheses
`forward_preserves_wiring` makes about a hop. -/
theorem forward_model_hop (ca cb : Link.Cfg) (f : Link.Fwd) (h : Link.FReachable .asCoded ca cb f)
    (B : Link.Batch) (hB : B ∈ f.batches) (reqs : List Req) (hr : reqs.map (·.id) = B.ids) :
    hopOfBatch B reqs = forwardHop reqs (B.ports.map (·.port)) ∧
    (B.ports.map (·.port)).Nodup ∧ (B.ports.map (·.port)).length = reqs.length := by
  obtain ⟨hids, hnd, hpairs, _⟩ := (Link.fport_reachable .asCoded ca cb f h).batches B hB
  have hlen : B.ports.length = reqs.length := by
    have := congrArg List.length (hids.trans hr.symm); simpa using this
  have hil : B.ids.length = B.ports.length := by rw [← hids]; simp
  refine ⟨?_, hnd, by simpa using hlen⟩
  simp only [hopOfBatch, forwardHop, Hop.mk.injEq]
  constructor
  · exact (out_zip B.ports reqs (hids.trans hr.symm)).symm
  · rw [hpairs]
    simp only [Link.pairUp]
    rw [pipes_pairFrom 0 B.ids B.ports reqs hil (by simpa using hlen.symm)]
    simp

/-- batches recorded along a chain of forwarders: each one received the ids the previous one's `connect` carried -/
def chained : List Nat → List Link.Batch → Prop
  | _, [] => True
  | ids, B :: rest => B.ids = ids ∧ chained (B.ports.map (·.id)) rest

theorem chained_ids (ids : List Nat) (hops : List Link.Batch)
    (hmodel : ∀ B ∈ hops, B.ports.map (·.id) = B.ids) (hch : chained ids hops) : ∀ B ∈ hops, B.ids = ids := by
  induction hops generalizing ids with
  | nil => intro B hB; simp at hB
  | cons B0 rest ih =>
    intro B hB
    obtain ⟨h0, hrest⟩ := hch
    simp only [List.mem_cons] at hB
    rcases hB with rfl | hB
    · exact h0
    · have := ih (B0.ports.map (·.id)) (fun B hB => hmodel B (by simp [hB])) hrest B hB
      rw [this, hmodel B0 (by simp), h0]

/-- **`wiring_bijective`, forwarded — derived from the forwarder model.**  Along any chain of `chmux::forward`
hops, each a batch recorded in a reachable state of the forwarder model and each receiving what its predecessor
sent, the received half that carries `p` is connected — through the pipes of the forwarders — to exactly the
half that was serialized with `p`.  Freshness, distinctness and id preservation of every hop are consequences
of the model (`forward_requests_paired`), no longer hypotheses. -/
theorem forward_preserves_wiring_of_model (sv : List (Half × Port)) (hnd : (sv.map (·.2)).Nodup)
    (hops : List Link.Batch)
    (hmodel : ∀ B ∈ hops, ∃ ca cb f, Link.FReachable .asCoded ca cb f ∧ B ∈ f.batches)
    (hch : chained (sv.map (·.2)) hops) (h : Half) (p : Port) (hm : (h, p) ∈ sv) :
    connectedVia sv (hops.map (fun B => B.ports.map (·.port))) p = some h := by
  have hok : ∀ B ∈ hops, B.ports.map (·.id) = B.ids ∧ (B.ports.map (·.port)).Nodup := by
    intro B hB
    obtain ⟨ca, cb, f, hr, hBm⟩ := hmodel B hB
    obtain ⟨h1, h2, _, _⟩ := (Link.fport_reachable .asCoded ca cb f hr).batches B hBm
    exact ⟨h1, h2⟩
  have hids := chained_ids _ hops (fun B hB => (hok B hB).1) hch
  apply forward_preserves_wiring sv hnd _ _ h p hm
  intro fr hfr
  obtain ⟨B, hB, rfl⟩ := List.mem_map.mp hfr
  refine ⟨(hok B hB).2, ?_⟩
  have := congrArg List.length ((hok B hB).1.trans (hids B hB))
  simp only [List.length_map] at this ⊢
  omega

/-- seeded bug (a) in wiring terms: two halves on ports 10 and 20 are forwarded on the fresh ports 5 and 6.  As
coded, port 5 (which carries id 10 to the far endpoint) is piped to request port 10; with the reversed pairing it is
piped to request port 20: the far half `10` ends up connected to the half serialized with `20`. -/
def svAB : List (Half × Port) := [({ chan := 1 }, 10), ({ chan := 2 }, 20)]
def batchOf (v : Link.Pairing) : Link.Batch :=
  { ids := [10, 20], ports := [⟨5, 10⟩, ⟨6, 20⟩], pairs := Link.pairUp v [10, 20] [⟨5, 10⟩, ⟨6, 20⟩] }

example : hopOfBatch (batchOf .asCoded) (batch svAB) = forwardHop (batch svAB) [5, 6] ∧
    upstream (hopOfBatch (batchOf .asCoded) (batch svAB)) 5 = some 10 ∧
    ownerOf svAB 10 = some { chan := 1 } := by decide

example : upstream (hopOfBatch (batchOf .reversed) (batch svAB)) 5 = some 20 ∧
    ownerOf svAB 20 = some { chan := 2 } ∧
    hopOfBatch (batchOf .reversed) (batch svAB) ≠ forwardHop (batch svAB) [5, 6] := by decide

end Remoc.Wiring
