import RemocModel.Watch.Inv
/-
C15 — Watch channels converge to the latest value and never go backwards.

All theorems are about M_watch (`RemocModel/Watch/Model.lean`) and hold for every reachable state, i.e.
for all label lists: all update sequences, all moments of clone / subscribe / transfer of a receiver or of
the sender relative to the updates, all forwarding schedules, any number of hops (the cell forest is
unbounded).  Values are their send index (0 = initial value, k = k-th successful send), so
`lastSent s` (the root cell's value) is the index of the last value sent, and "was sent" is `≤ lastSent`.
`rc.obs` is the ghost list of everything a receiver observed (`borrow`, `borrow_and_update`, `wait_for`,
stream items), inherited by clones and kept across transfers.
-/
namespace Remoc.Watch

/-- Every value a receiver observes was sent. -/
theorem observed_was_sent {s : State} (hr : Reachable s) {r : Nat} {rc : Rcv} (h : s.rcvs[r]? = some rc) :
    ∀ o ∈ rc.obs, o ≤ lastSent s :=
  ((inv_reachable hr).rcvOk r rc h).2.1

/-- Observations are in sending order: the observed send indices never decrease … -/
theorem observed_monotone {s : State} (hr : Reachable s) {r : Nat} {rc : Rcv} (h : s.rcvs[r]? = some rc) :
    rc.obs.Pairwise (· ≤ ·) :=
  ((inv_reachable hr).rcvOk r rc h).1

/-- … i.e. never an older value after a newer one, also across clone and transfer. -/
theorem never_older_after_newer {s : State} (hr : Reachable s) {r : Nat} {rc : Rcv} (h : s.rcvs[r]? = some rc)
    {pre mid post : List Nat} {a b : Nat} (hsplit : rc.obs = pre ++ a :: (mid ++ b :: post)) : a ≤ b := by
  have := observed_monotone hr h
  rw [hsplit, List.pairwise_append] at this
  have h2 := this.2.1
  rw [List.pairwise_cons] at h2
  exact h2.1 b (by simp)

/-
"Eventually" is stated the way DESIGN.md 3.6 prescribes: judged at quiescence.  What is NOT proved here is
the companion measure (no livelock): once `send`/`transfer…` labels stop, the internal labels
`fwdTake/fwdSend/fwdExit/store/storeEof` can only be taken finitely often, i.e.

    theorem forwarding_terminates : ∀ s, Reachable s → ∃ n, ∀ ls, (∀ l ∈ ls, l.internal) →
        (every label of ls is enabled when taken from s) → ls.length ≤ n

(each hop forwards at most once per version change of its upstream, so the bound is the sum over cells of
the pending versions along the path to the root).  The harness observes it on the real system: every
`settle` returns.  Scheduler fairness is assumed.
-/

/-- (convergence, any hop count) In every reachable quiescent state — no forwarder, port or remote store has
anything left to do — every cell of the forest, however many hops from the sender, holds the last value
sent, and is closed exactly if the sender was dropped. -/
theorem eventually_last {s : State} (hr : Reachable s) (hq : Quiescent s) {c : Nat} {cell : Cell}
    (hc : s.cells[c]? = some cell) : cell.val = lastSent s ∧ cell.closed = !s.senderAlive :=
  quiescent_cell (inv_reachable hr) hq _ c cell hc rfl

/-- … so what any live receiver — original, cloned, subscribed or transferred while updates were in flight —
reads in such a state is the last value sent. -/
theorem receiver_reads_last {s s' : State} (hr : Reachable s) (hq : Quiescent s) {r : Nat} {upd : Bool}
    (hs : step s (.observe r upd) = some s') :
    ∃ rc', s'.rcvs[r]? = some rc' ∧ rc'.obs.getLast? = some (lastSent s) := by
  simp only [step] at hs
  split at hs
  · rename_i rc hrc
    split at hs
    · rename_i cell hc
      split at hs
      · simp only [Option.some.injEq] at hs; subst hs
        rw [updRcv_eq hrc]
        have hlt := (List.getElem?_eq_some_iff.mp hrc).1
        refine ⟨{ rc with obs := rc.obs ++ [cell.val], seen := if upd then cell.ver else rc.seen }, by simp [hlt], ?_⟩
        simp [(eventually_last hr hq hc).1]
      · simp at hs
    · simp at hs
  · simp at hs

/-- After the sender is dropped nothing can change the last value sent: no label sends any more. -/
theorem no_send_after_drop {s : State} (hr : Reachable s) (hsa : s.senderAlive = false) :
    step s .send = none ∧ step s .transferSender = none ∧ step s .subscribe = none := by
  obtain ⟨rc, hrc, _, _⟩ := (inv_reachable hr).rootOk
  simp [step, hrc, hsa]

/-- (the value sent immediately before the drop is not lost) `send` directly followed by `dropSender`:
the value just sent is the last value sent, and in every quiescent state reached afterwards every cell
holds it and is closed — because the forwarder looks at the version before the closed flag. -/
theorem last_value_before_drop {s : State} (hr : Reachable s) (hsa : s.senderAlive = true)
    (ls : List Label) (hq : Quiescent (run s (.send :: .dropSender :: ls))) {c : Nat} {cell : Cell}
    (hc : (run s (.send :: .dropSender :: ls)).cells[c]? = some cell) :
    cell.val = lastSent (run s (.send :: .dropSender :: ls)) ∧ cell.closed = true ∧
      (run s (.send :: .dropSender :: ls)).senderAlive = false := by
  obtain ⟨ls0, hls0⟩ := hr
  have hreach : Reachable (run s (.send :: .dropSender :: ls)) := by
    refine ⟨ls0 ++ (.send :: .dropSender :: ls), ?_⟩
    have : ∀ (a b : List Label) (t : State), run t (a ++ b) = run (run t a) b := by
      intro a
      induction a with
      | nil => intro b t; rfl
      | cons l a ih => intro b t; simp only [List.cons_append, run]; cases step t l <;> exact ih _ _
    rw [this, hls0]
  have hdead : (run s (.send :: .dropSender :: ls)).senderAlive = false := by
    obtain ⟨rc, hrc, _, _⟩ := (inv_reachable ⟨ls0, hls0⟩).rootOk
    have h1 : ∃ s1, step s .send = some s1 ∧ s1.senderAlive = true ∧ ∃ rc1, s1.cells[s1.root]? = some rc1 := by
      have hlt := (List.getElem?_eq_some_iff.mp hrc).1
      refine ⟨_, by simp only [step, hrc, hsa, if_true]; rfl, ?_, ?_⟩
      · simp [updCell, hrc, hsa]
      · simp [updCell, hrc, hlt]
    obtain ⟨s1, hs1, hsa1, rc1, hrc1⟩ := h1
    have h2 : ∃ s2, step s1 .dropSender = some s2 ∧ s2.senderAlive = false := by
      refine ⟨_, by simp only [step, hrc1, hsa1, if_true]; rfl, rfl⟩
    obtain ⟨s2, hs2, hsa2⟩ := h2
    simp only [run, hs1, hs2]
    -- the flag never comes back
    have : ∀ (ls : List Label) (t : State), t.senderAlive = false → (run t ls).senderAlive = false := by
      intro ls
      induction ls with
      | nil => intro t ht; exact ht
      | cons l ls ih =>
        intro t ht
        simp only [run]
        cases hst : step t l with
        | none => exact ih t ht
        | some t' =>
          apply ih t'
          cases l <;> simp only [step] at hst <;> (repeat' split at hst) <;>
            simp_all [updCell, updRcv] <;> (try (subst hst; simp_all))
    exact this ls s2 hsa2
  have := eventually_last hreach hq hc
  exact ⟨this.1, by simpa [hdead] using this.2, hdead⟩

/-! ### non-vacuity: concrete runs -/

/-- two updates, receiver 0 transferred while the second is unsent, a third update racing the transfer,
then the forwarder runs: the remote cell converges to the last value -/
def exRun : List Label :=
  [.send, .send, .transfer 0, .send, .observe 0 false, .fwdTake 1, .fwdSend 1, .store 1, .observe 0 true]

example : (run init exRun).rcvs.map (·.obs) = [[2, 3]] := by decide
example : (run init exRun).cells.map (·.val) = [3, 3] := by decide
example : Reachable (run init exRun) := ⟨exRun, rfl⟩
/-- a quiescent two-hop state after a send directly followed by the sender drop: both remote cells hold the
last value and are closed -/
def exDrop : List Label :=
  [.transfer 0, .transfer 0, .send, .dropSender,
   .fwdTake 1, .fwdSend 1, .store 1, .fwdExit 1, .storeEof 1,
   .fwdTake 2, .fwdSend 2, .store 2, .fwdExit 2, .storeEof 2]
example : (run init exDrop).cells.map (fun c => (c.val, c.closed)) = [(1, true), (1, true), (1, true)] := by decide
example : ∀ c, c < 3 → step (run init exDrop) (.fwdTake c) = none ∧ step (run init exDrop) (.fwdExit c) = none ∧
    step (run init exDrop) (.store c) = none ∧ step (run init exDrop) (.storeEof c) = none ∧
    step (run init exDrop) (.fwdSend c) = none := by decide
/-- the forwarder cannot exit while a version is unseen, even though the upstream is already closed -/
example : step (run init [.transfer 0, .send, .dropSender]) (.fwdExit 1) = none := by decide
/-- sender moved to another endpoint: the old cell becomes downstream of the new one and still converges -/
example : (run init [.send, .transferSender, .send, .fwdTake 0, .fwdSend 0, .store 0, .observe 0 true]).rcvs.map (·.obs)
    = [[2]] := by decide

end Remoc.Watch
