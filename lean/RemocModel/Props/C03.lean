import RemocModel.Link.Inv
import RemocModel.Link.ReceiverInv
import RemocModel.Props.C02
import RemocModel.Link.Shared
set_option linter.unusedSimpArgs false

/-!
# C03 — flow-control liveness: no credit leak, no livelock, no stuck operation at quiescence

Theorems about M_link.  Liveness is stated the way the property judges it: *at quiescence*
(no internal label enabled) of a healthy transport, after the receiver has consumed what was
delivered, no send or port-open operation is left pending — for every reachable state, i.e.
after any history of completed, failed and cancelled operations.  "No credit leak" is
`credit_conservation` (C02), which quantifies over histories with arbitrary `cancel` labels.

Partial (named in DESIGN.md): the wake-up of a task waiting for credits and scheduler fairness
are runtime facts outside the model; the correspondence harness checks them with its quiescence
detector (`hang` events).
-/

namespace Remoc.Link

theorem threshold_pos (limit : Nat) : 1 ≤ threshold limit := by
  unfold threshold; split <;> omega

/-- **The return threshold always leaves room for one port request.**  If fewer credits than the
threshold are withheld by the receiver, at least four credits (one port number) are available to
the sender side — for every receive buffer size ≥ 4, multiples of four or not. -/
theorem threshold_gives_four (limit toReturn : Nat) (h4 : 4 ≤ limit) (h : toReturn < threshold limit) :
    4 ≤ limit - toReturn := by
  unfold threshold at h; split at h <;> omega

theorem returnCredits_lt (limit : Nat) (r : Receiver) (k : Nat) :
    (returnCredits limit r k).1.toReturn < threshold limit := by
  have := threshold_pos limit
  unfold returnCredits
  simp only []
  split
  · simp; omega
  · simp; omega

theorem returnFor_lt (limit : Nat) (r : Receiver) (f : Frame) (h : r.toReturn < threshold limit) :
    (returnFor limit r f).1.toReturn < threshold limit := by
  unfold returnFor
  split
  · exact h
  · exact returnCredits_lt limit r _

theorem nextMsg_toReturn (r : Receiver) (f : Frame) (r0 : Receiver) (h : nextMsg r = some (f, r0)) :
    r0.toReturn = r.toReturn := (nextMsg_spec r f r0 h).2.2.1

theorem recvAnyStep_toReturn (c : Cfg) (r r' : Receiver) (bk : List Back) (f : Frame) (out : Option Out)
    (h : recvAnyStep c r = some (r', bk, f, out)) (ht : r.toReturn < threshold c.limit) :
    r'.toReturn < threshold c.limit := by
  unfold recvAnyStep at h
  split at h
  · simp at h
  · split at h
    · simp at h
    · rename_i f0 r0 hn
      have := returnFor_lt c.limit r0 f0 (by rw [nextMsg_toReturn r f0 r0 hn]; exact ht)
      simp only [Option.some.injEq, Prod.mk.injEq] at h
      obtain ⟨rfl, rfl, rfl, rfl⟩ := h
      exact this

theorem recvChunkStep_toReturn (c : Cfg) (r r' : Receiver) (bk : List Back) (f : Option Frame) (out : Option Out)
    (h : recvChunkStep c r = some (r', bk, f, out)) (ht : r.toReturn < threshold c.limit) :
    r'.toReturn < threshold c.limit := by
  unfold recvChunkStep at h
  split at h
  · simp only [Option.some.injEq, Prod.mk.injEq] at h
    obtain ⟨rfl, rfl, rfl, rfl⟩ := h; exact ht
  · split at h
    · simp only [Option.some.injEq, Prod.mk.injEq] at h
      obtain ⟨rfl, rfl, rfl, rfl⟩ := h; exact ht
    · simp only [Option.some.injEq, Prod.mk.injEq] at h
      obtain ⟨rfl, rfl, rfl, rfl⟩ := h; exact ht
    · split at h
      · simp at h
      · rename_i f0 r0 hn
        split at h
        · simp only [Option.some.injEq, Prod.mk.injEq] at h
          obtain ⟨rfl, rfl, rfl, rfl⟩ := h; exact ht
        · have := returnFor_lt c.limit r0 f0 (by rw [nextMsg_toReturn r f0 r0 hn]; exact ht)
          simp only [Option.some.injEq, Prod.mk.injEq] at h
          obtain ⟨rfl, rfl, rfl, rfl⟩ := h
          exact this

/-- the receiver never withholds as many credits as the return threshold -/
theorem toReturn_step (c : Cfg) (st st' : State) (l : Label) (ht : st.r.toReturn < threshold c.limit)
    (h : step c st l = some st') : st'.r.toReturn < threshold c.limit := by
  cases l with
  | recvAny =>
    simp only [step] at h
    split at h
    · simp at h
    · split at h
      · simp at h
      · rename_i r bk f out hs
        have := recvAnyStep_toReturn c _ _ _ _ _ hs ht
        (repeat' split at h) <;> (obtain rfl := Option.some.inj h; exact this)
  | recvChunk =>
    simp only [step] at h
    split at h
    · simp at h
    · split at h
      · simp at h
      · split at h
        · simp at h
        · rename_i r bk f out hs
          have := recvChunkStep_toReturn c _ _ _ _ _ hs ht
          (repeat' split at h) <;> (obtain rfl := Option.some.inj h; exact this)
  | _ =>
    simp only [step] at h
    (repeat' split at h) <;> first
      | (simp at h; done)
      | (obtain rfl := Option.some.inj h; exact ht)

theorem toReturn_reachable (c : Cfg) (st : State) (h : Reachable c st) : st.r.toReturn < threshold c.limit := by
  obtain ⟨ls, rfl⟩ := h
  have h0 : (init c).r.toReturn < threshold c.limit := by
    have := threshold_pos c.limit; simp [init]; omega
  generalize init c = s0 at h0
  induction ls generalizing s0 with
  | nil => exact h0
  | cons l ls ih =>
    simp only [run]
    split
    · rename_i st' hs; exact ih st' (toReturn_step c s0 st' l h0 hs)
    · exact ih s0 h0

/-- internal labels: what the runtime does on its own (API starts, cancels, drops are the
environment's choice) -/
def Label.internal : Label → Bool
  | .giveBack | .request | .fail | .emit | .provide | .muxRecv => true
  | _ => false

/-- no internal step is possible -/
def Quiescent (c : Cfg) (st : State) : Prop := ∀ l, l.internal = true → step c st l = none

theorem emit_enabled (c : Cfg) (st : State) (x : Xfer) (hcur : st.s.cur = some x)
    (hr : x.ready st.s.held = true) : (step c st .emit).isSome = true := by
  simp only [step, hcur, hr, if_true]
  split
  · rfl
  · split <;> rfl

theorem request_enabled (c : Cfg) (st : State) (x : Xfer) (hcur : st.s.cur = some x)
    (hheld : st.s.held = 0) (hopen : st.s.open = true) (hpool : x.want.2 ≤ st.s.pool) :
    (step c st .request).isSome = true := by
  simp only [step, hcur]
  rw [if_pos ⟨hheld, by simp [Sender.mayRequest, hopen], hpool⟩]
  rfl

theorem giveBack_enabled (c : Cfg) (st : State) (rest : List Nat) (hcur : st.s.cur = some (.portReqs rest))
    (h0 : 0 < st.s.held) (h4 : st.s.held < 4) : (step c st .giveBack).isSome = true := by
  simp only [step, hcur]
  rw [if_pos ⟨h0, h4⟩]
  rfl

/-- **No operation is left waiting at quiescence.**  In every reachable state (any history of
completed, failed and cancelled sends and port batches) in which nothing more can happen
internally, the receiver has consumed what was delivered and the port is open, no send or
port-open request is pending — for every receive buffer ≥ 4, including those that are not
multiples of four. -/
theorem quiescent_no_pending (c : Cfg) (st : State) (h : Reachable c st) (h4 : 4 ≤ c.limit)
    (hq : Quiescent c st) (hcons : st.r.queue = []) (hopen : st.s.closed = none) :
    st.s.cur = none := by
  have hi := inv_reachable c st h
  have ht := toReturn_reachable c st h
  cases hcur : st.s.cur with
  | none => rfl
  | some x =>
    exfalso
    -- nothing in flight in either direction
    have hchan : st.chan = [] := by
      have := hq .muxRecv rfl
      simp only [step] at this
      cases hc : st.chan with
      | nil => rfl
      | cons f fs =>
        rw [hc] at this
        simp only [] at this
        (repeat' split at this) <;> simp at this
    have hback : st.back = [] := by
      have := hq .provide rfl
      simp only [step] at this
      cases hb : st.back with
      | nil => rfl
      | cons b bs =>
        rw [hb] at this
        simp only [] at this
        split at this <;> simp at this
    have hused : st.r.used = 0 := by rw [hi.used, hcons]; rfl
    have hcons' := hi.cons
    rw [hchan, hback, hused] at hcons'
    simp only [costs_nil, backSum_nil, Nat.add_zero] at hcons'
    have hfour := threshold_gives_four c.limit st.r.toReturn h4 ht
    have hopen' : st.s.open = true := by simp [Sender.open, hopen]
    have hpool : st.s.held = 0 → 4 ≤ st.s.pool := by intro h0; omega
    have contra : ∀ l, l.internal = true → (step c st l).isSome = true → False := by
      intro l hl hs; rw [hq l hl] at hs; simp at hs
    by_cases hready : x.ready st.s.held = true
    · exact contra .emit rfl (emit_enabled c st x hcur hready)
    · cases x with
      | bytes rest e fin =>
        have hheld : st.s.held = 0 := by
          simp only [Xfer.ready, decide_eq_true_eq] at hready; omega
        exact contra .request rfl
          (request_enabled c st _ hcur hheld hopen' (by simp only [Xfer.want]; have := hpool hheld; omega))
      | portReqs rest =>
        have hlt : st.s.held < 4 := by
          simp only [Xfer.ready, decide_eq_true_eq] at hready; omega
        by_cases hheld : st.s.held = 0
        · exact contra .request rfl
            (request_enabled c st _ hcur hheld hopen' (by simp only [Xfer.want]; exact hpool hheld))
        · exact contra .giveBack rfl (giveBack_enabled c st rest hcur (by omega) hlt)

/-- size of what a call still has to transmit -/
def Xfer.size : Xfer → Nat
  | .bytes rest e _ => rest.length + (if e then 1 else 0)
  | .portReqs rest => rest.length

/-- **No livelock.**  Every frame an operation emits makes progress: either the call returns or
strictly less remains to be sent.  In particular a port batch frame always carries at least one
port and a data frame at least one byte (except the single frame of an empty message). -/
theorem emit_progress (c : Cfg) (x : Xfer) (held : Nat) (first : Bool) (hc : 4 ≤ c.chunk)
    (hr : x.ready held = true)
    (hne : match x with | .bytes rest e _ => e = false → rest ≠ [] | .portReqs rest => rest ≠ []) :
    ∀ x', (emitFrame c x held first).2 = some x' → x'.size < x.size := by
  intro x' hx'
  cases x with
  | bytes rest e fin =>
    cases e with
    | true => simp [emitFrame] at hx'
    | false =>
      simp only [Xfer.ready, decide_eq_true_eq] at hr
      have hrest := hne rfl
      have hlen : 0 < rest.length := List.length_pos_iff.mpr hrest
      simp only [emitFrame] at hx'
      split at hx'
      · simp at hx'
      · obtain rfl := Option.some.inj hx'
        simp only [Xfer.size, List.length_drop, Bool.false_eq_true, if_false, Nat.add_zero]
        omega
  | portReqs rest =>
    simp only [Xfer.ready, decide_eq_true_eq] at hr
    have hlen : 0 < rest.length := List.length_pos_iff.mpr hne
    simp only [emitFrame] at hx'
    split at hx'
    · simp at hx'
    · obtain rfl := Option.some.inj hx'
      simp only [Xfer.size, List.length_drop]
      have h4 : 4 ≤ min c.chunk held := by omega
      have : 1 ≤ min c.chunk held / 4 := Nat.div_pos h4 (by omega) |> fun h => h
      omega

/-- every port batch frame carries at least one port (the F3 scenario emitted empty ones forever) -/
theorem ports_frame_nonempty (c : Cfg) (rest : List Nat) (held : Nat) (first : Bool) (hc : 4 ≤ c.chunk)
    (hr : (Xfer.portReqs rest).ready held = true) (hne : rest ≠ []) :
    match (emitFrame c (.portReqs rest) held first).1 with
    | .ports ids _ _ => ids ≠ []
    | _ => False := by
  simp only [Xfer.ready, decide_eq_true_eq] at hr
  simp only [emitFrame]
  have : 1 ≤ min c.chunk held / 4 := by
    have : 4 ≤ min c.chunk held := by omega
    omega
  intro h
  have hl := congrArg List.length h
  simp only [List.length_take, List.length_nil] at hl
  have hlen : 0 < rest.length := List.length_pos_iff.mpr hne
  omega

/-- **A stalled port never blocks the shared queue.**  Whatever the state of the two ports and of
their receivers (in particular: the receiver of `q` consumes nothing), the sending dispatcher can
forward the head of the shared event queue, and afterwards the queue is shorter: a slot that a port
occupies is always released without any action of a receiver. -/
theorem shared_queue_drains (cp cq : Cfg) (s : Shared) (h : s.evq ≠ []) :
    ∃ s', sstep cp cq s .fwd = some s' ∧ s'.evq.length + 1 = s.evq.length := by
  cases he : s.evq with
  | nil => exact absurd he h
  | cons x rest =>
    obtain ⟨w, f⟩ := x
    cases w <;> simp [sstep, he]

/-- **A port's progress does not depend on the other port's receiver.**  Every step of port `p`
that is enabled in a state is enabled in any state that differs only in port `q` — its receiver
half, its credits, its queues (the shared queue contents being equal). -/
theorem non_interference (cp cq : Cfg) (s s2 : Shared) (l : SLabel)
    (hp : s2.p = s.p) (he : s2.evq = s.evq) (hc : s2.cap = s.cap)
    (hl : match l with | .port w _ => w = false | .emit w => w = false | .fwd => False)
    (hen : (sstep cp cq s l).isSome = true) : (sstep cp cq s2 l).isSome = true := by
  cases l with
  | fwd => simp at hl
  | port w l' =>
    simp only [] at hl; subst hl
    cases l' <;> simp_all [sstep]
  | emit w =>
    simp only [] at hl; subst hl
    simp only [sstep, hp, he, hc] at hen ⊢
    split
    · rename_i hlt
      simp only [hlt, if_true] at hen
      cases hs : step cp s.p .emit <;> simp_all
    · rename_i hlt
      simp [hlt] at hen

/-- a port without credits does not even try to occupy a slot: `emit` needs held credits, and held
credits are only obtained from the port's own pool -/
theorem no_slot_without_credit (c : Cfg) (st : State) (x : Xfer) (hcur : st.s.cur = some x)
    (hheld : st.s.held = 0) : step c st .emit = none := by
  simp only [step, hcur]
  cases x <;> simp [Xfer.ready, hheld]

/-! ### a declined message still returns its credit

A receiver that answers `Received::Chunks` by calling `recv_any` again declines the rest of that message.  This is
outside the LTS (`recvAny` is disabled while a chunked message is read), but the statement is one about the function
`recvAnyStep` alone, for an arbitrary receiver state: every data chunk taken from the queue that does not start a new
message while no data message is being assembled is discarded, returns nothing to the caller, and its whole cost
leaves `used` and is either kept in `toReturn` or sent back.  (Seeded change C03-m3 returns the credit only for chunks
that are kept.) -/
theorem declined_chunk_returns_credit (c : Cfg) (r r' : Receiver) (bk : List Back) (p : Bytes) (last : Bool)
    (out : Option Out) (hr : ∀ bufs, r.receiving ≠ .data bufs)
    (h : recvAnyStep c r = some (r', bk, .data p false last, out)) :
    out = none ∧ r'.receiving = .nothing ∧ r'.used = r.used - max 1 p.length ∧
    r'.toReturn + backSum bk = r.toReturn + max 1 p.length := by
  have ha := recvAnyStep_acct c r r' bk _ out h
  have hs := recvAnyStep_sem c r r' bk _ out h
  have hf : anyFrame c r.receiving (.data p false last) = (.nothing, none) := by
    simp only [anyFrame]
    cases hrec : r.receiving with
    | data bufs => exact absurd hrec (hr bufs)
    | nothing => simp
    | chunks a b => simp
    | requests ids => simp
  refine ⟨?_, ?_, ?_, ?_⟩
  · rw [hs.2.2.1, hf]
  · rw [hs.2.1, hf]
  · simpa [Frame.cost] using ha.2.1
  · simpa [Frame.cost] using ha.2.2.1

/-- the premises are met: after `Received::Chunks` (third chunk crosses `maxData = 8`) the next `recv_any` iteration
discards the fourth chunk and hands its 4 credits back -/
example :
    let c : Cfg := { chunk := 4, limit := 16, maxData := 8, maxPorts := 8 }
    let r : Receiver := { used := 4, toReturn := 4, portq := [.data [1, 2, 3, 4] false true],
                          receiving := .chunks [[9, 9, 9, 9]] false }
    (recvAnyStep c r).map (fun x => (x.2.1, x.2.2.2, x.1.used, x.1.toReturn)) = some ([.credits 8], none, 0, 0) := by
  decide

/-! ### non-vacuity -/

/-- receive buffer 6 (not a multiple of four): two ports after one byte of data; the second batch
needs the left-over two credits handed back (F3 scenario) and completes -/
def c3 : Cfg := { chunk := 8, limit := 6, maxData := 100, maxPorts := 8 }
def f3Run : List Label :=
  [.startConnect [11, 22], .request, .emit,       -- first port (4 of 6 credits), 2 left over
   .giveBack,                                     -- fewer than four: handed back
   .muxRecv, .recvAny, .provide,                  -- receiver consumes, returns 4 credits
   .request, .emit, .muxRecv, .recvAny, .provide]

example : (run c3 (init c3) f3Run).s.cur = none ∧
    (run c3 (init c3) f3Run).emitted = [.ports [11] true false, .ports [22] false true] ∧
    (run c3 (init c3) f3Run).s.pool = 6 := by decide

example : Quiescent c3 (run c3 (init c3) f3Run) := by
  intro l hl
  cases l <;> simp [Label.internal] at hl <;> decide

end Remoc.Link
