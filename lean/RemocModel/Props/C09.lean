import RemocModel.Wire.Lemmas
set_option linter.unusedSimpArgs false

/-!
# C09 — wire format of protocol version 3 is stable and version-negotiated

Property theorems about `Remoc.Wire` (M_wire).  The model is the pinned,
independent statement of the layout; the correspondence check (`./check C09`)
compares `encode`/`decode` here with the real `MultiplexMsg::{to_vec,read}` on
generated messages and byte strings and with every frame a real endpoint puts
on a harness-owned transport.
-/

namespace Remoc.Wire

/-- **Round trip.**  Every message value a Rust `MultiplexMsg` can hold (all
field values, all flag combinations, any port list, with or without ids) is
decoded back to itself from its version-3 encoding. -/
theorem decode_encode (m : Msg) (h : m.WF) : decode (encode m) = .ok m := by
  cases m with
  | reset => rfl
  | ping => rfl
  | clientFinish => rfl
  | listenerFinish => rfl
  | goodbye => rfl
  | hello v c =>
    obtain ⟨hv, ht, hc, hc4, hb, hb4, hq, hq1⟩ := h
    have hmag : ∀ r : Bytes, (magic ++ r).take 6 = magic := by intro r; simp [magic]
    have hmagd : ∀ r : Bytes, (magic ++ r).drop 6 = r := by intro r; simp [magic]
    have hlen : ∀ r : Bytes, ¬ ((magic ++ r).length < 6) := by intro r; simp [magic]
    simp only [encode, encCfg, List.singleton_append, List.append_assoc, List.cons_append, List.nil_append]
    rw [decode_cons, show ∀ bs, decodeBody (UInt8.toNat 2) bs = decodeBody 2 bs from fun _ => rfl]
    simp only [decodeBody]
    simp only [hlen, hmag, hmagd, if_false, ne_eq, not_true_eq_false, ite_false]
    rw [rd1 v _ hv]
    simp only [decCfg]
    rw [rd8 _ _ ht]; simp only []
    rw [rd4 _ _ hc]; simp only []
    rw [if_neg (by omega)]
    rw [rd4 _ _ hb]; simp only []
    rw [if_neg (by omega)]
    have := rd2 c.cq [] hq
    simp only [List.append_nil] at this
    rw [this]; simp only []
    rw [if_neg (by omega)]
  | openPort p w id =>
    cases id with
    | none =>
      have hp : u32 p := h
      simp only [encode, List.singleton_append, List.cons_append, List.nil_append]
      rw [decode_cons, show ∀ bs, decodeBody (UInt8.toNat 4) bs = decodeBody 4 bs from fun _ => rfl]
      simp only [decodeBody]
      rw [rd4 p _ hp]; simp only []
      have := rd1 (b2n w) [] (by cases w <;> simp [b2n])
      simp only [List.append_nil] at this
      rw [this]; simp only []
      cases w <;> simp [bit, b2n]
    | some i =>
      obtain ⟨hp, hi⟩ := h
      simp only [encode, List.singleton_append, List.append_assoc, List.cons_append, List.nil_append]
      rw [decode_cons, show ∀ bs, decodeBody (UInt8.toNat 4) bs = decodeBody 4 bs from fun _ => rfl]
      simp only [decodeBody]
      rw [rd4 p _ hp]; simp only []
      rw [rd1 (b2n w + 2) _ (by cases w <;> simp [b2n])]; simp only []
      have hb : bit (b2n w + 2) 1 = true := by cases w <;> simp [bit, b2n]
      rw [if_pos hb, rd4' i hi]; simp only []
      cases w <;> simp [bit, b2n]
  | portOpened c s =>
    obtain ⟨hc, hs⟩ := h
    simp only [encode, List.singleton_append, List.append_assoc, List.cons_append, List.nil_append]
    rw [decode_cons, show ∀ bs, decodeBody (UInt8.toNat 5) bs = decodeBody 5 bs from fun _ => rfl]
    simp only [decodeBody]
    rw [rd4 c _ hc]; simp only []
    rw [rd4' s hs]
  | rejected c n =>
    have hc : u32 c := h
    simp only [encode, List.singleton_append, List.append_assoc, List.cons_append, List.nil_append]
    rw [decode_cons, show ∀ bs, decodeBody (UInt8.toNat 6) bs = decodeBody 6 bs from fun _ => rfl]
    simp only [decodeBody]
    rw [rd4 c _ hc]; simp only []
    have := rd1 (b2n n) [] (by cases n <;> simp [b2n])
    simp only [List.append_nil] at this
    rw [this]; simp only []
    cases n <;> simp [bit, b2n]
  | data p f l =>
    have hp : u32 p := h
    simp only [encode, List.singleton_append, List.append_assoc, List.cons_append, List.nil_append]
    rw [decode_cons, show ∀ bs, decodeBody (UInt8.toNat 7) bs = decodeBody 7 bs from fun _ => rfl]
    simp only [decodeBody]
    rw [rd4 p _ hp]; simp only []
    have := rd1 (b2n f + 2 * b2n l) [] (by cases f <;> cases l <;> simp [b2n])
    simp only [List.append_nil] at this
    rw [this]; simp only []
    cases f <;> cases l <;> simp [bit, b2n]
  | portData p f l w ps ids =>
    cases ids with
    | none =>
      obtain ⟨hp, hps⟩ := h
      simp only [encode, List.singleton_append, List.append_assoc, List.cons_append, List.nil_append]
      rw [decode_cons, show ∀ bs, decodeBody (UInt8.toNat 8) bs = decodeBody 8 bs from fun _ => rfl]
      simp only [decodeBody]
      rw [rd4 p _ hp]; simp only []
      rw [rd1 _ _ (by cases f <;> cases l <;> cases w <;> simp [b2n])]; simp only []
      have hb : bit (b2n f + 2 * b2n l + 4 * b2n w) 3 = false := by
        cases f <;> cases l <;> cases w <;> simp [bit, b2n]
      rw [hb]; simp only [Bool.false_eq_true, if_false]
      rw [rdPorts_enc ps hps]
      cases f <;> cases l <;> cases w <;> simp [bit, b2n]
    | some is =>
      obtain ⟨hp, hps, his, hl⟩ := h
      simp only [encode, List.singleton_append, List.append_assoc, List.cons_append, List.nil_append]
      rw [decode_cons, show ∀ bs, decodeBody (UInt8.toNat 8) bs = decodeBody 8 bs from fun _ => rfl]
      simp only [decodeBody]
      rw [rd4 p _ hp]; simp only []
      rw [rd1 _ _ (by cases f <;> cases l <;> cases w <;> simp [b2n])]; simp only []
      have hb : bit (b2n f + 2 * b2n l + 4 * b2n w + 8) 3 = true := by
        cases f <;> cases l <;> cases w <;> simp [bit, b2n]
      rw [hb]; simp only [if_true]
      rw [rdPortsIds_enc ps is hps his hl]; simp only []
      cases f <;> cases l <;> cases w <;> simp [bit, b2n]
  | portCredits p c =>
    obtain ⟨hp, hc⟩ := h
    simp only [encode, List.singleton_append, List.append_assoc, List.cons_append, List.nil_append]
    rw [decode_cons, show ∀ bs, decodeBody (UInt8.toNat 9) bs = decodeBody 9 bs from fun _ => rfl]
    simp only [decodeBody]
    rw [rd4 p _ hp]; simp only []
    rw [rd4' c hc]
  | sendFinish p =>
    have hp : u32 p := h
    simp only [encode, List.singleton_append, List.cons_append, List.nil_append]
    rw [decode_cons, show ∀ bs, decodeBody (UInt8.toNat 10) bs = decodeBody 10 bs from fun _ => rfl]
    simp only [decodeBody]
    simp only [rdPort]
    rw [rd4' p hp]
  | receiveClose p =>
    have hp : u32 p := h
    simp only [encode, List.singleton_append, List.cons_append, List.nil_append]
    rw [decode_cons, show ∀ bs, decodeBody (UInt8.toNat 11) bs = decodeBody 11 bs from fun _ => rfl]
    simp only [decodeBody]
    simp only [rdPort]
    rw [rd4' p hp]
  | receiveFinish p =>
    have hp : u32 p := h
    simp only [encode, List.singleton_append, List.cons_append, List.nil_append]
    rw [decode_cons, show ∀ bs, decodeBody (UInt8.toNat 12) bs = decodeBody 12 bs from fun _ => rfl]
    simp only [decodeBody]
    simp only [rdPort]
    rw [rd4' p hp]

/-- **Injectivity.**  Distinct well-formed messages have distinct encodings
(codes and flag bits never collide). -/
theorem encode_injective (a b : Msg) (ha : a.WF) (hb : b.WF) (h : encode a = encode b) : a = b := by
  have h1 := decode_encode a ha
  have h2 := decode_encode b hb
  rw [h] at h1
  rw [h1] at h2
  exact Except.ok.inj h2

/-- Stripping ids keeps a message well-formed. -/
theorem forPeer_WF (v : Nat) (m : Msg) (h : m.WF) : (forPeer v m).WF := by
  cases m with
  | openPort p w id =>
    cases id with
    | none => simp only [forPeer, ite_self]; exact h
    | some i =>
      simp only [forPeer]
      split
      · exact h
      · exact h.1
  | portData p f l w ps ids =>
    cases ids with
    | none => simp only [forPeer, ite_self]; exact h
    | some is =>
      simp only [forPeer]
      split
      · exact h
      · exact ⟨h.1, h.2.1⟩
  | _ => exact h

/-- **Id-less variants are accepted.**  What is sent to an older peer (and what
an older peer sends: the same layout without the id flag and id fields) is
decoded by a version-3 endpoint to the same request without ids. -/
theorem idless_accepted (v : Nat) (m : Msg) (h : m.WF) :
    decode (encode (forPeer v m)) = .ok (forPeer v m) :=
  decode_encode _ (forPeer_WF v m h)

/-- **No ids to old peers.**  The frame emitted for a peer that announced a
version below 3 never carries the id flag. -/
theorem no_ids_to_old_peer (v : Nat) (hv : v < 3) (m : Msg) :
    hasIdFlag (encode (forPeer v m)) = false := by
  have hv' : ¬ (v ≥ versionPortId) := by simp [versionPortId]; omega
  cases m with
  | openPort p w id =>
    simp only [forPeer, hv', if_false, encode, le, List.singleton_append, List.cons_append,
      List.nil_append, hasIdFlag]
    cases w <;> decide
  | portData p f l w ps ids =>
    simp only [forPeer, hv', if_false, encode, le, List.singleton_append, List.cons_append,
      List.nil_append, hasIdFlag]
    cases f <;> cases l <;> cases w <;> decide
  | hello v c => simp [forPeer, encode, magic, encCfg, le, hasIdFlag]
  | reset => rfl
  | ping => rfl
  | clientFinish => rfl
  | listenerFinish => rfl
  | goodbye => rfl
  | portOpened c s => simp [forPeer, encode, le, hasIdFlag]
  | rejected c n => simp [forPeer, encode, le, hasIdFlag]
  | data p f l => simp [forPeer, encode, le, hasIdFlag]
  | portCredits p c => simp [forPeer, encode, le, hasIdFlag]
  | sendFinish p => simp [forPeer, encode, le, hasIdFlag]
  | receiveClose p => simp [forPeer, encode, le, hasIdFlag]
  | receiveFinish p => simp [forPeer, encode, le, hasIdFlag]

/-- Version-3 peers are sent ids unchanged. -/
theorem ids_to_v3_peer (v : Nat) (hv : 3 ≤ v) (m : Msg) : forPeer v m = m := by
  have hv' : v ≥ versionPortId := by simpa [versionPortId] using hv
  cases m <;> simp [forPeer, hv']

/-- **Framing round trip** (`Connect::io`): a frame followed by any further
bytes is split off exactly. -/
theorem unframe_frame (maxLen : Nat) (p rest : Bytes) (h32 : u32 p.length) (hmax : p.length ≤ maxLen) :
    unframe maxLen (frame p ++ rest) = .ok (some (p, rest)) := by
  unfold unframe frame
  have e1 : ((le 4 p.length ++ p) ++ rest).take 4 = le 4 p.length := by
    rw [List.append_assoc, List.take_append_of_le_length (by simp)]
    simp [List.take_of_length_le]
  have e2 : ((le 4 p.length ++ p) ++ rest).drop 4 = p ++ rest := by
    rw [List.append_assoc, List.drop_append_of_le_length (by simp)]
    simp [List.drop_of_length_le]
  have e3 : ¬ ((le 4 p.length ++ p ++ rest).length < 4) := by simp
  simp only [e1, e2, e3, if_false]
  rw [leVal_le 4 _ (by simpa [u32] using h32)]
  simp only [show ¬ (p.length > maxLen) by omega, if_false]
  simp

/-- A prefix that does not yet contain a whole frame is not split
(the decoder waits for more bytes instead of inventing a frame). -/
theorem unframe_incomplete (maxLen : Nat) (p : Bytes) (k : Nat) (h32 : u32 p.length)
    (hmax : p.length ≤ maxLen) (hk : k < (frame p).length) :
    unframe maxLen ((frame p).take k) = .ok none := by
  unfold unframe
  have hfl : (frame p).length = 4 + p.length := by simp [frame]
  by_cases h4 : k < 4
  · have : ((frame p).take k).length < 4 := by rw [List.length_take]; omega
    rw [if_pos this]
  · have hlen : ((frame p).take k).length = k := by
      rw [List.length_take]; omega
    have e1 : ((frame p).take k).take 4 = le 4 p.length := by
      rw [List.take_take, Nat.min_eq_left (by omega)]
      unfold frame
      rw [List.take_append_of_le_length (by simp)]
      simp [List.take_of_length_le]
    have e4 : (((frame p).take k).drop 4).length = k - 4 := by
      rw [List.length_drop, hlen]
    rw [if_neg (by rw [hlen]; exact h4), e1, e4]
    simp only []
    rw [leVal_le 4 _ (by simpa [u32] using h32)]
    rw [if_neg (by omega), if_pos (by omega)]

/-- the byte stream of a list of payloads as `Connect::io` writes it -/
def stream (ps : List Bytes) : Bytes := (ps.map frame).flatten

/-- **Stream round trip** (`Connect::io`, reading side): the concatenation of any number of frames,
followed by an incomplete tail, is split into exactly those frames and that tail — whatever the sizes,
as long as each payload respects the receiver's maximum frame length.  (The partition of the byte
stream into reads does not appear: `splitFrames` is a function of the bytes accumulated so far.) -/
theorem stream_roundtrip (maxLen : Nat) (ps : List Bytes) (tail : Bytes) (acc : List Bytes) (fuel : Nat)
    (h32 : ∀ p ∈ ps, u32 p.length) (hmax : ∀ p ∈ ps, p.length ≤ maxLen)
    (htail : unframe maxLen tail = .ok none) (hfuel : ps.length < fuel) :
    splitFrames maxLen fuel (stream ps ++ tail) acc = .ok (acc.reverse ++ ps, tail) := by
  induction ps generalizing acc fuel with
  | nil =>
    cases fuel with
    | zero => omega
    | succ f => simp [stream, splitFrames, htail]
  | cons p rest ih =>
    cases fuel with
    | zero => omega
    | succ f =>
      have e : stream (p :: rest) ++ tail = frame p ++ (stream rest ++ tail) := by
        simp [stream, List.append_assoc]
      rw [e, splitFrames, unframe_frame maxLen p _ (h32 p (by simp)) (hmax p (by simp))]
      simp only []
      rw [ih (p :: acc) f (fun q hq => h32 q (by simp [hq])) (fun q hq => hmax q (by simp [hq]))
        (by simp at hfuel; omega)]
      simp

/-- an oversize length prefix is refused, wherever it occurs in the stream -/
theorem stream_oversize_refused (maxLen : Nat) (ps : List Bytes) (bad rest : Bytes) (acc : List Bytes) (fuel : Nat)
    (h32 : ∀ p ∈ ps, u32 p.length) (hmax : ∀ p ∈ ps, p.length ≤ maxLen)
    (hb32 : u32 bad.length) (hbad : maxLen < bad.length) (hfuel : ps.length < fuel) :
    splitFrames maxLen fuel (stream ps ++ (frame bad ++ rest)) acc = .error .invalid := by
  induction ps generalizing acc fuel with
  | nil =>
    cases fuel with
    | zero => omega
    | succ f =>
      have : unframe maxLen (frame bad ++ rest) = .error .invalid := by
        unfold unframe frame
        have e1 : ((le 4 bad.length ++ bad) ++ rest).take 4 = le 4 bad.length := by
          rw [List.append_assoc, List.take_append_of_le_length (by simp)]
          simp [List.take_of_length_le]
        have e3 : ¬ ((le 4 bad.length ++ bad ++ rest).length < 4) := by simp
        simp only [e1, e3, if_false]
        rw [leVal_le 4 _ (by simpa [u32] using hb32)]
        simp [hbad]
      simp [stream, splitFrames, this]
  | cons p rest' ih =>
    cases fuel with
    | zero => omega
    | succ f =>
      have e : stream (p :: rest') ++ (frame bad ++ rest) = frame p ++ (stream rest' ++ (frame bad ++ rest)) := by
        simp [stream, List.append_assoc]
      rw [e, splitFrames, unframe_frame maxLen p _ (h32 p (by simp)) (hmax p (by simp))]
      simp only []
      exact ih (p :: acc) f (fun q hq => h32 q (by simp [hq])) (fun q hq => hmax q (by simp [hq]))
        (by simp at hfuel; omega)

/-- non-vacuity: three frames (one empty payload) and a two-byte tail -/
example : splitFrames 8 10 (stream [[1, 2, 3], [], [9]] ++ [7, 0]) [] = .ok ([[1, 2, 3], [], [9]], [7, 0]) := by rfl

/-- Length of an encoded message, by kind. -/
theorem encode_length_fixed (m : Msg) :
    (match m with
     | .portData _ _ _ _ ps none => (encode m).length = 6 + 4 * ps.length
     | .portData _ _ _ _ ps (some is) => (encode m).length = 6 + 8 * min ps.length is.length
     | .hello _ _ => (encode m).length = 26
     | _ => (encode m).length ≤ 10) := by
  cases m with
  | portData p f l w ps ids =>
    cases ids with
    | none =>
      simp only [encode]
      have : ∀ ps : List Nat, (encPorts ps).length = 4 * ps.length := by
        intro ps; induction ps with
        | nil => rfl
        | cons a as ih => simp [encPorts, ih]; omega
      simp [this]; omega
    | some is =>
      simp only [encode]
      have : ∀ (ps is : List Nat), (encPortsIds ps is).length = 8 * min ps.length is.length := by
        intro ps; induction ps with
        | nil => intro is; simp [encPortsIds]
        | cons a as ih =>
          intro is; cases is with
          | nil => simp [encPortsIds]
          | cons b bs => simp [encPortsIds, ih]; omega
      simp [this]; omega
  | hello v c => simp [encode, encCfg, magic]
  | openPort p w id => cases id <;> simp [encode]
  | _ => simp [encode]

/-- **Frame budget (partial).**  Every control frame other than `Hello` and
id-carrying port batches fits the 16-byte header budget, and an id-less port
batch of at most `chunk/4` ports fits `16 + chunk`.  The full statement
"every frame a conforming endpoint emits is ≤ 16 + chunk_size(peer)" is *false*
of the pinned code for id-carrying batches and for `Hello` with `chunk < 10`
(finding F11, witnesses below). -/
theorem frame_fits_partial (m : Msg) (chunk : Nat)
    (hm : match m with
      | .portData _ _ _ _ ps none => 4 * ps.length ≤ chunk
      | .portData _ _ _ _ _ (some _) => False
      | .hello _ _ => False
      | _ => True) :
    (encode m).length ≤ maxMsgLength + chunk := by
  have := encode_length_fixed m
  cases m with
  | portData p f l w ps ids =>
    cases ids with
    | none => simp only [] at this hm; simp only [maxMsgLength]; omega
    | some is => simp at hm
  | hello v c => simp at hm
  | _ => simp only [] at this; simp only [maxMsgLength]; omega

/-- F11 witness: a port batch sized by the 4-bytes-per-port credit rule
(`chunk/4` ports) with ids exceeds the frame budget for `chunk = 16`. -/
theorem frame_fits_fails_with_ids :
    ¬ ((encode (.portData 1 true true false [1, 2, 3, 4] (some [1, 2, 3, 4]))).length
        ≤ maxMsgLength + 16) := by decide

/-- F11 witness: `Hello` is 26 bytes, above the budget for `chunk = 4 … 9`. -/
theorem hello_exceeds_budget_small_chunk :
    ¬ ((encode (.hello 3 ⟨0, 4, 4, 1⟩)).length ≤ maxMsgLength + 4) := by decide

/-! ### non-vacuity -/

example : (Msg.portData 7 true false true [1, 4294967295] (some [9, 0])).WF := by
  simp [Msg.WF, u32]
example : (Msg.hello 3 ⟨60000, 16384, 524288, 128⟩).WF := by
  simp [Msg.WF, XCfg.WF, u8, u16, u32, u64]
example : decode (encode (.openPort 5 true (some 6))) = .ok (.openPort 5 true (some 6)) := by
  rfl

/-! ### an accepted Hello respects the protocol minimums

`ExchangedCfg::read` refuses a chunk size or a port receive buffer below 4 bytes and an empty connect queue.  The
flow-control theorems assume these minimums (`ports_frame_nonempty`, `emit_progress` need `4 ≤ chunk`: with a smaller
chunk size `Sender::connect` computes a batch of zero ports and never finishes — seeded change C08-m4). -/
theorem decCfg_minimums (bs : Bytes) (c : XCfg) (h : decCfg bs = .ok c) :
    4 ≤ c.chunk ∧ 4 ≤ c.buf ∧ 1 ≤ c.cq := by
  unfold decCfg at h
  repeat' split at h
  all_goals first
    | (injection h with h; subst h; simp only; omega)
    | cases h

theorem decoded_hello_minimums (bs : Bytes) (v : Nat) (c : XCfg) (h : decode bs = .ok (.hello v c)) :
    4 ≤ c.chunk ∧ 4 ≤ c.buf ∧ 1 ≤ c.cq := by
  cases bs with
  | nil => simp [decode] at h
  | cons code rest =>
    simp only [decode] at h
    generalize code.toNat = n at h
    -- only code 2 produces a Hello
    by_cases h2 : n = 2
    · subst h2
      simp only [decodeBody] at h
      repeat' split at h
      all_goals first
        | (cases h; done)
        | (cases h; exact decCfg_minimums _ _ ‹_›)
    · exfalso
      unfold decodeBody at h
      repeat' split at h
      all_goals first
        | exact h2 rfl
        | cases h
        | (injection h with h; cases h)
        | (simp only [rdPort] at h
           repeat' split at h
           all_goals first
             | cases h
             | (injection h with h; cases h))

/-- the premises are met, and the bound is sharp: a Hello announcing chunk size 4 is accepted, the same frame with
chunk size 3 is refused -/
example : decode [0x02, 0x43, 0x48, 0x4d, 0x55, 0x58, 0x00, 0x03, 1, 0, 0, 0, 0, 0, 0, 0, 4, 0, 0, 0, 4, 0, 0, 0, 1, 0] =
    .ok (.hello 3 { timeoutMs := 1, chunk := 4, buf := 4, cq := 1 }) := by rfl
example : decode [0x02, 0x43, 0x48, 0x4d, 0x55, 0x58, 0x00, 0x03, 1, 0, 0, 0, 0, 0, 0, 0, 3, 0, 0, 0, 4, 0, 0, 0, 1, 0] =
    .error .invalid := by rfl

end Remoc.Wire
